(* C14 — record-level executable model of consensus/walstore (juno).

   What is modelled (hand transcription, checked by the correspondence run on every check):
     wal_store.go   SetWALEntry / DeleteWALEntries (pending records, in-place merge of the pending
                    prune record) / flushLocked / removeObsoleteWALFiles (every
                    cleanupPruneRecordInterval = 256 prune records: watermark tmp+rename, rotation,
                    deletion of every log file below minLiveWALNum) / Close / NewTendermintWALStore
     wal_writer.go  ensureWriter (a new numbered file per writer), appendSync, abortUncommitted
                    (close + truncate to the synced offset; repairRequired when that fails),
                    recoverLatestWALTail (the *latest* file's invalid tail is cut on open)
     replay.go      loadExistingEntries: files in number order, non-latest files must read cleanly,
                    entry / prune records applied in order starting from the watermark
     wal_index.go   entriesByHeight, walFilesByHeight (walHeightRefs is the derived count: the model
                    computes minLiveWALNum from the per-height file sets directly)
     pebble wal.Reader: batches whose sequence number is not above the last one returned from the
                    same file are skipped.
   Record framing (Pebble record chunks + CRC) is not part of THIS file: a file is a list of complete batch
   records plus a flag [ftorn] = "bytes that do not form a complete valid record follow" (a strict
   prefix of a record, a record with a corrupted byte, a partial EOF trailer).  That this is what the
   reader makes of the bytes of a log file - every complete record intact, an incomplete tail reported
   invalid - was the hypothesis frame_detects_torn of DESIGN section 6; it is now modelled at byte level in
   Frame.v and proved in Proofs_frame.v for every byte prefix of a written file (C14_frame_detects_torn,
   C14_frame_inflight_images; abstraction function [file_of_bytes] below).  A complete EOF trailer reads
   as a clean end of file and is not represented here.

   A crash is an outcome of an operation ([FCrash cp], [Close true], or [Reopen] of a store that was
   not closed): the disk stays in the intermediate state named by the crash point, memory is lost. *)
From Coq Require Import List NArith Bool.
(* the byte-level framing of one log file (Pebble record chunks, CRC, block padding, EOF trailer) is
   modelled in Frame.v; [file_of_bytes] at the end of this file is the abstraction function from the bytes
   of a log file to the [file] of this model, and Proofs_frame.v proves that on every byte prefix of a
   written file it yields complete batches + the flag [ftorn] (the former hypothesis frame_detects_torn) *)
From V Require C14.Frame.
Import ListNotations.
Open Scope N_scope.

(* ---------- records, batches, files, disk ---------- *)
Inductive rec := REntry (h id : N) | RPrune (h : N).
Definition batch := (N * list rec)%type.           (* batchrepr sequence number, records *)
Record file := mkFile { fnum : N; fbat : list batch; ftorn : bool }.
Record disk := mkDisk { dfiles : list file;        (* ascending file number *)
                        dwm : option N;            (* prune-watermark file *)
                        dtmp : bool }.             (* prune-watermark.tmp present (any content) *)

Definition cleanup_interval : N := 256.

(* ---------- per-height index (entriesByHeight + walFilesByHeight), sorted by height ---------- *)
Record hent := mkH { hh : N; hids : list N; hfs : list N }.
Definition index := list hent.

Fixpoint memN (x : N) (l : list N) : bool :=
  match l with [] => false | y :: r => (x =? y) || memN x r end.
Definition add_missing (x : N) (l : list N) : list N := if memN x l then l else l ++ [x].

Fixpoint idx_add (ix : index) (h id fn : N) : index :=
  match ix with
  | [] => [mkH h [id] [fn]]
  | e :: r => if h <? hh e then mkH h [id] [fn] :: ix
              else if h =? hh e then mkH h (hids e ++ [id]) (add_missing fn (hfs e)) :: r
              else e :: idx_add r h id fn
  end.
Definition idx_prune (ix : index) (p : N) : index := filter (fun e => p <? hh e) ix.

(* LoadAllEntries: heights ascending, per height in insertion order *)
Definition flat (ix : index) : list (N * N) :=
  flat_map (fun e => map (fun i => (hh e, i)) (hids e)) ix.

(* applyEncodedRecord / updateIndexesFromCommittedRecords: the same code path for replay and commit *)
Definition apply_rec (st : index * N) (fr : N * rec) : index * N :=
  let (ix, p) := st in
  match snd fr with
  | REntry h id => if h <=? p then st else (idx_add ix h id (fst fr), p)
  | RPrune h => if h <=? p then st else (idx_prune ix h, h)
  end.

(* ---------- reading files ---------- *)
(* pebble wal reader: skip a batch whose seq is <= the last returned one of this file *)
Fixpoint dedup (last : N) (bs : list batch) : list batch :=
  match bs with
  | [] => []
  | b :: r => if fst b <=? last then dedup last r else b :: dedup (fst b) r
  end.
Definition file_recs (f : file) : list (N * rec) :=
  map (fun r => (fnum f, r)) (concat (map snd (dedup 0 (fbat f)))).
Definition tagged (fs : list file) : list (N * rec) := flat_map file_recs fs.

Definition scan_seq (fs : list file) : N :=
  fold_left (fun a f => fold_left (fun a b => N.max a (fst b + N.of_nat (length (snd b)))) (dedup 0 (fbat f)) a) fs 1.

Fixpoint nonlast_clean (fs : list file) : bool :=
  match fs with
  | [] => true
  | [_] => true
  | f :: r => negb (ftorn f) && nonlast_clean r
  end.
Fixpoint untear_last (fs : list file) : list file :=
  match fs with
  | [] => []
  | [f] => [mkFile (fnum f) (fbat f) false]
  | f :: r => f :: untear_last r
  end.
Definition next_num (fs : list file) : N := fold_left (fun a f => N.max a (fnum f + 1)) fs 1.

(* ---------- memory ---------- *)
Record mem := mkMem {
  mclosed : bool; mdead : bool;       (* dead = the process crashed / open failed *)
  mrepair : bool;                     (* walWriter.repairRequired *)
  mcur : option N;                    (* open writer's file number *)
  mnext : N; mseq : N; mpruned : N; msince : N;
  mpend : list rec; midx : index }.

Definition wm_val (d : disk) : N := match dwm d with Some w => w | None => 0 end.

(* NewTendermintWALStore: tail recovery of the latest file, watermark, replay *)
Definition open (d : disk) : option (disk * mem) :=
  if nonlast_clean (dfiles d) then
    let fs := untear_last (dfiles d) in
    let '(ix, p) := fold_left apply_rec (tagged fs) ([], wm_val d) in
    Some (mkDisk fs (dwm d) (dtmp d),
          mkMem false false false None (next_num fs) (scan_seq fs) p 0 [] ix)
  else None.

Definition load (m : mem) : list (N * N) := flat (midx m).

(* ---------- operations ---------- *)
Inductive wrote := WNone | WPartial | WFull.
Inductive cpoint :=
  | CPNewFile            (* writer file created, nothing written *)
  | CPTorn               (* a strict prefix / corrupted image of the batch record *)
  | CPFull               (* the whole record is in the file, Flush has not returned *)
  | CPWmTmp              (* cleanup: prune-watermark.tmp written *)
  | CPWmRen              (* cleanup: renamed over prune-watermark *)
  | CPRotTorn            (* cleanup: rotation, EOF trailer partially written *)
  | CPRot                (* cleanup: rotated, nothing removed yet *)
  | CPDel (gone : list N). (* cleanup: these (obsolete) files have disappeared, in any order *)
Inductive fout := FOk | FFail (w : wrote) (repair_ok : bool) | FCrash (c : cpoint).
Inductive op := Append (h id : N) | Prune (h : N) | Flush (o : fout) | Close (crash : bool) | Reopen.

Inductive res := ROk | RNoop (* success, nothing done: Close of a closed store *) | RRefused | RFail (landed : bool) | RCrash (landed : bool).

(* DeleteWALEntries: the first pending prune record absorbs later prunes *)
Fixpoint merge_prune (l : list rec) (h : N) : option (list rec) :=
  match l with
  | [] => None
  | RPrune p :: r => Some (RPrune (N.max p h) :: r)
  | e :: r => match merge_prune r h with Some r' => Some (e :: r') | None => None end
  end.

Definition is_prune (r : rec) : bool := match r with RPrune _ => true | _ => false end.
Definition count_prunes (l : list rec) : N := N.of_nat (length (filter is_prune l)).

Fixpoint upd_file (fs : list file) (n : N) (g : file -> file) : list file :=
  match fs with
  | [] => []
  | f :: r => if fnum f =? n then g f :: r else f :: upd_file r n g
  end.
Definition add_batch (b : batch) (f : file) := mkFile (fnum f) (fbat f ++ [b]) (ftorn f).
Definition set_torn (f : file) := mkFile (fnum f) (fbat f) true.

Definition with_files (d : disk) (fs : list file) := mkDisk fs (dwm d) (dtmp d).

(* minLiveWALNum over the writer and every file still referenced by a live height *)
Definition min_live (nxt : N) (ix : index) : N :=
  fold_left (fun a e => fold_left N.min (hfs e) a) ix nxt.

Definition dead (m : mem) : mem :=
  mkMem (mclosed m) true (mrepair m) None (mnext m) (mseq m) (mpruned m) (msince m) (mpend m) (midx m).

Definition fin (o : fout) (dd : disk) (mm : mem) : disk * mem * res :=
  match o with FOk => (dd, mm, ROk) | _ => (dd, dead mm, RCrash true) end.

(* flushLocked after appendSync returned (the record is synced): index update, then
   removeObsoleteWALFiles. [landed] is the disk with the record in file [cur]. *)
Definition commit_core (landed : disk) (cur nxt : N) (m : mem) (o : fout) : disk * mem * res :=
  let '(ix, p) := fold_left apply_rec (map (fun r => (cur, r)) (mpend m)) (midx m, mpruned m) in
  let sq := mseq m + N.of_nat (length (mpend m)) in
  let np := count_prunes (mpend m) in
  let since := msince m + np in
  let m2 s c := mkMem false false false c nxt sq p s [] ix in
  if (np =? 0) || (since <? cleanup_interval) then fin o landed (m2 since (Some cur))
  else
    match o with
    | FCrash CPFull => (landed, dead (m2 since (Some cur)), RCrash true)
    | FCrash CPWmTmp => (mkDisk (dfiles landed) (dwm landed) true, dead (m2 since (Some cur)), RCrash true)
    | _ =>
      let d3 := mkDisk (dfiles landed) (Some p) false in
      match o with
      | FCrash CPWmRen => (d3, dead (m2 since (Some cur)), RCrash true)
      | FCrash CPRotTorn => (with_files d3 (upd_file (dfiles d3) cur set_torn), dead (m2 since None), RCrash true)
      | FCrash CPRot => (d3, dead (m2 since None), RCrash true)
      | _ =>
        let ml := min_live nxt ix in
        let keep (f : file) :=
          match o with
          | FCrash (CPDel gone) => negb ((fnum f <? ml) && memN (fnum f) gone)
          | _ => negb (fnum f <? ml)
          end in
        fin o (with_files d3 (filter keep (dfiles d3))) (m2 0 None)
      end
    end.

(* flushLocked for a non-empty pending batch once the writer (file [cur] of [d1]) exists *)
Definition flush_core (d1 : disk) (cur nxt : N) (m : mem) (o : fout) : disk * mem * res :=
  let m1 := mkMem false false false (Some cur) nxt (mseq m) (mpruned m) (msince m) (mpend m) (midx m) in
  let landed := with_files d1 (upd_file (dfiles d1) cur (add_batch (mseq m, mpend m))) in
  let torn := with_files d1 (upd_file (dfiles d1) cur set_torn) in
  let writer_gone (rep : bool) :=
    mkMem false false rep None nxt (mseq m) (mpruned m) (msince m) (mpend m) (midx m) in
  match o with
  | FCrash CPNewFile => (d1, dead m1, RCrash false)
  | FCrash CPTorn => (torn, dead m1, RCrash false)
  | FFail _ true => (d1, writer_gone false, RFail false)       (* truncated back to the synced offset *)
  | FFail WNone false => (d1, writer_gone true, RFail false)
  | FFail WPartial false => (torn, writer_gone true, RFail false)
  | FFail WFull false => (landed, writer_gone true, RFail true)
  | _ => commit_core landed cur nxt m o
  end.

(* ensureWriter, then the above *)
Definition flush_body (d : disk) (m : mem) (o : fout) : disk * mem * res :=
  match mcur m with
  | Some n => flush_core d n (mnext m) m o
  | None => flush_core (with_files d (dfiles d ++ [mkFile (mnext m) [] false])) (mnext m) (mnext m + 1) m o
  end.

Definition flush (d : disk) (m : mem) (o : fout) : disk * mem * res :=
  if mclosed m || mdead m then (d, m, RRefused)
  else match mpend m with
       | [] => match o with
               | FCrash _ => (d, dead m, RCrash false)
               | _ => (d, m, ROk)
               end
       | _ => if mrepair m then (d, m, RRefused) else flush_body d m o
       end.

Definition with_pend (m : mem) (l : list rec) : mem :=
  mkMem (mclosed m) (mdead m) (mrepair m) (mcur m) (mnext m) (mseq m) (mpruned m) (msince m) l (midx m).

Definition mstep (d : disk) (m : mem) (o : op) : disk * mem * res :=
  match o with
  | Append h id =>
      if mclosed m || mdead m then (d, m, RRefused)
      else if h <=? mpruned m then (d, m, ROk)
      else (d, with_pend m (mpend m ++ [REntry h id]), ROk)
  | Prune h =>
      if mclosed m || mdead m then (d, m, RRefused)
      else if h <=? mpruned m then (d, m, ROk)
      else match merge_prune (mpend m) h with
           | Some l => (d, with_pend m l, ROk)
           | None => (d, with_pend m (mpend m ++ [RPrune h]), ROk)
           end
  | Flush o => flush d m o
  | Close crash =>
      if mdead m then (d, m, RRefused)
      else if mclosed m then (d, m, RNoop)
      else
        let '(d1, m1, r) := flush d m FOk in
        let shut (dd : disk) :=
          mkMem true false (mrepair m1) None (mnext m1) (mseq m1) (mpruned m1) (msince m1) (mpend m1) (midx m1) in
        if crash then
          let d2 := match mcur m1 with
                    | Some n => with_files d1 (upd_file (dfiles d1) n set_torn)
                    | None => d1 end in
          (d2, dead m1, match r with ROk => RCrash true | _ => RRefused end)
        else (d1, shut d1, r)
  | Reopen =>
      match open d with
      | Some (d', m') => (d', m', ROk)
      | None => (d, dead m, RRefused)
      end
  end.

(* ---------- the abstract history (what the property text talks about) ---------- *)
Record spec := mkSpec {
  sack : list rec;      (* records of every batch whose Flush/Close returned success (or that a reopen recovered) *)
  sdur : list rec;      (* what is durable: sack, or sack ++ the in-flight batch *)
  sinfl : list rec;     (* the batch that was being flushed when the crash / failure happened *)
  spend : list rec }.   (* calls accepted since the last successful flush *)

Definition accepted (r : res) : bool := match r with ROk => true | _ => false end.

Definition sstep (s : spec) (o : op) (r : res) : spec :=
  match o with
  | Append h id => if accepted r then mkSpec (sack s) (sdur s) (sinfl s) (spend s ++ [REntry h id]) else s
  | Prune h => if accepted r then mkSpec (sack s) (sdur s) (sinfl s) (spend s ++ [RPrune h]) else s
  | Flush _ | Close _ =>
      match r with
      | ROk => mkSpec (sack s ++ spend s) (sack s ++ spend s) [] []
      | RRefused | RNoop => s
      | RFail landed =>
          (* the call returned: when nothing of the batch stayed on disk there is no batch in flight *)
          mkSpec (sack s) (if landed then sack s ++ spend s else sdur s) (if landed then spend s else []) (spend s)
      | RCrash landed =>
          mkSpec (sack s) (if landed then sack s ++ spend s else sdur s) (spend s) (spend s)
      end
  | Reopen => if accepted r then mkSpec (sdur s) (sdur s) [] [] else s
  end.

Definition state := (disk * mem * spec)%type.
Definition d0 : disk := mkDisk [] None false.
Definition s0 : spec := mkSpec [] [] [] [].
Definition init : option state :=
  match open d0 with Some (d, m) => Some (d, m, s0) | None => None end.
Definition m0 : mem := mkMem false false false None 1 1 0 0 [] [].
Definition st0 : state := (d0, m0, s0).

Definition step (st : state) (o : op) : state * res :=
  let '(d, m, s) := st in
  let '(d', m', r) := mstep d m o in
  ((d', m', sstep s o r), r).

Definition run (ops : list op) : state := fold_left (fun st o => fst (step st o)) ops st0.
Fixpoint run_res (st : state) (ops : list op) : list res :=
  match ops with [] => [] | o :: r => let (st', x) := step st o in x :: run_res st' r end.

(* ---------- the property's own vocabulary ---------- *)
Definition maxprune (l : list rec) : N :=
  fold_left (fun a r => match r with RPrune h => N.max a h | _ => a end) l 0.
Definition entries (l : list rec) : list (N * N) :=
  flat_map (fun r => match r with REntry h i => [(h, i)] | _ => [] end) l.
(* stable insertion by height: after every element whose height is <= *)
Fixpoint ins (e : N * N) (l : list (N * N)) : list (N * N) :=
  match l with
  | [] => [e]
  | x :: r => if fst e <? fst x then e :: l else x :: ins e r
  end.
Definition hsort (l : list (N * N)) : list (N * N) := fold_left (fun acc e => ins e acc) l [].
(* a height is pruned when some prune-up-to request at or above it is in the history *)
Definition covered (l : list rec) (h : N) : bool :=
  existsb (fun r => match r with RPrune p => h <=? p | _ => false end) l.
(* the largest prune request, None when nothing was ever pruned (height 0 is then still live) *)
Definition prune_bound (l : list rec) : option N :=
  fold_left (fun a r => match r with
                        | RPrune h => Some (match a with Some x => N.max x h | None => h end)
                        | _ => a end) l None.
Definition is_live (b : option N) (h : N) : bool := match b with None => true | Some p => p <? h end.
(* entries of unpruned heights, by height then append order *)
Definition live (l : list rec) : list (N * N) :=
  let b := prune_bound l in
  hsort (filter (fun e => is_live b (fst e)) (entries l)).
(* the same with "pruned" = at or below the largest prune height (differs only for height 0 in a
   history without prune requests) *)
Definition live' (l : list rec) : list (N * N) :=
  hsort (filter (fun e => maxprune l <? fst e) (entries l)).

Fixpoint eq_ents (a b : list (N * N)) : bool :=
  match a, b with
  | [], [] => true
  | (h, i) :: a', (h', i') :: b' => (h =? h') && (i =? i') && eq_ents a' b'
  | _, _ => false
  end.

(* the predicate evaluated on what the implementation returned after opening a crash image *)
Definition recover_ok (ack infl : list rec) (obs : option (list (N * N))) : bool :=
  match obs with
  | None => false
  | Some l => eq_ents l (live ack) || eq_ents l (live (ack ++ infl))
  end.
Definition no_revive_ok (ack : list rec) (obs : list (N * N)) : bool :=
  let b := prune_bound ack in forallb (fun e => is_live b (fst e)) obs.

Definition reopen_obs (d : disk) : option (list (N * N)) :=
  match open d with Some (_, m) => Some (load m) | None => None end.

(* ---------- from the bytes of a log file to the [file] of this model ---------- *)
(* [crc] is Pebble's chunk checksum, [dec_batch] the decoder of walstore's batch encoding (codec.go over
   batchrepr); both are parameters: the theorems of Proofs_frame.v hold for every checksum function and
   need only  dec_batch (enc_batch b) = b . The log number in the chunk headers is uint32(file number). *)
Definition file_of_bytes (crc : Frame.bytes -> N) (dec_batch : Frame.bytes -> batch) (num : N) (b : Frame.bytes) : file :=
  let '(recs, st) := Frame.decode crc (num mod Frame.W32) b in
  mkFile num (map dec_batch recs) (match st with Frame.Torn => true | Frame.Clean => false end).
