(* C14 — part A: what a reopen returns, as a function of the watermark and the complete records on
   disk (replay = filter by the final prune bound, stable by height). *)
From Coq Require Import List NArith Bool Lia ZifyN ZifyBool.
From V Require Import C14.Model.
Import ListNotations.
Open Scope N_scope.

Arguments flat : simpl never.

(* ---------- sortedness ---------- *)
Fixpoint hsorted (l : list (N * N)) : Prop :=
  match l with
  | [] => True
  | x :: r => (forall y, In y r -> fst x <= fst y) /\ hsorted r
  end.

Fixpoint isorted (ix : index) : Prop :=
  match ix with
  | [] => True
  | e :: r => (forall e', In e' r -> hh e < hh e') /\ isorted r
  end.

Lemma in_flat : forall ix x, In x (flat ix) -> exists e, In e ix /\ fst x = hh e.
Proof.
  induction ix as [|e r IH]; simpl; intros x H; [contradiction|].
  unfold flat in H. simpl in H. apply in_app_or in H. destruct H as [H|H].
  - apply in_map_iff in H. destruct H as [i [Hi _]]. exists e. subst x. simpl. auto.
  - destruct (IH x H) as [e' [He' Hx]]. exists e'. auto.
Qed.

Lemma flat_cons : forall e r, flat (e :: r) = map (fun i => (hh e, i)) (hids e) ++ flat r.
Proof. reflexivity. Qed.

Lemma hsorted_app_same : forall h ids l,
  (forall y, In y l -> h <= fst y) -> hsorted l -> hsorted (map (fun i => (h, i)) ids ++ l).
Proof.
  induction ids as [|i r IH]; simpl; intros l Hl Hs; auto.
  split; auto. intros y Hy. apply in_app_or in Hy. destruct Hy as [Hy|Hy].
  - apply in_map_iff in Hy. destruct Hy as [j [Hj _]]. subst y. simpl. lia.
  - simpl. auto.
Qed.

Lemma isorted_flat : forall ix, isorted ix -> hsorted (flat ix).
Proof.
  induction ix as [|e r IH]; simpl; intros H; auto.
  destruct H as [H1 H2]. rewrite flat_cons. apply hsorted_app_same; auto.
  intros y Hy. destruct (in_flat _ _ Hy) as [e' [He' Hx]]. rewrite Hx. specialize (H1 _ He'). lia.
Qed.

(* ---------- ins ---------- *)
Lemma ins_app_le : forall e l1 l2, (forall x, In x l1 -> fst x <= fst e) -> ins e (l1 ++ l2) = l1 ++ ins e l2.
Proof.
  induction l1 as [|x r IH]; simpl; intros l2 H; auto.
  assert (fst x <= fst e) by (apply H; auto).
  destruct (fst e <? fst x) eqn:E; [lia|]. f_equal. apply IH. intros; apply H; auto.
Qed.

Lemma ins_lt_head : forall e l, (forall x, In x l -> fst e < fst x) -> ins e l = e :: l.
Proof.
  destruct l as [|x r]; simpl; intros H; auto.
  assert (fst e < fst x) by (apply H; auto). destruct (fst e <? fst x) eqn:E; [auto|lia].
Qed.

Lemma in_ins : forall e l x, In x (ins e l) <-> x = e \/ In x l.
Proof.
  induction l as [|y r IH]; simpl; intros x.
  - intuition.
  - destruct (fst e <? fst y); simpl; [intuition|]. rewrite IH. intuition.
Qed.

Lemma hsorted_ins : forall e l, hsorted l -> hsorted (ins e l).
Proof.
  induction l as [|y r IH]; simpl; intros H; [split; auto; intros ? []|].
  destruct H as [H1 H2]. destruct (fst e <? fst y) eqn:E; simpl.
  - split; [|split; auto]. intros z [Hz|Hz]; [subst; lia|]. specialize (H1 _ Hz). lia.
  - split; auto. intros z Hz. apply in_ins in Hz. destruct Hz as [Hz|Hz]; [subst; lia|auto].
Qed.

Lemma flat_idx_add : forall ix h id fn, isorted ix ->
  flat (idx_add ix h id fn) = ins (h, id) (flat ix) /\ isorted (idx_add ix h id fn) /\
  (forall e', In e' (idx_add ix h id fn) -> hh e' = h \/ exists e, In e ix /\ hh e = hh e').
Proof.
  induction ix as [|e r IH]; simpl; intros h id fn Hs.
  - split; [reflexivity|]. split; [simpl; split; [intros ? []|exact I]|]. intros e' [H|[]]. subst; auto.
  - destruct Hs as [H1 H2].
    destruct (h <? hh e) eqn:E1.
    + split; [|split].
      * rewrite flat_cons. simpl. symmetry. apply ins_lt_head. simpl.
        intros x Hx. destruct (in_flat (e :: r) x Hx) as [e' [He' Hxe]]. rewrite Hxe.
        destruct He' as [He'|He']; [subst; lia|]. specialize (H1 _ He'). lia.
      * simpl. split; auto. intros e' [He'|He']; [subst; lia|]. specialize (H1 _ He'). lia.
      * intros e' [He'|He']; [subst; auto|]. right. exists e'. split; auto.
    + destruct (h =? hh e) eqn:E2.
      * assert (h = hh e) by lia. subst h. split; [|split].
        -- rewrite !flat_cons. simpl. rewrite map_app. simpl. rewrite <- app_assoc.
           rewrite ins_app_le.
           2:{ intros x Hx. apply in_map_iff in Hx. destruct Hx as [i [Hi _]]. subst x. simpl. lia. }
           f_equal. symmetry. apply ins_lt_head. simpl.
           intros x Hx. destruct (in_flat _ _ Hx) as [e' [He' Hxe]]. rewrite Hxe. apply H1; auto.
        -- simpl. split; auto.
        -- intros e' [He'|He']; [subst; auto|]. right. exists e'. auto.
      * destruct (IH h id fn H2) as [I1 [I2 I3]]. split; [|split].
        -- rewrite !flat_cons. rewrite I1. symmetry. apply ins_app_le.
           intros x Hx. apply in_map_iff in Hx. destruct Hx as [i [Hi _]]. subst x. simpl. lia.
        -- simpl. split; auto. intros e' He'. destruct (I3 _ He') as [Hh|[e0 [He0 Hh]]].
           ++ rewrite Hh. lia.
           ++ rewrite <- Hh. apply H1; auto.
        -- intros e' [He'|He']; [subst; right; exists e'; auto|].
           destruct (I3 _ He') as [Hh|[e0 [He0 Hh]]]; auto. right. exists e0. auto.
Qed.

Lemma flat_idx_prune : forall ix p, isorted ix ->
  flat (idx_prune ix p) = filter (fun x => p <? fst x) (flat ix) /\ isorted (idx_prune ix p).
Proof.
  induction ix as [|e r IH]; simpl; intros p Hs; auto.
  destruct Hs as [H1 H2]. destruct (IH p H2) as [I1 I2].
  rewrite flat_cons, filter_app, <- I1.
  destruct (p <? hh e) eqn:E.
  - split.
    + rewrite flat_cons. f_equal. induction (hids e) as [|i l IHl]; simpl; auto. rewrite E. f_equal. auto.
    + simpl. split; auto. intros e' He'. unfold idx_prune in He'. apply filter_In in He'. apply H1. tauto.
  - split; auto.
    induction (hids e) as [|i l IHl]; simpl; auto. rewrite E. auto.
Qed.

Lemma filter_ins : forall p e l, hsorted l ->
  filter (fun x => p <? fst x) (ins e l) =
  if p <? fst e then ins e (filter (fun x => p <? fst x) l) else filter (fun x => p <? fst x) l.
Proof.
  induction l as [|y r IH]; simpl; intros Hs.
  - destruct (p <? fst e); reflexivity.
  - destruct Hs as [H1 H2]. destruct (fst e <? fst y) eqn:E; simpl.
    + destruct (p <? fst e) eqn:Ep.
      * assert (p <? fst y = true) as -> by lia. simpl. rewrite E. reflexivity.
      * reflexivity.
    + rewrite (IH H2). destruct (p <? fst e) eqn:Ep; auto.
      destruct (p <? fst y) eqn:Ey; simpl; [rewrite E; auto|].
      (* y is filtered out: every remaining element is >= fst y, e goes in front of what is left *)
      reflexivity.
Qed.

(* ---------- the replay fold ---------- *)
Definition maxp (p : N) (l : list rec) : N :=
  fold_left (fun a r => match r with RPrune h => N.max a h | _ => a end) l p.

Lemma maxp_ge : forall l p, p <= maxp p l.
Proof.
  induction l as [|r l IH]; simpl; intros p; [lia|].
  unfold maxp in *. simpl. destruct r; auto. specialize (IH (N.max p h)). lia.
Qed.

Lemma maxp_max : forall l p, maxp p l = N.max p (maxprune l).
Proof.
  unfold maxprune. intros l. fold (maxp 0 l).
  induction l as [|r l IH]; intros p; [unfold maxp; simpl; lia|].
  unfold maxp in *. simpl. destruct r; auto. rewrite IH. rewrite (IH (N.max 0 h)). lia.
Qed.

Lemma maxprune_app : forall a b, maxprune (a ++ b) = N.max (maxprune a) (maxprune b).
Proof.
  intros. unfold maxprune at 1. rewrite fold_left_app. fold (maxp 0 a). fold (maxp (maxp 0 a) b).
  rewrite maxp_max. rewrite (maxp_max a 0). lia.
Qed.

Lemma entries_app : forall a b, entries (a ++ b) = entries a ++ entries b.
Proof. intros. unfold entries. apply flat_map_app. Qed.

Lemma filter_filter_ge : forall (p q : N) (l : list (N * N)), q <= p ->
  filter (fun x => p <? fst x) (filter (fun x => q <? fst x) l) = filter (fun x => p <? fst x) l.
Proof.
  induction l as [|x r IH]; simpl; intros H; auto.
  destruct (q <? fst x) eqn:E1; simpl; destruct (p <? fst x) eqn:E2; try rewrite IH; auto. lia.
Qed.

Lemma hsorted_filter : forall (f : N * N -> bool) l, hsorted l -> hsorted (filter f l).
Proof.
  induction l as [|x r IH]; simpl; intros H; auto. destruct H as [H1 H2].
  destruct (f x); simpl; auto. split; auto. intros y Hy. apply filter_In in Hy. apply H1. tauto.
Qed.

Definition above (p : N) (ix : index) : Prop := forall e, In e ix -> p < hh e.

Lemma filter_above : forall p ix, above p ix -> filter (fun x => p <? fst x) (flat ix) = flat ix.
Proof.
  intros p ix H. assert (forall x, In x (flat ix) -> (p <? fst x) = true).
  { intros x Hx. destruct (in_flat _ _ Hx) as [e [He Hh]]. rewrite Hh. specialize (H _ He). lia. }
  induction (flat ix) as [|x r IH]; simpl; auto. rewrite H0 by (simpl; auto). f_equal. apply IH.
  intros; apply H0; simpl; auto.
Qed.

Lemma replay_fold : forall (trs : list (N * rec)) ix p ix' p',
  isorted ix -> above p ix ->
  fold_left apply_rec trs (ix, p) = (ix', p') ->
  p' = maxp p (map snd trs) /\ isorted ix' /\ above p' ix' /\
  flat ix' = fold_left (fun acc e => ins e acc)
               (filter (fun x => p' <? fst x) (entries (map snd trs)))
               (filter (fun x => p' <? fst x) (flat ix)).
Proof.
  induction trs as [|[fn r] trs IH]; simpl; intros ix p ix' p' Hs Ha H.
  - inversion H; subst. split; [reflexivity|]. split; auto. split; auto. symmetry. apply filter_above; auto.
  - destruct r as [h id|h]; simpl in H.
    + destruct (h <=? p) eqn:E.
      * destruct (IH _ _ _ _ Hs Ha H) as [I1 [I2 [I3 I4]]]. split; [exact I1|]. split; auto. split; auto.
        assert (p <= p') by (rewrite I1; apply maxp_ge).
        simpl. assert ((p' <? h) = false) as -> by lia. exact I4.
      * destruct (flat_idx_add ix h id fn Hs) as [F1 [F2 F3]].
        assert (Ha' : above p (idx_add ix h id fn)).
        { intros e He. destruct (F3 _ He) as [Hh|[e0 [He0 Hh]]]; [lia|]. rewrite <- Hh. apply Ha; auto. }
        destruct (IH _ _ _ _ F2 Ha' H) as [I1 [I2 [I3 I4]]]. split; [exact I1|]. split; auto. split; auto.
        rewrite I4, F1. rewrite filter_ins by (apply isorted_flat; auto). simpl.
        destruct (p' <? h); reflexivity.
    + destruct (h <=? p) eqn:E.
      * destruct (IH _ _ _ _ Hs Ha H) as [I1 [I2 [I3 I4]]]. split; [|split; auto].
        unfold maxp in *. simpl. assert (N.max p h = p) as -> by lia. exact I1.
      * destruct (flat_idx_prune ix h Hs) as [F1 F2].
        assert (Ha' : above h (idx_prune ix h)).
        { intros e He. unfold idx_prune in He. apply filter_In in He. lia. }
        destruct (IH _ _ _ _ F2 Ha' H) as [I1 [I2 [I3 I4]]]. split; [|split; auto; split; auto].
        -- unfold maxp in *. simpl. assert (N.max p h = h) as -> by lia. exact I1.
        -- rewrite I4, F1. rewrite filter_filter_ge; auto. rewrite I1. apply maxp_ge.
Qed.

(* ---------- reading the disk ---------- *)
Lemma file_recs_torn : forall n b t t', file_recs (mkFile n b t) = file_recs (mkFile n b t').
Proof. reflexivity. Qed.

Lemma tagged_untear : forall fs, tagged (untear_last fs) = tagged fs.
Proof.
  induction fs as [|f r IH]; [reflexivity|]. destruct r as [|g r'].
  - destruct f. reflexivity.
  - change (untear_last (f :: g :: r')) with (f :: untear_last (g :: r')).
    change (tagged (f :: untear_last (g :: r'))) with (file_recs f ++ tagged (untear_last (g :: r'))).
    rewrite IH. reflexivity.
Qed.

Definition disk_recs (d : disk) : list rec := map snd (tagged (dfiles d)).

(* what a reopen returns: entries on disk above the final bound max(watermark, prunes on disk),
   stable by height *)
Lemma reopen_exact : forall d,
  nonlast_clean (dfiles d) = true ->
  let p := N.max (wm_val d) (maxprune (disk_recs d)) in
  reopen_obs d = Some (hsort (filter (fun x => p <? fst x) (entries (disk_recs d)))).
Proof.
  intros d Hc p. unfold reopen_obs, open. rewrite Hc.
  destruct (fold_left apply_rec (tagged (untear_last (dfiles d))) ([], wm_val d)) as [ix q] eqn:E.
  rewrite tagged_untear in E.
  assert (S0 : isorted []) by exact I.
  assert (A0 : above (wm_val d) []) by (intros e []).
  destruct (replay_fold _ _ _ _ _ S0 A0 E) as [I1 [I2 [I3 I4]]].
  unfold load. simpl. rewrite I4. f_equal.
  assert (q = p) as -> by (unfold p, disk_recs; rewrite <- maxp_max; exact I1). reflexivity.
Qed.

Lemma reopen_fails : forall d, nonlast_clean (dfiles d) = false -> reopen_obs d = None.
Proof. intros d H. unfold reopen_obs, open. rewrite H. reflexivity. Qed.
