(* C14 — proofs about the byte-level framing model Frame.v (Pebble record chunks in 32 KiB blocks).

   Structure:
     1. lengths, little-endian fields
     2. one reader iteration [rstep] on: a complete chunk, a complete block padding, a strict prefix of a
        chunk / of a padding with nothing after it, the EOF trailer (complete / partial), a chunk whose
        stored checksum is not the checksum of its bytes
     3. item level: the reader on complete items followed by anything ([run_items_tail]) and on EVERY byte
        prefix of a well-formed item sequence ([run_cut_items]: it returns what [cut_items] says)
     4. the writer: [emit] / [layout] produce well-formed item sequences; what [cut_items] gives on them
        is [cut_spec] (record level)
     5. the theorems stated in Props.v: round trip, every crash image, closed files, corruption of one
        chunk, truncation to the valid length, and the link to the record-level model (Model.file) *)
From Coq Require Import List NArith Bool Lia ZifyN ZifyNat ZifyBool ZArith.
From V Require Import C14.Frame C14.Model.
Import ListNotations.
Open Scope N_scope.

(* ==================== part 1 ==================== *)
(* ---------- lengths ---------- *)
Lemma nlen_acc_spec : forall l a, nlen_acc l a = a + N.of_nat (length l).
Proof. induction l; intros; simpl. lia. rewrite IHl. lia. Qed.
Lemma nlen_spec : forall l, nlen l = N.of_nat (length l).
Proof. intros. unfold nlen. rewrite nlen_acc_spec. lia. Qed.
Lemma fuel_acc_spec : forall l a, fuel_acc l a = (a + length l)%nat.
Proof. induction l; intros; simpl. lia. rewrite IHl. lia. Qed.
Lemma nlen_app : forall a b, nlen (a ++ b) = nlen a + nlen b.
Proof. intros. rewrite !nlen_spec, app_length. lia. Qed.
Lemma nlen_nil : nlen [] = 0. Proof. reflexivity. Qed.
Lemma nlen_cons : forall x l, nlen (x :: l) = 1 + nlen l.
Proof. intros. rewrite !nlen_spec. cbn [length]. lia. Qed.
Lemma to_nat_nlen : forall l, N.to_nat (nlen l) = length l.
Proof. intros. rewrite nlen_spec. lia. Qed.
Lemma nlen_zeros : forall k, nlen (zeros k) = N.of_nat k.
Proof. induction k; simpl. reflexivity. rewrite nlen_cons, IHk. lia. Qed.
Lemma nlen_firstn : forall k l, nlen (firstn k l) = N.min (N.of_nat k) (nlen l).
Proof. intros. rewrite !nlen_spec, firstn_length. lia. Qed.
Lemma nlen_skipn : forall k l, nlen (skipn k l) = nlen l - N.of_nat k.
Proof. intros. rewrite !nlen_spec, skipn_length. lia. Qed.

(* ---------- little-endian fields ---------- *)
Lemma le32d_le32 : forall x,
  le32d (x mod 256) ((x / 256) mod 256) ((x / 65536) mod 256) ((x / 16777216) mod 256) = x mod W32.
Proof. intros. unfold le32d, W32. zify. Z.div_mod_to_equations. lia. Qed.
Lemma le16d_le16 : forall x, le16d (x mod 256) ((x / 256) mod 256) = x mod 65536.
Proof. intros. unfold le16d. zify. Z.div_mod_to_equations. lia. Qed.

(* ==================== part 2 ==================== *)
Lemma hdr_size_rec : forall ty, 5 <= ty <= 8 -> hdr_size ty = 11.
Proof. intros. unfold hdr_size. destruct (ty <=? 4) eqn:A; destruct (ty <=? 8) eqn:B; lia. Qed.

Lemma firstn_app_exact : forall (A : Type) (a b : list A) n, n = length a -> firstn n (a ++ b) = a.
Proof. intros. subst. rewrite firstn_app, Nat.sub_diag, firstn_all. simpl. apply app_nil_r. Qed.
Lemma skipn_app_exact : forall (A : Type) (a b : list A) n, n = length a -> skipn n (a ++ b) = b.
Proof. intros. subst. rewrite skipn_app, Nat.sub_diag, skipn_all. reflexivity. Qed.

Section S.
Variable crc : bytes -> N.
Variable lognum : N.
Hypothesis Hlog : lognum < W32.

Notation chunk := (chunk crc lognum).
Notation rstep := (rstep crc lognum).

Lemma nlen_chunk : forall ty f, nlen (chunk ty f) = HS + nlen f.
Proof. intros. unfold Frame.chunk, body, le32, le16. cbn [app]. rewrite !nlen_cons. unfold HS. lia. Qed.

Lemma rstep_chunk : forall ty f tail e off cur acc good,
  5 <= ty <= 8 -> e + HS + nlen f <= BS ->
  rstep (mkD e off (nlen (chunk ty f ++ tail)) (chunk ty f ++ tail) cur acc good) =
  let '(cur', acc', good') := absorb ty f (off + (HS + nlen f)) cur acc good in
  Cont (mkD (adv e (HS + nlen f)) (off + (HS + nlen f)) (nlen tail) tail cur' acc' good').
Proof.
  intros ty f tail e off cur acc good Hty Hfit.
  assert (Hlen : nlen (chunk ty f ++ tail) = HS + nlen f + nlen tail) by (rewrite nlen_app, nlen_chunk; lia).
  unfold rstep. cbn [drest].
  assert (Hrem : rem_of (mkD e off (nlen (chunk ty f ++ tail)) (chunk ty f ++ tail) cur acc good) >= HS + nlen f).
  { unfold rem_of. cbn [de dl]. rewrite Hlen. unfold HS, BS in *. lia. }
  set (s := mkD e off (nlen (chunk ty f ++ tail)) (chunk ty f ++ tail) cur acc good) in *.
  unfold Frame.chunk at 1 2. unfold body, le32, le16. cbn [app].
  replace (rem_of s <? 7) with false by (unfold HS in Hrem; lia).
  cbv zeta.
  rewrite le32d_le32, le16d_le16.
  replace (13 <=? ty) with false by lia.
  replace (ty =? 0) with false by lia. rewrite andb_false_r.
  unfold on_chunk. rewrite hdr_size_rec by assumption.
  replace (5 <=? ty) with true by lia.
  replace (rem_of s <? 11) with false by (unfold HS in Hrem; lia). cbn [andb].
  unfold lognum_check. rewrite le32d_le32.
  rewrite (N.mod_small lognum W32) by assumption. rewrite N.eqb_refl.
  assert (Hn : nlen f mod 65536 = nlen f) by (apply N.mod_small; unfold HS, BS in Hfit; lia).
  rewrite Hn.
  replace (rem_of s <? 11 + nlen f) with false by (unfold HS in Hrem; lia).
  replace (N.to_nat (11 - 6 + nlen f)) with (length (ty :: [lognum mod 256; (lognum / 256) mod 256; (lognum / 65536) mod 256; (lognum / 16777216) mod 256] ++ f)).
  2:{ cbn [length app]. rewrite <- to_nat_nlen. lia. }
  change (ty :: lognum mod 256 :: (lognum / 256) mod 256 :: (lognum / 65536) mod 256 :: (lognum / 16777216) mod 256 :: f ++ tail)
    with ((ty :: [lognum mod 256; (lognum / 256) mod 256; (lognum / 65536) mod 256; (lognum / 16777216) mod 256] ++ f) ++ tail).
  rewrite firstn_app_exact by reflexivity.
  change (ty :: [lognum mod 256; (lognum / 256) mod 256; (lognum / 65536) mod 256; (lognum / 16777216) mod 256] ++ f) with (body lognum ty f).
  rewrite N.eqb_refl. cbn [negb].
  replace (N.to_nat (11 - 7)) with 4%nat by lia. cbn [skipn].
  rewrite firstn_app_exact by (apply to_nat_nlen).
  unfold skip_to.
  destruct (absorb ty f (doff s + (11 + nlen f)) (dcur s) (dacc s) (dgood s)) as [[cur' acc'] good'] eqn:Hab.
  subst s. cbn [doff dcur dacc dgood de dl drest] in *. unfold HS. rewrite Hab.
  f_equal. f_equal.
  - rewrite Hlen. unfold HS. lia.
  - replace (N.to_nat (11 + nlen f)) with (length (chunk ty f)) by (rewrite <- to_nat_nlen, nlen_chunk; unfold HS; lia).
    apply skipn_app_exact. reflexivity.
Qed.

Lemma rstep_hdr : forall s c0 c1 c2 c3 l0 l1 ty bdy,
  drest s = c0 :: c1 :: c2 :: c3 :: l0 :: l1 :: ty :: bdy -> 7 <= rem_of s -> 1 <= ty <= 12 ->
  rstep s = on_chunk crc lognum s (le32d c0 c1 c2 c3) (le16d l0 l1) ty bdy.
Proof.
  intros s c0 c1 c2 c3 l0 l1 ty bdy Hr Hrem Hty. unfold rstep. rewrite Hr.
  replace (rem_of s <? 7) with false by lia. cbv zeta.
  replace (13 <=? ty) with false by lia. replace (ty =? 0) with false by lia.
  rewrite andb_false_r. reflexivity.
Qed.

(* a complete zero padding up to the end of the block, followed by anything *)
Lemma rstep_zeros_gen : forall s k tail,
  drest s = zeros k ++ tail -> rem_of s = N.of_nat k -> (1 <= k <= 10)%nat ->
  ((k < 7)%nat -> (BS <=? de s + dl s) = true) ->
  rstep s = skip_to s (N.of_nat k) (same s).
Proof.
  intros s k tail Hr Hrem Hk Hf'.
  unfold rstep. rewrite Hr, Hrem.
  assert (Hc : (k = 1 \/ k = 2 \/ k = 3 \/ k = 4 \/ k = 5 \/ k = 6 \/ k = 7 \/ k = 8 \/ k = 9 \/ k = 10)%nat) by lia.
  destruct Hc as [K|[K|[K|[K|[K|[K|[K|[K|[K|K]]]]]]]]]; subst k; cbn [zeros app];
    match goal with |- context [N.of_nat ?c <? 7] => let v := eval vm_compute in (N.of_nat c <? 7) in change (N.of_nat c <? 7) with v end;
    cbv iota.
  1-6: rewrite Hf' by lia; reflexivity.
  all: cbv zeta; change (13 <=? 0) with false; change (le32d 0 0 0 0) with 0; change (le16d 0 0) with 0;
       change ((0 =? 0) && (0 =? 0) && (0 =? 0)) with true; cbv iota;
       unfold on_zero_hdr; rewrite Hrem;
       match goal with |- context [N.of_nat ?c <? 11] => let v := eval vm_compute in (N.of_nat c <? 11) in change (N.of_nat c <? 11) with v end;
       reflexivity.
Qed.

Lemma rstep_pad : forall k tail e off cur acc good,
  1 <= k <= 10 -> e + k = BS ->
  rstep (mkD e off (nlen (zeros (N.to_nat k) ++ tail)) (zeros (N.to_nat k) ++ tail) cur acc good) =
  Cont (mkD 0 (off + k) (nlen tail) tail cur acc good).
Proof.
  intros k tail e off cur acc good Hk He.
  assert (Hlen : nlen (zeros (N.to_nat k) ++ tail) = k + nlen tail) by (rewrite nlen_app, nlen_zeros; lia).
  rewrite (rstep_zeros_gen _ (N.to_nat k) tail); cbn [drest de dl]; try reflexivity; try lia.
  - unfold skip_to, same. cbn [de doff dl drest dcur dacc dgood]. rewrite N2Nat.id. f_equal. f_equal.
    + unfold adv. replace (BS <=? e + k) with true by lia. reflexivity.
    + rewrite Hlen. lia.
    + apply skipn_app_exact. rewrite <- (Nat2N.id (length _)), <- nlen_spec, nlen_zeros. lia.
  - unfold rem_of. cbn [de dl]. rewrite Hlen. unfold BS in *. lia.
Qed.

(* ---------- a strict prefix of an item with nothing after it ---------- *)
Lemma rstep_short : forall e off rest cur acc good,
  rest <> [] -> nlen rest < 7 -> e + nlen rest < BS ->
  rstep (mkD e off (nlen rest) rest cur acc good) = Stop Torn.
Proof.
  intros. unfold rstep. cbn [drest]. destruct rest as [|x r]; [congruence|].
  unfold rem_of. cbn [de dl]. replace (N.min (BS - e) (nlen (x :: r)) <? 7) with true by lia.
  replace (BS <=? e + nlen (x :: r)) with false by lia. reflexivity.
Qed.

Lemma firstn_cons_S : forall (A : Type) n (x : A) l, firstn (S n) (x :: l) = x :: firstn n l.
Proof. reflexivity. Qed.

Lemma rstep_partial_chunk : forall ty f m e off cur acc good,
  5 <= ty <= 8 -> e + HS + nlen f <= BS -> (0 < m)%nat -> N.of_nat m < HS + nlen f ->
  rstep (mkD e off (nlen (firstn m (chunk ty f))) (firstn m (chunk ty f)) cur acc good) = Stop Torn.
Proof.
  intros ty f m e off cur acc good Hty Hfit Hm0 Hm.
  assert (Hl : nlen (firstn m (chunk ty f)) = N.of_nat m) by (rewrite nlen_firstn, nlen_chunk; lia).
  destruct (N.ltb_spec (N.of_nat m) 7) as [Hs|Hs].
  - apply rstep_short; rewrite ?Hl; try lia.
    destruct m; [lia|]. unfold Frame.chunk, le32. cbn [app firstn]. discriminate.
  - set (s := mkD e off (nlen (firstn m (chunk ty f))) (firstn m (chunk ty f)) cur acc good).
    assert (Hrem : rem_of s = N.of_nat m) by (unfold rem_of, s; cbn [de dl]; rewrite Hl; unfold HS, BS in *; lia).
    assert (Hn : nlen f mod 65536 = nlen f) by (apply N.mod_small; unfold HS, BS in Hfit; lia).
    do 7 (destruct m as [|m]; [lia|]).
    assert (exists bdy, drest s = crc (body lognum ty f) mod 256 :: (crc (body lognum ty f) / 256) mod 256 ::
              (crc (body lognum ty f) / 65536) mod 256 :: (crc (body lognum ty f) / 16777216) mod 256 ::
              nlen f mod 256 :: (nlen f / 256) mod 256 :: ty :: bdy /\
            bdy = firstn m (le32 lognum ++ f)) as [bdy [Hr Hb]].
    { eexists. split; [|reflexivity]. unfold s. cbn [drest]. unfold Frame.chunk, body, le32 at 1, le16. cbn [app].
      rewrite !firstn_cons_S. reflexivity. }
    rewrite (rstep_hdr s _ _ _ _ _ _ _ _ Hr) by lia.
    unfold on_chunk. rewrite hdr_size_rec by assumption. rewrite Hrem.
    replace (5 <=? ty) with true by lia.
    destruct (N.ltb_spec (N.of_nat (S (S (S (S (S (S (S m)))))))) 11) as [Hh|Hh]; [reflexivity|].
    cbn [andb].
    do 4 (destruct m as [|m]; [lia|]).
    subst bdy. unfold le32. cbn [app]. rewrite !firstn_cons_S.
    unfold lognum_check. rewrite le32d_le32, (N.mod_small lognum W32), N.eqb_refl by assumption.
    rewrite le16d_le16, Hn.
    replace (N.of_nat (S (S (S (S (S (S (S (S (S (S (S m))))))))))) <? 11 + nlen f) with true by (unfold HS in Hm; lia).
    reflexivity.
Qed.

Lemma rstep_nil : forall e off cur acc good,
  rstep (mkD e off 0 [] cur acc good) = Stop (match cur with None => Clean | Some _ => Torn end).
Proof. reflexivity. Qed.

(* a strict, non-empty prefix of the zero padding: the file ends inside it *)
Lemma rstep_partial_pad : forall k m e off cur acc good,
  1 <= k <= 10 -> e + k = BS -> (0 < m)%nat -> N.of_nat m < k ->
  rstep (mkD e off (nlen (zeros m)) (zeros m) cur acc good) =
  if N.of_nat m <? 7 then Stop Torn else Cont (mkD (e + N.of_nat m) (off + N.of_nat m) 0 [] cur acc good).
Proof.
  intros k m e off cur acc good Hk He Hm0 Hm.
  destruct (N.ltb_spec (N.of_nat m) 7) as [Hs|Hs].
  - apply rstep_short; rewrite ?nlen_zeros; try lia. destruct m; [lia|discriminate].
  - rewrite (rstep_zeros_gen _ m []); cbn [drest de dl]; try lia.
    + unfold skip_to, same. cbn [de doff dl drest dcur dacc dgood]. f_equal. f_equal.
      * unfold adv. replace (BS <=? e + N.of_nat m) with false by lia. reflexivity.
      * rewrite nlen_zeros. lia.
      * rewrite Nat2N.id. rewrite skipn_all2; [reflexivity|]. rewrite <- (Nat2N.id (length _)), <- nlen_spec, nlen_zeros. lia.
    + rewrite app_nil_r. reflexivity.
    + unfold rem_of. cbn [de dl]. rewrite nlen_zeros. unfold BS in *. lia.
Qed.

(* ---------- the EOF trailer ---------- *)
Lemma lognum_succ_ne : (lognum + 1) mod W32 <> lognum.
Proof.
  unfold W32 in *. destruct (N.eq_dec lognum 4294967295) as [E|E].
  - subst. vm_compute. discriminate.
  - rewrite N.mod_small by lia. lia.
Qed.

Lemma rstep_trailer : forall tail e off cur acc good,
  e + HS <= BS ->
  rstep (mkD e off (nlen (trailer lognum ++ tail)) (trailer lognum ++ tail) cur acc good) =
  Stop (match cur with None => Clean | Some _ => Torn end).
Proof.
  intros tail e off cur acc good He.
  set (s := mkD e off (nlen (trailer lognum ++ tail)) (trailer lognum ++ tail) cur acc good).
  assert (Hl : nlen (trailer lognum ++ tail) = 11 + nlen tail).
  { rewrite nlen_app. unfold trailer, le32. cbn [app]. rewrite !nlen_cons, nlen_nil. lia. }
  assert (Hrem : 11 <= rem_of s) by (unfold rem_of, s; cbn [de dl]; rewrite Hl; unfold HS, BS in *; lia).
  assert (Hr : drest s = 0 :: 0 :: 0 :: 0 :: 0 :: 0 :: 5 :: (le32 ((lognum + 1) mod W32) ++ tail)) by reflexivity.
  rewrite (rstep_hdr s _ _ _ _ _ _ _ _ Hr) by lia.
  unfold on_chunk. change (hdr_size 5) with 11. change (5 <=? 5) with true.
  replace (rem_of s <? 11) with false by lia. cbn [andb].
  unfold lognum_check, le32. cbn [app]. rewrite le32d_le32.
  rewrite N.mod_mod by (unfold W32; lia).
  replace ((lognum + 1) mod W32 =? lognum) with false by (pose proof lognum_succ_ne; lia).
  rewrite N.eqb_refl. unfold s. cbn [dcur andb]. destruct cur; reflexivity.
Qed.

Lemma rstep_partial_trailer : forall m e off cur acc good,
  e + HS <= BS -> (0 < m < 11)%nat ->
  rstep (mkD e off (nlen (firstn m (trailer lognum))) (firstn m (trailer lognum)) cur acc good) = Stop Torn.
Proof.
  intros m e off cur acc good He Hm.
  assert (Hl : nlen (firstn m (trailer lognum)) = N.of_nat m).
  { rewrite nlen_firstn. unfold trailer, le32. cbn [app]. rewrite !nlen_cons, nlen_nil. lia. }
  destruct (N.ltb_spec (N.of_nat m) 7) as [Hs|Hs].
  - apply rstep_short; rewrite ?Hl; unfold HS in *; try lia. destruct m; [lia|discriminate].
  - set (s := mkD e off (nlen (firstn m (trailer lognum))) (firstn m (trailer lognum)) cur acc good).
    assert (Hrem : rem_of s = N.of_nat m) by (unfold rem_of, s; cbn [de dl]; rewrite Hl; unfold HS, BS in *; lia).
    do 7 (destruct m as [|m]; [lia|]).
    assert (exists bdy, drest s = 0 :: 0 :: 0 :: 0 :: 0 :: 0 :: 5 :: bdy) as [bdy Hr].
    { eexists. unfold s. cbn [drest]. unfold trailer. cbn [app]. rewrite !firstn_cons_S. reflexivity. }
    rewrite (rstep_hdr s _ _ _ _ _ _ _ _ Hr) by lia.
    unfold on_chunk. change (hdr_size 5) with 11. change (5 <=? 5) with true. rewrite Hrem.
    replace (N.of_nat (S (S (S (S (S (S (S m))))))) <? 11) with true by lia. reflexivity.
Qed.

(* ---------- a chunk whose stored checksum is not the checksum of its bytes ---------- *)
Lemma rstep_bad_crc : forall c0 c1 c2 c3 ty f tail e off cur acc good,
  5 <= ty <= 8 -> e + HS + nlen f <= BS ->
  le32d c0 c1 c2 c3 <> crc (body lognum ty f) mod W32 ->
  let rest := c0 :: c1 :: c2 :: c3 :: le16 (nlen f) ++ body lognum ty f ++ tail in
  rstep (mkD e off (nlen rest) rest cur acc good) = Stop Torn.
Proof.
  intros c0 c1 c2 c3 ty f tail e off cur acc good Hty Hfit Hbad rest.
  set (s := mkD e off (nlen rest) rest cur acc good).
  assert (Hl : nlen rest = HS + nlen f + nlen tail).
  { unfold rest, le16, body, le32. cbn [app]. rewrite !nlen_cons, nlen_app. unfold HS. lia. }
  assert (Hrem : rem_of s >= HS + nlen f) by (unfold rem_of, s; cbn [de dl]; rewrite Hl; unfold HS, BS in *; lia).
  assert (Hn : nlen f mod 65536 = nlen f) by (apply N.mod_small; unfold HS, BS in Hfit; lia).
  assert (Hr : drest s = c0 :: c1 :: c2 :: c3 :: nlen f mod 256 :: (nlen f / 256) mod 256 :: ty :: (le32 lognum ++ f ++ tail)) by reflexivity.
  rewrite (rstep_hdr s _ _ _ _ _ _ _ _ Hr) by (unfold HS in *; lia).
  unfold on_chunk. rewrite hdr_size_rec by assumption.
  replace (5 <=? ty) with true by lia.
  replace (rem_of s <? 11) with false by (unfold HS in Hrem; lia). cbn [andb].
  unfold lognum_check, le32. cbn [app]. rewrite le32d_le32, (N.mod_small lognum W32), N.eqb_refl by assumption.
  rewrite le16d_le16, Hn.
  replace (rem_of s <? 11 + nlen f) with false by (unfold HS in Hrem; lia).
  replace (N.to_nat (11 - 6 + nlen f)) with (length (body lognum ty f)).
  2:{ unfold body, le32. cbn [length app]. rewrite <- to_nat_nlen. lia. }
  change (ty :: lognum mod 256 :: (lognum / 256) mod 256 :: (lognum / 65536) mod 256 :: (lognum / 16777216) mod 256 :: f ++ tail)
    with (body lognum ty f ++ tail).
  rewrite firstn_app_exact by reflexivity.
  replace (le32d c0 c1 c2 c3 =? crc (body lognum ty f) mod W32) with false by lia. reflexivity.
Qed.
End S.

(* ==================== part 3 ==================== *)
(* the reader's state that corresponds to an abstract state and the unread bytes *)
Definition D (a : astate) (rest : bytes) : dstate :=
  mkD (ae a) (aoff a) (nlen rest) rest (acur a) (aacc a) (agood a).

Fixpoint wf_items (e : N) (its : list item) : Prop :=
  match its with
  | [] => True
  | IChunk ty f :: r => 5 <= ty <= 8 /\ e + HS + nlen f <= BS /\ wf_items (adv e (HS + nlen f)) r
  | IPad k :: r => 1 <= k <= 10 /\ e + k = BS /\ wf_items 0 r
  end.

Lemma wf_size_pos : forall e it r, wf_items e (it :: r) -> 1 <= isize it.
Proof. destruct it; cbn [wf_items isize]; unfold HS; lia. Qed.

Lemma adv_pad : forall e k, e + k = BS -> adv e k = 0.
Proof. intros. unfold adv. replace (BS <=? e + k) with true by lia. reflexivity. Qed.

Lemma wf_tail : forall e it r, wf_items e (it :: r) -> wf_items (ae (istep (mkA e 0 None [] 0) it)) r.
Proof.
  intros e it r H. destruct it as [ty f|k]; cbn [wf_items] in H; cbn [istep ae].
  - destruct (absorb _ _ _ _ _ _) as [[? ?] ?]. cbn [ae]. tauto.
  - destruct H as (? & He & ?). cbn [ae]. rewrite adv_pad by assumption. assumption.
Qed.
Lemma ae_istep : forall a it, ae (istep a it) = ae (istep (mkA (ae a) 0 None [] 0) it).
Proof. intros. destruct it; cbn [istep ae]; repeat destruct (absorb _ _ _ _ _ _) as [[? ?] ?]; reflexivity. Qed.
Lemma wf_next : forall a it r, wf_items (ae a) (it :: r) -> wf_items (ae (istep a it)) r.
Proof. intros. rewrite ae_istep. apply wf_tail. assumption. Qed.

Lemma firstn_app_ge : forall (A : Type) (a b : list A) n, (length a <= n)%nat ->
  firstn n (a ++ b) = a ++ firstn (n - length a) b.
Proof. intros. rewrite firstn_app, firstn_all2 by assumption. reflexivity. Qed.
Lemma firstn_app_lt : forall (A : Type) (a b : list A) n, (n <= length a)%nat -> firstn n (a ++ b) = firstn n a.
Proof. intros. rewrite firstn_app. replace (n - length a)%nat with 0%nat by lia. cbn [firstn]. apply app_nil_r. Qed.

Section S.
Variable crc : bytes -> N.
Variable lognum : N.
Hypothesis Hlog : lognum < W32.
Notation rstep := (rstep crc lognum).
Notation rrun := (rrun crc lognum).
Notation iflat := (iflat crc lognum).
Notation item_bytes := (item_bytes crc lognum).

Lemma rrun_cont : forall f s s', rstep s = Cont s' -> rrun (S f) s = rrun f s'.
Proof. intros. cbn [Frame.rrun]. rewrite H. reflexivity. Qed.
Lemma rrun_stop : forall f s st, rstep s = Stop st -> rrun (S f) s = (rev' (dacc s), st, dgood s).
Proof. intros. cbn [Frame.rrun]. rewrite H. reflexivity. Qed.

Lemma nlen_item : forall it, nlen (item_bytes it) = isize it.
Proof.
  destruct it; cbn [Frame.item_bytes isize].
  apply nlen_chunk; assumption.
  rewrite nlen_zeros. lia.
Qed.

(* one complete item, anything after it *)
Lemma rstep_item : forall it r a tail, wf_items (ae a) (it :: r) ->
  rstep (D a (item_bytes it ++ tail)) = Cont (D (istep a it) tail).
Proof.
  intros it r a tail Hwf. destruct it as [ty f|k]; cbn [wf_items] in Hwf; cbn [Frame.item_bytes].
  - destruct Hwf as (Hty & Hfit & _). unfold D at 1. rewrite (rstep_chunk crc lognum Hlog) by assumption.
    cbn [istep]. destruct (absorb ty f (aoff a + (HS + nlen f)) (acur a) (aacc a) (agood a)) as [[c' a'] g'].
    reflexivity.
  - destruct Hwf as (Hk & He & _). unfold D at 1. rewrite (rstep_pad crc lognum) by assumption.
    cbn [istep]. rewrite adv_pad by assumption. reflexivity.
Qed.

(* complete items followed by anything: the reader ends up in the state the item automaton computes *)
Lemma run_items_tail : forall its a tail fuel,
  wf_items (ae a) its -> (length (iflat its ++ tail) < fuel)%nat ->
  exists fuel', (length tail < fuel')%nat /\
    rrun fuel (D a (iflat its ++ tail)) = rrun fuel' (D (fold_left istep its a) tail).
Proof.
  induction its as [|it r IH]; intros a tail fuel Hwf Hf.
  - exists fuel. split; [exact Hf|reflexivity].
  - cbn [Frame.iflat flat_map fold_left] in *. rewrite <- app_assoc in *.
    destruct fuel as [|fuel]; [lia|].
    rewrite (rrun_cont _ _ _ (rstep_item it r a _ Hwf)).
    apply IH. apply wf_next; assumption.
    rewrite app_length in Hf. pose proof (wf_size_pos _ _ _ Hwf). pose proof (nlen_item it) as Hs.
    rewrite nlen_spec in Hs. unfold Frame.iflat in *. lia.
Qed.

(* every byte prefix of a well-formed item sequence reads as the item automaton says *)
Lemma run_cut_items : forall its a n fuel,
  wf_items (ae a) its -> ae a < BS -> (length (firstn n (iflat its)) < fuel)%nat ->
  rrun fuel (D a (firstn n (iflat its))) = cut_items its (N.of_nat n) a.
Proof.
  induction its as [|it r IH]; intros a n fuel Hwf He Hf.
  - cbn [Frame.iflat flat_map]. rewrite firstn_nil. destruct fuel; [lia|].
    unfold D. rewrite (rrun_stop _ _ _ (rstep_nil crc lognum _ _ _ _ _)). reflexivity.
  - cbn [Frame.iflat flat_map cut_items] in *.
    pose proof (nlen_item it) as Hs. rewrite nlen_spec in Hs.
    pose proof (wf_size_pos _ _ _ Hwf) as Hpos.
    destruct (N.leb_spec (isize it) (N.of_nat n)) as [Hle|Hlt].
    + rewrite firstn_app_ge in * by lia. destruct fuel as [|fuel]; [lia|].
      rewrite (rrun_cont _ _ _ (rstep_item it r a _ Hwf)).
      replace (N.of_nat n - isize it) with (N.of_nat (n - length (item_bytes it))) by lia.
      apply IH. apply wf_next; assumption.
      { destruct it as [ty f|k]; cbn [istep ae wf_items] in *.
        - destruct (absorb _ _ _ _ _ _) as [[? ?] ?]. cbn [ae]. unfold adv.
          destruct (BS <=? ae a + (HS + nlen f)) eqn:E; unfold BS in *; lia.
        - rewrite adv_pad by tauto. unfold BS. lia. }
      rewrite app_length in Hf. unfold Frame.iflat in *. lia.
    + rewrite firstn_app_lt in * by lia.
      destruct (N.eqb_spec (N.of_nat n) 0) as [H0|H0].
      * replace n with 0%nat by lia. cbn [firstn]. destruct fuel; [lia|].
        unfold D. rewrite (rrun_stop _ _ _ (rstep_nil crc lognum _ _ _ _ _)). reflexivity.
      * destruct fuel as [|fuel]; [lia|].
        destruct it as [ty f|k]; cbn [wf_items Frame.item_bytes isize] in *.
        -- unfold D. rewrite (rrun_stop _ _ Torn); [reflexivity|].
           apply (rstep_partial_chunk crc lognum Hlog); try tauto; lia.
        -- assert (Hz : firstn n (zeros (N.to_nat k)) = zeros n).
           { clear -Hlt. revert n Hlt. induction (N.to_nat k) as [|j IHj] eqn:E in k |- *.
             - intros. lia.
             - intros n Hlt. destruct n; [reflexivity|]. cbn [zeros firstn]. f_equal.
               apply (IHj (N.of_nat j)); lia. }
           rewrite Hz in *. unfold D.
           pose proof (rstep_partial_pad crc lognum Hlog k n (ae a) (aoff a) (acur a) (aacc a) (agood a)) as Hp.
           destruct (N.of_nat n <? 7) eqn:E7.
           ++ rewrite (rrun_stop _ _ Torn); [reflexivity|]. apply Hp; try tauto; lia.
           ++ rewrite (rrun_cont _ _ _ (Hp ltac:(tauto) ltac:(tauto) ltac:(lia) ltac:(lia))).
              assert (length (zeros n) = n) by (rewrite <- (Nat2N.id (length _)), <- nlen_spec, nlen_zeros; lia).
              destruct fuel as [|fuel]; [lia|].
              rewrite (rrun_stop _ _ _ (rstep_nil crc lognum _ _ _ _ _)). reflexivity.
Qed.
End S.

(* ==================== part 4 ==================== *)
Lemma concat_rev'_cons : forall (f : bytes) fr, concat (rev' (f :: fr)) = concat (rev fr) ++ f.
Proof.
  intros. unfold rev'. rewrite <- rev_alt. cbn [rev]. rewrite concat_app. cbn [concat]. rewrite app_nil_r. reflexivity.
Qed.

Lemma absorb_5 : forall f o acc g, absorb 5 f o None acc g = (None, concat (rev' [f]) :: acc, o).
Proof. reflexivity. Qed.
Lemma absorb_6 : forall f o acc g, absorb 6 f o None acc g = (Some [f], acc, g).
Proof. reflexivity. Qed.
Lemma absorb_7 : forall f o fr acc g, absorb 7 f o (Some fr) acc g = (Some (f :: fr), acc, g).
Proof. reflexivity. Qed.
Lemma absorb_8 : forall f o fr acc g, absorb 8 f o (Some fr) acc g = (None, concat (rev' (f :: fr)) :: acc, o).
Proof. reflexivity. Qed.

Definition enough (fuel : nat) (i : N) (p : bytes) : Prop := nlen p <= BS - i - HS + N.of_nat fuel * CAP.
Definition cur_of (first : bool) (fr : list bytes) : option (list bytes) := if first then None else Some fr.
Definition pre_of (first : bool) (fr : list bytes) : list bytes := if first then [] else fr.

Lemma wf_app : forall a st b,
  wf_items (ae st) a -> wf_items (ae (fold_left istep a st)) b -> wf_items (ae st) (a ++ b).
Proof.
  induction a as [|it r IH]; intros st b Ha Hb; cbn [app fold_left] in *; [assumption|].
  pose proof (wf_next _ _ _ Ha) as Hn. specialize (IH _ _ Hn Hb).
  destruct it as [ty f|k]; cbn [wf_items] in *.
  - repeat split; try tauto. rewrite ae_istep in IH. cbn [istep ae] in IH.
    destruct (absorb _ _ _ _ _ _) as [[? ?] ?]. exact IH.
  - repeat split; try tauto. rewrite ae_istep in IH. cbn [istep ae] in IH.
    rewrite adv_pad in IH by tauto. exact IH.
Qed.

Lemma cut_items_app_ge : forall its more n a,
  chunks_size its + pad_size its <= n ->
  cut_items (its ++ more) n a = cut_items more (n - (chunks_size its + pad_size its)) (fold_left istep its a).
Proof.
  induction its as [|it r IH]; intros more n a H; cbn [app cut_items fold_left chunks_size pad_size] in *.
  - f_equal. lia.
  - assert (Hs : isize it + (chunks_size r + pad_size r) = match it with IChunk _ f => HS + nlen f + chunks_size r + pad_size r | IPad k => chunks_size r + (k + pad_size r) end)
      by (destruct it; cbn [isize]; lia).
    destruct it as [ty f|k]; cbn [isize] in *.
    + replace (HS + nlen f <=? n) with true by lia. rewrite IH by lia. f_equal. lia.
    + replace (k <=? n) with true by lia. rewrite IH by lia. f_equal. lia.
Qed.

Lemma cut_items_app_lt : forall its more n a,
  n < chunks_size its + pad_size its ->
  cut_items (its ++ more) n a = cut_items its n a.
Proof.
  induction its as [|it r IH]; intros more n a H; cbn [app cut_items chunks_size pad_size] in *.
  - lia.
  - destruct (isize it <=? n) eqn:E; [|reflexivity].
    apply IH. destruct it; cbn [isize] in *; lia.
Qed.

Lemma pad_after_spec : forall j, j <= BS ->
  let '(pd, i') := pad_after j in
  i' + HS <= BS /\ chunks_size pd = 0 /\ pad_size pd <= 10 /\
  ((pd = [] /\ pad_size pd = 0 /\ i' = adv j 0) \/ (pd = [IPad (BS - j)] /\ 1 <= BS - j <= 10 /\ i' = 0)).
Proof.
  intros j Hj. unfold pad_after. destruct (BS - j <? HS) eqn:E.
  - destruct (BS - j =? 0) eqn:E0.
    + cbn [chunks_size pad_size]. split; [unfold HS, BS; lia|]. split; [reflexivity|]. split; [lia|].
      left. split; [reflexivity|]. split; [reflexivity|]. unfold adv. replace (BS <=? j + 0) with true by lia. reflexivity.
    + cbn [chunks_size pad_size]. split; [unfold HS, BS; lia|]. split; [reflexivity|]. split; [unfold HS in *; lia|].
      right. split; [reflexivity|]. split; [unfold HS in *; lia|reflexivity].
  - cbn [chunks_size pad_size]. split; [unfold HS in *; lia|]. split; [reflexivity|]. split; [lia|].
    left. split; [reflexivity|]. split; [reflexivity|]. unfold adv. replace (BS <=? j + 0) with false by (unfold HS in *; lia). lia.
Qed.

Definition emit_post (first : bool) (i : N) (p : bytes) (fr : list bytes) (off : N) (acc : list bytes) (good : N)
  (its : list item) (i' : N) : Prop :=
  let raw := chunks_size its in let pad := pad_size its in
  let a := mkA i off (cur_of first fr) acc good in
  let rec := concat (rev (pre_of first fr)) ++ p in
  wf_items i its /\ i' + HS <= BS /\ pad <= 10 /\ HS <= raw /\
  fold_left istep its a = mkA i' (off + (raw + pad)) None (rec :: acc) (off + raw) /\
  (forall n, n < raw ->
     cut_items its n a = (rev' acc, (if (n =? 0) && first then Clean else Torn), good)) /\
  (forall n, raw <= n < raw + pad ->
     cut_items its n a = (rev' (rec :: acc), (if (n =? raw) || (raw + 7 <=? n) then Clean else Torn), off + raw)).

Lemma last_ok : forall first i p fr off acc good,
  i + HS <= BS -> nlen p <= BS - i - HS ->
  let '(pd, i') := pad_after (i + HS + nlen p) in
  emit_post first i p fr off acc good (IChunk (if first then 5 else 8) p :: pd) i'.
Proof.
  intros first i p fr off acc good Hi Hfit.
  pose proof (pad_after_spec (i + HS + nlen p) ltac:(lia)) as Hpad.
  destruct (pad_after (i + HS + nlen p)) as [pd i'].
  destruct Hpad as (Hi' & Hc0 & Hp10 & Hpd).
  assert (Hty : 5 <= (if first then 5 else 8) <= 8) by (destruct first; lia).
  set (rec := concat (rev (pre_of first fr)) ++ p).
  assert (Hstep : istep (mkA i off (cur_of first fr) acc good) (IChunk (if first then 5 else 8) p) =
                  mkA (adv i (HS + nlen p)) (off + (HS + nlen p)) None (rec :: acc) (off + (HS + nlen p))).
  { unfold rec. destruct first; cbn [istep cur_of pre_of ae aoff acur aacc agood]; rewrite ?absorb_5, ?absorb_8, concat_rev'_cons; reflexivity. }
  assert (Hcut1 : forall n, n < HS + nlen p ->
     cut_items (IChunk (if first then 5 else 8) p :: pd) n (mkA i off (cur_of first fr) acc good) =
     (rev' acc, (if (n =? 0) && first then Clean else Torn), good)).
  { intros n Hn. cbn [cut_items isize]. replace (HS + nlen p <=? n) with false by lia.
    destruct first; cbn [cur_of acur andb aacc agood finish]; destruct (n =? 0); reflexivity. }
  unfold emit_post. cbv zeta. cbn [chunks_size pad_size wf_items fold_left]. rewrite Hc0, Hstep. fold rec.
  destruct Hpd as [(Epd & Ep0 & Ei')|(Epd & Hk & Ei')]; subst pd i'; cbn [pad_size chunks_size fold_left wf_items istep ae aoff acur aacc agood].
  - replace (adv (i + HS + nlen p) 0) with (adv i (HS + nlen p)) in * by (unfold adv; rewrite N.add_0_r, N.add_assoc; reflexivity).
    split; [repeat split; lia|]. split; [exact Hi'|]. split; [lia|]. split; [lia|]. split; [f_equal; lia|].
    split; [intros n Hn; apply Hcut1; lia|]. intros n Hn. lia.
  - assert (Hadv : adv i (HS + nlen p) = i + HS + nlen p) by (unfold adv; replace (BS <=? i + (HS + nlen p)) with false by lia; lia).
    rewrite Hadv. rewrite adv_pad by lia.
    split; [repeat split; try lia|]. split; [unfold HS, BS; lia|]. split; [lia|]. split; [lia|]. split; [f_equal; lia|].
    split; [intros n Hn; apply Hcut1; lia|].
    intros n Hn. cbn [cut_items isize]. replace (HS + nlen p <=? n) with true by lia. rewrite Hstep.
    replace (BS - (i + HS + nlen p) <=? n - (HS + nlen p)) with false by lia.
    unfold finish. cbn [aacc acur agood].
    destruct (N.eqb_spec (n - (HS + nlen p)) 0) as [E0|E0].
    + replace ((n =? HS + nlen p + 0) || (HS + nlen p + 0 + 7 <=? n)) with true by lia. f_equal. lia.
    + destruct (n - (HS + nlen p) <? 7) eqn:E7.
      * replace ((n =? HS + nlen p + 0) || (HS + nlen p + 0 + 7 <=? n)) with false by lia. f_equal. lia.
      * replace ((n =? HS + nlen p + 0) || (HS + nlen p + 0 + 7 <=? n)) with true by lia. f_equal. lia.
Qed.

Lemma emit_ok : forall fuel first i p fr off acc good,
  i + HS <= BS -> enough fuel i p ->
  let '(its, i') := emit fuel first i p in emit_post first i p fr off acc good its i'.
Proof.
  induction fuel as [|fuel IH]; intros first i p fr off acc good Hi Hen;
    cbn [emit]; destruct (nlen p <=? BS - i - HS) eqn:Elast.
  - pose proof (last_ok first i p fr off acc good Hi ltac:(lia)) as H.
    destruct (pad_after (i + HS + nlen p)). exact H.
  - unfold enough in Hen. lia.
  - pose proof (last_ok first i p fr off acc good Hi ltac:(lia)) as H.
    destruct (pad_after (i + HS + nlen p)). exact H.
  - (* a first / middle chunk that fills the block, then the rest *)
    set (avail := BS - i - HS) in *.
    set (f1 := firstn (N.to_nat avail) p). set (p' := skipn (N.to_nat avail) p).
    assert (Hf1 : nlen f1 = avail) by (unfold f1; rewrite nlen_firstn; lia).
    assert (Hp' : nlen p' = nlen p - avail) by (unfold p'; rewrite nlen_skipn; lia).
    assert (Hpp : p = f1 ++ p') by (unfold f1, p'; symmetry; apply firstn_skipn).
    specialize (IH false 0 p' (f1 :: pre_of first fr) (off + (HS + avail)) acc good ltac:(unfold HS, BS; lia)
                   ltac:(unfold enough, HS, BS, CAP in *; lia)).
    destruct (emit fuel false 0 p') as [its i'].
    unfold emit_post in *. cbv zeta in *. cbn [chunks_size pad_size wf_items fold_left] in *.
    change (cur_of false (f1 :: pre_of first fr)) with (Some (f1 :: pre_of first fr)) in *.
    change (pre_of false (f1 :: pre_of first fr)) with (f1 :: pre_of first fr) in *.
    destruct IH as (Hwf & Hi' & Hp10 & Hraw & Hfold & Hcut1 & Hcut2).
    assert (Hty : 5 <= (if first then 6 else 7) <= 8) by (destruct first; lia).
    assert (Hadv : adv i (HS + nlen f1) = 0) by (apply adv_pad; lia).
    assert (Hstep : istep (mkA i off (cur_of first fr) acc good) (IChunk (if first then 6 else 7) f1) =
                    mkA 0 (off + (HS + avail)) (Some (f1 :: pre_of first fr)) acc good).
    { destruct first; cbn [istep cur_of pre_of ae aoff acur aacc agood]; rewrite ?absorb_6, ?absorb_7, Hadv, Hf1; reflexivity. }
    rewrite Hstep, Hf1.
    assert (Hrec : concat (@rev bytes (f1 :: pre_of first fr)) ++ p' = concat (rev (pre_of first fr)) ++ p).
    { cbn [rev]. rewrite concat_app. cbn [concat]. rewrite app_nil_r, <- app_assoc, <- Hpp. reflexivity. }
    rewrite Hrec in Hfold, Hcut2. rewrite Hf1 in Hadv.
    split; [repeat split; try lia; rewrite Hadv; exact Hwf|]. split; [exact Hi'|]. split; [lia|]. split; [lia|].
    split; [rewrite Hfold; f_equal; lia|]. split.
    + intros n Hn. cbn [cut_items isize]. rewrite Hf1.
      destruct (N.leb_spec (HS + avail) n) as [Hge|Hlt].
      * rewrite Hstep, Hcut1 by lia. rewrite andb_false_r.
        replace ((n =? 0) && first) with false by (unfold HS in *; lia). reflexivity.
      * destruct first; cbn [cur_of acur andb aacc agood finish]; destruct (n =? 0); reflexivity.
    + intros n Hn. cbn [cut_items isize]. rewrite Hf1.
      replace (HS + avail <=? n) with true by lia.
      rewrite Hstep, Hcut2 by lia. f_equal; [f_equal|lia].
      replace (n - (HS + avail) =? chunks_size its) with (n =? HS + avail + chunks_size its) by lia.
      replace (chunks_size its + 7 <=? n - (HS + avail)) with (HS + avail + chunks_size its + 7 <=? n) by lia.
      reflexivity.
Qed.

(* ==================== part 5 ==================== *)
Lemma enough_rec : forall i p, i + HS <= BS -> enough (S (N.to_nat (nlen p / CAP))) i p.
Proof.
  intros. unfold enough. unfold HS, BS, CAP in *.
  pose proof (N.div_mod (nlen p) 32757 ltac:(lia)). pose proof (N.mod_lt (nlen p) 32757 ltac:(lia)).
  nia.
Qed.

Lemma emit_rec_ok : forall i p off acc good, i + HS <= BS ->
  let '(its, i') := emit_rec i p in emit_post true i p [] off acc good its i'.
Proof. intros. unfold emit_rec. apply emit_ok. assumption. apply enough_rec. assumption. Qed.

(* size of the bytes of the first k records, from block offset i *)
Fixpoint layout_size (i : N) (rs : list bytes) : N :=
  match rs with
  | [] => 0
  | r :: rs' => let (its, i') := emit_rec i r in chunks_size its + pad_size its + layout_size i' rs'
  end.

Lemma layout_ok : forall rs i off acc good, i + HS <= BS ->
  let its := layout i rs in let a := mkA i off None acc good in
  wf_items i its /\
  (forall n, cut_items its n a =
     let '(k, st, g) := cut_spec i rs n good off in (rev' (rev (firstn k rs) ++ acc), st, g)) /\
  (exists i' good', i' + HS <= BS /\
     fold_left istep its a = mkA i' (off + layout_size i rs) None (rev rs ++ acc) good').
Proof.
  induction rs as [|r rs IH]; intros i off acc good Hi; cbn [layout cut_spec layout_size].
  - cbv zeta. split; [exact I|]. split; [reflexivity|]. exists i, good. split; [assumption|].
    cbn [fold_left rev app]. f_equal. lia.
  - pose proof (emit_rec_ok i r off acc good Hi) as He.
    destruct (emit_rec i r) as [its i'].
    unfold emit_post in He. cbv zeta in He. cbn [cur_of pre_of rev concat app] in He.
    destruct He as (Hwf & Hi' & Hp10 & Hraw & Hfold & Hcut1 & Hcut2).
    set (raw := chunks_size its) in *. set (pad := pad_size its) in *.
    specialize (IH i' (off + (raw + pad)) (r :: acc) (off + raw) Hi'). cbv zeta in IH.
    destruct IH as (IHwf & IHcut & (i2 & g2 & Hi2 & IHfold)).
    cbv zeta. split; [|split].
    + change i with (ae (mkA i off None acc good)). apply wf_app. exact Hwf. rewrite Hfold. exact IHwf.
    + intros n.
      destruct (N.eqb_spec n 0) as [E0|E0].
      { subst n. rewrite cut_items_app_lt by (unfold HS in *; lia). rewrite Hcut1 by (unfold HS in *; lia). reflexivity. }
      destruct (N.ltb_spec n raw) as [E1|E1].
      { rewrite cut_items_app_lt by lia. rewrite Hcut1 by lia.
        replace (n =? 0) with false by lia. reflexivity. }
      destruct (N.ltb_spec n (raw + pad)) as [E2|E2].
      { rewrite cut_items_app_lt by lia. rewrite Hcut2 by lia. reflexivity. }
      rewrite cut_items_app_ge by lia. rewrite Hfold. fold raw pad. rewrite IHcut.
      destruct (cut_spec i' rs (n - (raw + pad)) (off + raw) (off + (raw + pad))) as [[k st] g].
      cbn [firstn rev]. rewrite <- app_assoc. reflexivity.
    + exists i2, g2. split; [assumption|]. rewrite fold_left_app, Hfold. etransitivity; [apply IHfold|].
      cbn [rev]. rewrite <- app_assoc. f_equal. lia.
Qed.

Lemma nlen_iflat : forall crc lognum its, lognum < W32 -> nlen (iflat crc lognum its) = chunks_size its + pad_size its.
Proof.
  intros crc lognum its Hl. induction its as [|it r IH]; cbn [iflat flat_map chunks_size pad_size]. reflexivity.
  fold (iflat crc lognum r). rewrite nlen_app, IH, (nlen_item crc lognum Hl). destruct it; cbn [isize]; lia.
Qed.

Lemma sizes_app : forall a b, chunks_size (a ++ b) + pad_size (a ++ b) = chunks_size a + pad_size a + (chunks_size b + pad_size b).
Proof. induction a as [|it r IH]; intros; cbn [app chunks_size pad_size]. lia. specialize (IH b). destruct it; lia. Qed.

Lemma layout_size_spec : forall rs i, chunks_size (layout i rs) + pad_size (layout i rs) = layout_size i rs.
Proof.
  induction rs as [|r rs IH]; intros i; cbn [layout layout_size]. reflexivity.
  destruct (emit_rec i r) as [its i']. rewrite sizes_app, IH. reflexivity.
Qed.

(* the layout of the first k records is a prefix of the layout of all *)
Lemma layout_firstn : forall rs k i, exists more, layout i rs = layout i (firstn k rs) ++ more.
Proof.
  induction rs as [|r rs IH]; intros k i.
  - exists []. rewrite firstn_nil. reflexivity.
  - destruct k as [|k]; cbn [firstn layout]. eexists; reflexivity.
    destruct (emit_rec i r) as [its i']. destruct (IH k i') as [more Hm]. exists more.
    rewrite Hm at 1. apply app_assoc.
Qed.

(* ---------- facts about the specification function ---------- *)
Lemma rec_size_pos : forall i r, i + HS <= BS ->
  let (its, i') := emit_rec i r in HS <= chunks_size its /\ pad_size its <= 10 /\ i' + HS <= BS.
Proof.
  intros. pose proof (emit_rec_ok i r 0 [] 0 H) as He. destruct (emit_rec i r). unfold emit_post in He. tauto.
Qed.

Lemma cut_spec_props : forall rs i n good off, i + HS <= BS ->
  let '(k, st, g) := cut_spec i rs n good off in
  (k <= length rs)%nat /\
  (st = Clean -> n <= layout_size i rs -> n <= layout_size i (firstn k rs)) /\
  (forall j, (j <= length rs)%nat -> layout_size i (firstn j rs) <= n -> (j <= k)%nat).
Proof.
  induction rs as [|r rs IH]; intros i n good off Hi; cbn [cut_spec].
  - cbn [length firstn layout_size]. repeat split; intros; try lia.
  - pose proof (rec_size_pos i r Hi) as Hs. cbn [layout_size]. destruct (emit_rec i r) as [its i'] eqn:Er.
    destruct Hs as (Hraw & Hpad & Hi').
    set (raw := chunks_size its) in *. set (pad := pad_size its) in *.
    assert (Hj1 : forall j, layout_size i (firstn (S j) (r :: rs)) = raw + pad + layout_size i' (firstn j rs))
      by (intros; cbn [firstn layout_size]; rewrite Er; reflexivity).
    destruct (N.eqb_spec n 0) as [E0|E0]; [|destruct (N.ltb_spec n raw) as [E1|E1]; [|destruct (N.ltb_spec n (raw + pad)) as [E2|E2]]].
    + cbn [length firstn layout_size]. repeat split; try lia.
      intros j Hj Hl. destruct j; [lia|]. rewrite Hj1 in Hl. unfold HS in *. lia.
    + cbn [length firstn layout_size]. repeat split; try lia; try discriminate.
      intros j Hj Hl. destruct j; [lia|]. rewrite Hj1 in Hl. lia.
    + rewrite (Hj1 0%nat). cbn [length firstn layout_size]. repeat split; try lia.
      intros j Hj Hl. destruct j; [lia|]. destruct j; [lia|]. rewrite Hj1 in Hl.
      destruct rs as [|r2 rs2]; [cbn [length] in Hj; lia|]. cbn [firstn layout_size] in Hl.
      pose proof (rec_size_pos i' r2 Hi') as Hs2.
      destruct (emit_rec i' r2). unfold HS in *. lia.
    + specialize (IH i' (n - (raw + pad)) (off + raw) (off + (raw + pad)) Hi').
      destruct (cut_spec i' rs (n - (raw + pad)) (off + raw) (off + (raw + pad))) as [[k st] g].
      destruct IH as (Hk & Hc & Hj). rewrite Hj1. cbn [length]. split; [lia|]. split.
      * intros Hcl Hn. specialize (Hc Hcl). lia.
      * intros j Hjl Hl. destruct j; [lia|]. rewrite Hj1 in Hl. specialize (Hj j ltac:(lia) ltac:(lia)). lia.
Qed.

(* ==================== part 6 ==================== *)
Lemma rev'_rev : forall (l : list bytes), rev' (rev l ++ []) = l.
Proof. intros. rewrite app_nil_r. unfold rev'. rewrite <- rev_alt. apply rev_involutive. Qed.

Section Top.
Variable crc : bytes -> N.
Variable lognum : N.
Hypothesis Hlog : lognum < W32.
Notation encode := (encode crc lognum).
Notation decode := (decode crc lognum).
Notation decode_full := (decode_full crc lognum).
Notation valid_len := (valid_len crc lognum).
Notation rrun := (rrun crc lognum).
Notation iflat := (iflat crc lognum).
Notation trailer := (trailer lognum).

Definition a0 : astate := mkA 0 0 None [] 0.

Lemma decode_full_D : forall b, decode_full b = rrun (S (length b)) (D a0 b).
Proof. intros. unfold Frame.decode_full. rewrite fuel_acc_spec. reflexivity. Qed.

Lemma boundary_spec : forall rs k, boundary crc lognum rs k = layout_size 0 (firstn k rs).
Proof. intros. unfold boundary, Frame.encode. rewrite (nlen_iflat crc lognum _ Hlog). apply layout_size_spec. Qed.

Lemma length_encode : forall rs, N.of_nat (length (encode rs)) = layout_size 0 rs.
Proof. intros. rewrite <- nlen_spec. unfold Frame.encode. rewrite (nlen_iflat crc lognum _ Hlog). apply layout_size_spec. Qed.

(* (b) every byte prefix of a written file *)
Lemma frame_crash_image : forall rs n, decode_full (firstn n (encode rs)) = cut_view rs (N.of_nat n).
Proof.
  intros rs n. rewrite decode_full_D. unfold Frame.encode.
  destruct (layout_ok rs 0 0 [] 0 ltac:(unfold HS, BS; lia)) as (Hwf & Hcut & _). cbv zeta in *.
  rewrite (run_cut_items crc lognum Hlog); [| exact Hwf | cbn; unfold BS; lia | lia].
  unfold a0. rewrite Hcut. unfold cut_view. destruct (cut_spec 0 rs (N.of_nat n) 0 0) as [[k st] g].
  rewrite rev'_rev. reflexivity.
Qed.

(* a complete file followed by anything: the reader reaches the end state of the layout *)
Definition end_state (rs : list bytes) : astate := fold_left istep (layout 0 rs) a0.

Lemma end_state_spec : forall rs,
  acur (end_state rs) = None /\ aacc (end_state rs) = rev rs /\ ae (end_state rs) + HS <= BS.
Proof.
  intros rs. unfold end_state, a0.
  destruct (layout_ok rs 0 0 [] 0 ltac:(unfold HS, BS; lia)) as (_ & _ & (i' & g' & Hi' & Hfold)). cbv zeta in *.
  rewrite Hfold. cbn [acur aacc ae]. rewrite app_nil_r. repeat split. exact Hi'.
Qed.

Lemma frame_then_tail : forall rs tail, exists fuel,
  (length tail < fuel)%nat /\ decode_full (encode rs ++ tail) = rrun fuel (D (end_state rs) tail).
Proof.
  intros rs tail. rewrite decode_full_D. unfold Frame.encode.
  destruct (layout_ok rs 0 0 [] 0 ltac:(unfold HS, BS; lia)) as (Hwf & _ & _). cbv zeta in *.
  destruct (run_items_tail crc lognum Hlog (layout 0 rs) a0 tail (S (length (iflat (layout 0 rs) ++ tail))) Hwf ltac:(lia))
    as (fuel & Hf & Hrun).
  exists fuel. split; [exact Hf|]. exact Hrun.
Qed.

Lemma finish_end : forall rs, finish (end_state rs) = (rs, Clean, agood (end_state rs)).
Proof.
  intros. destruct (end_state_spec rs) as (Hc & Ha & _). unfold finish. rewrite Hc, Ha.
  unfold rev'. rewrite <- rev_alt, rev_involutive. reflexivity.
Qed.

(* (a) round trip *)
Lemma frame_roundtrip_full : forall rs, decode_full (encode rs) = (rs, Clean, agood (end_state rs)).
Proof.
  intros rs. destruct (frame_then_tail rs []) as (fuel & Hf & H).
  rewrite app_nil_r in H. rewrite H. destruct fuel; [cbn in Hf; lia|].
  unfold D. cbn [nlen nlen_acc].
  rewrite (rrun_stop crc lognum _ _ _ (rstep_nil crc lognum _ _ _ _ _)). cbn [dacc dgood].
  apply finish_end.
Qed.
Lemma frame_roundtrip : forall rs, decode (encode rs) = (rs, Clean).
Proof. intros. unfold Frame.decode. rewrite frame_roundtrip_full. reflexivity. Qed.

(* closed file: the EOF trailer reads as a clean end whatever follows it; a partial trailer as an invalid tail *)
Lemma frame_closed : forall rs tail, decode_full (encode rs ++ trailer ++ tail) = decode_full (encode rs).
Proof.
  intros rs tail. rewrite frame_roundtrip_full.
  destruct (frame_then_tail rs (trailer ++ tail)) as (fuel & Hf & H). rewrite H.
  destruct (end_state_spec rs) as (Hc & Ha & Hi').
  destruct fuel; [lia|]. unfold D.
  rewrite (rrun_stop crc lognum _ _ _ (rstep_trailer crc lognum Hlog _ _ _ _ _ _ Hi')). cbn [dacc dgood].
  rewrite <- finish_end. unfold finish. reflexivity.
Qed.

Lemma frame_partial_trailer : forall rs m, (0 < m < 11)%nat ->
  decode_full (encode rs ++ firstn m trailer) = (rs, Torn, agood (end_state rs)).
Proof.
  intros rs m Hm.
  destruct (frame_then_tail rs (firstn m trailer)) as (fuel & Hf & H). rewrite H.
  destruct (end_state_spec rs) as (Hc & Ha & Hi').
  destruct fuel; [lia|]. unfold D.
  rewrite (rrun_stop crc lognum _ _ _ (rstep_partial_trailer crc lognum Hlog _ _ _ _ _ _ Hi' Hm)). cbn [dacc dgood].
  rewrite Ha. unfold rev'. rewrite <- rev_alt, rev_involutive. reflexivity.
Qed.

Lemma length_trailer : length trailer = 11%nat.
Proof. reflexivity. Qed.

(* every byte prefix of a closed file *)
Lemma frame_closed_crash_image : forall rs n,
  decode_full (firstn n (encode_closed crc lognum rs)) =
  if (n <=? length (encode rs))%nat then cut_view rs (N.of_nat n)
  else (rs, (if (n <? length (encode rs) + 11)%nat then Torn else Clean), agood (end_state rs)).
Proof.
  intros rs n. unfold encode_closed.
  destruct (Nat.leb_spec n (length (encode rs))) as [Hle|Hgt].
  - rewrite firstn_app_lt by assumption. apply frame_crash_image.
  - rewrite firstn_app_ge by lia.
    destruct (Nat.ltb_spec n (length (encode rs) + 11)) as [Hlt|Hge].
    + apply frame_partial_trailer. lia.
    + rewrite firstn_all2 by (rewrite length_trailer; lia).
      rewrite <- (app_nil_r trailer). rewrite frame_closed. apply frame_roundtrip_full.
Qed.

Lemma valid_len_encode : forall rs, valid_len (encode rs) = agood (end_state rs).
Proof. intros. unfold Frame.valid_len. rewrite frame_roundtrip_full. reflexivity. Qed.

Lemma frame_closed_crash_image_v : forall rs n,
  decode_full (firstn n (encode_closed crc lognum rs)) =
  if (n <=? length (encode rs))%nat then cut_view rs (N.of_nat n)
  else (rs, (if (n <? length (encode rs) + 11)%nat then Torn else Clean), valid_len (encode rs)).
Proof. intros. rewrite valid_len_encode. apply frame_closed_crash_image. Qed.

Lemma frame_closed_roundtrip : forall rs, decode (encode_closed crc lognum rs) = (rs, Clean).
Proof.
  intros. unfold Frame.decode, encode_closed. rewrite <- (app_nil_r trailer), frame_closed, frame_roundtrip_full. reflexivity.
Qed.

(* ---------- record-level consequences of (b) ---------- *)
Lemma frame_prefix : forall rs n, exists k st g,
  decode_full (firstn n (encode rs)) = (firstn k rs, st, g) /\ (k <= length rs)%nat /\
  (forall j, (j <= length rs)%nat -> boundary crc lognum rs j <= N.of_nat n -> (j <= k)%nat) /\
  (st = Clean -> (n <= length (encode rs))%nat -> N.of_nat n <= boundary crc lognum rs k).
Proof.
  intros rs n. rewrite frame_crash_image. unfold cut_view.
  pose proof (cut_spec_props rs 0 (N.of_nat n) 0 0 ltac:(unfold HS, BS; lia)) as Hp.
  destruct (cut_spec 0 rs (N.of_nat n) 0 0) as [[k st] g]. destruct Hp as (Hk & Hc & Hj).
  exists k, st, g. split; [reflexivity|]. split; [exact Hk|]. split.
  - intros j Hjl Hb. rewrite boundary_spec in Hb. apply Hj; assumption.
  - intros Hcl Hn. rewrite boundary_spec. apply Hc; [assumption|]. rewrite <- length_encode. lia.
Qed.

Lemma frame_clean_at_boundary : forall rs j, (j <= length rs)%nat ->
  decode (firstn (N.to_nat (boundary crc lognum rs j)) (encode rs)) = (firstn j rs, Clean).
Proof.
  intros rs j Hj. unfold boundary. rewrite to_nat_nlen.
  destruct (layout_firstn rs j 0) as [more Hm]. unfold Frame.encode at 2. rewrite Hm.
  unfold Frame.iflat. rewrite flat_map_app. fold (iflat (layout 0 (firstn j rs))). fold (encode (firstn j rs)).
  rewrite firstn_app_exact by reflexivity. apply frame_roundtrip.
Qed.
End Top.

(* ==================== part 7 ==================== *)
Lemma wf_app_inv : forall a st b, wf_items (ae st) (a ++ b) ->
  wf_items (ae st) a /\ wf_items (ae (fold_left istep a st)) b.
Proof.
  induction a as [|it r IH]; intros st b H; cbn [app fold_left] in *. split; [exact I|assumption].
  pose proof (wf_next _ _ _ H) as Hn. destruct (IH _ _ Hn) as [H1 H2]. split; [|exact H2].
  destruct it as [ty f|k]; cbn [wf_items] in *.
  - repeat split; try tauto. rewrite ae_istep in H1. cbn [istep ae] in H1.
    destruct (absorb _ _ _ _ _ _) as [[? ?] ?]. exact H1.
  - repeat split; try tauto. rewrite ae_istep in H1. cbn [istep ae] in H1. rewrite adv_pad in H1 by tauto. exact H1.
Qed.

Section Corrupt.
Variable crc : bytes -> N.
Variable lognum : N.
Hypothesis Hlog : lognum < W32.

(* (c) a chunk whose stored checksum differs from the checksum of its type, log number and payload bytes
   (length, type and log number fields intact) stops the reader: the records completed before it are
   returned, nothing after it, and the tail is reported invalid *)
Lemma frame_bad_checksum : forall rs its1 ty f its2 c0 c1 c2 c3 f' tail,
  layout 0 rs = its1 ++ IChunk ty f :: its2 -> nlen f' = nlen f ->
  le32d c0 c1 c2 c3 <> crc (body lognum ty f') mod W32 ->
  exists k, (k <= length rs)%nat /\
    decode crc lognum (iflat crc lognum its1 ++ c0 :: c1 :: c2 :: c3 :: le16 (nlen f') ++ body lognum ty f' ++ tail)
    = (firstn k rs, Torn).
Proof.
  intros rs its1 ty f its2 c0 c1 c2 c3 f' tail Hl Hn Hbad.
  destruct (layout_ok rs 0 0 [] 0 ltac:(unfold HS, BS; lia)) as (Hwf & Hcut & _). cbv zeta in *.
  rewrite Hl in Hwf, Hcut.
  change 0 with (ae (a0)) in Hwf at 1.
  destruct (wf_app_inv _ _ _ Hwf) as [Hwf1 Hwf2].
  set (a1 := fold_left istep its1 a0) in *.
  (* the records completed before the chunk *)
  specialize (Hcut (chunks_size its1 + pad_size its1)).
  rewrite cut_items_app_ge in Hcut by lia. fold a0 in Hcut. fold a1 in Hcut.
  rewrite N.sub_diag in Hcut. cbn [cut_items isize] in Hcut.
  replace (HS + nlen f <=? 0) with false in Hcut by (unfold HS; lia). cbn [N.eqb] in Hcut.
  pose proof (cut_spec_props rs 0 (chunks_size its1 + pad_size its1) 0 0 ltac:(unfold HS, BS; lia)) as Hp.
  destruct (cut_spec 0 rs (chunks_size its1 + pad_size its1) 0 0) as [[k st] g]. destruct Hp as (Hk & _ & _).
  rewrite rev'_rev in Hcut. unfold finish in Hcut. injection Hcut as Hacc _ _.
  exists k. split; [exact Hk|].
  unfold decode. rewrite (decode_full_D crc lognum).
  set (bad := c0 :: c1 :: c2 :: c3 :: le16 (nlen f') ++ body lognum ty f' ++ tail).
  destruct (run_items_tail crc lognum Hlog its1 a0 bad (S (length (iflat crc lognum its1 ++ bad))) Hwf1 ltac:(lia))
    as (fuel & Hf & Hrun).
  rewrite Hrun. fold a1. destruct fuel; [lia|].
  cbn [wf_items] in Hwf2. destruct Hwf2 as (Hty & Hfit & _).
  unfold D. rewrite (rrun_stop crc lognum _ _ Torn).
  - cbn [dacc dgood fst]. rewrite Hacc. reflexivity.
  - apply (rstep_bad_crc crc lognum Hlog); try assumption. rewrite Hn. exact Hfit.
Qed.

(* the instance "the payload of one chunk was altered (same length), its header is the original one" *)
Lemma frame_payload_corruption : forall rs its1 ty f its2 f',
  layout 0 rs = its1 ++ IChunk ty f :: its2 -> nlen f' = nlen f ->
  crc (body lognum ty f') mod W32 <> crc (body lognum ty f) mod W32 ->
  exists k, (k <= length rs)%nat /\
    decode crc lognum (iflat crc lognum its1 ++ (le32 (crc (body lognum ty f)) ++ le16 (nlen f) ++ body lognum ty f')
                       ++ iflat crc lognum its2) = (firstn k rs, Torn).
Proof.
  intros rs its1 ty f its2 f' Hl Hn Hne.
  destruct (frame_bad_checksum rs its1 ty f its2 _ _ _ _ f' (iflat crc lognum its2) Hl Hn
              ltac:(rewrite le32d_le32; intro E; apply Hne; symmetry; exact E)) as (k & Hk & H).
  exists k. split; [exact Hk|]. rewrite <- H. rewrite Hn. unfold le32. cbn [app]. rewrite <- !app_assoc. reflexivity.
Qed.
End Corrupt.

(* ---------- the record-level model's file is what the reader returns ---------- *)
Section Link.
Variable crc : bytes -> N.
Variable enc : batch -> bytes.
Variable dec : bytes -> batch.
Hypothesis Hdec : forall b, dec (enc b) = b.

Lemma map_dec_firstn : forall k bats, map dec (firstn k (map enc bats)) = firstn k bats.
Proof. intros. rewrite firstn_map, map_map. rewrite (map_ext _ (fun x => x)) by apply Hdec. apply map_id. Qed.

Lemma mod_W32_lt : forall n, n mod W32 < W32.
Proof. intros. apply N.mod_lt. unfold W32. lia. Qed.

Lemma frame_file_of_prefix : forall num bats n,
  let lognum := num mod W32 in
  let rs := map enc bats in
  exists k torn, (k <= length bats)%nat /\
    file_of_bytes crc dec num (firstn n (encode crc lognum rs)) = mkFile num (firstn k bats) torn /\
    (forall j, (j <= length bats)%nat -> boundary crc lognum rs j <= N.of_nat n -> (j <= k)%nat) /\
    (torn = false -> (n <= length (encode crc lognum rs))%nat -> N.of_nat n <= boundary crc lognum rs k).
Proof.
  intros num bats n lognum rs.
  destruct (frame_prefix crc lognum (mod_W32_lt num) rs n) as (k & st & g & Hd & Hk & Hj & Hc).
  unfold rs in Hk. rewrite map_length in Hk.
  exists k, (match st with Torn => true | Clean => false end). split; [exact Hk|]. split; [|split].
  - unfold file_of_bytes, decode. fold lognum. rewrite Hd. cbn [fst]. unfold rs. rewrite map_dec_firstn. reflexivity.
  - intros j Hjl. apply Hj. unfold rs. rewrite map_length. exact Hjl.
  - intros Ht. apply Hc. destruct st; [reflexivity|discriminate].
Qed.

(* the crash images of one flush: the file held [bats] (all synced), the batch [b] is being appended, the
   file is cut anywhere at or after the synced offset. What the reader returns is one of the four files
   the record-level model knows: unchanged, unchanged + invalid tail (CPTorn), batch complete (CPFull), batch
   complete + invalid tail (cut inside the zero padding that follows it); never part of the batch *)
Lemma frame_inflight_images : forall num bats b n,
  let lognum := num mod W32 in
  let synced := length (encode crc lognum (map enc bats)) in
  let f0 := mkFile num bats false in
  (synced <= n)%nat ->
  let f := file_of_bytes crc dec num (firstn n (encode crc lognum (map enc (bats ++ [b])))) in
  (f = f0 /\ n = synced) \/ f = set_torn f0 \/ f = add_batch b f0 \/ f = set_torn (add_batch b f0).
Proof.
  intros num bats b n lognum synced f0 Hn f.
  destruct (frame_file_of_prefix num (bats ++ [b]) n) as (k & torn & Hk & Hf & Hj & Hc).
  fold lognum in Hf, Hj, Hc. fold f in Hf.
  assert (Hb : boundary crc lognum (map enc (bats ++ [b])) (length bats) = N.of_nat synced).
  { unfold boundary, synced. rewrite nlen_spec, map_app, firstn_app_exact by (rewrite map_length; reflexivity). reflexivity. }
  assert (Hge : (length bats <= k)%nat).
  { apply Hj. rewrite app_length. lia. rewrite Hb. lia. }
  rewrite app_length in Hk. cbn [length] in Hk.
  assert (Hk2 : k = length bats \/ k = S (length bats)) by lia.
  destruct Hk2 as [E|E]; subst k.
  - rewrite firstn_app_exact in Hf by reflexivity.
    destruct torn.
    + right. left. exact Hf.
    + left. split; [exact Hf|]. rewrite Hb in Hc.
      assert (length (encode crc lognum (map enc bats)) <= length (encode crc lognum (map enc (bats ++ [b]))))%nat.
      { pose proof (layout_firstn (map enc (bats ++ [b])) (length bats) 0) as [more Hm].
        rewrite map_app, firstn_app_exact in Hm by (rewrite map_length; reflexivity).
        unfold encode. rewrite map_app, Hm. unfold iflat. rewrite flat_map_app, app_length. lia. }
      destruct (Nat.le_gt_cases n (length (encode crc lognum (map enc (bats ++ [b]))))) as [Hle|Hgt].
      * specialize (Hc eq_refl Hle). fold synced in Hn. lia.
      * exfalso. (* the whole file: the reader returns every batch *)
        unfold f in Hf. rewrite firstn_all2 in Hf by lia. clear -Hf Hdec.
        unfold file_of_bytes in Hf. rewrite (frame_roundtrip crc _ (mod_W32_lt num)) in Hf.
        injection Hf as Hf. rewrite map_map, (map_ext _ (fun x => x)), map_id in Hf by apply Hdec.
        apply (f_equal (@length _)) in Hf. rewrite app_length in Hf. cbn [length] in Hf. lia.
  - replace (firstn (S (length bats)) (bats ++ [b])) with (bats ++ [b]) in Hf
      by (symmetry; apply firstn_all2; rewrite app_length; cbn [length]; lia).
    destruct torn; [right; right; right|right; right; left]; exact Hf.
Qed.
End Link.



(* ==================== part 8 ==================== *)
(* cutting at the reported valid length gives the same records and a clean end *)
Lemma cut_spec_valid : forall rs i n good off k st g, i + HS <= BS ->
  cut_spec i rs n good off = (k, st, g) ->
  (k = O -> g = good) /\
  (k <> O -> off <= g /\ g - off <= n /\ cut_spec i rs (g - off) good off = (k, Clean, g)).
Proof.
  induction rs as [|r rs IH]; intros i n good off k st g Hi H; cbn [cut_spec] in *.
  - injection H as <- <- <-. split; [reflexivity|congruence].
  - pose proof (rec_size_pos i r Hi) as Hs. destruct (emit_rec i r) as [its i'] eqn:Er.
    destruct Hs as (Hraw & Hpad & Hi').
    set (raw := chunks_size its) in *. set (pad := pad_size its) in *.
    assert (Hraw_self : forall rs', (if raw =? 0 then (O, Clean, good) else if raw <? raw then (O, Torn, good) else
               if raw <? raw + pad then (1%nat, (if (raw =? raw) || (raw + 7 <=? raw) then Clean else Torn), off + raw)
               else let '(k, st, g) := cut_spec i' rs' (raw - (raw + pad)) (off + raw) (off + (raw + pad)) in (S k, st, g))
              = (1%nat, Clean, off + raw)).
    { intros rs'. replace (raw =? 0) with false by (unfold HS in *; lia). rewrite N.ltb_irrefl.
      destruct (N.ltb_spec raw (raw + pad)) as [E|E].
      - rewrite N.eqb_refl. reflexivity.
      - replace (raw - (raw + pad)) with 0 by lia.
        destruct rs' as [|r2 rs2]; cbn [cut_spec]. reflexivity.
        destruct (emit_rec i' r2). reflexivity. }
    destruct (N.eqb_spec n 0) as [E0|E0]; [|destruct (N.ltb_spec n raw) as [E1|E1]; [|destruct (N.ltb_spec n (raw + pad)) as [E2|E2]]].
    + injection H as <- <- <-. split; [reflexivity|congruence].
    + injection H as <- <- <-. split; [reflexivity|congruence].
    + injection H as <- <- <-. split; [congruence|]. intros _.
      replace (off + raw - off) with raw by lia. split; [lia|]. split; [lia|]. apply Hraw_self.
    + destruct (cut_spec i' rs (n - (raw + pad)) (off + raw) (off + (raw + pad))) as [[k' st'] g'] eqn:Ec.
      injection H as <- <- <-.
      destruct (IH _ _ _ _ _ _ _ Hi' Ec) as [H0 H1].
      split; [congruence|]. intros _.
      destruct k' as [|k'].
      * rewrite (H0 eq_refl). replace (off + raw - off) with raw by lia. split; [lia|]. split; [lia|]. apply Hraw_self.
      * destruct (H1 ltac:(congruence)) as (Hge & Hle & Hcs). split; [lia|]. split; [lia|].
        replace (g' - off =? 0) with false by (unfold HS in *; lia).
        replace (g' - off <? raw) with false by lia.
        replace (g' - off <? raw + pad) with false by lia.
        replace (g' - off - (raw + pad)) with (g' - (off + (raw + pad))) by lia.
        rewrite Hcs. reflexivity.
Qed.

Lemma firstn_firstn_min : forall (A : Type) (l : list A) a b, firstn a (firstn b l) = firstn (min a b) l.
Proof. intros. apply firstn_firstn. Qed.

Section Valid.
Variable crc : bytes -> N.
Variable lognum : N.
Hypothesis Hlog : lognum < W32.

Lemma frame_truncate_valid : forall rs n,
  let b := firstn n (encode crc lognum rs) in
  let '(recs, st, g) := decode_full crc lognum b in
  g <= N.of_nat n /\ decode_full crc lognum (firstn (N.to_nat g) b) = (recs, Clean, g).
Proof.
  intros rs n b. unfold b. rewrite (frame_crash_image crc lognum Hlog). unfold cut_view.
  destruct (cut_spec 0 rs (N.of_nat n) 0 0) as [[k st] g] eqn:Ec.
  destruct (cut_spec_valid rs 0 (N.of_nat n) 0 0 k st g ltac:(unfold HS, BS; lia) Ec) as [H0 H1].
  destruct k as [|k].
  - rewrite (H0 eq_refl). split; [lia|]. cbn [N.to_nat firstn]. reflexivity.
  - destruct (H1 ltac:(congruence)) as (_ & Hle & Hcs). rewrite N.sub_0_r in *. split; [exact Hle|].
    rewrite firstn_firstn_min. replace (Nat.min (N.to_nat g) n) with (N.to_nat g) by lia.
    rewrite (frame_crash_image crc lognum Hlog). unfold cut_view. rewrite N2Nat.id, Hcs. reflexivity.
Qed.
End Valid.

(* reopening never looks at the invalid-tail flag of the latest file: recoverLatestWALTail cuts the tail off *)
Lemma untear_last_app : forall fs f, untear_last (fs ++ [f]) = fs ++ [mkFile (fnum f) (fbat f) false].
Proof.
  induction fs as [|x r IH]; intros f. reflexivity.
  cbn [app]. destruct (r ++ [f]) as [|y t] eqn:E. destruct r; discriminate.
  change (untear_last (x :: y :: t)) with (x :: untear_last (y :: t)). rewrite <- E, IH. reflexivity.
Qed.
Lemma nonlast_clean_app : forall fs f g, nonlast_clean (fs ++ [f]) = nonlast_clean (fs ++ [g]).
Proof.
  induction fs as [|x r IH]; intros f g. reflexivity.
  cbn [app]. destruct (r ++ [f]) as [|y t] eqn:E. destruct r; discriminate.
  destruct (r ++ [g]) as [|y' t'] eqn:E'. destruct r; discriminate.
  change (nonlast_clean (x :: y :: t)) with (negb (ftorn x) && nonlast_clean (y :: t)).
  change (nonlast_clean (x :: y' :: t')) with (negb (ftorn x) && nonlast_clean (y' :: t')).
  rewrite <- E, <- E', (IH f g). reflexivity.
Qed.
Lemma reopen_last_flag : forall fs f wm tmp,
  reopen_obs (mkDisk (fs ++ [set_torn f]) wm tmp) = reopen_obs (mkDisk (fs ++ [f]) wm tmp).
Proof.
  intros. unfold reopen_obs, open. cbn [dfiles dwm dtmp].
  rewrite (nonlast_clean_app fs (set_torn f) f), !untear_last_app. reflexivity.
Qed.
