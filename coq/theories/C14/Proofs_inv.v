(* C14 — part B: the disk / history invariant, and the lemmas that carry the property:
   a committed batch extends the invariant (nothing lost, nothing partial), tearing the tail and the
   watermark write keep it, and removing any set of files that no live height references keeps it
   once the watermark holds the current prune bound (nothing revived). *)
From Coq Require Import List NArith Bool Lia ZifyN ZifyBool.
From V Require Import C14.Model C14.Proofs.
Import ListNotations.
Open Scope N_scope.
Arguments flat : simpl never.

Definition above_f (p : N) := fun x : N * N => p <? fst x.

(* the disk holds history [dur]: same prune bound, same entries above it, and it can be opened *)
Record DInv (d : disk) (dur : list rec) : Prop := {
  dj1 : N.max (wm_val d) (maxprune (disk_recs d)) = maxprune dur;
  dj2 : filter (above_f (maxprune dur)) (entries (disk_recs d)) = filter (above_f (maxprune dur)) (entries dur);
  dj3 : nonlast_clean (dfiles d) = true }.

Lemma dinv_reopen : forall d dur, DInv d dur -> reopen_obs d = Some (live' dur).
Proof.
  intros d dur [J1 J2 J3]. rewrite (reopen_exact d J3). unfold live'. f_equal. f_equal.
  rewrite J1. exact J2.
Qed.

(* ---------- live vs live' : they differ only for height 0 without any prune request ---------- *)
Lemma prune_bound_spec : forall l a,
  fold_left (fun a r => match r with
                        | RPrune h => Some (match a with Some x => N.max x h | None => h end)
                        | _ => a end) l a =
  match a with
  | Some x => Some (maxp x l)
  | None => if existsb is_prune l then Some (maxp 0 l) else None
  end.
Proof.
  induction l as [|r l IH]; intros a; simpl.
  - destruct a; reflexivity.
  - rewrite IH. destruct r as [h id|h]; simpl.
    + destruct a; reflexivity.
    + destruct a; unfold maxp; simpl; rewrite ?N.max_0_l; reflexivity.
Qed.

Lemma live_live' : forall l, (forall h id, In (h, id) (entries l) -> 0 < h) -> live l = live' l.
Proof.
  intros l H. unfold live, live'. f_equal. apply filter_ext_in. intros [h id] Hin. simpl.
  specialize (H _ _ Hin). unfold prune_bound. rewrite prune_bound_spec.
  unfold maxprune. fold (maxp 0 l).
  destruct (existsb is_prune l) eqn:E; simpl; [reflexivity|].
  assert (maxp 0 l = 0) as ->; [|lia].
  clear -E. unfold maxp. induction l as [|r l IH]; simpl in *; auto.
  destruct r; simpl in E; [auto|discriminate].
Qed.

(* ---------- committing a batch ---------- *)
Lemma filter_above_ge : forall p q l, q <= p ->
  filter (above_f p) (filter (above_f q) l) = filter (above_f p) l.
Proof. intros. apply filter_filter_ge; auto. Qed.

Lemma filter_above_cong : forall p q l1 l2, q <= p ->
  filter (above_f q) l1 = filter (above_f q) l2 -> filter (above_f p) l1 = filter (above_f p) l2.
Proof. intros p q l1 l2 H E. rewrite <- (filter_above_ge p q l1 H), <- (filter_above_ge p q l2 H), E. reflexivity. Qed.

(* pending relation kept by SetWALEntry / DeleteWALEntries: the model's pending batch [b] carries the
   accepted calls [sp] up to records that are dead under the current bound P *)
Definition pend_rel (P : N) (b sp : list rec) : Prop :=
  entries b = filter (above_f P) (entries sp) /\ N.max P (maxprune b) = N.max P (maxprune sp).

Lemma commit_records : forall W R dur b sp,
  N.max W (maxprune R) = maxprune dur ->
  filter (above_f (maxprune dur)) (entries R) = filter (above_f (maxprune dur)) (entries dur) ->
  pend_rel (maxprune dur) b sp ->
  N.max W (maxprune (R ++ b)) = maxprune (dur ++ sp) /\
  filter (above_f (maxprune (dur ++ sp))) (entries (R ++ b)) =
  filter (above_f (maxprune (dur ++ sp))) (entries (dur ++ sp)).
Proof.
  intros W R dur b sp J1 J2 [K1 K2]. rewrite !maxprune_app, !entries_app, !filter_app. split; [lia|].
  set (P := maxprune dur) in *. set (P' := N.max P (maxprune sp)).
  assert (P <= P') by (unfold P'; lia).
  f_equal.
  - apply (filter_above_cong P' P); auto.
  - rewrite K1. apply filter_above_ge; auto.
Qed.

(* ---------- removing files ---------- *)
Lemma maxprune_le : forall l p, (forall h, In (RPrune h) l -> h <= p) -> maxprune l <= p.
Proof.
  intros l p H. unfold maxprune. fold (maxp 0 l).
  assert (G : forall a, a <= p -> maxp a l <= p).
  { induction l as [|r l IH]; intros a Ha; unfold maxp in *; simpl; auto.
    destruct r as [h id|h]; [apply IH; auto; intros; apply H; simpl; auto|].
    apply IH; [intros; apply H; simpl; auto|]. assert (h <= p) by (apply H; simpl; auto). lia. }
  apply G. lia.
Qed.

Lemma maxprune_in : forall l h, In (RPrune h) l -> h <= maxprune l.
Proof.
  induction l as [|r l IH]; simpl; intros h H; [contradiction|].
  change (r :: l) with ([r] ++ l). rewrite maxprune_app. destruct H as [H|H].
  - subst r. unfold maxprune at 1. simpl. lia.
  - specialize (IH _ H). lia.
Qed.

Definition file_rs (f : file) : list rec := map snd (file_recs f).

Lemma disk_recs_files : forall fs w t, disk_recs (mkDisk fs w t) = flat_map file_rs fs.
Proof.
  intros. unfold disk_recs, tagged. simpl. induction fs as [|f r IH]; simpl; auto.
  rewrite map_app, IH. reflexivity.
Qed.

(* every record of a removed file is dead under p: entries at or below p (prune records on disk are
   always at or below the bound) *)
Lemma remove_files_safe : forall (keep : file -> bool) fs p,
  (forall f, In f fs -> keep f = false -> forall h id, In (REntry h id) (file_rs f) -> h <= p) ->
  filter (above_f p) (entries (flat_map file_rs (filter keep fs))) =
  filter (above_f p) (entries (flat_map file_rs fs)).
Proof.
  induction fs as [|f r IH]; simpl; intros p H; auto.
  destruct (keep f) eqn:K; simpl; rewrite !entries_app, !filter_app.
  - f_equal. apply IH. intros; eapply H; eauto.
  - rewrite IH by (intros; eapply H; eauto).
    assert (filter (above_f p) (entries (file_rs f)) = []) as ->; [|reflexivity].
    assert (G : forall h id, In (REntry h id) (file_rs f) -> h <= p) by (intros; eapply H; eauto).
    clear -G. induction (file_rs f) as [|x l IHl]; simpl; auto.
    destruct x as [h id|h]; simpl.
    + assert (h <= p) by (eapply G; simpl; eauto). unfold above_f at 1. simpl.
      assert ((p <? h) = false) as -> by lia. apply IHl. intros; eapply G; simpl; eauto.
    + apply IHl. intros; eapply G; simpl; eauto.
Qed.

Lemma in_flat_map_filter : forall (keep : file -> bool) fs x,
  In x (flat_map file_rs (filter keep fs)) -> In x (flat_map file_rs fs).
Proof.
  intros keep fs x H. apply in_flat_map in H. destruct H as [f [Hf Hx]].
  apply filter_In in Hf. apply in_flat_map. exists f. tauto.
Qed.

(* deletion keeps the invariant once the watermark is the current bound (watermark-before-delete) *)
Lemma delete_safe : forall fs t dur (keep : file -> bool),
  DInv (mkDisk fs (Some (maxprune dur)) t) dur ->
  (forall f, In f fs -> keep f = false ->
     forall h id, In (REntry h id) (file_rs f) -> h <= maxprune dur) ->
  nonlast_clean (filter keep fs) = true ->
  DInv (mkDisk (filter keep fs) (Some (maxprune dur)) t) dur.
Proof.
  intros fs t dur keep [J1 J2 J3] Hdead Hc. rewrite disk_recs_files in *. unfold wm_val in *. simpl in *.
  constructor; rewrite ?disk_recs_files; unfold wm_val; simpl; auto.
  - assert (maxprune (flat_map file_rs (filter keep fs)) <= maxprune dur); [|lia].
    apply maxprune_le. intros h Hh. apply in_flat_map_filter in Hh. apply maxprune_in in Hh. lia.
  - rewrite remove_files_safe; auto.
Qed.

(* ---------- the index names every file that holds a live entry ---------- *)
Definition has (ix : index) (h fn : N) : Prop := exists e, In e ix /\ hh e = h /\ In fn (hfs e).

Lemma memN_in : forall x l, memN x l = true <-> In x l.
Proof.
  induction l as [|y r IH]; simpl; [intuition discriminate|].
  rewrite orb_true_iff, IH. split; intros [H|H]; auto; [left; lia|left; subst; lia].
Qed.

Lemma in_add_missing : forall x y l, In y (add_missing x l) <-> y = x \/ In y l.
Proof.
  intros. unfold add_missing. destruct (memN x l) eqn:E.
  - apply memN_in in E. split; [auto|]. intros [H|H]; subst; auto.
  - rewrite in_app_iff. simpl. intuition.
Qed.

Lemma has_idx_add : forall ix h id fn h' fn',
  has (idx_add ix h id fn) h' fn' <-> (has ix h' fn' \/ (h' = h /\ fn' = fn)) .
Proof.
  induction ix as [|e r IH]; simpl; intros h id fn h' fn'.
  - unfold has. simpl. split.
    + intros [e [[He|[]] [Hh Hf]]]. subst e. simpl in *. destruct Hf as [Hf|[]]. right. auto.
    + intros [[e [[] _]]|[H1 H2]]. subst. eexists. split; [left; reflexivity|]. simpl. auto.
  - destruct (h <? hh e) eqn:E1; [|destruct (h =? hh e) eqn:E2].
    + unfold has. simpl. split.
      * intros [e0 [[He|He] [Hh Hf]]].
        -- subst e0. simpl in *. destruct Hf as [Hf|[]]. right; auto.
        -- left. exists e0. auto.
      * intros [[e0 [He Hx]]|[H1 H2]].
        -- exists e0. auto.
        -- subst. eexists. split; [left; reflexivity|]. simpl. auto.
    + assert (h = hh e) by lia. unfold has. simpl. split.
      * intros [e0 [[He|He] [Hh Hf]]].
        -- subst e0. simpl in *. apply in_add_missing in Hf. destruct Hf as [Hf|Hf]; [right; subst; auto|].
           left. exists e. subst. auto.
        -- left. exists e0. auto.
      * intros [[e0 [[He|He] [Hh Hf]]]|[H1 H2]].
        -- subst e0. eexists. split; [left; reflexivity|]. simpl. split; [lia|]. apply in_add_missing. auto.
        -- exists e0. auto.
        -- subst. eexists. split; [left; reflexivity|]. simpl. split; auto. apply in_add_missing. auto.
    + specialize (IH h id fn h' fn'). unfold has in *. simpl. split.
      * intros [e0 [[He|He] Hx]].
        -- left. exists e0. auto.
        -- destruct (proj1 IH (ex_intro _ e0 (conj He Hx))) as [[e1 [H1 H2]]|H]; [left; exists e1; auto|right; auto].
      * intros [[e0 [[He|He] Hx]]|H].
        -- exists e0. auto.
        -- destruct (proj2 IH (or_introl (ex_intro _ e0 (conj He Hx)))) as [e1 [H1 H2]]. exists e1. auto.
        -- destruct (proj2 IH (or_intror H)) as [e1 [H1 H2]]. exists e1. auto.
Qed.

Lemma has_idx_prune : forall ix p h fn, p < h -> has ix h fn -> has (idx_prune ix p) h fn.
Proof.
  intros ix p h fn Hp [e [He [Hh Hf]]]. exists e. split; auto. unfold idx_prune. apply filter_In. split; auto. lia.
Qed.

Lemma replay_has : forall (trs : list (N * rec)) ix p ix' p',
  fold_left apply_rec trs (ix, p) = (ix', p') ->
  forall h fn, p' < h -> (has ix h fn \/ exists id, In (fn, REntry h id) trs) -> has ix' h fn.
Proof.
  induction trs as [|[f r] trs IH]; simpl; intros ix p ix' p' H h fn Hp Hx.
  - inversion H; subst. destruct Hx as [Hx|[id Hx]]; [auto|destruct Hx].
  - assert (Hmono : forall ix0 p0, fold_left apply_rec trs (ix0, p0) = (ix', p') -> p0 <= p').
    { clear. induction trs as [|[f r] trs IH]; simpl; intros ix0 p0 H; [inversion H; lia|].
      destruct r as [h id|h]; simpl in H; destruct (h <=? p0) eqn:E; try (apply IH in H; lia). }
    destruct r as [h0 id0|h0]; simpl in H.
    + destruct (h0 <=? p) eqn:E.
      * apply (IH _ _ _ _ H h fn Hp). destruct Hx as [Hx|[id [Hx|Hx]]]; eauto.
        inversion Hx; subst. apply Hmono in H. lia.
      * apply (IH _ _ _ _ H h fn Hp). destruct Hx as [Hx|[id [Hx|Hx]]]; eauto.
        -- left. apply has_idx_add. auto.
        -- inversion Hx; subst. left. apply has_idx_add. auto.
    + destruct (h0 <=? p) eqn:E.
      * apply (IH _ _ _ _ H h fn Hp). destruct Hx as [Hx|[id [Hx|Hx]]]; eauto. inversion Hx.
      * pose proof (Hmono _ _ H). apply (IH _ _ _ _ H h fn Hp). destruct Hx as [Hx|[id [Hx|Hx]]]; eauto.
        -- left. apply has_idx_prune; auto. lia.
        -- inversion Hx.
Qed.

(* minLiveWALNum is at or below every referenced file *)
Lemma min_live_le : forall ix nxt h fn, has ix h fn -> min_live nxt ix <= fn.
Proof.
  unfold min_live. intros ix nxt h fn [e [He [_ Hf]]].
  assert (G1 : forall l a, fold_left N.min l a <= a).
  { induction l as [|x l IH]; simpl; intros a; [lia|]. specialize (IH (N.min a x)). lia. }
  assert (G2 : forall l a, In fn l -> fold_left N.min l a <= fn).
  { induction l as [|x l IH]; simpl; intros a H; [contradiction|]. destruct H as [H|H]; [subst; specialize (G1 l (N.min a fn)); lia|auto]. }
  assert (G3 : forall ix a, fold_left (fun a e => fold_left N.min (hfs e) a) ix a <= a).
  { induction ix0 as [|x l IH]; simpl; intros a; [lia|]. specialize (IH (fold_left N.min (hfs x) a)). specialize (G1 (hfs x) a). lia. }
  revert nxt. induction ix as [|x l IH]; simpl; intros a; [contradiction|].
  destruct He as [He|He].
  - subst x. specialize (G3 l (fold_left N.min (hfs e) a)). specialize (G2 _ a Hf). lia.
  - apply IH; auto.
Qed.

(* prefix_delete_safe: a file below minLiveWALNum holds no entry above the prune bound, provided the
   index names every file that holds one *)
Lemma prefix_delete_safe : forall fs ix nxt p f h id,
  (forall fn h id, In (fn, REntry h id) (tagged fs) -> p < h -> has ix h fn) ->
  In f fs -> fnum f <? min_live nxt ix = true -> In (REntry h id) (file_rs f) -> h <= p.
Proof.
  intros fs ix nxt p f h id HM Hf Hlt Hin.
  destruct (N.le_gt_cases h p) as [|Hgt]; auto. exfalso.
  unfold file_rs in Hin. apply in_map_iff in Hin. destruct Hin as [[fn r] [Hr Hin]]. simpl in Hr. subst r.
  assert (fn = fnum f).
  { unfold file_recs in Hin. apply in_map_iff in Hin. destruct Hin as [r [Hr _]]. inversion Hr. auto. }
  subst fn.
  assert (In (fnum f, REntry h id) (tagged fs)) by (unfold tagged; apply in_flat_map; exists f; auto).
  pose proof (min_live_le ix nxt h (fnum f) (HM _ _ _ H Hgt)). lia.
Qed.

(* ---------- the abstract result [live]: nothing pruned comes back, nothing unpruned is lost ---------- *)
Lemma in_hsort_gen : forall l acc x, In x (fold_left (fun acc e => ins e acc) l acc) <-> In x l \/ In x acc.
Proof.
  induction l as [|e l IH]; simpl; intros acc x; [tauto|]. rewrite IH, in_ins. intuition (subst; auto).
Qed.
Lemma in_hsort : forall l x, In x (hsort l) <-> In x l.
Proof. intros. unfold hsort. rewrite in_hsort_gen. simpl. tauto. Qed.

Lemma hsorted_hsort : forall l, hsorted (hsort l).
Proof.
  intros l. unfold hsort. assert (G : forall l acc, hsorted acc -> hsorted (fold_left (fun acc e => ins e acc) l acc)).
  { induction l0 as [|e l0 IH]; simpl; auto. intros. apply IH. apply hsorted_ins. auto. }
  apply G. exact I.
Qed.

Lemma is_live_spec : forall l h,
  is_live (prune_bound l) h = true <-> (forall p, In (RPrune p) l -> p < h).
Proof.
  intros l h. unfold prune_bound. rewrite prune_bound_spec.
  destruct (existsb is_prune l) eqn:E; simpl.
  - fold (maxprune l). split.
    + intros H p Hp. apply maxprune_in in Hp. unfold maxprune in *. fold (maxp 0 l) in *. lia.
    + intros H. assert (maxprune l <= h - 1 /\ 0 < h).
      { apply existsb_exists in E. destruct E as [r [Hr Hp]]. destruct r as [|p0]; [discriminate|].
        pose proof (H _ Hr). split; [|lia]. apply maxprune_le. intros p Hp'. specialize (H _ Hp'). lia. }
      unfold maxprune in *. fold (maxp 0 l) in *. lia.
  - split; auto. intros _ p Hp. exfalso.
    assert (existsb is_prune l = true) by (apply existsb_exists; exists (RPrune p); auto). congruence.
Qed.

Lemma in_entries : forall l h id, In (h, id) (entries l) <-> In (REntry h id) l.
Proof.
  intros. unfold entries. rewrite in_flat_map. split.
  - intros [r [Hr Hx]]. destruct r; simpl in Hx; [|contradiction]. destruct Hx as [Hx|[]]. inversion Hx; subst. auto.
  - intros H. exists (REntry h id). simpl. auto.
Qed.

Lemma live_spec : forall l h id,
  In (h, id) (live l) <-> In (REntry h id) l /\ (forall p, In (RPrune p) l -> p < h).
Proof.
  intros. unfold live. rewrite in_hsort, filter_In, in_entries. simpl. rewrite is_live_spec. tauto.
Qed.

Lemma covered_spec : forall l h, covered l h = true <-> exists p, In (RPrune p) l /\ h <= p.
Proof.
  intros. unfold covered. rewrite existsb_exists. split.
  - intros [r [Hr Hp]]. destruct r as [|p]; [discriminate|]. exists p. split; auto. lia.
  - intros [p [Hp Hl]]. exists (RPrune p). split; auto. lia.
Qed.

Lemma eq_ents_refl : forall l, eq_ents l l = true.
Proof. induction l as [|[h i] l IH]; simpl; auto. rewrite !N.eqb_refl, IH. reflexivity. Qed.

(* a disk that satisfies the invariant for history [dur] reopens to exactly live dur *)
Lemma dinv_recover : forall d dur infl,
  DInv d dur -> (forall h id, In (REntry h id) dur -> 0 < h) ->
  reopen_obs d = Some (live dur) /\ recover_ok dur infl (reopen_obs d) = true.
Proof.
  intros d dur infl H Hp. rewrite (dinv_reopen _ _ H), <- live_live'.
  - split; auto. simpl. rewrite eq_ents_refl. reflexivity.
  - intros h id Hin. apply in_entries in Hin. eauto.
Qed.

(* ---------- a failed flush whose repair succeeds ---------- *)
Lemma tagged_app_empty : forall fs n t, tagged (fs ++ [mkFile n [] t]) = tagged fs.
Proof. intros. unfold tagged. rewrite flat_map_app. simpl. unfold file_recs. simpl. rewrite !app_nil_r. reflexivity. Qed.

Lemma nonlast_clean_all : forall fs, (forall f, In f fs -> ftorn f = false) -> nonlast_clean fs = true.
Proof.
  induction fs as [|f r IH]; simpl; intros H; auto. destruct r as [|g r']; auto.
  rewrite (H f) by auto. simpl. apply IH. intros; apply H; auto.
Qed.

Lemma flush_fail_clean : forall d m w,
  mclosed m = false -> mdead m = false -> mrepair m = false -> mpend m <> [] ->
  (forall f, In f (dfiles d) -> ftorn f = false) ->
  let '(d', m', r) := mstep d m (Flush (FFail w true)) in
  r = RFail false /\
  reopen_obs d' = reopen_obs d /\ disk_recs d' = disk_recs d /\ dwm d' = dwm d /\
  mpend m' = mpend m /\ mclosed m' = false /\ mdead m' = false /\ mrepair m' = false /\
  (forall f, In f (dfiles d') -> ftorn f = false).
Proof.
  intros d m w Hc Hd Hr Hp Hclean. simpl. unfold flush. rewrite Hc, Hd, Hr. simpl.
  destruct (mpend m) as [|r0 pend] eqn:Ep; [congruence|].
  unfold flush_body. destruct (mcur m) as [c|] eqn:Ec.
  - destruct w; simpl; repeat split; auto.
  - assert (Hcl' : forall f, In f (dfiles d ++ [mkFile (mnext m) [] false]) -> ftorn f = false).
    { intros f Hf. apply in_app_or in Hf. destruct Hf as [Hf|[Hf|[]]]; [auto|subst; reflexivity]. }
    assert (Hrec : disk_recs (with_files d (dfiles d ++ [mkFile (mnext m) [] false])) = disk_recs d).
    { unfold disk_recs. simpl. rewrite tagged_app_empty. reflexivity. }
    assert (Hro : reopen_obs (with_files d (dfiles d ++ [mkFile (mnext m) [] false])) = reopen_obs d).
    { rewrite (reopen_exact d) by (apply nonlast_clean_all; auto).
      rewrite reopen_exact by (apply nonlast_clean_all; auto). rewrite Hrec. reflexivity. }
    destruct w; simpl; repeat split; auto.
Qed.

(* what the abstract history does on a reported failure: nothing becomes acknowledged *)
Lemma sstep_fail_keeps_ack : forall s o landed,
  sack (sstep s (Flush o) (RFail landed)) = sack s /\
  (landed = false -> sdur (sstep s (Flush o) (RFail landed)) = sdur s) /\
  spend (sstep s (Flush o) (RFail landed)) = spend s.
Proof. intros. simpl. repeat split. intros ->. reflexivity. Qed.

Lemma live_no_revive : forall l h id, In (h, id) (live l) -> covered l h = false.
Proof.
  intros l h id H. apply live_spec in H. destruct H as [_ H].
  destruct (covered l h) eqn:E; auto. apply covered_spec in E. destruct E as [p [Hp Hl]]. specialize (H _ Hp). lia.
Qed.

Lemma live_no_loss : forall l h id, In (REntry h id) l -> covered l h = false -> In (h, id) (live l).
Proof.
  intros l h id Hin Hc. apply live_spec. split; auto. intros p Hp.
  destruct (N.lt_ge_cases p h) as [|Hge]; auto. exfalso.
  assert (covered l h = true) by (apply covered_spec; exists p; split; auto; lia). congruence.
Qed.

Lemma live_sorted : forall l, hsorted (live l).
Proof. intros. unfold live. apply hsorted_hsort. Qed.

(* ---------- append order within one height ---------- *)
Definition at_h (h : N) := fun x : N * N => fst x =? h.

Lemma filter_at_h_ins : forall h e l, hsorted l ->
  filter (at_h h) (ins e l) = if fst e =? h then filter (at_h h) l ++ [e] else filter (at_h h) l.
Proof.
  induction l as [|x r IH]; intros Hs.
  - simpl. unfold at_h at 1. destruct (fst e =? h); reflexivity.
  - destruct Hs as [H1 H2]. simpl ins. destruct (fst e <? fst x) eqn:E.
    + change (filter (at_h h) (e :: x :: r)) with
        (if at_h h e then e :: filter (at_h h) (x :: r) else filter (at_h h) (x :: r)).
      unfold at_h at 1. destruct (fst e =? h) eqn:Eh; [|reflexivity].
      assert (Z : filter (at_h h) (x :: r) = []).
      { assert (G : forall y, In y (x :: r) -> at_h h y = false).
        { intros y [Hy|Hy]; unfold at_h; [subst; lia|]. specialize (H1 _ Hy). lia. }
        clear -G. induction (x :: r) as [|y l IHl]; simpl; auto.
        rewrite G by (simpl; auto). apply IHl. intros; apply G; simpl; auto. }
      rewrite Z. reflexivity.
    + simpl. rewrite (IH H2). destruct (at_h h x); destruct (fst e =? h); reflexivity.
Qed.

Lemma filter_at_h_hsort : forall h l acc, hsorted acc ->
  filter (at_h h) (fold_left (fun acc e => ins e acc) l acc) = filter (at_h h) acc ++ filter (at_h h) l.
Proof.
  induction l as [|e l IH]; simpl; intros acc Hs; [rewrite app_nil_r; reflexivity|].
  rewrite IH by (apply hsorted_ins; auto). rewrite filter_at_h_ins by auto.
  change (at_h h e) with (fst e =? h). destruct (fst e =? h); [rewrite <- app_assoc|]; reflexivity.
Qed.

(* the entries of one height come back in the order they were appended *)
Lemma live_stable : forall l h,
  filter (at_h h) (live l) =
  filter (at_h h) (filter (fun e => is_live (prune_bound l) (fst e)) (entries l)).
Proof. intros. unfold live, hsort. rewrite filter_at_h_hsort by exact I. reflexivity. Qed.
