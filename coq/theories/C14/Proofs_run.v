(* C14 — part C: the invariant over whole histories ([run]), every crash point being an operation. *)
From Coq Require Import List NArith Bool Lia ZifyN ZifyBool.
From V Require Import C14.Model C14.Proofs C14.Proofs_inv.
Import ListNotations.
Open Scope N_scope.
Arguments flat : simpl never.

(* ---------- files and their records ---------- *)
Lemma dedup_snoc : forall bs last s l,
  last < s -> (forall b, In b bs -> fst b < s) -> dedup last (bs ++ [(s, l)]) = dedup last bs ++ [(s, l)].
Proof.
  induction bs as [|b r IH]; simpl; intros last s l Hl Hb.
  - assert ((s <=? last) = false) as -> by lia. reflexivity.
  - destruct (fst b <=? last) eqn:E.
    + apply IH; auto.
    + simpl. f_equal. apply IH; auto.
Qed.

Lemma file_recs_add_batch : forall f s l,
  0 < s -> (forall b, In b (fbat f) -> fst b < s) ->
  file_recs (add_batch (s, l) f) = file_recs f ++ map (fun r => (fnum f, r)) l.
Proof.
  intros f s l Hs Hb. unfold file_recs, add_batch. simpl.
  rewrite dedup_snoc by auto. rewrite map_app, concat_app, map_app. simpl. rewrite app_nil_r. reflexivity.
Qed.

Lemma file_recs_set_torn : forall f, file_recs (set_torn f) = file_recs f.
Proof. reflexivity. Qed.

Lemma tagged_app : forall a b, tagged (a ++ b) = tagged a ++ tagged b.
Proof. intros. unfold tagged. apply flat_map_app. Qed.

Lemma tagged_single : forall f, tagged [f] = file_recs f.
Proof. intros. unfold tagged. simpl. apply app_nil_r. Qed.

Lemma upd_file_last : forall fs f c g,
  (forall x, In x fs -> fnum x < c) -> fnum f = c -> upd_file (fs ++ [f]) c g = fs ++ [g f].
Proof.
  induction fs as [|x r IH]; simpl; intros f c g H Hf.
  - rewrite Hf, N.eqb_refl. reflexivity.
  - assert (fnum x < c) by (apply H; auto). assert ((fnum x =? c) = false) as -> by lia.
    f_equal. apply IH; auto.
Qed.

Lemma nonlast_clean_snoc : forall fs f, (forall x, In x fs -> ftorn x = false) -> nonlast_clean (fs ++ [f]) = true.
Proof.
  induction fs as [|x r IH]; simpl; intros f H; auto.
  destruct (r ++ [f]) eqn:E; [destruct r; discriminate|]. rewrite <- E.
  rewrite (H x) by auto. simpl. apply IH. intros; apply H; auto.
Qed.

Lemma nonlast_clean_filter : forall (k : file -> bool) fs,
  (forall x, In x fs -> ftorn x = false) -> nonlast_clean (filter k fs) = true.
Proof. intros. apply nonlast_clean_all. intros f Hf. apply filter_In in Hf. apply H. tauto. Qed.

(* ---------- DInv only looks at the records, the watermark value and the torn flags ---------- *)
Lemma DInv_ext : forall d d' dur,
  DInv d dur -> disk_recs d' = disk_recs d -> wm_val d' = wm_val d -> nonlast_clean (dfiles d') = true ->
  DInv d' dur.
Proof. intros d d' dur [J1 J2 J3] Hr Hw Hc. constructor; rewrite ?Hr, ?Hw; auto. Qed.

Lemma DInv_set_wm : forall d dur t,
  DInv d dur -> DInv (mkDisk (dfiles d) (Some (maxprune dur)) t) dur.
Proof.
  intros d dur t [J1 J2 J3]. constructor; auto.
  unfold disk_recs in *. simpl. unfold wm_val. simpl. lia.
Qed.

Lemma DInv_commit : forall d d' dur b sp,
  DInv d dur -> pend_rel (maxprune dur) b sp ->
  disk_recs d' = disk_recs d ++ b -> wm_val d' = wm_val d -> nonlast_clean (dfiles d') = true ->
  DInv d' (dur ++ sp).
Proof.
  intros d d' dur b sp [J1 J2 J3] Hp Hr Hw Hc.
  destruct (commit_records _ _ _ _ _ J1 J2 Hp) as [C1 C2].
  constructor; rewrite ?Hr, ?Hw; auto.
Qed.

(* ---------- pending records ---------- *)
Lemma merge_prune_spec : forall l h l',
  merge_prune l h = Some l' ->
  entries l' = entries l /\ maxprune l' = N.max (maxprune l) h /\ l' <> [].
Proof.
  induction l as [|r l IH]; simpl; intros h l' H; [discriminate|].
  destruct r as [h0 id|p].
  - destruct (merge_prune l h) as [r'|] eqn:E; [|discriminate]. inversion H; subst.
    destruct (IH _ _ E) as [I1 [I2 _]]. split; [|split; [|discriminate]].
    + simpl. rewrite I1. reflexivity.
    + change (REntry h0 id :: r') with ([REntry h0 id] ++ r').
      change (REntry h0 id :: l) with ([REntry h0 id] ++ l). rewrite !maxprune_app, I2. lia.
  - inversion H; subst. split; [reflexivity|]. split; [|discriminate].
    change (RPrune (N.max p h) :: l) with ([RPrune (N.max p h)] ++ l).
    change (RPrune p :: l) with ([RPrune p] ++ l). rewrite !maxprune_app.
    unfold maxprune at 1 3. simpl. lia.
Qed.

Lemma maxprune_snoc_entry : forall l h id, maxprune (l ++ [REntry h id]) = maxprune l.
Proof. intros. rewrite maxprune_app. unfold maxprune at 2. simpl. lia. Qed.
Lemma maxprune_snoc_prune : forall l h, maxprune (l ++ [RPrune h]) = N.max (maxprune l) h.
Proof. intros. rewrite maxprune_app. unfold maxprune at 2. simpl. lia. Qed.
Lemma entries_snoc_entry : forall l h id, entries (l ++ [REntry h id]) = entries l ++ [(h, id)].
Proof. intros. rewrite entries_app. reflexivity. Qed.
Lemma entries_snoc_prune : forall l h, entries (l ++ [RPrune h]) = entries l.
Proof. intros. rewrite entries_app. simpl. apply app_nil_r. Qed.

Lemma pend_rel_nil : forall P, pend_rel P [] [].
Proof. intros. split; reflexivity. Qed.

(* ---------- the invariant ---------- *)
Definition alive (m : mem) : Prop := mclosed m = false /\ mdead m = false /\ mrepair m = false.

(* memory half: what a store that can still write knows about the disk and the history *)
Record AInv (d : disk) (m : mem) (s : spec) : Prop := {
  a_dur : sdur s = sack s;
  a_pruned : mpruned m = maxprune (sack s);
  a_pend : pend_rel (maxprune (sack s)) (mpend m) (spend s);
  a_idx : forall fn h id, In (fn, REntry h id) (tagged (dfiles d)) -> mpruned m < h -> has (midx m) h fn;
  a_files : forall f, In f (dfiles d) -> fnum f < mnext m /\ ftorn f = false;
  a_cur : match mcur m with
          | Some c => exists fs f, dfiles d = fs ++ [f] /\ fnum f = c /\
                        (forall g, In g fs -> fnum g < c) /\ (forall b, In b (fbat f) -> fst b < mseq m)
          | None => True
          end;
  a_seq : 0 < mseq m }.

Record Inv (d : disk) (m : mem) (s : spec) : Prop := {
  i_d : DInv d (sdur s);
  i_dur : sdur s = sack s \/ sdur s = sack s ++ sinfl s;
  i_alive : alive m -> AInv d m s;
  i_zombie : mclosed m = false -> mdead m = false -> mrepair m = true -> mpend m <> [] /\ mcur m = None }.

Lemma alive_or : forall m,
  alive m \/ (mclosed m = true \/ mdead m = true) \/ (mclosed m = false /\ mdead m = false /\ mrepair m = true).
Proof.
  intros m. unfold alive. destruct (mclosed m), (mdead m), (mrepair m); auto.
Qed.

(* a store that is closed or dead constrains nothing but the disk *)
Lemma inv_off : forall d m s,
  DInv d (sdur s) -> (sdur s = sack s \/ sdur s = sack s ++ sinfl s) ->
  (mclosed m = true \/ mdead m = true) -> Inv d m s.
Proof.
  intros d m s Hd Hdur Hoff. constructor; auto.
  - intros [H1 [H2 _]]. destruct Hoff; congruence.
  - intros H1 H2. destruct Hoff; congruence.
Qed.

(* ---------- Append / Prune ---------- *)
Lemma ainv_with_pend : forall d m s l sp,
  AInv d m s -> pend_rel (maxprune (sack s)) l sp ->
  AInv d (with_pend m l) (mkSpec (sack s) (sdur s) (sinfl s) sp).
Proof. intros d m s l sp [A1 A2 A3 A4 A5 A6 A7] Hp. constructor; simpl; auto. Qed.

Lemma with_pend_same : forall m, with_pend m (mpend m) = m.
Proof. destruct m; reflexivity. Qed.

Lemma step_append : forall d m s h id,
  Inv d m s -> let '(d', m', r) := mstep d m (Append h id) in Inv d' m' (sstep s (Append h id) r).
Proof.
  intros d m s h id HI. simpl.
  destruct (mclosed m || mdead m) eqn:Eoff; [simpl; exact HI|].
  apply orb_false_iff in Eoff. destruct Eoff as [Hc Hd].
  destruct HI as [I1 I2 I3 I4].
  destruct (h <=? mpruned m) eqn:Eh; simpl.
  - constructor; simpl; auto.
    intros Ha. specialize (I3 Ha). rewrite <- (with_pend_same m). apply ainv_with_pend; auto.
    destruct I3 as [A1 A2 [K1 K2] A4 A5 A6 A7]. split.
    + rewrite entries_snoc_entry, filter_app, <- K1. simpl. unfold above_f. simpl.
      assert ((maxprune (sack s) <? h) = false) as -> by lia. rewrite app_nil_r. reflexivity.
    + rewrite maxprune_snoc_entry. exact K2.
  - constructor; simpl; auto.
    + intros [_ [_ Hr]]. assert (Ha : alive m) by (unfold alive; auto). specialize (I3 Ha).
      apply ainv_with_pend; auto.
      destruct I3 as [A1 A2 [K1 K2] A4 A5 A6 A7]. split.
      * rewrite !entries_snoc_entry, filter_app, <- K1. simpl. unfold above_f. simpl.
        assert ((maxprune (sack s) <? h) = true) as -> by lia. reflexivity.
      * rewrite !maxprune_snoc_entry. exact K2.
    + intros _ _ Hr. destruct (I4 Hc Hd Hr) as [Z1 Z2]. split; auto. destruct (mpend m); discriminate.
Qed.

Lemma step_prune : forall d m s h,
  Inv d m s -> let '(d', m', r) := mstep d m (Prune h) in Inv d' m' (sstep s (Prune h) r).
Proof.
  intros d m s h HI. simpl.
  destruct (mclosed m || mdead m) eqn:Eoff; [simpl; exact HI|].
  apply orb_false_iff in Eoff. destruct Eoff as [Hc Hd].
  destruct HI as [I1 I2 I3 I4].
  destruct (h <=? mpruned m) eqn:Eh; simpl.
  - constructor; simpl; auto.
    intros Ha. specialize (I3 Ha). rewrite <- (with_pend_same m). apply ainv_with_pend; auto.
    destruct I3 as [A1 A2 [K1 K2] A4 A5 A6 A7]. split.
    + rewrite entries_snoc_prune. exact K1.
    + rewrite maxprune_snoc_prune. lia.
  - destruct (merge_prune (mpend m) h) as [l|] eqn:Em; simpl.
    + destruct (merge_prune_spec _ _ _ Em) as [M1 [M2 M3]].
      constructor; simpl; auto.
      * intros [_ [_ Hr]]. assert (Ha : alive m) by (unfold alive; auto). specialize (I3 Ha).
        apply ainv_with_pend; auto.
        destruct I3 as [A1 A2 [K1 K2] A4 A5 A6 A7]. split.
        -- rewrite entries_snoc_prune, M1. exact K1.
        -- rewrite maxprune_snoc_prune, M2. lia.
      * intros _ _ Hr. destruct (I4 Hc Hd Hr) as [Z1 Z2]. auto.
    + constructor; simpl; auto.
      * intros [_ [_ Hr]]. assert (Ha : alive m) by (unfold alive; auto). specialize (I3 Ha).
        apply ainv_with_pend; auto.
        destruct I3 as [A1 A2 [K1 K2] A4 A5 A6 A7]. split.
        -- rewrite !entries_snoc_prune. exact K1.
        -- rewrite !maxprune_snoc_prune. lia.
      * intros _ _ Hr. destruct (I4 Hc Hd Hr) as [Z1 Z2]. split; auto. destruct (mpend m); discriminate.
Qed.

(* ---------- Reopen ---------- *)
Lemma next_num_bound : forall fs f, In f fs -> fnum f < next_num fs.
Proof.
  unfold next_num. intros fs.
  assert (G : forall fs a, a <= fold_left (fun a f => N.max a (fnum f + 1)) fs a).
  { induction fs0 as [|x r IH]; simpl; intros a; [lia|]. specialize (IH (N.max a (fnum x + 1))). lia. }
  assert (H : forall fs a f, In f fs -> fnum f < fold_left (fun a f => N.max a (fnum f + 1)) fs a).
  { induction fs0 as [|x r IH]; simpl; intros a f Hf; [contradiction|]. destruct Hf as [Hf|Hf].
    - subst x. specialize (G r (N.max a (fnum f + 1))). lia.
    - apply IH; auto. }
  intros f Hf. apply H; auto.
Qed.

Lemma untear_clean : forall fs, nonlast_clean fs = true -> forall f, In f (untear_last fs) -> ftorn f = false.
Proof.
  induction fs as [|x r IH]; simpl; intros Hc f Hf; [contradiction|].
  destruct r as [|y r'].
  - destruct Hf as [Hf|[]]. subst f. reflexivity.
  - apply andb_true_iff in Hc. destruct Hc as [Hx Hr].
    change (untear_last (x :: y :: r')) with (x :: untear_last (y :: r')) in Hf.
    destruct Hf as [Hf|Hf]; [subst; destruct (ftorn f); auto; discriminate|]. apply IH; auto.
Qed.

Lemma scan_seq_pos : forall fs, 0 < scan_seq fs.
Proof.
  unfold scan_seq. intros fs.
  assert (G1 : forall (bs : list batch) a, a <= fold_left (fun a b => N.max a (fst b + N.of_nat (length (snd b)))) bs a).
  { induction bs as [|b r IH]; simpl; intros a; [lia|]. specialize (IH (N.max a (fst b + N.of_nat (length (snd b))))). lia. }
  assert (G : forall fs a, a <= fold_left (fun a f => fold_left (fun a b => N.max a (fst b + N.of_nat (length (snd b)))) (dedup 0 (fbat f)) a) fs a).
  { induction fs0 as [|x r IH]; simpl; intros a; [lia|].
    specialize (IH (fold_left (fun a b => N.max a (fst b + N.of_nat (length (snd b)))) (dedup 0 (fbat x)) a)).
    specialize (G1 (dedup 0 (fbat x)) a). lia. }
  specialize (G fs 1). lia.
Qed.

Lemma open_inv : forall d dur d' m',
  DInv d dur -> open d = Some (d', m') ->
  Inv d' m' (mkSpec dur dur [] []).
Proof.
  intros d dur d' m' HD Ho. pose proof HD as [J1 J2 J3]. unfold open in Ho. rewrite J3 in Ho.
  destruct (fold_left apply_rec (tagged (untear_last (dfiles d))) ([], wm_val d)) as [ix q] eqn:E.
  inversion Ho; subst d' m'; clear Ho.
  pose proof E as E'. rewrite tagged_untear in E'.
  assert (S0 : isorted []) by exact I.
  assert (A0 : above (wm_val d) []) by (intros e []).
  destruct (replay_fold _ _ _ _ _ S0 A0 E') as [Q1 _].
  assert (Hq : q = maxprune dur).
  { rewrite Q1, maxp_max. exact J1. }
  assert (HD' : DInv (mkDisk (untear_last (dfiles d)) (dwm d) (dtmp d)) dur).
  { apply (DInv_ext d); auto.
    - unfold disk_recs. simpl. rewrite tagged_untear. reflexivity.
    - simpl. apply nonlast_clean_all. apply untear_clean. auto. }
  constructor; simpl; auto.
  - intros _. constructor; simpl; auto.
    + apply pend_rel_nil.
    + intros fn h id Hin Hlt. apply (replay_has _ _ _ _ _ E h fn Hlt). right. exists id. exact Hin.
    + intros f Hf. split; [apply next_num_bound; auto|apply (untear_clean _ J3); auto].
    + apply scan_seq_pos.
  - intros _ _ Hr. discriminate.
Qed.

Lemma step_reopen : forall d m s,
  Inv d m s -> let '(d', m', r) := mstep d m Reopen in Inv d' m' (sstep s Reopen r).
Proof.
  intros d m s HI. simpl. destruct (open d) as [[d' m']|] eqn:E; simpl.
  - apply (open_inv d); auto. apply HI.
  - apply inv_off; try apply HI. right. reflexivity.
Qed.

(* ---------- Flush: helpers ---------- *)
Lemma replay_bound : forall (trs : list (N * rec)) ix p ix' p',
  fold_left apply_rec trs (ix, p) = (ix', p') -> p' = maxp p (map snd trs).
Proof.
  induction trs as [|[fn r] trs IH]; simpl; intros ix p ix' p' H.
  - inversion H. reflexivity.
  - destruct r as [h id|h]; simpl in H; destruct (h <=? p) eqn:E; apply IH in H; rewrite H; unfold maxp; simpl; auto.
    + assert (N.max p h = p) as -> by lia. reflexivity.
    + assert (N.max p h = h) as -> by lia. reflexivity.
Qed.

Lemma map_snd_pair : forall (c : N) (l : list rec), map snd (map (fun r => (c, r)) l) = l.
Proof. induction l; simpl; congruence. Qed.

Lemma disk_recs_with_files : forall d fs, disk_recs (with_files d fs) = map snd (tagged fs).
Proof. reflexivity. Qed.

Lemma DInv_torn_last : forall d dur fs f c,
  DInv d dur -> dfiles d = fs ++ [f] -> fnum f = c ->
  (forall g, In g fs -> fnum g < c) -> (forall g, In g fs -> ftorn g = false) ->
  DInv (with_files d (upd_file (dfiles d) c set_torn)) dur.
Proof.
  intros d dur fs f c HD Hf Hc Hlt Hcl. apply (DInv_ext d); auto.
  - rewrite disk_recs_with_files. unfold disk_recs. rewrite Hf, upd_file_last by auto.
    rewrite !tagged_app, !tagged_single, file_recs_set_torn. reflexivity.
  - simpl. rewrite Hf, upd_file_last by auto. apply nonlast_clean_snoc. auto.
Qed.

Section Commit.
  Variables (s : spec) (m : mem) (cur nxt : N).
  Hypothesis Hdur : sdur s = sack s.
  Hypothesis Hpruned : mpruned m = maxprune (sack s).
  Hypothesis Hpend : pend_rel (maxprune (sack s)) (mpend m) (spend s).
  Hypothesis Hseq : 0 < mseq m.
  Hypothesis Hne : mpend m <> [].

  Let sN := mkSpec (sack s ++ spend s) (sack s ++ spend s) [] [].
  Let sC := mkSpec (sack s) (sack s ++ spend s) (spend s) (spend s).

  Lemma inv_crash : forall d' mm, DInv d' (sack s ++ spend s) -> Inv d' (dead mm) sC.
  Proof. intros. apply inv_off; simpl; auto. Qed.

  Lemma fin_inv : forall o dd mm,
    DInv dd (sack s ++ spend s) -> AInv dd mm sN -> mrepair mm = false ->
    let '(d', m', r) := fin o dd mm in Inv d' m' (sstep s (Flush o) r).
  Proof.
    intros o dd mm HD HA Hr. destruct o; simpl; try (apply inv_crash; auto).
    constructor; simpl; auto. intros _ _ Hx. congruence.
  Qed.

  Lemma commit_core_inv : forall landed fs f' T1 o,
    DInv landed (sack s ++ spend s) ->
    dfiles landed = fs ++ [f'] -> fnum f' = cur -> (forall g, In g fs -> fnum g < cur) ->
    (forall b, In b (fbat f') -> fst b < mseq m + N.of_nat (length (mpend m))) ->
    (forall g, In g (dfiles landed) -> fnum g < nxt /\ ftorn g = false) ->
    tagged (dfiles landed) = T1 ++ map (fun r => (cur, r)) (mpend m) ->
    (forall fn h id, In (fn, REntry h id) T1 -> mpruned m < h -> has (midx m) h fn) ->
    let '(d', m', r) := commit_core landed cur nxt m o in Inv d' m' (sstep s (Flush o) r).
  Proof.
    intros landed fs f' T1 o HL Hfiles Hcur Hlt Hb Hall Htag Hidx1.
    unfold commit_core.
    destruct (fold_left apply_rec (map (fun r => (cur, r)) (mpend m)) (midx m, mpruned m)) as [ix p] eqn:E.
    assert (Hp : p = maxprune (sack s ++ spend s)).
    { rewrite (replay_bound _ _ _ _ _ E), map_snd_pair, maxp_max, maxprune_app, Hpruned. apply Hpend. }
    assert (Hge : mpruned m <= p).
    { rewrite (replay_bound _ _ _ _ _ E). apply maxp_ge. }
    assert (Hhas : forall fn h id, In (fn, REntry h id) (tagged (dfiles landed)) -> p < h -> has ix h fn).
    { intros fn h id Hin Hh. rewrite Htag in Hin. apply in_app_or in Hin.
      apply (replay_has _ _ _ _ _ E h fn Hh). destruct Hin as [Hin|Hin].
      - left. apply (Hidx1 fn h id); auto. lia.
      - right. exists id. exact Hin. }
    assert (Hclean : forall g, In g (dfiles landed) -> ftorn g = false) by (intros g Hg; apply Hall; auto).
    assert (Hlen : 0 < N.of_nat (length (mpend m))) by (destruct (mpend m); [congruence|simpl; lia]).
    set (sq := mseq m + N.of_nat (length (mpend m))).
    set (since := msince m + count_prunes (mpend m)).
    assert (HA1 : forall sn, AInv landed (mkMem false false false (Some cur) nxt sq p sn [] ix) sN).
    { intros sn. constructor; simpl; auto.
      - apply pend_rel_nil.
      - exists fs, f'. auto.
      - unfold sq. lia. }
    destruct ((count_prunes (mpend m) =? 0) || (since <? cleanup_interval)) eqn:Ecl.
    { apply fin_inv; auto. }
    (* cleanup *)
    assert (HD3 : forall t, DInv (mkDisk (dfiles landed) (Some p) t) (sack s ++ spend s)).
    { intros t. rewrite Hp. apply DInv_set_wm. auto. }
    assert (Hdel : forall (keep : file -> bool) t,
              (forall g, keep g = false -> (fnum g <? min_live nxt ix) = true) ->
              DInv (mkDisk (filter keep (dfiles landed)) (Some p) t) (sack s ++ spend s)).
    { intros keep t Hk. rewrite Hp. apply delete_safe.
      - rewrite <- Hp. apply HD3.
      - intros g Hg Hkg h id Hin. rewrite <- Hp.
        apply (prefix_delete_safe (dfiles landed) ix nxt p g h id); auto.
      - apply nonlast_clean_filter. auto. }
    assert (HA2 : forall (keep : file -> bool) t,
              AInv (mkDisk (filter keep (dfiles landed)) (Some p) t) (mkMem false false false None nxt sq p 0 [] ix) sN).
    { intros keep t. constructor; simpl; auto.
      - apply pend_rel_nil.
      - intros fn h id Hin Hh. apply (Hhas fn h id); auto.
        unfold tagged in *. apply in_flat_map in Hin. destruct Hin as [g [Hg Hx]].
        apply filter_In in Hg. apply in_flat_map. exists g. tauto.
      - intros g Hg. apply filter_In in Hg. apply Hall. tauto.
      - unfold sq. lia. }
    assert (Htorn : DInv (with_files (mkDisk (dfiles landed) (Some p) false)
                            (upd_file (dfiles (mkDisk (dfiles landed) (Some p) false)) cur set_torn))
                         (sack s ++ spend s)).
    { apply (DInv_torn_last _ _ fs f'); simpl; auto. intros g Hg. apply Hclean. rewrite Hfiles. apply in_or_app. auto. }
    assert (Hk1 : forall g, negb (fnum g <? min_live nxt ix) = false -> (fnum g <? min_live nxt ix) = true).
    { intros g Hg. destruct (fnum g <? min_live nxt ix); auto. }
    destruct o as [|w rp|c].
    - (* FOk *) simpl. constructor; simpl; auto.
      + apply (Hdel (fun f0 => negb (fnum f0 <? min_live nxt ix)) false). auto.
      + intros _. apply (HA2 (fun f0 => negb (fnum f0 <? min_live nxt ix)) false).
      + intros _ _ Hx. discriminate.
    - simpl. apply inv_crash. apply Hdel. auto.
    - destruct c; simpl; try (apply inv_crash; auto).
      + apply Hdel. auto.
      + apply Hdel. auto.
      + apply (DInv_ext landed); auto.
      + apply Hdel. intros g Hg. apply negb_false_iff in Hg. apply andb_true_iff in Hg. tauto.
  Qed.
End Commit.
