(* C14 — part C: the invariant over whole histories ([run]), every crash point being an operation. *)
From Coq Require Import List NArith Bool Lia ZifyN ZifyBool.
From V Require Import C14.Model C14.Proofs C14.Proofs_inv.
Import ListNotations.
Open Scope N_scope.
Arguments flat : simpl never.

(* ---------- files and their records ---------- *)
Lemma dedup_snoc : forall bs last s l,
  last < s -> (forall b, In b bs -> fst b < s) -> dedup last (bs ++ [(s, l)]) = dedup last bs ++ [(s, l)].
Proof.
  induction bs as [|b r IH]; simpl; intros last s l Hl Hb.
  - assert ((s <=? last) = false) as -> by lia. reflexivity.
  - destruct (fst b <=? last) eqn:E.
    + apply IH; auto.
    + simpl. f_equal. apply IH; auto.
Qed.

Lemma file_recs_add_batch : forall f s l,
  0 < s -> (forall b, In b (fbat f) -> fst b < s) ->
  file_recs (add_batch (s, l) f) = file_recs f ++ map (fun r => (fnum f, r)) l.
Proof.
  intros f s l Hs Hb. unfold file_recs, add_batch. simpl.
  rewrite dedup_snoc by auto. rewrite map_app, concat_app, map_app. simpl. rewrite app_nil_r. reflexivity.
Qed.

Lemma file_recs_set_torn : forall f, file_recs (set_torn f) = file_recs f.
Proof. reflexivity. Qed.

Lemma tagged_app : forall a b, tagged (a ++ b) = tagged a ++ tagged b.
Proof. intros. unfold tagged. apply flat_map_app. Qed.

Lemma tagged_single : forall f, tagged [f] = file_recs f.
Proof. intros. unfold tagged. simpl. apply app_nil_r. Qed.

Lemma upd_file_last : forall fs f c g,
  (forall x, In x fs -> fnum x < c) -> fnum f = c -> upd_file (fs ++ [f]) c g = fs ++ [g f].
Proof.
  induction fs as [|x r IH]; simpl; intros f c g H Hf.
  - rewrite Hf, N.eqb_refl. reflexivity.
  - assert (fnum x < c) by (apply H; auto). assert ((fnum x =? c) = false) as -> by lia.
    f_equal. apply IH; auto.
Qed.

Lemma nonlast_clean_snoc : forall fs f, (forall x, In x fs -> ftorn x = false) -> nonlast_clean (fs ++ [f]) = true.
Proof.
  induction fs as [|x r IH]; simpl; intros f H; auto.
  destruct (r ++ [f]) eqn:E; [destruct r; discriminate|]. rewrite <- E.
  rewrite (H x) by auto. simpl. apply IH. intros; apply H; auto.
Qed.

Lemma nonlast_clean_filter : forall (k : file -> bool) fs,
  (forall x, In x fs -> ftorn x = false) -> nonlast_clean (filter k fs) = true.
Proof. intros. apply nonlast_clean_all. intros f Hf. apply filter_In in Hf. apply H. tauto. Qed.

(* ---------- DInv only looks at the records, the watermark value and the torn flags ---------- *)
Lemma DInv_ext : forall d d' dur,
  DInv d dur -> disk_recs d' = disk_recs d -> wm_val d' = wm_val d -> nonlast_clean (dfiles d') = true ->
  DInv d' dur.
Proof. intros d d' dur [J1 J2 J3] Hr Hw Hc. constructor; rewrite ?Hr, ?Hw; auto. Qed.

Lemma DInv_set_wm : forall d dur t,
  DInv d dur -> DInv (mkDisk (dfiles d) (Some (maxprune dur)) t) dur.
Proof.
  intros d dur t [J1 J2 J3]. constructor; auto.
  unfold disk_recs in *. simpl. unfold wm_val. simpl. lia.
Qed.

Lemma DInv_commit : forall d d' dur b sp,
  DInv d dur -> pend_rel (maxprune dur) b sp ->
  disk_recs d' = disk_recs d ++ b -> wm_val d' = wm_val d -> nonlast_clean (dfiles d') = true ->
  DInv d' (dur ++ sp).
Proof.
  intros d d' dur b sp [J1 J2 J3] Hp Hr Hw Hc.
  destruct (commit_records _ _ _ _ _ J1 J2 Hp) as [C1 C2].
  constructor; rewrite ?Hr, ?Hw; auto.
Qed.

(* ---------- pending records ---------- *)
Lemma merge_prune_spec : forall l h l',
  merge_prune l h = Some l' ->
  entries l' = entries l /\ maxprune l' = N.max (maxprune l) h /\ l' <> [].
Proof.
  induction l as [|r l IH]; simpl; intros h l' H; [discriminate|].
  destruct r as [h0 id|p].
  - destruct (merge_prune l h) as [r'|] eqn:E; [|discriminate]. inversion H; subst.
    destruct (IH _ _ E) as [I1 [I2 _]]. split; [|split; [|discriminate]].
    + simpl. rewrite I1. reflexivity.
    + change (REntry h0 id :: r') with ([REntry h0 id] ++ r').
      change (REntry h0 id :: l) with ([REntry h0 id] ++ l). rewrite !maxprune_app, I2. lia.
  - inversion H; subst. split; [reflexivity|]. split; [|discriminate].
    change (RPrune (N.max p h) :: l) with ([RPrune (N.max p h)] ++ l).
    change (RPrune p :: l) with ([RPrune p] ++ l). rewrite !maxprune_app.
    unfold maxprune at 1 3. simpl. lia.
Qed.

Lemma maxprune_snoc_entry : forall l h id, maxprune (l ++ [REntry h id]) = maxprune l.
Proof. intros. rewrite maxprune_app. unfold maxprune at 2. simpl. lia. Qed.
Lemma maxprune_snoc_prune : forall l h, maxprune (l ++ [RPrune h]) = N.max (maxprune l) h.
Proof. intros. rewrite maxprune_app. unfold maxprune at 2. simpl. lia. Qed.
Lemma entries_snoc_entry : forall l h id, entries (l ++ [REntry h id]) = entries l ++ [(h, id)].
Proof. intros. rewrite entries_app. reflexivity. Qed.
Lemma entries_snoc_prune : forall l h, entries (l ++ [RPrune h]) = entries l.
Proof. intros. rewrite entries_app. simpl. apply app_nil_r. Qed.

Lemma pend_rel_nil : forall P, pend_rel P [] [].
Proof. intros. split; reflexivity. Qed.

(* ---------- the invariant ---------- *)
Definition alive (m : mem) : Prop := mclosed m = false /\ mdead m = false /\ mrepair m = false.

(* memory half: what a store that can still write knows about the disk and the history *)
Record AInv (d : disk) (m : mem) (s : spec) : Prop := {
  a_dur : sdur s = sack s;
  a_pruned : mpruned m = maxprune (sack s);
  a_pend : pend_rel (maxprune (sack s)) (mpend m) (spend s);
  a_idx : forall fn h id, In (fn, REntry h id) (tagged (dfiles d)) -> mpruned m < h -> has (midx m) h fn;
  a_files : forall f, In f (dfiles d) -> fnum f < mnext m /\ ftorn f = false;
  a_cur : match mcur m with
          | Some c => exists fs f, dfiles d = fs ++ [f] /\ fnum f = c /\
                        (forall g, In g fs -> fnum g < c) /\ (forall b, In b (fbat f) -> fst b < mseq m)
          | None => True
          end;
  a_seq : 0 < mseq m }.

Record Inv (d : disk) (m : mem) (s : spec) : Prop := {
  i_d : DInv d (sdur s);
  i_dur : sdur s = sack s \/ sdur s = sack s ++ sinfl s;
  i_alive : alive m -> AInv d m s;
  i_zombie : mclosed m = false -> mdead m = false -> mrepair m = true -> mpend m <> [] /\ mcur m = None }.

Lemma alive_or : forall m,
  alive m \/ (mclosed m = true \/ mdead m = true) \/ (mclosed m = false /\ mdead m = false /\ mrepair m = true).
Proof.
  intros m. unfold alive. destruct (mclosed m), (mdead m), (mrepair m); auto.
Qed.

(* a store that is closed or dead constrains nothing but the disk *)
Lemma inv_off : forall d m s,
  DInv d (sdur s) -> (sdur s = sack s \/ sdur s = sack s ++ sinfl s) ->
  (mclosed m = true \/ mdead m = true) -> Inv d m s.
Proof.
  intros d m s Hd Hdur Hoff. constructor; auto.
  - intros [H1 [H2 _]]. destruct Hoff; congruence.
  - intros H1 H2. destruct Hoff; congruence.
Qed.

(* ---------- Append / Prune ---------- *)
Lemma ainv_with_pend : forall d m s l sp,
  AInv d m s -> pend_rel (maxprune (sack s)) l sp ->
  AInv d (with_pend m l) (mkSpec (sack s) (sdur s) (sinfl s) sp).
Proof. intros d m s l sp [A1 A2 A3 A4 A5 A6 A7] Hp. constructor; simpl; auto. Qed.

Lemma with_pend_same : forall m, with_pend m (mpend m) = m.
Proof. destruct m; reflexivity. Qed.

Lemma step_append : forall d m s h id,
  Inv d m s -> let '(d', m', r) := mstep d m (Append h id) in Inv d' m' (sstep s (Append h id) r).
Proof.
  intros d m s h id HI. simpl.
  destruct (mclosed m || mdead m) eqn:Eoff; [simpl; exact HI|].
  apply orb_false_iff in Eoff. destruct Eoff as [Hc Hd].
  destruct HI as [I1 I2 I3 I4].
  destruct (h <=? mpruned m) eqn:Eh; simpl.
  - constructor; simpl; auto.
    intros Ha. specialize (I3 Ha). rewrite <- (with_pend_same m). apply ainv_with_pend; auto.
    destruct I3 as [A1 A2 [K1 K2] A4 A5 A6 A7]. split.
    + rewrite entries_snoc_entry, filter_app, <- K1. simpl. unfold above_f. simpl.
      assert ((maxprune (sack s) <? h) = false) as -> by lia. rewrite app_nil_r. reflexivity.
    + rewrite maxprune_snoc_entry. exact K2.
  - constructor; simpl; auto.
    + intros [_ [_ Hr]]. assert (Ha : alive m) by (unfold alive; auto). specialize (I3 Ha).
      apply ainv_with_pend; auto.
      destruct I3 as [A1 A2 [K1 K2] A4 A5 A6 A7]. split.
      * rewrite !entries_snoc_entry, filter_app, <- K1. simpl. unfold above_f. simpl.
        assert ((maxprune (sack s) <? h) = true) as -> by lia. reflexivity.
      * rewrite !maxprune_snoc_entry. exact K2.
    + intros _ _ Hr. destruct (I4 Hc Hd Hr) as [Z1 Z2]. split; auto. destruct (mpend m); discriminate.
Qed.

Lemma step_prune : forall d m s h,
  Inv d m s -> let '(d', m', r) := mstep d m (Prune h) in Inv d' m' (sstep s (Prune h) r).
Proof.
  intros d m s h HI. simpl.
  destruct (mclosed m || mdead m) eqn:Eoff; [simpl; exact HI|].
  apply orb_false_iff in Eoff. destruct Eoff as [Hc Hd].
  destruct HI as [I1 I2 I3 I4].
  destruct (h <=? mpruned m) eqn:Eh; simpl.
  - constructor; simpl; auto.
    intros Ha. specialize (I3 Ha). rewrite <- (with_pend_same m). apply ainv_with_pend; auto.
    destruct I3 as [A1 A2 [K1 K2] A4 A5 A6 A7]. split.
    + rewrite entries_snoc_prune. exact K1.
    + rewrite maxprune_snoc_prune. lia.
  - destruct (merge_prune (mpend m) h) as [l|] eqn:Em; simpl.
    + destruct (merge_prune_spec _ _ _ Em) as [M1 [M2 M3]].
      constructor; simpl; auto.
      * intros [_ [_ Hr]]. assert (Ha : alive m) by (unfold alive; auto). specialize (I3 Ha).
        apply ainv_with_pend; auto.
        destruct I3 as [A1 A2 [K1 K2] A4 A5 A6 A7]. split.
        -- rewrite entries_snoc_prune, M1. exact K1.
        -- rewrite maxprune_snoc_prune, M2. lia.
      * intros _ _ Hr. destruct (I4 Hc Hd Hr) as [Z1 Z2]. auto.
    + constructor; simpl; auto.
      * intros [_ [_ Hr]]. assert (Ha : alive m) by (unfold alive; auto). specialize (I3 Ha).
        apply ainv_with_pend; auto.
        destruct I3 as [A1 A2 [K1 K2] A4 A5 A6 A7]. split.
        -- rewrite !entries_snoc_prune. exact K1.
        -- rewrite !maxprune_snoc_prune. lia.
      * intros _ _ Hr. destruct (I4 Hc Hd Hr) as [Z1 Z2]. split; auto. destruct (mpend m); discriminate.
Qed.

(* ---------- Reopen ---------- *)
Lemma next_num_bound : forall fs f, In f fs -> fnum f < next_num fs.
Proof.
  unfold next_num. intros fs.
  assert (G : forall fs a, a <= fold_left (fun a f => N.max a (fnum f + 1)) fs a).
  { induction fs0 as [|x r IH]; simpl; intros a; [lia|]. specialize (IH (N.max a (fnum x + 1))). lia. }
  assert (H : forall fs a f, In f fs -> fnum f < fold_left (fun a f => N.max a (fnum f + 1)) fs a).
  { induction fs0 as [|x r IH]; simpl; intros a f Hf; [contradiction|]. destruct Hf as [Hf|Hf].
    - subst x. specialize (G r (N.max a (fnum f + 1))). lia.
    - apply IH; auto. }
  intros f Hf. apply H; auto.
Qed.

Lemma untear_clean : forall fs, nonlast_clean fs = true -> forall f, In f (untear_last fs) -> ftorn f = false.
Proof.
  induction fs as [|x r IH]; simpl; intros Hc f Hf; [contradiction|].
  destruct r as [|y r'].
  - destruct Hf as [Hf|[]]. subst f. reflexivity.
  - apply andb_true_iff in Hc. destruct Hc as [Hx Hr].
    change (untear_last (x :: y :: r')) with (x :: untear_last (y :: r')) in Hf.
    destruct Hf as [Hf|Hf]; [subst; destruct (ftorn f); auto; discriminate|]. apply IH; auto.
Qed.

Lemma scan_seq_pos : forall fs, 0 < scan_seq fs.
Proof.
  unfold scan_seq. intros fs.
  assert (G1 : forall (bs : list batch) a, a <= fold_left (fun a b => N.max a (fst b + N.of_nat (length (snd b)))) bs a).
  { induction bs as [|b r IH]; simpl; intros a; [lia|]. specialize (IH (N.max a (fst b + N.of_nat (length (snd b))))). lia. }
  assert (G : forall fs a, a <= fold_left (fun a f => fold_left (fun a b => N.max a (fst b + N.of_nat (length (snd b)))) (dedup 0 (fbat f)) a) fs a).
  { induction fs0 as [|x r IH]; simpl; intros a; [lia|].
    specialize (IH (fold_left (fun a b => N.max a (fst b + N.of_nat (length (snd b)))) (dedup 0 (fbat x)) a)).
    specialize (G1 (dedup 0 (fbat x)) a). lia. }
  specialize (G fs 1). lia.
Qed.

Lemma open_inv : forall d dur d' m',
  DInv d dur -> open d = Some (d', m') ->
  Inv d' m' (mkSpec dur dur [] []).
Proof.
  intros d dur d' m' HD Ho. pose proof HD as [J1 J2 J3]. unfold open in Ho. rewrite J3 in Ho.
  destruct (fold_left apply_rec (tagged (untear_last (dfiles d))) ([], wm_val d)) as [ix q] eqn:E.
  inversion Ho; subst d' m'; clear Ho.
  pose proof E as E'. rewrite tagged_untear in E'.
  assert (S0 : isorted []) by exact I.
  assert (A0 : above (wm_val d) []) by (intros e []).
  destruct (replay_fold _ _ _ _ _ S0 A0 E') as [Q1 _].
  assert (Hq : q = maxprune dur).
  { rewrite Q1, maxp_max. exact J1. }
  assert (HD' : DInv (mkDisk (untear_last (dfiles d)) (dwm d) (dtmp d)) dur).
  { apply (DInv_ext d); auto.
    - unfold disk_recs. simpl. rewrite tagged_untear. reflexivity.
    - simpl. apply nonlast_clean_all. apply untear_clean. auto. }
  constructor; simpl; auto.
  - intros _. constructor; simpl; auto.
    + apply pend_rel_nil.
    + intros fn h id Hin Hlt. apply (replay_has _ _ _ _ _ E h fn Hlt). right. exists id. exact Hin.
    + intros f Hf. split; [apply next_num_bound; auto|apply (untear_clean _ J3); auto].
    + apply scan_seq_pos.
  - intros _ _ Hr. discriminate.
Qed.

Lemma step_reopen : forall d m s,
  Inv d m s -> let '(d', m', r) := mstep d m Reopen in Inv d' m' (sstep s Reopen r).
Proof.
  intros d m s HI. simpl. destruct (open d) as [[d' m']|] eqn:E; simpl.
  - apply (open_inv d); auto. apply HI.
  - apply inv_off; try apply HI. right. reflexivity.
Qed.

(* ---------- Flush: helpers ---------- *)
Lemma replay_bound : forall (trs : list (N * rec)) ix p ix' p',
  fold_left apply_rec trs (ix, p) = (ix', p') -> p' = maxp p (map snd trs).
Proof.
  induction trs as [|[fn r] trs IH]; simpl; intros ix p ix' p' H.
  - inversion H. reflexivity.
  - destruct r as [h id|h]; simpl in H; destruct (h <=? p) eqn:E; apply IH in H; rewrite H; unfold maxp; simpl; auto.
    + assert (N.max p h = p) as -> by lia. reflexivity.
    + assert (N.max p h = h) as -> by lia. reflexivity.
Qed.

Lemma map_snd_pair : forall (c : N) (l : list rec), map snd (map (fun r => (c, r)) l) = l.
Proof. induction l; simpl; congruence. Qed.

Lemma disk_recs_with_files : forall d fs, disk_recs (with_files d fs) = map snd (tagged fs).
Proof. reflexivity. Qed.

Lemma DInv_torn_last : forall d dur fs f c,
  DInv d dur -> dfiles d = fs ++ [f] -> fnum f = c ->
  (forall g, In g fs -> fnum g < c) -> (forall g, In g fs -> ftorn g = false) ->
  DInv (with_files d (upd_file (dfiles d) c set_torn)) dur.
Proof.
  intros d dur fs f c HD Hf Hc Hlt Hcl. apply (DInv_ext d); auto.
  - rewrite disk_recs_with_files. unfold disk_recs. rewrite Hf, upd_file_last by auto.
    rewrite !tagged_app, !tagged_single, file_recs_set_torn. reflexivity.
  - simpl. rewrite Hf, upd_file_last by auto. apply nonlast_clean_snoc. auto.
Qed.

Section Commit.
  Variables (s : spec) (m : mem) (cur nxt : N).
  Hypothesis Hdur : sdur s = sack s.
  Hypothesis Hpruned : mpruned m = maxprune (sack s).
  Hypothesis Hpend : pend_rel (maxprune (sack s)) (mpend m) (spend s).
  Hypothesis Hseq : 0 < mseq m.
  Hypothesis Hne : mpend m <> [].

  Let sN := mkSpec (sack s ++ spend s) (sack s ++ spend s) [] [].
  Let sC := mkSpec (sack s) (sack s ++ spend s) (spend s) (spend s).

  Lemma inv_crash : forall d' mm, DInv d' (sack s ++ spend s) -> Inv d' (dead mm) sC.
  Proof. intros. apply inv_off; simpl; auto. Qed.

  Lemma fin_inv : forall o dd mm,
    DInv dd (sack s ++ spend s) -> AInv dd mm sN -> mrepair mm = false ->
    let '(d', m', r) := fin o dd mm in Inv d' m' (sstep s (Flush o) r).
  Proof.
    intros o dd mm HD HA Hr. destruct o; simpl; try (apply inv_crash; auto).
    constructor; simpl; auto. intros _ _ Hx. congruence.
  Qed.

  Lemma commit_core_inv : forall landed fs f' T1 o,
    DInv landed (sack s ++ spend s) ->
    dfiles landed = fs ++ [f'] -> fnum f' = cur -> (forall g, In g fs -> fnum g < cur) ->
    (forall b, In b (fbat f') -> fst b < mseq m + N.of_nat (length (mpend m))) ->
    (forall g, In g (dfiles landed) -> fnum g < nxt /\ ftorn g = false) ->
    tagged (dfiles landed) = T1 ++ map (fun r => (cur, r)) (mpend m) ->
    (forall fn h id, In (fn, REntry h id) T1 -> mpruned m < h -> has (midx m) h fn) ->
    let '(d', m', r) := commit_core landed cur nxt m o in Inv d' m' (sstep s (Flush o) r).
  Proof.
    intros landed fs f' T1 o HL Hfiles Hcur Hlt Hb Hall Htag Hidx1.
    unfold commit_core.
    destruct (fold_left apply_rec (map (fun r => (cur, r)) (mpend m)) (midx m, mpruned m)) as [ix p] eqn:E.
    assert (Hp : p = maxprune (sack s ++ spend s)).
    { rewrite (replay_bound _ _ _ _ _ E), map_snd_pair, maxp_max, maxprune_app, Hpruned. apply Hpend. }
    assert (Hge : mpruned m <= p).
    { rewrite (replay_bound _ _ _ _ _ E). apply maxp_ge. }
    assert (Hhas : forall fn h id, In (fn, REntry h id) (tagged (dfiles landed)) -> p < h -> has ix h fn).
    { intros fn h id Hin Hh. rewrite Htag in Hin. apply in_app_or in Hin.
      apply (replay_has _ _ _ _ _ E h fn Hh). destruct Hin as [Hin|Hin].
      - left. apply (Hidx1 fn h id); auto. lia.
      - right. exists id. exact Hin. }
    assert (Hclean : forall g, In g (dfiles landed) -> ftorn g = false) by (intros g Hg; apply Hall; auto).
    assert (Hlen : 0 < N.of_nat (length (mpend m))) by (destruct (mpend m); [congruence|simpl; lia]).
    set (sq := mseq m + N.of_nat (length (mpend m))).
    set (since := msince m + count_prunes (mpend m)).
    assert (HA1 : forall sn, AInv landed (mkMem false false false (Some cur) nxt sq p sn [] ix) sN).
    { intros sn. constructor; simpl; auto.
      - apply pend_rel_nil.
      - exists fs, f'. auto.
      - unfold sq. lia. }
    destruct ((count_prunes (mpend m) =? 0) || (since <? cleanup_interval)) eqn:Ecl.
    { apply fin_inv; auto. }
    (* cleanup *)
    assert (HD3 : forall t, DInv (mkDisk (dfiles landed) (Some p) t) (sack s ++ spend s)).
    { intros t. rewrite Hp. apply DInv_set_wm. auto. }
    assert (Hdel : forall (keep : file -> bool) t,
              (forall g, keep g = false -> (fnum g <? min_live nxt ix) = true) ->
              DInv (mkDisk (filter keep (dfiles landed)) (Some p) t) (sack s ++ spend s)).
    { intros keep t Hk. rewrite Hp. apply delete_safe.
      - rewrite <- Hp. apply HD3.
      - intros g Hg Hkg h id Hin. rewrite <- Hp.
        apply (prefix_delete_safe (dfiles landed) ix nxt p g h id); auto.
      - apply nonlast_clean_filter. auto. }
    assert (HA2 : forall (keep : file -> bool) t,
              AInv (mkDisk (filter keep (dfiles landed)) (Some p) t) (mkMem false false false None nxt sq p 0 [] ix) sN).
    { intros keep t. constructor; simpl; auto.
      - apply pend_rel_nil.
      - intros fn h id Hin Hh. apply (Hhas fn h id); auto.
        unfold tagged in *. apply in_flat_map in Hin. destruct Hin as [g [Hg Hx]].
        apply filter_In in Hg. apply in_flat_map. exists g. tauto.
      - intros g Hg. apply filter_In in Hg. apply Hall. tauto.
      - unfold sq. lia. }
    assert (Htorn : DInv (with_files (mkDisk (dfiles landed) (Some p) false)
                            (upd_file (dfiles (mkDisk (dfiles landed) (Some p) false)) cur set_torn))
                         (sack s ++ spend s)).
    { apply (DInv_torn_last _ _ fs f'); simpl; auto. intros g Hg. apply Hclean. rewrite Hfiles. apply in_or_app. auto. }
    assert (Hk1 : forall g, negb (fnum g <? min_live nxt ix) = false -> (fnum g <? min_live nxt ix) = true).
    { intros g Hg. destruct (fnum g <? min_live nxt ix); auto. }
    destruct o as [|w rp|c].
    - (* FOk *) simpl. constructor; simpl; auto.
      + apply (Hdel (fun f0 => negb (fnum f0 <? min_live nxt ix)) false). auto.
      + intros _. apply (HA2 (fun f0 => negb (fnum f0 <? min_live nxt ix)) false).
      + intros _ _ Hx. discriminate.
    - simpl. apply inv_crash. apply Hdel. auto.
    - destruct c; simpl; try (apply inv_crash; auto).
      + apply Hdel. auto.
      + apply Hdel. auto.
      + apply (DInv_ext landed); auto. simpl. apply nonlast_clean_all. auto.
      + apply Hdel. intros g Hg. apply negb_false_iff in Hg. apply andb_true_iff in Hg. tauto.
  Qed.
End Commit.

Section FlushCore.
  Variables (s : spec) (m : mem) (cur nxt : N) (d1 : disk) (fs : list file) (f : file).
  Hypothesis Hdur : sdur s = sack s.
  Hypothesis Hpruned : mpruned m = maxprune (sack s).
  Hypothesis Hpend : pend_rel (maxprune (sack s)) (mpend m) (spend s).
  Hypothesis Hseq : 0 < mseq m.
  Hypothesis Hne : mpend m <> [].
  Hypothesis HD1 : DInv d1 (sack s).
  Hypothesis Hf1 : dfiles d1 = fs ++ [f].
  Hypothesis Hcur : fnum f = cur.
  Hypothesis Hlt : forall g, In g fs -> fnum g < cur.
  Hypothesis Hb : forall b, In b (fbat f) -> fst b < mseq m.
  Hypothesis Hall1 : forall g, In g (dfiles d1) -> fnum g < nxt /\ ftorn g = false.
  Hypothesis Hidx1 : forall fn h id, In (fn, REntry h id) (tagged (dfiles d1)) -> mpruned m < h -> has (midx m) h fn.

  Let landed := with_files d1 (upd_file (dfiles d1) cur (add_batch (mseq m, mpend m))).
  Let torn := with_files d1 (upd_file (dfiles d1) cur set_torn).

  Lemma landed_files : dfiles landed = fs ++ [add_batch (mseq m, mpend m) f].
  Proof. unfold landed. simpl. rewrite Hf1. apply upd_file_last; auto. Qed.

  Lemma landed_tagged : tagged (dfiles landed) = tagged (dfiles d1) ++ map (fun r => (cur, r)) (mpend m).
  Proof.
    rewrite landed_files, Hf1, !tagged_app, !tagged_single, file_recs_add_batch by auto.
    rewrite Hcur, app_assoc. reflexivity.
  Qed.

  Lemma clean_fs : forall g, In g fs -> ftorn g = false.
  Proof. intros g Hg. apply Hall1. rewrite Hf1. apply in_or_app. auto. Qed.

  Lemma landed_all : forall g, In g (dfiles landed) -> fnum g < nxt /\ ftorn g = false.
  Proof.
    intros g Hg. rewrite landed_files in Hg. apply in_app_or in Hg. destruct Hg as [Hg|[Hg|[]]].
    - apply Hall1. rewrite Hf1. apply in_or_app. auto.
    - subst g. simpl. apply Hall1. rewrite Hf1. apply in_or_app. simpl. auto.
  Qed.

  Lemma landed_dinv : DInv landed (sack s ++ spend s).
  Proof.
    apply (DInv_commit d1 landed (sack s) (mpend m) (spend s)); auto.
    - unfold disk_recs. rewrite landed_tagged, map_app, map_snd_pair. reflexivity.
    - apply nonlast_clean_all. intros g Hg. apply landed_all. auto.
  Qed.

  Lemma torn_dinv : DInv torn (sack s).
  Proof. apply (DInv_torn_last d1 (sack s) fs f cur); auto. apply clean_fs. Qed.

  Lemma flush_core_inv : forall o,
    let '(d', m', r) := flush_core d1 cur nxt m o in Inv d' m' (sstep s (Flush o) r).
  Proof.
    intros o.
    assert (Hcommit : let '(d', m', r) := commit_core landed cur nxt m o in Inv d' m' (sstep s (Flush o) r)).
    { apply (commit_core_inv s m cur nxt Hpruned Hpend Hseq Hne landed fs (add_batch (mseq m, mpend m) f) (tagged (dfiles d1))).
      - apply landed_dinv.
      - apply landed_files.
      - simpl. auto.
      - auto.
      - intros b Hin. simpl in Hin. apply in_app_or in Hin. destruct Hin as [Hin|[Hin|[]]].
        + specialize (Hb _ Hin). lia.
        + subst b. simpl. destruct (mpend m); [congruence|simpl; lia].
      - apply landed_all.
      - apply landed_tagged.
      - auto. }
    assert (Hwg : forall dd, DInv dd (sack s) ->
              (forall g, In g (dfiles dd) -> fnum g < nxt /\ ftorn g = false) ->
              (forall fn h id, In (fn, REntry h id) (tagged (dfiles dd)) -> mpruned m < h -> has (midx m) h fn) ->
              Inv dd (mkMem false false false None nxt (mseq m) (mpruned m) (msince m) (mpend m) (midx m))
                  (mkSpec (sack s) (sdur s) [] (spend s))).
    { intros dd Hdd Hal Hix. constructor; simpl; auto.
      - rewrite Hdur. auto.
      - intros _. constructor; simpl; auto. }
    assert (Hz : forall dd dur infl, DInv dd dur -> (dur = sack s \/ dur = sack s ++ infl) ->
              Inv dd (mkMem false false true None nxt (mseq m) (mpruned m) (msince m) (mpend m) (midx m))
                  (mkSpec (sack s) dur infl (spend s))).
    { intros dd dur infl Hdd Hor. constructor; simpl; auto.
      intros [_ [_ Hx]]. simpl in Hx. discriminate. }
    assert (Hoff : forall dd mm, DInv dd (sack s) ->
              Inv dd (dead mm) (mkSpec (sack s) (sdur s) (spend s) (spend s))).
    { intros dd mm Hdd. apply inv_off; simpl; auto. rewrite Hdur. auto. }
    unfold flush_core. fold landed. fold torn.
    destruct o as [|w rp|c].
    - exact Hcommit.
    - destruct w, rp; simpl.
      + apply Hwg; auto.
      + rewrite Hdur. apply Hz; auto.
      + apply Hwg; auto.
      + rewrite Hdur. apply Hz; auto. apply torn_dinv.
      + apply Hwg; auto.
      + apply Hz; auto. apply landed_dinv.
    - destruct c; try exact Hcommit; simpl.
      + apply Hoff. auto.
      + apply Hoff. apply torn_dinv.
  Qed.
End FlushCore.

(* ---------- Flush ---------- *)
Lemma flush_inv : forall d m s o,
  Inv d m s -> let '(d', m', r) := flush d m o in Inv d' m' (sstep s (Flush o) r).
Proof.
  intros d m s o HI. unfold flush.
  destruct (mclosed m || mdead m) eqn:Eoff; [simpl; exact HI|].
  apply orb_false_iff in Eoff. destruct Eoff as [Hc Hd].
  destruct (mrepair m) eqn:Er.
  { (* repair required: pending is non-empty, the flush is refused *)
    destruct (i_zombie _ _ _ HI Hc Hd Er) as [Z1 Z2].
    destruct (mpend m) eqn:Ep; [congruence|]. simpl. exact HI. }
  assert (Ha : alive m) by (unfold alive; auto).
  pose proof (i_alive _ _ _ HI Ha) as [A1 A2 A3 A4 A5 A6 A7].
  pose proof (i_d _ _ _ HI) as HD. rewrite A1 in HD.
  destruct (mpend m) as [|r0 pend] eqn:Ep.
  - (* nothing pending *)
    destruct A3 as [K1 K2].
    assert (HD' : DInv d (sack s ++ spend s)).
    { apply (DInv_commit d d (sack s) [] (spend s)); auto.
      - split; auto.
      - rewrite app_nil_r. reflexivity.
      - apply HD. }
    assert (Hmp : maxprune (sack s ++ spend s) = maxprune (sack s)).
    { rewrite maxprune_app. unfold maxprune at 2 in K2. simpl in K2. lia. }
    assert (Hok : Inv d m (mkSpec (sack s ++ spend s) (sack s ++ spend s) [] [])).
    { constructor; simpl; auto.
      - intros _. constructor; simpl; auto.
        + rewrite Hmp. auto.
        + rewrite Ep. apply pend_rel_nil.
      - intros _ _ Hx. congruence. }
    assert (Hcr : Inv d (dead m) (mkSpec (sack s) (sdur s) (spend s) (spend s))).
    { apply inv_off; simpl; auto. rewrite A1. auto. }
    destruct o as [|w rp|c]; simpl; auto.
  - (* a batch is written *)
    assert (Hne : mpend m <> []) by (rewrite Ep; discriminate).
    cbv beta iota. unfold flush_body.
    destruct (mcur m) as [c|] eqn:Ec.
    + destruct A6 as [fs [f [F1 [F2 [F3 F4]]]]].
      apply (flush_core_inv s m c (mnext m) d fs f); auto; try (rewrite Ep; exact A3).
    + apply (flush_core_inv s m (mnext m) (mnext m + 1)
               (with_files d (dfiles d ++ [mkFile (mnext m) [] false])) (dfiles d) (mkFile (mnext m) [] false)); auto; try (rewrite Ep; exact A3).
      * apply (DInv_ext d); auto.
        -- unfold disk_recs. simpl. rewrite tagged_app_empty. reflexivity.
        -- simpl. apply nonlast_clean_snoc. intros x Hx. apply A5. auto.
      * intros g Hg. apply A5. auto.
      * simpl. intros b [].
      * simpl. intros g Hg. apply in_app_or in Hg. destruct Hg as [Hg|[Hg|[]]].
        -- destruct (A5 _ Hg). split; auto. lia.
        -- subst g. simpl. split; auto. lia.
      * simpl. intros fn h id Hin. rewrite tagged_app_empty in Hin. apply (A4 fn h id). auto.
Qed.

(* ---------- Close ---------- *)
Lemma commit_core_ok : forall landed cur nxt m d' m' r,
  commit_core landed cur nxt m FOk = (d', m', r) ->
  r = ROk /\ mclosed m' = false /\ mdead m' = false /\ mrepair m' = false.
Proof.
  intros landed cur nxt m d' m' r. unfold commit_core.
  destruct (fold_left apply_rec (map (fun r => (cur, r)) (mpend m)) (midx m, mpruned m)) as [ix p].
  destruct ((count_prunes (mpend m) =? 0) || (msince m + count_prunes (mpend m) <? cleanup_interval));
    simpl; intros H; inversion H; subst; simpl; auto.
Qed.

Lemma flush_ok_cases : forall d m d1 m1 r,
  flush d m FOk = (d1, m1, r) ->
  (r = ROk /\ mclosed m1 = false /\ mdead m1 = false /\ (mrepair m1 = true -> m1 = m)) \/
  (r = RRefused /\ d1 = d /\ m1 = m /\ (mclosed m || mdead m = true \/ mrepair m = true)).
Proof.
  intros d m d1 m1 r. unfold flush.
  destruct (mclosed m || mdead m) eqn:Eoff.
  - intros H. inversion H; subst. right. auto.
  - apply orb_false_iff in Eoff. destruct Eoff as [Hc Hd].
    destruct (mpend m) eqn:Ep.
    + intros H. inversion H; subst. left. auto.
    + destruct (mrepair m) eqn:Er.
      * intros H. inversion H; subst. right. auto.
      * unfold flush_body, flush_core. destruct (mcur m); intros H; apply commit_core_ok in H;
          destruct H as [H1 [H2 [H3 H4]]]; left; repeat split; auto; congruence.
Qed.

Lemma close_inv : forall d m s crash,
  Inv d m s -> let '(d', m', r) := mstep d m (Close crash) in Inv d' m' (sstep s (Close crash) r).
Proof.
  intros d m s crash HI. simpl.
  destruct (mdead m) eqn:Hd; [simpl; exact HI|].
  destruct (mclosed m) eqn:Hc; [simpl; exact HI|].
  pose proof (flush_inv d m s FOk HI) as HF.
  destruct (flush d m FOk) as [[d1 m1] r] eqn:E.
  change (sstep s (Flush FOk) r) with (sstep s (Close crash) r) in HF.
  destruct crash.
  - (* the process dies while the writer is being closed *)
    destruct (flush_ok_cases _ _ _ _ _ E) as [[Hr [C1 [C2 C3]]]|[Hr [Hd1 [Hm1 Hwhy]]]].
    + subst r. simpl in *. apply inv_off; simpl; auto.
      destruct (mcur m1) as [n|] eqn:En; [|apply HF].
      destruct (mrepair m1) eqn:Er.
      { (* repair pending: no writer *)
        destruct (i_zombie _ _ _ HF C1 C2 Er) as [_ Z]. congruence. }
      assert (Ha : alive m1) by (unfold alive; auto).
      pose proof (i_alive _ _ _ HF Ha) as [A1 A2 A3 A4 A5 A6 A7]. rewrite En in A6.
      destruct A6 as [fs [f [F1 [F2 [F3 F4]]]]].
      apply (DInv_torn_last d1 _ fs f n); auto. apply HF.
      intros g Hg. apply A5. rewrite F1. apply in_or_app. auto.
    + subst r d1 m1. simpl in *. rewrite Hd, Hc in Hwhy. simpl in Hwhy.
      destruct Hwhy as [Hx|Hr]; [discriminate|].
      destruct (i_zombie _ _ _ HI Hc Hd Hr) as [_ Z]. rewrite Z.
      apply inv_off; try apply HI. auto.
  - apply inv_off; try apply HF. auto.
Qed.

(* ---------- every step, every history ---------- *)
Lemma step_inv : forall d m s o,
  Inv d m s -> let '(d', m', r) := mstep d m o in Inv d' m' (sstep s o r).
Proof.
  intros d m s o HI. destruct o.
  - apply step_append; auto.
  - apply step_prune; auto.
  - apply (flush_inv d m s o HI).
  - apply close_inv; auto.
  - apply step_reopen; auto.
Qed.

Definition InvS (st : state) : Prop := let '(d, m, s) := st in Inv d m s.

Lemma inv_init : InvS st0.
Proof.
  unfold st0, InvS. constructor; simpl; auto.
  - constructor; reflexivity.
  - intros _. constructor; simpl; auto.
    + apply pend_rel_nil.
    + intros fn h id [].
    + intros f [].
    + lia.
  - intros _ _ Hx. discriminate.
Qed.

Lemma run_inv : forall ops, InvS (run ops).
Proof.
  intros ops. unfold run.
  assert (G : forall ops st, InvS st -> InvS (fold_left (fun st o => fst (step st o)) ops st)).
  { induction ops0 as [|o r IH]; simpl; intros st H; auto. apply IH.
    destruct st as [[d m] s]. unfold step. pose proof (step_inv d m s o H) as HS.
    destruct (mstep d m o) as [[d' m'] x]. simpl. exact HS. }
  apply G. apply inv_init.
Qed.

(* ---------- heights are positive (height 0 is the registered finding height0-dropped) ---------- *)
Definition heights_pos (ops : list op) : Prop := forall h id, In (Append h id) ops -> 1 <= h.
Definition pos (l : list rec) : Prop := forall h id, In (REntry h id) l -> 0 < h.
Definition SPos (s : spec) : Prop := pos (sack s) /\ pos (sdur s) /\ pos (sinfl s) /\ pos (spend s).

Lemma pos_app : forall a b, pos a -> pos b -> pos (a ++ b).
Proof. intros a b Ha Hb h id Hin. apply in_app_or in Hin. destruct Hin; eauto. Qed.
Lemma pos_nil : pos [].
Proof. intros h id []. Qed.

Lemma sstep_pos : forall s o r, SPos s -> (forall h id, o = Append h id -> 1 <= h) -> SPos (sstep s o r).
Proof.
  intros s o r [P1 [P2 [P3 P4]]] Ho. unfold SPos.
  destruct o as [h id|h|fo|c|]; simpl.
  - destruct (accepted r); simpl; auto. repeat split; auto. apply pos_app; auto.
    intros h' id' [Hx|[]]. inversion Hx; subst. specialize (Ho h' id' eq_refl). lia.
  - destruct (accepted r); simpl; auto. repeat split; auto. apply pos_app; auto.
    intros h' id' [Hx|[]]. inversion Hx.
  - destruct r as [| | |l|l]; simpl; auto using pos_app, pos_nil.
    + destruct l; repeat split; auto using pos_app, pos_nil.
    + destruct l; repeat split; auto using pos_app, pos_nil.
  - destruct r as [| | |l|l]; simpl; auto using pos_app, pos_nil.
    + destruct l; repeat split; auto using pos_app, pos_nil.
    + destruct l; repeat split; auto using pos_app, pos_nil.
  - destruct (accepted r); simpl; auto. repeat split; auto using pos_nil.
Qed.

Lemma run_snoc : forall ops o, run (ops ++ [o]) = fst (step (run ops) o).
Proof. intros. unfold run. rewrite fold_left_app. reflexivity. Qed.

Lemma run_pos : forall ops, heights_pos ops -> SPos (snd (run ops)).
Proof.
  intros ops. induction ops as [|o ops IH] using rev_ind; intros H.
  - simpl. repeat split; apply pos_nil.
  - rewrite run_snoc. assert (H1 : heights_pos ops).
    { intros h id Hin. apply (H h id). apply in_or_app. auto. }
    specialize (IH H1). destruct (run ops) as [[d m] s]. unfold step.
    destruct (mstep d m o) as [[d' m'] r]. simpl in *. apply sstep_pos; auto.
    intros h id Ho. apply (H h id). apply in_or_app. right. subst. simpl. auto.
Qed.

(* ---------- the end-to-end statement ---------- *)
Lemma recover_main : forall ops, heights_pos ops ->
  let '(d, m, s) := run ops in
  reopen_obs d = Some (live (sdur s)) /\
  (sdur s = sack s \/ sdur s = sack s ++ sinfl s) /\
  recover_ok (sack s) (sinfl s) (reopen_obs d) = true.
Proof.
  intros ops Hpos. pose proof (run_inv ops) as HI. pose proof (run_pos ops Hpos) as HP.
  destruct (run ops) as [[d m] s]. simpl in *. destruct HI as [I1 I2 _ _].
  destruct HP as [_ [P2 _]].
  destruct (dinv_recover d (sdur s) [] I1 P2) as [R1 _].
  split; [exact R1|]. split; [exact I2|].
  rewrite R1. simpl. destruct I2 as [E|E]; rewrite <- E, eq_ents_refl; simpl; auto. apply orb_true_r.
Qed.

Lemma eq_ents_true : forall a b, eq_ents a b = true -> a = b.
Proof.
  induction a as [|[h i] a IH]; destruct b as [|[h' i'] b]; simpl; intros H; try discriminate; auto.
  apply andb_true_iff in H. destruct H as [H1 H2]. apply andb_true_iff in H1. destruct H1 as [Hh Hi].
  f_equal; [f_equal; lia|auto].
Qed.

(* never a partial batch: the reopened list is one of the two complete results *)
Lemma no_partial_batch : forall ops, heights_pos ops ->
  let '(d, m, s) := run ops in
  exists l, reopen_obs d = Some l /\ (l = live (sack s) \/ l = live (sack s ++ sinfl s)).
Proof.
  intros ops Hpos. pose proof (recover_main ops Hpos) as H.
  destruct (run ops) as [[d m] s]. destruct H as [R1 [R2 _]].
  exists (live (sdur s)). split; auto. destruct R2 as [E|E]; rewrite E; auto.
Qed.

(* ---------- failed flushes, for every history ---------- *)
Lemma heights_pos_snoc : forall ops o, heights_pos ops -> (forall h id, o <> Append h id) -> heights_pos (ops ++ [o]).
Proof.
  intros ops o H Ho h id Hin. apply in_app_or in Hin. destruct Hin as [Hin|[Hin|[]]]; [eauto|].
  exfalso. apply (Ho h id). auto.
Qed.

Lemma fail_repaired_alive : forall d m w d1 m1,
  mstep d m (Flush (FFail w true)) = (d1, m1, RFail false) ->
  alive m1 /\ mpend m1 = mpend m /\ mpend m <> [].
Proof.
  intros d m w d1 m1. simpl. unfold flush.
  destruct (mclosed m || mdead m); [discriminate|].
  destruct (mpend m) eqn:Ep; [discriminate|].
  destruct (mrepair m); [discriminate|].
  unfold flush_body, flush_core. destruct (mcur m); destruct w; intros H; inversion H; subst; simpl;
    unfold alive; simpl; rewrite Ep; repeat split; auto; discriminate.
Qed.

Lemma flush_alive_ok : forall d m d1 m1 r,
  alive m -> flush d m FOk = (d1, m1, r) -> r = ROk.
Proof.
  intros d m d1 m1 r [Hc [Hd Hr]] H.
  destruct (flush_ok_cases _ _ _ _ _ H) as [[H1 _]|[_ [_ [_ Hw]]]]; auto.
  rewrite Hc, Hd, Hr in Hw. simpl in Hw. destruct Hw; discriminate.
Qed.

Lemma flush_fail_clean_run : forall ops w, heights_pos ops ->
  let st := run ops in
  let '(st1, r1) := step st (Flush (FFail w true)) in
  r1 = RFail false ->
  sack (snd st1) = sack (snd st) /\ sdur (snd st1) = sdur (snd st) /\
  reopen_obs (fst (fst st1)) = reopen_obs (fst (fst st)) /\
  reopen_obs (fst (fst st)) = Some (live (sack (snd st))) /\
  let '(st2, r2) := step st1 (Flush FOk) in
  r2 = ROk /\ reopen_obs (fst (fst st2)) = Some (live (sack (snd st) ++ spend (snd st))).
Proof.
  intros ops w Hpos.
  set (o1 := Flush (FFail w true)). set (o2 := Flush FOk).
  assert (Hp1 : heights_pos (ops ++ [o1])) by (apply heights_pos_snoc; auto; intros; discriminate).
  assert (Hp2 : heights_pos ((ops ++ [o1]) ++ [o2])) by (apply heights_pos_snoc; auto; intros; discriminate).
  pose proof (recover_main ops Hpos) as M0.
  pose proof (recover_main _ Hp1) as M1. pose proof (recover_main _ Hp2) as M2.
  pose proof (run_inv ops) as HI0.
  rewrite run_snoc in M2. rewrite run_snoc in M1, M2.
  destruct (run ops) as [[d m] s] eqn:E0. cbv zeta. unfold step at 1 in M1. unfold step at 2 in M2. unfold step at 1.
  destruct (mstep d m o1) as [[d1 m1] r1] eqn:E1. simpl fst in *. simpl snd in *.
  intros Hr1. subst r1.
  destruct (fail_repaired_alive _ _ _ _ _ E1) as [Ha1 [Hp Hne]].
  (* the store was alive before: otherwise the flush would have been refused *)
  assert (Hs1 : sstep s o1 (RFail false) = mkSpec (sack s) (sdur s) [] (spend s)) by reflexivity.
  rewrite Hs1 in *. simpl.
  destruct M0 as [R0 [_ _]]. destruct M1 as [R1 [_ _]]. simpl in R1.
  assert (Hdur : sdur s = sack s).
  { assert (Ha0 : alive m).
    { simpl in E1. unfold flush in E1. unfold alive.
      destruct (mclosed m) eqn:C; simpl in E1; [discriminate|].
      destruct (mdead m) eqn:D; simpl in E1; [discriminate|].
      destruct (mpend m); [discriminate|]. destruct (mrepair m); [discriminate|auto]. }
    apply (a_dur _ _ _ (i_alive _ _ _ HI0 Ha0)). }
  repeat split; auto.
  - rewrite R1, R0. reflexivity.
  - rewrite R0, Hdur. reflexivity.
  - unfold step in *. unfold o2 in *. simpl in M2 |- *.
    destruct (flush d1 m1 FOk) as [[d2 m2] r2] eqn:E2.
    assert (r2 = ROk) by (apply (flush_alive_ok d1 m1 d2 m2 r2); auto). subst r2. simpl in M2 |- *.
    split; auto. apply M2.
Qed.

(* a failed flush whose repair failed too: every later flush is refused (nothing more is written;
   the disk still reopens by recover_main) *)
Lemma flush_fail_blocked : forall d m w d1 m1 l o,
  mstep d m (Flush (FFail w false)) = (d1, m1, RFail l) ->
  exists d2 m2, mstep d1 m1 (Flush o) = (d2, m2, RRefused) /\ d2 = d1 /\ m2 = m1.
Proof.
  intros d m w d1 m1 l o. simpl. unfold flush.
  destruct (mclosed m || mdead m); [discriminate|].
  destruct (mpend m) eqn:Ep; [discriminate|].
  destruct (mrepair m); [discriminate|].
  unfold flush_body, flush_core.
  destruct (mcur m); destruct w; intros H; inversion H; subst; simpl; rewrite Ep; eauto.
Qed.

(* ---------- crash images, explicitly ---------- *)
Inductive crash_op : op -> Prop :=
  | co_flush : forall c, crash_op (Flush (FCrash c))   (* any moment inside Flush, incl. every cleanup sub-step *)
  | co_close : crash_op (Close true)                   (* while the writer is being closed *)
  | co_idle : crash_op Reopen.                         (* killed between two calls: the disk as it is *)

Lemma commit_core_crash : forall landed cur nxt m c d' m' r,
  commit_core landed cur nxt m (FCrash c) = (d', m', r) -> r = RCrash true.
Proof.
  intros landed cur nxt m c d' m' r. unfold commit_core.
  destruct (fold_left apply_rec (map (fun r => (cur, r)) (mpend m)) (midx m, mpruned m)) as [ix p].
  destruct ((count_prunes (mpend m) =? 0) || (msince m + count_prunes (mpend m) <? cleanup_interval));
    destruct c; simpl; intros H; inversion H; reflexivity.
Qed.

Lemma crash_not_acked : forall d m o d' m' r,
  crash_op o -> o <> Reopen -> mstep d m o = (d', m', r) -> r <> ROk.
Proof.
  intros d m o d' m' r Hc Hno. destruct Hc as [c| |]; [| |congruence]; simpl.
  - unfold flush. destruct (mclosed m || mdead m); [intros H; inversion H; discriminate|].
    destruct (mpend m); [intros H; inversion H; discriminate|].
    destruct (mrepair m); [intros H; inversion H; discriminate|].
    unfold flush_body, flush_core.
    destruct (mcur m); destruct c; intros H;
      try (apply commit_core_crash in H; subst; discriminate); inversion H; discriminate.
  - destruct (mdead m); [intros H; inversion H; discriminate|].
    destruct (mclosed m); [intros H; inversion H; discriminate|].
    destruct (flush d m FOk) as [[d1 m1] r1]. intros H. inversion H. destruct r1; discriminate.
Qed.

Lemma recover_crash_images : forall ops o, heights_pos ops -> crash_op o ->
  let s := snd (run ops) in
  let '(d', m', s') := run (ops ++ [o]) in
  exists l, reopen_obs d' = Some l /\
    (l = live (sack s') \/ l = live (sack s' ++ sinfl s')) /\
    (o <> Reopen -> sack s' = sack s).
Proof.
  intros ops o Hpos Hc.
  assert (Hp1 : heights_pos (ops ++ [o])).
  { apply heights_pos_snoc; auto. intros h id E. subst. inversion Hc. }
  pose proof (recover_main _ Hp1) as M. rewrite run_snoc in *.
  destruct (run ops) as [[d m] s0]. unfold step in *.
  destruct (mstep d m o) as [[d' m'] r] eqn:E. simpl in *.
  destruct M as [R1 [R2 _]]. exists (live (sdur (sstep s0 o r))). split; auto. split.
  - destruct R2 as [X|X]; rewrite X; auto.
  - intros Hno. pose proof (crash_not_acked _ _ _ _ _ _ Hc Hno E) as Hr.
    destruct Hc; simpl; destruct r; simpl; congruence.
Qed.
