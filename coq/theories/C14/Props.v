(* C14 — property theorems only (statements closed by [exact] of lemmas from Proofs*.v).

   A crash is an operation of the history: [Flush (FCrash cp)] leaves the disk in the intermediate
   state named by the crash point cp (new empty file / torn record / complete unacknowledged record /
   watermark tmp written / renamed / rotation with torn or complete trailer / any subset of the
   obsolete files gone), [Close true] tears the EOF trailer, [Reopen] of a store that was not closed
   is a kill between two calls. "For every crash image of every history" is therefore
   "for every op list"; C14_recover_crash_images spells the instance out. Heights are >= 1
   (hypothesis heights_pos): height 0 is the registered finding height0-dropped, see
   C14_recover_pos_needed. *)
From Coq Require Import List NArith Bool PeanoNat.
From V Require Import C14.Frame C14.Model C14.Proofs C14.Proofs_inv C14.Proofs_run C14.Proofs_frame.
Import ListNotations.
Open Scope N_scope.

(* The end-to-end statement. After ANY history (appends, prunes, successful / failed / crashing
   flushes, closes, reopens, in any order and number) reopening the disk succeeds and returns exactly
   the live entries of the durable history, which is the acknowledged history or the acknowledged
   history followed by the complete in-flight batch; [recover_ok] is the predicate the harness
   evaluates on the real store. *)
Theorem C14_recover : forall ops, heights_pos ops ->
  let '(d, m, s) := run ops in
  reopen_obs d = Some (live (sdur s)) /\
  (sdur s = sack s \/ sdur s = sack s ++ sinfl s) /\
  recover_ok (sack s) (sinfl s) (reopen_obs d) = true.
Proof. exact recover_main. Qed.
Print Assumptions C14_recover.

Theorem C14_recover_crash_images : forall ops o, heights_pos ops -> crash_op o ->
  let s := snd (run ops) in
  let '(d', m', s') := run (ops ++ [o]) in
  exists l, reopen_obs d' = Some l /\
    (l = live (sack s') \/ l = live (sack s' ++ sinfl s')) /\
    (o <> Reopen -> sack s' = sack s).
Proof. exact recover_crash_images. Qed.
Print Assumptions C14_recover_crash_images.

Theorem C14_no_partial_batch : forall ops, heights_pos ops ->
  let '(d, m, s) := run ops in
  exists l, reopen_obs d = Some l /\ (l = live (sack s) \/ l = live (sack s ++ sinfl s)).
Proof. exact no_partial_batch. Qed.
Print Assumptions C14_no_partial_batch.

(* A flush that reports failure (and whose tail repair succeeded), after any history: nothing of the
   batch is durable or acknowledged, a reopen returns what it returned before, and the next flush
   succeeds and makes the whole pending batch durable. *)
Theorem C14_flush_fail_clean : forall ops w, heights_pos ops ->
  let st := run ops in
  let '(st1, r1) := step st (Flush (FFail w true)) in
  r1 = RFail false ->
  sack (snd st1) = sack (snd st) /\ sdur (snd st1) = sdur (snd st) /\
  reopen_obs (fst (fst st1)) = reopen_obs (fst (fst st)) /\
  reopen_obs (fst (fst st)) = Some (live (sack (snd st))) /\
  let '(st2, r2) := step st1 (Flush FOk) in
  r2 = ROk /\ reopen_obs (fst (fst st2)) = Some (live (sack (snd st) ++ spend (snd st))).
Proof. exact flush_fail_clean_run. Qed.
Print Assumptions C14_flush_fail_clean.

(* ... and when the repair fails as well (repairRequired): every later flush is refused and changes
   nothing; by C14_recover the disk still reopens (to acked, or acked ++ the failed batch). *)
Theorem C14_flush_fail_repair_failed : forall d m w d1 m1 l o,
  mstep d m (Flush (FFail w false)) = (d1, m1, RFail l) ->
  exists d2 m2, mstep d1 m1 (Flush o) = (d2, m2, RRefused) /\ d2 = d1 /\ m2 = m1.
Proof. exact flush_fail_blocked. Qed.
Print Assumptions C14_flush_fail_repair_failed.

(* The invariant behind C14_recover holds after every history. *)
Theorem C14_invariant : forall ops, InvS (run ops).
Proof. exact run_inv. Qed.
Print Assumptions C14_invariant.

(* What a reopen returns is a function of the watermark and the complete records still on disk:
   the entries above max(watermark, every prune record on disk), by height then file order; it fails
   exactly when a file other than the latest has an invalid tail. *)
Theorem C14_reopen_exact : forall d,
  nonlast_clean (dfiles d) = true ->
  reopen_obs d = Some (hsort (filter (fun x => N.max (wm_val d) (maxprune (disk_recs d)) <? fst x)
                                     (entries (disk_recs d)))).
Proof. exact reopen_exact. Qed.
Print Assumptions C14_reopen_exact.

Theorem C14_reopen_error_iff_inner_torn : forall d,
  nonlast_clean (dfiles d) = false -> reopen_obs d = None.
Proof. exact reopen_fails. Qed.
Print Assumptions C14_reopen_error_iff_inner_torn.

(* A disk satisfying the invariant for durable history [dur] reopens without error to exactly
   live dur - the first disjunct of recover_ok, whatever the in-flight batch was. *)
Theorem C14_invariant_recovers : forall d dur infl,
  DInv d dur -> (forall h id, In (REntry h id) dur -> 0 < h) ->
  reopen_obs d = Some (live dur) /\ recover_ok dur infl (reopen_obs d) = true.
Proof. exact dinv_recover. Qed.
Print Assumptions C14_invariant_recovers.

(* A committed batch extends the invariant: whole batch or nothing (a torn tail leaves disk_recs
   unchanged), given the pending relation between the written batch and the accepted calls. *)
Theorem C14_commit_keeps_invariant : forall W R dur b sp,
  N.max W (maxprune R) = maxprune dur ->
  filter (above_f (maxprune dur)) (entries R) = filter (above_f (maxprune dur)) (entries dur) ->
  pend_rel (maxprune dur) b sp ->
  N.max W (maxprune (R ++ b)) = maxprune (dur ++ sp) /\
  filter (above_f (maxprune (dur ++ sp))) (entries (R ++ b)) =
  filter (above_f (maxprune (dur ++ sp))) (entries (dur ++ sp)).
Proof. exact commit_records. Qed.
Print Assumptions C14_commit_keeps_invariant.

(* Replay (and commit) make the per-height index name every file that holds an entry above the
   prune bound ... *)
Theorem C14_index_names_live_files : forall (trs : list (N * rec)) ix p ix' p',
  fold_left apply_rec trs (ix, p) = (ix', p') ->
  forall h fn, p' < h -> (has ix h fn \/ exists id, In (fn, REntry h id) trs) -> has ix' h fn.
Proof. exact replay_has. Qed.
Print Assumptions C14_index_names_live_files.

(* ... hence a file below minLiveWALNum holds only entries at or below the bound ... *)
Theorem C14_prefix_delete_safe : forall fs ix nxt p f h id,
  (forall fn h id, In (fn, REntry h id) (tagged fs) -> p < h -> has ix h fn) ->
  In f fs -> fnum f <? min_live nxt ix = true -> In (REntry h id) (file_rs f) -> h <= p.
Proof. exact prefix_delete_safe. Qed.
Print Assumptions C14_prefix_delete_safe.

(* ... and removing ANY subset of such files (every crash image of the removal loop, in any order)
   keeps the invariant, because the watermark already holds the bound (watermark-before-delete). *)
Theorem C14_no_revive_delete : forall fs t dur (keep : file -> bool),
  DInv (mkDisk fs (Some (maxprune dur)) t) dur ->
  (forall f, In f fs -> keep f = false ->
     forall h id, In (REntry h id) (file_rs f) -> h <= maxprune dur) ->
  nonlast_clean (filter keep fs) = true ->
  DInv (mkDisk (filter keep fs) (Some (maxprune dur)) t) dur.
Proof. exact delete_safe. Qed.
Print Assumptions C14_no_revive_delete.

(* The result itself: never an entry of a pruned height, every entry of an unpruned height,
   ordered by height (insertion is stable: append order within a height). *)
Theorem C14_no_revive : forall l h id, In (h, id) (live l) -> covered l h = false.
Proof. exact live_no_revive. Qed.
Print Assumptions C14_no_revive.

Theorem C14_no_loss : forall l h id, In (REntry h id) l -> covered l h = false -> In (h, id) (live l).
Proof. exact live_no_loss. Qed.
Print Assumptions C14_no_loss.

Theorem C14_order_by_height : forall l, hsorted (live l).
Proof. exact live_sorted. Qed.
Print Assumptions C14_order_by_height.

Theorem C14_order_within_height : forall l h,
  filter (at_h h) (live l) =
  filter (at_h h) (filter (fun e => is_live (prune_bound l) (fst e)) (entries l)).
Proof. exact live_stable. Qed.
Print Assumptions C14_order_within_height.

(* A flush that fails and whose tail repair succeeds: reports failure, leaves the durable content and
   what a reopen returns unchanged, keeps the pending batch, and leaves the store usable. *)
Theorem C14_flush_fail_clean_step : forall d m w,
  mclosed m = false -> mdead m = false -> mrepair m = false -> mpend m <> [] ->
  (forall f, In f (dfiles d) -> ftorn f = false) ->
  let '(d', m', r) := mstep d m (Flush (FFail w true)) in
  r = RFail false /\
  reopen_obs d' = reopen_obs d /\ disk_recs d' = disk_recs d /\ dwm d' = dwm d /\
  mpend m' = mpend m /\ mclosed m' = false /\ mdead m' = false /\ mrepair m' = false /\
  (forall f, In f (dfiles d') -> ftorn f = false).
Proof. exact flush_fail_clean. Qed.
Print Assumptions C14_flush_fail_clean_step.

(* ====================================================================================================
   Byte level: the record framing of one log file (Frame.v = Pebble's LogWriter / record.Reader, recyclable
   chunk format). [crc] is ANY function (Pebble's masked CRC-32C when executed), [lognum] the low 32 bits
   of the file number. These theorems replace the former hypothesis frame_detects_torn for crash images
   that are byte prefixes of a written file.
   ==================================================================================================== *)

(* (a) round trip: whatever the payloads (empty, spanning several blocks, ending exactly at a block
   boundary or fewer than a header before it), the reader returns exactly the written records and a
   clean end; the same with the EOF trailer that Close appends *)
Theorem C14_frame_roundtrip : forall (crc : bytes -> N) (lognum : N), lognum < W32 ->
  forall rs : list bytes, decode crc lognum (encode crc lognum rs) = (rs, Clean).
Proof. exact frame_roundtrip. Qed.
Print Assumptions C14_frame_roundtrip.

Theorem C14_frame_closed_roundtrip : forall (crc : bytes -> N) (lognum : N), lognum < W32 ->
  forall rs : list bytes, decode crc lognum (encode_closed crc lognum rs) = (rs, Clean).
Proof. exact frame_closed_roundtrip. Qed.
Print Assumptions C14_frame_closed_roundtrip.

(* (b) crash images, exact form: for EVERY n the first n bytes of a written file read as [cut_view rs n]:
   the records that are complete within the cut (a prefix of rs), Torn / Clean, and the offset just
   past the last complete record, all computed from the payload lengths alone (Frame.cut_spec):
     n = 0 or n at the start of a record .......................... Clean
     n inside the chunks of record k+1 ............................ Torn, records 1..k
     n = end of the last chunk of record k ........................ Clean, records 1..k
     1..6 bytes into the zero padding that follows record k ....... Torn, records 1..k  (harmless: all
                                                                     records are complete; reopen cuts the tail)
     7.. bytes into that padding, or all of it .................... Clean, records 1..k *)
Theorem C14_frame_crash_image : forall (crc : bytes -> N) (lognum : N), lognum < W32 ->
  forall (rs : list bytes) (n : nat),
  decode_full crc lognum (firstn n (encode crc lognum rs)) = cut_view rs (N.of_nat n).
Proof. exact frame_crash_image. Qed.
Print Assumptions C14_frame_crash_image.

(* ... in words: the result is a PREFIX of the written records (never a partial or altered record);
   every record whose write had completed ([boundary rs j] = the offset WriteRecord returned for record j,
   i.e. the synced offset) lies in that prefix; and a Clean verdict means no byte of a later record is in
   the file *)
Theorem C14_frame_crash_prefix : forall (crc : bytes -> N) (lognum : N), lognum < W32 ->
  forall (rs : list bytes) (n : nat),
  exists (k : nat) (st : tail_status) (g : N),
    decode_full crc lognum (firstn n (encode crc lognum rs)) = (firstn k rs, st, g) /\
    (k <= length rs)%nat /\
    (forall j, (j <= length rs)%nat -> boundary crc lognum rs j <= N.of_nat n -> (j <= k)%nat) /\
    (st = Clean -> (n <= length (encode crc lognum rs))%nat -> N.of_nat n <= boundary crc lognum rs k).
Proof. exact frame_prefix. Qed.
Print Assumptions C14_frame_crash_prefix.

(* a cut exactly at a record boundary reads cleanly *)
Theorem C14_frame_clean_at_boundary : forall (crc : bytes -> N) (lognum : N), lognum < W32 ->
  forall (rs : list bytes) (j : nat), (j <= length rs)%nat ->
  decode crc lognum (firstn (N.to_nat (boundary crc lognum rs j)) (encode crc lognum rs)) = (firstn j rs, Clean).
Proof. exact frame_clean_at_boundary. Qed.
Print Assumptions C14_frame_clean_at_boundary.

(* every byte prefix of a CLOSED file (records ++ EOF trailer): as above inside the records, Torn inside
   the trailer, Clean with the whole trailer; the valid length never includes the trailer *)
Theorem C14_frame_closed_crash_image : forall (crc : bytes -> N) (lognum : N), lognum < W32 ->
  forall (rs : list bytes) (n : nat),
  decode_full crc lognum (firstn n (encode_closed crc lognum rs)) =
  if (n <=? length (encode crc lognum rs))%nat then cut_view rs (N.of_nat n)
  else (rs, (if (n <? length (encode crc lognum rs) + 11)%nat then Torn else Clean),
        valid_len crc lognum (encode crc lognum rs)).
Proof. exact frame_closed_crash_image_v. Qed.
Print Assumptions C14_frame_closed_crash_image.

(* the trailer ends the file for the reader whatever follows it *)
Theorem C14_frame_trailer_ends_file : forall (crc : bytes -> N) (lognum : N), lognum < W32 ->
  forall (rs : list bytes) (tail : bytes),
  decode_full crc lognum (encode crc lognum rs ++ trailer lognum ++ tail) = decode_full crc lognum (encode crc lognum rs).
Proof. exact frame_closed. Qed.
Print Assumptions C14_frame_trailer_ends_file.

(* what recoverLatestWALTail does - truncate the file to the reported valid length - leaves a file that
   reads cleanly and returns the same records (Model.untear_last: same batches, flag cleared) *)
Theorem C14_frame_truncate_to_valid_is_clean : forall (crc : bytes -> N) (lognum : N), lognum < W32 ->
  forall (rs : list bytes) (n : nat),
  let b := firstn n (encode crc lognum rs) in
  let '(recs, _, g) := decode_full crc lognum b in
  g <= N.of_nat n /\ decode_full crc lognum (firstn (N.to_nat g) b) = (recs, Clean, g).
Proof. exact frame_truncate_valid. Qed.
Print Assumptions C14_frame_truncate_to_valid_is_clean.

(* (c) corruption of one chunk. Any chunk of the file whose length, type and log number fields are intact
   but whose stored checksum c0..c3 is not the checksum of its (possibly altered) type / log number / payload
   bytes stops the reader: the records completed before it are returned, nothing after it, invalid tail.
   The hypothesis on crc is explicit and about these two byte strings only; no cryptographic claim. *)
Theorem C14_frame_bad_checksum_detected : forall (crc : bytes -> N) (lognum : N), lognum < W32 ->
  forall (rs : list bytes) (its1 : list item) (ty : N) (f : bytes) (its2 : list item)
         (c0 c1 c2 c3 : N) (f' : bytes) (tail : bytes),
  layout 0 rs = its1 ++ IChunk ty f :: its2 -> nlen f' = nlen f ->
  le32d c0 c1 c2 c3 <> crc (body lognum ty f') mod W32 ->
  exists k, (k <= length rs)%nat /\
    decode crc lognum (iflat crc lognum its1 ++ c0 :: c1 :: c2 :: c3 :: le16 (nlen f') ++ body lognum ty f' ++ tail)
    = (firstn k rs, Torn).
Proof. exact frame_bad_checksum. Qed.
Print Assumptions C14_frame_bad_checksum_detected.

(* the instance "the payload bytes of one chunk were altered, everything else is as written" *)
Theorem C14_frame_payload_corruption_detected : forall (crc : bytes -> N) (lognum : N), lognum < W32 ->
  forall (rs : list bytes) (its1 : list item) (ty : N) (f : bytes) (its2 : list item) (f' : bytes),
  layout 0 rs = its1 ++ IChunk ty f :: its2 -> nlen f' = nlen f ->
  crc (body lognum ty f') mod W32 <> crc (body lognum ty f) mod W32 ->
  exists k, (k <= length rs)%nat /\
    decode crc lognum (iflat crc lognum its1 ++ (le32 (crc (body lognum ty f)) ++ le16 (nlen f) ++ body lognum ty f')
                       ++ iflat crc lognum its2) = (firstn k rs, Torn).
Proof. exact frame_payload_corruption. Qed.
Print Assumptions C14_frame_payload_corruption_detected.

(* ---------- the link to the record-level model: frame_detects_torn, now a theorem ----------
   [enc] / [dec] stand for walstore's batch codec (codec.go over batchrepr); only dec (enc b) = b is used.
   Model.file_of_bytes reads a log file into the model's [file]. For EVERY byte prefix of a file that holds the
   batches [bats] the result is mkFile num (complete batches) torn?: the complete batches are a prefix of
   bats that contains every batch written below the cut, and the flag is set whenever a byte of a further
   batch is present - exactly the disk type of Model.v. *)
Theorem C14_frame_detects_torn : forall (crc : bytes -> N) (enc : batch -> bytes) (dec : bytes -> batch),
  (forall b, dec (enc b) = b) ->
  forall (num : N) (bats : list batch) (n : nat),
  let lognum := num mod W32 in
  let rs := map enc bats in
  exists (k : nat) (torn : bool), (k <= length bats)%nat /\
    file_of_bytes crc dec num (firstn n (encode crc lognum rs)) = mkFile num (firstn k bats) torn /\
    (forall j, (j <= length bats)%nat -> boundary crc lognum rs j <= N.of_nat n -> (j <= k)%nat) /\
    (torn = false -> (n <= length (encode crc lognum rs))%nat -> N.of_nat n <= boundary crc lognum rs k).
Proof. exact frame_file_of_prefix. Qed.
Print Assumptions C14_frame_detects_torn.

(* the crash images of one flush (file with the synced batches [bats], batch [b] being appended, cut anywhere
   at or after the synced offset) are the files of Model.flush_core: d1 (nothing written), [torn]
   (CPTorn), [landed] (CPFull), or landed + invalid tail (cut 1..6 bytes into the padding after b); never a
   partial batch *)
Theorem C14_frame_inflight_images : forall (crc : bytes -> N) (enc : batch -> bytes) (dec : bytes -> batch),
  (forall b, dec (enc b) = b) ->
  forall (num : N) (bats : list batch) (b : batch) (n : nat),
  let lognum := num mod W32 in
  let synced := length (encode crc lognum (map enc bats)) in
  let f0 := mkFile num bats false in
  (synced <= n)%nat ->
  let f := file_of_bytes crc dec num (firstn n (encode crc lognum (map enc (bats ++ [b])))) in
  (f = f0 /\ n = synced) \/ f = set_torn f0 \/ f = add_batch b f0 \/ f = set_torn (add_batch b f0).
Proof. exact frame_inflight_images. Qed.
Print Assumptions C14_frame_inflight_images.

(* ... and the fourth shape is immaterial: reopening ignores the invalid-tail flag of the latest file *)
Theorem C14_reopen_ignores_last_torn_flag : forall (fs : list file) (f : file) (wm : option N) (tmp : bool),
  reopen_obs (mkDisk (fs ++ [set_torn f]) wm tmp) = reopen_obs (mkDisk (fs ++ [f]) wm tmp).
Proof. exact reopen_last_flag. Qed.
Print Assumptions C14_reopen_ignores_last_torn_flag.

(* ---------- non-vacuity and witnesses (vm_compute) ---------- *)
Fixpoint heights (n : nat) (h : N) : list op :=
  match n with
  | O => []
  | S k => [Append h (2 * h + 1); Append (h + 1) (2 * h + 2); Flush FOk; Prune h; Flush FOk] ++ heights k (h + 1)
  end.

Definition obs_of (st : state) : option (list (N * N)) := reopen_obs (fst (fst st)).
Definition ok_of (st : state) : bool := recover_ok (sack (snd st)) (sinfl (snd st)) (obs_of st).

(* 276 heights across three store lifetimes; the cleanup at the 256th prune record of the third
   lifetime may remove files 1 and 2 and crashes when only file 2 has gone (out of order); the next
   lifetime tears, or completes without acknowledging, its first record *)
Example run_with_cleanup_crash :
  let ops := Reopen :: heights 10 1 ++ [Close false; Reopen] ++ heights 10 11 ++ [Close false; Reopen] ++
             heights 255 21 ++ [Append 277 7; Prune 276; Flush (FCrash (CPDel [2]))] in
  ok_of (run ops) = true /\ obs_of (run ops) = Some [(277, 7)] /\
  map fnum (dfiles (fst (fst (run ops)))) = [1; 3] /\ dwm (fst (fst (run ops))) = Some 276 /\
  ok_of (run (ops ++ [Reopen; Append 278 9; Flush (FCrash CPTorn)])) = true /\
  ok_of (run (ops ++ [Reopen; Append 278 9; Flush (FCrash CPFull)])) = true /\
  obs_of (run (ops ++ [Reopen; Append 278 9; Flush (FCrash CPFull)])) = Some [(277, 7); (278, 9)].
Proof. vm_compute. repeat split. Qed.

(* the hypothesis heights_pos of C14_recover is needed: on a fresh log
   prunedUpToHeight = 0 makes SetWALEntry drop a height-0 entry although nothing was pruned *)
Example C14_height0_refuted :
  let st := run [Reopen; Append 0 5; Append 1 6; Flush FOk; Close false] in
  sack (snd st) = [REntry 0 5; REntry 1 6] /\ obs_of st = Some [(1, 6)] /\ ok_of st = false.
Proof. vm_compute. repeat split. Qed.

Example C14_recover_pos_needed :
  exists ops, let '(d, m, s) := run ops in
    reopen_obs d <> Some (live (sdur s)) /\ recover_ok (sack s) (sinfl s) (reopen_obs d) = false.
Proof. exists [Reopen; Append 0 5; Append 1 6; Flush FOk; Close false]. vm_compute. split; [discriminate|reflexivity]. Qed.

Example heights_pos_nontrivial :
  heights_pos (Reopen :: heights 3 1 ++ [Append 9 1; Flush (FCrash CPTorn); Reopen]).
Proof. intros h id Hin. simpl in Hin. repeat (destruct Hin as [Hin|Hin]; [inversion Hin; subst; vm_compute; discriminate|]). destruct Hin. Qed.

(* watermark-before-delete is needed: without the watermark, losing the file that holds the prune
   record while an older file survives (removals are not ordered by a directory sync) revives the
   pruned height; with the watermark it does not *)
Example watermark_needed :
  let f1 := mkFile 1 [(1, [REntry 5 1])] false in
  let f2 := mkFile 2 [(2, [RPrune 5; REntry 6 2])] false in
  reopen_obs (mkDisk [f1; f2] None false) = Some [(6, 2)] /\
  reopen_obs (mkDisk [f1] None false) = Some [(5, 1)] /\
  reopen_obs (mkDisk [f1] (Some 5) false) = Some [].
Proof. vm_compute. repeat split. Qed.

(* DInv is satisfiable by a non-trivial disk: two files, a stale entry below the watermark *)
Example dinv_nontrivial :
  DInv (mkDisk [mkFile 1 [(1, [REntry 3 1; REntry 7 2])] false; mkFile 2 [(3, [RPrune 4; REntry 7 3])] true] (Some 2) true)
       [REntry 3 1; REntry 7 2; RPrune 2; RPrune 4; REntry 4 9; REntry 7 3].
Proof. constructor; vm_compute; reflexivity. Qed.

(* ---------- byte level: witnesses ---------- *)
(* the check value of CRC-32C ("123456789" -> 0xE3069283) and Pebble's masked value of it *)
Example C14_crc32c_check_value :
  crc32c [49; 50; 51; 52; 53; 54; 55; 56; 57] = 3808858755 /\
  pebble_crc [49; 50; 51; 52; 53; 54; 55; 56; 57] = 3347755237.
Proof. vm_compute. split; reflexivity. Qed.

(* two records (one empty) in file 1: the bytes, every region of cuts *)
Example C14_frame_small_file :
  let rs := [[1; 2; 3]; []] in
  encode pebble_crc 1 rs = [148; 37; 91; 3; 3; 0; 5; 1; 0; 0; 0; 1; 2; 3; 158; 107; 165; 189; 0; 0; 5; 1; 0; 0; 0] /\
  decode_full pebble_crc 1 (encode pebble_crc 1 rs) = (rs, Clean, 25) /\
  decode_full pebble_crc 1 (firstn 13 (encode pebble_crc 1 rs)) = ([], Torn, 0) /\
  decode_full pebble_crc 1 (firstn 14 (encode pebble_crc 1 rs)) = ([[1; 2; 3]], Clean, 14) /\
  decode_full pebble_crc 1 (firstn 20 (encode pebble_crc 1 rs)) = ([[1; 2; 3]], Torn, 14) /\
  decode_full pebble_crc 1 (firstn 30 (encode_closed pebble_crc 1 rs)) = (rs, Torn, 25) /\
  decode_full pebble_crc 1 (encode_closed pebble_crc 1 rs) = (rs, Clean, 25).
Proof. vm_compute. repeat split. Qed.

(* a record that leaves 7 bytes in its block (zero padding), then one that starts the next block; and a
   record that leaves exactly 11 bytes: the next record's FIRST chunk carries no payload *)
Example C14_frame_block_padding :
  let sm := fun x : list bytes * tail_status * N => (map nlen (fst (fst x)), snd (fst x), snd x) in
  let r1 := N.iter 32750 (cons 7) [] in let rs := [r1; [9]] in
  sm (cut_view rs 32760) = ([], Torn, 0) /\ sm (cut_view rs 32761) = ([32750], Clean, 32761) /\
  sm (cut_view rs 32764) = ([32750], Torn, 32761) /\ sm (cut_view rs 32768) = ([32750], Clean, 32761) /\
  sm (cut_view rs 32769) = ([32750], Torn, 32761) /\ sm (cut_view rs 32780) = ([32750; 1], Clean, 32780) /\
  sm (decode_full pebble_crc 3 (firstn (N.to_nat 32764) (encode pebble_crc 3 rs))) = ([32750], Torn, 32761) /\
  sm (decode_full pebble_crc 3 (firstn (N.to_nat 32768) (encode pebble_crc 3 rs))) = ([32750], Clean, 32761) /\
  map isize (layout 0 [N.iter 32746 (cons 7) []; [9]]) = [32757; 11; 12].
Proof. vm_compute. repeat split. Qed.

(* the hypothesis of C14_frame_payload_corruption_detected is needed: with a checksum that does not
   distinguish the two byte strings the altered record is returned as if it had been written *)
Example C14_frame_corruption_hypothesis_needed :
  let crc0 := fun _ : bytes => 0 in
  layout 0 [[1; 2; 3]] = [] ++ IChunk 5 [1; 2; 3] :: [] /\
  decode crc0 1 (iflat crc0 1 [] ++ (le32 (crc0 (body 1 5 [1; 2; 3])) ++ le16 3 ++ body 1 5 [1; 2; 4]) ++ iflat crc0 1 [])
  = ([[1; 2; 4]], Clean).
Proof. vm_compute. split; reflexivity. Qed.

(* observation (Pebble's reader, not a violation of the property): the log number is compared BEFORE the
   checksum is verified, so a chunk header whose log-number field reads number + 1 is taken for the EOF
   trailer even when its checksum is wrong. One flipped bit (byte 19 below: 2 -> 3) in the first chunk of
   the second record of file 2 makes the reader report a CLEAN end after the first record; a checksum
   failure would have reported an invalid tail. (The harness replays this on the real reader.) *)
Example C14_frame_lognum_flip_reads_as_clean_end :
  let b := encode pebble_crc 2 [[1]; [2]; [3]] in
  nth 19 b 0 = 2 /\
  decode pebble_crc 2 b = ([[1]; [2]; [3]], Clean) /\
  decode pebble_crc 2 (firstn 19 b ++ [3] ++ skipn 20 b) = ([[1]], Clean) /\
  decode pebble_crc 2 (firstn 20 b ++ [1] ++ skipn 21 b) = ([[1]], Torn).
Proof. vm_compute. repeat split. Qed.
