(* C14 — property theorems only (statements closed by [exact] of lemmas from Proofs*.v).

   A crash is an operation of the history: [Flush (FCrash cp)] leaves the disk in the intermediate
   state named by the crash point cp (new empty file / torn record / complete unacknowledged record /
   watermark tmp written / renamed / rotation with torn or complete trailer / any subset of the
   obsolete files gone), [Close true] tears the EOF trailer, [Reopen] of a store that was not closed
   is a kill between two calls. "For every crash image of every history" is therefore
   "for every op list"; C14_recover_crash_images spells the instance out. Heights are >= 1
   (hypothesis heights_pos): height 0 is the registered finding height0-dropped, see
   C14_recover_pos_needed. *)
From Coq Require Import List NArith Bool.
From V Require Import C14.Model C14.Proofs C14.Proofs_inv C14.Proofs_run.
Import ListNotations.
Open Scope N_scope.

(* The end-to-end statement. After ANY history (appends, prunes, successful / failed / crashing
   flushes, closes, reopens, in any order and number) reopening the disk succeeds and returns exactly
   the live entries of the durable history, which is the acknowledged history or the acknowledged
   history followed by the complete in-flight batch; [recover_ok] is the predicate the harness
   evaluates on the real store. *)
Theorem C14_recover : forall ops, heights_pos ops ->
  let '(d, m, s) := run ops in
  reopen_obs d = Some (live (sdur s)) /\
  (sdur s = sack s \/ sdur s = sack s ++ sinfl s) /\
  recover_ok (sack s) (sinfl s) (reopen_obs d) = true.
Proof. exact recover_main. Qed.
Print Assumptions C14_recover.

Theorem C14_recover_crash_images : forall ops o, heights_pos ops -> crash_op o ->
  let s := snd (run ops) in
  let '(d', m', s') := run (ops ++ [o]) in
  exists l, reopen_obs d' = Some l /\
    (l = live (sack s') \/ l = live (sack s' ++ sinfl s')) /\
    (o <> Reopen -> sack s' = sack s).
Proof. exact recover_crash_images. Qed.
Print Assumptions C14_recover_crash_images.

Theorem C14_no_partial_batch : forall ops, heights_pos ops ->
  let '(d, m, s) := run ops in
  exists l, reopen_obs d = Some l /\ (l = live (sack s) \/ l = live (sack s ++ sinfl s)).
Proof. exact no_partial_batch. Qed.
Print Assumptions C14_no_partial_batch.

(* A flush that reports failure (and whose tail repair succeeded), after any history: nothing of the
   batch is durable or acknowledged, a reopen returns what it returned before, and the next flush
   succeeds and makes the whole pending batch durable. *)
Theorem C14_flush_fail_clean : forall ops w, heights_pos ops ->
  let st := run ops in
  let '(st1, r1) := step st (Flush (FFail w true)) in
  r1 = RFail false ->
  sack (snd st1) = sack (snd st) /\ sdur (snd st1) = sdur (snd st) /\
  reopen_obs (fst (fst st1)) = reopen_obs (fst (fst st)) /\
  reopen_obs (fst (fst st)) = Some (live (sack (snd st))) /\
  let '(st2, r2) := step st1 (Flush FOk) in
  r2 = ROk /\ reopen_obs (fst (fst st2)) = Some (live (sack (snd st) ++ spend (snd st))).
Proof. exact flush_fail_clean_run. Qed.
Print Assumptions C14_flush_fail_clean.

(* ... and when the repair fails as well (repairRequired): every later flush is refused and changes
   nothing; by C14_recover the disk still reopens (to acked, or acked ++ the failed batch). *)
Theorem C14_flush_fail_repair_failed : forall d m w d1 m1 l o,
  mstep d m (Flush (FFail w false)) = (d1, m1, RFail l) ->
  exists d2 m2, mstep d1 m1 (Flush o) = (d2, m2, RRefused) /\ d2 = d1 /\ m2 = m1.
Proof. exact flush_fail_blocked. Qed.
Print Assumptions C14_flush_fail_repair_failed.

(* The invariant behind C14_recover holds after every history. *)
Theorem C14_invariant : forall ops, InvS (run ops).
Proof. exact run_inv. Qed.
Print Assumptions C14_invariant.

(* What a reopen returns is a function of the watermark and the complete records still on disk:
   the entries above max(watermark, every prune record on disk), by height then file order; it fails
   exactly when a file other than the latest has an invalid tail. *)
Theorem C14_reopen_exact : forall d,
  nonlast_clean (dfiles d) = true ->
  reopen_obs d = Some (hsort (filter (fun x => N.max (wm_val d) (maxprune (disk_recs d)) <? fst x)
                                     (entries (disk_recs d)))).
Proof. exact reopen_exact. Qed.
Print Assumptions C14_reopen_exact.

Theorem C14_reopen_error_iff_inner_torn : forall d,
  nonlast_clean (dfiles d) = false -> reopen_obs d = None.
Proof. exact reopen_fails. Qed.
Print Assumptions C14_reopen_error_iff_inner_torn.

(* A disk satisfying the invariant for durable history [dur] reopens without error to exactly
   live dur - the first disjunct of recover_ok, whatever the in-flight batch was. *)
Theorem C14_invariant_recovers : forall d dur infl,
  DInv d dur -> (forall h id, In (REntry h id) dur -> 0 < h) ->
  reopen_obs d = Some (live dur) /\ recover_ok dur infl (reopen_obs d) = true.
Proof. exact dinv_recover. Qed.
Print Assumptions C14_invariant_recovers.

(* A committed batch extends the invariant: whole batch or nothing (a torn tail leaves disk_recs
   unchanged), given the pending relation between the written batch and the accepted calls. *)
Theorem C14_commit_keeps_invariant : forall W R dur b sp,
  N.max W (maxprune R) = maxprune dur ->
  filter (above_f (maxprune dur)) (entries R) = filter (above_f (maxprune dur)) (entries dur) ->
  pend_rel (maxprune dur) b sp ->
  N.max W (maxprune (R ++ b)) = maxprune (dur ++ sp) /\
  filter (above_f (maxprune (dur ++ sp))) (entries (R ++ b)) =
  filter (above_f (maxprune (dur ++ sp))) (entries (dur ++ sp)).
Proof. exact commit_records. Qed.
Print Assumptions C14_commit_keeps_invariant.

(* Replay (and commit) make the per-height index name every file that holds an entry above the
   prune bound ... *)
Theorem C14_index_names_live_files : forall (trs : list (N * rec)) ix p ix' p',
  fold_left apply_rec trs (ix, p) = (ix', p') ->
  forall h fn, p' < h -> (has ix h fn \/ exists id, In (fn, REntry h id) trs) -> has ix' h fn.
Proof. exact replay_has. Qed.
Print Assumptions C14_index_names_live_files.

(* ... hence a file below minLiveWALNum holds only entries at or below the bound ... *)
Theorem C14_prefix_delete_safe : forall fs ix nxt p f h id,
  (forall fn h id, In (fn, REntry h id) (tagged fs) -> p < h -> has ix h fn) ->
  In f fs -> fnum f <? min_live nxt ix = true -> In (REntry h id) (file_rs f) -> h <= p.
Proof. exact prefix_delete_safe. Qed.
Print Assumptions C14_prefix_delete_safe.

(* ... and removing ANY subset of such files (every crash image of the removal loop, in any order)
   keeps the invariant, because the watermark already holds the bound (watermark-before-delete). *)
Theorem C14_no_revive_delete : forall fs t dur (keep : file -> bool),
  DInv (mkDisk fs (Some (maxprune dur)) t) dur ->
  (forall f, In f fs -> keep f = false ->
     forall h id, In (REntry h id) (file_rs f) -> h <= maxprune dur) ->
  nonlast_clean (filter keep fs) = true ->
  DInv (mkDisk (filter keep fs) (Some (maxprune dur)) t) dur.
Proof. exact delete_safe. Qed.
Print Assumptions C14_no_revive_delete.

(* The result itself: never an entry of a pruned height, every entry of an unpruned height,
   ordered by height (insertion is stable: append order within a height). *)
Theorem C14_no_revive : forall l h id, In (h, id) (live l) -> covered l h = false.
Proof. exact live_no_revive. Qed.
Print Assumptions C14_no_revive.

Theorem C14_no_loss : forall l h id, In (REntry h id) l -> covered l h = false -> In (h, id) (live l).
Proof. exact live_no_loss. Qed.
Print Assumptions C14_no_loss.

Theorem C14_order_by_height : forall l, hsorted (live l).
Proof. exact live_sorted. Qed.
Print Assumptions C14_order_by_height.

Theorem C14_order_within_height : forall l h,
  filter (at_h h) (live l) =
  filter (at_h h) (filter (fun e => is_live (prune_bound l) (fst e)) (entries l)).
Proof. exact live_stable. Qed.
Print Assumptions C14_order_within_height.

(* A flush that fails and whose tail repair succeeds: reports failure, leaves the durable content and
   what a reopen returns unchanged, keeps the pending batch, and leaves the store usable. *)
Theorem C14_flush_fail_clean_step : forall d m w,
  mclosed m = false -> mdead m = false -> mrepair m = false -> mpend m <> [] ->
  (forall f, In f (dfiles d) -> ftorn f = false) ->
  let '(d', m', r) := mstep d m (Flush (FFail w true)) in
  r = RFail false /\
  reopen_obs d' = reopen_obs d /\ disk_recs d' = disk_recs d /\ dwm d' = dwm d /\
  mpend m' = mpend m /\ mclosed m' = false /\ mdead m' = false /\ mrepair m' = false /\
  (forall f, In f (dfiles d') -> ftorn f = false).
Proof. exact flush_fail_clean. Qed.
Print Assumptions C14_flush_fail_clean_step.

(* ---------- non-vacuity and witnesses (vm_compute) ---------- *)
Fixpoint heights (n : nat) (h : N) : list op :=
  match n with
  | O => []
  | S k => [Append h (2 * h + 1); Append (h + 1) (2 * h + 2); Flush FOk; Prune h; Flush FOk] ++ heights k (h + 1)
  end.

Definition obs_of (st : state) : option (list (N * N)) := reopen_obs (fst (fst st)).
Definition ok_of (st : state) : bool := recover_ok (sack (snd st)) (sinfl (snd st)) (obs_of st).

(* 276 heights across three store lifetimes; the cleanup at the 256th prune record of the third
   lifetime may remove files 1 and 2 and crashes when only file 2 has gone (out of order); the next
   lifetime tears, or completes without acknowledging, its first record *)
Example run_with_cleanup_crash :
  let ops := Reopen :: heights 10 1 ++ [Close false; Reopen] ++ heights 10 11 ++ [Close false; Reopen] ++
             heights 255 21 ++ [Append 277 7; Prune 276; Flush (FCrash (CPDel [2]))] in
  ok_of (run ops) = true /\ obs_of (run ops) = Some [(277, 7)] /\
  map fnum (dfiles (fst (fst (run ops)))) = [1; 3] /\ dwm (fst (fst (run ops))) = Some 276 /\
  ok_of (run (ops ++ [Reopen; Append 278 9; Flush (FCrash CPTorn)])) = true /\
  ok_of (run (ops ++ [Reopen; Append 278 9; Flush (FCrash CPFull)])) = true /\
  obs_of (run (ops ++ [Reopen; Append 278 9; Flush (FCrash CPFull)])) = Some [(277, 7); (278, 9)].
Proof. vm_compute. repeat split. Qed.

(* the hypothesis heights_pos of C14_recover is needed: on a fresh log
   prunedUpToHeight = 0 makes SetWALEntry drop a height-0 entry although nothing was pruned *)
Example C14_height0_refuted :
  let st := run [Reopen; Append 0 5; Append 1 6; Flush FOk; Close false] in
  sack (snd st) = [REntry 0 5; REntry 1 6] /\ obs_of st = Some [(1, 6)] /\ ok_of st = false.
Proof. vm_compute. repeat split. Qed.

Example C14_recover_pos_needed :
  exists ops, let '(d, m, s) := run ops in
    reopen_obs d <> Some (live (sdur s)) /\ recover_ok (sack s) (sinfl s) (reopen_obs d) = false.
Proof. exists [Reopen; Append 0 5; Append 1 6; Flush FOk; Close false]. vm_compute. split; [discriminate|reflexivity]. Qed.

Example heights_pos_nontrivial :
  heights_pos (Reopen :: heights 3 1 ++ [Append 9 1; Flush (FCrash CPTorn); Reopen]).
Proof. intros h id Hin. simpl in Hin. repeat (destruct Hin as [Hin|Hin]; [inversion Hin; subst; vm_compute; discriminate|]). destruct Hin. Qed.

(* watermark-before-delete is needed: without the watermark, losing the file that holds the prune
   record while an older file survives (removals are not ordered by a directory sync) revives the
   pruned height; with the watermark it does not *)
Example watermark_needed :
  let f1 := mkFile 1 [(1, [REntry 5 1])] false in
  let f2 := mkFile 2 [(2, [RPrune 5; REntry 6 2])] false in
  reopen_obs (mkDisk [f1; f2] None false) = Some [(6, 2)] /\
  reopen_obs (mkDisk [f1] None false) = Some [(5, 1)] /\
  reopen_obs (mkDisk [f1] (Some 5) false) = Some [].
Proof. vm_compute. repeat split. Qed.

(* DInv is satisfiable by a non-trivial disk: two files, a stale entry below the watermark *)
Example dinv_nontrivial :
  DInv (mkDisk [mkFile 1 [(1, [REntry 3 1; REntry 7 2])] false; mkFile 2 [(3, [RPrune 4; REntry 7 3])] true] (Some 2) true)
       [REntry 3 1; REntry 7 2; RPrune 2; RPrune 4; REntry 4 9; REntry 7 3].
Proof. constructor; vm_compute; reflexivity. Qed.
