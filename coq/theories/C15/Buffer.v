(* C15 - db.BufferBatch (db/bufferbatch.go): a Go map of pending point writes in front of an indexed batch.
   Transcription:  updates map[string][]byte  (nil value = delete)  ~  bbuf, at most one entry per key;
   Put/Delete overwrite the entry; Get looks into the map first, then into the wrapped batch; Flush ranges over
   the map (Go map iteration order is unspecified: ANY order) and forwards each entry to the wrapped batch.
   The wrapped batch is seen through its store view (C15.Model.store: what its Get answers). *)
From Coq Require Import List Bool Permutation.
Import ListNotations.
From V Require Import C15.Model C15.Proofs.

Definition bbuf := list (key * option val).

Fixpoint bb_set (m : bbuf) (k : key) (x : option val) : bbuf :=
  match m with
  | [] => [(k, x)]
  | (k', y) :: r => if keqb k k' then (k, x) :: r else (k', y) :: bb_set r k x
  end.

Fixpoint bb_find (m : bbuf) (k : key) : option (option val) :=
  match m with
  | [] => None
  | (k', y) :: r => if keqb k k' then Some y else bb_find r k
  end.

(* BufferBatch.Get *)
Definition bb_get (m : bbuf) (txn : store) (k : key) : option val :=
  match bb_find m k with
  | Some r => r
  | None => s_get txn k
  end.

(* the point writes a BufferBatch accepts *)
Inductive pw := PPut (k : key) (v : val) | PDel (k : key).
Definition pw_wop (w : pw) : wop := match w with PPut k v => WPut k v | PDel k => WDel k end.
Definition bb_write (m : bbuf) (w : pw) : bbuf :=
  match w with PPut k v => bb_set m k (Some v) | PDel k => bb_set m k None end.
Definition bb_writes (ws : list pw) : bbuf := fold_left bb_write ws [].

(* BufferBatch.Flush with the entries visited in the given order *)
Definition bb_forward (s : store) (e : key * option val) : store :=
  match snd e with Some v => s_put s (fst e) v | None => s_del s (fst e) end.
Definition bb_flush (order : bbuf) (txn : store) : store := fold_left bb_forward order txn.

(* ---------- lemmas ---------- *)
Lemma bb_find_set m k x k' :
  bb_find (bb_set m k x) k' = if keqb k' k then Some x else bb_find m k'.
Proof.
  induction m as [|[a y] m IH]; cbn.
  - destruct (keqb k' k); reflexivity.
  - destruct (keqb k a) eqn:E; cbn.
    + apply keqb_eq in E. subst a. destruct (keqb k' k); reflexivity.
    + rewrite IH. destruct (keqb k' a) eqn:E1; auto.
      apply keqb_eq in E1. subst a. destruct (keqb k' k) eqn:E2; auto.
      apply keqb_eq in E2. subst. rewrite keqb_refl in E. discriminate.
Qed.

Definition keys_nodup (m : bbuf) : Prop := NoDup (map fst m).

Lemma bb_set_keys_in m k x a : In a (map fst (bb_set m k x)) -> a = k \/ In a (map fst m).
Proof.
  induction m as [|[b y] m IH]; cbn.
  - intros [H|[]]; auto.
  - destruct (keqb k b) eqn:E; cbn.
    + intros [H|H]; auto.
    + intros [H|H]; auto. destruct (IH H); auto.
Qed.

Lemma bb_set_nodup m k x : keys_nodup m -> keys_nodup (bb_set m k x).
Proof.
  unfold keys_nodup. induction m as [|[b y] m IH]; cbn; intros H.
  - constructor; [intros []|constructor].
  - inversion H as [|? ? Hn Hd]; subst. destruct (keqb k b) eqn:E; cbn.
    + apply keqb_eq in E. subst b. constructor; assumption.
    + constructor; [|apply IH; assumption].
      intros Hin. apply bb_set_keys_in in Hin. destruct Hin as [->|Hin]; [|contradiction].
      rewrite keqb_refl in E. discriminate.
Qed.

Lemma bb_writes_nodup_from ws : forall m, keys_nodup m -> keys_nodup (fold_left bb_write ws m).
Proof.
  induction ws as [|w ws IH]; cbn; intros m H; auto.
  apply IH. destruct w; cbn; apply bb_set_nodup; assumption.
Qed.

Lemma bb_forward_sorted s e : sorted s -> sorted (bb_forward s e).
Proof. destruct e as [k [v|]]; cbn; auto using s_put_sorted, s_del_sorted. Qed.

Lemma bb_get_forward s e k : sorted s ->
  s_get (bb_forward s e) k = if keqb k (fst e) then snd e else s_get s k.
Proof.
  destruct e as [a [v|]]; cbn; intros H.
  - apply s_get_put.
  - apply s_get_del; assumption.
Qed.

(* Get through the buffer = Get of the wrapped batch after replaying the same point writes on it *)
Lemma bb_get_writes_from ws : forall m txn txn',
  sorted txn' -> (forall k, bb_get m txn k = s_get txn' k) ->
  forall k, bb_get (fold_left bb_write ws m) txn k = s_get (replay (map pw_wop ws) txn') k.
Proof.
  unfold replay. induction ws as [|w ws IH]; cbn [fold_left map]; intros m txn txn' Hs Hm k.
  - apply Hm.
  - apply IH.
    + destruct w; cbn; auto using s_put_sorted, s_del_sorted.
    + intros k0. unfold bb_get. destruct w as [a v|a]; cbn [bb_write pw_wop apply_w]; rewrite bb_find_set.
      * rewrite s_get_put. destruct (keqb k0 a); auto. apply Hm.
      * rewrite s_get_del by assumption. destruct (keqb k0 a); auto. apply Hm.
Qed.

Lemma bb_get_writes ws txn k : sorted txn ->
  bb_get (bb_writes ws) txn k = s_get (replay (map pw_wop ws) txn) k.
Proof. intros H. apply bb_get_writes_from; auto. Qed.

Lemma bb_find_notin m k : ~ In k (map fst m) -> bb_find m k = None.
Proof.
  induction m as [|[a y] m IH]; cbn; intros H; auto.
  destruct (keqb k a) eqn:E.
  - apply keqb_eq in E. subst. exfalso. auto.
  - apply IH. intros Hin. auto.
Qed.

(* Flush in the given order: the wrapped batch then answers what the buffer answered *)
Lemma bb_flush_get order : forall txn k, keys_nodup order -> sorted txn ->
  s_get (bb_flush order txn) k = bb_get order txn k.
Proof.
  unfold bb_flush, bb_get, keys_nodup. induction order as [|[a x] r IH]; cbn [fold_left map bb_find]; intros txn k Hn Hs.
  - reflexivity.
  - inversion Hn as [|? ? Hnot Hr]; subst.
    rewrite IH by (auto using bb_forward_sorted).
    destruct (keqb k a) eqn:E.
    + apply keqb_eq in E. subst k. rewrite (bb_find_notin r a Hnot).
      rewrite bb_get_forward by assumption. cbn. rewrite keqb_refl. reflexivity.
    + destruct (bb_find r k); auto.
      rewrite bb_get_forward by assumption. cbn. rewrite E. reflexivity.
Qed.

Lemma bb_find_perm k (m1 m2 : bbuf) : Permutation m1 m2 -> keys_nodup m1 -> bb_find m1 k = bb_find m2 k.
Proof.
  unfold keys_nodup. induction 1 as [|[a x] l l' Hp IH|[a x] [b y] l|l1 l2 l3 H1 IH1 H2 IH2]; intros Hn; cbn.
  - reflexivity.
  - inversion Hn; subst. rewrite IH; auto.
  - destruct (keqb k b) eqn:Eb, (keqb k a) eqn:Ea; auto.
    apply keqb_eq in Ea, Eb. subst. cbn in Hn. inversion Hn as [|? ? Hnot _]; subst.
    exfalso. apply Hnot. left. reflexivity.
  - rewrite IH1 by assumption. apply IH2.
    eapply Permutation_NoDup; [|exact Hn]. apply Permutation_map. assumption.
Qed.

(* Go ranges over the map in an unspecified order: every order gives the same wrapped batch view *)
Lemma bb_flush_any_order order m txn k :
  Permutation order m -> keys_nodup m -> sorted txn ->
  s_get (bb_flush order txn) k = bb_get m txn k.
Proof.
  intros Hp Hn Hs.
  assert (Hno : keys_nodup order).
  { unfold keys_nodup in *. eapply Permutation_NoDup; [|exact Hn]. apply Permutation_map, Permutation_sym. assumption. }
  rewrite bb_flush_get by assumption. unfold bb_get. rewrite (bb_find_perm k order m Hp Hno). reflexivity.
Qed.

Lemma bb_writes_nodup ws : keys_nodup (bb_writes ws).
Proof. apply bb_writes_nodup_from. constructor. Qed.

(* the wrapper is transparent: after Flush (any map order) the wrapped batch answers exactly what a bare
   indexed batch answers after the same point writes *)
Lemma bb_transparent ws order txn k :
  sorted txn -> Permutation order (bb_writes ws) ->
  s_get (bb_flush order txn) k = s_get (replay (map pw_wop ws) txn) k.
Proof.
  intros Hs Hp. rewrite (bb_flush_any_order order (bb_writes ws)); auto using bb_writes_nodup.
  apply bb_get_writes. assumption.
Qed.
