(* C15 — executable models of juno's key/value storage contract.
   [Spec]  : the contract, following the Pebble wrappers (db/pebblev2/{db,batch,iterator,snapshot}.go).
   [Mem]   : literal transcription of db/memory/{db,batch,iterator}.go.
   No proofs in this file; it is extracted to OCaml and run against the Go code. *)
From Coq Require Import List NArith ZArith Bool Ascii.
Import ListNotations.
Open Scope N_scope.

Definition byte := ascii.            (* exactly 256 values *)
Definition bn (b : byte) : N := N_of_ascii b.
Definition key := list byte.         (* a byte string *)
Definition val := list byte.

Fixpoint kcmp (a b : key) : comparison :=
  match a, b with
  | [], [] => Eq
  | [], _ :: _ => Lt
  | _ :: _, [] => Gt
  | x :: a', y :: b' =>
      match N.compare (bn x) (bn y) with
      | Eq => kcmp a' b'
      | c => c
      end
  end.

Definition klt (a b : key) : bool := match kcmp a b with Lt => true | _ => false end.
Definition kle (a b : key) : bool := match kcmp a b with Gt => false | _ => true end.
Definition keqb (a b : key) : bool := match kcmp a b with Eq => true | _ => false end.

Fixpoint has_prefix (p k : key) : bool :=
  match p, k with
  | [], _ => true
  | _ :: _, [] => false
  | x :: p', y :: k' => (bn x =? bn y) && has_prefix p' k'
  end.

(* db/dbutils/bound.go UpperBound: None models the nil slice. *)
Fixpoint upper_bound (p : key) : option key :=
  match p with
  | [] => None
  | b :: r =>
      match upper_bound r with
      | Some u => Some (b :: u)
      | None => if bn b =? 255 then None else Some [ascii_of_N (bn b + 1)]
      end
  end.

(* ---------- stores: strictly sorted association lists ---------- *)
Definition store := list (key * val).

Fixpoint s_put (s : store) (k : key) (v : val) : store :=
  match s with
  | [] => [(k, v)]
  | (k', v') :: r =>
      match kcmp k k' with
      | Lt => (k, v) :: s
      | Eq => (k, v) :: r
      | Gt => (k', v') :: s_put r k v
      end
  end.

Fixpoint s_del (s : store) (k : key) : store :=
  match s with
  | [] => []
  | (k', v') :: r =>
      match kcmp k k' with
      | Lt => s
      | Eq => r
      | Gt => (k', v') :: s_del r k
      end
  end.

Fixpoint s_get (s : store) (k : key) : option val :=
  match s with
  | [] => None
  | (k', v') :: r => if keqb k k' then Some v' else s_get r k
  end.

Definition in_range (a b k : key) : bool := kle a k && klt k b.

Definition s_delrange (s : store) (a b : key) : store :=
  filter (fun kv => negb (in_range a b (fst kv))) s.

(* ---------- write operations recorded by a batch ---------- *)
Inductive wop :=
| WPut (k : key) (v : val)
| WDel (k : key)
| WDelRange (a b : key).

Definition apply_w (s : store) (w : wop) : store :=
  match w with
  | WPut k v => s_put s k v
  | WDel k => s_del s k
  | WDelRange a b => s_delrange s a b
  end.

Definition replay (ws : list wop) (s : store) : store := fold_left apply_w ws s.

(* ---------- iterators ---------- *)
(* Contract (Pebble through juno's wrapper): a fresh iterator treats Next/Prev as First. *)
Inductive cursor := Fresh | Before | At (i : nat) | After.

Record siter := { si_kvs : list (key * val); si_cur : cursor }.

(* visible keys of an iterator: Pebble LowerBound = prefix, UpperBound = UpperBound(prefix) when
   requested; a nil upper bound means "unbounded". *)
Definition spec_visible (prefix : key) (ub : bool) (k : key) : bool :=
  kle prefix k &&
  (if ub then match upper_bound prefix with Some u => klt k u | None => true end else true).

Definition spec_iter (s : store) (prefix : key) (ub : bool) : siter :=
  {| si_kvs := filter (fun kv => spec_visible prefix ub (fst kv)) s; si_cur := Fresh |}.

Fixpoint seek_idx (l : list (key * val)) (k : key) (i : nat) : option nat :=
  match l with
  | [] => None
  | (k', _) :: r => if kle k k' then Some i else seek_idx r k (S i)
  end.

Inductive imove := MFirst | MNext | MPrev | MSeek (k : key).

Definition first_cur (n : nat) : cursor := match n with O => After | S _ => At 0 end.

Definition spec_move (it : siter) (m : imove) : siter :=
  let n := length (si_kvs it) in
  let c :=
    match m, si_cur it with
    | MFirst, _ => first_cur n
    | MNext, Fresh => first_cur n
    | MPrev, Fresh => first_cur n
    | MNext, Before => first_cur n
    | MNext, At i => if Nat.ltb (S i) n then At (S i) else After
    | MNext, After => After
    | MPrev, Before => Before
    | MPrev, At O => Before
    | MPrev, At (S i) => At i
    | MPrev, After => match n with O => Before | S n' => At n' end
    | MSeek k, _ => match seek_idx (si_kvs it) k 0 with Some i => At i | None => After end
    end in
  {| si_kvs := si_kvs it; si_cur := c |}.

Definition spec_cur (it : siter) : option (key * val) :=
  match si_cur it with
  | At i => nth_error (si_kvs it) i
  | _ => None
  end.

(* ---------- observations ---------- *)
Inductive out :=
| OOk
| OErr                                   (* closed/unknown handle, or failing callback *)
| OBool (b : bool)
| OGet (v : option val)
| OIter (ret : bool) (cur : option (key * val))   (* bool returned by the move; Valid/Key/Value after it *)
| OSize (n : N)
| OHandle (h : nat).

(* ---------- operations of the interface ---------- *)
Inductive src := SDb | SBatch (h : nat) | SSnap (h : nat).

Inductive op :=
| Put (k : key) (v : val) | Del (k : key) | DelRange (a b : key)
| Get (k : key) | Has (k : key)
| NewBatch (indexed : bool)
| BW (h : nat) (w : wop)                 (* Put / Delete / DeleteRange on a batch *)
| BGet (h : nat) (k : key) | BHas (h : nat) (k : key)
| BSize (h : nat)
| BWrite (h : nat) | BClose (h : nat)
| NewSnap | SGet (h : nat) (k : key) | SHas (h : nat) (k : key) | SClose (h : nat)
| NewIter (s : src) (prefix : key) (ub : bool)
| IMove (h : nat) (m : imove) | IClose (h : nat)
| Helper (indexed : bool) (ws : list wop) (rd : option key) (fail : bool).
   (* db.Update / db.Write: callback performs ws, (Update only) reads rd, then returns an error iff fail *)

(* ================= the contract (spec) ================= *)
Record sbatch := { sb_indexed : bool; sb_ws : list wop; sb_size : N }.

Record sstate := {
  s_db : store;
  s_batches : list (option sbatch);
  s_snaps : list (option store);
  s_iters : list (option siter)
}.

Definition s_init : sstate := {| s_db := []; s_batches := []; s_snaps := []; s_iters := [] |}.

Definition lookup {A} (l : list (option A)) (h : nat) : option A :=
  match nth_error l h with Some (Some x) => Some x | _ => None end.

Fixpoint set_nth {A} (l : list A) (h : nat) (x : A) : list A :=
  match l, h with
  | [], _ => []
  | _ :: r, O => x :: r
  | y :: r, S h' => y :: set_nth r h' x
  end.

Definition klen (k : list byte) : N := N.of_nat (length k).

Definition w_size (w : wop) : N :=
  match w with
  | WPut k v => klen k + klen v
  | WDel k => klen k
  | WDelRange _ _ => 0
  end.

Definition with_batches (st : sstate) b := {| s_db := s_db st; s_batches := b; s_snaps := s_snaps st; s_iters := s_iters st |}.
Definition with_db (st : sstate) d := {| s_db := d; s_batches := s_batches st; s_snaps := s_snaps st; s_iters := s_iters st |}.
Definition with_snaps (st : sstate) x := {| s_db := s_db st; s_batches := s_batches st; s_snaps := x; s_iters := s_iters st |}.
Definition with_iters (st : sstate) x := {| s_db := s_db st; s_batches := s_batches st; s_snaps := s_snaps st; s_iters := x |}.

Definition src_store (st : sstate) (s : src) : option store :=
  match s with
  | SDb => Some (s_db st)
  | SBatch h => match lookup (s_batches st) h with
                | Some b => if sb_indexed b then Some (replay (sb_ws b) (s_db st)) else None
                | None => None
                end
  | SSnap h => lookup (s_snaps st) h
  end.

Definition spec_step (st : sstate) (o : op) : sstate * out :=
  match o with
  | Put k v => (with_db st (s_put (s_db st) k v), OOk)
  | Del k => (with_db st (s_del (s_db st) k), OOk)
  | DelRange a b => (with_db st (s_delrange (s_db st) a b), OOk)
  | Get k => (st, OGet (s_get (s_db st) k))
  | Has k => (st, OBool (match s_get (s_db st) k with Some _ => true | None => false end))
  | NewBatch ix =>
      (with_batches st (s_batches st ++ [Some {| sb_indexed := ix; sb_ws := []; sb_size := 0 |}]),
       OHandle (length (s_batches st)))
  | BW h w =>
      match lookup (s_batches st) h with
      | Some b => (with_batches st (set_nth (s_batches st) h
                     (Some {| sb_indexed := sb_indexed b; sb_ws := sb_ws b ++ [w]; sb_size := sb_size b + w_size w |})), OOk)
      | None => (st, OErr)
      end
  | BGet h k =>
      match src_store st (SBatch h) with
      | Some s => (st, OGet (s_get s k))
      | None => (st, OErr)
      end
  | BHas h k =>
      match src_store st (SBatch h) with
      | Some s => (st, OBool (match s_get s k with Some _ => true | None => false end))
      | None => (st, OErr)
      end
  | BSize h =>
      match lookup (s_batches st) h with
      | Some b => (st, OSize (sb_size b))
      | None => (st, OErr)
      end
  | BWrite h =>
      match lookup (s_batches st) h with
      | Some b => (with_batches (with_db st (replay (sb_ws b) (s_db st))) (set_nth (s_batches st) h None), OOk)
      | None => (st, OErr)
      end
  | BClose h =>
      match lookup (s_batches st) h with
      | Some b => (with_batches st (set_nth (s_batches st) h None), OOk)
      | None => (st, OErr)
      end
  | NewSnap => (with_snaps st (s_snaps st ++ [Some (s_db st)]), OHandle (length (s_snaps st)))
  | SGet h k =>
      match lookup (s_snaps st) h with
      | Some s => (st, OGet (s_get s k))
      | None => (st, OErr)
      end
  | SHas h k =>
      match lookup (s_snaps st) h with
      | Some s => (st, OBool (match s_get s k with Some _ => true | None => false end))
      | None => (st, OErr)
      end
  | SClose h =>
      match lookup (s_snaps st) h with
      | Some _ => (with_snaps st (set_nth (s_snaps st) h None), OOk)
      | None => (st, OErr)
      end
  | NewIter s p ub =>
      match src_store st s with
      | Some d => (with_iters st (s_iters st ++ [Some (spec_iter d p ub)]), OHandle (length (s_iters st)))
      | None => (st, OErr)
      end
  | IMove h m =>
      match lookup (s_iters st) h with
      | Some it =>
          let it' := spec_move it m in
          (with_iters st (set_nth (s_iters st) h (Some it')),
           OIter (match spec_cur it' with Some _ => true | None => false end) (spec_cur it'))
      | None => (st, OErr)
      end
  | IClose h =>
      match lookup (s_iters st) h with
      | Some _ => (with_iters st (set_nth (s_iters st) h None), OOk)
      | None => (st, OErr)
      end
  | Helper ix ws rd fail =>
      (* Update / Write: nothing is applied when the callback fails *)
      let view := replay ws (s_db st) in
      let o := if fail then OErr
               else match rd with
                    | Some k => if ix then OGet (s_get view k) else OOk
                    | None => OOk
                    end in
      (if fail then st else with_db st view, o)
  end.

Fixpoint run_spec (st : sstate) (ops : list op) : list out :=
  match ops with
  | [] => []
  | o :: r => let (st', x) := spec_step st o in x :: run_spec st' r
  end.

(* ================= db/memory, transcribed ================= *)
(* memory/batch.go keyValue *)
Record kvd := { kv_key : key; kv_val : val; kv_del : bool;
                kv_range : bool; kv_end : key }.      (* range delete of [kv_key, kv_end) *)

(* writeMap is a Go map key -> index of the latest point write; the model keeps the position together
   with (a copy of) the write it denotes — writes are immutable, so b.writes[idx] is that copy. *)
Definition wmap := list (key * (nat * kvd)).

Fixpoint wm_put (m : wmap) (k : key) (x : nat * kvd) : wmap :=
  match m with
  | [] => [(k, x)]
  | (k', x') :: r =>
      match kcmp k k' with
      | Lt => (k, x) :: m
      | Eq => (k, x) :: r
      | Gt => (k', x') :: wm_put r k x
      end
  end.

Fixpoint wm_get (m : wmap) (k : key) : option (nat * kvd) :=
  match m with
  | [] => None
  | (k', x) :: r => if keqb k k' then Some x else wm_get r k
  end.

(* mb_ranges: the recorded range deletes with their positions, NEWEST FIRST (the Go loop walks
   b.ranges from the back) *)
Record mbatch := { mb_writes : list kvd; mb_map : wmap; mb_ranges : list (nat * kvd); mb_size : N }.

(* batch.Write: replay the ordered write log *)
Definition m_apply (s : store) (w : kvd) : store :=
  if kv_range w then s_delrange s (kv_key w) (kv_end w)
  else if kv_del w then s_del s (kv_key w) else s_put s (kv_key w) (kv_val w).
Definition m_replay (ws : list kvd) (s : store) : store := fold_left m_apply ws s.

(* memory/iterator.go *)
Record miter := { mi_kvs : list (key * val); mi_cur : Z; mi_pos : bool (* positioned *) }.

Definition m_valid (it : miter) : bool :=
  (0 <=? mi_cur it)%Z && (mi_cur it <? Z.of_nat (length (mi_kvs it)))%Z.

(* Database.NewIterator (after the "fix: db/memory iterators use the same key range as Pebble" commit):
   k >= prefix && (upperBound == nil || k < upperBound) *)
Definition mem_visible (prefix : key) (ub : bool) (k : key) : bool :=
  kle prefix k &&
  (match (if ub then upper_bound prefix else None) with Some u => klt k u | None => true end).

Definition mem_iter (s : store) (prefix : key) (ub : bool) : miter :=
  {| mi_kvs := filter (fun kv => mem_visible prefix ub (fst kv)) s; mi_cur := (-1)%Z; mi_pos := false |}.

Definition m_set (it : miter) (c : Z) : miter := {| mi_kvs := mi_kvs it; mi_cur := c; mi_pos := mi_pos it |}.
Definition m_first (it : miter) : miter := {| mi_kvs := mi_kvs it; mi_cur := 0%Z; mi_pos := true |}.

(* returns the new iterator and the bool the Go method returns
   (after "fix: db/memory iterator positioning follows Pebble") *)
Definition mem_move (it : miter) (m : imove) : miter * bool :=
  match m with
  | MFirst => let it' := m_first it in (it', m_valid it')
  | MPrev =>
      if negb (mi_pos it) then let it' := m_first it in (it', m_valid it')
      else if (mi_cur it <=? 0)%Z then (m_set it (-1)%Z, false)
      else (m_set it (mi_cur it - 1)%Z, true)
  | MNext =>
      if negb (mi_pos it) then let it' := m_first it in (it', m_valid it')
      else let it' := (if (mi_cur it <? Z.of_nat (length (mi_kvs it)))%Z then m_set it (mi_cur it + 1)%Z else it) in
           (it', m_valid it')
  | MSeek k =>
      match seek_idx (mi_kvs it) k 0 with
      | Some j => ({| mi_kvs := mi_kvs it; mi_cur := Z.of_nat j; mi_pos := true |}, true)
      | None => ({| mi_kvs := mi_kvs it; mi_cur := Z.of_nat (length (mi_kvs it)); mi_pos := true |}, false)
      end
  end.

Definition mem_cur (it : miter) : option (key * val) :=
  if m_valid it then nth_error (mi_kvs it) (Z.to_nat (mi_cur it)) else None.

Record mstate := {
  m_db : store;
  m_batches : list (option mbatch);
  m_snaps : list (option store);
  m_iters : list (option miter)
}.

Definition m_init : mstate := {| m_db := []; m_batches := []; m_snaps := []; m_iters := [] |}.

Definition mwith_batches (st : mstate) b := {| m_db := m_db st; m_batches := b; m_snaps := m_snaps st; m_iters := m_iters st |}.
Definition mwith_db (st : mstate) d := {| m_db := d; m_batches := m_batches st; m_snaps := m_snaps st; m_iters := m_iters st |}.
Definition mwith_snaps (st : mstate) x := {| m_db := m_db st; m_batches := m_batches st; m_snaps := x; m_iters := m_iters st |}.
Definition mwith_iters (st : mstate) x := {| m_db := m_db st; m_batches := m_batches st; m_snaps := m_snaps st; m_iters := x |}.

(* batch.lookup: does the batch itself decide the key?  Some None = deleted, Some (Some v) = value *)
Fixpoint covered_later (rs : list (nat * kvd)) (idx : option nat) (k : key) : bool :=
  match rs with
  | [] => false
  | (r, w) :: rs' =>
      if (match idx with Some i => Nat.ltb r i | None => false end) then false      (* break *)
      else if in_range (kv_key w) (kv_end w) k then true
      else covered_later rs' idx k
  end.

Definition mb_lookup (b : mbatch) (k : key) : option (option val) :=
  let e := wm_get (mb_map b) k in
  if covered_later (mb_ranges b) (match e with Some (i, _) => Some i | None => None end) k then Some None
  else match e with
       | Some (_, w) => Some (if kv_del w then None else Some (kv_val w))
       | None => None
       end.

(* batch.Get / batch.Has: the batch's own writes first, then the database *)
Definition mb_get (b : mbatch) (d : store) (k : key) : option val :=
  match mb_lookup b k with
  | Some r => r
  | None => s_get d k
  end.

Definition mb_put (b : mbatch) (k : key) (v : val) : mbatch :=
  let x := {| kv_key := k; kv_val := v; kv_del := false; kv_range := false; kv_end := [] |} in
  {| mb_writes := mb_writes b ++ [x]; mb_map := wm_put (mb_map b) k (length (mb_writes b), x);
     mb_ranges := mb_ranges b; mb_size := mb_size b + klen k + klen v |}.

Definition mb_delete (b : mbatch) (k : key) : mbatch :=
  let x := {| kv_key := k; kv_val := []; kv_del := true; kv_range := false; kv_end := [] |} in
  {| mb_writes := mb_writes b ++ [x]; mb_map := wm_put (mb_map b) k (length (mb_writes b), x);
     mb_ranges := mb_ranges b; mb_size := mb_size b + klen k |}.

(* batch.DeleteRange (after "fix: db/memory batch records range deletes like Pebble"): one recorded
   range tombstone, no effect on the size *)
Definition mb_delrange (b : mbatch) (a e : key) : mbatch :=
  let x := {| kv_key := a; kv_val := []; kv_del := true; kv_range := true; kv_end := e |} in
  {| mb_writes := mb_writes b ++ [x]; mb_map := mb_map b;
     mb_ranges := (length (mb_writes b), x) :: mb_ranges b; mb_size := mb_size b |}.

Definition mb_apply (b : mbatch) (w : wop) : mbatch :=
  match w with
  | WPut k v => mb_put b k v
  | WDel k => mb_delete b k
  | WDelRange a e => mb_delrange b a e
  end.

Definition mb_empty : mbatch := {| mb_writes := []; mb_map := []; mb_ranges := []; mb_size := 0 |}.

Definition msrc_store (st : mstate) (s : src) : option store :=
  match s with
  | SDb => Some (m_db st)
  | SBatch h => match lookup (m_batches st) h with
                | Some b => Some (m_replay (mb_writes b) (m_db st))
                | None => None
                end
  | SSnap h => lookup (m_snaps st) h
  end.

(* Database.DeleteRange: k >= start && k < end *)
Definition mem_step (st : mstate) (o : op) : mstate * out :=
  match o with
  | Put k v => (mwith_db st (s_put (m_db st) k v), OOk)
  | Del k => (mwith_db st (s_del (m_db st) k), OOk)
  | DelRange a b => (mwith_db st (s_delrange (m_db st) a b), OOk)
  | Get k => (st, OGet (s_get (m_db st) k))
  | Has k => (st, OBool (match s_get (m_db st) k with Some _ => true | None => false end))
  | NewBatch _ => (mwith_batches st (m_batches st ++ [Some mb_empty]), OHandle (length (m_batches st)))
  | BW h w =>
      match lookup (m_batches st) h with
      | Some b => (mwith_batches st (set_nth (m_batches st) h (Some (mb_apply b w))), OOk)
      | None => (st, OErr)
      end
  | BGet h k =>
      match lookup (m_batches st) h with
      | Some b => (st, OGet (mb_get b (m_db st) k))
      | None => (st, OErr)
      end
  | BHas h k =>
      match lookup (m_batches st) h with
      | Some b => (st, OBool (match mb_get b (m_db st) k with Some _ => true | None => false end))
      | None => (st, OErr)
      end
  | BSize h =>
      match lookup (m_batches st) h with
      | Some b => (st, OSize (mb_size b))
      | None => (st, OErr)
      end
  | BWrite h =>
      match lookup (m_batches st) h with
      | Some b => (mwith_batches (mwith_db st (m_replay (mb_writes b) (m_db st))) (set_nth (m_batches st) h None), OOk)
      | None => (st, OErr)
      end
  | BClose h =>
      match lookup (m_batches st) h with
      | Some _ => (mwith_batches st (set_nth (m_batches st) h None), OOk)
      | None => (st, OErr)
      end
  | NewSnap => (mwith_snaps st (m_snaps st ++ [Some (m_db st)]), OHandle (length (m_snaps st)))
  | SGet h k =>
      match lookup (m_snaps st) h with
      | Some s => (st, OGet (s_get s k))
      | None => (st, OErr)
      end
  | SHas h k =>
      match lookup (m_snaps st) h with
      | Some s => (st, OBool (match s_get s k with Some _ => true | None => false end))
      | None => (st, OErr)
      end
  | SClose h =>
      match lookup (m_snaps st) h with
      | Some _ => (mwith_snaps st (set_nth (m_snaps st) h None), OOk)
      | None => (st, OErr)
      end
  | NewIter s p ub =>
      match msrc_store st s with
      | Some d => (mwith_iters st (m_iters st ++ [Some (mem_iter d p ub)]), OHandle (length (m_iters st)))
      | None => (st, OErr)
      end
  | IMove h m =>
      match lookup (m_iters st) h with
      | Some it =>
          let (it', r) := mem_move it m in
          (mwith_iters st (set_nth (m_iters st) h (Some it')), OIter r (mem_cur it'))
      | None => (st, OErr)
      end
  | IClose h =>
      match lookup (m_iters st) h with
      | Some _ => (mwith_iters st (set_nth (m_iters st) h None), OOk)
      | None => (st, OErr)
      end
  | Helper ix ws rd fail =>
      let b := fold_left mb_apply ws mb_empty in
      let o := if fail then OErr
               else match rd with
                    | Some k => if ix then OGet (mb_get b (m_db st) k) else OOk
                    | None => OOk
                    end in
      (if fail then st else mwith_db st (m_replay (mb_writes b) (m_db st)), o)
  end.

Fixpoint run_mem (st : mstate) (ops : list op) : list out :=
  match ops with
  | [] => []
  | o :: r => let (st', x) := mem_step st o in x :: run_mem st' r
  end.

(* ================= the strict contract ================= *)
(* Operation sequences on which db/memory is proved to coincide with the contract. Each clause
   that fails names one of the divergence shapes that the differential reports as a finding. *)
Inductive shape :=
| ShNonIndexedRead  (* read through a batch that was not created as an indexed batch *)
| ShBadHandle.      (* use of a closed or unknown handle *)

Definition wop_is_range (w : wop) : bool := match w with WDelRange _ _ => true | _ => false end.

Definition strict_step (st : sstate) (o : op) : option shape :=
  match o with
  | BW h w => match lookup (s_batches st) h with
              | None => Some ShBadHandle
              | Some _ => None
              end
  | BGet h _ | BHas h _ =>
      match lookup (s_batches st) h with
      | None => Some ShBadHandle
      | Some b => if sb_indexed b then None else Some ShNonIndexedRead
      end
  | BSize h | BWrite h | BClose h =>
      match lookup (s_batches st) h with None => Some ShBadHandle | Some _ => None end
  | SGet h _ | SHas h _ | SClose h =>
      match lookup (s_snaps st) h with None => Some ShBadHandle | Some _ => None end
  | NewIter s p ub =>
      match src_store st s with
      | None => match s with
                | SBatch h => match lookup (s_batches st) h with Some _ => Some ShNonIndexedRead | None => Some ShBadHandle end
                | _ => Some ShBadHandle
                end
      | Some _ => None
      end
  | IMove h m =>
      match lookup (s_iters st) h with
      | None => Some ShBadHandle
      | Some _ => None
      end
  | IClose h => match lookup (s_iters st) h with None => Some ShBadHandle | Some _ => None end
  | _ => None
  end.

Fixpoint first_shape (st : sstate) (ops : list op) : option shape :=
  match ops with
  | [] => None
  | o :: r => match strict_step st o with
              | Some sh => Some sh
              | None => first_shape (fst (spec_step st o)) r
              end
  end.

Definition in_contract_strict (ops : list op) : bool :=
  match first_shape s_init ops with None => true | Some _ => false end.

(* every excluded shape met along a run (for classifying divergences) *)
Fixpoint all_shapes (st : sstate) (ops : list op) : list shape :=
  match ops with
  | [] => []
  | o :: r => (match strict_step st o with Some sh => [sh] | None => [] end)
              ++ all_shapes (fst (spec_step st o)) r
  end.
