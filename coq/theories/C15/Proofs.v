(* C15 — lemmas. Property theorems are restated in Props.v. *)
From Coq Require Import List NArith ZArith Bool Lia Sorted Ascii.
From V Require Import C15.Model.
Import ListNotations.
Open Scope N_scope.

(* ---------- key order ---------- *)
Lemma bn_inj x y : bn x = bn y -> x = y.
Proof. unfold bn. intros H. rewrite <- (ascii_N_embedding x), <- (ascii_N_embedding y), H. reflexivity. Qed.

Lemma bn_bound x : bn x < 256.
Proof. apply N_ascii_bounded. Qed.

Lemma bn_succ x : bn x <> 255 -> bn (ascii_of_N (bn x + 1)) = bn x + 1.
Proof. intros H. unfold bn. apply N_ascii_embedding. pose proof (bn_bound x). unfold bn in *. lia. Qed.

Lemma kcmp_refl a : kcmp a a = Eq.
Proof. induction a as [|x a IH]; cbn; [reflexivity|]. rewrite N.compare_refl. exact IH. Qed.

Lemma kcmp_eq a : forall b, kcmp a b = Eq -> a = b.
Proof.
  induction a as [|x a IH]; intros [|y b] H; cbn in H; try discriminate; [reflexivity|].
  destruct (N.compare (bn x) (bn y)) eqn:E; try discriminate.
  apply N.compare_eq in E. apply bn_inj in E. subst. f_equal. apply IH. exact H.
Qed.

Lemma kcmp_antisym a : forall b, kcmp b a = CompOpp (kcmp a b).
Proof.
  induction a as [|x a IH]; intros [|y b]; cbn; try reflexivity.
  rewrite (N.compare_antisym (bn x) (bn y)). destruct (N.compare (bn x) (bn y)); cbn; auto.
Qed.

Lemma kcmp_lt_trans a : forall b c, kcmp a b = Lt -> kcmp b c = Lt -> kcmp a c = Lt.
Proof.
  induction a as [|x a IH]; intros [|y b] [|z c] H1 H2; cbn in *; try discriminate; try reflexivity.
  destruct (N.compare (bn x) (bn y)) eqn:E1; try discriminate;
  destruct (N.compare (bn y) (bn z)) eqn:E2; try discriminate.
  - apply N.compare_eq in E1, E2. rewrite E1, E2, N.compare_refl. eapply IH; eauto.
  - apply N.compare_eq in E1. rewrite E1, E2. reflexivity.
  - apply N.compare_eq in E2. rewrite <- E2, E1. reflexivity.
  - rewrite N.compare_lt_iff in *. assert (bn x < bn z) by lia.
    rewrite (proj2 (N.compare_lt_iff (bn x) (bn z))); auto.
Qed.

Lemma klt_trans a b c : klt a b = true -> klt b c = true -> klt a c = true.
Proof.
  unfold klt. destruct (kcmp a b) eqn:E1; try discriminate.
  destruct (kcmp b c) eqn:E2; try discriminate. intros _ _.
  rewrite (kcmp_lt_trans _ _ _ E1 E2). reflexivity.
Qed.

Lemma keqb_eq a b : keqb a b = true <-> a = b.
Proof.
  unfold keqb. split.
  - destruct (kcmp a b) eqn:E; try discriminate. intros _. apply kcmp_eq; auto.
  - intros ->. rewrite kcmp_refl. reflexivity.
Qed.

Lemma keqb_refl a : keqb a a = true.
Proof. apply keqb_eq. reflexivity. Qed.

Lemma klt_irrefl a : klt a a = false.
Proof. unfold klt. rewrite kcmp_refl. reflexivity. Qed.

Lemma kle_klt_false a b : kle a b = negb (klt b a).
Proof. unfold kle, klt. rewrite (kcmp_antisym a b). destruct (kcmp a b); reflexivity. Qed.

(* ---------- UpperBound ---------- *)
Lemma has_prefix_app p : forall k, has_prefix p k = true <-> exists r, k = p ++ r.
Proof.
  induction p as [|x p IH]; intros k; cbn.
  - split; [intros _; exists k; reflexivity | auto].
  - destruct k as [|y k]; [split; [discriminate | intros [r Hr]; discriminate]|].
    rewrite andb_true_iff, N.eqb_eq, IH. split.
    + intros [E [r ->]]. apply bn_inj in E. subst. exists r. reflexivity.
    + intros [r Hr]. injection Hr as -> ->. split; eauto.
Qed.

(* when there is no upper bound (all-0xff or empty prefix) "p <= k" alone is the prefix test *)
Lemma upper_bound_none_prefix p : forall k,
  upper_bound p = None -> has_prefix p k = kle p k.
Proof.
  induction p as [|z p IHp]; intros k E; cbn; [destruct k; reflexivity|].
  cbn in E. destruct (upper_bound p) eqn:E'; [discriminate|].
  destruct (N.eqb_spec (bn z) 255) as [Hz|]; [|discriminate].
  destruct k as [|w k]; [reflexivity|]. pose proof (bn_bound w) as Hw.
  unfold kle. cbn [kcmp has_prefix]. rewrite Hz.
  destruct (N.compare 255 (bn w)) eqn:C.
  - apply N.compare_eq in C. rewrite <- C. cbn. rewrite (IHp k eq_refl). reflexivity.
  - rewrite N.compare_lt_iff in C. lia.
  - rewrite N.compare_gt_iff in C. destruct (N.eqb_spec 255 (bn w)); [lia|]. reflexivity.
Qed.

(* the exclusive end of a prefix scan: [p] is a prefix of [k] exactly when p <= k < UpperBound(p) *)
Lemma upper_bound_some p : forall u k,
  upper_bound p = Some u -> has_prefix p k = kle p k && klt k u.
Proof.
  induction p as [|x p IH]; intros u k H; cbn in H; [discriminate|].
  destruct (upper_bound p) as [u'|] eqn:E.
  - injection H as <-. destruct k as [|y k]; [reflexivity|].
    cbn [has_prefix]. unfold kle, klt. cbn [kcmp].
    destruct (N.compare (bn x) (bn y)) eqn:C.
    + apply N.compare_eq in C. rewrite C, N.eqb_refl, N.compare_refl. cbn.
      rewrite (IH u' k eq_refl). reflexivity.
    + rewrite (N.compare_antisym (bn x) (bn y)), C. cbn.
      rewrite N.compare_lt_iff in C. destruct (N.eqb_spec (bn x) (bn y)); [lia|]. reflexivity.
    + rewrite N.compare_gt_iff in C. destruct (N.eqb_spec (bn x) (bn y)); [lia|]. reflexivity.
  - destruct (N.eqb_spec (bn x) 255) as [|Hx]; [discriminate|]. injection H as <-.
    destruct k as [|y k]; [reflexivity|].
    cbn [has_prefix]. unfold kle, klt. cbn [kcmp]. rewrite (bn_succ x Hx).
    destruct (N.compare (bn x) (bn y)) eqn:C.
    + apply N.compare_eq in C. rewrite C, N.eqb_refl. cbn [andb].
      assert (Hc : N.compare (bn y) (bn y + 1) = Lt) by (apply N.compare_lt_iff; lia).
      rewrite <- C at 2. rewrite C, Hc.
      rewrite (upper_bound_none_prefix p k E). unfold kle. destruct (kcmp p k); reflexivity.
    + rewrite N.compare_lt_iff in C. destruct (N.eqb_spec (bn x) (bn y)); [lia|]. cbn.
      destruct (N.compare (bn y) (bn x + 1)) eqn:C2; try reflexivity.
      * destruct k; reflexivity.
      * rewrite N.compare_lt_iff in C2. lia.
    + rewrite N.compare_gt_iff in C. destruct (N.eqb_spec (bn x) (bn y)); [lia|]. reflexivity.
Qed.

Lemma upper_bound_none p : upper_bound p = None <-> Forall (fun b => bn b = 255) p.
Proof.
  induction p as [|x p IH]; cbn; [split; auto|].
  destruct (upper_bound p) eqn:E.
  - split; [discriminate|]. intros H. inversion H as [|? ? ? H3]; subst. apply IH in H3. discriminate.
  - destruct (N.eqb_spec (bn x) 255) as [Hx|Hx].
    + split; auto. intros _. constructor; auto. apply IH. reflexivity.
    + split; [discriminate|]. intros H. inversion H; subst. contradiction.
Qed.

(* ---------- sorted stores ---------- *)
Definition sorted (s : store) : Prop :=
  StronglySorted (fun x y => klt (fst x) (fst y) = true) s.

Lemma sorted_nil : sorted []. Proof. constructor. Qed.

Lemma s_put_forall (P : key -> Prop) s k v :
  Forall (fun x => P (fst x)) s -> P k -> Forall (fun x => P (fst x)) (s_put s k v).
Proof.
  induction s as [|[k' v'] s IH]; intros H Hk; cbn.
  - constructor; auto.
  - inversion H; subst. destruct (kcmp k k'); constructor; auto.
Qed.

Lemma s_put_sorted s k v : sorted s -> sorted (s_put s k v).
Proof.
  unfold sorted. induction s as [|[k' v'] s IH]; intros H; cbn.
  - constructor; constructor.
  - inversion H as [|? ? Hs Hall]; subst. destruct (kcmp k k') eqn:E.
    + apply kcmp_eq in E. subst. constructor; auto.
    + constructor; auto. constructor.
      * cbn. unfold klt. rewrite E. reflexivity.
      * eapply Forall_impl; [|exact Hall]. intros [a b] Ha. cbn in *.
        eapply klt_trans; [|exact Ha]. unfold klt. rewrite E. reflexivity.
    + constructor; auto.
      apply (s_put_forall (fun a => klt k' a = true)); auto.
      unfold klt. rewrite (kcmp_antisym k k'), E. reflexivity.
Qed.

Lemma s_del_forall (P : key -> Prop) s k :
  Forall (fun x => P (fst x)) s -> Forall (fun x => P (fst x)) (s_del s k).
Proof.
  induction s as [|[k' v'] s IH]; intros H; cbn; auto.
  inversion H; subst. destruct (kcmp k k'); auto.
Qed.

Lemma s_del_sorted s k : sorted s -> sorted (s_del s k).
Proof.
  unfold sorted. induction s as [|[k' v'] s IH]; intros H; cbn; auto.
  inversion H as [|? ? Hs Hall]; subst. destruct (kcmp k k'); auto.
  constructor; auto. apply (s_del_forall (fun a => klt k' a = true)); auto.
Qed.

Lemma filter_sorted f s : sorted s -> sorted (filter f s).
Proof.
  unfold sorted. induction s as [|x s IH]; intros H; cbn; auto.
  inversion H as [|? ? Hs Hall]; subst. destruct (f x); auto.
  constructor; auto. apply Forall_forall. intros y Hy. apply filter_In in Hy.
  rewrite Forall_forall in Hall. apply Hall. tauto.
Qed.

Lemma apply_w_sorted s w : sorted s -> sorted (apply_w s w).
Proof.
  destruct w; cbn; auto using s_put_sorted, s_del_sorted. apply filter_sorted.
Qed.

Lemma replay_sorted ws : forall s, sorted s -> sorted (replay ws s).
Proof.
  unfold replay. induction ws as [|w ws IH]; intros s H; cbn; auto using apply_w_sorted.
Qed.

Lemma s_get_none_gt s k :
  Forall (fun x => klt k (fst x) = true) s -> s_get s k = None.
Proof.
  induction s as [|[k' v'] s IH]; intros H; cbn; auto. inversion H; subst. cbn in *.
  destruct (keqb k k') eqn:E.
  - apply keqb_eq in E. subst. rewrite klt_irrefl in H2. discriminate.
  - auto.
Qed.

Lemma s_get_put s k v k' : s_get (s_put s k v) k' = if keqb k' k then Some v else s_get s k'.
Proof.
  induction s as [|[a b] s IH]; cbn.
  - reflexivity.
  - destruct (kcmp k a) eqn:E; cbn.
    + apply kcmp_eq in E. subst. destruct (keqb k' a); reflexivity.
    + reflexivity.
    + rewrite IH. destruct (keqb k' a) eqn:E1; auto.
      apply keqb_eq in E1. subst. destruct (keqb a k) eqn:E2; auto.
      apply keqb_eq in E2. subst. rewrite kcmp_refl in E. discriminate.
Qed.

Lemma s_get_del s k k' : sorted s -> s_get (s_del s k) k' = if keqb k' k then None else s_get s k'.
Proof.
  unfold sorted. induction s as [|[a b] s IH]; intros H; cbn.
  - destruct (keqb k' k); reflexivity.
  - inversion H as [|? ? Hs Hall]; subst. destruct (kcmp k a) eqn:E; cbn.
    + apply kcmp_eq in E. subst. destruct (keqb k' a) eqn:E1; auto.
      apply keqb_eq in E1. subst. apply s_get_none_gt. exact Hall.
    + destruct (keqb k' k) eqn:E1; auto. apply keqb_eq in E1. subst.
      destruct (keqb k a) eqn:E2.
      * apply keqb_eq in E2. subst. rewrite kcmp_refl in E. discriminate.
      * apply s_get_none_gt. eapply Forall_impl; [|exact Hall]. intros [c d] Hc. cbn in *.
        eapply klt_trans; [|exact Hc]. unfold klt. rewrite E. reflexivity.
    + rewrite IH; auto. destruct (keqb k' a) eqn:E1; auto.
      apply keqb_eq in E1. subst. destruct (keqb a k) eqn:E2; auto.
      apply keqb_eq in E2. subst. rewrite kcmp_refl in E. discriminate.
Qed.

Lemma s_get_filter f s k : sorted s ->
  s_get (filter (fun kv => f (fst kv)) s) k = if f k then s_get s k else None.
Proof.
  unfold sorted. induction s as [|[a b] s IH]; intros H; cbn.
  - destruct (f k); reflexivity.
  - inversion H as [|? ? Hs Hall]; subst. destruct (f a) eqn:Fa; cbn.
    + destruct (keqb k a) eqn:E.
      * apply keqb_eq in E. subst. rewrite Fa. reflexivity.
      * apply IH; auto.
    + rewrite IH; auto. destruct (keqb k a) eqn:E; auto.
      apply keqb_eq in E. subst. rewrite Fa. destruct (f a); auto; discriminate.
Qed.

(* ---------- spec-level facts of the contract ---------- *)
(* later operations win; reads through an indexed batch see its own writes *)
Lemma spec_later_wins ws s k v : sorted s ->
  s_get (replay (ws ++ [WPut k v]) s) k = Some v.
Proof.
  intros H. unfold replay. rewrite fold_left_app. cbn. rewrite s_get_put, keqb_refl. reflexivity.
Qed.

Lemma spec_delete_wins ws s k : sorted s ->
  s_get (replay (ws ++ [WDel k]) s) k = None.
Proof.
  intros H. unfold replay. rewrite fold_left_app. cbn.
  rewrite s_get_del by (apply replay_sorted; auto). rewrite keqb_refl. reflexivity.
Qed.

Lemma spec_range_wins ws s a b k : sorted s -> in_range a b k = true ->
  s_get (replay (ws ++ [WDelRange a b]) s) k = None.
Proof.
  intros H Hr. unfold replay. rewrite fold_left_app. cbn. unfold s_delrange.
  rewrite (s_get_filter (fun k => negb (in_range a b k))) by (apply replay_sorted; auto).
  rewrite Hr. reflexivity.
Qed.

Lemma spec_untouched ws s w k : sorted s ->
  (match w with WPut k' _ | WDel k' => k' <> k | WDelRange a b => in_range a b k = false end) ->
  s_get (replay (ws ++ [w]) s) k = s_get (replay ws s) k.
Proof.
  intros H Hw. unfold replay. rewrite fold_left_app. cbn.
  pose proof (replay_sorted ws s H) as Hs. unfold replay in Hs.
  destruct w; cbn.
  - rewrite s_get_put. destruct (keqb k k0) eqn:E; auto. apply keqb_eq in E. congruence.
  - rewrite s_get_del by auto. destruct (keqb k k0) eqn:E; auto. apply keqb_eq in E. congruence.
  - unfold s_delrange. rewrite (s_get_filter (fun k => negb (in_range a b k))) by auto.
    rewrite Hw. reflexivity.
Qed.

(* ---------- memory batch: point-write index + range list = last-wins view of the write log ---------- *)
Definition conv (w : wop) : kvd :=
  match w with
  | WPut k v => {| kv_key := k; kv_val := v; kv_del := false; kv_range := false; kv_end := [] |}
  | WDel k => {| kv_key := k; kv_val := []; kv_del := true; kv_range := false; kv_end := [] |}
  | WDelRange a e => {| kv_key := a; kv_val := []; kv_del := true; kv_range := true; kv_end := e |}
  end.

Lemma m_replay_conv ws : forall d, m_replay (map conv ws) d = replay ws d.
Proof.
  unfold m_replay, replay. induction ws as [|w ws IH]; intros d; cbn; auto.
  rewrite IH. f_equal. destruct w; reflexivity.
Qed.

Lemma wm_get_put m k x k' : wm_get (wm_put m k x) k' = if keqb k' k then Some x else wm_get m k'.
Proof.
  induction m as [|[a b] m IH]; cbn.
  - reflexivity.
  - destruct (kcmp k a) eqn:E; cbn.
    + apply kcmp_eq in E. subst. destruct (keqb k' a); reflexivity.
    + reflexivity.
    + rewrite IH. destruct (keqb k' a) eqn:E1; auto.
      apply keqb_eq in E1. subst. destruct (keqb a k) eqn:E2; auto.
      apply keqb_eq in E2. subst. rewrite kcmp_refl in E. discriminate.
Qed.

Lemma m_replay_sorted ws : forall d, sorted d -> sorted (m_replay ws d).
Proof.
  unfold m_replay. induction ws as [|w ws IH]; intros d H; cbn; auto.
  apply IH. unfold m_apply. destruct (kv_range w); [apply filter_sorted; auto|].
  destruct (kv_del w); auto using s_put_sorted, s_del_sorted.
Qed.

(* what the write log says about a key: the verdict of the last write that affects it *)
Definition affects (w : kvd) (k : key) : bool :=
  if kv_range w then in_range (kv_key w) (kv_end w) k else keqb k (kv_key w).
Definition verdict (w : kvd) : option val :=
  if kv_range w then None else if kv_del w then None else Some (kv_val w).
Fixpoint last_aff (rws : list kvd) (k : key) : option (option val) :=   (* rws: newest first *)
  match rws with
  | [] => None
  | w :: r => if affects w k then Some (verdict w) else last_aff r k
  end.

Lemma replay_get ws : forall d k, sorted d ->
  s_get (m_replay ws d) k = match last_aff (rev ws) k with Some r => r | None => s_get d k end.
Proof.
  induction ws as [|w ws IH] using rev_ind; intros d k Hd; [reflexivity|].
  unfold m_replay. rewrite fold_left_app, rev_app_distr. cbn [fold_left rev app last_aff].
  fold (m_replay ws d). pose proof (m_replay_sorted ws d Hd) as Hs.
  unfold m_apply, affects, verdict. destruct (kv_range w).
  - unfold s_delrange. rewrite (s_get_filter (fun x => negb (in_range (kv_key w) (kv_end w) x))) by exact Hs.
    destruct (in_range (kv_key w) (kv_end w) k); cbn; [reflexivity|]. apply IH. exact Hd.
  - destruct (kv_del w).
    + rewrite s_get_del by exact Hs. destruct (keqb k (kv_key w)); [reflexivity|]. apply IH. exact Hd.
    + rewrite s_get_put. destruct (keqb k (kv_key w)); [reflexivity|]. apply IH. exact Hd.
Qed.

(* the index structures of the batch agree with the log *)
Definition binv (b : mbatch) : Prop :=
  (forall k, mb_lookup b k = last_aff (rev (mb_writes b)) k) /\
  (forall k i w, wm_get (mb_map b) k = Some (i, w) -> (i < length (mb_writes b))%nat) /\
  Forall (fun rw => (fst rw < length (mb_writes b))%nat) (mb_ranges b).

Lemma binv_empty : binv mb_empty.
Proof. repeat split; cbn; auto. intros k i w H. discriminate. Qed.

Lemma covered_later_all_older rs n k :
  Forall (fun rw : nat * kvd => (fst rw < n)%nat) rs -> covered_later rs (Some n) k = false.
Proof.
  intros H. destruct rs as [|[r w] rs]; [reflexivity|]. cbn [covered_later]. inversion H as [|? ? Hr Hrs]; subst.
  cbn [fst] in Hr. destruct (Nat.ltb_spec r n); [reflexivity|lia].
Qed.

Lemma binv_point b k0 (x : kvd) :
  binv b -> kv_range x = false -> kv_key x = k0 ->
  binv {| mb_writes := mb_writes b ++ [x]; mb_map := wm_put (mb_map b) k0 (length (mb_writes b), x);
          mb_ranges := mb_ranges b; mb_size := mb_size b |}.
Proof.
  intros (Hl & Hm & Hr) Hx Hk. repeat split; cbn [mb_writes mb_map mb_ranges].
  - intros k. unfold mb_lookup. cbn [mb_map mb_ranges]. rewrite wm_get_put, rev_app_distr.
    cbn [rev app last_aff]. unfold affects. rewrite Hx, Hk.
    destruct (keqb k k0) eqn:E.
    + rewrite (covered_later_all_older _ _ _ Hr). unfold verdict. rewrite Hx. reflexivity.
    + specialize (Hl k). unfold mb_lookup in Hl. exact Hl.
  - intros k i w H. rewrite wm_get_put in H. rewrite app_length. cbn.
    destruct (keqb k k0); [injection H as <- _; lia | apply Hm in H; lia].
  - rewrite app_length. cbn. eapply Forall_impl; [|exact Hr]. intros a Ha. cbn in *. lia.
Qed.

Lemma binv_size b n : binv b ->
  binv {| mb_writes := mb_writes b; mb_map := mb_map b; mb_ranges := mb_ranges b; mb_size := n |}.
Proof. intros H. exact H. Qed.

Lemma binv_put b k v : binv b -> binv (mb_put b k v).
Proof. intros H. unfold mb_put. apply (binv_point b k _ H); reflexivity. Qed.

Lemma binv_delete b k : binv b -> binv (mb_delete b k).
Proof. intros H. unfold mb_delete. apply (binv_point b k _ H); reflexivity. Qed.

Lemma binv_delrange b a e : binv b -> binv (mb_delrange b a e).
Proof.
  intros (Hl & Hm & Hr). unfold mb_delrange. repeat split; cbn [mb_writes mb_map mb_ranges].
  - intros k. unfold mb_lookup. cbn [mb_map mb_ranges covered_later]. rewrite rev_app_distr.
    cbn [rev app last_aff]. unfold affects, verdict. cbn [kv_range kv_key kv_end].
    assert (Hidx : (match match wm_get (mb_map b) k with Some (i, _) => Some i | None => None end with
                    | Some i => Nat.ltb (length (mb_writes b)) i | None => false end) = false).
    { destruct (wm_get (mb_map b) k) as [[i w]|] eqn:E; [|reflexivity].
      apply Hm in E. destruct (Nat.ltb_spec (length (mb_writes b)) i); [lia|reflexivity]. }
    rewrite Hidx. destruct (in_range a e k); [reflexivity|].
    specialize (Hl k). unfold mb_lookup in Hl. exact Hl.
  - intros k i w H. rewrite app_length. cbn. apply Hm in H. lia.
  - rewrite app_length. cbn. constructor; [cbn; lia|].
    eapply Forall_impl; [|exact Hr]. intros x Hx. cbn in *. lia.
Qed.

Lemma binv_apply b w : binv b -> binv (mb_apply b w).
Proof. destruct w; cbn; auto using binv_put, binv_delete, binv_delrange. Qed.

Lemma mb_apply_writes b w : mb_writes (mb_apply b w) = mb_writes b ++ [conv w].
Proof. destruct w; reflexivity. Qed.

Lemma mb_apply_size b w : mb_size (mb_apply b w) = mb_size b + w_size w.
Proof. destruct w; cbn; lia. Qed.

(* reading through the batch = reading the overlay the batch would commit *)
Lemma binv_get b d k : binv b -> sorted d -> mb_get b d k = s_get (m_replay (mb_writes b) d) k.
Proof.
  intros (Hl & _ & _) Hd. unfold mb_get. rewrite Hl, (replay_get _ d k Hd). reflexivity.
Qed.

(* ---------- the simulation ---------- *)
Definition Rb (sb : sbatch) (mb : mbatch) : Prop :=
  mb_writes mb = map conv (sb_ws sb) /\ binv mb /\ sb_size sb = mb_size mb.

Definition cur_rel (n : nat) (c : cursor) (z : Z) (pos : bool) : Prop :=
  match c with
  | Fresh => z = (-1)%Z /\ pos = false
  | Before => z = (-1)%Z /\ pos = true
  | At i => (i < n)%nat /\ z = Z.of_nat i /\ pos = true
  | After => z = Z.of_nat n /\ pos = true
  end.

Definition Ri (si : siter) (mi : miter) : Prop :=
  si_kvs si = mi_kvs mi /\ cur_rel (length (si_kvs si)) (si_cur si) (mi_cur mi) (mi_pos mi).

Definition orel {A B} (R : A -> B -> Prop) (x : option A) (y : option B) : Prop :=
  match x, y with
  | Some a, Some b => R a b
  | None, None => True
  | _, _ => False
  end.

Record R (st : sstate) (mt : mstate) : Prop := {
  R_db : s_db st = m_db mt;
  R_sorted : sorted (s_db st);
  R_snaps : s_snaps st = m_snaps mt;
  R_batches : Forall2 (orel Rb) (s_batches st) (m_batches mt);
  R_iters : Forall2 (orel Ri) (s_iters st) (m_iters mt)
}.

Lemma Forall2_lookup {A B} (Rel : A -> B -> Prop) l1 l2 h :
  Forall2 (orel Rel) l1 l2 ->
  match lookup l1 h, lookup l2 h with
  | Some a, Some b => Rel a b
  | None, None => True
  | _, _ => False
  end.
Proof.
  intros H. revert h. induction H as [|x y l1 l2 Hxy H IH]; intros h.
  - unfold lookup. destruct h; cbn; auto.
  - destruct h; cbn.
    + unfold lookup; cbn. destruct x, y; cbn in *; auto.
    + apply IH.
Qed.

Lemma Forall2_set_nth {A B} (Rel : A -> B -> Prop) l1 l2 h x y :
  Forall2 Rel l1 l2 -> Rel x y -> Forall2 Rel (set_nth l1 h x) (set_nth l2 h y).
Proof.
  intros H Hxy. revert h. induction H; intros h; cbn; [constructor|].
  destruct h; constructor; auto.
Qed.

Lemma Forall2_snoc {A B} (Rel : A -> B -> Prop) l1 l2 x y :
  Forall2 Rel l1 l2 -> Rel x y -> Forall2 Rel (l1 ++ [x]) (l2 ++ [y]).
Proof. intros H Hxy. apply Forall2_app; auto. Qed.

Lemma Forall2_length' {A B} (Rel : A -> B -> Prop) l1 l2 : Forall2 Rel l1 l2 -> length l1 = length l2.
Proof. induction 1; cbn; auto. Qed.

(* iterators created inside the strict contract see the same keys *)
Lemma visible_same (p : key) (ub : bool) (k : key) : spec_visible p ub k = mem_visible p ub k.
Proof. unfold spec_visible, mem_visible. destruct ub; reflexivity. Qed.

Lemma filter_ext_store (f g : key -> bool) (s : store) :
  (forall k, f k = g k) ->
  filter (fun kv => f (fst kv)) s = filter (fun kv => g (fst kv)) s.
Proof.
  intros H. induction s as [|[k v] s IH]; cbn; auto.
  rewrite (H k), IH. reflexivity.
Qed.

Lemma seek_idx_bound l k : forall i j, seek_idx l k i = Some j -> (i <= j < i + length l)%nat.
Proof.
  induction l as [|[a b] l IH]; intros i j H; cbn in *; [discriminate|].
  destruct (kle k a).
  - injection H as <-. lia.
  - apply IH in H. lia.
Qed.

Lemma mem_at kvs z pos i x : z = Z.of_nat i -> nth_error kvs i = Some x ->
  m_valid {| mi_kvs := kvs; mi_cur := z; mi_pos := pos |} = true /\
  mem_cur {| mi_kvs := kvs; mi_cur := z; mi_pos := pos |} = Some x.
Proof.
  intros -> Hx. assert (Hi : (i < length kvs)%nat) by (apply nth_error_Some; congruence).
  assert (Hv : m_valid {| mi_kvs := kvs; mi_cur := Z.of_nat i; mi_pos := pos |} = true).
  { unfold m_valid. cbn [mi_cur mi_kvs]. apply andb_true_iff. split; [apply Z.leb_le|apply Z.ltb_lt]; lia. }
  split; [exact Hv|]. unfold mem_cur. rewrite Hv. cbn [mi_cur mi_kvs]. rewrite Nat2Z.id. exact Hx.
Qed.

Lemma mem_out kvs z pos : (z < 0 \/ Z.of_nat (length kvs) <= z)%Z ->
  m_valid {| mi_kvs := kvs; mi_cur := z; mi_pos := pos |} = false /\
  mem_cur {| mi_kvs := kvs; mi_cur := z; mi_pos := pos |} = None.
Proof.
  intros H. assert (Hv : m_valid {| mi_kvs := kvs; mi_cur := z; mi_pos := pos |} = false).
  { unfold m_valid. cbn [mi_cur mi_kvs]. apply andb_false_iff.
    destruct H; [left; apply Z.leb_gt|right; apply Z.ltb_ge]; lia. }
  split; [exact Hv|]. unfold mem_cur. rewrite Hv. reflexivity.
Qed.

Lemma nth_lt {A} (l : list A) i : (i < length l)%nat -> exists x, nth_error l i = Some x.
Proof. intros H. destruct (nth_error l i) eqn:E; eauto. apply nth_error_None in E. lia. Qed.

Lemma first_sim kvs :
  let si' := {| si_kvs := kvs; si_cur := first_cur (length kvs) |} in
  let mi' := {| mi_kvs := kvs; mi_cur := 0; mi_pos := true |} in
  Ri si' mi' /\ m_valid mi' = (match spec_cur si' with Some _ => true | None => false end) /\
  mem_cur mi' = spec_cur si'.
Proof.
  cbv zeta. unfold Ri, spec_cur. cbn [si_kvs si_cur mi_kvs mi_cur mi_pos].
  destruct kvs as [|x kvs].
  - cbn [length first_cur cur_rel]. destruct (mem_out [] 0%Z true) as [-> ->]; [cbn; lia|]. auto.
  - cbn [length first_cur cur_rel]. destruct (mem_at (x :: kvs) 0%Z true 0%nat x) as [-> ->]; auto.
    cbn. repeat split; auto. lia.
Qed.

(* every positioning sequence: no exclusion any more *)
Lemma move_sim si mi m :
  Ri si mi ->
  let si' := spec_move si m in
  Ri si' (fst (mem_move mi m)) /\
  snd (mem_move mi m) = (match spec_cur si' with Some _ => true | None => false end) /\
  mem_cur (fst (mem_move mi m)) = spec_cur si'.
Proof.
  intros [Hk Hc]. destruct si as [kvs c], mi as [kvs' z pos].
  cbn [si_kvs si_cur mi_kvs mi_cur mi_pos] in *. subst kvs'. cbv zeta.
  pose proof (first_sim kvs) as Hfirst. cbv zeta in Hfirst.
  unfold spec_move, mem_move, m_set, m_first. cbn [si_kvs si_cur mi_kvs mi_cur mi_pos].
  set (n := length kvs) in *.
  destruct m as [| | |k].
  - (* First *) cbn [fst snd]. exact Hfirst.
  - (* Next *)
    destruct c as [| |i|]; cbn [cur_rel] in Hc.
    + destruct Hc as [-> ->]. cbn [negb fst snd]. exact Hfirst.
    + destruct Hc as [-> ->]. cbn [negb]. fold n.
      destruct (Z.ltb_spec (-1) (Z.of_nat n)) as [_|Hge]; [|lia]. cbn [fst snd].
      replace (-1 + 1)%Z with 0%Z by lia. exact Hfirst.
    + destruct Hc as (Hi & -> & ->). cbn [negb]. fold n.
      destruct (Z.ltb_spec (Z.of_nat i) (Z.of_nat n)) as [_|Hge]; [|lia]. cbn [fst snd].
      unfold Ri, spec_cur. cbn [si_kvs si_cur mi_kvs mi_cur mi_pos]. fold n.
      destruct (Nat.ltb_spec (S i) n) as [Hlt|Hge].
      * destruct (nth_lt kvs (S i) Hlt) as [x Hx].
        destruct (mem_at kvs (Z.of_nat i + 1)%Z true (S i) x) as [-> ->]; auto; [lia|].
        rewrite Hx. cbn [cur_rel]. repeat split; auto. lia.
      * destruct (mem_out kvs (Z.of_nat i + 1)%Z true) as [-> ->]; [fold n; lia|].
        cbn [cur_rel]. repeat split; auto. lia.
    + destruct Hc as [-> ->]. cbn [negb]. fold n.
      destruct (Z.ltb_spec (Z.of_nat n) (Z.of_nat n)) as [Hlt|_]; [lia|]. cbn [fst snd].
      unfold Ri, spec_cur. cbn [si_kvs si_cur mi_kvs mi_cur mi_pos cur_rel]. fold n.
      destruct (mem_out kvs (Z.of_nat n) true) as [-> ->]; [fold n; lia|]. auto.
  - (* Prev *)
    destruct c as [| |i|]; cbn [cur_rel] in Hc.
    + destruct Hc as [-> ->]. cbn [negb fst snd]. exact Hfirst.
    + destruct Hc as [-> ->]. cbn [negb Z.leb Z.compare fst snd].
      unfold Ri, spec_cur. cbn [si_kvs si_cur mi_kvs mi_cur mi_pos cur_rel].
      destruct (mem_out kvs (-1)%Z true) as [_ ->]; [lia|]. auto.
    + destruct Hc as (Hi & -> & ->). cbn [negb]. destruct i as [|i].
      * cbn [Z.of_nat Z.leb Z.compare fst snd]. unfold Ri, spec_cur. cbn [si_kvs si_cur mi_kvs mi_cur mi_pos cur_rel].
        destruct (mem_out kvs (-1)%Z true) as [_ ->]; [lia|]. auto.
      * destruct (Z.leb_spec (Z.of_nat (S i)) 0) as [E|_]; [lia|].
        cbn [fst snd]. unfold Ri, spec_cur. cbn [si_kvs si_cur mi_kvs mi_cur mi_pos cur_rel]. fold n.
        destruct (nth_lt kvs i ltac:(lia)) as [x Hx].
        destruct (mem_at kvs (Z.of_nat (S i) - 1)%Z true i x) as [_ ->]; auto; [lia|].
        rewrite Hx. repeat split; auto; lia.
    + destruct Hc as [-> ->]. cbn [negb]. fold n. destruct n as [|n'] eqn:En.
      * cbn [Z.of_nat Z.leb Z.compare fst snd]. unfold Ri, spec_cur. cbn [si_kvs si_cur mi_kvs mi_cur mi_pos cur_rel].
        destruct (mem_out kvs (-1)%Z true) as [_ ->]; [lia|]. auto.
      * destruct (Z.leb_spec (Z.of_nat (S n')) 0) as [E|_]; [lia|].
        cbn [fst snd]. unfold Ri, spec_cur. cbn [si_kvs si_cur mi_kvs mi_cur mi_pos cur_rel]. fold n. rewrite En.
        destruct (nth_lt kvs n' ltac:(lia)) as [x Hx].
        destruct (mem_at kvs (Z.of_nat (S n') - 1)%Z true n' x) as [_ ->]; auto; [lia|].
        rewrite Hx. repeat split; auto; lia.
  - (* Seek *)
    destruct (seek_idx kvs k 0) as [j|] eqn:E; cbn [fst snd]; unfold Ri, spec_cur;
      cbn [si_kvs si_cur mi_kvs mi_cur mi_pos cur_rel]; fold n.
    + apply seek_idx_bound in E. fold n in E. destruct (nth_lt kvs j ltac:(lia)) as [x Hx].
      destruct (mem_at kvs (Z.of_nat j) true j x) as [_ ->]; auto.
      rewrite Hx. repeat split; auto; lia.
    + destruct (mem_out kvs (Z.of_nat n) true) as [_ ->]; [fold n; lia|]. auto.
Qed.

(* ---------- one step of the simulation ---------- *)
Lemma helper_fold ws : forall b, binv b ->
  let b' := fold_left mb_apply ws b in
  mb_writes b' = mb_writes b ++ map conv ws /\ binv b'.
Proof.
  induction ws as [|w ws IH]; intros b Hb; cbn.
  - rewrite app_nil_r. auto.
  - destruct (IH (mb_apply b w) (binv_apply b w Hb)) as [G1 G2]. cbv zeta in G1, G2.
    rewrite G1, mb_apply_writes, <- app_assoc. auto.
Qed.

Lemma Rb_replay sb mb d : Rb sb mb -> m_replay (mb_writes mb) d = replay (sb_ws sb) d.
Proof. intros (Hw & _). rewrite Hw. apply m_replay_conv. Qed.

Lemma Rb_get sb mb d k : Rb sb mb -> sorted d -> mb_get mb d k = s_get (replay (sb_ws sb) d) k.
Proof.
  intros H Hd. rewrite <- (Rb_replay sb mb d H). destruct H as (_ & Hb & _). apply binv_get; auto.
Qed.

Lemma src_store_sim st mt s : R st mt ->
  (match s with SBatch h => match lookup (s_batches st) h with Some b => sb_indexed b = true | None => True end | _ => True end) ->
  forall d, src_store st s = Some d -> msrc_store mt s = Some d.
Proof.
  intros HR Hix d H. destruct s as [|h|h]; cbn in *.
  - rewrite <- (R_db _ _ HR). exact H.
  - pose proof (Forall2_lookup Rb _ _ h (R_batches _ _ HR)) as Hl.
    destruct (lookup (s_batches st) h) as [sb|]; [|discriminate].
    destruct (lookup (m_batches mt) h) as [mb|]; [|contradiction].
    rewrite Hix in H. injection H as <-. rewrite <- (R_db _ _ HR). f_equal. apply Rb_replay. exact Hl.
  - rewrite <- (R_snaps _ _ HR). exact H.
Qed.

Lemma step_sim st mt o : R st mt -> strict_step st o = None ->
  R (fst (spec_step st o)) (fst (mem_step mt o)) /\ snd (mem_step mt o) = snd (spec_step st o).
Proof.
  intros HR Hs. pose proof HR as [Hdb Hsorted Hsn Hb Hi].
  destruct o; cbn [spec_step mem_step strict_step] in *.
  - (* Put *) split; [|reflexivity]. cbn. constructor; cbn; auto.
    + rewrite Hdb; reflexivity. + apply s_put_sorted; auto.
  - split; [|reflexivity]. cbn. constructor; cbn; auto.
    + rewrite Hdb; reflexivity. + apply s_del_sorted; auto.
  - split; [|reflexivity]. cbn. constructor; cbn; auto.
    + rewrite Hdb; reflexivity. + apply filter_sorted; auto.
  - rewrite Hdb. auto.
  - rewrite Hdb. auto.
  - (* NewBatch *) cbn. rewrite (Forall2_length' _ _ _ Hb). split; [|reflexivity].
    constructor; cbn; auto. apply Forall2_snoc; auto. cbn.
    split; [reflexivity|]. split; [exact binv_empty|reflexivity].
  - (* BW *)
    pose proof (Forall2_lookup Rb _ _ h Hb) as Hl.
    destruct (lookup (s_batches st) h) as [sb|]; [|discriminate].
    destruct (lookup (m_batches mt) h) as [mb|]; [|contradiction].
    cbn. split; [|reflexivity].
    constructor; cbn; auto. apply Forall2_set_nth; auto. cbn.
    destruct Hl as (Hwr & Hbi & Hsz).
    split; [|split].
    + rewrite mb_apply_writes, Hwr. cbn. rewrite map_app. reflexivity.
    + apply (binv_apply mb w Hbi).
    + cbn. rewrite mb_apply_size, Hsz. reflexivity.
  - (* BGet *)
    pose proof (Forall2_lookup Rb _ _ h Hb) as Hl. cbn [src_store].
    destruct (lookup (s_batches st) h) as [sb|]; [|discriminate].
    destruct (lookup (m_batches mt) h) as [mb|]; [|contradiction].
    destruct (sb_indexed sb); [|discriminate]. cbn. split; auto.
    rewrite <- Hdb. rewrite (Rb_get sb mb _ k Hl Hsorted). reflexivity.
  - (* BHas *)
    pose proof (Forall2_lookup Rb _ _ h Hb) as Hl. cbn [src_store].
    destruct (lookup (s_batches st) h) as [sb|]; [|discriminate].
    destruct (lookup (m_batches mt) h) as [mb|]; [|contradiction].
    destruct (sb_indexed sb); [|discriminate]. cbn. split; auto.
    rewrite <- Hdb. rewrite (Rb_get sb mb _ k Hl Hsorted). reflexivity.
  - (* BSize *)
    pose proof (Forall2_lookup Rb _ _ h Hb) as Hl.
    destruct (lookup (s_batches st) h) as [sb|]; [|discriminate].
    destruct (lookup (m_batches mt) h) as [mb|]; [|contradiction].
    cbn. split; auto. destruct Hl as (_ & _ & ->). reflexivity.
  - (* BWrite *)
    pose proof (Forall2_lookup Rb _ _ h Hb) as Hl.
    destruct (lookup (s_batches st) h) as [sb|]; [|discriminate].
    destruct (lookup (m_batches mt) h) as [mb|]; [|contradiction].
    cbn. split; auto. constructor; cbn; auto.
    + rewrite <- Hdb. symmetry. apply Rb_replay. exact Hl.
    + apply replay_sorted; auto.
    + apply Forall2_set_nth; cbn; auto.
  - (* BClose *)
    pose proof (Forall2_lookup Rb _ _ h Hb) as Hl.
    destruct (lookup (s_batches st) h) as [sb|]; [|discriminate].
    destruct (lookup (m_batches mt) h) as [mb|]; [|contradiction].
    cbn. split; auto. constructor; cbn; auto. apply Forall2_set_nth; cbn; auto.
  - (* NewSnap *) cbn. rewrite Hsn, Hdb. split; auto. constructor; cbn; auto; try (rewrite <- Hdb; auto).
  - (* SGet *) rewrite <- Hsn. destruct (lookup (s_snaps st) h); cbn; auto.
  - rewrite <- Hsn. destruct (lookup (s_snaps st) h); cbn; auto.
  - (* SClose *) rewrite <- Hsn. destruct (lookup (s_snaps st) h); cbn; auto.
    split; auto. constructor; cbn; auto; try (rewrite Hsn; reflexivity).
  - (* NewIter *)
    destruct (src_store st s) as [d|] eqn:E.
    + assert (Hm : msrc_store mt s = Some d).
      { apply (src_store_sim st mt s HR); auto. destruct s as [|h|h]; auto. cbn in E.
        destruct (lookup (s_batches st) h) as [sb|]; auto. destruct (sb_indexed sb); auto. discriminate. }
      rewrite Hm. cbn. rewrite (Forall2_length' _ _ _ Hi). split; auto.
      constructor; cbn; auto. apply Forall2_snoc; auto. cbn. unfold Ri, spec_iter, mem_iter. cbn. split; auto.
      apply filter_ext_store. intros k. apply visible_same.
    + destruct s as [|h|h]; try discriminate. destruct (lookup (s_batches st) h); discriminate.
  - (* IMove *)
    pose proof (Forall2_lookup Ri _ _ h Hi) as Hl.
    destruct (lookup (s_iters st) h) as [si|]; [|discriminate].
    destruct (lookup (m_iters mt) h) as [mi|]; [|contradiction].
    destruct (move_sim si mi m Hl) as (H1 & H2 & H3).
    cbv zeta in H1, H2, H3. destruct (mem_move mi m) as [mi' r]. cbn [fst snd] in *. subst r.
    split.
    + constructor; cbn; auto. apply Forall2_set_nth; cbn; auto.
    + rewrite H3. reflexivity.
  - (* IClose *)
    pose proof (Forall2_lookup Ri _ _ h Hi) as Hl.
    destruct (lookup (s_iters st) h) as [si|]; [|discriminate].
    destruct (lookup (m_iters mt) h) as [mi|]; [|contradiction].
    cbn. split; auto. constructor; cbn; auto. apply Forall2_set_nth; cbn; auto.
  - (* Helper *)
    destruct (helper_fold ws mb_empty binv_empty) as [H1 H2]. cbv zeta in H1, H2.
    cbn [mb_writes mb_empty app] in H1.
    set (b := fold_left mb_apply ws mb_empty) in *.
    assert (Hrep : m_replay (mb_writes b) (m_db mt) = replay ws (s_db st)).
    { rewrite H1, <- Hdb. apply m_replay_conv. }
    split.
    + destruct fail; auto. constructor; cbn; auto. apply replay_sorted; auto.
    + destruct fail; auto. destruct rd as [k|]; auto. destruct indexed; auto.
      rewrite (binv_get b (m_db mt) k H2) by (rewrite <- Hdb; auto). rewrite Hrep. reflexivity.
Qed.

Lemma R_init : R s_init m_init.
Proof. constructor; cbn; auto. constructor. Qed.

Lemma run_sim ops : forall st mt, R st mt -> first_shape st ops = None ->
  run_mem mt ops = run_spec st ops.
Proof.
  induction ops as [|o ops IH]; intros st mt HR Hs; cbn in *; [reflexivity|].
  destruct (strict_step st o) eqn:E; [discriminate|].
  destruct (step_sim st mt o HR E) as [HR' Ho].
  destruct (spec_step st o) as [st' x], (mem_step mt o) as [mt' y]. cbn [fst snd] in *.
  subst y. f_equal. apply IH; auto.
Qed.

Lemma mem_refines_lemma ops : in_contract_strict ops = true -> run_mem m_init ops = run_spec s_init ops.
Proof.
  unfold in_contract_strict. destruct (first_shape s_init ops) eqn:E; [discriminate|]. intros _.
  apply run_sim; auto using R_init.
Qed.


(* ---------- contract facts of the spec ---------- *)
Lemma spec_batch_atomic st h w :
  s_db (fst (spec_step st (BW h w))) = s_db st /\
  (forall b, lookup (s_batches st) h = Some b ->
     s_db (fst (spec_step st (BWrite h))) = replay (sb_ws b) (s_db st)) /\
  s_db (fst (spec_step st (BClose h))) = s_db st.
Proof.
  repeat split.
  - cbn. destruct (lookup (s_batches st) h); reflexivity.
  - intros b Hb. cbn. rewrite Hb. reflexivity.
  - cbn. destruct (lookup (s_batches st) h); reflexivity.
Qed.

Lemma spec_callback_error st ix ws rd : spec_step st (Helper ix ws rd true) = (st, OErr).
Proof. reflexivity. Qed.

Lemma nth_error_set_nth_other {A} (l : list A) : forall h h' x, h' <> h ->
  nth_error (set_nth l h' x) h = nth_error l h.
Proof.
  induction l as [|y l IH]; intros h h' x Hne; cbn; [reflexivity|].
  destruct h', h; cbn; try reflexivity; [congruence|]. apply IH. congruence.
Qed.

Lemma spec_snapshot_isolated st h o :
  (h < length (s_snaps st))%nat -> o <> SClose h ->
  lookup (s_snaps (fst (spec_step st o))) h = lookup (s_snaps st) h.
Proof.
  intros Hh Ho.
  destruct o; cbn [spec_step]; try reflexivity;
  repeat match goal with |- context [match ?x with _ => _ end] => destruct x; cbn [fst] end;
  cbn; try reflexivity.
  all: try (unfold lookup; rewrite nth_error_app1 by exact Hh; reflexivity).
  all: try (unfold lookup; rewrite nth_error_set_nth_other; [reflexivity| intros ->; apply Ho; reflexivity]).
Qed.
