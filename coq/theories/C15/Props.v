(* C15 — property theorems only. Each is closed by [exact] of a lemma from Proofs.v and followed
   by Print Assumptions. *)
From Coq Require Import List NArith ZArith Bool Ascii.
From V Require Import C15.Model C15.Proofs C15.Buffer.
From Coq Require Import Permutation.
Import ListNotations.
Open Scope N_scope.

(* UpperBound(prefix) is the exact exclusive end of a prefix scan ... *)
Theorem C15_upper_bound_exact : forall (p u k : key),
  upper_bound p = Some u -> has_prefix p k = kle p k && klt k u.
Proof. exact upper_bound_some. Qed.
Print Assumptions C15_upper_bound_exact.

(* ... and is nil exactly for the empty / all-0xff prefixes, where "no upper bound" is the right
   answer: every key >= prefix then has the prefix. *)
Theorem C15_upper_bound_nil : forall p : key,
  upper_bound p = None <-> Forall (fun b => bn b = 255) p.
Proof. exact upper_bound_none. Qed.
Print Assumptions C15_upper_bound_nil.

Theorem C15_upper_bound_nil_unbounded : forall (p k : key),
  upper_bound p = None -> has_prefix p k = kle p k.
Proof. exact upper_bound_none_prefix. Qed.
Print Assumptions C15_upper_bound_nil_unbounded.

(* The in-memory backend (as transcribed) gives the contract's answer on every operation sequence of
   the strict contract: all point ops, range deletes on the database, batch / indexed-batch / snapshot
   life cycles, Update/Write with failing callbacks, iterator positioning. *)
Theorem C15_mem_refines : forall ops : list op,
  in_contract_strict ops = true -> run_mem m_init ops = run_spec s_init ops.
Proof. exact mem_refines_lemma. Qed.
Print Assumptions C15_mem_refines.

(* Contract facts, proved of the spec once (and inherited by the memory model through refinement,
   by Pebble through the differential). *)
Theorem C15_later_wins : forall ws s k v, sorted s -> s_get (replay (ws ++ [WPut k v]) s) k = Some v.
Proof. exact spec_later_wins. Qed.
Print Assumptions C15_later_wins.

Theorem C15_delete_wins : forall ws s k, sorted s -> s_get (replay (ws ++ [WDel k]) s) k = None.
Proof. exact spec_delete_wins. Qed.
Print Assumptions C15_delete_wins.

Theorem C15_range_wins : forall ws s a b k, sorted s -> in_range a b k = true ->
  s_get (replay (ws ++ [WDelRange a b]) s) k = None.
Proof. exact spec_range_wins. Qed.
Print Assumptions C15_range_wins.

Theorem C15_untouched_keys_keep : forall ws s w k, sorted s ->
  (match w with WPut k' _ | WDel k' => k' <> k | WDelRange a b => in_range a b k = false end) ->
  s_get (replay (ws ++ [w]) s) k = s_get (replay ws s) k.
Proof. exact spec_untouched. Qed.
Print Assumptions C15_untouched_keys_keep.

(* all-or-nothing: recording into a batch never touches the database; Write applies the whole log *)
Theorem C15_batch_atomic : forall st h w,
  s_db (fst (spec_step st (BW h w))) = s_db st /\
  (forall b, lookup (s_batches st) h = Some b ->
     s_db (fst (spec_step st (BWrite h))) = replay (sb_ws b) (s_db st)) /\
  s_db (fst (spec_step st (BClose h))) = s_db st.
Proof. exact spec_batch_atomic. Qed.
Print Assumptions C15_batch_atomic.

(* nothing applied when the callback fails *)
Theorem C15_callback_error_no_effect : forall st ix ws rd,
  spec_step st (Helper ix ws rd true) = (st, OErr).
Proof. exact spec_callback_error. Qed.
Print Assumptions C15_callback_error_no_effect.

(* a snapshot is unaffected by every later operation other than closing it *)
Theorem C15_snapshot_isolated : forall st h o,
  (h < length (s_snaps st))%nat -> o <> SClose h ->
  lookup (s_snaps (fst (spec_step st o))) h = lookup (s_snaps st) h.
Proof. exact spec_snapshot_isolated. Qed.
Print Assumptions C15_snapshot_isolated.

(* ---------- db.BufferBatch, the map of pending point writes in front of an indexed batch ---------- *)
(* Get through the buffer answers what a bare indexed batch answers after the same Put/Delete sequence *)
Theorem C15_bufferbatch_get_transparent : forall (ws : list pw) (txn : store) (k : key),
  sorted txn ->
  bb_get (bb_writes ws) txn k = s_get (replay (map pw_wop ws) txn) k.
Proof. exact bb_get_writes. Qed.
Print Assumptions C15_bufferbatch_get_transparent.

(* Flush ranges over a Go map, i.e. forwards the entries in ANY order: the wrapped batch afterwards answers
   exactly what a bare indexed batch answers after the same Put/Delete sequence *)
Theorem C15_bufferbatch_flush_any_order : forall (ws : list pw) (order : bbuf) (txn : store) (k : key),
  sorted txn -> Permutation order (bb_writes ws) ->
  s_get (bb_flush order txn) k = s_get (replay (map pw_wop ws) txn) k.
Proof. exact bb_transparent. Qed.
Print Assumptions C15_bufferbatch_flush_any_order.

(* ---------- the statement is not vacuous ---------- *)
Definition B (n : N) : byte := ascii_of_N n.

Example strict_nontrivial :
  in_contract_strict
    [Put [B 1; B 255] [B 7]; Put [B 1; B 255; B 0] []; Put [B 2] [B 9];
     NewBatch true; BW 0 (WPut [B 1; B 255; B 255] [B 5]); BGet 0 [B 1; B 255; B 255]; NewSnap;
     NewIter (SBatch 0) [B 1; B 255] true; IMove 0 MNext; IMove 0 MNext; IMove 0 MNext; IMove 0 MNext;
     IMove 0 MPrev; BWrite 0; SGet 0 [B 1; B 255; B 255]; Get [B 1; B 255; B 255];
     Helper true [WDel [B 2]] (Some [B 2]) true; Get [B 2]; DelRange [B 1] [B 2]; Has [B 1; B 255]] = true.
Proof. vm_compute. reflexivity. Qed.

(* ---------- where db/memory leaves the contract: one witness per excluded shape ---------- *)
(* Since the repairs of db/memory (iterator bounds, iterator positioning, recorded range deletes) no
   divergence witness is left: the strict contract only excludes use of closed / unknown handles and
   reads through a batch that was not created as an indexed batch (not expressible through db.Batch). *)
Example strict_covers_batch_ranges :
  in_contract_strict
    [NewBatch false; BW 0 (WDelRange [B 1] [B 3]); Put [B 2] [B 1]; BSize 0; BWrite 0; Get [B 2];
     NewBatch true; BW 1 (WPut [B 5] [B 6]); BW 1 (WDelRange [B 4] [B 9]); BGet 1 [B 5]; BW 1 (WPut [B 5] [B 7]); BGet 1 [B 5];
     NewIter (SBatch 1) [] false; IMove 0 MFirst; IMove 0 MPrev; IMove 0 MPrev; IMove 0 MNext; IMove 0 MNext; IMove 0 MNext; IMove 0 MPrev;
     Helper true [WPut [B 8] []; WDelRange [] [B 255]] (Some [B 8]) false; Has [B 5]] = true.
Proof. vm_compute. reflexivity. Qed.


(* BufferBatch: overwrite, delete of a key present below, delete then re-put; flushed in reverse map order *)
Example bufferbatch_instance :
  let ws := [PPut [B 1] [B 7]; PDel [B 2]; PPut [B 1] [B 8]; PDel [B 3]; PPut [B 3] []] in
  let txn := [([B 2], [B 9]); ([B 4], [B 4])] in
  map (s_get (bb_flush (rev (bb_writes ws)) txn)) [[B 1]; [B 2]; [B 3]; [B 4]]
  = [Some [B 8]; None; Some []; Some [B 4]]
  /\ map (bb_get (bb_writes ws) txn) [[B 1]; [B 2]; [B 3]; [B 4]] = [Some [B 8]; None; Some []; Some [B 4]].
Proof. vm_compute. split; reflexivity. Qed.
