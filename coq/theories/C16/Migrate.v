(* C16 (part 2, re-exported by C16/Model.v) — executable model of the history-pruner MIGRATION
   (migration/historyprunner/{migrator,stager,restorer,copy,keys,committer}.go and the way
   migration/runner.go persists its resume blob). Definitions only; proofs are in Proofs_migrate*.v.

   The database is the presence-bit store of C16/Pruner.v for the block families, plus two
   VALUE-carrying families so that "content restored = content staged" can be said:
     hlog i j   the old-value history log (Deprecated{ContractStorage,ContractNonce,ContractClassHash}History)
                of entry j of block i's state diff; None = the block logged nothing for that entry
                (value unchanged on the legacy backend, or a database written by the new state backend)
     scr  i j   the same entry in the scratch namespace ([db.Temporary][bucket][...][block])
   The entries of block i's diff are j < c_dlen i (storage diffs, nonces, replaced classes).

   One Migrate call = a list of committed BATCHES (the unit of interruption): the set-up batch, the
   batches the stager's workers hand to the committer, the second set-up batch, the restorer's batches,
   the scratch wipe. How the pipeline spreads blocks over workers / batches and in which order they are
   committed is not determined by the code (goroutine scheduling): it is the schedule [msched], given
   from outside; the theorems quantify over every schedule. *)
From Coq Require Import List NArith Bool.
From V Require Import C16.Pruner.
Import ListNotations.
Open Scope N_scope.

(* ---------------------------------------------------------------- the database *)
Record mstore := { blk : store; hlog : N -> N -> option N; scr : N -> N -> option N;
                   mark : bool }.   (* the restage marker [db.Temporary][0], first key of the scratch namespace *)

(* what the migration reads from the chain it runs on (constant while it runs: the node does not start
   before the migration is complete) *)
Record chain := { c_head : N;          (* core.GetChainHeight *)
                  c_ts : N -> N;       (* header timestamps *)
                  c_dlen : N -> N }.   (* number of storage/nonce/replaced-class entries of block i's diff *)

(* configuration of one start of the node: --prune-retained-blocks, and now - --prune-min-age as unix
   seconds (None = min-age 0 = off). The wall clock moves between starts, so this is per run. *)
Record mcfg := { g_retained : N; g_cutoff : option N }.

(* ---------------------------------------------------------------- the cut-off (migrator.go: Migrate,
   retentionFloorWithMinAge) *)
(* pruner.OldestRetainedBlock: the first block-commitments key; 0 when there is none *)
Definition oldest_retained (ch : chain) (m : mstore) : N :=
  match oldest (blk m) (c_head ch) with Some o => o | None => 0 end.

(* pivot = min(l1Head.BlockNumber, chainHeight); "nothing to do" when pivot < retainedBlocks;
   standardFloor = max(pivot - retainedBlocks (uint64), oldestRetained); min-age: min(standardFloor,
   FindOldestBlockAtOrAfter(lo, pivot, cutoff)), ErrNoBlockInWindow = standardFloor. The repaired code
   (never below what an earlier, un-pinned start already pruned; no read of a pruned header) searches from
   lo = o = oldestRetained; before the repair it was lo = o = 0 whatever the database held. *)
Definition floor_from (ch : chain) (g : mcfg) (l1 o : N) : option N :=
  let pivot := N.min l1 (c_head ch) in
  if pivot <? g_retained g then None else
  let std := N.max (sub64 pivot (g_retained g)) o in
  Some (match g_cutoff g with
        | None => std
        | Some cut => match find_oldest (c_ts ch) o pivot cut with
                      | None => std
                      | Some f => N.min std f
                      end
        end).
Definition pure_floor (ch : chain) (g : mcfg) (l1 : N) (m : mstore) : option N :=
  floor_from ch g l1 (oldest_retained ch m).

(* FindOldestBlockAtOrAfter reads the header of every probed block (GetBlockHeaderTimestampByNumber);
   a missing header is an error. Same recursion as Pruner.bsearch. *)
Fixpoint probes_ok (fuel : nat) (hdr : N -> bool) (ts : N -> N) (cutoff low high : N) : bool :=
  match fuel with
  | O => true
  | S f =>
    if low <? high then
      let mid := low + (high - low) / 2 in
      hdr mid &&
      (if ts mid <? cutoff then probes_ok f hdr ts cutoff (mid + 1) high
       else probes_ok f hdr ts cutoff low mid)
    else true
  end.

Definition reads_from (ch : chain) (g : mcfg) (l1 lo : N) (hdr : N -> bool) : bool :=
  match g_cutoff g with
  | None => true
  | Some cut =>
    let pivot := N.min l1 (c_head ch) in
    if pivot <? lo then true
    else probes_ok (S (N.to_nat (pivot + 1 - lo))) hdr (c_ts ch) cut lo (pivot + 1)
  end.
Definition floor_reads_ok (ch : chain) (g : mcfg) (l1 : N) (m : mstore) : bool :=
  reads_from ch g l1 (oldest_retained ch m) (blk m Hdr).

Inductive floor_res := FNothing | FErr | FOk (f : N).
Definition compute_floor (ch : chain) (g : mcfg) (l1 : N) (m : mstore) : floor_res :=
  match pure_floor ch g l1 m with
  | None => FNothing
  | Some f => if floor_reads_ok ch g l1 m then FOk f else FErr
  end.

(* the property's bound on the floor, evaluated by the harness on the implementation's floor *)
Definition mig_floor_ok (l1 head ret fl : N) (first_young : option N) : bool :=
  bound_ok l1 head ret fl &&
  match first_young with Some y => min_age_ok fl y | None => true end.

(* ---------------------------------------------------------------- the writes *)
Inductive mop :=
| MDel (o : op)      (* a range delete of pruner.PruneBlockDataUpto *)
| MWipeLook          (* wipeReverseLookupBuckets: tx-hash, L1-message-hash and hash->number buckets *)
| MWipeHist          (* wipeStorageHistoryBuckets: the three Deprecated*History buckets *)
| MWipeScr           (* wipeScratchSpace *)
| MSeed (i : N)      (* WriteBlockHeaderNumberByHash(header(i).Hash, i): the carve-out below the window *)
| MStage (i : N)     (* stager.Run(block i): copyStateHistory(historyToScratch) *)
| MRestore (i : N).  (* restorer.Run(block i): copyStateHistory(scratchToHistory) + hash->number +
                        tx-hash + L1-message lookups of the block *)

Definition is_look (f : fam) : bool := match f with H2n | Txl | L1l => true | _ => false end.

(* copyValue: a missing source is skipped (the destination keeps what it has) *)
Definition copy_opt (src dst : option N) : option N :=
  match src with Some v => Some v | None => dst end.

(* stager.Run / restorer.Run start with GetStateUpdateByBlockNum: without the state update nothing is
   written for the block (the call fails) *)
Definition mapply (ch : chain) (m : mstore) (o : mop) : mstore :=
  match o with
  | MDel d => {| blk := apply_op (blk m) d; hlog := hlog m; scr := scr m; mark := mark m |}
  | MWipeLook => {| blk := fun f i => blk m f i && negb (is_look f); hlog := hlog m; scr := scr m; mark := mark m |}
  | MWipeHist => {| blk := blk m; hlog := fun _ _ => None; scr := scr m; mark := mark m |}
  | MWipeScr => {| blk := blk m; hlog := hlog m; scr := fun _ _ => None; mark := false |}
  | MSeed n =>
    {| blk := fun f i => match f with H2n => (i =? n) || blk m f i | _ => blk m f i end;
       hlog := hlog m; scr := scr m; mark := mark m |}
  | MStage n =>
    if blk m Su n then
      {| blk := blk m; hlog := hlog m;
         scr := fun i j => if (i =? n) && (j <? c_dlen ch n)
                           then copy_opt (hlog m i j) (scr m i j) else scr m i j;
         mark := mark m |}
    else m
  | MRestore n =>
    if blk m Su n then
      {| blk := fun f i => if is_look f && (i =? n) then true else blk m f i;
         hlog := fun i j => if (i =? n) && (j <? c_dlen ch n)
                            then copy_opt (scr m i j) (hlog m i j) else hlog m i j;
         scr := scr m; mark := mark m |}
    else m
  end.

Definition mapply_ops (ch : chain) (m : mstore) (ops : list mop) : mstore := fold_left (mapply ch) ops m.
(* one element of the outer list = one committed batch *)
Definition mapply_batches (ch : chain) (m : mstore) (bs : list (list mop)) : mstore :=
  fold_left (mapply_ops ch) bs m.

(* setupBeforeStager: PruneBlockDataUpto(floor) + the three reverse-lookup buckets, ONE batch *)
Definition setup1_ops (fl : N) : list mop := map MDel (range_ops fl) ++ [MWipeLook].
(* setupBeforeRestorer: the history buckets, and (guard oldestBlockKept > 0, since /repo d372be8) the
   hash->number entry of oldestBlockKept-1, ONE batch *)
Definition setup2_ops (fl : N) : list mop :=
  MWipeHist :: (if 0 <? fl then [MSeed (sub64 fl 1)] else []).
(* what the same code did before the guard: block 2^64-1 when the window starts at genesis *)
Definition setup2_seed_unguarded (fl : N) : N := sub64 fl 1.

(* ---------------------------------------------------------------- one Migrate call *)
(* how the call ends / is interrupted. Cancellation: the block source stops handing out blocks at c
   (`nextBlockNumber`: every block below c was handed to a worker, processed and committed - workers
   and the committer do not look at the context); a failing step returns (nil, err): the batch of a
   failing set-up / wipe step is not applied; in a pipeline phase the batches listed in the schedule
   are the ones that were committed (the failed write is simply not among them). *)
Inductive stop :=
| SNone
| SCancelStage (c : N) | SCancelRestore (c : N)
| SFailSetup1 | SFailStage | SFailSetup2 | SFailRestore | SFailWipe.

Record msched := {
  s_stage : list (list N);     (* blocks of each committed stager batch, in commit order *)
  s_restore : list (list N);   (* the same for the restorer *)
  s_stop : stop;
  s_crash : option nat }.      (* Some k: the process dies after k committed batches *)

(* (nil,nil) | (blob,nil) | (nil,err) | killed *)
Inductive mres := RDone | RBlob (sp rp fl : N) | RErr | RCrash.
(* the persisted intermediate state: stagerProgress, restorerProgress, oldestBlockKept *)
Definition blob := option (N * N * N).

Definition su_all (m : mstore) (bl : list (list N)) : bool :=
  forallb (fun i => blk m Su i) (concat bl).

(* the batches of a call that starts with (stagerProgress, restorerProgress, oldestBlockKept) =
   (sp, rp, fl) on database m, and what it returns when no batch write is cut short by a crash *)
Definition mig_plan (ch : chain) (m : mstore) (sp rp fl : N) (sc : msched) : list (list mop) * mres :=
  let head := c_head ch in
  (* setupBeforeStager, gated by restorerProgress *)
  let b1 := if rp =? 0 then [setup1_ops fl] else [] in
  let m1 := mapply_batches ch m b1 in
  match s_stop sc with
  | SFailSetup1 => ([], RErr)
  | st =>
    (* runStager: skipped when stagerProgress > chainHeight *)
    let skip := head <? sp in
    let stg := if skip then [] else map (map MStage) (s_stage sc) in
    let p1 := b1 ++ stg in
    if negb skip && negb (su_all m1 (s_stage sc)) then (p1, RErr) else
    match st with
    | SFailStage => (p1, RErr)
    | SCancelStage c => (p1, RBlob c 0 fl)
    | _ =>
      (* setupBeforeRestorer, gated by restorerProgress; reads the header of floor-1 when floor > 0 *)
      if (rp =? 0) && (0 <? fl) && negb (blk m1 Hdr (fl - 1)) then (p1, RErr) else
      match st with
      | SFailSetup2 => (p1, RErr)
      | _ =>
        let b2 := if rp =? 0 then [setup2_ops fl] else [] in
        let p2 := p1 ++ b2 ++ map (map MRestore) (s_restore sc) in
        if negb (su_all m1 (s_restore sc)) then (p2, RErr) else
        match st with
        | SFailRestore => (p2, RErr)
        | SCancelRestore c => (p2, RBlob (add64 head 1) c fl)
        | SFailWipe => (p2, RErr)
        | _ => (p2 ++ [[MWipeScr]], RDone)
        end
      end
    end
  end.

Definition range_N (a b : N) : list N := map (fun k => a + N.of_nat k) (seq 0 (N.to_nat (b - a))).

(* scratchSpaceIsEmpty: no key under the scratch tag. Scratch entries only ever exist for diff entries
   of blocks 0..head (chain_ok: empty before the migration; the stager writes nothing else). *)
Definition scr_empty (ch : chain) (m : mstore) : bool :=
  forallb (fun i => forallb (fun j => match scr m i j with None => true | Some _ => false end)
                            (range_N 0 (c_dlen ch i)))
          (range_N 0 (c_head ch + 1)).

(* Migrate, after the floor is known (mustRestage): the staged progress of a stager blob (sp > fl,
   restorerProgress 0) is not trusted when the scratch namespace is empty (a completed call wiped it and
   the process died before the runner recorded the migration) or when an earlier start already decided so
   (the marker is the first key of the namespace). Then the marker is written - a direct write, durable
   before anything else happens - and staging starts at the cut-off. *)
Definition restage (ch : chain) (m : mstore) : bool := mark m || scr_empty ch m.
Definition must_restage (ch : chain) (m : mstore) (sp rp fl : N) : bool :=
  (rp =? 0) && (fl <? sp) && restage ch m.
Definition eff_sp (ch : chain) (m : mstore) (sp rp fl : N) : N :=
  if must_restage ch m sp rp fl then fl else sp.
Definition set_mark (m : mstore) : mstore :=
  {| blk := blk m; hlog := hlog m; scr := scr m; mark := true |}.
(* the database the call's batches are applied to *)
Definition run_pre (ch : chain) (m : mstore) (sp rp fl : N) : mstore :=
  if must_restage ch m sp rp fl then set_mark m else m.

(* Before(blob) + Migrate. l1 = core.GetL1Head (None: "getting L1 head" error, nothing written). *)
Definition mig_run (ch : chain) (l1 : option N) (g : mcfg) (pb : blob) (m : mstore) (sc : msched)
  : mstore * mres :=
  match l1 with
  | None => (m, RErr)
  | Some l1v =>
    let go m sp rp fl :=
      let pr := mig_plan ch m sp rp fl sc in
      match s_crash sc with
      | Some k => (mapply_batches ch m (firstn k (fst pr)), RCrash)
      | None => (mapply_batches ch m (fst pr), snd pr)
      end in
    match pb with
    | Some (sp, rp, fl) =>                      (* floorPinned: the configuration is not consulted *)
      go (run_pre ch m sp rp fl) (eff_sp ch m sp rp fl) rp fl
    | None =>
      match compute_floor ch g l1v m with
      | FNothing => (m, RDone)
      | FErr => (m, RErr)
      | FOk fl => go m 0 0 fl
      end
    end
  end.

(* migration/runner.go: a returned blob is written; (nil,err) returns before touching the stored blob;
   a crash leaves it as it is; (nil,nil) marks the migration applied (the schedule ends) *)
Definition next_blob (pb : blob) (r : mres) : blob :=
  match r with RBlob a b c => Some (a, b, c) | _ => pb end.

(* the floor a call works with (None: nothing to do / error before the floor is known) *)
Definition run_floor (ch : chain) (l1 : option N) (g : mcfg) (pb : blob) (m : mstore) : option N :=
  match l1, pb with
  | None, _ => None
  | Some _, Some (_, _, fl) => Some fl
  | Some l1v, None => match compute_floor ch g l1v m with FOk fl => Some fl | _ => None end
  end.

(* ---------------------------------------------------------------- well-formed schedules *)
Definition covers (l : list N) (a b : N) : bool := forallb (fun i => existsb (N.eqb i) l) (range_N a b).
Definition within (l : list N) (a b : N) : bool := forallb (fun i => (a <=? i) && (i <? b)) l.

Definition stage_reached (st : stop) : bool := match st with SFailSetup1 => false | _ => true end.
Definition restore_reached (st : stop) : bool :=
  match st with SFailSetup1 | SFailStage | SCancelStage _ | SFailSetup2 => false | _ => true end.

(* what the pipeline guarantees about the blocks of a phase that starts at `from`: all of them are in
   [from, head]; a completed phase processed every block of [from, head], a cancelled one every block of
   [from, c). Repeats are allowed here (the theorems hold with them: repeated blocks are idempotent). *)
Definition phase_ok (l : list N) (from head : N) (how : option (option N)) : bool :=
  match how with
  | None => within l from (head + 1)                                       (* failed somewhere *)
  | Some None => within l from (head + 1) && covers l from (head + 1)      (* completed *)
  | Some (Some c) => (from <=? c) && (c <=? head) && within l from c && covers l from c  (* cancelled at c *)
  end.

Definition sched_ok (ch : chain) (sp rp fl : N) (sc : msched) : bool :=
  let head := c_head ch in
  let st := s_stop sc in
  (if stage_reached st && negb (head <? sp) then
     phase_ok (concat (s_stage sc)) (N.max fl sp) head
       (match st with SCancelStage c => Some (Some c) | SFailStage => None | _ => Some None end)
   else match st with SCancelStage _ | SFailStage => false | _ => true end) &&
  (if restore_reached st then
     phase_ok (concat (s_restore sc)) (N.max fl rp) head
       (match st with SCancelRestore c => Some (Some c) | SFailRestore => None | _ => Some None end)
   else true) &&
  (match st with SFailSetup1 | SFailSetup2 => rp =? 0 | _ => true end).

(* additionally no block twice (what the pipeline does; reported by the tie, not needed by the proofs) *)
Fixpoint nodupb (l : list N) : bool :=
  match l with [] => true | x :: r => negb (existsb (N.eqb x) r) && nodupb r end.
Definition sched_exact (sc : msched) : bool :=
  nodupb (concat (s_stage sc)) && nodupb (concat (s_restore sc)).

(* ---------------------------------------------------------------- schedules: any number of starts *)
(* the successive starts of the node while the migration is pending: each with its own configuration
   (flags, wall clock) and its own scheduling / interruption; the stored blob is carried by the runner.
   Result: the database, the stored blob, and - when a start returned (nil, nil) - the cut-off that start
   worked with. *)
Fixpoint run_all (ch : chain) (l1 : option N) (runs : list (mcfg * msched)) (m : mstore) (pb : blob)
  : mstore * blob * option N :=
  match runs with
  | [] => (m, pb, None)
  | (g, sc) :: rest =>
    match mig_run ch l1 g pb m sc with
    | (m', RDone) => (m', pb, run_floor ch l1 g pb m)
    | (m', r) => run_all ch l1 rest m' (next_blob pb r)
    end
  end.

(* (stagerProgress, restorerProgress, oldestBlockKept) a call works with, the scratch-empty reset included *)
Definition start_of (ch : chain) (m : mstore) (pb : blob) (fl : N) : N * N * N :=
  match pb with Some (sp, rp, f) => (eff_sp ch m sp rp f, rp, f) | None => (0, 0, fl) end.

(* what the theorems ask of one start: its schedule is one the pipeline can produce; while nothing is
   pinned the flags still leave something to do (retained <= min(l1, head) - otherwise the call answers
   "nothing to do" whatever an earlier start already deleted, see C16_migrate_unpinned_config_change_needed) *)
Definition run_wf (ch : chain) (l1 : option N) (g : mcfg) (sc : msched) (pb : blob) (m : mstore) : bool :=
  match l1 with
  | None => true
  | Some l1v =>
    (match pb with
     | None => g_retained g <=? N.min l1v (c_head ch)
     | Some _ => true
     end) &&
    (match run_floor ch l1 g pb m with
     | Some F => match start_of ch m pb F with (sp, rp, fl) => sched_ok ch sp rp fl sc end
     | None => true
     end)
  end.

Fixpoint runs_wf (ch : chain) (l1 : option N) (runs : list (mcfg * msched)) (m : mstore) (pb : blob) : bool :=
  match runs with
  | [] => true
  | (g, sc) :: rest =>
    run_wf ch l1 g sc pb m &&
    match mig_run ch l1 g pb m sc with
    | (_, RDone) => true
    | (m', r) => runs_wf ch l1 rest m' (next_blob pb r)
    end
  end.

(* ---------------------------------------------------------------- the result the property demands *)
(* pruned to fl on every block family (C16/Pruner.v `pruned`: nothing below fl except the header lag
   and the hash->number entry of fl-1), the history logs of the keeper window with their values, no
   scratch entry *)
Definition mig_final (u : mstore) (fl : N) : mstore :=
  {| blk := pruned (blk u) fl;
     hlog := fun i j => if fl <=? i then hlog u i j else None;
     scr := fun _ _ => None; mark := false |}.

(* what the theorems assume of the database u the migration starts from: the unpruned chain 0..head
   (state update, header, block commitments, reverse lookups of exactly those blocks), an empty scratch namespace
   (db.Temporary, marker included), history logs only for entries of the block's own state diff (deprecatedstate logs
   replaced classes, nonces and storage diffs, nothing else) and none above the head; head+1 fits uint64 *)
Definition chain_ok (ch : chain) (u : mstore) : Prop :=
  (forall i, i <= c_head ch -> blk u Su i = true) /\
  (forall i, i <= c_head ch -> blk u Hdr i = true) /\
  (forall i, i <= c_head ch -> blk u Cm i = true) /\
  (forall f, is_look f = true -> forall i, blk u f i = (i <=? c_head ch)) /\
  (forall i j, scr u i j = None) /\ mark u = false /\
  (forall i j, c_dlen ch i <= j -> hlog u i j = None) /\
  (forall i j, c_head ch < i -> hlog u i j = None) /\
  c_head ch + 1 < W64.

(* the schedule of an undisturbed call: one worker, one batch per phase *)
Definition canon (ch : chain) (sp rp fl : N) : msched :=
  {| s_stage := [range_N (N.max fl sp) (c_head ch + 1)];
     s_restore := [range_N (N.max fl rp) (c_head ch + 1)];
     s_stop := SNone; s_crash := None |}.

(* an unpruned database: every block family of 0..head, the given history logs, empty scratch *)
Definition full_mstore (head : N) (logs : N -> N -> option N) : mstore :=
  {| blk := full_store head; hlog := logs; scr := fun _ _ => None; mark := false |}.

(* ---------------------------------------------------------------- small instances (Examples in Props.v) *)
(* blocks 0..3, one diff entry per block whose log holds 100+i *)
Definition wit_ch : chain := {| c_head := 3; c_ts := fun i => 1000 + i; c_dlen := fun _ => 1 |}.
Definition wit_u : mstore :=
  full_mstore 3 (fun i j => if (j =? 0) && (i <=? 3) then Some (100 + i) else None).
Definition wit_g : mcfg := {| g_retained := 1; g_cutoff := None |}.   (* l1 = 3: cut-off 2 *)
Definition sched (stage restore : list (list N)) (st : stop) (crash : option nat) : msched :=
  {| s_stage := stage; s_restore := restore; s_stop := st; s_crash := crash |}.
(* cancel in the stager, cancel in the restorer, a failing restorer batch, a crash after two commits,
   completion with two workers and a repeated block *)
Definition wit_runs_ok : list (mcfg * msched) :=
  [(wit_g, sched [[2]] [] (SCancelStage 3) None);
   ({| g_retained := 0; g_cutoff := None |}, sched [[3]; []] [[2]] (SCancelRestore 3) None);
   (wit_g, sched [] [[]] SFailRestore None);
   ({| g_retained := 7; g_cutoff := Some 5 |}, sched [] [[3]; [3]] SNone (Some 1%nat));
   (wit_g, sched [] [[3]; [3]] SNone None)].
(* the schedule that lost history logs before /repo's repair: cancelled in the stager at block 3 (blob
   (3,0,2)); the next start runs to the end and the process dies after its fifth commit (the scratch wipe);
   the start after that finds the scratch namespace empty, writes the marker and stages from the cut-off *)
Definition wit_runs_crash_after_wipe : list (mcfg * msched) :=
  [(wit_g, sched [[2]] [] (SCancelStage 3) None);
   (wit_g, sched [[3]] [[2; 3]] SNone (Some 5%nat));
   (wit_g, sched [[2; 3]] [[3; 2]] SNone None)].
(* ... and the one a "scratch empty" test alone would still lose: the re-staging start dies after its second
   commit (set-up, one worker's batch with block 3 only); scratch is no longer empty, the marker is what
   makes the fourth start stage block 2 again *)
Definition wit_runs_partial_restage : list (mcfg * msched) :=
  [(wit_g, sched [[2]] [] (SCancelStage 3) None);
   (wit_g, sched [[3]] [[2; 3]] SNone (Some 5%nat));
   (wit_g, sched [[3]; [2]] [[2; 3]] SNone (Some 2%nat));
   (wit_g, sched [[2]; [3]] [[3; 2]] SNone None)].
(* min-age: blocks 0..30 ten seconds apart, cut-off time 1285 = block 29; retained 0, l1 = 30 *)
Definition wit_ch30 : chain := {| c_head := 30; c_ts := fun i => 1000 + 10 * i; c_dlen := fun _ => 0 |}.
Definition wit_u30 : mstore := full_mstore 30 (fun _ _ => None).
Definition wit_g30 : mcfg := {| g_retained := 0; g_cutoff := Some 1285 |}.

(* ---------------------------------------------------------------- glue for the oracle *)
Definition summary_tag (o : mop) : N * N :=
  match o with
  | MDel (RCm hi) => (1, hi) | MDel _ => (0, 0)
  | MWipeLook => (2, 0) | MWipeHist => (3, 0) | MWipeScr => (4, 0)
  | MSeed i => (5, i) | MStage i => (6, i) | MRestore i => (7, i)
  end.
