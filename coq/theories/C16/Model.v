(* C16 — the executable model, in two parts (definitions only; proofs are in Proofs*.v):
     C16/Pruner.v   the running pruner (pruner/{pruner,accessors,retention}.go), the presence-bit store,
                    the constants LAG / WIN, the accessor table, historical reads
     C16/Migrate.v  the history-pruner migration (migration/historyprunner/*.go) on top of that store
   This file only re-exports them, so that `From V Require Import C16.Model` keeps giving every name
   (LAG, WIN, store, pruned, ...) and so that bin/build, which builds Model.vo before it extracts,
   rebuilds the oracle whenever either part changes. *)
From V Require Export C16.Pruner C16.Migrate.
