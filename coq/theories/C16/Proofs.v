(* C16 — lemmas, part 1: uint64 arithmetic, floor decisions, delete algebra, batch structure. *)
From Coq Require Import List NArith ZArith Bool Lia ZifyN ZifyNat ZifyBool.
From V Require Import C16.Model.
Import ListNotations.
Open Scope N_scope.

(* ---------------------------------------------------------------- uint64 *)
Lemma W64_pos : 0 < W64. Proof. reflexivity. Qed.

Lemma sub64_exact : forall a b, b <= a -> a < W64 -> sub64 a b = a - b.
Proof.
  intros a b Hb Ha. unfold sub64.
  replace (a + W64 - b) with ((a - b) + 1 * W64) by lia.
  rewrite N.mod_add by (unfold W64; lia). apply N.mod_small. lia.
Qed.

Lemma sub64_wraps : forall a b, a < b -> b < W64 -> sub64 a b = a + W64 - b.
Proof. intros a b H1 H2. unfold sub64. apply N.mod_small. lia. Qed.

Lemma add64_exact : forall a b, a + b < W64 -> add64 a b = a + b.
Proof. intros. unfold add64. apply N.mod_small. assumption. Qed.

(* ---------------------------------------------------------------- floor decisions *)
(* onNewBlock: whenever it decides to prune, the guards make the uint64 subtraction exact, and the
   block it keeps from is at most min(l1, block) - retained; with the min-age floor active it is also
   at most the sampled min-age height. *)
Lemma on_new_block_bound : forall c s l1 block within s' k,
  block < W64 -> retained c < W64 ->
  on_new_block c s (Some l1) block within = (s', Prune k) ->
  retained c <= N.min l1 block /\ k + retained c <= N.min l1 block /\
  k <= block - retained c /\
  sub64 block (retained c) = block - retained c /\
  (min_age_on c = true -> within = true -> k <= sampled s) /\
  (min_age_on c && within = false -> k = block - retained c).
Proof.
  intros c s l1 block within s' k Hb Hr H. unfold on_new_block in H.
  destruct ((l1 <=? block) || (block <? retained c)) eqn:G; [discriminate|].
  apply orb_false_iff in G. destruct G as [G1 G2].
  apply N.leb_gt in G1. apply N.ltb_ge in G2.
  destruct (add64 (pending s) 1 <? every c); [discriminate|].
  assert (E : sub64 block (retained c) = block - retained c) by (apply sub64_exact; lia).
  rewrite E in H. inversion H; subst; clear H.
  unfold apply_time_floor.
  destruct (min_age_on c) eqn:M; destruct within; simpl; repeat split; intros; try discriminate; try lia.
Qed.

Lemma on_new_l1_head_bound : forall c s l1 h s' k,
  l1 < W64 -> retained c < W64 ->
  on_new_l1_head c s l1 (Some h) = (s', Prune k) ->
  retained c <= N.min l1 h /\ k + retained c <= N.min l1 h /\
  k <= l1 - retained c /\
  sub64 l1 (retained c) = l1 - retained c /\
  (min_age_on c = true -> k <= sampled s) /\
  (min_age_on c = false -> k = l1 - retained c).
Proof.
  intros c s l1 h s' k Hl Hr H. unfold on_new_l1_head in H.
  destruct ((h <=? l1) || (l1 <? retained c)) eqn:G; [discriminate|].
  apply orb_false_iff in G. destruct G as [G1 G2].
  apply N.leb_gt in G1. apply N.ltb_ge in G2.
  assert (E : sub64 l1 (retained c) = l1 - retained c) by (apply sub64_exact; lia).
  rewrite E in H. inversion H; subst; clear H.
  unfold apply_time_floor. destruct (min_age_on c); repeat split; intros; try discriminate; try lia.
Qed.

(* no decision without both heads *)
Lemma no_heads_no_prune : forall c s block within l1,
  snd (on_new_block c s None block within) = Skip /\ snd (on_new_l1_head c s l1 None) = Skip.
Proof. intros. split; reflexivity. Qed.

(* the guards are necessary: dropping "block >= retained" the uint64 subtraction wraps *)
Lemma sub64_unguarded_wraps : sub64 3 5 = 18446744073709551614.
Proof. vm_compute. reflexivity. Qed.

(* the shared state floor: only ever raised, to exactly max(old, keep-1) *)
Lemma prune_floor_spec : forall keep st, keep < W64 -> st < W64 ->
  prune_floor keep st = N.max st keep.
Proof.
  intros keep st Hk Hs. unfold prune_floor, raise_to.
  destruct (N.ltb_spec 0 keep).
  - rewrite (sub64_exact keep 1) by lia. rewrite add64_exact by lia.
    replace (keep - 1 + 1) with keep by lia.
    destruct (N.leb_spec keep st); lia.
  - lia.
Qed.

Lemma prune_floor_monotone : forall keep st, keep < W64 -> st < W64 -> st <= prune_floor keep st.
Proof. intros. rewrite prune_floor_spec by assumption. lia. Qed.

Lemma floor_of_prune : forall keep st f, keep < W64 -> st < W64 ->
  floor_of (prune_floor keep st) = Some f -> f + 1 = N.max st keep.
Proof.
  intros keep st f Hk Hs. rewrite prune_floor_spec by assumption. unfold floor_of.
  destruct (N.eqb_spec (N.max st keep) 0); [discriminate|]. intros H. inversion H. lia.
Qed.

(* ---------------------------------------------------------------- delete algebra *)
Definition killed (f : fam) (i : N) (ops : list op) : bool := existsb (kills f i) ops.

Lemma apply_ops_spec : forall ops s f i, apply_ops s ops f i = s f i && negb (killed f i ops).
Proof.
  induction ops as [|o r IH]; intros; simpl.
  - rewrite andb_true_r. reflexivity.
  - unfold apply_ops in *. simpl. rewrite IH. unfold apply_op.
    rewrite negb_orb, andb_assoc. reflexivity.
Qed.

Lemma killed_app : forall f i a b, killed f i (a ++ b) = killed f i a || killed f i b.
Proof. intros. apply existsb_app. Qed.

Lemma apply_batches_spec : forall bs s f i,
  apply_batches s bs f i = s f i && negb (killed f i (concat bs)).
Proof.
  induction bs as [|b r IH]; intros; simpl.
  - rewrite andb_true_r. reflexivity.
  - unfold apply_batches in *. simpl. rewrite IH, apply_ops_spec, killed_app, negb_orb, andb_assoc.
    reflexivity.
Qed.

Lemma apply_batches_app : forall a b s, apply_batches s (a ++ b) = apply_batches (apply_batches s a) b.
Proof. intros. unfold apply_batches. apply fold_left_app. Qed.

(* deletes only remove *)
Lemma apply_batches_le : forall bs s f i, apply_batches s bs f i = true -> s f i = true.
Proof. intros bs s f i H. rewrite apply_batches_spec in H. apply andb_true_iff in H. tauto. Qed.

(* ---------------------------------------------------------------- closed forms of what a sweep deletes *)
(* deletes of the loop over blocks [n, j) of a sweep ending at e *)
Definition flat_kills (f : fam) (i n e j : N) : bool :=
  match f with
  | H2n => (n <=? i + 1) && (i + 1 <? j)
  | Txl | L1l | Hist => (n <=? i) && (i <? j)
  | _ => false
  end.
Definition init_kills (f : fam) (i o : N) : bool :=
  false.
Definition range_kills (f : fam) (i k : N) : bool :=
  match f with
  | Hdr => i <? k - LAG
  | Cm | Su | Txs => i <? k
  | Bloom => i <? k - k mod WIN
  | _ => false
  end.

Lemma killed_block_ops : forall f i e n,
  killed f i (block_ops e n) = flat_kills f i n e (n + 1).
Proof.
  intros. unfold block_ops, killed, flat_kills.
  destruct (N.ltb_spec 0 n) as [E|E]; destruct f; simpl; lia.
Qed.

Lemma flat_kills_step : forall f i n e j, n < j ->
  flat_kills f i n e j = flat_kills f i n e (n + 1) || flat_kills f i (n + 1) e j.
Proof. intros. unfold flat_kills. destruct f; try reflexivity; lia. Qed.

Lemma flat_kills_empty : forall f i n e j, j <= n -> flat_kills f i n e j = false.
Proof. intros. unfold flat_kills. destruct f; try reflexivity; lia. Qed.

Lemma killed_flat_ops : forall fuel f i n e j,
  (N.to_nat (j - n) <= fuel)%nat -> killed f i (flat_ops fuel n e j) = flat_kills f i n e j.
Proof.
  induction fuel as [|fuel IH]; intros f i n e j Hf; simpl.
  - rewrite flat_kills_empty by lia. reflexivity.
  - destruct (N.ltb_spec n j).
    + rewrite killed_app, killed_block_ops, IH by lia. symmetry. apply flat_kills_step. assumption.
    + rewrite flat_kills_empty by lia. reflexivity.
Qed.

Lemma killed_init_ops : forall f i o, killed f i (init_ops o) = init_kills f i o.
Proof.
  intros. reflexivity.
Qed.

Lemma killed_range_ops : forall f i k, killed f i (range_ops k) = range_kills f i k.
Proof.
  intros. unfold range_ops, range_kills, killed. destruct f; simpl; try reflexivity; try lia.
  - destruct (N.ltb_spec LAG k); unfold LAG in *; lia.
  - destruct (N.ltb_spec k WIN) as [Hk|Hk].
    + rewrite N.mod_small by assumption. lia.
    + lia.
Qed.

(* the hash-keyed loop: all batches together *)
Lemma hash_loop_concat : forall fuel n e k rot cur,
  concat (hash_loop fuel n e k rot cur) = cur ++ flat_ops fuel n e k.
Proof.
  induction fuel as [|fuel IH]; intros; simpl.
  - rewrite app_nil_r. reflexivity.
  - destruct (n <? k).
    + destruct (rot n); simpl; rewrite IH; simpl; rewrite <- app_assoc; reflexivity.
    + simpl. rewrite !app_nil_r. reflexivity.
Qed.

(* ... and every prefix of its batches is a cut at a block boundary j *)
Lemma hash_loop_prefix : forall fuel n e k rot cur m,
  (N.to_nat (k - n) <= fuel)%nat -> n <= k ->
  exists j, n <= j <= k /\ forall f i,
    killed f i (concat (firstn m (hash_loop fuel n e k rot cur))) =
    match m with O => false | S _ => killed f i cur || flat_kills f i n e j end.
Proof.
  induction fuel as [|fuel IH]; intros n e k rot cur m Hf Hk.
  - exists n. split; [lia|]. intros. simpl. destruct m; simpl; [reflexivity|].
    rewrite firstn_nil. simpl. rewrite app_nil_r, flat_kills_empty by lia.
    rewrite orb_false_r. reflexivity.
  - simpl. destruct (N.ltb_spec n k) as [L|L].
    + destruct (rot n).
      * destruct m as [|m'].
        { exists n. split; [lia|]. reflexivity. }
        destruct (IH (n + 1) e k rot [] m' ltac:(lia) ltac:(lia)) as [j [Hj Hkill]].
        destruct m' as [|m''].
        { exists (n + 1). split; [lia|]. intros. simpl. rewrite app_nil_r, killed_app, killed_block_ops.
          reflexivity. }
        exists j. split; [lia|]. intros. simpl firstn. simpl concat.
        rewrite killed_app, killed_app, killed_block_ops.
        specialize (Hkill f i). simpl firstn in Hkill. rewrite Hkill. simpl.
        rewrite (flat_kills_step f i n e j) by lia. rewrite orb_assoc. reflexivity.
      * destruct (IH (n + 1) e k rot (cur ++ block_ops e n) m ltac:(lia) ltac:(lia)) as [j [Hj Hkill]].
        destruct m as [|m'].
        { exists n. split; [lia|]. intros. apply Hkill. }
        exists j. split; [lia|]. intros. rewrite Hkill, killed_app, killed_block_ops.
        rewrite (flat_kills_step f i n e j) by lia. rewrite orb_assoc. reflexivity.
    + exists n. split; [lia|]. intros. destruct m; simpl; [reflexivity|].
      rewrite firstn_nil. simpl. rewrite app_nil_r, flat_kills_empty by lia.
      rewrite orb_false_r. reflexivity.
Qed.

Lemma hash_loop_length_pos : forall fuel n e k rot cur, (1 <= length (hash_loop fuel n e k rot cur))%nat.
Proof.
  induction fuel; intros; simpl; [lia|].
  destruct (n <? k); [|simpl; lia]. destruct (rot n); simpl; [lia|apply IHfuel].
Qed.

(* what a whole PruneUpto(o -> e) cancelled at k deletes *)
Definition run_kills (f : fam) (i o e k : N) : bool :=
  init_kills f i o || flat_kills f i o e k || range_kills f i k.

Lemma killed_prune_batches : forall f i o e k rot, o <= k ->
  killed f i (concat (prune_batches o e k rot)) = run_kills f i o e k.
Proof.
  intros. unfold prune_batches, run_kills.
  rewrite concat_app, killed_app, hash_loop_concat, killed_app, killed_init_ops.
  rewrite killed_flat_ops by lia.
  change (concat [range_ops k]) with (range_ops k ++ []). rewrite app_nil_r, killed_range_ops. reflexivity.
Qed.

(* every prefix of the batches of a run: either nothing, or init + blocks [o, j), possibly followed by
   the range batch (then j = k) *)
Definition prefix_kills (f : fam) (i o e j : N) (with_range : bool) : bool :=
  init_kills f i o || flat_kills f i o e j || (with_range && range_kills f i j).

Lemma prune_batches_prefix : forall o e k rot m, o <= k ->
  (forall f i, killed f i (concat (firstn m (prune_batches o e k rot))) = false) \/
  (exists j, o <= j <= k /\ forall f i,
     killed f i (concat (firstn m (prune_batches o e k rot))) = prefix_kills f i o e j false) \/
  (forall f i, killed f i (concat (firstn m (prune_batches o e k rot))) = prefix_kills f i o e k true).
Proof.
  intros o e k rot m Hk. unfold prune_batches.
  set (hl := hash_loop (N.to_nat (k - o)) o e k rot (init_ops o)).
  destruct (Nat.le_gt_cases m (length hl)) as [Hm|Hm].
  - rewrite firstn_app. replace (m - length hl)%nat with 0%nat by lia. simpl. rewrite app_nil_r.
    destruct (hash_loop_prefix (N.to_nat (k - o)) o e k rot (init_ops o) m ltac:(lia) Hk) as [j [Hj Hkill]].
    fold hl in Hkill. destruct m.
    + left. intros. apply Hkill.
    + right. left. exists j. split; [assumption|]. intros. rewrite Hkill, killed_init_ops.
      unfold prefix_kills. simpl. rewrite orb_false_r. reflexivity.
  - right. right. intros. rewrite firstn_all2 by (rewrite app_length; simpl; lia).
    change (hl ++ [range_ops k]) with (prune_batches o e k rot). rewrite killed_prune_batches by assumption.
    unfold run_kills, prefix_kills. reflexivity.
Qed.
