(* C16 — lemmas, part 2: retained blocks, historical reads, pruned shape, resume, growth / revert. *)
From Coq Require Import List NArith ZArith Bool Lia ZifyN ZifyNat ZifyBool.
From V Require Import C16.Model C16.Proofs.
Import ListNotations.
Open Scope N_scope.

(* ---------------------------------------------------------------- window arithmetic *)
Definition wf (e : N) : N := e - e mod WIN.

Lemma wf_eq : forall e, wf e = WIN * (e / WIN).
Proof.
  intros. unfold wf. pose proof (N.div_mod e WIN ltac:(unfold WIN; lia)) as H.
  unfold WIN in *. lia.
Qed.

Lemma wf_mono : forall o e, o <= e -> wf o <= wf e.
Proof.
  intros. rewrite !wf_eq. apply N.mul_le_mono_l. apply N.div_le_mono; [unfold WIN; lia|assumption].
Qed.

Lemma wf_le : forall e, wf e <= e.
Proof. intros. unfold wf. lia. Qed.

(* a window [i, i+WIN) that contains a block >= e starts at or above wf k for every k <= e *)
Lemma window_above : forall i k e, i mod WIN = 0 -> k <= e -> e < i + WIN -> wf k <= i.
Proof.
  intros i k e Hi Hk He.
  pose proof (N.div_mod i WIN ltac:(unfold WIN; lia)) as Di. rewrite Hi in Di.
  rewrite wf_eq.
  assert (k / WIN <= i / WIN).
  { apply N.lt_succ_r.
    apply (N.div_lt_upper_bound k WIN (N.succ (i / WIN))); [unfold WIN; lia|]. unfold WIN in *. lia. }
  unfold WIN in *. lia.
Qed.

(* ---------------------------------------------------------------- A. retained blocks *)
(* index i of family f is at or above the retention floor e: a block >= e, or a bloom window that
   still contains a block >= e *)
Definition at_or_above (e : N) (f : fam) (i : N) : Prop :=
  match f with Bloom => i mod WIN = 0 /\ e < i + WIN | _ => e <= i end.

Lemma run_kills_above : forall f i o e k, o <= k -> k <= e -> at_or_above e f i ->
  init_kills f i o = false /\ (forall j, j <= k -> flat_kills f i o e j = false) /\
  (forall j, j <= k -> range_kills f i j = false).
Proof.
  intros f i o e k Hok Hke Ha. unfold at_or_above in Ha.
  destruct f; simpl; repeat split; intros; try reflexivity; try lia.
  destruct Ha as [Hm He]. pose proof (window_above i j e Hm ltac:(lia) He) as Hw. unfold wf in Hw. lia.
Qed.

Lemma retained_unchanged_fam : forall (s : store) o e k rot m f i,
  o <= k -> k <= e -> at_or_above e f i ->
  interrupted s (prune_batches o e k rot) m f i = s f i.
Proof.
  intros s o e k rot m f i Hok Hke Ha. unfold interrupted. rewrite apply_batches_spec.
  destruct (run_kills_above f i o e k Hok Hke Ha) as [K1 [K2 K3]].
  destruct (prune_batches_prefix o e k rot m Hok) as [H|[[j [Hj H]]|H]]; rewrite H.
  - rewrite andb_true_r. reflexivity.
  - unfold prefix_kills. rewrite K1, K2 by lia. simpl. rewrite andb_true_r. reflexivity.
  - unfold prefix_kills. rewrite K1, K2, K3 by lia. simpl. rewrite andb_true_r. reflexivity.
Qed.

Lemma forallb_ext_in : forall (A : Type) (f g : A -> bool) (l : list A),
  (forall x, In x l -> f x = g x) -> forallb f l = forallb g l.
Proof.
  induction l as [|x r IH]; intros H; simpl; [reflexivity|].
  rewrite H by (left; reflexivity). rewrite IH; [reflexivity|]. intros. apply H. right. assumption.
Qed.

Lemma needs_no_bloom : forall a, ~ In Bloom (needs a).
Proof. intros a. destruct a; simpl; intuition discriminate. Qed.

Lemma retained_unchanged_acc : forall (s : store) o e k rot m a n,
  o <= k -> k <= e -> e <= n ->
  answers (interrupted s (prune_batches o e k rot) m) a n = answers s a n.
Proof.
  intros. unfold answers. apply forallb_ext_in. intros f Hf.
  apply retained_unchanged_fam; try assumption.
  destruct f; simpl; try assumption. exfalso. apply (needs_no_bloom a). assumption.
Qed.

(* the same through prune_plan (the resume point is whatever the store says) *)
Lemma find_from_ge : forall p fuel n r, find_from p fuel n = Some r -> n <= r /\ p r = true.
Proof.
  induction fuel as [|fuel IH]; intros n r H; simpl in H; [discriminate|].
  destruct (p n) eqn:E.
  - inversion H; subst. split; [lia|assumption].
  - apply IH in H. split; [lia|tauto].
Qed.

Lemma plan_retained_unchanged_fam : forall (s : store) head e k rot m f i,
  at_or_above e f i -> interrupted s (prune_plan s head e k rot) m f i = s f i.
Proof.
  intros. unfold prune_plan. destruct (oldest s head) as [start|].
  - destruct (N.leb_spec e start).
    + unfold interrupted. rewrite firstn_nil. reflexivity.
    + apply retained_unchanged_fam; try assumption; lia.
  - unfold interrupted. rewrite firstn_nil. reflexivity.
Qed.

Lemma plan_retained_unchanged_acc : forall (s : store) head e k rot m a n, e <= n ->
  answers (interrupted s (prune_plan s head e k rot) m) a n = answers s a n.
Proof.
  intros. unfold answers. apply forallb_ext_in. intros f Hf.
  apply plan_retained_unchanged_fam.
  destruct f; simpl; try assumption. exfalso. apply (needs_no_bloom a). assumption.
Qed.

(* ---------------------------------------------------------------- B. historical reads *)
(* old-value logs: the answer at n depends only on logs strictly above n ("first log above n") *)
Lemma read_old_agree : forall lg p p' hv n,
  (forall b, n < b -> p' b = p b) -> read_old lg p' hv n = read_old lg p hv n.
Proof.
  induction lg as [|[b v] r IH]; intros; simpl; [reflexivity|].
  destruct (N.ltb_spec n b); simpl.
  - rewrite H by assumption. destruct (p b); [reflexivity|apply IH; assumption].
  - apply IH; assumption.
Qed.

(* new-value logs: the answer at n depends on the logs at or below n ("last log <= n") *)
Lemma read_new_agree : forall lg p p' n d,
  (forall b, b <= n -> p' b = p b) -> read_new lg p' n d = read_new lg p n d.
Proof.
  induction lg as [|[b v] r IH]; intros; simpl; [reflexivity|].
  destruct (N.leb_spec b n); simpl.
  - rewrite H by assumption. destruct (p b); apply IH; assumption.
  - apply IH; assumption.
Qed.

Lemma last_upd_agree : forall lg p p' n d,
  (forall b, b <= n -> p' b = p b) -> last_upd lg p' n d = last_upd lg p n d.
Proof.
  induction lg as [|[b v] r IH]; intros; simpl; [reflexivity|].
  destruct (N.leb_spec b n); simpl.
  - rewrite H by assumption. destruct (p b); apply IH; assumption.
  - apply IH; assumption.
Qed.

(* "last log <= n" survives deleting logs below e exactly when that last log is itself >= e *)
Fixpoint asc (d : N) (lg : logs) : Prop :=
  match lg with [] => True | (b, _) :: r => d <= b /\ asc b r end.

Lemma last_upd_recent : forall lg p p' n e d d',
  asc d lg ->
  (forall b, e <= b -> p' b = p b) -> (forall b, p' b = true -> p b = true) ->
  (d' = d \/ (d < e /\ d' < e)) ->
  e <= last_upd lg p n d -> last_upd lg p' n d' = last_upd lg p n d.
Proof.
  induction lg as [|[b v] r IH]; intros p p' n e d d' Hasc Hab Hle Hd Hres; simpl in *.
  - destruct Hd as [Hd|Hd]; [assumption|lia].
  - destruct Hasc as [Hdb Hasc].
    assert (Hasc' : asc d r).
    { clear - Hdb Hasc. destruct r as [|[b' v'] r']; simpl in *; [exact I|]. split; [lia|tauto]. }
    destruct (N.leb_spec b n); simpl in *.
    + destruct (p b) eqn:Pb.
      * destruct (N.le_gt_cases e b) as [Hb|Hb].
        { rewrite Hab, Pb by assumption. apply (IH p p' n e); auto. }
        { destruct (p' b).
          - apply (IH p p' n e); auto.
          - apply (IH p p' n e); auto. right. destruct Hd; lia. }
      * destruct (p' b) eqn:P'b; [apply Hle in P'b; congruence|].
        apply (IH p p' n e); auto.
    + apply (IH p p' n e); auto.
Qed.

(* the new-value logs are never touched by any delete the pruner issues *)
Lemma histnew_untouched : forall (s : store) bs i, apply_batches s bs HistNew i = s HistNew i.
Proof.
  intros. rewrite apply_batches_spec.
  assert (K : killed HistNew i (concat bs) = false).
  { unfold killed. induction (concat bs) as [|o r IH]; simpl; [reflexivity|].
    rewrite IH. destruct o; reflexivity. }
  rewrite K, andb_true_r. reflexivity.
Qed.

(* state reads from one block below the floor: for n >= e-1 both encodings answer as before, at
   every interruption point *)
Lemma state_from_floor_old : forall (s : store) o e k rot m lg hv n,
  o <= k -> k <= e -> e <= n + 1 ->
  read_old lg (interrupted s (prune_batches o e k rot) m Hist) hv n = read_old lg (s Hist) hv n.
Proof.
  intros. apply read_old_agree. intros b Hb.
  apply retained_unchanged_fam; try assumption. simpl. lia.
Qed.

Lemma state_from_floor_new : forall (s : store) bs m lg n d,
  read_new lg (interrupted s bs m HistNew) n d = read_new lg (s HistNew) n d /\
  last_upd lg (interrupted s bs m HistNew) n d = last_upd lg (s HistNew) n d.
Proof.
  intros. unfold interrupted. split; [apply read_new_agree|apply last_upd_agree];
    intros; apply histnew_untouched.
Qed.

(* ---------------------------------------------------------------- aggregated filters *)
(* the persisted filter of window [w, w+WIN) indexes retained blocks iff the window intersects
   [e, head], i.e. (w aligned) e < w + WIN; every such filter survives every prefix of every sweep *)
Definition window_retained (e w : N) : Prop := w mod WIN = 0 /\ e < w + WIN.

Lemma bloom_windows_retained : forall (s : store) head e k rot m w,
  window_retained e w -> interrupted s (prune_plan s head e k rot) m Bloom w = s Bloom w.
Proof. intros. apply plan_retained_unchanged_fam. exact H. Qed.

(* in particular the window that contains the floor itself *)
Lemma floor_window_retained : forall e, window_retained e (wf e).
Proof.
  intros. unfold window_retained. split.
  - rewrite wf_eq. rewrite N.mul_comm. apply N.mod_mul. unfold WIN. lia.
  - unfold wf. pose proof (N.mod_lt e WIN ltac:(unfold WIN; lia)). lia.
Qed.

(* and a sweep that deleted by "starts below e" instead of "ends below e" would not: the window of e
   starts below e whenever e is not aligned *)
Lemma floor_window_starts_below : forall e, e mod WIN <> 0 -> wf e < e.
Proof. intros. unfold wf. pose proof (N.mod_le e WIN ltac:(unfold WIN; lia)). lia. Qed.
