(* C16 — lemmas, part 3: shape of a pruned store, resume, growth / revert, state by hash, reseeding. *)
From Coq Require Import List NArith ZArith Bool Lia ZifyN ZifyNat ZifyBool.
From V Require Import C16.Model C16.Proofs C16.Proofs_B.
Import ListNotations.
Open Scope N_scope.

(* booleans over N comparisons: case-split every comparison, then lia *)
Ltac nsplit :=
  cbn [andb orb negb]; first [ reflexivity | exfalso; lia |
  match goal with
  | |- context [N.leb ?a ?b] => destruct (N.leb_spec a b); nsplit
  | |- context [N.ltb ?a ?b] => destruct (N.ltb_spec a b); nsplit
  | |- context [N.eqb ?a ?b] => destruct (N.eqb_spec a b); nsplit
  end | idtac ].

(* ---------------------------------------------------------------- C. a complete prune *)
(* keep composed with one more complete sweep o -> e is keep e: this is the whole content of
   PruneUpto on the presence level, carve-outs included *)
Lemma keep_after_run : forall f i o e, o < e -> e < W64 ->
  keep o f i && negb (run_kills f i o e e) = keep e f i.
Proof.
  intros f i o e Hoe He. unfold run_kills, init_kills, flat_kills, range_kills, keep.
  assert (E1 : sub64 e 1 = e - 1) by (apply sub64_exact; lia).
  pose proof (wf_mono o e ltac:(lia)) as Hw. unfold wf in Hw.
  destruct f; rewrite ?E1; unfold LAG in *; nsplit.
Qed.

Lemma complete_is_pruned : forall (u : store) o e rot f i, o < e -> e < W64 ->
  apply_batches (pruned u o) (prune_batches o e e rot) f i = pruned u e f i.
Proof.
  intros. rewrite apply_batches_spec, killed_prune_batches by lia. unfold pruned.
  rewrite <- andb_assoc, keep_after_run by assumption. reflexivity.
Qed.

(* a sweep o -> e cancelled at block k (o <= k <= e) leaves EXACTLY the store of a complete prune to k,
   the hash->number carve-out of k-1 included: the delete of a block's hash->number entry is issued one
   iteration late, so the entry of the last pruned block survives wherever the loop stops *)
Lemma keep_after_cancelled_run : forall f i o e k, o <= k -> k <= e ->
  keep o f i && negb (run_kills f i o e k) = keep k f i.
Proof.
  intros f i o e k Hok Hke. unfold run_kills, init_kills, flat_kills, range_kills, keep.
  pose proof (wf_mono o k ltac:(lia)) as Hw. unfold wf in Hw.
  destruct f; unfold LAG in *; nsplit.
Qed.

Lemma cancelled_is_pruned : forall (u : store) o e k rot f i, o <= k -> k <= e ->
  apply_batches (pruned u o) (prune_batches o e k rot) f i = pruned u k f i.
Proof.
  intros. rewrite apply_batches_spec, killed_prune_batches by lia. unfold pruned.
  rewrite <- andb_assoc, keep_after_cancelled_run by assumption. reflexivity.
Qed.

(* ---------------------------------------------------------------- D. below the floor *)
Lemma answers_pruned : forall (u : store) e a n,
  answers (pruned u e) a n = answers u a n && forallb (fun f => keep e f n) (needs a).
Proof.
  intros. unfold answers, pruned. induction (needs a) as [|f r IH]; simpl; [reflexivity|].
  rewrite IH. destruct (u f n), (keep e f n), (forallb (fun f0 => u f0 n) r); reflexivity.
Qed.

(* nothing at all is answered below e - LAG (and below e - 1 only header-by-number accessors) *)
Lemma below_lag_nothing : forall (u : store) e a n, n + LAG < e -> answers (pruned u e) a n = false.
Proof.
  intros. rewrite answers_pruned. apply andb_false_iff. right.
  destruct a; simpl; unfold LAG in *; nsplit.
Qed.

Definition header_only (a : acc) : bool :=
  match a with AHeaderByNumber | AHeaderHashByNumber | ATxCountByNumber => true | _ => false end.

Lemma below_floor_only_carveouts : forall (u : store) e a n, n < e ->
  answers (pruned u e) a n = true ->
  (header_only a = true /\ e <= n + LAG) \/ (a = ANumberByHash /\ n + 1 = e) \/
  (a = AHeaderByHash /\ n + 1 = e).
Proof.
  intros u e a n Hn H. rewrite answers_pruned in H. apply andb_true_iff in H. destruct H as [_ H].
  destruct a; simpl in H; unfold LAG in *;
    first [ left; split; [reflexivity|lia]
          | right; left; split; [reflexivity|lia]
          | right; right; split; [reflexivity|lia]
          | exfalso; lia ].
Qed.

(* and the carve-outs are really there (when the unpruned twin has them) *)
Lemma carveouts_present : forall (u : store) e n,
  (e <= n + LAG -> pruned u e Hdr n = u Hdr n) /\ (e <= n + 1 -> pruned u e H2n n = u H2n n).
Proof.
  intros. unfold pruned, keep, LAG. split; intros.
  - replace (e - 10 <=? n) with true by lia. apply andb_true_r.
  - replace (e - 1 <=? n) with true by lia. apply andb_true_r.
Qed.

Lemma below_floor_families : forall (u : store) e f n, n < e -> pruned u e f n = true ->
  (f = Hdr /\ e <= n + LAG) \/ (f = H2n /\ n + 1 = e) \/ f = HistNew \/ (f = Bloom /\ wf e <= n).
Proof.
  intros u e f n Hn H. unfold pruned in H. apply andb_true_iff in H. destruct H as [_ H].
  unfold keep, wf, LAG in *. destruct f; try lia; auto.
  - left. split; [reflexivity|lia].
  - right. left. split; [reflexivity|lia].
  - right. right. right. split; [reflexivity|lia].
Qed.

(* ---------------------------------------------------------------- E. resume *)
Lemma find_from_first : forall p fuel n t,
  (forall i, n <= i -> i < t -> p i = false) -> p t = true -> n <= t ->
  (N.to_nat (t - n) < fuel)%nat -> find_from p fuel n = Some t.
Proof.
  induction fuel as [|fuel IH]; intros n t Hlo Ht Hnt Hf; [lia|]. simpl.
  destruct (N.eq_dec n t) as [->|Hne]; [rewrite Ht; reflexivity|].
  rewrite Hlo by lia. apply IH; try assumption; try lia. intros. apply Hlo; lia.
Qed.

Lemma oldest_is : forall (s : store) head t,
  (forall i, i < t -> s Cm i = false) -> s Cm t = true -> t <= head -> oldest s head = Some t.
Proof.
  intros. unfold oldest. apply find_from_first; try assumption; try lia. intros. apply H. assumption.
Qed.

(* pointwise algebra of the two resume situations (kept small: one family at a time) *)
Lemma resume_from_o : forall f i o e j e', o < e -> o <= j -> j <= e -> e <= e' -> e' < W64 ->
  keep o f i && negb (prefix_kills f i o e j false) && negb (run_kills f i o e' e') = keep e' f i.
Proof.
  intros f i o e j e' Hoe Hoj Hje Hee' HW.
  rewrite <- (keep_after_run f i o e') by lia.
  assert (E1 : sub64 e 1 = e - 1) by (apply sub64_exact; lia).
  assert (E1' : sub64 e' 1 = e' - 1) by (apply sub64_exact; lia).
  unfold prefix_kills, run_kills, init_kills, flat_kills, range_kills, keep, LAG. rewrite ?E1, ?E1'.
  destruct f; nsplit.
Qed.

Lemma cancelled_then_init : forall f i o e k, o < e -> o <= k -> k <= e -> e < W64 ->
  keep o f i && negb (prefix_kills f i o e k true) && negb (init_kills f i k)
  = keep k f i && negb (init_kills f i k).
Proof.
  intros f i o e k Hoe Hok Hke HW.
  assert (E1 : sub64 e 1 = e - 1) by (apply sub64_exact; lia).
  pose proof (wf_mono o k ltac:(lia)) as Hw. unfold wf in Hw.
  unfold prefix_kills, init_kills, flat_kills, range_kills, keep, LAG. rewrite ?E1.
  destruct f; nsplit.
Qed.

Lemma resume_from_k : forall f i o e k e', o < e -> o <= k -> k <= e -> e <= e' -> k < e' -> e' < W64 ->
  keep o f i && negb (prefix_kills f i o e k true) && negb (run_kills f i k e' e') = keep e' f i.
Proof.
  intros f i o e k e' Hoe Hok Hke Hee' Hke' HW.
  rewrite <- (keep_after_run f i k e') by lia.
  pose proof (cancelled_then_init f i o e k Hoe Hok Hke ltac:(lia)) as X.
  unfold run_kills. destruct (init_kills f i k); cbn [orb negb] in *.
  - rewrite !andb_false_r. reflexivity.
  - rewrite !andb_true_r in X. rewrite X. reflexivity.
Qed.

(* a complete cancelled run, k = e: the shape is exactly keep e *)
Lemma complete_prefix : forall f i o e, o < e -> e < W64 ->
  keep o f i && negb (prefix_kills f i o e e true) = keep e f i.
Proof.
  intros. rewrite <- (keep_after_run f i o e) by lia. unfold prefix_kills, run_kills.
  cbn [andb]. reflexivity.
Qed.

(* interrupt a sweep o -> e (cancelled at k, cut after m batches) anywhere, run a complete sweep to
   e' >= e afterwards: the result is the pruned shape at e', exactly as if nothing had been interrupted *)
Lemma resume_same_final : forall (u : store) head o e k e' rot rot' m f i,
  (forall j, j <= head -> u Cm j = true) ->
  o < e -> o <= k -> k <= e -> e <= e' -> e' <= head -> e' < W64 ->
  let s1 := interrupted (pruned u o) (prune_batches o e k rot) m in
  apply_batches s1 (prune_plan s1 head e' e' rot') f i = pruned u e' f i.
Proof.
  intros u head o e k e' rot rot' m f i Hcm Hoe Hok Hke Hee' He'h He'W s1.
  assert (S1 : forall g x, s1 g x = pruned u o g x &&
                  negb (killed g x (concat (firstn m (prune_batches o e k rot))))).
  { intros. unfold s1, interrupted. apply apply_batches_spec. }
  destruct (prune_batches_prefix o e k rot m Hok) as [H|[[j [Hj H]]|H]].
  - (* nothing committed *)
    assert (Ho : oldest s1 head = Some o).
    { apply oldest_is; try lia.
      - intros. rewrite S1, H. unfold pruned, keep. replace (o <=? i0) with false by lia.
        rewrite andb_false_r. reflexivity.
      - rewrite S1, H. unfold pruned, keep. rewrite Hcm by lia. replace (o <=? o) with true by lia.
        reflexivity. }
    unfold prune_plan. rewrite Ho. replace (e' <=? o) with false by lia.
    replace (N.max o (N.min e' e')) with e' by lia.
    rewrite apply_batches_spec, killed_prune_batches by lia. rewrite S1, H. unfold pruned.
    rewrite andb_true_r, <- andb_assoc, keep_after_run by lia. reflexivity.
  - (* some hash-keyed batches committed, range deletes not yet *)
    assert (Ho : oldest s1 head = Some o).
    { apply oldest_is; try lia.
      - intros. rewrite S1, H. unfold pruned, keep. replace (o <=? i0) with false by lia.
        rewrite andb_false_r. reflexivity.
      - rewrite S1, H. unfold pruned, keep, prefix_kills. cbn. rewrite Hcm by lia.
        replace (o <=? o) with true by lia. reflexivity. }
    unfold prune_plan. rewrite Ho. replace (e' <=? o) with false by lia.
    replace (N.max o (N.min e' e')) with e' by lia.
    rewrite apply_batches_spec, killed_prune_batches by lia. rewrite S1, H. unfold pruned.
    destruct (u f i); [cbn [andb]|reflexivity].
    apply (resume_from_o f i o e j e'); lia.
  - (* the whole cancelled run committed: the store restarts from k *)
    assert (Ho : oldest s1 head = Some k).
    { apply oldest_is; try lia.
      - intros. rewrite S1, H. unfold pruned, keep, prefix_kills. cbn.
        replace (i0 <? k) with true by lia. rewrite !andb_false_r. reflexivity.
      - rewrite S1, H. unfold pruned, keep, prefix_kills. cbn. rewrite Hcm by lia.
        replace (o <=? k) with true by lia. replace (k <? k) with false by lia. reflexivity. }
    unfold prune_plan. rewrite Ho.
    destruct (N.eq_dec k e') as [Hk|Hk].
    + (* k = e = e': already complete *)
      subst k. assert (e = e') by lia. subst e'.
      replace (e <=? e) with true by lia. cbn [apply_batches fold_left].
      rewrite S1, H. unfold pruned. rewrite <- andb_assoc, complete_prefix by lia. reflexivity.
    + replace (e' <=? k) with false by lia.
      replace (N.max k (N.min e' e')) with e' by lia.
      rewrite apply_batches_spec, killed_prune_batches by lia. rewrite S1, H. unfold pruned.
      destruct (u f i); [cbn [andb]|reflexivity].
      apply (resume_from_k f i o e k e'); lia.
Qed.
