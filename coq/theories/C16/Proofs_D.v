(* C16 — lemmas, part 4: growth / revert on a pruned node, state by hash, floor-first, reseeding after a
   crash, min-age sampler. *)
From Coq Require Import List NArith ZArith Bool Lia ZifyN ZifyNat ZifyBool.
From V Require Import C16.Model C16.Proofs C16.Proofs_B C16.Proofs_C.
Import ListNotations.
Open Scope N_scope.

(* ---------------------------------------------------------------- F. extension and revert *)
Lemma keep_block_above : forall o f h, is_block_fam f = true -> o <= h -> keep o f h = true.
Proof. intros o f h Hf Hh. unfold keep, LAG. destruct f; try reflexivity; try discriminate; lia. Qed.

(* storing / reverting block h >= o on the pruned node = pruning the twin that stored / reverted it *)
Lemma set_block_commutes : forall (u : store) o h b f i, o <= h ->
  pruned (set_block u h b) o f i = set_block (pruned u o) h b f i.
Proof.
  intros. unfold pruned, set_block. destruct (is_block_fam f) eqn:Bf; simpl; [|reflexivity].
  destruct (N.eqb_spec i h); [|reflexivity]. subst. rewrite keep_block_above by assumption.
  apply andb_true_r.
Qed.

(* a bloom window whose start is at or above wf o is handled identically *)
Lemma set_window_commutes : forall (u : store) o w b f i, wf o <= w ->
  pruned (set_window u w b) o f i = set_window (pruned u o) w b f i.
Proof.
  intros. unfold pruned, set_window. destruct f; try reflexivity.
  destruct (N.eqb_spec i w); [|reflexivity]. subst. unfold keep. unfold wf in H.
  replace (o - o mod WIN <=? w) with true by lia. apply andb_true_r.
Qed.

Lemma can_revert_pruned : forall (u : store) o h,
  can_revert (pruned u o) h = can_revert u h && (o <=? h).
Proof.
  intros. unfold can_revert, pruned, keep, LAG.
  destruct (u Su h), (u Hdr h), (u Txs h); cbn [andb]; try reflexivity; try lia.
Qed.

Lemma can_extend_pruned : forall (u : store) o h, o <= h + LAG ->
  can_extend (pruned u o) h = can_extend u h.
Proof.
  intros. unfold can_extend, pruned, keep, LAG in *. replace (o - 10 <=? h) with true by lia.
  apply andb_true_r.
Qed.

(* at every interruption point of a sweep to e the head can be reverted down to e and extended *)
Lemma can_revert_interrupted : forall (s : store) o e k rot m h, o <= k -> k <= e -> e <= h ->
  can_revert (interrupted s (prune_batches o e k rot) m) h = can_revert s h /\
  can_extend (interrupted s (prune_batches o e k rot) m) h = can_extend s h.
Proof.
  intros. unfold can_revert, can_extend.
  rewrite !retained_unchanged_fam by (try assumption; simpl; lia). split; reflexivity.
Qed.

(* ---------------------------------------------------------------- G. state by hash *)
(* StateAtBlockHash consults only hash->number. At every interruption point: if the hash of block n
   still resolves, every old-value log above n is still there, so the state as of n is answered
   exactly (this is why the loop deletes hash->number and the logs of a block in the same batch,
   in ascending order, and why the carve-out block keeps its hash) *)
Lemma hash_resolves_logs_intact : forall (u : store) o e k rot m n b,
  o < e -> o <= k -> k <= e -> e < W64 ->
  let s1 := interrupted (pruned u o) (prune_batches o e k rot) m in
  s1 H2n n = true -> n < b -> s1 Hist b = u Hist b.
Proof.
  intros u o e k rot m n b Hoe Hok Hke HW s1 Hn Hb.
  assert (E1 : sub64 e 1 = e - 1) by (apply sub64_exact; lia).
  assert (S1 : forall g x, s1 g x = pruned u o g x &&
                  negb (killed g x (concat (firstn m (prune_batches o e k rot))))).
  { intros. unfold s1, interrupted. apply apply_batches_spec. }
  rewrite S1 in Hn. rewrite S1. unfold pruned in *.
  destruct (prune_batches_prefix o e k rot m Hok) as [H|[[j [Hj H]]|H]];
    rewrite H in *; unfold prefix_kills, init_kills, flat_kills, range_kills, keep in *;
    rewrite ?E1 in *; destruct (u Hist b); cbn [andb] in *; try reflexivity; lia.
Qed.

(* ---------------------------------------------------------------- H. floor first, reseeding *)
(* in-process: pruneUpto raised the shared floor to e-1 before the first delete, so whatever the
   backend still serves by number is at n >= e-1, where old-value reads are intact *)
Lemma served_reads_intact : forall (s : store) o e k rot m st height lg hv n,
  o <= k -> k <= e -> 0 < e -> e < W64 -> st < W64 ->
  state_served (prune_floor e st) height n = true ->
  read_old lg (interrupted s (prune_batches o e k rot) m Hist) hv n = read_old lg (s Hist) hv n.
Proof.
  intros s o e k rot m st height lg hv n Hok Hke He HW Hst Hs.
  apply state_from_floor_old; try assumption.
  unfold state_served in Hs. rewrite prune_floor_spec in Hs by assumption. unfold floor_of in Hs.
  destruct (N.eqb_spec (N.max st e) 0); [lia|]. lia.
Qed.

(* after a graceful cancel (all batches of the cancelled run committed) a restart reseeds the floor
   at k-1 and the logs from k upwards are intact *)
Lemma reseed_after_cancel : forall (u : store) head o e k rot,
  (forall j, j <= head -> u Cm j = true) -> o < e -> o <= k -> k <= e -> k <= head -> e < W64 ->
  let s1 := apply_batches (pruned u o) (prune_batches o e k rot) in
  oldest s1 head = Some k /\ forall b, k <= b -> s1 Hist b = u Hist b.
Proof.
  intros u head o e k rot Hcm Hoe Hok Hke Hkh HW s1.
  assert (S1 : forall g x, s1 g x = pruned u o g x && negb (run_kills g x o e k)).
  { intros. unfold s1. rewrite apply_batches_spec, killed_prune_batches by assumption. reflexivity. }
  split.
  - apply oldest_is; try assumption.
    + intros. rewrite S1. unfold pruned, run_kills, keep. cbn.
      replace (i <? k) with true by lia. rewrite !andb_false_r. reflexivity.
    + rewrite S1. unfold pruned, run_kills, keep. cbn. rewrite Hcm by lia.
      replace (o <=? k) with true by lia. replace (k <? k) with false by lia. reflexivity.
  - intros. rewrite S1. unfold pruned, run_kills, keep, init_kills, flat_kills, range_kills.
    destruct (u Hist b); cbn [andb orb negb]; [|reflexivity]. lia.
Qed.

(* ---------------------------------------------------------------- I. min-age sampler *)
Lemma bsearch_spec : forall fuel ts cutoff low high lower upper,
  (forall a b, lower <= a -> a <= b -> b <= upper -> ts a <= ts b) ->
  lower <= low -> low <= high -> high <= upper + 1 ->
  (forall m, lower <= m -> m < low -> ts m < cutoff) ->
  (forall m, high <= m -> m <= upper -> cutoff <= ts m) ->
  (N.to_nat (high - low) < fuel)%nat ->
  let r := bsearch fuel ts cutoff low high in
  low <= r /\ r <= high /\ (forall m, lower <= m -> m < r -> ts m < cutoff) /\
  (forall m, r <= m -> m <= upper -> cutoff <= ts m).
Proof.
  induction fuel as [|fuel IH]; intros ts cutoff low high lower upper Hmono Hl Hlh Hh Hlo Hhi Hf; [lia|].
  simpl. destruct (N.ltb_spec low high) as [L|L].
  - set (mid := low + (high - low) / 2).
    assert (Hmid : low <= mid /\ mid < high).
    { unfold mid. pose proof (N.div_mod (high - low) 2 ltac:(lia)) as D.
      pose proof (N.mod_lt (high - low) 2 ltac:(lia)). lia. }
    destruct (N.ltb_spec (ts mid) cutoff) as [T|T].
    + assert (Hlo' : forall m, lower <= m -> m < mid + 1 -> ts m < cutoff).
      { intros m Hm1 Hm2. pose proof (Hmono m mid ltac:(lia) ltac:(lia) ltac:(lia)). lia. }
      assert (R := IH ts cutoff (mid + 1) high lower upper Hmono ltac:(lia) ltac:(lia) ltac:(lia) Hlo' Hhi).
      cbv zeta in R. destruct R as [R1 [R2 [R3 R4]]]; try lia.
      repeat split; try assumption; lia.
    + assert (R := IH ts cutoff low mid lower upper Hmono ltac:(lia) ltac:(lia) ltac:(lia) Hlo).
      cbv zeta in R. destruct R as [R1 [R2 [R3 R4]]]; try lia.
      * intros m Hm1 Hm2. pose proof (Hmono mid m ltac:(lia) ltac:(lia) ltac:(lia)). lia.
      * repeat split; try assumption; lia.
  - repeat split; try lia.
    + intros. apply Hlo; lia.
    + intros. apply Hhi; lia.
Qed.

(* FindOldestBlockAtOrAfter on non-decreasing timestamps returns the first block at or after the
   cut-off, or reports that there is none *)
Lemma find_oldest_spec : forall ts lower upper cutoff,
  (forall a b, lower <= a -> a <= b -> b <= upper -> ts a <= ts b) ->
  match find_oldest ts lower upper cutoff with
  | Some r => lower <= r /\ r <= upper /\ cutoff <= ts r /\ (forall m, lower <= m -> m < r -> ts m < cutoff)
  | None => forall m, lower <= m -> m <= upper -> ts m < cutoff
  end.
Proof.
  intros ts lower upper cutoff Hmono. unfold find_oldest.
  destruct (N.ltb_spec upper lower) as [U|U]; [intros; lia|].
  pose proof (bsearch_spec (S (N.to_nat (upper + 1 - lower))) ts cutoff lower (upper + 1) lower upper
                Hmono ltac:(lia) ltac:(lia) ltac:(lia) ltac:(intros; lia) ltac:(intros; lia) ltac:(lia)) as B.
  cbv zeta in B. destruct B as [B1 [B2 [B3 B4]]].
  destruct (N.ltb_spec upper (bsearch (S (N.to_nat (upper + 1 - lower))) ts cutoff lower (upper + 1))).
  - intros. apply B3; lia.
  - repeat split; try assumption; try lia. apply B4; lia.
Qed.
