(* C16 — lemmas about the history-pruner migration (C16/Migrate.v), part 1: the algebra of the writes
   (closed forms of a list of stager / restorer blocks, of the two set-up batches), the invariants. *)
From Coq Require Import List NArith ZArith Bool Lia ZifyN ZifyNat ZifyBool.
From V Require Import C16.Model C16.Proofs.
Import ListNotations.
Open Scope N_scope.

(* ---------------------------------------------------------------- lists of batches *)
Lemma mapply_ops_app : forall ch a b m, mapply_ops ch m (a ++ b) = mapply_ops ch (mapply_ops ch m a) b.
Proof. intros. unfold mapply_ops. apply fold_left_app. Qed.

Lemma mapply_batches_app : forall ch a b m,
  mapply_batches ch m (a ++ b) = mapply_batches ch (mapply_batches ch m a) b.
Proof. intros. unfold mapply_batches. apply fold_left_app. Qed.

Lemma mapply_batches_concat : forall ch bs m, mapply_batches ch m bs = mapply_ops ch m (concat bs).
Proof.
  induction bs as [|b r IH]; intros; simpl; [reflexivity|].
  rewrite mapply_ops_app. unfold mapply_batches in *. simpl. apply IH.
Qed.

Lemma mapply_batches_one : forall ch b m, mapply_batches ch m [b] = mapply_ops ch m b.
Proof. reflexivity. Qed.

Lemma concat_map_map : forall (A B : Type) (f : A -> B) (l : list (list A)),
  concat (map (map f) l) = map f (concat l).
Proof. intros. symmetry. apply concat_map. Qed.

(* ---------------------------------------------------------------- copy_opt *)
Lemma copy_opt_idem : forall a b, copy_opt a (copy_opt a b) = copy_opt a b.
Proof. intros [x|] b; reflexivity. Qed.

(* ---------------------------------------------------------------- one stager / restorer block *)
Lemma stage_blk : forall ch m n, blk (mapply ch m (MStage n)) = blk m.
Proof. intros. simpl. destruct (blk m Su n); reflexivity. Qed.
Lemma stage_hlog : forall ch m n, hlog (mapply ch m (MStage n)) = hlog m.
Proof. intros. simpl. destruct (blk m Su n); reflexivity. Qed.
Lemma stage_scr : forall ch m n i j,
  scr (mapply ch m (MStage n)) i j =
  if blk m Su n && (i =? n) && (j <? c_dlen ch i) then copy_opt (hlog m i j) (scr m i j) else scr m i j.
Proof.
  intros. simpl. destruct (blk m Su n); simpl; [|reflexivity].
  destruct (N.eqb_spec i n) as [->|]; reflexivity.
Qed.

Lemma restore_scr : forall ch m n, scr (mapply ch m (MRestore n)) = scr m.
Proof. intros. simpl. destruct (blk m Su n); reflexivity. Qed.
Lemma restore_hlog : forall ch m n i j,
  hlog (mapply ch m (MRestore n)) i j =
  if blk m Su n && (i =? n) && (j <? c_dlen ch i) then copy_opt (scr m i j) (hlog m i j) else hlog m i j.
Proof.
  intros. simpl. destruct (blk m Su n); simpl; [|reflexivity].
  destruct (N.eqb_spec i n) as [->|]; reflexivity.
Qed.
Lemma restore_blk : forall ch m n f i,
  blk (mapply ch m (MRestore n)) f i = (blk m Su n && is_look f && (i =? n)) || blk m f i.
Proof.
  intros. simpl. destruct (blk m Su n); simpl; [|reflexivity].
  destruct (is_look f && (i =? n)); reflexivity.
Qed.

(* ---------------------------------------------------------------- a list of stager blocks *)
Definition hit (su : N -> bool) (l : list N) (i : N) : bool := existsb (fun n => su n && (i =? n)) l.

Lemma hit_in : forall su l i, hit su l i = true <-> In i l /\ su i = true.
Proof.
  intros. unfold hit. rewrite existsb_exists. split.
  - intros [n [Hn H]]. apply andb_true_iff in H. destruct H as [H1 H2].
    apply N.eqb_eq in H2. subst. auto.
  - intros [H1 H2]. exists i. rewrite H2, N.eqb_refl. auto.
Qed.

Lemma stage_list : forall ch l m,
  let m' := mapply_ops ch m (map MStage l) in
  blk m' = blk m /\ hlog m' = hlog m /\
  forall i j, scr m' i j =
    if hit (blk m Su) l i && (j <? c_dlen ch i) then copy_opt (hlog m i j) (scr m i j) else scr m i j.
Proof.
  induction l as [|n r IH]; intros m; cbn zeta.
  - simpl. auto.
  - change (mapply_ops ch m (map MStage (n :: r))) with (mapply_ops ch (mapply ch m (MStage n)) (map MStage r)).
    destruct (IH (mapply ch m (MStage n))) as [B [H S]]. cbn zeta in *.
    rewrite stage_blk in B. rewrite stage_hlog in H. split; [exact B|]. split; [exact H|].
    intros i j. rewrite S, stage_blk, stage_hlog, stage_scr. simpl hit.
    destruct (blk m Su n); simpl; [|reflexivity].
    destruct (N.eqb_spec i n) as [->|E]; simpl; [|reflexivity].
    destruct (j <? c_dlen ch n); simpl.
    + rewrite andb_true_r. destruct (hit (blk m Su) r n); [apply copy_opt_idem|reflexivity].
    + rewrite !andb_false_r. reflexivity.
Qed.

Lemma hit_ext : forall su su' l i, (forall x, su x = su' x) -> hit su l i = hit su' l i.
Proof.
  intros su su' l i E. unfold hit. induction l as [|a r IH]; simpl; [reflexivity|].
  rewrite E, IH. reflexivity.
Qed.

Lemma restore_list : forall ch l m,
  let m' := mapply_ops ch m (map MRestore l) in
  scr m' = scr m /\
  (forall f i, blk m' f i = (is_look f && hit (blk m Su) l i) || blk m f i) /\
  forall i j, hlog m' i j =
    if hit (blk m Su) l i && (j <? c_dlen ch i) then copy_opt (scr m i j) (hlog m i j) else hlog m i j.
Proof.
  induction l as [|n r IH]; intros m; cbn zeta.
  - simpl. split; [reflexivity|]. split; intros; [rewrite andb_false_r|]; reflexivity.
  - change (mapply_ops ch m (map MRestore (n :: r))) with (mapply_ops ch (mapply ch m (MRestore n)) (map MRestore r)).
    destruct (IH (mapply ch m (MRestore n))) as [S [B H]]. cbn zeta in *.
    rewrite restore_scr in S. split; [exact S|].
    assert (Su' : forall x, blk (mapply ch m (MRestore n)) Su x = blk m Su x).
    { intros x. rewrite restore_blk. simpl. rewrite andb_false_r. reflexivity. }
    assert (Hit' : forall i, hit (blk (mapply ch m (MRestore n)) Su) r i = hit (blk m Su) r i).
    { intros i. apply hit_ext. exact Su'. }
    split.
    + intros f i. rewrite B, Hit', restore_blk. simpl hit.
      destruct (blk m Su n); simpl; [|reflexivity].
      destruct (is_look f); simpl; [|reflexivity].
      destruct (i =? n); simpl; [|reflexivity]. rewrite orb_true_r. reflexivity.
    + intros i j. rewrite H, Hit', restore_scr, restore_hlog. simpl hit.
      destruct (blk m Su n); simpl; [|reflexivity].
      destruct (N.eqb_spec i n) as [->|E]; simpl; [|reflexivity].
      destruct (j <? c_dlen ch n); simpl.
      * rewrite andb_true_r. destruct (hit (blk m Su) r n); [apply copy_opt_idem|reflexivity].
      * rewrite !andb_false_r. reflexivity.
Qed.

(* ---------------------------------------------------------------- the set-up batches, the wipe *)
Lemma mdel_list : forall ch ops m,
  let m' := mapply_ops ch m (map MDel ops) in
  blk m' = apply_ops (blk m) ops /\ hlog m' = hlog m /\ scr m' = scr m.
Proof.
  induction ops as [|o r IH]; intros m; cbn zeta; [auto|].
  change (mapply_ops ch m (map MDel (o :: r))) with (mapply_ops ch (mapply ch m (MDel o)) (map MDel r)).
  destruct (IH (mapply ch m (MDel o))) as [B [H S]]. cbn zeta in *. simpl in *. auto.
Qed.

Lemma setup1_spec : forall ch fl m,
  let m' := mapply_ops ch m (setup1_ops fl) in
  (forall f i, blk m' f i = blk m f i && negb (range_kills f i fl) && negb (is_look f)) /\
  hlog m' = hlog m /\ scr m' = scr m.
Proof.
  intros. unfold m', setup1_ops. rewrite mapply_ops_app.
  destruct (mdel_list ch (range_ops fl) m) as [B [H S]]. cbn zeta in *.
  set (X := mapply_ops ch m (map MDel (range_ops fl))) in *.
  change (mapply_ops ch X [MWipeLook]) with (mapply ch X MWipeLook).
  cbn [mapply blk hlog scr]. rewrite B, H, S. split; [|auto].
  intros. rewrite apply_ops_spec, killed_range_ops. reflexivity.
Qed.

Lemma setup2_spec : forall ch fl m,
  let m' := mapply_ops ch m (setup2_ops fl) in
  (forall f i, blk m' f i =
     match f with H2n => ((0 <? fl) && (i =? sub64 fl 1)) || blk m f i | _ => blk m f i end) /\
  (forall i j, hlog m' i j = None) /\ scr m' = scr m.
Proof.
  intros. unfold m', setup2_ops. destruct (0 <? fl); simpl.
  - split; [intros [] i; reflexivity|]. auto.
  - split; [intros [] i; reflexivity|]. auto.
Qed.

(* N subtraction truncates at 0 exactly where the pruner's guards are *)
Lemma keep_range : forall fl f i, is_look f = false -> f <> Hist ->
  negb (range_kills f i fl) = keep fl f i.
Proof. intros fl f i L H. destruct f; simpl in *; try discriminate; try congruence; try reflexivity; lia. Qed.

Lemma keep_zero : forall f i, keep 0 f i = true.
Proof. intros [] i; simpl; try reflexivity; try lia. Qed.

Lemma keep_idem : forall fl f i, keep fl f i && keep fl f i = keep fl f i.
Proof. intros. apply andb_diag. Qed.

(* ---------------------------------------------------------------- entries: where the value of a log is *)
(* t = the log in the database before the migration; h = the history bucket now; s = scratch now.
   "good": neither holds a wrong value, and at least one of them holds the right one. *)
Definition egood (t h s : option N) : Prop :=
  (h = None \/ h = t) /\ (s = None \/ s = t) /\ (h = t \/ s = t).

Lemma egood_stage : forall t h s, egood t h s -> copy_opt h s = t.
Proof.
  intros t h s [[H1|H1] [[H2|H2] [H3|H3]]]; subst; simpl; try reflexivity; try congruence.
  - destruct t; reflexivity.
  - destruct t; reflexivity.
  - destruct t; reflexivity.
Qed.

Lemma egood_restore : forall t h s, egood t h s -> copy_opt s h = t.
Proof.
  intros t h s [[H1|H1] [[H2|H2] [H3|H3]]]; subst; simpl; try reflexivity; try congruence.
  - destruct t; reflexivity.
  - destruct t; reflexivity.
  - destruct t; reflexivity.
Qed.

Lemma egood_set_s : forall t h s, egood t h s -> egood t h t.
Proof. intros t h s [H1 _]. split; [exact H1|]. split; right; reflexivity. Qed.
Lemma egood_set_h : forall t h s, egood t h s -> egood t t s.
Proof. intros t h s [_ [H2 _]]. split; [right; reflexivity|]. split; [exact H2|left; reflexivity]. Qed.
Lemma egood_wipe_h : forall t s, s = t -> egood t None s.
Proof. intros. subst. split; [left; reflexivity|]. split; right; reflexivity. Qed.
Lemma egood_wipe_s : forall t h, h = t -> egood t h None.
Proof. intros. subst. split; [right; reflexivity|]. split; left; reflexivity. Qed.


(* ---------------------------------------------------------------- the restage marker *)
(* only the scratch wipe removes it; nothing in a batch writes it *)
Lemma mark_op : forall ch m o, o <> MWipeScr -> mark (mapply ch m o) = mark m.
Proof.
  intros ch m o H. destruct o; simpl; try reflexivity; try contradiction.
  - destruct (blk m Su i); reflexivity.
  - destruct (blk m Su i); reflexivity.
Qed.

Lemma mark_ops : forall ch ops m, (forall o, In o ops -> o <> MWipeScr) ->
  mark (mapply_ops ch m ops) = mark m.
Proof.
  induction ops as [|o r IH]; intros m H; [reflexivity|].
  change (mapply_ops ch m (o :: r)) with (mapply_ops ch (mapply ch m o) r).
  rewrite IH by (intros; apply H; right; assumption). apply mark_op. apply H. left. reflexivity.
Qed.

Lemma mark_setup1 : forall ch fl m, mark (mapply_ops ch m (setup1_ops fl)) = mark m.
Proof.
  intros. apply mark_ops. intros o I. unfold setup1_ops in I. apply in_app_or in I. destruct I as [I|I].
  - apply in_map_iff in I. destruct I as [x [E _]]. subst. discriminate.
  - destruct I as [E|[]]. subst. discriminate.
Qed.

Lemma mark_setup2 : forall ch fl m, mark (mapply_ops ch m (setup2_ops fl)) = mark m.
Proof.
  intros. apply mark_ops. intros o I. unfold setup2_ops in I. destruct I as [E|I]; [subst; discriminate|].
  destruct (0 <? fl); [destruct I as [E|[]]; subst; discriminate|destruct I].
Qed.

Lemma mark_stage : forall ch l m, mark (mapply_ops ch m (map MStage l)) = mark m.
Proof. intros. apply mark_ops. intros o I. apply in_map_iff in I. destruct I as [x [E _]]. subst. discriminate. Qed.

Lemma mark_restore : forall ch l m, mark (mapply_ops ch m (map MRestore l)) = mark m.
Proof. intros. apply mark_ops. intros o I. apply in_map_iff in I. destruct I as [x [E _]]. subst. discriminate. Qed.

(* an empty scratch namespace *)
Lemma scr_empty_none : forall ch m, (forall i j, scr m i j = None) -> scr_empty ch m = true.
Proof.
  intros ch m H. unfold scr_empty. apply forallb_forall. intros i _. apply forallb_forall. intros j _.
  rewrite H. reflexivity.
Qed.
