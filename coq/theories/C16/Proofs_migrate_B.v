(* C16 — lemmas about the history-pruner migration, part 2: the shape of a call's batch list, every
   prefix of it (= every crash point), one call preserves the invariant / completes the migration. *)
From Coq Require Import List NArith ZArith Bool Lia ZifyN ZifyNat ZifyBool.
From V Require Import C16.Model C16.Proofs C16.Proofs_migrate.
Import ListNotations.
Open Scope N_scope.

(* ---------------------------------------------------------------- the four batch lists a call can have *)
Definition B1 (rp fl : N) : list (list mop) := if rp =? 0 then [setup1_ops fl] else [].
Definition STG (ch : chain) (sp : N) (sc : msched) : list (list mop) :=
  if c_head ch <? sp then [] else map (map MStage) (s_stage sc).
Definition B2 (rp fl : N) : list (list mop) := if rp =? 0 then [setup2_ops fl] else [].
Definition RST (sc : msched) : list (list mop) := map (map MRestore) (s_restore sc).
Definition P1 ch sp rp fl sc := B1 rp fl ++ STG ch sp sc.
Definition P2 ch sp rp fl sc := P1 ch sp rp fl sc ++ B2 rp fl ++ RST sc.
Definition P3 ch sp rp fl sc := P2 ch sp rp fl sc ++ [[MWipeScr]].

Lemma mig_plan_shape : forall ch m sp rp fl sc,
  let pr := mig_plan ch m sp rp fl sc in
  (fst pr = [] /\ snd pr = RErr) \/
  (fst pr = P1 ch sp rp fl sc /\ stage_reached (s_stop sc) = true /\
     (snd pr = RErr \/ exists c, s_stop sc = SCancelStage c /\ snd pr = RBlob c 0 fl)) \/
  (fst pr = P2 ch sp rp fl sc /\ restore_reached (s_stop sc) = true /\
     (snd pr = RErr \/ exists c, s_stop sc = SCancelRestore c /\ snd pr = RBlob (add64 (c_head ch) 1) c fl)) \/
  (fst pr = P3 ch sp rp fl sc /\ s_stop sc = SNone /\ snd pr = RDone).
Proof.
  intros. unfold pr, mig_plan, P3, P2, P1, B1, STG, B2, RST.
  destruct (s_stop sc) eqn:ST;
  repeat match goal with
  | |- context [if ?c then _ else _] => destruct c
  end; simpl; eauto 10.
Qed.

(* ---------------------------------------------------------------- prefixes *)
Lemma firstn_app_or : forall (X : Type) k (A B : list X),
  (exists k', firstn k (A ++ B) = firstn k' A) \/ (exists k', firstn k (A ++ B) = A ++ firstn k' B).
Proof.
  intros. rewrite firstn_app. destruct (Nat.le_gt_cases k (length A)) as [L|L].
  - left. exists k. replace (k - length A)%nat with 0%nat by lia. simpl. apply app_nil_r.
  - right. exists (k - length A)%nat. rewrite firstn_all2 by lia. reflexivity.
Qed.

Lemma firstn_short : forall (X : Type) k (A : list X), (length A <= 1)%nat -> firstn k A = [] \/ firstn k A = A.
Proof.
  intros X k [|a [|b r]] L; simpl in *; try lia.
  - left. destruct k; reflexivity.
  - destruct k; [left|right]; simpl; [reflexivity|]. destruct k; reflexivity.
Qed.

Lemma B1_short : forall rp fl, (length (B1 rp fl) <= 1)%nat.
Proof. intros. unfold B1. destruct (rp =? 0); simpl; lia. Qed.
Lemma B2_short : forall rp fl, (length (B2 rp fl) <= 1)%nat.
Proof. intros. unfold B2. destruct (rp =? 0); simpl; lia. Qed.

(* every prefix of a call's batch list (= every crash point) *)
Lemma prefix_P1 : forall ch sp rp fl sc k,
  let p := firstn k (P1 ch sp rp fl sc) in
  p = [] \/ (exists k', p = B1 rp fl ++ firstn k' (STG ch sp sc)).
Proof.
  intros. unfold p, P1.
  destruct (firstn_app_or _ k (B1 rp fl) (STG ch sp sc)) as [[k3 E]|[k3 E]]; rewrite E; clear E.
  - destruct (firstn_short _ k3 (B1 rp fl) (B1_short rp fl)) as [E|E]; rewrite E.
    + left. reflexivity.
    + right. exists 0%nat. simpl. rewrite app_nil_r. reflexivity.
  - right. exists k3. reflexivity.
Qed.

Lemma prefix_P2 : forall ch sp rp fl sc k,
  let p := firstn k (P2 ch sp rp fl sc) in
  p = [] \/
  (exists k', p = B1 rp fl ++ firstn k' (STG ch sp sc)) \/
  (exists k', p = P1 ch sp rp fl sc ++ B2 rp fl ++ firstn k' (RST sc)).
Proof.
  intros. unfold p, P2.
  destruct (firstn_app_or _ k (P1 ch sp rp fl sc) (B2 rp fl ++ RST sc)) as [[k2 E]|[k2 E]]; rewrite E; clear E.
  - destruct (prefix_P1 ch sp rp fl sc k2) as [E|E]; [left|right; left]; exact E.
  - destruct (firstn_app_or _ k2 (B2 rp fl) (RST sc)) as [[k3 E]|[k3 E]]; rewrite E; clear E.
    + destruct (firstn_short _ k3 (B2 rp fl) (B2_short rp fl)) as [E|E]; rewrite E.
      * right. left. exists (length (STG ch sp sc)). rewrite app_nil_r, firstn_all. reflexivity.
      * right. right. exists 0%nat. simpl. rewrite app_nil_r. reflexivity.
    + right. right. exists k3. reflexivity.
Qed.

Lemma prefix_P3 : forall ch sp rp fl sc k,
  let p := firstn k (P3 ch sp rp fl sc) in
  p = [] \/
  (exists k', p = B1 rp fl ++ firstn k' (STG ch sp sc)) \/
  (exists k', p = P1 ch sp rp fl sc ++ B2 rp fl ++ firstn k' (RST sc)) \/
  p = P3 ch sp rp fl sc.
Proof.
  intros. unfold p, P3.
  destruct (firstn_app_or _ k (P2 ch sp rp fl sc) [[MWipeScr]]) as [[k1 E]|[k1 E]]; rewrite E; clear E.
  - destruct (prefix_P2 ch sp rp fl sc k1) as [E|[E|E]]; auto.
  - destruct (firstn_short _ k1 [[MWipeScr]] ltac:(simpl; lia)) as [E|E]; rewrite E.
    + right. right. left. exists (length (RST sc)). unfold P2. rewrite app_nil_r, firstn_all. reflexivity.
    + right. right. right. reflexivity.
Qed.

Lemma firstn_firstn_ex : forall (X : Type) a b (l : list X), exists c, firstn a (firstn b l) = firstn c l.
Proof. intros. exists (Nat.min a b). apply firstn_firstn. Qed.

Lemma In_concat_firstn : forall (X : Type) k (bs : list (list X)) x,
  In x (concat (firstn k bs)) -> In x (concat bs).
Proof.
  intros X k bs x H. rewrite <- (firstn_skipn k bs) at 1. rewrite concat_app. apply in_or_app. left. assumption.
Qed.

Lemma firstn_map_map : forall (A B : Type) (f : A -> B) k (l : list (list A)),
  firstn k (map (map f) l) = map (map f) (firstn k l).
Proof. intros. apply firstn_map. Qed.

(* applying a (prefix of a) list of stager / restorer batches = applying the blocks one after another *)
Lemma stage_batches : forall ch m bs,
  mapply_batches ch m (map (map MStage) bs) = mapply_ops ch m (map MStage (concat bs)).
Proof. intros. rewrite mapply_batches_concat, concat_map_map. reflexivity. Qed.
Lemma restore_batches : forall ch m bs,
  mapply_batches ch m (map (map MRestore) bs) = mapply_ops ch m (map MRestore (concat bs)).
Proof. intros. rewrite mapply_batches_concat, concat_map_map. reflexivity. Qed.

(* ---------------------------------------------------------------- forallb-style schedule facts *)
Lemma within_spec : forall l a b, within l a b = true -> forall n, In n l -> a <= n /\ n < b.
Proof.
  intros l a b H n I. unfold within in H. rewrite forallb_forall in H. specialize (H n I). lia.
Qed.

Lemma range_N_in : forall a b i, a <= i -> i < b -> In i (range_N a b).
Proof.
  intros a b i A B. unfold range_N. apply in_map_iff. exists (N.to_nat (i - a)). split; [lia|].
  apply in_seq. lia.
Qed.

Lemma covers_spec : forall l a b, covers l a b = true -> forall i, a <= i -> i < b -> In i l.
Proof.
  intros l a b H i A B. unfold covers in H. rewrite forallb_forall in H.
  specialize (H i (range_N_in a b i A B)). apply existsb_exists in H. destruct H as [x [I E]].
  apply N.eqb_eq in E. subst. assumption.
Qed.

(* ---------------------------------------------------------------- what sched_ok says, phase by phase *)
Lemma phase_ok_within : forall l from head how, phase_ok l from head how = true ->
  forall n, In n l -> from <= n /\ n <= head.
Proof.
  intros l from head how H n I. unfold phase_ok in H. destruct how as [[c|]|].
  - apply andb_true_iff in H. destruct H as [H _]. apply andb_true_iff in H. destruct H as [H W].
    destruct (within_spec _ _ _ W n I). lia.
  - apply andb_true_iff in H. destruct H as [W _]. destruct (within_spec _ _ _ W n I). lia.
  - destruct (within_spec _ _ _ H n I). lia.
Qed.

Lemma sched_restore_within : forall ch sp rp fl sc, sched_ok ch sp rp fl sc = true ->
  restore_reached (s_stop sc) = true ->
  forall n, In n (concat (s_restore sc)) -> N.max fl rp <= n /\ n <= c_head ch.
Proof.
  intros ch sp rp fl sc H R. unfold sched_ok in H. rewrite R in H.
  apply andb_true_iff in H. destruct H as [H _]. apply andb_true_iff in H. destruct H as [_ H].
  eapply phase_ok_within. exact H.
Qed.

Lemma sched_restore_complete : forall ch sp rp fl sc, sched_ok ch sp rp fl sc = true ->
  s_stop sc = SNone ->
  forall i, N.max fl rp <= i -> i <= c_head ch -> In i (concat (s_restore sc)).
Proof.
  intros ch sp rp fl sc H R i A B. unfold sched_ok in H. rewrite R in H. simpl in H.
  apply andb_true_iff in H. destruct H as [H _]. apply andb_true_iff in H. destruct H as [_ H].
  apply andb_true_iff in H. destruct H as [_ C]. eapply covers_spec; [exact C| |]; lia.
Qed.

Lemma sched_restore_cancel : forall ch sp rp fl sc c, sched_ok ch sp rp fl sc = true ->
  s_stop sc = SCancelRestore c ->
  N.max fl rp <= c /\ c <= c_head ch /\
  (forall n, In n (concat (s_restore sc)) -> N.max fl rp <= n /\ n < c) /\
  (forall i, N.max fl rp <= i -> i < c -> In i (concat (s_restore sc))).
Proof.
  intros ch sp rp fl sc c H R. unfold sched_ok in H. rewrite R in H. simpl in H.
  apply andb_true_iff in H. destruct H as [H _]. apply andb_true_iff in H. destruct H as [_ H].
  apply andb_true_iff in H. destruct H as [H C]. apply andb_true_iff in H. destruct H as [H W].
  split; [lia|]. split; [lia|]. split.
  - intros n I. apply (within_spec _ _ _ W n I).
  - intros i A B. eapply covers_spec; [exact C| |]; lia.
Qed.

(* the stager phase of a call that went on to the restorer (or further): skipped, or complete *)
Lemma sched_stage_complete : forall ch sp rp fl sc, sched_ok ch sp rp fl sc = true ->
  restore_reached (s_stop sc) = true ->
  (c_head ch <? sp) = false ->
  forall i, N.max fl sp <= i -> i <= c_head ch -> In i (concat (s_stage sc)).
Proof.
  intros ch sp rp fl sc H R S i A B. unfold sched_ok in H. rewrite S in H.
  assert (SR : stage_reached (s_stop sc) = true) by (destruct (s_stop sc); try reflexivity; discriminate).
  rewrite SR in H. simpl in H.
  apply andb_true_iff in H. destruct H as [H _]. apply andb_true_iff in H. destruct H as [H _].
  destruct (s_stop sc); try discriminate; simpl in H;
    apply andb_true_iff in H; destruct H as [_ C]; (eapply covers_spec; [exact C| |]; lia).
Qed.

Lemma sched_stage_cancel : forall ch sp rp fl sc c, sched_ok ch sp rp fl sc = true ->
  s_stop sc = SCancelStage c ->
  (c_head ch <? sp) = false /\ N.max fl sp <= c /\ c <= c_head ch /\
  (forall i, N.max fl sp <= i -> i < c -> In i (concat (s_stage sc))).
Proof.
  intros ch sp rp fl sc c H R. unfold sched_ok in H. rewrite R in H. simpl in H.
  destruct (c_head ch <? sp); simpl in H; [discriminate|].
  apply andb_true_iff in H. destruct H as [H _]. apply andb_true_iff in H. destruct H as [H _].
  apply andb_true_iff in H. destruct H as [H C]. apply andb_true_iff in H. destruct H as [H W].
  split; [reflexivity|]. split; [lia|]. split; [lia|].
  intros i A B. eapply covers_spec; [exact C| |]; lia.
Qed.

(* ---------------------------------------------------------------- the undisturbed call's schedule *)
Lemma range_N_spec : forall a b i, In i (range_N a b) -> a <= i /\ i < b.
Proof.
  intros a b i H. unfold range_N in H. apply in_map_iff in H. destruct H as [k [E I]].
  apply in_seq in I. lia.
Qed.

Lemma within_range : forall a b, within (range_N a b) a b = true.
Proof.
  intros. unfold within. apply forallb_forall. intros i I. destruct (range_N_spec a b i I). lia.
Qed.

Lemma covers_range : forall a b, covers (range_N a b) a b = true.
Proof.
  intros. unfold covers. apply forallb_forall. intros i I. apply existsb_exists. exists i.
  split; [exact I|apply N.eqb_refl].
Qed.

Lemma sched_ok_canon : forall ch sp rp fl, sched_ok ch sp rp fl (canon ch sp rp fl) = true.
Proof.
  intros. unfold sched_ok, canon. simpl. rewrite !app_nil_r, !within_range, !covers_range.
  destruct (c_head ch <? sp); reflexivity.
Qed.
