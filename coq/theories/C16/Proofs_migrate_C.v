(* C16 — lemmas about the history-pruner migration, part 3: the invariants, what each phase does to them,
   one call preserves the invariant / completes the migration, every schedule of starts. *)
From Coq Require Import List NArith ZArith Bool Lia ZifyN ZifyNat ZifyBool.
From V Require Import C16.Model C16.Proofs C16.Proofs_B C16.Proofs_migrate C16.Proofs_migrate_B.
Import ListNotations.
Open Scope N_scope.

(* pruning deeper keeps less *)
Lemma keep_mono : forall d e f i, d <= e -> keep e f i = true -> keep d f i = true.
Proof.
  intros d e f i L H. destruct f; simpl in *; try reflexivity; try lia.
  pose proof (wf_mono d e L) as W. unfold wf in W. lia.
Qed.

(* ================================================================ the invariants *)
Section Mig.
Variable ch : chain.
Variable u : mstore.      (* the database before the migration *)
Variable F : N.           (* the cut-off *)
Notation head := (c_head ch).
Notation hu := (hlog u).

(* the unpruned chain 0..head: state updates and headers of every block, the reverse lookups of exactly
   the blocks 0..head, an empty scratch namespace, and every history log keyed by an entry of its
   block's state diff (deprecatedstate logs replaced classes, nonces and storage diffs only) *)
Hypothesis Hsu : forall i, i <= head -> blk u Su i = true.
Hypothesis Hhdr : forall i, i <= head -> blk u Hdr i = true.
Hypothesis Hlook : forall f, is_look f = true -> forall i, blk u f i = (i <=? head).
Hypothesis Hscr : forall i j, scr u i j = None.
Hypothesis Hwf : forall i j, c_dlen ch i <= j -> hu i j = None.
Hypothesis Habove : forall i j, head < i -> hu i j = None.
Hypothesis HF : F <= head.
Hypothesis Hhead : head + 1 < W64.

Definition NK (d : N) (m : mstore) : Prop :=
  forall f i, is_look f = false -> f <> Hist -> blk m f i = pruned (blk u) d f i.
(* an earlier start may have pruned to a lower cut-off d (nothing pinned yet), or not at all (d = 0) *)
Definition NKany (m : mstore) : Prop := exists d, d <= F /\ NK d m.
Definition SuOK (m : mstore) : Prop := forall i, F <= i -> i <= head -> blk m Su i = true.
Definition Good (m : mstore) : Prop :=
  forall i j, F <= i -> i <= head -> egood (hu i j) (hlog m i j) (scr m i j).
Definition staged (m : mstore) (i : N) : Prop := forall j, scr m i j = hu i j.
Definition restored (m : mstore) (i : N) : Prop := forall j, hlog m i j = hu i j.
Definition StagedTo (s : N) (m : mstore) : Prop := forall i, F <= i -> i < s -> i <= head -> staged m i.
Definition looks (m : mstore) (i : N) (b : bool) : Prop := forall f, is_look f = true -> blk m f i = b.
Definition RestoredTo (r : N) (m : mstore) : Prop :=
  forall i, F <= i -> i < r -> i <= head -> restored m i /\ looks m i true.
Definition Outside (m : mstore) : Prop :=
  forall i, i < F \/ head < i ->
    (forall j, hlog m i j = None) /\ (forall f, is_look f = true -> blk m f i = pruned (blk u) F f i).
(* what the property demands of the completed migration = the fields of mig_final u F *)
Definition Final (m : mstore) : Prop :=
  (forall f i, f <> Hist -> blk m f i = pruned (blk u) F f i) /\
  (forall i j, hlog m i j = if F <=? i then hu i j else None) /\
  (forall i j, scr m i j = None) /\ mark m = false.

Lemma NK_zero_init : NK 0 u.
Proof. intros f i _ _. unfold pruned. rewrite keep_zero, andb_true_r. reflexivity. Qed.

Lemma Good_init : Good u.
Proof. intros i j _ _. rewrite Hscr. apply egood_wipe_s. reflexivity. Qed.

Lemma NKany_su : forall m, NKany m -> SuOK m.
Proof.
  intros m [d [L H]] i Hi Hh. rewrite (H Su i eq_refl ltac:(discriminate)). unfold pruned.
  rewrite Hsu by assumption. simpl. lia.
Qed.

Lemma NKany_hdr : forall m, NKany m -> 0 < F -> blk m Hdr (F - 1) = true.
Proof.
  intros m [d [L H]] HF0. rewrite (H Hdr (F - 1) eq_refl ltac:(discriminate)). unfold pruned.
  rewrite Hhdr by lia. simpl. unfold LAG. lia.
Qed.

Lemma NK_any : forall m, NK F m -> NKany m.
Proof. intros m H. exists F. split; [lia|exact H]. Qed.

Lemma NK_eq : forall d m m', (forall f i, is_look f = false -> blk m' f i = blk m f i) -> NK d m -> NK d m'.
Proof. intros d m m' E H f i L N. rewrite E by assumption. apply H; assumption. Qed.

Lemma StagedTo_le : forall s s' m, s' <= s -> StagedTo s m -> StagedTo s' m.
Proof. intros s s' m L H i A B C. apply H; lia. Qed.

(* an entry outside its block's diff is never written, and the database before the migration has no log
   there: both places stay empty *)
Lemma good_outside_diff : forall m i j, Good m -> F <= i -> i <= head -> c_dlen ch i <= j ->
  hlog m i j = None /\ scr m i j = None.
Proof.
  intros m i j G A B C. destruct (G i j A B) as [[H1|H1] [[H2|H2] _]]; rewrite ?(Hwf i j C) in *; auto.
Qed.

(* ---------------------------------------------------------------- setupBeforeStager *)
Lemma after_setup1 : forall m s, NKany m -> Good m -> StagedTo s m ->
  let m1 := mapply_ops ch m (setup1_ops F) in
  NK F m1 /\ Good m1 /\ StagedTo s m1 /\ (forall i, looks m1 i false).
Proof.
  intros m s N G S m1. destruct (setup1_spec ch F m) as [B [H Sc]]. fold m1 in B, H, Sc.
  split; [|split; [|split]].
  - intros f i L NH. rewrite B, L. simpl. rewrite andb_true_r, (keep_range F f i L NH).
    destruct N as [d [Ld N]]. rewrite (N f i L NH). unfold pruned.
    destruct (keep F f i) eqn:K; [|rewrite !andb_false_r; reflexivity].
    rewrite (keep_mono d F f i Ld K), !andb_true_r. reflexivity.
  - intros i j A C. rewrite H, Sc. apply G; assumption.
  - intros i A C D j. rewrite Sc. apply S; assumption.
  - intros i f L. rewrite B, L. simpl. apply andb_false_r.
Qed.

(* ---------------------------------------------------------------- stager blocks, any list *)
Lemma after_stage : forall m l, SuOK m -> Good m ->
  let m' := mapply_ops ch m (map MStage l) in
  blk m' = blk m /\ hlog m' = hlog m /\ Good m' /\
  (forall s, StagedTo s m -> StagedTo s m') /\
  (forall n, In n l -> F <= n -> n <= head -> staged m' n).
Proof.
  intros m l SU G m'. destruct (stage_list ch l m) as [B [H S]]. fold m' in B, H, S.
  split; [exact B|]. split; [exact H|]. split; [|split].
  - intros i j A C. rewrite H, S. specialize (G i j A C).
    destruct (hit (blk m Su) l i && (j <? c_dlen ch i)); [|exact G].
    rewrite (egood_stage _ _ _ G). eapply egood_set_s. exact G.
  - intros s St i A C D j. rewrite S.
    destruct (hit (blk m Su) l i && (j <? c_dlen ch i)); [|apply St; assumption].
    apply egood_stage. apply G; assumption.
  - intros n I A C j. rewrite S.
    assert (Hh : hit (blk m Su) l n = true) by (apply hit_in; split; [assumption|apply SU; assumption]).
    rewrite Hh. simpl. destruct (N.ltb_spec j (c_dlen ch n)) as [L|L].
    + apply egood_stage. apply G; assumption.
    + destruct (good_outside_diff m n j G A C L) as [_ E]. rewrite E. symmetry. apply Hwf. assumption.
Qed.

(* ---------------------------------------------------------------- setupBeforeRestorer *)
Lemma sub64_one : 0 < F -> sub64 F 1 = F - 1.
Proof. intros. apply sub64_exact; lia. Qed.

Lemma after_setup2 : forall m, Good m -> StagedTo (head + 1) m -> (forall i, looks m i false) ->
  let m' := mapply_ops ch m (setup2_ops F) in
  (forall f i, is_look f = false -> blk m' f i = blk m f i) /\ scr m' = scr m /\
  Good m' /\ StagedTo (head + 1) m' /\ Outside m' /\ RestoredTo F m'.
Proof.
  intros m G S L m'. destruct (setup2_spec ch F m) as [B [H Sc]]. fold m' in B, H, Sc.
  split; [|split; [|split; [|split; [|split]]]].
  - intros f i Lf. rewrite B. destruct f; try reflexivity; discriminate.
  - exact Sc.
  - intros i j A C. rewrite H, Sc. apply egood_wipe_h. apply S; lia.
  - intros i A C D j. rewrite Sc. apply S; assumption.
  - intros i O. split; [intros; apply H|]. intros f Lf. rewrite B. unfold pruned.
    rewrite (Hlook f Lf i). specialize (L i f Lf).
    destruct f; try discriminate; rewrite ?L; simpl.
    + destruct (N.ltb_spec 0 F) as [P|P]; simpl; [rewrite (sub64_one P)|]; lia.
    + lia.
    + lia.
  - intros i A C. lia.
Qed.

(* ---------------------------------------------------------------- restorer blocks, any list inside the window *)
Lemma after_restore : forall m l, SuOK m -> Good m -> Outside m ->
  (forall n, In n l -> F <= n /\ n <= head) ->
  let m' := mapply_ops ch m (map MRestore l) in
  (forall f i, is_look f = false -> blk m' f i = blk m f i) /\ scr m' = scr m /\
  Good m' /\ Outside m' /\
  (forall r, RestoredTo r m -> RestoredTo r m') /\
  (forall n, In n l -> restored m' n /\ looks m' n true).
Proof.
  intros m l SU G O W m'. destruct (restore_list ch l m) as [Sc [B H]]. fold m' in B, H, Sc.
  split; [|split; [|split; [|split; [|split]]]].
  - intros f i Lf. rewrite B, Lf. reflexivity.
  - exact Sc.
  - intros i j A C. rewrite H, Sc. specialize (G i j A C).
    destruct (hit (blk m Su) l i && (j <? c_dlen ch i)); [|exact G].
    rewrite (egood_restore _ _ _ G). eapply egood_set_h. exact G.
  - intros i Oi. assert (Hh : hit (blk m Su) l i = false).
    { destruct (hit (blk m Su) l i) eqn:E; [|reflexivity]. apply hit_in in E. destruct E as [E _].
      apply W in E. lia. }
    destruct (O i Oi) as [O1 O2]. split.
    + intros j. rewrite H, Hh. simpl. apply O1.
    + intros f Lf. rewrite B, Hh, andb_false_r. simpl. apply O2. assumption.
  - intros r R i A C D. destruct (R i A C D) as [R1 R2]. split.
    + intros j. rewrite H. destruct (hit (blk m Su) l i && (j <? c_dlen ch i)); [|apply R1].
      apply egood_restore. apply G; assumption.
    + intros f Lf. rewrite B, (R2 f Lf). apply orb_true_r.
  - intros n I. destruct (W n I) as [A C].
    assert (Hh : hit (blk m Su) l n = true) by (apply hit_in; split; [assumption|apply SU; assumption]).
    split.
    + intros j. rewrite H, Hh. simpl. destruct (N.ltb_spec j (c_dlen ch n)) as [L|L].
      * apply egood_restore. apply G; assumption.
      * destruct (good_outside_diff m n j G A C L) as [E _]. rewrite E. symmetry. apply Hwf. assumption.
    + intros f Lf. rewrite B, Hh, Lf. reflexivity.
Qed.

(* ---------------------------------------------------------------- the scratch wipe *)
Lemma after_wipe : forall m, NK F m -> Outside m -> RestoredTo (head + 1) m ->
  Final (mapply_ops ch m [MWipeScr]).
Proof.
  intros m N O R. change (mapply_ops ch m [MWipeScr]) with (mapply ch m MWipeScr). cbn [mapply].
  split; [|split]; cbn [blk hlog scr mark].
  - intros f i NH. destruct (is_look f) eqn:Lf; [|apply N; assumption].
    destruct (N.ltb_spec i F) as [A|A]; [apply O; [left; assumption|assumption]|].
    destruct (N.ltb_spec head i) as [C|C]; [apply O; [right; assumption|assumption]|].
    destruct (R i A ltac:(lia) C) as [_ R2]. rewrite (R2 f Lf). unfold pruned. rewrite (Hlook f Lf).
    destruct f; try discriminate; simpl; lia.
  - intros i j. destruct (N.leb_spec F i) as [A|A].
    + destruct (N.ltb_spec head i) as [C|C].
      * rewrite (Habove i j C). apply O. right. assumption.
      * apply R; lia.
    + apply O. left. assumption.
  - split; reflexivity.
Qed.

Lemma Final_good : forall m, Final m -> Good m.
Proof.
  intros m [_ [H [S _]]] i j A C. rewrite H, S. destruct (N.leb_spec F i); [|lia].
  apply egood_wipe_s. reflexivity.
Qed.


(* ================================================================ one call *)
(* what a call needs of the database it starts on (sp = the stager progress it works with, after the
   restage decision): *)
Definition InvA (sp : N) (m : mstore) : Prop := NKany m /\ Good m /\ StagedTo sp m.
(* ... what every non-empty prefix of its batches before the scratch wipe leaves (set-up 1 committed): *)
Definition InvAs (sp : N) (m : mstore) : Prop := NK F m /\ Good m /\ StagedTo sp m.
Definition InvB (rp : N) (m : mstore) : Prop := NK F m /\ Good m /\ Outside m /\ RestoredTo rp m.
Definition InvS (sp rp : N) (m : mstore) : Prop :=
  if rp =? 0 then InvA sp m else (InvB rp m /\ head < sp /\ F <= rp /\ rp <= head).
Definition InvSs (sp rp : N) (m : mstore) : Prop :=
  if rp =? 0 then InvAs sp m else (InvB rp m /\ head < sp /\ F <= rp /\ rp <= head).
(* the invariant BETWEEN calls for a stored blob (sp, rp, F): the staged progress of a stager blob only
   counts when the next call will trust it (no marker, scratch not empty) *)
Definition InvP (sp : N) (m : mstore) : Prop :=
  NKany m /\ Good m /\ (restage ch m = false -> StagedTo sp m).
Definition InvPS (sp rp : N) (m : mstore) : Prop :=
  if rp =? 0 then InvP sp m else (InvB rp m /\ head < sp /\ F <= rp /\ rp <= head).

Lemma InvAs_A : forall sp m, InvAs sp m -> InvA sp m.
Proof. intros sp m [N [G S]]. split; [apply NK_any; exact N|]. auto. Qed.
Lemma InvSs_S : forall sp rp m, InvSs sp rp m -> InvS sp rp m.
Proof. intros sp rp m. unfold InvSs, InvS. destruct (rp =? 0); [apply InvAs_A|auto]. Qed.

Lemma StagedTo_all : forall s m, StagedTo (head + 1) m -> StagedTo s m.
Proof. intros s m H i A B C. apply H; lia. Qed.

(* the database after set-up 1 and a list of stager blocks; after set-up 2 and a list of restorer blocks *)
Definition st2 (m : mstore) (l : list N) : mstore :=
  mapply_ops ch (mapply_ops ch m (setup1_ops F)) (map MStage l).
Definition st3 (m : mstore) (L l : list N) : mstore :=
  mapply_ops ch (mapply_ops ch (st2 m L) (setup2_ops F)) (map MRestore l).

Lemma mark_st2 : forall m l, mark (st2 m l) = mark m.
Proof. intros. unfold st2. rewrite mark_stage, mark_setup1. reflexivity. Qed.
Lemma mark_st3 : forall m L l, mark (st3 m L l) = mark m.
Proof. intros. unfold st3. rewrite mark_restore, mark_setup2, mark_st2. reflexivity. Qed.

Lemma stateA2 : forall m sp l, InvA sp m ->
  NK F (st2 m l) /\ Good (st2 m l) /\ StagedTo sp (st2 m l) /\ (forall i, looks (st2 m l) i false) /\
  (forall n, In n l -> F <= n -> n <= head -> staged (st2 m l) n).
Proof.
  intros m sp l [N [G S]]. unfold st2.
  destruct (after_setup1 m sp N G S) as [N1 [G1 [S1 L1]]].
  set (m1 := mapply_ops ch m (setup1_ops F)) in *.
  destruct (after_stage m1 l (NKany_su m1 (NK_any m1 N1)) G1) as [B [H [G2 [S2 St]]]].
  set (m2 := mapply_ops ch m1 (map MStage l)) in *.
  split. { eapply NK_eq; [|exact N1]. intros. rewrite B. reflexivity. }
  split; [exact G2|]. split; [apply S2; exact S1|]. split.
  - intros i f Lf. rewrite B. apply L1. assumption.
  - exact St.
Qed.

Lemma stateA3 : forall m sp L l, InvA sp m -> StagedTo (head + 1) (st2 m L) ->
  (forall n, In n l -> F <= n /\ n <= head) ->
  NK F (st3 m L l) /\ Good (st3 m L l) /\ StagedTo (head + 1) (st3 m L l) /\ Outside (st3 m L l) /\
  (forall n, In n l -> restored (st3 m L l) n /\ looks (st3 m L l) n true).
Proof.
  intros m sp L l I S W. destruct (stateA2 m sp L I) as [N2 [G2 [_ [L2 _]]]].
  unfold st3. set (m2 := st2 m L) in *.
  destruct (after_setup2 m2 G2 S L2) as [B [Sc [G3 [S3 [O3 _]]]]].
  set (m2' := mapply_ops ch m2 (setup2_ops F)) in *.
  assert (N3 : NK F m2') by (eapply NK_eq; [exact B|exact N2]).
  destruct (after_restore m2' l (NKany_su m2' (NK_any m2' N3)) G3 O3 W) as [B4 [Sc4 [G4 [O4 [_ R4]]]]].
  set (m3 := mapply_ops ch m2' (map MRestore l)) in *.
  split; [eapply NK_eq; [exact B4|exact N3]|]. split; [exact G4|]. split.
  - intros i A C D j. rewrite Sc4. apply S3; assumption.
  - split; [exact O4|exact R4].
Qed.

Lemma stateB3 : forall m rp l, InvB rp m -> (forall n, In n l -> F <= n /\ n <= head) ->
  InvB rp (mapply_ops ch m (map MRestore l)) /\
  (forall n, In n l -> restored (mapply_ops ch m (map MRestore l)) n /\ looks (mapply_ops ch m (map MRestore l)) n true).
Proof.
  intros m rp l [N [G [O R]]] W.
  destruct (after_restore m l (NKany_su m (NK_any m N)) G O W) as [B [_ [G' [O' [R' In']]]]].
  split; [|exact In']. split; [eapply NK_eq; [exact B|exact N]|]. split; [exact G'|]. split; [exact O'|].
  apply R'. exact R.
Qed.

(* the completed migration, seen as a database between calls *)
Lemma Final_InvB : forall m rp, Final m -> InvB rp m.
Proof.
  intros m rp Fi. pose proof (Final_good m Fi) as G. destruct Fi as [B [H [S _]]].
  split; [|split; [exact G|split]].
  - intros f i L NH. apply B. assumption.
  - intros i O. split.
    + intros j. rewrite H. destruct (N.leb_spec F i); [|reflexivity]. apply Habove. lia.
    + intros f L. apply B. destruct f; discriminate.
  - intros i A C D. split.
    + intros j. rewrite H. destruct (N.leb_spec F i); [reflexivity|lia].
    + intros f L. rewrite B by (destruct f; discriminate). unfold pruned. rewrite (Hlook f L).
      destruct f; try discriminate; simpl; lia.
Qed.

Lemma Final_NK : forall m, Final m -> NK F m.
Proof. intros m Fi f i L NH. apply Fi. assumption. Qed.

(* scratch is empty after the wipe: the next call of a stager blob re-stages from the cut-off *)
Lemma Final_InvP : forall m sp, Final m -> InvP sp m.
Proof.
  intros m sp Fi. split; [apply NK_any; apply Final_NK; exact Fi|]. split; [apply Final_good; exact Fi|].
  intros R. unfold restage in R. destruct Fi as [_ [_ [S _]]]. rewrite (scr_empty_none ch m S), orb_true_r in R.
  discriminate.
Qed.

(* ---------------------------------------------------------------- the batch lists as states *)
Definition stg_blocks (sp : N) (sc : msched) : list (list N) := if head <? sp then [] else s_stage sc.

Lemma STG_blocks : forall sp sc, STG ch sp sc = map (map MStage) (stg_blocks sp sc).
Proof. intros. unfold STG, stg_blocks. destruct (head <? sp); reflexivity. Qed.

Lemma form2_A : forall m sp sc k,
  mapply_batches ch m (B1 0 F ++ firstn k (STG ch sp sc)) = st2 m (concat (firstn k (stg_blocks sp sc))).
Proof.
  intros. rewrite mapply_batches_app, STG_blocks, firstn_map_map, stage_batches. reflexivity.
Qed.

Lemma P1_A : forall m sp sc, mapply_batches ch m (P1 ch sp 0 F sc) = st2 m (concat (stg_blocks sp sc)).
Proof.
  intros. unfold P1. rewrite <- (firstn_all (STG ch sp sc)), form2_A, STG_blocks, map_length, firstn_all.
  reflexivity.
Qed.

Lemma form3_A : forall m sp sc k,
  mapply_batches ch m (P1 ch sp 0 F sc ++ B2 0 F ++ firstn k (RST sc)) =
  st3 m (concat (stg_blocks sp sc)) (concat (firstn k (s_restore sc))).
Proof.
  intros. rewrite mapply_batches_app, P1_A, mapply_batches_app. unfold RST.
  rewrite firstn_map_map, restore_batches. reflexivity.
Qed.

Lemma P2_A : forall m sp sc,
  mapply_batches ch m (P2 ch sp 0 F sc) = st3 m (concat (stg_blocks sp sc)) (concat (s_restore sc)).
Proof.
  intros. unfold P2. rewrite <- (firstn_all (RST sc)), form3_A. unfold RST. rewrite map_length, firstn_all.
  reflexivity.
Qed.

Lemma B_lists : forall sp rp sc, rp <> 0 -> head < sp ->
  B1 rp F = [] /\ STG ch sp sc = [] /\ B2 rp F = [].
Proof.
  intros sp rp sc R S. unfold B1, B2, STG.
  destruct (N.eqb_spec rp 0); [contradiction|]. destruct (N.ltb_spec head sp); [auto|lia].
Qed.

Lemma form3_B : forall m sp rp sc k, rp <> 0 -> head < sp ->
  mapply_batches ch m (P1 ch sp rp F sc ++ B2 rp F ++ firstn k (RST sc)) =
  mapply_ops ch m (map MRestore (concat (firstn k (s_restore sc)))).
Proof.
  intros m sp rp sc k R S. destruct (B_lists sp rp sc R S) as [E1 [E2 E3]]. unfold P1. rewrite E1, E2, E3.
  simpl. unfold RST. rewrite firstn_map_map, restore_batches. reflexivity.
Qed.

Lemma P2_B : forall m sp rp sc, rp <> 0 -> head < sp ->
  mapply_batches ch m (P2 ch sp rp F sc) = mapply_ops ch m (map MRestore (concat (s_restore sc))).
Proof.
  intros m sp rp sc R S. unfold P2. rewrite <- (firstn_all (RST sc)), (form3_B m sp rp sc _ R S).
  unfold RST. rewrite map_length, firstn_all. reflexivity.
Qed.

(* ---------------------------------------------------------------- a call that got as far as set-up 2 has
   everything in the keeper window staged: by the trusted progress below sp, by this call from there on *)
Lemma staged_complete : forall m sp sc, InvA sp m ->
  ((head <? sp) = false -> forall i, N.max F sp <= i -> i <= head -> In i (concat (s_stage sc))) ->
  StagedTo (head + 1) (st2 m (concat (stg_blocks sp sc))).
Proof.
  intros m sp sc I C. destruct (stateA2 m sp (concat (stg_blocks sp sc)) I) as [_ [_ [S [_ St]]]].
  intros i A B D. unfold stg_blocks in *. destruct (N.ltb_spec head sp) as [E|E].
  - apply S; lia.
  - destruct (N.ltb_spec i sp) as [E2|E2]; [apply S; lia|]. apply St; try lia. apply C; [reflexivity|lia|lia].
Qed.

Definition form12 (sp rp : N) (sc : msched) (p : list (list mop)) : Prop :=
  p = [] \/ (exists k, p = B1 rp F ++ firstn k (STG ch sp sc)).
Definition form3 (sp rp : N) (sc : msched) (p : list (list mop)) : Prop :=
  exists k, p = P1 ch sp rp F sc ++ B2 rp F ++ firstn k (RST sc).

Lemma InvS_zero : forall sp m, InvS sp 0 m = InvA sp m.
Proof. reflexivity. Qed.
Lemma InvSs_zero : forall sp m, InvSs sp 0 m = InvAs sp m.
Proof. reflexivity. Qed.
Lemma InvS_nz : forall sp rp m, rp <> 0 -> InvS sp rp m = (InvB rp m /\ head < sp /\ F <= rp /\ rp <= head).
Proof. intros. unfold InvS. destruct (N.eqb_spec rp 0); [contradiction|reflexivity]. Qed.
Lemma InvSs_nz : forall sp rp m, rp <> 0 -> InvSs sp rp m = (InvB rp m /\ head < sp /\ F <= rp /\ rp <= head).
Proof. intros. unfold InvSs. destruct (N.eqb_spec rp 0); [contradiction|reflexivity]. Qed.

(* what an interrupted call leaves: nothing happened, or set-up 1 is in and the invariant holds in its
   strong form; the marker is as the call found (or set) it *)
Definition Left (sp rp : N) (m m' : mstore) : Prop :=
  m' = m \/ (InvSs sp rp m' /\ mark m' = mark m).

(* every interruption before the restorer phase *)
Lemma stable12 : forall m sp rp sc p, InvS sp rp m -> form12 sp rp sc p -> Left sp rp m (mapply_batches ch m p).
Proof.
  intros m sp rp sc p I [E|[k E]]; subst p; [left; reflexivity|].
  destruct (N.eqb_spec rp 0) as [R|R].
  - subst rp. rewrite InvS_zero in I. right. rewrite form2_A, InvSs_zero, mark_st2. split; [|reflexivity].
    destruct (stateA2 m sp (concat (firstn k (stg_blocks sp sc))) I) as [N [G [S _]]].
    split; [exact N|]. split; assumption.
  - left. rewrite (InvS_nz sp rp m R) in I. destruct I as [IB [S [A B]]].
    destruct (B_lists sp rp sc R S) as [E1 [E2 _]]. rewrite E1, E2.
    replace ([] ++ firstn k []) with (@nil (list mop)) by (destruct k; reflexivity). reflexivity.
Qed.

(* ... and in the restorer phase (the call went past the stager: skipped or complete) *)
Lemma stable3 : forall m sp rp sc p, InvS sp rp m -> sched_ok ch sp rp F sc = true ->
  restore_reached (s_stop sc) = true -> form3 sp rp sc p ->
  InvSs sp rp (mapply_batches ch m p) /\ mark (mapply_batches ch m p) = mark m /\
  (rp = 0 -> StagedTo (head + 1) (mapply_batches ch m p)).
Proof.
  intros m sp rp sc p I OK RR [k E]. subst p.
  assert (W : forall n, In n (concat (firstn k (s_restore sc))) -> F <= n /\ n <= head).
  { intros n In1. apply In_concat_firstn in In1.
    destruct (sched_restore_within ch sp rp F sc OK RR n In1). lia. }
  destruct (N.eqb_spec rp 0) as [R|R].
  - subst rp. rewrite InvS_zero in I. rewrite form3_A, InvSs_zero, mark_st3.
    assert (SC : StagedTo (head + 1) (st2 m (concat (stg_blocks sp sc)))).
    { apply staged_complete; [exact I|]. intros SK. apply (sched_stage_complete ch sp 0 F sc OK RR SK). }
    destruct (stateA3 m sp _ _ I SC W) as [N [G [S _]]].
    split; [|split; [reflexivity|intros _; exact S]].
    split; [exact N|]. split; [exact G|]. apply StagedTo_all. exact S.
  - rewrite (InvS_nz sp rp m R) in I. destruct I as [IB [S [A B]]].
    rewrite (form3_B m sp rp sc k R S), mark_restore. rewrite InvSs_nz by assumption.
    destruct (stateB3 m rp _ IB W) as [IB' _]. split; [auto|]. split; [reflexivity|contradiction].
Qed.

(* the complete batch list *)
Lemma final_P3 : forall m sp rp sc, InvS sp rp m -> sched_ok ch sp rp F sc = true -> s_stop sc = SNone ->
  Final (mapply_batches ch m (P3 ch sp rp F sc)).
Proof.
  intros m sp rp sc I OK ST.
  assert (RR : restore_reached (s_stop sc) = true) by (rewrite ST; reflexivity).
  assert (W : forall n, In n (concat (s_restore sc)) -> F <= n /\ n <= head).
  { intros n In1. destruct (sched_restore_within ch sp rp F sc OK RR n In1). lia. }
  pose proof (sched_restore_complete ch sp rp F sc OK ST) as CV.
  unfold P3. rewrite mapply_batches_app, mapply_batches_one.
  destruct (N.eqb_spec rp 0) as [R|R].
  - subst rp. rewrite InvS_zero in *. rewrite P2_A.
    assert (SC : StagedTo (head + 1) (st2 m (concat (stg_blocks sp sc)))).
    { apply staged_complete; [exact I|]. intros SK. apply (sched_stage_complete ch sp 0 F sc OK RR SK). }
    destruct (stateA3 m sp _ _ I SC W) as [N [G [S [O In']]]].
    apply after_wipe; [exact N|exact O|].
    intros i A B C. apply In'. apply CV; lia.
  - rewrite (InvS_nz sp rp m R) in I. destruct I as [IB [S [A B]]].
    rewrite (P2_B m sp rp sc R S).
    destruct (stateB3 m rp _ IB W) as [[N [G [O Rt]]] In'].
    apply after_wipe; [exact N|exact O|].
    intros i A' B' C. destruct (N.ltb_spec i rp) as [L|L]; [apply Rt; lia|]. apply In'. apply CV; lia.
Qed.

(* ---------------------------------------------------------------- cancellation: the returned blob *)
Lemma cancel_stage : forall m sp rp sc c, InvS sp rp m -> sched_ok ch sp rp F sc = true ->
  s_stop sc = SCancelStage c -> InvAs c (mapply_batches ch m (P1 ch sp rp F sc)).
Proof.
  intros m sp rp sc c I OK ST. destruct (sched_stage_cancel ch sp rp F sc c OK ST) as [SK [A [B CV]]].
  destruct (N.eqb_spec rp 0) as [R|R].
  - subst rp. rewrite InvS_zero in *. rewrite P1_A.
    destruct (stateA2 m sp (concat (stg_blocks sp sc)) I) as [N [G [S [_ St]]]].
    split; [exact N|]. split; [exact G|].
    intros i A' B' C'. destruct (N.ltb_spec i sp) as [L|L]; [apply S; lia|].
    apply St; try lia. unfold stg_blocks. rewrite SK. apply CV; lia.
  - rewrite (InvS_nz sp rp m R) in I. destruct I as [_ [S _]]. apply N.ltb_ge in SK. lia.
Qed.

Lemma cancel_restore : forall m sp rp sc c, InvS sp rp m -> sched_ok ch sp rp F sc = true ->
  s_stop sc = SCancelRestore c -> InvSs (add64 head 1) c (mapply_batches ch m (P2 ch sp rp F sc)).
Proof.
  intros m sp rp sc c I OK ST.
  assert (RR : restore_reached (s_stop sc) = true) by (rewrite ST; reflexivity).
  destruct (sched_restore_cancel ch sp rp F sc c OK ST) as [A [B [WI CV]]].
  assert (W : forall n, In n (concat (s_restore sc)) -> F <= n /\ n <= head).
  { intros n In1. destruct (WI n In1). lia. }
  rewrite (add64_exact head 1) by lia.
  destruct (N.eqb_spec rp 0) as [R|R].
  - subst rp. rewrite InvS_zero in *. rewrite P2_A.
    assert (SC : StagedTo (head + 1) (st2 m (concat (stg_blocks sp sc)))).
    { apply staged_complete; [exact I|]. intros SK. apply (sched_stage_complete ch sp 0 F sc OK RR SK). }
    destruct (stateA3 m sp _ _ I SC W) as [N [G [S [O In']]]].
    destruct (N.eqb_spec c 0) as [C0|C0].
    + subst c. rewrite InvSs_zero. split; [exact N|]. split; assumption.
    + rewrite InvSs_nz by assumption. split; [|lia].
      split; [exact N|]. split; [exact G|]. split; [exact O|].
      intros i A' B' C'. apply In'. apply CV; lia.
  - rewrite (InvS_nz sp rp m R) in I. destruct I as [IB [S [A' B']]].
    rewrite (P2_B m sp rp sc R S).
    destruct (stateB3 m rp _ IB W) as [[N [G [O Rt]]] In'].
    rewrite InvSs_nz by lia. split; [|lia].
    split; [exact N|]. split; [exact G|]. split; [exact O|].
    intros i A'' B'' C''. destruct (N.ltb_spec i rp) as [L|L]; [apply Rt; lia|]. apply In'. apply CV; lia.
Qed.

(* ---------------------------------------------------------------- one call, every way it can end *)
Lemma P1_form12 : forall sp rp sc, form12 sp rp sc (P1 ch sp rp F sc).
Proof. intros. right. exists (length (STG ch sp sc)). rewrite firstn_all. reflexivity. Qed.
Lemma P2_form3 : forall sp rp sc, form3 sp rp sc (P2 ch sp rp F sc).
Proof. intros. exists (length (RST sc)). rewrite firstn_all. reflexivity. Qed.

Lemma stable3_left : forall m sp rp sc p, InvS sp rp m -> sched_ok ch sp rp F sc = true ->
  restore_reached (s_stop sc) = true -> form3 sp rp sc p -> Left sp rp m (mapply_batches ch m p).
Proof. intros m sp rp sc p I OK RR P. right. destruct (stable3 m sp rp sc p I OK RR P) as [A [B _]]. auto. Qed.

(* m = the database the batches are applied to, (sp, rp) = the progress the call works with *)
Lemma run_core : forall m sp rp sc, InvS sp rp m -> sched_ok ch sp rp F sc = true ->
  let pr := mig_plan ch m sp rp F sc in
  (forall k, let m' := mapply_batches ch m (firstn k (fst pr)) in Left sp rp m m' \/ Final m') /\
  (snd pr = RErr -> Left sp rp m (mapply_batches ch m (fst pr))) /\
  (forall a b c, snd pr = RBlob a b c -> c = F /\ InvSs a b (mapply_batches ch m (fst pr))) /\
  (snd pr = RDone -> Final (mapply_batches ch m (fst pr))) /\
  snd pr <> RCrash.
Proof.
  intros m sp rp sc I OK pr.
  destruct (mig_plan_shape ch m sp rp F sc) as [[E R]|[[E [SR R]]|[[E [RR R]]|[E [ST R]]]]]; fold pr in E, R; rewrite E.
  - rewrite R. split; [intros k; rewrite firstn_nil; left; left; reflexivity|]. split; [intros _; left; reflexivity|].
    split; [intros; discriminate|]. split; intros; discriminate.
  - split; [|split; [|split; [|split]]].
    + intros k. left. apply (stable12 m sp rp sc); [exact I|]. destruct (prefix_P1 ch sp rp F sc k) as [P|P]; [left|right]; exact P.
    + intros _. apply (stable12 m sp rp sc); [exact I|apply P1_form12].
    + intros a b c Eq. destruct R as [R|[c' [ST R]]]; rewrite R in Eq; [discriminate|]. inversion Eq; subst.
      split; [reflexivity|]. rewrite InvSs_zero. eapply cancel_stage; eassumption.
    + intros Eq. destruct R as [R|[c' [ST R]]]; rewrite R in Eq; discriminate.
    + destruct R as [R|[c' [ST R]]]; rewrite R; discriminate.
  - split; [|split; [|split; [|split]]].
    + intros k. left. destruct (prefix_P2 ch sp rp F sc k) as [P|[P|P]].
      * apply (stable12 m sp rp sc); [exact I|left; exact P].
      * apply (stable12 m sp rp sc); [exact I|right; exact P].
      * apply (stable3_left m sp rp sc); [exact I|exact OK|exact RR|exact P].
    + intros _. apply (stable3_left m sp rp sc); [exact I|exact OK|exact RR|apply P2_form3].
    + intros a b c Eq. destruct R as [R|[c' [ST R]]]; rewrite R in Eq; [discriminate|]. inversion Eq; subst.
      split; [reflexivity|]. eapply cancel_restore; eassumption.
    + intros Eq. destruct R as [R|[c' [ST R]]]; rewrite R in Eq; discriminate.
    + destruct R as [R|[c' [ST R]]]; rewrite R; discriminate.
  - assert (RR : restore_reached (s_stop sc) = true) by (rewrite ST; reflexivity).
    rewrite R. split; [|split; [|split; [|split]]]; try (intros; discriminate).
    + intros k. destruct (prefix_P3 ch sp rp F sc k) as [P|[P|[P|P]]].
      * left. apply (stable12 m sp rp sc); [exact I|left; exact P].
      * left. apply (stable12 m sp rp sc); [exact I|right; exact P].
      * left. apply (stable3_left m sp rp sc); [exact I|exact OK|exact RR|exact P].
      * right. cbv zeta. rewrite P. apply final_P3; assumption.
    + intros _. apply final_P3; assumption.
Qed.

(* ---------------------------------------------------------------- the restage decision *)
Lemma pre_inv : forall m sp rp, InvPS sp rp m -> InvS (eff_sp ch m sp rp F) rp (run_pre ch m sp rp F).
Proof.
  intros m sp rp I. unfold eff_sp, run_pre, must_restage, InvPS, InvS in *.
  destruct (N.eqb_spec rp 0) as [R|R]; simpl; [|exact I].
  destruct I as [N [G T]]. destruct (N.ltb_spec F sp) as [L|L]; simpl.
  - destruct (restage ch m) eqn:RS.
    + split; [exact N|]. split; [exact G|]. intros i A B. lia.
    + split; [exact N|]. split; [exact G|]. apply T. reflexivity.
  - split; [exact N|]. split; [exact G|]. intros i A B. lia.
Qed.

Lemma InvSs_PS : forall sp rp m, InvSs sp rp m -> InvPS sp rp m.
Proof.
  intros sp rp m. unfold InvSs, InvPS. destruct (rp =? 0); [|auto].
  intros [N [G S]]. split; [apply NK_any; exact N|]. split; [exact G|]. intros _. exact S.
Qed.

(* an interrupted call that leaves the stored blob as it is *)
Lemma post_inv : forall m sp rp m', InvPS sp rp m ->
  Left (eff_sp ch m sp rp F) rp (run_pre ch m sp rp F) m' \/ Final m' -> InvPS sp rp m'.
Proof.
  intros m sp rp m' I H. unfold InvPS in *. destruct (N.eqb_spec rp 0) as [R|R].
  - destruct H as [H|H]; [|apply Final_InvP; exact H].
    unfold eff_sp, run_pre, must_restage in H. subst rp. simpl in H.
    destruct I as [N [G T]].
    destruct ((F <? sp) && restage ch m) eqn:MR.
    + destruct H as [H|[H M]].
      * subst m'. split; [exact N|]. split; [exact G|]. intros RS. discriminate.
      * rewrite InvSs_zero in H. destruct H as [N' [G' _]]. split; [apply NK_any; exact N'|]. split; [exact G'|].
        intros RS. unfold restage in RS. rewrite M in RS. discriminate.
    + destruct H as [H|[H _]].
      * subst m'. split; [exact N|]. split; assumption.
      * rewrite InvSs_zero in H. destruct H as [N' [G' S']]. split; [apply NK_any; exact N'|]. split; [exact G'|].
        intros _. exact S'.
  - assert (E : eff_sp ch m sp rp F = sp /\ run_pre ch m sp rp F = m).
    { unfold eff_sp, run_pre, must_restage. destruct (N.eqb_spec rp 0); [contradiction|]. simpl. auto. }
    destruct E as [E1 E2]. rewrite E1, E2 in H. destruct H as [[H|[H _]]|H].
    + subst m'. exact I.
    + rewrite InvSs_nz in H by assumption. exact H.
    + destruct I as [_ I]. split; [apply Final_InvB; exact H|exact I].
Qed.

(* one call with a stored blob (sp, rp, F) *)
Lemma step_pinned : forall m sp rp sc m' r, InvPS sp rp m ->
  sched_ok ch (eff_sp ch m sp rp F) rp F sc = true ->
  (let m0 := run_pre ch m sp rp F in
   let pr := mig_plan ch m0 (eff_sp ch m sp rp F) rp F sc in
   match s_crash sc with
   | Some k => (mapply_batches ch m0 (firstn k (fst pr)), RCrash)
   | None => (mapply_batches ch m0 (fst pr), snd pr)
   end) = (m', r) ->
  match r with
  | RDone => Final m'
  | RBlob a b c => c = F /\ InvPS a b m'
  | RErr | RCrash => InvPS sp rp m'
  end.
Proof.
  intros m sp rp sc m' r I OK E. cbn zeta in E.
  destruct (run_core _ _ rp sc (pre_inv m sp rp I) OK) as [C1 [C2 [C3 [C4 C5]]]].
  destruct (s_crash sc) as [k|].
  - inversion E; subst. apply (post_inv m sp rp); [exact I|apply C1].
  - inversion E; subst. destruct (snd (mig_plan ch (run_pre ch m sp rp F) (eff_sp ch m sp rp F) rp F sc)) eqn:R.
    + apply C4. reflexivity.
    + destruct (C3 sp0 rp0 fl eq_refl) as [EF IS]. split; [exact EF|apply InvSs_PS; exact IS].
    + apply (post_inv m sp rp); [exact I|]. left. apply C2. reflexivity.
    + contradiction.
Qed.

(* one call without a stored blob, once its cut-off F is known *)
Lemma step_unpinned : forall m sc m' r, NKany m -> Good m ->
  sched_ok ch 0 0 F sc = true ->
  (let pr := mig_plan ch m 0 0 F sc in
   match s_crash sc with
   | Some k => (mapply_batches ch m (firstn k (fst pr)), RCrash)
   | None => (mapply_batches ch m (fst pr), snd pr)
   end) = (m', r) ->
  match r with
  | RDone => Final m'
  | RBlob a b c => c = F /\ InvPS a b m'
  | RErr | RCrash => m' = m \/ (NK F m' /\ Good m')
  end.
Proof.
  intros m sc m' r N G OK E. cbn zeta in E.
  assert (I : InvS 0 0 m) by (rewrite InvS_zero; split; [exact N|]; split; [exact G|]; intros i A B; lia).
  destruct (run_core m 0 0 sc I OK) as [C1 [C2 [C3 [C4 C5]]]].
  assert (X : forall x, Left 0 0 m x \/ Final x -> x = m \/ (NK F x /\ Good x)).
  { intros x [[H|[H _]]|H].
    - left. exact H.
    - right. rewrite InvSs_zero in H. destruct H as [N' [G' _]]. auto.
    - right. split; [apply Final_NK; exact H|apply Final_good; exact H]. }
  destruct (s_crash sc) as [k|].
  - inversion E; subst. apply X. apply C1.
  - inversion E; subst. destruct (snd (mig_plan ch m 0 0 F sc)) eqn:R.
    + apply C4. reflexivity.
    + destruct (C3 sp rp fl eq_refl) as [EF IS]. split; [exact EF|apply InvSs_PS; exact IS].
    + apply X. left. apply C2. reflexivity.
    + contradiction.
Qed.

(* what an interrupted database is, in the property's terms *)
Lemma damage_bound : forall m, NKany m -> Good m ->
  (forall f i, is_look f = false -> f <> Hist -> F <= i -> blk m f i = blk u f i) /\
  (forall i j, F <= i -> i <= head ->
     (hlog m i j = hu i j \/ scr m i j = hu i j) /\
     (hlog m i j = None \/ hlog m i j = hu i j) /\ (scr m i j = None \/ scr m i j = hu i j)).
Proof.
  intros m [d [Ld N]] G. split.
  - intros f i L NH A. rewrite (N f i L NH). unfold pruned.
    replace (keep d f i) with true; [apply andb_true_r|]. symmetry. apply (keep_mono d F f i Ld).
    destruct f; try discriminate; try congruence; simpl; unfold LAG; try lia.
  - intros i j A B. destruct (G i j A B) as [G1 [G2 G3]]. auto.
Qed.

Lemma InvPS_any_good : forall sp rp m, InvPS sp rp m -> NKany m /\ Good m.
Proof.
  intros sp rp m I. unfold InvPS in I. destruct (rp =? 0).
  - destruct I as [N [G _]]. auto.
  - destruct I as [[N [G _]] _]. split; [apply NK_any; exact N|exact G].
Qed.

(* ---------------------------------------------------------------- resumable: an undisturbed call completes *)
Lemma su_all_range : forall m a, SuOK m -> F <= a -> su_all m [range_N a (head + 1)] = true.
Proof.
  intros m a SU A. unfold su_all. simpl. rewrite app_nil_r. apply forallb_forall. intros i I.
  destruct (range_N_spec _ _ _ I). apply SU; lia.
Qed.

Lemma canon_completes : forall m sp rp, InvS sp rp m ->
  snd (mig_plan ch m sp rp F (canon ch sp rp F)) = RDone.
Proof.
  intros m sp rp I. unfold mig_plan. cbn [s_stop canon s_stage s_restore].
  set (m1 := mapply_batches ch m (if rp =? 0 then [setup1_ops F] else [])).
  assert (X : SuOK m1 /\ (0 < F -> blk m1 Hdr (F - 1) = true)).
  { unfold m1. unfold InvS in I. destruct (rp =? 0).
    - destruct I as [N [G S]]. destruct (after_setup1 m sp N G S) as [N1 _].
      rewrite mapply_batches_one. split; [apply NKany_su; apply NK_any; exact N1|apply NKany_hdr; apply NK_any; exact N1].
    - destruct I as [[N _] _]. simpl. split; [apply NKany_su; apply NK_any; exact N|apply NKany_hdr; apply NK_any; exact N]. }
  destruct X as [SU HD].
  rewrite (su_all_range m1 (N.max F sp) SU ltac:(lia)), (su_all_range m1 (N.max F rp) SU ltac:(lia)).
  clearbody m1.
  assert (C : (rp =? 0) && (0 <? F) && negb (blk m1 Hdr (F - 1)) = false).
  { destruct (N.ltb_spec 0 F) as [P|P]; [rewrite (HD P)|]; simpl; rewrite ?andb_false_r; reflexivity. }
  destruct (head <? sp); simpl; rewrite C; reflexivity.
Qed.

Lemma canon_final : forall m sp rp, InvS sp rp m ->
  Final (mapply_batches ch m (fst (mig_plan ch m sp rp F (canon ch sp rp F)))).
Proof.
  intros m sp rp I.
  destruct (run_core m sp rp (canon ch sp rp F) I (sched_ok_canon ch sp rp F)) as [_ [_ [_ [C4 _]]]].
  apply C4. apply canon_completes. exact I.
Qed.
End Mig.
