(* C16 — lemmas about the history-pruner migration, part 4: the cut-off (never below what an earlier
   un-pinned start pruned, no read of a pruned header), pinning, no underflow, repeated blocks, the
   invariant over the stored blob for every schedule of starts, the top-level statements. *)
From Coq Require Import List NArith ZArith Bool Lia ZifyN ZifyNat ZifyBool.
From V Require Import C16.Model C16.Proofs C16.Proofs_C C16.Proofs_D C16.Proofs_migrate C16.Proofs_migrate_B C16.Proofs_migrate_C.
Import ListNotations.
Open Scope N_scope.

(* ---------------------------------------------------------------- the cut-off *)
Lemma bsearch_range : forall fuel ts c low high, low <= high ->
  low <= bsearch fuel ts c low high /\ bsearch fuel ts c low high <= high.
Proof.
  induction fuel as [|fuel IH]; intros ts c low high L; simpl; [lia|].
  destruct (N.ltb_spec low high) as [A|A]; [|lia].
  assert (M : low <= low + (high - low) / 2 /\ low + (high - low) / 2 < high).
  { split; [lia|]. pose proof (N.div_lt (high - low) 2 ltac:(lia) ltac:(lia)). lia. }
  destruct (ts (low + (high - low) / 2) <? c).
  - destruct (IH ts c (low + (high - low) / 2 + 1) high ltac:(lia)). lia.
  - destruct (IH ts c low (low + (high - low) / 2) ltac:(lia)). lia.
Qed.

Lemma find_oldest_range : forall ts lo up c r, find_oldest ts lo up c = Some r -> lo <= r /\ r <= up.
Proof.
  intros ts lo up c r E. unfold find_oldest in E. cbv zeta in E. destruct (N.ltb_spec up lo); [discriminate|].
  destruct (bsearch_range (S (N.to_nat (up + 1 - lo))) ts c lo (up + 1) ltac:(lia)) as [A B].
  destruct (N.ltb_spec up (bsearch (S (N.to_nat (up + 1 - lo))) ts c lo (up + 1))); [discriminate|].
  injection E as <-. split; assumption.
Qed.

(* o = the oldest block still retained when the cut-off is computed (0 on an untouched database) *)
Lemma floor_from_bound : forall ch g l1 o f, c_head ch < W64 -> o <= c_head ch ->
  floor_from ch g l1 o = Some f ->
  let pivot := N.min l1 (c_head ch) in
  g_retained g <= pivot /\ o <= f /\ f <= c_head ch /\
  (f = o \/ f + g_retained g <= pivot) /\
  sub64 pivot (g_retained g) = pivot - g_retained g /\
  (g_cutoff g = None -> f = N.max (pivot - g_retained g) o) /\
  (forall cut, g_cutoff g = Some cut ->
     (forall a b, o <= a -> a <= b -> b <= pivot -> c_ts ch a <= c_ts ch b) ->
     forall b, o <= b -> b <= pivot -> cut <= c_ts ch b -> f <= b).
Proof.
  intros ch g l1 o f HW HO E pivot. unfold floor_from in E. fold pivot in E.
  destruct (N.ltb_spec pivot (g_retained g)) as [L|L]; [discriminate|].
  assert (SE : sub64 pivot (g_retained g) = pivot - g_retained g) by (apply sub64_exact; lia).
  rewrite SE in E. inversion E as [E']; clear E.
  split; [exact L|].
  destruct (g_cutoff g) as [cut|] eqn:GC.
  - pose proof (find_oldest_spec (c_ts ch) o pivot cut) as FS.
    destruct (find_oldest (c_ts ch) o pivot cut) as [r|] eqn:FO.
    + destruct (find_oldest_range _ _ _ _ _ FO) as [R1 R2].
      split; [lia|]. split; [lia|]. split; [lia|]. split; [exact SE|]. split; [discriminate|].
      intros cut' EC Mono b Hb1 Hb Hc. inversion EC; subst cut'.
      destruct (FS Mono) as [_ [_ [_ Below]]].
      destruct (N.ltb_spec b r) as [Lt|Ge]; [|lia].
      specialize (Below b Hb1 Lt). lia.
    + split; [lia|]. split; [lia|]. split; [lia|]. split; [exact SE|]. split; [discriminate|].
      intros cut' EC Mono b Hb1 Hb Hc. inversion EC; subst cut'.
      specialize (FS Mono b Hb1 Hb). lia.
  - split; [lia|]. split; [lia|]. split; [lia|]. split; [exact SE|]. split; [intros; lia|]. intros; discriminate.
Qed.

(* on an untouched database (o = 0) this is the property's bound *)
Lemma floor_from_fresh : forall ch g l1 f, c_head ch < W64 -> floor_from ch g l1 0 = Some f ->
  bound_ok l1 (c_head ch) (g_retained g) f = true.
Proof.
  intros ch g l1 f HW E. destruct (floor_from_bound ch g l1 0 f HW ltac:(lia) E) as [A [_ [_ [B _]]]].
  unfold bound_ok. lia.
Qed.

Lemma floor_from_some : forall ch g l1 o, g_retained g <= N.min l1 (c_head ch) ->
  exists f, floor_from ch g l1 o = Some f.
Proof.
  intros. unfold floor_from. destruct (N.ltb_spec (N.min l1 (c_head ch)) (g_retained g)); [lia|].
  eexists. reflexivity.
Qed.

Lemma probes_all : forall fuel hdr ts c low high,
  (forall i, low <= i -> i < high -> hdr i = true) -> probes_ok fuel hdr ts c low high = true.
Proof.
  induction fuel as [|fuel IH]; intros hdr ts c low high H; simpl; [reflexivity|].
  destruct (N.ltb_spec low high) as [A|A]; [|reflexivity].
  assert (M : low <= low + (high - low) / 2 /\ low + (high - low) / 2 < high).
  { split; [lia|]. pose proof (N.div_lt (high - low) 2 ltac:(lia) ltac:(lia)). lia. }
  rewrite H by lia. simpl.
  destruct (ts (low + (high - low) / 2) <? c); apply IH; intros; apply H; lia.
Qed.

(* on a database pruned to d the oldest retained block is d and every header the search may read exists *)
Lemma oldest_NK : forall ch u d m, (forall i, i <= c_head ch -> blk u Cm i = true) ->
  NK u d m -> d <= c_head ch -> oldest_retained ch m = d.
Proof.
  intros ch u d m HC N L. unfold oldest_retained.
  rewrite (oldest_is (blk m) (c_head ch) d); [reflexivity| | |exact L].
  - intros i Hi. rewrite (N Cm i eq_refl ltac:(discriminate)). unfold pruned. simpl. lia.
  - rewrite (N Cm d eq_refl ltac:(discriminate)). unfold pruned. rewrite HC by exact L. simpl. lia.
Qed.

Lemma reads_NK : forall ch u d m g l1, (forall i, i <= c_head ch -> blk u Hdr i = true) ->
  NK u d m -> reads_from ch g l1 d (blk m Hdr) = true.
Proof.
  intros ch u d m g l1 HH N. unfold reads_from. destruct (g_cutoff g); [|reflexivity].
  destruct (N.min l1 (c_head ch) <? d); [reflexivity|]. apply probes_all. intros i A B.
  rewrite (N Hdr i eq_refl ltac:(discriminate)). unfold pruned. rewrite HH by lia. simpl. lia.
Qed.

(* ---------------------------------------------------------------- pinning *)
Lemma pinned_ignores_config : forall ch l1 g g' b m sc,
  mig_run ch l1 g (Some b) m sc = mig_run ch l1 g' (Some b) m sc.
Proof. intros. destruct l1; destruct b as [[sp rp] fl]; reflexivity. Qed.

Lemma pinned_floor : forall ch l1 g sp rp fl m,
  run_floor ch (Some l1) g (Some (sp, rp, fl)) m = Some fl.
Proof. reflexivity. Qed.

Lemma blob_carries_floor : forall ch l1 g pb m sc m' a b c,
  mig_run ch (Some l1) g pb m sc = (m', RBlob a b c) -> run_floor ch (Some l1) g pb m = Some c.
Proof.
  intros ch l1 g pb m sc m' a b c E. unfold mig_run in E. unfold run_floor.
  assert (X : forall m0 sp rp fl,
    (let pr := mig_plan ch m0 sp rp fl sc in
     match s_crash sc with
     | Some k => (mapply_batches ch m0 (firstn k (fst pr)), RCrash)
     | None => (mapply_batches ch m0 (fst pr), snd pr)
     end) = (m', RBlob a b c) -> fl = c).
  { intros m0 sp rp fl E'. cbn zeta in E'. destruct (s_crash sc); [discriminate|]. inversion E' as [[E1 E2]].
    destruct (mig_plan_shape ch m0 sp rp fl sc) as [[_ R]|[[_ [_ R]]|[[_ [_ R]]|[_ [_ R]]]]].
    - rewrite R in E2. discriminate.
    - destruct R as [R|[c' [_ R]]]; rewrite R in E2; [discriminate|]. inversion E2. reflexivity.
    - destruct R as [R|[c' [_ R]]]; rewrite R in E2; [discriminate|]. inversion E2. reflexivity.
    - rewrite R in E2. discriminate. }
  destruct pb as [[[sp rp] fl]|].
  - f_equal. eapply X. exact E.
  - destruct (compute_floor ch g l1 m); try discriminate. f_equal. eapply X. exact E.
Qed.

(* ---------------------------------------------------------------- no underflow *)
Lemma seed_guarded : forall fl, 0 < fl -> fl < W64 -> setup2_ops fl = [MWipeHist; MSeed (fl - 1)].
Proof.
  intros fl A B. unfold setup2_ops. destruct (N.ltb_spec 0 fl); [|lia]. rewrite sub64_exact by lia. reflexivity.
Qed.

(* ---------------------------------------------------------------- a block processed twice = once *)
Lemma hit_app : forall su a b i, hit su (a ++ b) i = hit su a i || hit su b i.
Proof. intros. unfold hit. apply existsb_app. Qed.

Lemma hit_sub : forall su l l' i, (forall n, In n l' -> In n l) -> hit su (l ++ l') i = hit su l i.
Proof.
  intros su l l' i Sub. rewrite hit_app. destruct (hit su l i) eqn:E1; [reflexivity|]. simpl.
  destruct (hit su l' i) eqn:E2; [|reflexivity].
  apply hit_in in E2. destruct E2 as [I HS]. assert (hit su l i = true) by (apply hit_in; auto). congruence.
Qed.

Lemma stage_twice : forall ch m l l',
  (forall n, In n l' -> In n l) ->
  let a := mapply_ops ch m (map MStage (l ++ l')) in
  let b := mapply_ops ch m (map MStage l) in
  blk a = blk b /\ hlog a = hlog b /\ forall i j, scr a i j = scr b i j.
Proof.
  intros ch m l l' Sub a b.
  destruct (stage_list ch (l ++ l') m) as [B1 [H1 S1]]. destruct (stage_list ch l m) as [B2 [H2 S2]].
  fold a in B1, H1, S1. fold b in B2, H2, S2.
  split; [congruence|]. split; [congruence|]. intros i j. rewrite S1, S2, (hit_sub _ l l' i Sub). reflexivity.
Qed.

Lemma restore_twice : forall ch m l l',
  (forall n, In n l' -> In n l) ->
  let a := mapply_ops ch m (map MRestore (l ++ l')) in
  let b := mapply_ops ch m (map MRestore l) in
  (forall f i, blk a f i = blk b f i) /\ scr a = scr b /\ forall i j, hlog a i j = hlog b i j.
Proof.
  intros ch m l l' Sub a b.
  destruct (restore_list ch (l ++ l') m) as [S1 [B1 H1]]. destruct (restore_list ch l m) as [S2 [B2 H2]].
  fold a in B1, H1, S1. fold b in B2, H2, S2.
  split; [|split; [congruence|]].
  - intros f i. rewrite B1, B2, (hit_sub _ l l' i Sub). reflexivity.
  - intros i j. rewrite H1, H2, (hit_sub _ l l' i Sub). reflexivity.
Qed.

(* ================================================================ every schedule of starts *)
(* the invariant between starts. Nothing pinned: the database is pruned to some d (0 = untouched; the
   cut-off of the last un-pinned start that committed its set-up batch) and every log from d upwards is
   intact. A stored blob (sp, rp, fl): the blob invariant of part 3 for the cut-off fl. *)
Definition InvG (ch : chain) (u m : mstore) (pb : blob) : Prop :=
  match pb with
  | None => exists d, d <= c_head ch /\ NK u d m /\ Good ch u d m
  | Some (sp, rp, fl) => fl <= c_head ch /\ InvPS ch u fl sp rp m
  end.

Lemma Good_mono : forall ch u d d' m, d <= d' -> Good ch u d m -> Good ch u d' m.
Proof. intros ch u d d' m L G i j A B. apply G; lia. Qed.

Lemma InvG_init : forall ch u, chain_ok ch u -> InvG ch u u None.
Proof.
  intros ch u [H1 [H2 [H3 [H4 [H5 [H6 [H7 [H8 H9]]]]]]]]. exists 0. split; [lia|]. split.
  - intros f i _ _. unfold pruned. rewrite keep_zero, andb_true_r. reflexivity.
  - intros i j _ _. rewrite H5. apply egood_wipe_s. reflexivity.
Qed.

Lemma runs_wf_cons : forall ch l1 g sc rest m pb,
  runs_wf ch l1 ((g, sc) :: rest) m pb =
  run_wf ch l1 g sc pb m &&
  match mig_run ch l1 g pb m sc with
  | (_, RDone) => true
  | (m', r) => runs_wf ch l1 rest m' (next_blob pb r)
  end.
Proof. reflexivity. Qed.
Lemma run_all_cons : forall ch l1 g sc rest m pb,
  run_all ch l1 ((g, sc) :: rest) m pb =
  match mig_run ch l1 g pb m sc with
  | (m', RDone) => (m', pb, run_floor ch l1 g pb m)
  | (m', r) => run_all ch l1 rest m' (next_blob pb r)
  end.
Proof. reflexivity. Qed.

(* with nothing pinned, on a reachable database, the cut-off can always be computed: at or above what is
   already pruned, inside the chain, and no header it reads is missing *)
Lemma unpinned_floor : forall ch u m d g l1, chain_ok ch u ->
  d <= c_head ch -> NK u d m -> g_retained g <= N.min l1 (c_head ch) ->
  exists F, compute_floor ch g l1 m = FOk F /\ floor_from ch g l1 d = Some F /\ d <= F /\ F <= c_head ch.
Proof.
  intros ch u m d g l1 [H1 [H2 [H3 [H4 [H5 [H6 [H7 [H8 H9]]]]]]]] L N R.
  destruct (floor_from_some ch g l1 d R) as [F E]. exists F.
  unfold compute_floor, pure_floor, floor_reads_ok. rewrite (oldest_NK ch u d m H3 N L), E.
  rewrite (reads_NK ch u d m g l1 H2 N).
  destruct (floor_from_bound ch g l1 d F ltac:(lia) L E) as [_ [A [B _]]]. auto.
Qed.

(* one start of the node *)
Lemma step_G : forall ch u l1 g sc pb m m' r, chain_ok ch u ->
  InvG ch u m pb -> run_wf ch (Some l1) g sc pb m = true ->
  mig_run ch (Some l1) g pb m sc = (m', r) ->
  match r with
  | RDone => exists F, run_floor ch (Some l1) g pb m = Some F /\ F <= c_head ch /\ Final u F m'
  | _ => InvG ch u m' (next_blob pb r)
  end.
Proof.
  intros ch u l1 g sc pb m m' r OKC I WF E.
  pose proof OKC as [H1 [H2 [H3 [H4 [H5 [H6 [H7 [H8 H9]]]]]]]].
  unfold run_wf in WF. apply andb_true_iff in WF. destruct WF as [FL OK].
  unfold mig_run in E. destruct pb as [[[sp rp] fl]|].
  - destruct I as [HF I]. simpl in OK.
    pose proof (step_pinned ch u fl H1 H2 H4 H5 H7 H8 HF H9 m sp rp sc m' r I OK E) as G.
    destruct r; simpl.
    + exists fl. auto.
    + destruct G as [EF G]. subst fl0. auto.
    + auto.
    + auto.
  - destruct I as [d [Ld [N G]]]. apply N.leb_le in FL.
    destruct (unpinned_floor ch u m d g l1 OKC Ld N FL) as [F [CF [_ [LF HF]]]].
    unfold run_floor in OK. rewrite CF in *. simpl in OK.
    assert (NA : NKany u F m) by (exists d; auto).
    pose proof (Good_mono ch u d F m LF G) as GF.
    pose proof (step_unpinned ch u F H1 H2 H4 H5 H7 H8 HF H9 m sc m' r NA GF OK E) as S.
    destruct r; simpl.
    + exists F. unfold run_floor. rewrite CF. auto.
    + destruct S as [EF S]. subst fl. auto.
    + destruct S as [S|[N' G']]; [subst m'; exists d; auto|exists F; auto].
    + destruct S as [S|[N' G']]; [subst m'; exists d; auto|exists F; auto].
Qed.

Theorem any_schedule : forall ch u l1 runs m pb m' pb' F, chain_ok ch u ->
  InvG ch u m pb -> runs_wf ch (Some l1) runs m pb = true ->
  run_all ch (Some l1) runs m pb = (m', pb', Some F) -> F <= c_head ch /\ Final u F m'.
Proof.
  intros ch u l1. induction runs as [|[g sc] rest IH]; intros m pb m' pb' F OKC I WF E; [discriminate|].
  rewrite runs_wf_cons in WF. rewrite run_all_cons in E.
  apply andb_true_iff in WF. destruct WF as [W1 W2].
  destruct (mig_run ch (Some l1) g pb m sc) as [m1 r] eqn:R.
  pose proof (step_G ch u l1 g sc pb m m1 r OKC I W1 R) as ST.
  destruct r; try (eapply IH; eassumption).
  destruct ST as [F' [RF [LF Fi]]]. rewrite RF in E. inversion E; subst. auto.
Qed.

Theorem any_schedule_inv : forall ch u l1 runs m pb m' pb', chain_ok ch u ->
  InvG ch u m pb -> runs_wf ch (Some l1) runs m pb = true ->
  run_all ch (Some l1) runs m pb = (m', pb', None) -> InvG ch u m' pb'.
Proof.
  intros ch u l1. induction runs as [|[g sc] rest IH]; intros m pb m' pb' OKC I WF E.
  - inversion E; subst. exact I.
  - rewrite runs_wf_cons in WF. rewrite run_all_cons in E.
    apply andb_true_iff in WF. destruct WF as [W1 W2].
    destruct (mig_run ch (Some l1) g pb m sc) as [m1 r] eqn:R.
    pose proof (step_G ch u l1 g sc pb m m1 r OKC I W1 R) as ST.
    destruct r; try (eapply IH; eassumption).
    destruct ST as [F' [RF _]]. rewrite RF in E. discriminate.
Qed.

(* ---------------------------------------------------------------- the top-level statements *)
Lemma Final_mig_final : forall u F m, Final u F m <->
  (forall f i, f <> Hist -> blk m f i = blk (mig_final u F) f i) /\
  (forall i j, hlog m i j = hlog (mig_final u F) i j) /\
  (forall i j, scr m i j = scr (mig_final u F) i j) /\ mark m = mark (mig_final u F).
Proof. intros. unfold Final, mig_final. simpl. tauto. Qed.

Theorem migrate_any_schedule : forall ch u l1 runs m' pb' F,
  chain_ok ch u ->
  runs_wf ch (Some l1) runs u None = true ->
  run_all ch (Some l1) runs u None = (m', pb', Some F) ->
  F <= c_head ch /\
  (forall f i, f <> Hist -> blk m' f i = blk (mig_final u F) f i) /\
  (forall i j, hlog m' i j = hlog (mig_final u F) i j) /\
  (forall i j, scr m' i j = scr (mig_final u F) i j) /\ mark m' = mark (mig_final u F).
Proof.
  intros ch u l1 runs m' pb' F OKC WF E.
  destruct (any_schedule ch u l1 runs u None m' pb' F OKC (InvG_init ch u OKC) WF E) as [L Fi].
  split; [exact L|]. apply Final_mig_final. exact Fi.
Qed.

(* the damage of an interrupted database, relative to the cut-off F it is committed to: the pinned one, or
   (nothing pinned) what the last un-pinned start pruned to - every later un-pinned cut-off is at or above it *)
Theorem migrate_interrupted_state : forall ch u l1 runs m' pb',
  chain_ok ch u ->
  runs_wf ch (Some l1) runs u None = true ->
  run_all ch (Some l1) runs u None = (m', pb', None) ->
  exists F, F <= c_head ch /\
  (forall sp rp fl, pb' = Some (sp, rp, fl) -> fl = F) /\
  (pb' = None -> oldest_retained ch m' = F /\
     forall g f, floor_from ch g l1 (oldest_retained ch m') = Some f -> F <= f /\ f <= c_head ch) /\
  (forall f i, is_look f = false -> f <> Hist -> F <= i -> blk m' f i = blk u f i) /\
  (forall i j, F <= i -> i <= c_head ch ->
     (hlog m' i j = hlog u i j \/ scr m' i j = hlog u i j) /\
     (hlog m' i j = None \/ hlog m' i j = hlog u i j) /\ (scr m' i j = None \/ scr m' i j = hlog u i j)).
Proof.
  intros ch u l1 runs m' pb' OKC WF E.
  pose proof (any_schedule_inv ch u l1 runs u None m' pb' OKC (InvG_init ch u OKC) WF E) as I.
  pose proof OKC as [H1 [H2 [H3 [H4 [H5 [H6 [H7 [H8 H9]]]]]]]].
  destruct pb' as [[[sp rp] fl]|].
  - destruct I as [HF I]. exists fl. split; [exact HF|]. split; [intros ? ? ? Eq; inversion Eq; reflexivity|].
    split; [intros; discriminate|].
    destruct (InvPS_any_good ch u fl H1 H2 H5 H7 H8 HF H9 sp rp m' I) as [N G].
    apply (damage_bound ch u fl H1 H2 H5 H7 H8 HF H9 m' N G).
  - destruct I as [d [Ld [N G]]]. exists d. split; [exact Ld|]. split; [intros; discriminate|]. split.
    + intros _. rewrite (oldest_NK ch u d m' H3 N Ld). split; [reflexivity|].
      intros g f Ef. destruct (floor_from_bound ch g l1 d f ltac:(lia) Ld Ef) as [_ [A [B _]]]. auto.
    + apply (damage_bound ch u d H1 H2 H5 H7 H8 Ld H9 m'); [exists d; split; [lia|exact N]|exact G].
Qed.

(* wherever a schedule of interrupted starts has left the database, the next start can compute its cut-off
   (pinned, or - flags still leaving something to do - recomputed without reading a pruned header), and an
   undisturbed start (one worker, one batch per phase) completes the migration *)
Theorem migrate_resumable : forall ch u l1 runs m pb g,
  chain_ok ch u ->
  runs_wf ch (Some l1) runs u None = true ->
  run_all ch (Some l1) runs u None = (m, pb, None) ->
  (pb = None -> g_retained g <= N.min l1 (c_head ch)) ->
  exists F m',
    run_floor ch (Some l1) g pb m = Some F /\ F <= c_head ch /\
    mig_run ch (Some l1) g pb m (match start_of ch m pb F with (sp, rp, fl) => canon ch sp rp fl end) = (m', RDone) /\
    (forall f i, f <> Hist -> blk m' f i = blk (mig_final u F) f i) /\
    (forall i j, hlog m' i j = hlog (mig_final u F) i j) /\
    (forall i j, scr m' i j = scr (mig_final u F) i j) /\ mark m' = mark (mig_final u F).
Proof.
  intros ch u l1 runs m pb g OKC WF E FL.
  pose proof (any_schedule_inv ch u l1 runs u None m pb OKC (InvG_init ch u OKC) WF E) as I.
  pose proof OKC as [H1 [H2 [H3 [H4 [H5 [H6 [H7 [H8 H9]]]]]]]].
  assert (X : forall F m0 sp rp, F <= c_head ch -> InvS ch u F sp rp m0 ->
    exists m', (let pr := mig_plan ch m0 sp rp F (canon ch sp rp F) in
                match s_crash (canon ch sp rp F) with
                | Some k => (mapply_batches ch m0 (firstn k (fst pr)), RCrash)
                | None => (mapply_batches ch m0 (fst pr), snd pr)
                end) = (m', RDone) /\ Final u F m').
  { intros F m0 sp rp HF IS. cbn zeta. cbn [s_crash canon]. eexists. split.
    - rewrite (canon_completes ch u F H1 H2 H5 H7 H8 HF H9 m0 sp rp IS). reflexivity.
    - apply (canon_final ch u F H1 H2 H4 H5 H7 H8 HF H9 m0 sp rp IS). }
  unfold mig_run. destruct pb as [[[sp rp] fl]|].
  - destruct I as [HF I]. exists fl.
    destruct (X fl _ _ rp HF (pre_inv ch u fl H1 H2 H5 H7 H8 HF H9 m sp rp I)) as [m' [R Fi]].
    exists m'. split; [reflexivity|]. split; [exact HF|]. split; [exact R|]. apply Final_mig_final. exact Fi.
  - destruct I as [d [Ld [N G]]].
    destruct (unpinned_floor ch u m d g l1 OKC Ld N (FL eq_refl)) as [F [CF [_ [LF HF]]]].
    assert (IS : InvS ch u F 0 0 m).
    { split; [exists d; auto|]. split; [apply (Good_mono ch u d F m LF G)|]. intros i A B. lia. }
    destruct (X F m 0 0 HF IS) as [m' [R Fi]].
    exists F, m'. unfold run_floor. rewrite CF. split; [reflexivity|]. split; [exact HF|].
    split; [exact R|]. apply Final_mig_final. exact Fi.
Qed.

(* ---------------------------------------------------------------- the small instances meet the hypotheses *)
Lemma wit_chain_ok : chain_ok wit_ch wit_u.
Proof.
  unfold chain_ok, wit_ch, wit_u, full_mstore. cbn [c_head c_dlen blk hlog scr mark].
  split; [intros; unfold full_store; lia|]. split; [intros; unfold full_store; lia|].
  split; [intros; unfold full_store; lia|].
  split; [intros f L i; destruct f; try discriminate; reflexivity|].
  split; [reflexivity|]. split; [reflexivity|]. split.
  - intros i j H. destruct (N.eqb_spec j 0); [lia|reflexivity].
  - split; [|reflexivity]. intros i j H. destruct (N.leb_spec i 3); [lia|]. rewrite andb_false_r. reflexivity.
Qed.

Lemma wit30_chain_ok : chain_ok wit_ch30 wit_u30.
Proof.
  unfold chain_ok, wit_ch30, wit_u30, full_mstore. cbn [c_head c_dlen blk hlog scr mark].
  split; [intros; unfold full_store; lia|]. split; [intros; unfold full_store; lia|].
  split; [intros; unfold full_store; lia|].
  split; [intros f L i; destruct f; try discriminate; reflexivity|].
  repeat split; reflexivity.
Qed.
