(* C16 — property theorems only: each closed by [exact] of a lemma, followed by Print Assumptions;
   Examples show the hypotheses are satisfiable / give the refutation witnesses. *)
From Coq Require Import List NArith ZArith Bool Lia.
From V Require Import C16.Model C16.Proofs C16.Proofs_B C16.Proofs_C C16.Proofs_D.
Import ListNotations.
Open Scope N_scope.

(* ---- the retention floor: never above min(l1, local head) - retained, no uint64 wrap ---- *)
Theorem C16_floor_bound : forall c s l1 block within s' k,
  block < W64 -> retained c < W64 ->
  on_new_block c s (Some l1) block within = (s', Prune k) ->
  retained c <= N.min l1 block /\ k + retained c <= N.min l1 block /\
  k <= block - retained c /\
  sub64 block (retained c) = block - retained c /\
  (min_age_on c = true -> within = true -> k <= sampled s) /\
  (min_age_on c && within = false -> k = block - retained c).
Proof. exact on_new_block_bound. Qed.
Print Assumptions C16_floor_bound.

Theorem C16_floor_bound_l1 : forall c s l1 h s' k,
  l1 < W64 -> retained c < W64 ->
  on_new_l1_head c s l1 (Some h) = (s', Prune k) ->
  retained c <= N.min l1 h /\ k + retained c <= N.min l1 h /\
  k <= l1 - retained c /\
  sub64 l1 (retained c) = l1 - retained c /\
  (min_age_on c = true -> k <= sampled s) /\
  (min_age_on c = false -> k = l1 - retained c).
Proof. exact on_new_l1_head_bound. Qed.
Print Assumptions C16_floor_bound_l1.

(* the shared state floor is raised (never lowered) to exactly max(old, keep-1), before any delete *)
Theorem C16_state_floor_raised : forall keep st f, keep < W64 -> st < W64 ->
  floor_of (prune_floor keep st) = Some f -> f + 1 = N.max st keep.
Proof. exact floor_of_prune. Qed.
Print Assumptions C16_state_floor_raised.

(* the min-age sample is the first block young enough (timestamps non-decreasing), so a floor at or
   below it keeps every block younger than the minimum age *)
Theorem C16_min_age_sample : forall ts lower upper cutoff,
  (forall a b, lower <= a -> a <= b -> b <= upper -> ts a <= ts b) ->
  match find_oldest ts lower upper cutoff with
  | Some r => lower <= r /\ r <= upper /\ cutoff <= ts r /\ (forall m, lower <= m -> m < r -> ts m < cutoff)
  | None => forall m, lower <= m -> m <= upper -> ts m < cutoff
  end.
Proof. exact find_oldest_spec. Qed.
Print Assumptions C16_min_age_sample.

(* ---- retained blocks: every family entry / accessor at or above e, at every interruption ---- *)
Theorem C16_retained_unchanged : forall (s : store) head e k rot m a n, e <= n ->
  answers (interrupted s (prune_plan s head e k rot) m) a n = answers s a n.
Proof. exact plan_retained_unchanged_acc. Qed.
Print Assumptions C16_retained_unchanged.

Theorem C16_retained_unchanged_families : forall (s : store) head e k rot m f i,
  at_or_above e f i -> interrupted s (prune_plan s head e k rot) m f i = s f i.
Proof. exact plan_retained_unchanged_fam. Qed.
Print Assumptions C16_retained_unchanged_families.

(* aggregated bloom filters: pruning keeps every persisted filter whose window contains a retained
   block (the retained-window set = windows intersecting [e, head]), the floor's own window included *)
Theorem C16_bloom_windows_retained : forall (s : store) head e k rot m w,
  window_retained e w -> interrupted s (prune_plan s head e k rot) m Bloom w = s Bloom w.
Proof. exact bloom_windows_retained. Qed.
Print Assumptions C16_bloom_windows_retained.

Theorem C16_floor_window_retained : forall e, window_retained e (wf e).
Proof. exact floor_window_retained. Qed.
Print Assumptions C16_floor_window_retained.

Example bloom_floor_window_example :
  let u := full_store 16400 in
  let s := apply_batches u (prune_batches 0 8292 8292 (fun _ => false)) in
  (u Bloom 0, u Bloom 8192, u Bloom 16384, s Bloom 0, s Bloom 8192) = (true, true, false, false, true).
Proof. vm_compute. reflexivity. Qed.

(* ---- historical state from e-1 upwards ---- *)
(* old-value logs ("first log above n") *)
Theorem C16_state_from_floor : forall (s : store) o e k rot m lg hv n,
  o <= k -> k <= e -> e <= n + 1 ->
  read_old lg (interrupted s (prune_batches o e k rot) m Hist) hv n = read_old lg (s Hist) hv n.
Proof. exact state_from_floor_old. Qed.
Print Assumptions C16_state_from_floor.

(* new-value logs ("last log <= n"): untouched by every delete the pruner issues *)
Theorem C16_state_from_floor_new : forall (s : store) bs m lg n d,
  read_new lg (interrupted s bs m HistNew) n d = read_new lg (s HistNew) n d /\
  last_upd lg (interrupted s bs m HistNew) n d = last_upd lg (s HistNew) n d.
Proof. exact state_from_floor_new. Qed.
Print Assumptions C16_state_from_floor_new.

(* what is served by number in-process is at n >= e-1: the floor moved first *)
Theorem C16_served_reads_intact : forall (s : store) o e k rot m st height lg hv n,
  o <= k -> k <= e -> 0 < e -> e < W64 -> st < W64 ->
  state_served (prune_floor e st) height n = true ->
  read_old lg (interrupted s (prune_batches o e k rot) m Hist) hv n = read_old lg (s Hist) hv n.
Proof. exact served_reads_intact. Qed.
Print Assumptions C16_served_reads_intact.

(* what is served by hash: a resolving hash implies intact logs above it, at every interruption *)
Theorem C16_state_by_hash_intact : forall (u : store) o e k rot m n b,
  o < e -> o <= k -> k <= e -> e < W64 ->
  let s1 := interrupted (pruned u o) (prune_batches o e k rot) m in
  s1 H2n n = true -> n < b -> s1 Hist b = u Hist b.
Proof. exact hash_resolves_logs_intact. Qed.
Print Assumptions C16_state_by_hash_intact.

(* "last log <= n" over OLD-value logs (ContractStorageLastUpdatedBlock on the legacy backend) is only
   preserved when that last log is itself at or above e ... *)
Theorem C16_last_updated_if_recent : forall lg p p' n e d d',
  asc d lg ->
  (forall b, e <= b -> p' b = p b) -> (forall b, p' b = true -> p b = true) ->
  (d' = d \/ (d < e /\ d' < e)) ->
  e <= last_upd lg p n d -> last_upd lg p' n d' = last_upd lg p n d.
Proof. exact last_upd_recent. Qed.
Print Assumptions C16_last_updated_if_recent.

(* ... and is refuted otherwise: slot last written at block 3, pruned up to 10, asked at the head 12 *)
Example C16_last_updated_refuted :
  let u := full_store 12 in
  let s := apply_batches (pruned u 0) (prune_batches 0 10 10 (fun _ => true)) in
  last_upd [(3, 7)] (u Hist) 12 0 = 3 /\ last_upd [(3, 7)] (s Hist) 12 0 = 0.
Proof. vm_compute. split; reflexivity. Qed.

(* ---- below the floor: exactly the pruned shape, carve-outs included ---- *)
Theorem C16_below_is_pruned : forall (u : store) o e rot f i, o < e -> e < W64 ->
  apply_batches (pruned u o) (prune_batches o e e rot) f i = pruned u e f i.
Proof. exact complete_is_pruned. Qed.
Print Assumptions C16_below_is_pruned.

(* the same for a sweep cancelled at ANY block k of [o, e] (graceful shutdown mid-prune): the database is
   exactly the one a complete PruneUpto(k) leaves - in particular the hash->number entry of k-1, needed by
   StateAtBlockHash(parent of the new oldest block), is still there after the restart re-seeds the floor
   from the database. (False for the code before the /repo fix "pruner keeps the hash->number carve-out
   when a prune is cancelled": cancelled_loses_carveout_before_fix below.) *)
Theorem C16_cancelled_is_pruned : forall (u : store) o e k rot f i, o <= k -> k <= e ->
  apply_batches (pruned u o) (prune_batches o e k rot) f i = pruned u k f i.
Proof. exact cancelled_is_pruned. Qed.
Print Assumptions C16_cancelled_is_pruned.

(* the loop body as it was before the fix, kept as the refutation witness of the registered (fixed)
   finding: prune 10 -> 12 cancelled when block 11 is reached deleted the hash->number entry of block 10,
   the parent of the new oldest block 11 *)
Example cancelled_loses_carveout_before_fix :
  let old_block_ops (e n : N) := (if n =? sub64 e 1 then [] else [DHashNum n]) ++ [DTxLook n; DHist n] in
  let u := full_store 15 in
  let s_old := apply_batches (pruned u 10) [[DHashNum 9] ++ old_block_ops 12 10; range_ops 11] in
  let s_new := apply_batches (pruned u 10) (prune_batches 10 12 11 (fun _ => true)) in
  (s_old Cm 10, s_old Cm 11, s_old H2n 10, s_new Cm 10, s_new Cm 11, s_new H2n 10, s_new H2n 9) =
  (false, true, false, false, true, true, false).
Proof. vm_compute. reflexivity. Qed.

Theorem C16_below_nothing_answers : forall (u : store) e a n, n + LAG < e ->
  answers (pruned u e) a n = false.
Proof. exact below_lag_nothing. Qed.
Print Assumptions C16_below_nothing_answers.

Theorem C16_below_only_carveouts : forall (u : store) e a n, n < e ->
  answers (pruned u e) a n = true ->
  (header_only a = true /\ e <= n + LAG) \/ (a = ANumberByHash /\ n + 1 = e) \/
  (a = AHeaderByHash /\ n + 1 = e).
Proof. exact below_floor_only_carveouts. Qed.
Print Assumptions C16_below_only_carveouts.

Theorem C16_carveouts_present : forall (u : store) e n,
  (e <= n + LAG -> pruned u e Hdr n = u Hdr n) /\ (e <= n + 1 -> pruned u e H2n n = u H2n n).
Proof. exact carveouts_present. Qed.
Print Assumptions C16_carveouts_present.

(* ---- resume ---- *)
Theorem C16_resume_same_final : forall (u : store) head o e k e' rot rot' m f i,
  (forall j, j <= head -> u Cm j = true) ->
  o < e -> o <= k -> k <= e -> e <= e' -> e' <= head -> e' < W64 ->
  let s1 := interrupted (pruned u o) (prune_batches o e k rot) m in
  apply_batches s1 (prune_plan s1 head e' e' rot') f i = pruned u e' f i.
Proof. exact resume_same_final. Qed.
Print Assumptions C16_resume_same_final.

(* ---- extension and revert down to the floor ---- *)
Theorem C16_extend_revert_commute : forall (u : store) o h b f i, o <= h ->
  pruned (set_block u h b) o f i = set_block (pruned u o) h b f i.
Proof. exact set_block_commutes. Qed.
Print Assumptions C16_extend_revert_commute.

Theorem C16_revert_down_to_floor : forall (u : store) o h,
  can_revert (pruned u o) h = can_revert u h && (o <=? h).
Proof. exact can_revert_pruned. Qed.
Print Assumptions C16_revert_down_to_floor.

Theorem C16_revert_extend_mid_prune : forall (s : store) o e k rot m h, o <= k -> k <= e -> e <= h ->
  can_revert (interrupted s (prune_batches o e k rot) m) h = can_revert s h /\
  can_extend (interrupted s (prune_batches o e k rot) m) h = can_extend s h.
Proof. exact can_revert_interrupted. Qed.
Print Assumptions C16_revert_extend_mid_prune.

(* ---- restart after an interruption ---- *)
Theorem C16_reseed_after_cancel : forall (u : store) head o e k rot,
  (forall j, j <= head -> u Cm j = true) -> o < e -> o <= k -> k <= e -> k <= head -> e < W64 ->
  let s1 := apply_batches (pruned u o) (prune_batches o e k rot) in
  oldest s1 head = Some k /\ forall b, k <= b -> s1 Hist b = u Hist b.
Proof. exact reseed_after_cancel. Qed.
Print Assumptions C16_reseed_after_cancel.

(* a CRASH between the hash-keyed batches and the range batch is different: the reseeded floor is the
   old one (commitments untouched) while logs above it are already gone. Blocks 0..20, sweep 0 -> 10
   with one batch per block, crash after 4 commits: the restart serves block 1 by number, and a slot
   written at block 2 (old value 5, head value 9) is answered with 9 instead of 5. *)
Example C16_crash_reseed_refuted :
  let u := full_store 20 in
  let s1 := interrupted (pruned u 0) (prune_batches 0 10 10 (fun _ => true)) 4 in
  let st := seed_floor (oldest s1 20) 0 in
  state_served st 20 1 = true /\
  read_old [(2, 5)] (u Hist) 9 1 = 5 /\ read_old [(2, 5)] (s1 Hist) 9 1 = 9.
Proof. vm_compute. repeat split; reflexivity. Qed.

(* ---- the statements are not vacuous ---- *)
Example floor_decision_example :
  on_new_block {| retained := 3; every := 1; min_age_on := true |} {| pending := 0; sampled := 5 |}
    (Some 40) 20 true = ({| pending := 0; sampled := 5 |}, Prune 5) /\
  on_new_l1_head {| retained := 3; every := 128; min_age_on := false |} {| pending := 7; sampled := 0 |}
    12 (Some 20) = ({| pending := 0; sampled := 0 |}, Prune 9) /\
  on_new_block {| retained := 30; every := 1; min_age_on := false |} {| pending := 0; sampled := 0 |}
    (Some 40) 20 false = ({| pending := 0; sampled := 0 |}, Skip).
Proof. vm_compute. repeat split; reflexivity. Qed.

Example batches_example :
  prune_batches 2 5 5 (fun n => n =? 3) =
  [[DHashNum 1; DTxLook 2; DHist 2; DHashNum 2; DTxLook 3; DHist 3];
   [DHashNum 3; DTxLook 4; DHist 4];
   [RHdr 0; RCm 5; RSu 5; RTxs 5; RBloom 5]].
Proof. vm_compute. reflexivity. Qed.

Example resume_example :
  let u := full_store 30 in
  let s1 := interrupted (pruned u 2) (prune_batches 2 20 9 (fun n => n =? 5)) 1 in
  oldest s1 30 = Some 2 /\
  store_bits (apply_batches s1 (prune_plan s1 30 25 25 (fun _ => false))) H2n 31 =
  store_bits (pruned u 25) H2n 31.
Proof. vm_compute. split; reflexivity. Qed.

Example find_oldest_example :
  find_oldest (fun n => 100 + 10 * n) 2 20 155 = Some 6 /\
  find_oldest (fun n => 100 + 10 * n) 2 20 1000 = None.
Proof. vm_compute. split; reflexivity. Qed.
