(* C16 — property theorems only: each closed by [exact] of a lemma, followed by Print Assumptions;
   Examples show the hypotheses are satisfiable / give the refutation witnesses. *)
From Coq Require Import List NArith ZArith Bool Lia.
From V Require Import C16.Model C16.Proofs C16.Proofs_B C16.Proofs_C C16.Proofs_D.
From V Require Import C16.Proofs_migrate C16.Proofs_migrate_B C16.Proofs_migrate_C C16.Proofs_migrate_D.
Import ListNotations.
Open Scope N_scope.

(* ---- the retention floor: never above min(l1, local head) - retained, no uint64 wrap ---- *)
Theorem C16_floor_bound : forall c s l1 block within s' k,
  block < W64 -> retained c < W64 ->
  on_new_block c s (Some l1) block within = (s', Prune k) ->
  retained c <= N.min l1 block /\ k + retained c <= N.min l1 block /\
  k <= block - retained c /\
  sub64 block (retained c) = block - retained c /\
  (min_age_on c = true -> within = true -> k <= sampled s) /\
  (min_age_on c && within = false -> k = block - retained c).
Proof. exact on_new_block_bound. Qed.
Print Assumptions C16_floor_bound.

Theorem C16_floor_bound_l1 : forall c s l1 h s' k,
  l1 < W64 -> retained c < W64 ->
  on_new_l1_head c s l1 (Some h) = (s', Prune k) ->
  retained c <= N.min l1 h /\ k + retained c <= N.min l1 h /\
  k <= l1 - retained c /\
  sub64 l1 (retained c) = l1 - retained c /\
  (min_age_on c = true -> k <= sampled s) /\
  (min_age_on c = false -> k = l1 - retained c).
Proof. exact on_new_l1_head_bound. Qed.
Print Assumptions C16_floor_bound_l1.

(* the shared state floor is raised (never lowered) to exactly max(old, keep-1), before any delete *)
Theorem C16_state_floor_raised : forall keep st f, keep < W64 -> st < W64 ->
  floor_of (prune_floor keep st) = Some f -> f + 1 = N.max st keep.
Proof. exact floor_of_prune. Qed.
Print Assumptions C16_state_floor_raised.

(* the min-age sample is the first block young enough (timestamps non-decreasing), so a floor at or
   below it keeps every block younger than the minimum age *)
Theorem C16_min_age_sample : forall ts lower upper cutoff,
  (forall a b, lower <= a -> a <= b -> b <= upper -> ts a <= ts b) ->
  match find_oldest ts lower upper cutoff with
  | Some r => lower <= r /\ r <= upper /\ cutoff <= ts r /\ (forall m, lower <= m -> m < r -> ts m < cutoff)
  | None => forall m, lower <= m -> m <= upper -> ts m < cutoff
  end.
Proof. exact find_oldest_spec. Qed.
Print Assumptions C16_min_age_sample.

(* ---- retained blocks: every family entry / accessor at or above e, at every interruption ---- *)
Theorem C16_retained_unchanged : forall (s : store) head e k rot m a n, e <= n ->
  answers (interrupted s (prune_plan s head e k rot) m) a n = answers s a n.
Proof. exact plan_retained_unchanged_acc. Qed.
Print Assumptions C16_retained_unchanged.

Theorem C16_retained_unchanged_families : forall (s : store) head e k rot m f i,
  at_or_above e f i -> interrupted s (prune_plan s head e k rot) m f i = s f i.
Proof. exact plan_retained_unchanged_fam. Qed.
Print Assumptions C16_retained_unchanged_families.

(* aggregated bloom filters: pruning keeps every persisted filter whose window contains a retained
   block (the retained-window set = windows intersecting [e, head]), the floor's own window included *)
Theorem C16_bloom_windows_retained : forall (s : store) head e k rot m w,
  window_retained e w -> interrupted s (prune_plan s head e k rot) m Bloom w = s Bloom w.
Proof. exact bloom_windows_retained. Qed.
Print Assumptions C16_bloom_windows_retained.

Theorem C16_floor_window_retained : forall e, window_retained e (wf e).
Proof. exact floor_window_retained. Qed.
Print Assumptions C16_floor_window_retained.

Example bloom_floor_window_example :
  let u := full_store 16400 in
  let s := apply_batches u (prune_batches 0 8292 8292 (fun _ => false)) in
  (u Bloom 0, u Bloom 8192, u Bloom 16384, s Bloom 0, s Bloom 8192) = (true, true, false, false, true).
Proof. vm_compute. reflexivity. Qed.

(* ---- historical state from e-1 upwards ---- *)
(* old-value logs ("first log above n") *)
Theorem C16_state_from_floor : forall (s : store) o e k rot m lg hv n,
  o <= k -> k <= e -> e <= n + 1 ->
  read_old lg (interrupted s (prune_batches o e k rot) m Hist) hv n = read_old lg (s Hist) hv n.
Proof. exact state_from_floor_old. Qed.
Print Assumptions C16_state_from_floor.

(* new-value logs ("last log <= n"): untouched by every delete the pruner issues *)
Theorem C16_state_from_floor_new : forall (s : store) bs m lg n d,
  read_new lg (interrupted s bs m HistNew) n d = read_new lg (s HistNew) n d /\
  last_upd lg (interrupted s bs m HistNew) n d = last_upd lg (s HistNew) n d.
Proof. exact state_from_floor_new. Qed.
Print Assumptions C16_state_from_floor_new.

(* what is served by number in-process is at n >= e-1: the floor moved first *)
Theorem C16_served_reads_intact : forall (s : store) o e k rot m st height lg hv n,
  o <= k -> k <= e -> 0 < e -> e < W64 -> st < W64 ->
  state_served (prune_floor e st) height n = true ->
  read_old lg (interrupted s (prune_batches o e k rot) m Hist) hv n = read_old lg (s Hist) hv n.
Proof. exact served_reads_intact. Qed.
Print Assumptions C16_served_reads_intact.

(* what is served by hash: a resolving hash implies intact logs above it, at every interruption *)
Theorem C16_state_by_hash_intact : forall (u : store) o e k rot m n b,
  o < e -> o <= k -> k <= e -> e < W64 ->
  let s1 := interrupted (pruned u o) (prune_batches o e k rot) m in
  s1 H2n n = true -> n < b -> s1 Hist b = u Hist b.
Proof. exact hash_resolves_logs_intact. Qed.
Print Assumptions C16_state_by_hash_intact.

(* "last log <= n" over OLD-value logs (ContractStorageLastUpdatedBlock on the legacy backend) is only
   preserved when that last log is itself at or above e ... *)
Theorem C16_last_updated_if_recent : forall lg p p' n e d d',
  asc d lg ->
  (forall b, e <= b -> p' b = p b) -> (forall b, p' b = true -> p b = true) ->
  (d' = d \/ (d < e /\ d' < e)) ->
  e <= last_upd lg p n d -> last_upd lg p' n d' = last_upd lg p n d.
Proof. exact last_upd_recent. Qed.
Print Assumptions C16_last_updated_if_recent.

(* ... and is refuted otherwise: slot last written at block 3, pruned up to 10, asked at the head 12 *)
Example C16_last_updated_refuted :
  let u := full_store 12 in
  let s := apply_batches (pruned u 0) (prune_batches 0 10 10 (fun _ => true)) in
  last_upd [(3, 7)] (u Hist) 12 0 = 3 /\ last_upd [(3, 7)] (s Hist) 12 0 = 0.
Proof. vm_compute. split; reflexivity. Qed.

(* ---- below the floor: exactly the pruned shape, carve-outs included ---- *)
Theorem C16_below_is_pruned : forall (u : store) o e rot f i, o < e -> e < W64 ->
  apply_batches (pruned u o) (prune_batches o e e rot) f i = pruned u e f i.
Proof. exact complete_is_pruned. Qed.
Print Assumptions C16_below_is_pruned.

(* the same for a sweep cancelled at ANY block k of [o, e] (graceful shutdown mid-prune): the database is
   exactly the one a complete PruneUpto(k) leaves - in particular the hash->number entry of k-1, needed by
   StateAtBlockHash(parent of the new oldest block), is still there after the restart re-seeds the floor
   from the database. (False for the code before the /repo fix "pruner keeps the hash->number carve-out
   when a prune is cancelled": cancelled_loses_carveout_before_fix below.) *)
Theorem C16_cancelled_is_pruned : forall (u : store) o e k rot f i, o <= k -> k <= e ->
  apply_batches (pruned u o) (prune_batches o e k rot) f i = pruned u k f i.
Proof. exact cancelled_is_pruned. Qed.
Print Assumptions C16_cancelled_is_pruned.

(* the loop body as it was before the fix, kept as the refutation witness of the registered (fixed)
   finding: prune 10 -> 12 cancelled when block 11 is reached deleted the hash->number entry of block 10,
   the parent of the new oldest block 11 *)
Example cancelled_loses_carveout_before_fix :
  let old_block_ops (e n : N) := (if n =? sub64 e 1 then [] else [DHashNum n]) ++ [DTxLook n; DHist n] in
  let u := full_store 15 in
  let s_old := apply_batches (pruned u 10) [[DHashNum 9] ++ old_block_ops 12 10; range_ops 11] in
  let s_new := apply_batches (pruned u 10) (prune_batches 10 12 11 (fun _ => true)) in
  (s_old Cm 10, s_old Cm 11, s_old H2n 10, s_new Cm 10, s_new Cm 11, s_new H2n 10, s_new H2n 9) =
  (false, true, false, false, true, true, false).
Proof. vm_compute. reflexivity. Qed.

Theorem C16_below_nothing_answers : forall (u : store) e a n, n + LAG < e ->
  answers (pruned u e) a n = false.
Proof. exact below_lag_nothing. Qed.
Print Assumptions C16_below_nothing_answers.

Theorem C16_below_only_carveouts : forall (u : store) e a n, n < e ->
  answers (pruned u e) a n = true ->
  (header_only a = true /\ e <= n + LAG) \/ (a = ANumberByHash /\ n + 1 = e) \/
  (a = AHeaderByHash /\ n + 1 = e).
Proof. exact below_floor_only_carveouts. Qed.
Print Assumptions C16_below_only_carveouts.

Theorem C16_carveouts_present : forall (u : store) e n,
  (e <= n + LAG -> pruned u e Hdr n = u Hdr n) /\ (e <= n + 1 -> pruned u e H2n n = u H2n n).
Proof. exact carveouts_present. Qed.
Print Assumptions C16_carveouts_present.

(* ---- resume ---- *)
Theorem C16_resume_same_final : forall (u : store) head o e k e' rot rot' m f i,
  (forall j, j <= head -> u Cm j = true) ->
  o < e -> o <= k -> k <= e -> e <= e' -> e' <= head -> e' < W64 ->
  let s1 := interrupted (pruned u o) (prune_batches o e k rot) m in
  apply_batches s1 (prune_plan s1 head e' e' rot') f i = pruned u e' f i.
Proof. exact resume_same_final. Qed.
Print Assumptions C16_resume_same_final.

(* ---- extension and revert down to the floor ---- *)
Theorem C16_extend_revert_commute : forall (u : store) o h b f i, o <= h ->
  pruned (set_block u h b) o f i = set_block (pruned u o) h b f i.
Proof. exact set_block_commutes. Qed.
Print Assumptions C16_extend_revert_commute.

Theorem C16_revert_down_to_floor : forall (u : store) o h,
  can_revert (pruned u o) h = can_revert u h && (o <=? h).
Proof. exact can_revert_pruned. Qed.
Print Assumptions C16_revert_down_to_floor.

Theorem C16_revert_extend_mid_prune : forall (s : store) o e k rot m h, o <= k -> k <= e -> e <= h ->
  can_revert (interrupted s (prune_batches o e k rot) m) h = can_revert s h /\
  can_extend (interrupted s (prune_batches o e k rot) m) h = can_extend s h.
Proof. exact can_revert_interrupted. Qed.
Print Assumptions C16_revert_extend_mid_prune.

(* ---- restart after an interruption ---- *)
Theorem C16_reseed_after_cancel : forall (u : store) head o e k rot,
  (forall j, j <= head -> u Cm j = true) -> o < e -> o <= k -> k <= e -> k <= head -> e < W64 ->
  let s1 := apply_batches (pruned u o) (prune_batches o e k rot) in
  oldest s1 head = Some k /\ forall b, k <= b -> s1 Hist b = u Hist b.
Proof. exact reseed_after_cancel. Qed.
Print Assumptions C16_reseed_after_cancel.

(* a CRASH between the hash-keyed batches and the range batch is different: the reseeded floor is the
   old one (commitments untouched) while logs above it are already gone. Blocks 0..20, sweep 0 -> 10
   with one batch per block, crash after 4 commits: the restart serves block 1 by number, and a slot
   written at block 2 (old value 5, head value 9) is answered with 9 instead of 5. *)
Example C16_crash_reseed_refuted :
  let u := full_store 20 in
  let s1 := interrupted (pruned u 0) (prune_batches 0 10 10 (fun _ => true)) 4 in
  let st := seed_floor (oldest s1 20) 0 in
  state_served st 20 1 = true /\
  read_old [(2, 5)] (u Hist) 9 1 = 5 /\ read_old [(2, 5)] (s1 Hist) 9 1 = 9.
Proof. vm_compute. repeat split; reflexivity. Qed.

(* ---- the statements are not vacuous ---- *)
Example floor_decision_example :
  on_new_block {| retained := 3; every := 1; min_age_on := true |} {| pending := 0; sampled := 5 |}
    (Some 40) 20 true = ({| pending := 0; sampled := 5 |}, Prune 5) /\
  on_new_l1_head {| retained := 3; every := 128; min_age_on := false |} {| pending := 7; sampled := 0 |}
    12 (Some 20) = ({| pending := 0; sampled := 0 |}, Prune 9) /\
  on_new_block {| retained := 30; every := 1; min_age_on := false |} {| pending := 0; sampled := 0 |}
    (Some 40) 20 false = ({| pending := 0; sampled := 0 |}, Skip).
Proof. vm_compute. repeat split; reflexivity. Qed.

Example batches_example :
  prune_batches 2 5 5 (fun n => n =? 3) =
  [[DHashNum 1; DTxLook 2; DHist 2; DHashNum 2; DTxLook 3; DHist 3];
   [DHashNum 3; DTxLook 4; DHist 4];
   [RHdr 0; RCm 5; RSu 5; RTxs 5; RBloom 5]].
Proof. vm_compute. reflexivity. Qed.

Example resume_example :
  let u := full_store 30 in
  let s1 := interrupted (pruned u 2) (prune_batches 2 20 9 (fun n => n =? 5)) 1 in
  oldest s1 30 = Some 2 /\
  store_bits (apply_batches s1 (prune_plan s1 30 25 25 (fun _ => false))) H2n 31 =
  store_bits (pruned u 25) H2n 31.
Proof. vm_compute. split; reflexivity. Qed.

Example find_oldest_example :
  find_oldest (fun n => 100 + 10 * n) 2 20 155 = Some 6 /\
  find_oldest (fun n => 100 + 10 * n) 2 20 1000 = None.
Proof. vm_compute. split; reflexivity. Qed.

(* ================================================================ the history-pruner migration
   (migration/historyprunner as repaired in /repo, model C16/Migrate.v). ch = the chain (head, timestamps,
   diff sizes), u = the database before the migration (chain_ok: unpruned 0..head, empty scratch namespace,
   logs only for diff entries), l1 = the L1 head, runs = ANY list of starts of the node, each with its own
   configuration (retained blocks, min-age cut-off time) and its own schedule (how the pipeline spread the
   blocks over workers and batches, in which order the batches were committed, where the call was
   cancelled / which batch write failed / after how many commits the process died - the scratch-wipe
   commit included). runs_wf asks only that each schedule is one the pipeline can produce (sched_ok -
   repeats allowed) and that, while no blob is stored, the flags still leave something to do
   (retained <= min(l1, head)). *)

(* ---- the cut-off. o = the oldest block still retained when it is computed: 0 on an untouched database,
   the cut-off of an earlier start that pruned and stopped before a blob was stored otherwise. Never below
   o, inside the chain, exact uint64 subtraction, either o itself or within min(l1, head) - retained, and
   at or below every block of [o, pivot] that is younger than the minimum age NOW (the wall clock may have
   advanced between starts; non-decreasing timestamps) ---- *)
Theorem C16_migrate_floor_bound : forall ch g l1 o f, c_head ch < W64 -> o <= c_head ch ->
  floor_from ch g l1 o = Some f ->
  let pivot := N.min l1 (c_head ch) in
  g_retained g <= pivot /\ o <= f /\ f <= c_head ch /\
  (f = o \/ f + g_retained g <= pivot) /\
  sub64 pivot (g_retained g) = pivot - g_retained g /\
  (g_cutoff g = None -> f = N.max (pivot - g_retained g) o) /\
  (forall cut, g_cutoff g = Some cut ->
     (forall a b, o <= a -> a <= b -> b <= pivot -> c_ts ch a <= c_ts ch b) ->
     forall b, o <= b -> b <= pivot -> cut <= c_ts ch b -> f <= b).
Proof. exact floor_from_bound. Qed.
Print Assumptions C16_migrate_floor_bound.

Theorem C16_migrate_floor_predicate : forall ch g l1 f, c_head ch < W64 -> floor_from ch g l1 0 = Some f ->
  bound_ok l1 (c_head ch) (g_retained g) f = true.
Proof. exact floor_from_fresh. Qed.
Print Assumptions C16_migrate_floor_predicate.

(* ---- every schedule of interruptions followed by a completing start: the database is exactly the
   pruned shape at F - the cut-off the completing start worked with - on every block family (incl. the
   rebuilt reverse lookups and the hash->number carve-out of F-1), every history log of the keeper window
   is back with its value, nothing below, nothing left in the scratch namespace, marker included ---- *)
Theorem C16_migrate_any_schedule : forall ch u l1 runs m' pb' F,
  chain_ok ch u ->
  runs_wf ch (Some l1) runs u None = true ->
  run_all ch (Some l1) runs u None = (m', pb', Some F) ->
  F <= c_head ch /\
  (forall f i, f <> Hist -> blk m' f i = blk (mig_final u F) f i) /\
  (forall i j, hlog m' i j = hlog (mig_final u F) i j) /\
  (forall i j, scr m' i j = scr (mig_final u F) i j) /\ mark m' = mark (mig_final u F).
Proof. exact migrate_any_schedule. Qed.
Print Assumptions C16_migrate_any_schedule.

(* ---- what an interrupted database looks like, after ANY schedule, relative to the cut-off F it is
   committed to (the one pinned in the stored blob; with nothing pinned: what the last un-pinned start pruned
   to = the oldest retained block, and every cut-off a later start can compute is at or above it): block
   data at or above F is untouched on every number-keyed family (headers, transactions, state updates,
   commitments, new-value history, bloom windows); every history log of the keeper window still exists with
   its value, in the history bucket or in the scratch namespace, and neither place holds a wrong value. The
   three reverse-lookup families (hash->number, tx hash, L1 message hash) may be empty and the history
   buckets may be empty between setupBeforeStager and the end: the node does not start before the migration
   has completed (migration/runner.go, property C18). ---- *)
Theorem C16_migrate_interrupted_state : forall ch u l1 runs m' pb',
  chain_ok ch u ->
  runs_wf ch (Some l1) runs u None = true ->
  run_all ch (Some l1) runs u None = (m', pb', None) ->
  exists F, F <= c_head ch /\
  (forall sp rp fl, pb' = Some (sp, rp, fl) -> fl = F) /\
  (pb' = None -> oldest_retained ch m' = F /\
     forall g f, floor_from ch g l1 (oldest_retained ch m') = Some f -> F <= f /\ f <= c_head ch) /\
  (forall f i, is_look f = false -> f <> Hist -> F <= i -> blk m' f i = blk u f i) /\
  (forall i j, F <= i -> i <= c_head ch ->
     (hlog m' i j = hlog u i j \/ scr m' i j = hlog u i j) /\
     (hlog m' i j = None \/ hlog m' i j = hlog u i j) /\ (scr m' i j = None \/ scr m' i j = hlog u i j)).
Proof. exact migrate_interrupted_state. Qed.
Print Assumptions C16_migrate_interrupted_state.

(* ---- resumable: from wherever a schedule has left the database, the next start can compute its cut-off
   (no read of a pruned header any more) and an undisturbed start completes the migration ---- *)
Theorem C16_migrate_resumable : forall ch u l1 runs m pb g,
  chain_ok ch u ->
  runs_wf ch (Some l1) runs u None = true ->
  run_all ch (Some l1) runs u None = (m, pb, None) ->
  (pb = None -> g_retained g <= N.min l1 (c_head ch)) ->
  exists F m',
    run_floor ch (Some l1) g pb m = Some F /\ F <= c_head ch /\
    mig_run ch (Some l1) g pb m (match start_of ch m pb F with (sp, rp, fl) => canon ch sp rp fl end) = (m', RDone) /\
    (forall f i, f <> Hist -> blk m' f i = blk (mig_final u F) f i) /\
    (forall i j, hlog m' i j = hlog (mig_final u F) i j) /\
    (forall i j, scr m' i j = scr (mig_final u F) i j) /\ mark m' = mark (mig_final u F).
Proof. exact migrate_resumable. Qed.
Print Assumptions C16_migrate_resumable.

(* ---- pinned: once a blob is stored the configuration of later starts is not consulted, and every blob a
   call returns carries the cut-off that call worked with ---- *)
Theorem C16_migrate_pinned_ignores_config : forall ch l1 g g' b m sc,
  mig_run ch l1 g (Some b) m sc = mig_run ch l1 g' (Some b) m sc.
Proof. exact pinned_ignores_config. Qed.
Print Assumptions C16_migrate_pinned_ignores_config.

Theorem C16_migrate_blob_carries_floor : forall ch l1 g pb m sc m' a b c,
  mig_run ch (Some l1) g pb m sc = (m', RBlob a b c) -> run_floor ch (Some l1) g pb m = Some c.
Proof. exact blob_carries_floor. Qed.
Print Assumptions C16_migrate_blob_carries_floor.

(* ---- no underflow: the seed of the reverse lookup below the window is guarded by floor > 0 and then
   floor-1 is exact; without the guard (before /repo d372be8) floor 0 asked for block 2^64-1 ---- *)
Theorem C16_migrate_no_underflow : forall fl, 0 < fl -> fl < W64 ->
  setup2_ops fl = [MWipeHist; MSeed (fl - 1)].
Proof. exact seed_guarded. Qed.
Print Assumptions C16_migrate_no_underflow.

Example C16_migrate_floor_zero :
  setup2_ops 0 = [MWipeHist] /\ setup2_seed_unguarded 0 = 18446744073709551615.
Proof. split; reflexivity. Qed.

(* ---- a block processed more than once (a restart that repeats blocks, the re-staging after the restage
   decision, two workers) changes nothing ---- *)
Theorem C16_migrate_repeated_stage : forall ch m l l',
  (forall n, In n l' -> In n l) ->
  let a := mapply_ops ch m (map MStage (l ++ l')) in
  let b := mapply_ops ch m (map MStage l) in
  blk a = blk b /\ hlog a = hlog b /\ forall i j, scr a i j = scr b i j.
Proof. exact stage_twice. Qed.
Print Assumptions C16_migrate_repeated_stage.

Theorem C16_migrate_repeated_restore : forall ch m l l',
  (forall n, In n l' -> In n l) ->
  let a := mapply_ops ch m (map MRestore (l ++ l')) in
  let b := mapply_ops ch m (map MRestore l) in
  (forall f i, blk a f i = blk b f i) /\ scr a = scr b /\ forall i j, hlog a i j = hlog b i j.
Proof. exact restore_twice. Qed.
Print Assumptions C16_migrate_repeated_restore.

(* ---- the two schedules that lost history logs before the repairs in /repo are now inside the theorem
   (runs_wf holds for them) and end in mig_final. First: cancel in the stager (blob (3,0,2)), a start that
   completes and dies right after the scratch wipe, a completing start. The last conjunct is what the OLD
   loop did on that database: trusting stagerProgress 3 it staged block 3 only, wiped the history buckets
   and had no copy of block 2's log (value 102) - the migration reported success. ---- *)
Example C16_migrate_crash_after_wipe_example :
  let r := run_all wit_ch (Some 3) wit_runs_crash_after_wipe wit_u None in
  runs_wf wit_ch (Some 3) wit_runs_crash_after_wipe wit_u None = true /\
  snd r = Some 2 /\ hlog (fst (fst r)) 2 0 = Some 102 /\ hlog (fst (fst r)) 3 0 = Some 103 /\
  (let r2 := run_all wit_ch (Some 3) (firstn 2 wit_runs_crash_after_wipe) wit_u None in
   let m2 := fst (fst r2) in
   snd (fst r2) = Some (3, 0, 2) /\ scr_empty wit_ch m2 = true /\
   hlog (mapply_batches wit_ch m2 (fst (mig_plan wit_ch m2 3 0 2 (sched [[3]] [[3; 2]] SNone None)))) 2 0 = None).
Proof. vm_compute. repeat split; reflexivity. Qed.

(* Second: as before, but the re-staging start dies after two commits (set-up, one worker's batch holding
   block 3 only). The scratch namespace is no longer empty and the stored blob still says 3: the marker
   written by the restage decision is what makes the fourth start stage block 2 again. A rule "re-stage
   when scratch is empty" alone trusts the blob here and loses block 2 (last conjunct). ---- *)
Example C16_migrate_partial_restage_example :
  let r := run_all wit_ch (Some 3) wit_runs_partial_restage wit_u None in
  runs_wf wit_ch (Some 3) wit_runs_partial_restage wit_u None = true /\
  snd r = Some 2 /\ hlog (fst (fst r)) 2 0 = Some 102 /\ mark (fst (fst r)) = false /\
  (let r3 := run_all wit_ch (Some 3) (firstn 3 wit_runs_partial_restage) wit_u None in
   let m3 := fst (fst r3) in
   snd (fst r3) = Some (3, 0, 2) /\ mark m3 = true /\ scr_empty wit_ch m3 = false /\ scr m3 2 0 = None /\
   hlog (mapply_batches wit_ch m3 (fst (mig_plan wit_ch m3 3 0 2 (sched [[3]] [[3; 2]] SNone None)))) 2 0 = None).
Proof. vm_compute. repeat split; reflexivity. Qed.

(* ---- min-age on, the first start fails (or dies) after its set-up batch and before any blob is stored:
   nothing is pinned, the next start recomputes the cut-off. It now searches from the oldest retained
   block (29): same cut-off when the clock stood still, 30 when it advanced past block 29's age, never
   below 29 whatever the flags (retained 5 would give 25); the OLD search from block 0 read the header of
   block 15, deleted by the set-up batch, and every later start failed ---- *)
Example C16_migrate_min_age_restart_example :
  let m1 := fst (mig_run wit_ch30 (Some 30) wit_g30 None wit_u30 (sched [] [] SFailStage None)) in
  pure_floor wit_ch30 wit_g30 30 wit_u30 = Some 29 /\
  next_blob None (snd (mig_run wit_ch30 (Some 30) wit_g30 None wit_u30 (sched [] [] SFailStage None))) = None /\
  blk m1 Hdr 15 = false /\ oldest_retained wit_ch30 m1 = 29 /\
  compute_floor wit_ch30 wit_g30 30 m1 = FOk 29 /\
  compute_floor wit_ch30 {| g_retained := 0; g_cutoff := Some 1295 |} 30 m1 = FOk 30 /\
  compute_floor wit_ch30 {| g_retained := 5; g_cutoff := Some 1205 |} 30 m1 = FOk 29 /\
  reads_from wit_ch30 wit_g30 30 0 (blk m1 Hdr) = false.
Proof. vm_compute. repeat split; reflexivity. Qed.

(* ---- the remaining hypothesis of runs_wf is needed: with nothing pinned, flags with retained >
   min(l1, head) make the call answer "nothing to do" (nil, nil) although an earlier start already wiped the
   reverse lookups - the runner marks the migration applied (operator-induced; outside the property's
   quantifier). Raising retained within min(l1, head) is harmless now: the cut-off is clamped to what is
   still there (2, not 1) ---- *)
Example C16_migrate_unpinned_config_change_needed :
  let m1 := fst (mig_run wit_ch (Some 3) wit_g None wit_u (sched [] [] SFailStage None)) in
  let g2 := {| g_retained := 2; g_cutoff := None |} in
  let g9 := {| g_retained := 9; g_cutoff := None |} in
  compute_floor wit_ch g2 3 m1 = FOk 2 /\ floor_from wit_ch g2 3 0 = Some 1 /\
  snd (mig_run wit_ch (Some 3) g2 None m1 (canon wit_ch 0 0 2)) = RDone /\
  mig_run wit_ch (Some 3) g9 None m1 (canon wit_ch 0 0 2) = (m1, RDone) /\ blk m1 H2n 3 = false.
Proof. vm_compute. repeat split; reflexivity. Qed.

(* ---- the statements are not vacuous: a database that meets chain_ok; a schedule with a cancel in the
   stager, a cancel in the restorer, a failed batch write, a crash, changed flags, two workers and a
   repeated block is well-formed, completes, and leaves exactly mig_final ---- *)
Example C16_migrate_hypotheses_satisfiable : chain_ok wit_ch wit_u /\ chain_ok wit_ch30 wit_u30.
Proof. split; [exact wit_chain_ok|exact wit30_chain_ok]. Qed.

Example C16_migrate_schedule_example :
  let r := run_all wit_ch (Some 3) wit_runs_ok wit_u None in
  let m' := fst (fst r) in
  runs_wf wit_ch (Some 3) wit_runs_ok wit_u None = true /\ snd r = Some 2 /\
  map (fun f => store_bits (blk m') f 6) [Hdr; H2n; Txs; Txl; L1l; Su; Cm] =
  map (fun f => store_bits (blk (mig_final wit_u 2)) f 6) [Hdr; H2n; Txs; Txl; L1l; Su; Cm] /\
  map (fun i => hlog m' i 0) [0; 1; 2; 3] = [None; None; Some 102; Some 103] /\
  map (fun i => scr m' i 0) [0; 1; 2; 3] = [None; None; None; None] /\ mark m' = false.
Proof. vm_compute. repeat split; reflexivity. Qed.
