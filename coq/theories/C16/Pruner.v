(* C16 (part 1, re-exported by C16/Model.v) — executable model of juno's pruner (pruner/{pruner,accessors,retention}.go) and of the
   retention checks of the state backends. Definitions only; proofs are in Proofs.v.

   Numbers are N. Where the Go code computes on uint64 the model writes the wrap explicitly
   (sub64 / add64 are mod 2^64); the theorems show the guards keep every subtraction exact. *)
From Coq Require Import List NArith ZArith Bool.
Import ListNotations.
Open Scope N_scope.

(* ---------------------------------------------------------------- uint64 *)
Definition W64 : N := 18446744073709551616.
Definition sub64 (a b : N) : N := (a + W64 - b) mod W64.   (* Go: a - b on uint64 (a, b < 2^64) *)
Definition add64 (a b : N) : N := (a + b) mod W64.          (* Go: a + b on uint64 *)

Definition LAG : N := 10.      (* core.BlockHashLag *)
Definition WIN : N := 8192.    (* core.NumBlocksPerFilter *)

(* ---------------------------------------------------------------- pruner.go: decisions *)
Record pcfg := { retained : N; every : N; min_age_on : bool }.
(* pending = pendingL2Heads, sampled = latestSampledHeight *)
Record pst := { pending : N; sampled : N }.

Inductive decision := Skip | Prune (oldest_to_keep : N).

(* applyTimeFloor *)
Definition apply_time_floor (c : pcfg) (s : pst) (std : N) : N :=
  if min_age_on c then N.min (sampled s) std else std.

(* onNewBlock: l1head = core.GetL1Head (None = ErrKeyNotFound), block = block.Number of the event,
   within = withinTimeWindow(block.Timestamp, minAge). *)
Definition on_new_block (c : pcfg) (s : pst) (l1head : option N) (block : N) (within : bool)
  : pst * decision :=
  match l1head with
  | None => (s, Skip)
  | Some l1 =>
    if (l1 <=? block) || (block <? retained c) then (s, Skip) else
    let p := add64 (pending s) 1 in
    if p <? every c then ({| pending := p; sampled := sampled s |}, Skip) else
    let std := sub64 block (retained c) in
    let keep := if min_age_on c && within then apply_time_floor c s std else std in
    ({| pending := 0; sampled := sampled s |}, Prune keep)
  end.

(* onNewL1Head: l1 = event's block number, height = core.GetChainHeight (None = ErrKeyNotFound) *)
Definition on_new_l1_head (c : pcfg) (s : pst) (l1 : N) (height : option N) : pst * decision :=
  match height with
  | None => (s, Skip)
  | Some h =>
    if (h <=? l1) || (l1 <? retained c) then (s, Skip) else
    ({| pending := 0; sampled := sampled s |},
     Prune (apply_time_floor c s (sub64 l1 (retained c))))
  end.

(* after a successful PruneUpto: latestSampledHeight = max(latestSampledHeight, oldestKept) *)
Definition after_prune (s : pst) (oldest_kept : N) : pst :=
  {| pending := pending s; sampled := N.max (sampled s) oldest_kept |}.

(* retention.go: RetentionFloor.state holds floor+1, 0 = unseeded *)
Definition raise_to (floor st : N) : N :=
  if add64 floor 1 <=? st then st else add64 floor 1.
Definition floor_of (st : N) : option N := if st =? 0 then None else Some (st - 1).
(* pruneUpto: raise the shared floor to oldestToKeep-1 BEFORE deleting anything *)
Definition prune_floor (keep st : N) : N :=
  if 0 <? keep then raise_to (sub64 keep 1) st else st.
(* Seed: raiseTo(max(oldest,1)-1); empty database seeds 0 *)
Definition seed_floor (oldest : option N) (st : N) : N :=
  raise_to (sub64 (N.max (match oldest with Some o => o | None => 0 end) 1) 1) st.

(* predicates evaluated by the harness on the implementation's observed floors *)
Definition bound_ok (l1 head ret oldest_to_keep : N) : bool :=
  (ret <=? N.min l1 head) && (oldest_to_keep + ret <=? N.min l1 head).
Definition min_age_ok (oldest_to_keep first_young : N) : bool := oldest_to_keep <=? first_young.

(* ---------------------------------------------------------------- pruner.go: min-age sampler *)
(* FindOldestBlockAtOrAfter: binary search over header timestamps *)
Fixpoint bsearch (fuel : nat) (ts : N -> N) (cutoff low high : N) : N :=
  match fuel with
  | O => low
  | S f =>
    if low <? high then
      let mid := low + (high - low) / 2 in
      if ts mid <? cutoff then bsearch f ts cutoff (mid + 1) high
      else bsearch f ts cutoff low mid
    else low
  end.

Definition find_oldest (ts : N -> N) (lower upper cutoff : N) : option N :=
  if upper <? lower then None else
  let low := bsearch (S (N.to_nat (upper + 1 - lower))) ts cutoff lower (upper + 1) in
  if upper <? low then None else Some low.

(* sampleHeight (height = None: empty chain, nothing changes) *)
Definition sample_height (s : pst) (height : option N) (ts : N -> N) (cutoff : N) : pst :=
  match height with
  | None => s
  | Some h =>
    match find_oldest ts (sampled s) h cutoff with
    | None => {| pending := pending s; sampled := h |}
    | Some f => {| pending := pending s; sampled := f |}
    end
  end.

(* ---------------------------------------------------------------- the store *)
(* One boolean per (index family, owning block): is what block i wrote into that family still there?
   The pruner only deletes, so content never changes; presence is the whole state.
     Hdr   BlockHeadersByNumber            H2n  BlockHeaderNumbersByHash (hash of block i)
     Txs   BlockTransactions blob (txs+receipts of block i)
     Txl   TransactionBlockNumbersAndIndicesByHash of the transactions of block i
     L1l   L1HandlerTxnHashByMsgHash of the L1-handler transactions of block i
     Su    StateUpdatesByBlockNumber       Cm   BlockCommitments
     Hist  old-value history logs (Deprecated*History) written by block i
     HistNew new-value history logs (core/state) written by block i
     Bloom persisted aggregated bloom filter of the window starting at block i (i multiple of WIN) *)
Inductive fam := Hdr | H2n | Txs | Txl | L1l | Su | Cm | Hist | HistNew | Bloom.
Definition all_fams : list fam := [Hdr; H2n; Txs; Txl; L1l; Su; Cm; Hist; HistNew; Bloom].
Definition store := fam -> N -> bool.

(* the deletes accessors.go issues *)
Inductive op :=
| DHashNum (n : N)   (* core.DeleteBlockHeaderNumberByHash(hash of block n) *)
| DTxLook (n : N)    (* deleteTransactionHashReverseLookups(block n): tx-hash and L1 msg-hash lookups *)
| DHist (n : N)      (* pruneStateHistoryFromUpdate(block n) *)
| RHdr (hi : N)      (* blockHeadersRange.DeleteRange(0, hi) *)
| RCm (hi : N) | RSu (hi : N) | RTxs (hi : N)
| RBloom (hi : N).   (* pruneAggregatedBloomFiltersUpto(hi) *)

Definition kills (f : fam) (i : N) (o : op) : bool :=
  match o, f with
  | DHashNum n, H2n => i =? n
  | DTxLook n, Txl => i =? n
  | DTxLook n, L1l => i =? n
  | DHist n, Hist => i =? n
  | RHdr hi, Hdr => i <? hi
  | RCm hi, Cm => i <? hi
  | RSu hi, Su => i <? hi
  | RTxs hi, Txs => i <? hi
  | RBloom hi, Bloom => if hi <? WIN then false else i <? (hi - hi mod WIN)
  | _, _ => false
  end.

Definition apply_op (s : store) (o : op) : store := fun f i => s f i && negb (kills f i o).
Definition apply_ops (s : store) (ops : list op) : store := fold_left apply_op ops s.
(* one element of the outer list = one committed batch *)
Definition apply_batches (s : store) (bs : list (list op)) : store := fold_left apply_ops bs s.

(* ---------------------------------------------------------------- accessors.go: the batches *)
(* per-block work of pruneHashKeyedUpto's loop body for block n: the hash->number entry deleted while
   block n is processed is the one of block n-1 (prevBlockHash: the carve-out of the previous call when
   n = start, otherwise the block handled by the previous iteration), so that wherever the loop stops -
   at endExclusive or at the block where ctx.Err() is first seen - the entry of the last pruned block
   survives (since /repo "fix: pruner keeps the hash->number carve-out ... when cancelled"; before,
   the entry of n itself was deleted unless n = endExclusive-1, and a cancelled run lost the carve-out).
   e is the sweep's endExclusive (no longer consulted by the body). *)
Definition block_ops (e n : N) : list op :=
  (if 0 <? n then [DHashNum (n - 1)] else []) ++ [DTxLook n; DHist n].

(* nothing is queued before the loop any more (the previous call's carve-out start-1 is deleted by the
   first iteration) *)
Definition init_ops (start : N) : list op := [].

(* the loop: n = blockNum, k = block at which ctx.Err() is first seen (k = e: never cancelled),
   rot n = "batch.Size() >= targetBatchByteSize after block n", cur = the open batch.
   The last element is the final batch.Write() (issued even when the batch is empty). *)
Fixpoint hash_loop (fuel : nat) (n e k : N) (rot : N -> bool) (cur : list op) : list (list op) :=
  match fuel with
  | O => [cur]
  | S f =>
    if n <? k then
      let cur' := cur ++ block_ops e n in
      if rot n then cur' :: hash_loop f (n + 1) e k rot [] else hash_loop f (n + 1) e k rot cur'
    else [cur]
  end.

(* PruneBlockDataUpto(batch, blockNum) — one batch *)
Definition range_ops (bn : N) : list op :=
  [RHdr (if LAG <? bn then bn - LAG else 0); RCm bn; RSu bn; RTxs bn; RBloom bn].

(* all batches of PruneUpto(start -> e) when the context is cancelled at block k (start <= k <= e) *)
Definition prune_batches (start e k : N) (rot : N -> bool) : list (list op) :=
  hash_loop (N.to_nat (k - start)) start e k rot (init_ops start) ++ [range_ops k].

(* the same deletes without batch structure: blocks [n, k) *)
Fixpoint flat_ops (fuel : nat) (n e k : N) : list op :=
  match fuel with
  | O => []
  | S f => if n <? k then block_ops e n ++ flat_ops f (n + 1) e k else []
  end.

(* OldestRetainedBlock: first BlockCommitments key (scan bounded by the head) *)
Fixpoint find_from (p : N -> bool) (fuel : nat) (n : N) : option N :=
  match fuel with
  | O => None
  | S f => if p n then Some n else find_from p f (n + 1)
  end.
Definition oldest (s : store) (head : N) : option N := find_from (s Cm) (N.to_nat (head + 1)) 0.

(* PruneUpto(endExclusive = e): resume point from the store, no-op paths, then the batches.
   k is clamped into [start, e]. *)
Definition prune_plan (s : store) (head e k : N) (rot : N -> bool) : list (list op) :=
  match oldest s head with
  | None => []
  | Some start =>
    if e <=? start then [] else prune_batches start e (N.max start (N.min k e)) rot
  end.
(* value returned as oldestKept *)
Definition plan_oldest_kept (s : store) (head e k : N) : N :=
  match oldest s head with
  | None => 0
  | Some start => if e <=? start then start else N.max start (N.min k e)
  end.

(* interruption by a failed / never-issued commit: the first m batches took effect *)
Definition interrupted (s : store) (bs : list (list op)) (m : nat) : store :=
  apply_batches s (firstn m bs).

(* ---------------------------------------------------------------- what a pruned store looks like *)
(* keep o f i: family f still holds block i's entry after a complete PruneUpto(o).
   The two carve-outs: headers down to o-LAG, hash->number of o-1. N subtraction truncates at 0,
   which is exactly the Go guard "if rangeEndExclusive > BlockHashLag" / "if start > 0". *)
Definition keep (o : N) (f : fam) (i : N) : bool :=
  match f with
  | Hdr => o - LAG <=? i
  | H2n => o - 1 <=? i
  | Bloom => o - o mod WIN <=? i
  | HistNew => true
  | _ => o <=? i
  end.
(* the pruned twin of an unpruned store u *)
Definition pruned (u : store) (o : N) : store := fun f i => u f i && keep o f i.

(* chain growth / revert act on one block index in every block family, and on one window *)
Definition is_block_fam (f : fam) : bool := match f with Bloom => false | _ => true end.
Definition set_block (u : store) (h : N) (b : bool) : store :=
  fun f i => if is_block_fam f && (i =? h) then b else u f i.
Definition set_window (u : store) (w : N) (b : bool) : store :=
  fun f i => match f with Bloom => if i =? w then b else u f i | _ => u f i end.
(* what RevertHead reads from the database for head block h (deleteBlockContent, state revert) *)
Definition can_revert (s : store) (h : N) : bool := s Su h && s Hdr h && s Txs h.
(* what Store of block h+1 reads: parent hash by number *)
Definition can_extend (s : store) (h : N) : bool := s Hdr h.

(* ---------------------------------------------------------------- blockchain.Reader accessors *)
Inductive acc :=
| AHeaderByNumber | AHeaderHashByNumber | ATxCountByNumber | ABlockByNumber
| ANumberByHash | AHeaderByHash | ABlockByHash
| ATxsByNumber | ATxsRcptsByNumber | ATxHashesByNumber | ATxByNumIdx | AExecStatus | ATxRcptByNumIdx
| ANumIdxByTxHash | ATxByHash | AReceipt
| AStateUpdateByNumber | AStateUpdateByHash | AL1HandlerTxnHash | ACommitments.
Definition all_accs : list acc :=
  [AHeaderByNumber; AHeaderHashByNumber; ATxCountByNumber; ABlockByNumber;
   ANumberByHash; AHeaderByHash; ABlockByHash;
   ATxsByNumber; ATxsRcptsByNumber; ATxHashesByNumber; ATxByNumIdx; AExecStatus; ATxRcptByNumIdx;
   ANumIdxByTxHash; ATxByHash; AReceipt;
   AStateUpdateByNumber; AStateUpdateByHash; AL1HandlerTxnHash; ACommitments].

(* the families an accessor reads (blockchain.go / core/accessors.go); it answers with the stored
   content iff all are present and with a not-found error otherwise — never with a part *)
Definition needs (a : acc) : list fam :=
  match a with
  | AHeaderByNumber | AHeaderHashByNumber | ATxCountByNumber => [Hdr]
  | ABlockByNumber => [Hdr; Txs]
  | ANumberByHash => [H2n]
  | AHeaderByHash => [H2n; Hdr]
  | ABlockByHash => [H2n; Hdr; Txs]
  | ATxsByNumber | ATxsRcptsByNumber | ATxHashesByNumber | ATxByNumIdx | AExecStatus => [Txs]
  | ATxRcptByNumIdx => [Txs; Hdr]
  | ANumIdxByTxHash => [Txl]
  | ATxByHash => [Txl; Txs]
  | AReceipt => [Txl; Txs; Hdr]
  | AStateUpdateByNumber => [Su]
  | AStateUpdateByHash => [H2n; Su]
  | AL1HandlerTxnHash => [L1l]
  | ACommitments => [Cm]
  end.
Definition answers (s : store) (a : acc) (n : N) : bool := forallb (fun f => s f n) (needs a).

(* ---------------------------------------------------------------- historical state reads *)
(* the logs of ONE key, ascending by block: (block that wrote the log, logged value) *)
Definition logs := list (N * N).

(* deprecatedstate valueAt: old-value style — the first log strictly above n holds the value as of n;
   none: the head value *)
Fixpoint read_old (lg : logs) (present : N -> bool) (headv : N) (n : N) : N :=
  match lg with
  | [] => headv
  | (b, v) :: r => if (n <? b) && present b then v else read_old r present headv n
  end.
(* core/state valueAt: new-value style — the last log at or below n holds the value as of n; none: 0 *)
Fixpoint read_new (lg : logs) (present : N -> bool) (n : N) (dflt : N) : N :=
  match lg with
  | [] => dflt
  | (b, v) :: r => if (b <=? n) && present b then read_new r present n v else read_new r present n dflt
  end.
(* lastUpdatedBlockNumber (ContractStorageLastUpdatedBlock): block of the last log at or below n; none: 0 *)
Fixpoint last_upd (lg : logs) (present : N -> bool) (n : N) (dflt : N) : N :=
  match lg with
  | [] => dflt
  | (b, _) :: r => if (b <=? n) && present b then last_upd r present n b else last_upd r present n dflt
  end.

(* RequireStateRetainedByBlockNumber / StateRootIfStateRetainedByBlockNumber with a seeded floor
   (st = floor+1 > 0): served iff floor <= n <= height *)
Definition state_served (st height n : N) : bool :=
  match floor_of st with
  | Some f => (f <=? n) && (n <=? height)
  | None => true
  end.

(* ---------------------------------------------------------------- glue for the oracle *)
Definition store_bits (s : store) (f : fam) (upto : nat) : list bool :=
  map (fun i => s f (N.of_nat i)) (seq 0 upto).
Definition full_store (head : N) : store :=
  fun f i => match f with Bloom => (i mod WIN =? 0) && (i + WIN <=? head + 1) | _ => i <=? head end.
Definition to_Z (n : N) : Z := Z.of_N n.
Definition to_nat' (n : N) : nat := N.to_nat n.
