(* C17 — executable model of juno's L1 head tracking (l1/l1.go).
   Transcribed: applyStateUpdate, setL1Head, catchUpL1HeadUpdates, the Run / receive loop as an
   interleaving of the atomic steps [Upd | Rem | Tick | CatchUp | SubErr].
   Ghost (not in the Go code): the L1 block of the stored head, the list of delivered and not
   removed events ([s_live], what the property text speaks about), the same list as the code
   interprets removal notices ([s_cview]), the highest finalised height used for a commit.
   No proofs in this file; it is extracted to OCaml and run against the Go code. *)
From Coq Require Import List NArith Bool.
Import ListNotations.
Open Scope N_scope.

(* One LogStateUpdate event. [u_l1] = L1RefHeight, [u_l2] = L2BlockNumber, [u_id] stands for
   (L2BlockHash, StateRoot). *)
Record upd := mkUpd { u_l1 : N; u_l2 : N; u_id : N }.

Definition upd_eqb (a b : upd) : bool :=
  (u_l1 a =? u_l1 b) && (u_l2 a =? u_l2 b) && (u_id a =? u_id b).

(* nonFinalisedLogs: Go map L1 block -> *StateUpdate. Association list with unique keys; the order
   of the list plays the role of Go's (arbitrary) map iteration order. *)
Definition buf := list (N * upd).

(* applyStateUpdate, l1.go:287 *)
Definition apply_upd (b : buf) (removed : bool) (e : upd) : buf :=
  if removed
  then filter (fun p => fst p <? u_l1 e) b                (* delete every key >= L1RefHeight *)
  else (u_l1 e, e) :: filter (fun p => negb (fst p =? u_l1 e)) b.   (* map[k] = update *)

(* the loop of setL1Head, l1.go:440: maxFinalisedNumber starts at 0, comparison is >= *)
Fixpoint pick (fin : N) (b : buf) (mx : N) (h : option upd) : N * option upd :=
  match b with
  | [] => (mx, h)
  | (k, v) :: r =>
      if (k <=? fin) && (mx <=? k) then pick fin r k (Some v) else pick fin r mx h
  end.

(* setL1Head with finalised height [fin]: new buffer, new stored head *)
Definition set_head (fin : N) (b : buf) (head : option upd) : buf * option upd :=
  (filter (fun p => negb (fst p <=? fin)) b,
   match snd (pick fin b 0 None) with Some v => Some v | None => head end).

(* catchUpL1HeadUpdates, l1.go:360-401. [i] counts FilterStateUpdate calls, [fail = Some i] makes
   the i-th call return an error. Result: buffer, events delivered, scan completed. Out of fuel is
   reported as a failed scan (the Go loop does not terminate for chunk = 0). *)
Definition in_range (from to : N) (e : upd) : bool := (from <=? u_l1 e) && (u_l1 e <=? to).

Fixpoint scan (fuel : nat) (canon : list upd) (fin1 chunk : N) (fail : option nat) (i : nat)
         (to : N) (b : buf) (dl : list upd) : buf * list upd * bool :=
  match fuel with
  | O => (b, dl, false)
  | S fuel' =>
      if (match fail with Some j => Nat.eqb i j | None => false end) then (b, dl, false) else
      let from := if chunk <? to + 1 then to + 1 - chunk else 0 in
      let evs := filter (in_range from to) canon in
      let b' := fold_left (fun b e => apply_upd b false e) evs b in
      let found := existsb (fun e => u_l1 e <=? fin1) evs in
      if found || (from =? 0) then (b', dl ++ evs, true)
      else scan fuel' canon fin1 chunk fail (S i) (from - 1) b' (dl ++ evs)
  end.

Record state := mkState {
  s_buf : buf;
  s_head : option upd;          (* the stored L1 head; u_l1 is ghost *)
  s_live : list upd;            (* ghost: delivered, not reported removed, in delivery order *)
  s_cview : list upd;           (* ghost: delivered, not at/above a block reported reorged *)
  s_fmax : option N             (* ghost: highest finalised height a commit was made with *)
}.

Inductive input :=
| Upd (e : upd)                 (* live log *)
| Rem (e : upd)                 (* live log with Removed = true *)
| Tick (fin : N)                (* ticker: setL1Head, FinalisedHeight() = fin *)
| CatchUp (canon : list upd) (latest fin1 chunk : N) (fail : option nat) (fin2 : N)
| SubErr.                       (* subscription error + resubscribe: no state change *)

Definition fmax_bump (f : option N) (fin : N) : option N :=
  match f with None => Some fin | Some g => Some (N.max g fin) end.

Definition scan_of (st : state) (canon : list upd) (latest fin1 chunk : N) (fail : option nat) :=
  scan (S (N.to_nat latest)) canon fin1 chunk fail 0 latest (s_buf st) [].

Definition step (st : state) (i : input) : state :=
  match i with
  | Upd e => mkState (apply_upd (s_buf st) false e) (s_head st)
                     (s_live st ++ [e]) (s_cview st ++ [e]) (s_fmax st)
  | Rem e => mkState (apply_upd (s_buf st) true e) (s_head st)
                     (filter (fun x => negb (upd_eqb x e)) (s_live st))
                     (filter (fun x => u_l1 x <? u_l1 e) (s_cview st)) (s_fmax st)
  | Tick fin =>
      let '(b, h) := set_head fin (s_buf st) (s_head st) in
      mkState b h (s_live st) (s_cview st) (fmax_bump (s_fmax st) fin)
  | CatchUp canon latest fin1 chunk fail fin2 =>
      let '(b, dl, ok) := scan_of st canon latest fin1 chunk fail in
      if ok then
        let '(b', h) := set_head fin2 b (s_head st) in
        mkState b' h (s_live st ++ dl) (s_cview st ++ dl) (fmax_bump (s_fmax st) fin2)
      else mkState b (s_head st) (s_live st ++ dl) (s_cview st ++ dl) (s_fmax st)
  | SubErr => st
  end.

(* A fresh Client over a database whose stored head is [h0] (None on a new database). *)
Definition init (h0 : option upd) : state := mkState [] h0 [] [] None.

Definition run (h0 : option upd) (tr : list input) : state := fold_left step tr (init h0).

(* ---------- SPEC, from the property text ----------
   "the state-update event with the highest Ethereum block number among those delivered, not
   subsequently reported as removed, at or below the finalised block"; several events in one
   L1 block: the one delivered last. *)
Definition spec_step (fin : N) (acc : option upd) (e : upd) : option upd :=
  if u_l1 e <=? fin then
    match acc with
    | None => Some e
    | Some a => if u_l1 a <=? u_l1 e then Some e else acc
    end
  else acc.
Definition head_spec (L : list upd) (fin : N) : option upd := fold_left (spec_step fin) L None.

(* "... or unchanged when there is none" *)
Definition expected (h0 : option upd) (L : list upd) (fin : N) : option upd :=
  match head_spec L fin with Some e => Some e | None => h0 end.

(* the inputs after which the code commits a head, and with which finalised height *)
Definition commit_fin (st : state) (i : input) : option N :=
  match i with
  | Tick fin => Some fin
  | CatchUp canon latest fin1 chunk fail fin2 =>
      if snd (scan_of st canon latest fin1 chunk fail) then Some fin2 else None
  | _ => None
  end.

Definition opt_eqb {A} (eqb : A -> A -> bool) (a b : option A) : bool :=
  match a, b with
  | None, None => true
  | Some x, Some y => eqb x y
  | _, _ => false
  end.
Definition head_ok (h0 : option upd) (st : state) (fin : N) : bool :=
  opt_eqb upd_eqb (s_head st) (expected h0 (s_live st) fin).

(* ---------- the same predicates on what the implementation shows ----------
   Blockchain.L1Head() = (L2 number, hash/root) or ErrKeyNotFound *)
Definition obs := option (N * N).
Definition proj (e : upd) : N * N := (u_l2 e, u_id e).
Definition pair_eqb (a b : N * N) : bool := (fst a =? fst b) && (snd a =? snd b).
Definition obs_of (h : option upd) : obs := option_map proj h.

Definition obs_spec_ok (h0 : option upd) (L : list upd) (fin : N) (o : obs) : bool :=
  opt_eqb pair_eqb o (obs_of (expected h0 L fin)).

(* the head is the untouched initial one, or a delivered, not removed event at or below the
   highest finalised height reported so far *)
Definition obs_never_ok (h0 : option upd) (L : list upd) (f : option N) (o : obs) : bool :=
  opt_eqb pair_eqb o (obs_of h0) ||
  match o, f with
  | Some p, Some g => existsb (fun e => (u_l1 e <=? g) && pair_eqb (proj e) p) L
  | _, _ => false
  end.

Definition obs_mono_ok (prev cur : obs) : bool :=
  match prev, cur with
  | Some a, Some b => fst a <=? fst b
  | Some _, None => false
  | None, _ => true
  end.

(* ---------- environment assumptions of the property, as a checker on traces ---------- *)
Record assume := mkAssume {
  a_mono : bool;        (* the finalised height never decreases *)
  a_nounfinal : bool;   (* no removal notice at or below a finalised height *)
  a_remc : bool;        (* every delivered log that a reported reorg took away has had its own
                           removal notice by the time its block is reported finalised *)
  a_order : bool;       (* live delivery in L1 order *)
  a_l2 : bool           (* canonical events: L2 numbers non-decreasing in L1 order *)
}.
Definition all_on : assume := mkAssume true true true true true.

Definition le_all_l1 (L : list upd) (e : upd) : bool := forallb (fun x => u_l1 x <=? u_l1 e) L.
Definition le_all_l2 (L : list upd) (e : upd) : bool := forallb (fun x => u_l2 x <=? u_l2 e) L.
Definition h0_le (h0 : option upd) (e : upd) : bool :=
  match h0 with Some h => u_l2 h <=? u_l2 e | None => true end.
Definition above_fmax (f : option N) (e : upd) : bool :=
  match f with None => true | Some g => g <? u_l1 e end.
Definition fin_mono (f : option N) (fin : N) : bool :=
  match f with None => true | Some g => g <=? fin end.
Definition le_fin (fin : N) (l : list upd) : list upd := filter (fun x => u_l1 x <=? fin) l.
Fixpoint list_eqb (a b : list upd) : bool :=
  match a, b with
  | [], [] => true
  | x :: a', y :: b' => upd_eqb x y && list_eqb a' b'
  | _, _ => false
  end.
Definition rem_complete (st : state) (fin : N) : bool :=
  list_eqb (le_fin fin (s_live st)) (le_fin fin (s_cview st)).
Definition consistent (canon : list upd) : bool :=
  forallb (fun a => forallb (fun b => negb (u_l1 a <? u_l1 b) || (u_l2 a <=? u_l2 b)) canon) canon.
(* the persisted head is still a canonical, finalised commit *)
Definition h0_anchored (h0 : option upd) (canon : list upd) (latest fin1 : N) : bool :=
  match h0 with
  | None => true
  | Some h =>
      (u_l1 h <=? fin1) && (fin1 <=? latest) &&
      existsb (fun e => u_l1 e =? u_l1 h) canon &&
      forallb (fun e => negb (u_l1 h <=? u_l1 e) || (u_l2 h <=? u_l2 e)) canon
  end.

Definition env_step (A : assume) (h0 : option upd) (first : bool) (st : state) (i : input) : bool :=
  match i with
  | Upd e => implb (a_order A) (le_all_l1 (s_live st) e) &&
             implb (a_l2 A) (le_all_l2 (s_live st) e && h0_le h0 e)
  | Rem e => implb (a_nounfinal A) (above_fmax (s_fmax st) e)
  | Tick fin => implb (a_mono A) (fin_mono (s_fmax st) fin) &&
                implb (a_remc A) (rem_complete st fin)
  | CatchUp canon latest fin1 chunk fail fin2 =>
      first &&                                      (* Run: once, before subscribing *)
      implb (a_mono A) (fin1 <=? fin2) &&
      implb (a_l2 A) (consistent canon && h0_anchored h0 canon latest fin1)
  | SubErr => true
  end.

Fixpoint env_from (A : assume) (h0 : option upd) (first : bool) (st : state) (tr : list input) : bool :=
  match tr with
  | [] => true
  | i :: r => env_step A h0 first st i && env_from A h0 false (step st i) r
  end.
Definition env_ok (A : assume) (h0 : option upd) (tr : list input) : bool :=
  env_from A h0 true (init h0) tr.

(* ---------- the geth adapter below the L1StateProvider interface ----------
   l1/geth_l1_state_provider.go: stateUpdateFromGethContract, forwardStateUpdates,
   FilterStateUpdate. A geth-level LogStateUpdate: Raw.BlockNumber, BlockNumber, (BlockHash,
   GlobalRoot) as one small number, Raw.Removed. *)
Record glog := mkGlog { g_l1 : N; g_l2 : N; g_id : N; g_removed : bool }.

Definition upd_of (g : glog) : upd := mkUpd (g_l1 g) (g_l2 g) (g_id g).

(* stateUpdateFromGethContract followed by the client's receive: the Removed flag is copied *)
Definition decode (g : glog) : input := if g_removed g then Rem (upd_of g) else Upd (upd_of g).

(* What reaches the client. [SLog g]: geth delivers a log on the subscription channel;
   [SErr]: the geth subscription fails (forwardStateUpdates returns the error, Err() fires, the
   client resubscribes and a new forwarding loop continues with the rest of the stream);
   [SPoll i]: a ticker poll / the start-up catch-up (calls that do not go through the loop).
   Unsubscribe / context cancel ends the stream (only at shutdown): every theorem is about an
   arbitrary finite stream, hence about every prefix.
   [fw] is the per-event behaviour of the loop body. *)
Inductive sev := SLog (g : glog) | SErr | SPoll (i : input).

Fixpoint sys_trace (fw : glog -> list input) (s : list sev) : list input :=
  match s with
  | [] => []
  | SLog g :: r => fw g ++ sys_trace fw r
  | SErr :: r => SubErr :: sys_trace fw r
  | SPoll i :: r => i :: sys_trace fw r
  end.

(* the loop body of forwardStateUpdates: every event is decoded and sent on, one for one *)
Definition fw_real (g : glog) : list input := [decode g].
(* a forwarder that swallows removal notices (counter-example only) *)
Definition fw_drop_removed (g : glog) : list input := if g_removed g then [] else [decode g].

(* FilterStateUpdate: the logs of the range, decoded in order *)
Definition canon_of (gl : list glog) : list upd := map upd_of gl.
