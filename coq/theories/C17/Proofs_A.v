(* C17 proofs, part A: facts about the spec function, "last event at a block", and the
   selection loop of setL1Head. *)
From Coq Require Import List NArith Bool Lia ZifyN ZifyBool.
From V Require Import C17.Model.
Import ListNotations.
Open Scope N_scope.

Lemma upd_eqb_eq : forall a b, upd_eqb a b = true <-> a = b.
Proof.
  intros [a1 a2 a3] [b1 b2 b3]; unfold upd_eqb; simpl. split.
  - intro H. apply andb_prop in H as [H H3]. apply andb_prop in H as [H1 H2].
    apply N.eqb_eq in H1, H2, H3. subst. reflexivity.
  - intro H. inversion H; subst. rewrite !N.eqb_refl. reflexivity.
Qed.

Lemma list_eqb_eq : forall a b, list_eqb a b = true -> a = b.
Proof.
  induction a as [|x a IH]; intros [|y b] H; simpl in H; try discriminate; auto.
  apply andb_prop in H as [H1 H2]. apply upd_eqb_eq in H1. subst. f_equal. auto.
Qed.

(* ---------- last event at block k, in delivery order ---------- *)
Definition lastAt (C : list upd) (k : N) : option upd := find (fun e => u_l1 e =? k) (rev C).

Lemma lastAt_snoc : forall C e k,
  lastAt (C ++ [e]) k = if u_l1 e =? k then Some e else lastAt C k.
Proof. intros. unfold lastAt. rewrite rev_app_distr. reflexivity. Qed.

Lemma lastAt_in : forall C k e, lastAt C k = Some e -> In e C /\ u_l1 e = k.
Proof.
  unfold lastAt; intros C k e H. apply find_some in H as [H1 H2].
  split. - apply in_rev; exact H1. - apply N.eqb_eq; exact H2.
Qed.

Lemma lastAt_none : forall C k e, lastAt C k = None -> In e C -> u_l1 e <> k.
Proof.
  unfold lastAt; intros C k e H Hin. apply in_rev in Hin.
  pose proof (find_none _ _ H _ Hin) as Hf. apply N.eqb_neq; exact Hf.
Qed.

Lemma find_filter : forall (q p : upd -> bool) l,
  (forall x, q x = true -> p x = true) -> find q (filter p l) = find q l.
Proof.
  induction l as [|x l IH]; intros Hqp; simpl; auto.
  destruct (p x) eqn:Hp; simpl.
  - destruct (q x); auto.
  - destruct (q x) eqn:Hq; auto. rewrite (Hqp _ Hq) in Hp. discriminate.
Qed.

Lemma rev_filter : forall (p : upd -> bool) l, rev (filter p l) = filter p (rev l).
Proof.
  induction l as [|x l IH]; simpl; auto.
  rewrite filter_app; simpl. destruct (p x); simpl; rewrite IH; auto using app_nil_r.
Qed.

Lemma lastAt_filter : forall p C k,
  (forall e, u_l1 e = k -> p e = true) -> lastAt (filter p C) k = lastAt C k.
Proof.
  intros. unfold lastAt. rewrite rev_filter. apply find_filter.
  intros x Hx. apply H. apply N.eqb_eq; exact Hx.
Qed.

(* ---------- the spec function ---------- *)
Lemma spec_snoc : forall L e fin, head_spec (L ++ [e]) fin = spec_step fin (head_spec L fin) e.
Proof. intros. unfold head_spec. rewrite fold_left_app. reflexivity. Qed.

Lemma spec_in : forall L fin a, head_spec L fin = Some a -> In a L /\ u_l1 a <= fin.
Proof.
  induction L as [|y L IH] using rev_ind; intros fin a H.
  - discriminate.
  - rewrite spec_snoc in H. unfold spec_step in H.
    destruct (u_l1 y <=? fin) eqn:Hy.
    + destruct (head_spec L fin) as [b|] eqn:Hb.
      * destruct (u_l1 b <=? u_l1 y).
        -- inversion H; subst. split; [apply in_or_app; right; left; auto | lia].
        -- inversion H; subst. destruct (IH _ _ Hb). split; [apply in_or_app; auto | auto].
      * inversion H; subst. split; [apply in_or_app; right; left; auto | lia].
    + destruct (IH _ _ H). split; [apply in_or_app; auto | auto].
Qed.

Lemma spec_none : forall L fin, (forall e, In e L -> fin < u_l1 e) -> head_spec L fin = None.
Proof.
  induction L as [|y L IH] using rev_ind; intros fin H; auto.
  rewrite spec_snoc. rewrite IH by (intros; apply H; apply in_or_app; auto).
  unfold spec_step. assert (fin < u_l1 y) by (apply H; apply in_or_app; right; left; auto).
  destruct (u_l1 y <=? fin) eqn:E; auto. lia.
Qed.

Lemma spec_some : forall L fin e,
  In e L -> u_l1 e <= fin ->
  (forall x, In x L -> u_l1 x <= fin -> u_l1 x <= u_l1 e) ->
  lastAt L (u_l1 e) = Some e ->
  head_spec L fin = Some e.
Proof.
  induction L as [|y L IH] using rev_ind; intros fin e Hin Hle Hmax Hlast.
  - destruct Hin.
  - rewrite spec_snoc. rewrite lastAt_snoc in Hlast.
    destruct (u_l1 y =? u_l1 e) eqn:Hy.
    + inversion Hlast; subst y. unfold spec_step.
      destruct (u_l1 e <=? fin) eqn:E; [|lia].
      destruct (head_spec L fin) as [a|] eqn:Ha; auto.
      destruct (spec_in _ _ _ Ha) as [Hi Hl].
      assert (u_l1 a <= u_l1 e) by (apply Hmax; auto; apply in_or_app; auto).
      destruct (u_l1 a <=? u_l1 e) eqn:E2; auto. lia.
    + destruct (lastAt_in _ _ _ Hlast) as [Hi _].
      rewrite (IH fin e Hi Hle) ; auto.
      * unfold spec_step. destruct (u_l1 y <=? fin) eqn:E; auto.
        assert (u_l1 y <= u_l1 e) by (apply Hmax; [apply in_or_app; right; left; auto | lia]).
        destruct (u_l1 e <=? u_l1 y) eqn:E2; auto. lia.
      * intros x Hx. apply Hmax. apply in_or_app; auto.
Qed.

Lemma spec_fold_filter : forall fin L acc,
  fold_left (spec_step fin) (le_fin fin L) acc = fold_left (spec_step fin) L acc.
Proof.
  induction L as [|x L IH]; intros acc; simpl; auto.
  destruct (u_l1 x <=? fin) eqn:E; simpl.
  - apply IH.
  - rewrite IH. f_equal. unfold spec_step. rewrite E. reflexivity.
Qed.

Lemma spec_filter : forall fin L, head_spec (le_fin fin L) fin = head_spec L fin.
Proof. intros. apply spec_fold_filter. Qed.

(* ---------- the selection loop ---------- *)
Lemma pick_gen : forall fin b mx h,
  let r := pick fin b mx h in
  mx <= fst r /\
  (forall k v, In (k, v) b -> k <= fin -> k <= fst r) /\
  ((snd r = h /\ fst r = mx /\ (forall k v, In (k, v) b -> k <= fin -> k < mx)) \/
   (exists v, snd r = Some v /\ In (fst r, v) b /\ fst r <= fin)).
Proof.
  induction b as [|[k v] b IH]; intros mx h; simpl.
  - split; [lia|]. split; [intros ? ? []|]. left; repeat split; auto. intros ? ? [].
  - destruct ((k <=? fin) && (mx <=? k)) eqn:E.
    + apply andb_prop in E as [E1 E2].
      destruct (IH k (Some v)) as (A & B & D). split; [lia|]. split.
      * intros k' v' [Heq|Hin] Hk'; [inversion Heq; subst; auto | eauto].
      * right. destruct D as [(D1 & D2 & D3)|(v0 & D1 & D2 & D3)].
        -- exists v. rewrite D1, D2. repeat split; auto. lia.
        -- exists v0. repeat split; auto.
    + destruct (IH mx h) as (A & B & D). split; [auto|]. split.
      * intros k' v' [Heq|Hin] Hk'; [inversion Heq; subst | eauto].
        apply andb_false_iff in E. destruct E as [E|E]; lia.
      * destruct D as [(D1 & D2 & D3)|(v0 & D1 & D2 & D3)].
        -- left. repeat split; auto. intros k' v' [Heq|Hin] Hk'; [inversion Heq; subst | eauto].
           apply andb_false_iff in E. destruct E as [E|E]; lia.
        -- right. exists v0. repeat split; auto.
Qed.

Lemma pick_none : forall fin b, snd (pick fin b 0 None) = None ->
  forall k v, In (k, v) b -> fin < k.
Proof.
  intros fin b H k v Hin. destruct (pick_gen fin b 0 None) as (_ & _ & D).
  destruct D as [(_ & _ & D3)|(v0 & D1 & _)].
  - destruct (N.le_gt_cases k fin) as [Hk|Hk]; [|lia]. specialize (D3 _ _ Hin Hk). lia.
  - rewrite H in D1. discriminate.
Qed.

Lemma pick_some : forall fin b v, snd (pick fin b 0 None) = Some v ->
  exists k, In (k, v) b /\ k <= fin /\ forall k' v', In (k', v') b -> k' <= fin -> k' <= k.
Proof.
  intros fin b v H. destruct (pick_gen fin b 0 None) as (_ & B & D).
  destruct D as [(D1 & _)|(v0 & D1 & D2 & D3)].
  - rewrite H in D1. discriminate.
  - rewrite H in D1. inversion D1; subst v0. exists (fst (pick fin b 0 None)). auto.
Qed.
