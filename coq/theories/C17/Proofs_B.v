(* C17 proofs, part B: the invariant tying buffer and stored head to the code's view of the
   delivered events, and its preservation by every step. *)
From Coq Require Import List NArith Bool Lia ZifyN ZifyBool.
From V Require Import C17.Model C17.Proofs_A.
Import ListNotations.
Open Scope N_scope.

Definition keys (b : buf) : list N := map fst b.

Lemma in_keys : forall k b, In k (keys b) <-> exists v, In (k, v) b.
Proof.
  intros k b. unfold keys. rewrite in_map_iff. split.
  - intros ([k' v] & H1 & H2). simpl in H1. subst. eauto.
  - intros (v & H). exists (k, v). auto.
Qed.

Lemma in_apply_put : forall b e k v,
  In (k, v) (apply_upd b false e) <-> (k = u_l1 e /\ v = e) \/ (k <> u_l1 e /\ In (k, v) b).
Proof.
  intros. unfold apply_upd. simpl. rewrite filter_In. simpl. split.
  - intros [H|[H1 H2]]; [inversion H; auto|]. right. split; auto.
    apply negb_true_iff in H2. apply N.eqb_neq in H2. auto.
  - intros [[H1 H2]|[H1 H2]]; [subst; auto|]. right. split; auto.
    apply negb_true_iff. apply N.eqb_neq. auto.
Qed.

Lemma in_apply_rem : forall b e k v,
  In (k, v) (apply_upd b true e) <-> In (k, v) b /\ k < u_l1 e.
Proof.
  intros. unfold apply_upd. rewrite filter_In. simpl. rewrite N.ltb_lt. tauto.
Qed.

Lemma keys_apply_put : forall b e k,
  In k (keys (apply_upd b false e)) <-> k = u_l1 e \/ In k (keys b).
Proof.
  intros. rewrite !in_keys. split.
  - intros (v & H). apply in_apply_put in H. destruct H as [[H _]|[_ H]]; eauto.
  - intros [H|(v & H)].
    + exists e. apply in_apply_put. auto.
    + destruct (N.eq_dec k (u_l1 e)).
      * exists e. apply in_apply_put. auto.
      * exists v. apply in_apply_put. auto.
Qed.

Record Base (st : state) : Prop := mkBase {
  b_last : forall k v, In (k, v) (s_buf st) -> lastAt (s_cview st) k = Some v;
  b_sub : forall e, In e (s_cview st) -> In e (s_live st)
}.

Definition Virgin (h0 : option upd) (st : state) : Prop :=
  s_head st = h0 /\ forall e, In e (s_cview st) -> In (u_l1 e) (keys (s_buf st)).

Definition SetH (st : state) : Prop := exists h f,
  s_head st = Some h /\ s_fmax st = Some f /\ In h (s_cview st) /\ u_l1 h <= f /\
  (~ In (u_l1 h) (keys (s_buf st)) -> lastAt (s_cview st) (u_l1 h) = Some h) /\
  (forall k, In k (keys (s_buf st)) -> u_l1 h <= k) /\
  (forall e, In e (s_cview st) -> In (u_l1 e) (keys (s_buf st)) \/ u_l1 e <= u_l1 h).

Definition Inv (h0 : option upd) (st : state) : Prop := Base st /\ (Virgin h0 st \/ SetH st).

Lemma base_key : forall st k v, Base st -> In (k, v) (s_buf st) -> In v (s_cview st) /\ u_l1 v = k.
Proof. intros st k v B H. apply (lastAt_in _ _ _ (b_last _ B _ _ H)). Qed.

(* ---------- Upd ---------- *)
Lemma upd_base : forall st e, Base st -> Base (step st (Upd e)).
Proof.
  intros st e [BL BS]. constructor; simpl.
  - intros k v H. apply in_apply_put in H. rewrite lastAt_snoc.
    destruct H as [[H1 H2]|[H1 H2]].
    + subst. rewrite N.eqb_refl. reflexivity.
    + destruct (u_l1 e =? k) eqn:E; [apply N.eqb_eq in E; congruence|]. auto.
  - intros x H. apply in_app_or in H. apply in_or_app. destruct H; auto.
Qed.

Lemma upd_virgin : forall h0 st e, Virgin h0 st -> Virgin h0 (step st (Upd e)).
Proof.
  intros h0 st e [H1 H2]. split; simpl; auto.
  intros x H. apply keys_apply_put. apply in_app_or in H. destruct H as [H|[H|[]]].
  - right. auto.
  - subst. left. reflexivity.
Qed.

Lemma upd_set : forall st e, Base st -> SetH st ->
  (forall x, In x (s_live st) -> u_l1 x <= u_l1 e) -> SetH (step st (Upd e)).
Proof.
  intros st e B (h & f & Hh & Hf & Hin & Hle & Hlast & Hkeys & Hcov) Hord.
  exists h, f. simpl. repeat split; auto.
  - apply in_or_app; auto.
  - intro Hn. rewrite lastAt_snoc.
    destruct (u_l1 e =? u_l1 h) eqn:E.
    + exfalso. apply Hn. apply keys_apply_put. left. apply N.eqb_eq in E. auto.
    + apply Hlast. intro Hk. apply Hn. apply keys_apply_put. auto.
  - intros k Hk. apply keys_apply_put in Hk. destruct Hk as [Hk|Hk]; auto.
    subst. apply Hord. apply (b_sub _ B). auto.
  - intros x Hx. apply in_app_or in Hx. destruct Hx as [Hx|[Hx|[]]].
    + destruct (Hcov _ Hx); auto. left. apply keys_apply_put. auto.
    + subst. left. apply keys_apply_put. auto.
Qed.

(* ---------- Rem ---------- *)
Lemma rem_base : forall st e, Base st -> Base (step st (Rem e)).
Proof.
  intros st e [BL BS]. constructor; simpl.
  - intros k v H. apply in_apply_rem in H. destruct H as [H1 H2].
    rewrite lastAt_filter; auto. intros x Hx. apply N.ltb_lt. lia.
  - intros x H. apply filter_In in H. destruct H as [H1 H2]. apply filter_In. split; auto.
    apply negb_true_iff. destruct (upd_eqb x e) eqn:E; auto.
    apply upd_eqb_eq in E. subst. apply N.ltb_lt in H2. lia.
Qed.

Lemma keys_apply_rem : forall b e k,
  In k (keys (apply_upd b true e)) <-> In k (keys b) /\ k < u_l1 e.
Proof.
  intros. rewrite !in_keys. split.
  - intros (v & H). apply in_apply_rem in H. destruct H. eauto.
  - intros [(v & H) H2]. exists v. apply in_apply_rem. auto.
Qed.

Lemma rem_virgin : forall h0 st e, Virgin h0 st -> Virgin h0 (step st (Rem e)).
Proof.
  intros h0 st e [H1 H2]. split; simpl; auto.
  intros x H. apply filter_In in H. destruct H as [Hx Hlt]. apply N.ltb_lt in Hlt.
  apply keys_apply_rem. auto.
Qed.

Lemma rem_set : forall st e, SetH st -> above_fmax (s_fmax st) e = true -> SetH (step st (Rem e)).
Proof.
  intros st e (h & f & Hh & Hf & Hin & Hle & Hlast & Hkeys & Hcov) Hab.
  rewrite Hf in Hab. simpl in Hab. apply N.ltb_lt in Hab.
  exists h, f. simpl. repeat split; auto.
  - apply filter_In. split; auto. apply N.ltb_lt. lia.
  - intro Hn. rewrite lastAt_filter.
    + apply Hlast. intro Hk. apply Hn. apply keys_apply_rem. split; auto. lia.
    + intros x Hx. apply N.ltb_lt. lia.
  - intros k Hk. apply keys_apply_rem in Hk. destruct Hk. auto.
  - intros x Hx. apply filter_In in Hx. destruct Hx as [Hx Hlt]. apply N.ltb_lt in Hlt.
    destruct (Hcov _ Hx); auto. left. apply keys_apply_rem. auto.
Qed.

(* ---------- setL1Head as a state transformer ---------- *)
Definition commit (fin : N) (st : state) : state :=
  let '(b, h) := set_head fin (s_buf st) (s_head st) in
  mkState b h (s_live st) (s_cview st) (fmax_bump (s_fmax st) fin).

Lemma step_tick : forall st fin, step st (Tick fin) = commit fin st.
Proof. reflexivity. Qed.

Lemma in_commit_buf : forall fin st k v,
  In (k, v) (s_buf (commit fin st)) <-> In (k, v) (s_buf st) /\ fin < k.
Proof.
  intros. unfold commit, set_head. simpl. rewrite filter_In. simpl.
  rewrite negb_true_iff. rewrite N.leb_gt. tauto.
Qed.

Lemma keys_commit : forall fin st k,
  In k (keys (s_buf (commit fin st))) <-> In k (keys (s_buf st)) /\ fin < k.
Proof.
  intros. rewrite !in_keys. split.
  - intros (v & H). apply in_commit_buf in H. destruct H. eauto.
  - intros [(v & H) H2]. exists v. apply in_commit_buf. auto.
Qed.

Lemma commit_head_eq : forall fin st,
  s_head (commit fin st) =
  match snd (pick fin (s_buf st) 0 None) with Some v => Some v | None => s_head st end.
Proof. reflexivity. Qed.

Lemma fmax_bump_ge : forall f fin, exists g, fmax_bump f fin = Some g /\ fin <= g /\
  (forall f0, f = Some f0 -> f0 <= g).
Proof.
  intros [f0|] fin; simpl.
  - exists (N.max f0 fin). repeat split; try lia. intros ? H. inversion H. lia.
  - exists fin. repeat split; try lia. intros ? H. discriminate.
Qed.
