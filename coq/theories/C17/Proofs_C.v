(* C17 proofs, part C: setL1Head preserves the invariant and commits exactly the spec head of the
   code's view. *)
From Coq Require Import List NArith Bool Lia ZifyN ZifyBool.
From V Require Import C17.Model C17.Proofs_A C17.Proofs_B.
Import ListNotations.
Open Scope N_scope.

Lemma commit_base : forall fin st, Base st -> Base (commit fin st).
Proof.
  intros fin st [BL BS]. constructor.
  - intros k v H. apply in_commit_buf in H. destruct H. apply BL. auto.
  - exact BS.
Qed.

Lemma commit_fields : forall fin st,
  s_live (commit fin st) = s_live st /\ s_cview (commit fin st) = s_cview st /\
  s_fmax (commit fin st) = fmax_bump (s_fmax st) fin.
Proof. intros. unfold commit, set_head. simpl. auto. Qed.

Lemma commit_inv : forall h0 fin st, Inv h0 st -> Inv h0 (commit fin st).
Proof.
  intros h0 fin st [B HS]. split; [apply commit_base; auto|].
  destruct (commit_fields fin st) as (EL & EC & EF).
  destruct (snd (pick fin (s_buf st) 0 None)) as [v|] eqn:P.
  - (* a finalised entry is committed *)
    right. destruct (pick_some _ _ _ P) as (k & Hin & Hk & Hmax).
    destruct (base_key _ _ _ B Hin) as [HvC Hvk].
    destruct (fmax_bump_ge (s_fmax st) fin) as (g & Hg & Hg1 & Hg2).
    exists v, g. rewrite commit_head_eq, P, EC, EF. repeat split; auto.
    + lia.
    + intros _. rewrite Hvk. apply (b_last _ B). auto.
    + intros k' Hk'. apply keys_commit in Hk'. lia.
    + intros x Hx.
      assert (In (u_l1 x) (keys (s_buf st)) -> In (u_l1 x) (keys (s_buf (commit fin st))) \/ u_l1 x <= u_l1 v) as Hcase.
      { intro Hkx. destruct (N.le_gt_cases (u_l1 x) fin) as [Hc|Hc].
        - right. apply in_keys in Hkx. destruct Hkx as (v' & Hv'). specialize (Hmax _ _ Hv' Hc). lia.
        - left. apply keys_commit. auto. }
      destruct HS as [[_ Hcov]|(h & f & Hh & Hf & HhC & Hle & Hlast & Hkeys & Hcov)].
      * apply Hcase. auto.
      * destruct (Hcov _ Hx) as [Hkx|Hkx]; [apply Hcase; auto|].
        right. assert (u_l1 h <= k) by (apply Hkeys; apply in_keys; eauto). lia.
  - (* nothing at or below fin in the buffer *)
    assert (Hall : forall k v, In (k, v) (s_buf st) -> fin < k) by (apply pick_none; auto).
    assert (Hk : forall k, In k (keys (s_buf (commit fin st))) <-> In k (keys (s_buf st))).
    { intro k. rewrite keys_commit. split; [tauto|]. intro H. split; auto.
      apply in_keys in H. destruct H as (v & H). eauto. }
    destruct HS as [[Hh Hcov]|(h & f & Hh & Hf & HhC & Hle & Hlast & Hkeys & Hcov)].
    + left. split.
      * rewrite commit_head_eq, P. auto.
      * rewrite EC. intros x Hx. apply Hk. auto.
    + right. destruct (fmax_bump_ge (s_fmax st) fin) as (g & Hg & Hg1 & Hg2).
      exists h, g. rewrite commit_head_eq, P, EC, EF. repeat split; auto.
      * specialize (Hg2 _ Hf). lia.
      * intro Hn. apply Hlast. intro H. apply Hn. apply Hk. auto.
      * intros k H. apply Hkeys. apply Hk. auto.
      * intros x Hx. destruct (Hcov _ Hx); auto. left. apply Hk. auto.
Qed.

(* the head after setL1Head(fin) is the spec head of the code's view, provided fin is not below
   an earlier finalised height *)
Lemma commit_head : forall h0 fin st, Inv h0 st -> fin_mono (s_fmax st) fin = true ->
  s_head (commit fin st) = expected h0 (s_cview st) fin.
Proof.
  intros h0 fin st [B HS] Hmono. rewrite commit_head_eq. unfold expected.
  destruct (snd (pick fin (s_buf st) 0 None)) as [v|] eqn:P.
  - destruct (pick_some _ _ _ P) as (k & Hin & Hk & Hmax).
    destruct (base_key _ _ _ B Hin) as [HvC Hvk].
    rewrite (spec_some (s_cview st) fin v); auto.
    + lia.
    + intros x Hx Hxf.
      assert (In (u_l1 x) (keys (s_buf st)) -> u_l1 x <= u_l1 v) as Hcase.
      { intro Hkx. apply in_keys in Hkx. destruct Hkx as (v' & Hv'). specialize (Hmax _ _ Hv' Hxf). lia. }
      destruct HS as [[_ Hcov]|(h & f & Hh & Hf & HhC & Hle & Hlast & Hkeys & Hcov)].
      * apply Hcase. auto.
      * destruct (Hcov _ Hx) as [Hkx|Hkx]; [apply Hcase; auto|].
        assert (u_l1 h <= k) by (apply Hkeys; apply in_keys; eauto). lia.
    + rewrite Hvk. apply (b_last _ B). auto.
  - assert (Hall : forall k v, In (k, v) (s_buf st) -> fin < k) by (apply pick_none; auto).
    destruct HS as [[Hh Hcov]|(h & f & Hh & Hf & HhC & Hle & Hlast & Hkeys & Hcov)].
    + rewrite spec_none; auto.
      intros x Hx. specialize (Hcov _ Hx). apply in_keys in Hcov. destruct Hcov as (v & Hv). eauto.
    + rewrite Hf in Hmono. simpl in Hmono. apply N.leb_le in Hmono.
      assert (Hnk : ~ In (u_l1 h) (keys (s_buf st))).
      { intro H. apply in_keys in H. destruct H as (v & Hv). specialize (Hall _ _ Hv). lia. }
      rewrite (spec_some (s_cview st) fin h); auto.
      * lia.
      * intros x Hx Hxf. destruct (Hcov _ Hx) as [Hkx|Hkx]; auto.
        apply in_keys in Hkx. destruct Hkx as (v & Hv). specialize (Hall _ _ Hv). lia.
Qed.

(* the two views agree below fin when every reorged log has had its removal notice *)
Lemma expected_views : forall h0 st fin, rem_complete st fin = true ->
  expected h0 (s_cview st) fin = expected h0 (s_live st) fin.
Proof.
  intros h0 st fin H. unfold expected. apply list_eqb_eq in H.
  rewrite <- (spec_filter fin (s_cview st)), <- (spec_filter fin (s_live st)), H. reflexivity.
Qed.

(* ---------- a batch of deliveries (one catch-up scan) ---------- *)
Definition delivers (st : state) (evs : list upd) : state :=
  fold_left (fun s e => step s (Upd e)) evs st.

Lemma delivers_eq : forall evs st,
  delivers st evs =
  mkState (fold_left (fun b e => apply_upd b false e) evs (s_buf st)) (s_head st)
          (s_live st ++ evs) (s_cview st ++ evs) (s_fmax st).
Proof.
  unfold delivers. induction evs as [|e evs IH]; intros [b h l c f].
  - simpl. rewrite !app_nil_r. reflexivity.
  - cbn [fold_left]. rewrite IH. simpl. rewrite <- !app_assoc. reflexivity.
Qed.

Lemma delivers_virgin : forall h0 evs st, Base st -> Virgin h0 st ->
  Base (delivers st evs) /\ Virgin h0 (delivers st evs).
Proof.
  induction evs as [|e evs IH]; intros st B V; simpl; auto.
  apply IH; [apply upd_base | apply upd_virgin]; auto.
Qed.

Lemma scan_shape : forall fuel canon fin1 chunk fail i to b dl b' dl' ok,
  scan fuel canon fin1 chunk fail i to b dl = (b', dl', ok) ->
  exists evs, dl' = dl ++ evs /\ b' = fold_left (fun b e => apply_upd b false e) evs b /\
              (forall e, In e evs -> In e canon /\ u_l1 e <= to).
Proof.
  induction fuel as [|fuel IH]; intros canon fin1 chunk fl i to b dl b' dl' ok H; simpl in H.
  - inversion H; subst. exists []. rewrite app_nil_r. simpl. split; [auto|split; [auto|intros ? []]].
  - destruct (match fl with Some j => Nat.eqb i j | None => false end).
    + inversion H; subst. exists []. rewrite app_nil_r. simpl. split; [auto|split; [auto|intros ? []]].
    + set (from := if chunk <? to + 1 then to + 1 - chunk else 0) in *.
      set (evs := filter (in_range from to) canon) in *.
      assert (Hevs : forall e, In e evs -> In e canon /\ u_l1 e <= to).
      { intros e He. apply filter_In in He. destruct He as [He Hr]. split; auto.
        unfold in_range in Hr. lia. }
      destruct (existsb (fun e => u_l1 e <=? fin1) evs || (from =? 0)) eqn:E.
      * inversion H; subst. exists evs. auto.
      * apply IH in H. destruct H as (evs2 & H1 & H2 & H3).
        exists (evs ++ evs2). rewrite H1, H2, app_assoc, fold_left_app.
        split; [auto|split; [auto|]].
        intros e He. apply in_app_or in He. destruct He as [He|He]; [apply Hevs; auto|].
        apply H3 in He. destruct He as [He1 He2]. split; auto.
        apply orb_false_iff in E. destruct E as [_ E].
        assert (from <= to + 1) by (subst from; destruct (chunk <? to + 1); lia).
        lia.
Qed.
