(* C17 proofs, part D: induction over input sequences; head_spec and never_above_finalised. *)
From Coq Require Import List NArith Bool Lia ZifyN ZifyBool.
From V Require Import C17.Model C17.Proofs_A C17.Proofs_B C17.Proofs_C.
Import ListNotations.
Open Scope N_scope.

Lemma inv_init : forall h0, Inv h0 (init h0).
Proof.
  intro h0. split.
  - constructor; simpl; intros; contradiction.
  - left. split; simpl; auto.
Qed.

Lemma step_catchup : forall st canon latest fin1 chunk fl fin2 b dl ok,
  scan_of st canon latest fin1 chunk fl = (b, dl, ok) ->
  step st (CatchUp canon latest fin1 chunk fl fin2) =
  if ok then commit fin2 (delivers st dl) else delivers st dl.
Proof.
  intros st canon latest fin1 chunk fl fin2 b dl ok H.
  unfold step. rewrite H. unfold scan_of in H.
  apply scan_shape in H. destruct H as (evs & H1 & H2 & _). simpl in H1. subst dl b.
  rewrite delivers_eq. destruct ok; unfold commit; simpl; reflexivity.
Qed.

Lemma scan_of_canon : forall st canon latest fin1 chunk fl b dl ok,
  scan_of st canon latest fin1 chunk fl = (b, dl, ok) ->
  forall e, In e dl -> In e canon /\ u_l1 e <= latest.
Proof.
  intros st canon latest fin1 chunk fl b dl ok H. unfold scan_of in H.
  apply scan_shape in H. destruct H as (evs & H1 & _ & H3). simpl in H1. subst. exact H3.
Qed.

Section Steps.
Variable A : assume.
Variable h0 : option upd.
Hypothesis Hnounfinal : a_nounfinal A = true.
Hypothesis Horder : a_order A = true.

Lemma step_inv : forall first st i,
  Inv h0 st -> (first = true -> st = init h0) ->
  env_step A h0 first st i = true -> Inv h0 (step st i).
Proof.
  intros first st i [B HS] Hfirst Henv. destruct i as [e|e|fin|canon latest fin1 chunk fl fin2|].
  - (* Upd *)
    simpl in Henv. rewrite Horder in Henv. simpl in Henv. apply andb_prop in Henv as [Ho _].
    unfold le_all_l1 in Ho. rewrite forallb_forall in Ho.
    split; [apply upd_base; auto|]. destruct HS as [V|S].
    + left. apply upd_virgin; auto.
    + right. apply upd_set; auto. intros x Hx. specialize (Ho _ Hx). lia.
  - (* Rem *)
    simpl in Henv. rewrite Hnounfinal in Henv. simpl in Henv.
    split; [apply rem_base; auto|]. destruct HS as [V|S].
    + left. apply rem_virgin; auto.
    + right. apply rem_set; auto.
  - rewrite step_tick. apply commit_inv. split; auto.
  - (* CatchUp *)
    simpl in Henv. apply andb_prop in Henv as [Henv _]. apply andb_prop in Henv as [Hf _].
    specialize (Hfirst Hf). subst st.
    destruct (scan_of (init h0) canon latest fin1 chunk fl) as [[b dl] ok] eqn:Hs.
    rewrite (step_catchup _ _ _ _ _ _ fin2 _ _ _ Hs).
    destruct (inv_init h0) as [B0 [V0|S0]].
    + destruct (delivers_virgin h0 dl _ B0 V0) as [B1 V1].
      destruct ok; [apply commit_inv|]; split; auto.
    + destruct S0 as (h & f & _ & Hf0 & _). discriminate.
  - simpl. split; auto.
Qed.

Lemma run_inv : forall tr first st,
  Inv h0 st -> (first = true -> st = init h0) ->
  env_from A h0 first st tr = true -> Inv h0 (fold_left step tr st).
Proof.
  induction tr as [|i tr IH]; intros first st HI Hf Henv; simpl; auto.
  simpl in Henv. apply andb_prop in Henv as [H1 H2].
  apply (IH false); auto.
  - eapply step_inv; eauto.
  - discriminate.
Qed.

Hypothesis Hmono : a_mono A = true.
Hypothesis Hremc : a_remc A = true.

Lemma step_head : forall first st i fin,
  Inv h0 st -> (first = true -> st = init h0) ->
  env_step A h0 first st i = true -> commit_fin st i = Some fin ->
  s_head (step st i) = expected h0 (s_live (step st i)) fin.
Proof.
  intros first st i fin HI Hfirst Henv Hc.
  destruct i as [e|e|fin'|canon latest fin1 chunk fl fin2|]; simpl in Hc; try discriminate.
  - inversion Hc; subst fin'. simpl in Henv. rewrite Hmono, Hremc in Henv. simpl in Henv.
    apply andb_prop in Henv as [Hm Hr]. rewrite step_tick.
    rewrite (commit_head h0); auto. destruct (commit_fields fin st) as (EL & _ & _). rewrite EL.
    apply expected_views; auto.
  - simpl in Henv. apply andb_prop in Henv as [Henv _]. apply andb_prop in Henv as [Hf _].
    specialize (Hfirst Hf). subst st.
    destruct (scan_of (init h0) canon latest fin1 chunk fl) as [[b dl] ok] eqn:Hs.
    simpl in Hc. destruct ok; [|discriminate]. inversion Hc; subst fin2.
    rewrite (step_catchup _ _ _ _ _ _ fin _ _ _ Hs).
    destruct (inv_init h0) as [B0 [V0|S0]]; [|destruct S0 as (h & f & _ & Hf0 & _); discriminate].
    destruct (delivers_virgin h0 dl _ B0 V0) as [B1 V1].
    rewrite (commit_head h0); [| split; auto |].
    + destruct (commit_fields fin (delivers (init h0) dl)) as (EL & _ & _). rewrite EL.
      rewrite delivers_eq. simpl. reflexivity.
    + rewrite delivers_eq. simpl. reflexivity.
Qed.

End Steps.

Definition is_nil {X} (l : list X) : bool := match l with [] => true | _ => false end.

Lemma env_from_snoc : forall A h0 t first st i,
  env_from A h0 first st (t ++ [i]) = true ->
  env_from A h0 first st t = true /\
  env_step A h0 (first && is_nil t) (fold_left step t st) i = true.
Proof.
  induction t as [|j t IH]; intros first st i H; simpl in *.
  - rewrite andb_true_r in *. auto.
  - apply andb_prop in H as [H1 H2]. apply IH in H2. destruct H2 as [H2 H3].
    rewrite H1, H2. rewrite andb_false_r. simpl in H3. auto.
Qed.

Lemma run_snoc : forall h0 tr i, run h0 (tr ++ [i]) = step (run h0 tr) i.
Proof. intros. unfold run. rewrite fold_left_app. reflexivity. Qed.

Lemma head_spec_lemma : forall A h0 tr i fin,
  a_mono A = true -> a_nounfinal A = true -> a_remc A = true -> a_order A = true ->
  env_ok A h0 (tr ++ [i]) = true ->
  commit_fin (run h0 tr) i = Some fin ->
  s_head (run h0 (tr ++ [i])) = expected h0 (s_live (run h0 (tr ++ [i]))) fin.
Proof.
  intros A h0 tr i fin Hm Hn Hr Ho Henv Hc. unfold env_ok in Henv.
  apply env_from_snoc in Henv. destruct Henv as [H1 H2]. rewrite run_snoc.
  eapply step_head; eauto.
  - apply (run_inv A h0 Hn Ho tr true); auto using inv_init.
  - simpl. intro Hnil. destruct tr; [reflexivity|discriminate].
Qed.

Lemma head_ok_lemma : forall A h0 tr i fin,
  a_mono A = true -> a_nounfinal A = true -> a_remc A = true -> a_order A = true ->
  env_ok A h0 (tr ++ [i]) = true ->
  commit_fin (run h0 tr) i = Some fin ->
  head_ok h0 (run h0 (tr ++ [i])) fin = true.
Proof.
  intros. unfold head_ok. erewrite head_spec_lemma; eauto.
  destruct (expected h0 _ fin); simpl; auto. apply upd_eqb_eq. reflexivity.
Qed.

(* never above finalised, under the environment assumptions: the head is the untouched initial
   one, or a delivered and not removed event at or below the highest finalised height used *)
Lemma never_above_lemma : forall A h0 tr,
  a_nounfinal A = true -> a_order A = true -> env_ok A h0 tr = true ->
  let st := run h0 tr in
  s_head st = h0 \/
  exists h f, s_head st = Some h /\ s_fmax st = Some f /\ u_l1 h <= f /\ In h (s_live st).
Proof.
  intros A h0 tr Hn Ho Henv st.
  assert (HI : Inv h0 st) by (apply (run_inv A h0 Hn Ho tr true); auto using inv_init).
  destruct HI as [B [[Hh _]|(h & f & Hh & Hf & HhC & Hle & _)]]; auto.
  right. exists h, f. repeat split; auto. apply (b_sub _ B). auto.
Qed.

Lemma pair_eqb_refl : forall p, pair_eqb p p = true.
Proof. intros [a b]. unfold pair_eqb. simpl. rewrite !N.eqb_refl. reflexivity. Qed.

Lemma obs_never_lemma : forall A h0 tr,
  a_nounfinal A = true -> a_order A = true -> env_ok A h0 tr = true ->
  let st := run h0 tr in
  obs_never_ok h0 (s_live st) (s_fmax st) (obs_of (s_head st)) = true.
Proof.
  intros A h0 tr Hn Ho Henv st. subst st. unfold obs_never_ok.
  destruct (never_above_lemma A h0 tr Hn Ho Henv) as [H|(h & f & Hh & Hf & Hle & Hin)].
  - rewrite H. apply orb_true_iff. left. destruct h0; simpl; auto using pair_eqb_refl.
  - apply orb_true_iff. right. rewrite Hh, Hf. simpl. apply existsb_exists.
    exists h. split; auto. rewrite pair_eqb_refl. rewrite andb_true_r. lia.
Qed.
