(* C17 proofs, part E: the stored head never regresses to an older Starknet block. *)
From Coq Require Import List NArith Bool Lia ZifyN ZifyBool.
From V Require Import C17.Model C17.Proofs_A C17.Proofs_B C17.Proofs_C C17.Proofs_D.
Import ListNotations.
Open Scope N_scope.

(* every buffered entry is at least as new (L2) as the stored head *)
Definition M1 (st : state) : Prop :=
  forall h, s_head st = Some h -> forall k v, In (k, v) (s_buf st) -> u_l2 h <= u_l2 v.
(* the buffer is L2-sorted by L1 block *)
Definition M2 (st : state) : Prop :=
  forall k1 v1 k2 v2, In (k1, v1) (s_buf st) -> In (k2, v2) (s_buf st) -> k1 < k2 ->
  u_l2 v1 <= u_l2 v2.

Definition step_mono (st st' : state) : Prop :=
  forall a b, s_head st = Some a -> s_head st' = Some b -> u_l2 a <= u_l2 b.

Lemma commit_mono : forall fin st, M1 st -> M2 st ->
  M1 (commit fin st) /\ M2 (commit fin st) /\ step_mono st (commit fin st).
Proof.
  intros fin st H1 H2. split; [|split].
  - intros h Hh k' v' Hin. apply in_commit_buf in Hin. destruct Hin as [Hin Hk'].
    rewrite commit_head_eq in Hh.
    destruct (snd (pick fin (s_buf st) 0 None)) as [v|] eqn:P.
    + inversion Hh; subst h. destruct (pick_some _ _ _ P) as (k & Hv & Hk & _).
      apply (H2 k v k' v'); auto. lia.
    + eapply H1; eauto.
  - intros k1 v1 k2 v2 Ha Hb. apply in_commit_buf in Ha, Hb. destruct Ha, Hb. eapply H2; eauto.
  - intros a b Ha Hb. rewrite commit_head_eq in Hb.
    destruct (snd (pick fin (s_buf st) 0 None)) as [v|] eqn:P.
    + inversion Hb; subst b. destruct (pick_some _ _ _ P) as (k & Hv & _). eapply H1; eauto.
    + rewrite Ha in Hb. inversion Hb. lia.
Qed.

Lemma scan_fail_above : forall fuel canon fin1 chunk fl i to b dl b' dl',
  scan fuel canon fin1 chunk fl i to b dl = (b', dl', false) ->
  exists evs, dl' = dl ++ evs /\ forall e, In e evs -> fin1 < u_l1 e.
Proof.
  induction fuel as [|fuel IH]; intros canon fin1 chunk fl i to b dl b' dl' H; simpl in H.
  - inversion H; subst. exists []. rewrite app_nil_r. split; auto. intros ? [].
  - destruct (match fl with Some j => Nat.eqb i j | None => false end).
    + inversion H; subst. exists []. rewrite app_nil_r. split; auto. intros ? [].
    + set (from := if chunk <? to + 1 then to + 1 - chunk else 0) in *.
      set (evs := filter (in_range from to) canon) in *.
      destruct (existsb (fun e => u_l1 e <=? fin1) evs || (from =? 0)) eqn:E.
      * inversion H.
      * apply IH in H. destruct H as (evs2 & H1 & H2).
        exists (evs ++ evs2). rewrite H1, app_assoc. split; auto.
        intros e He. apply in_app_or in He. destruct He as [He|He]; auto.
        apply orb_false_iff in E. destruct E as [E _].
        destruct (N.le_gt_cases (u_l1 e) fin1) as [Hc|Hc]; auto.
        assert (existsb (fun e => u_l1 e <=? fin1) evs = true).
        { apply existsb_exists. exists e. split; auto. lia. }
        congruence.
Qed.

Lemma scan_cover : forall fuel canon fin1 chunk fl i to b dl b' dl',
  scan fuel canon fin1 chunk fl i to b dl = (b', dl', true) ->
  forall x, In x canon -> u_l1 x <= to ->
  In x dl' \/ exists e, In e dl' /\ u_l1 e <= fin1 /\ u_l1 x < u_l1 e.
Proof.
  induction fuel as [|fuel IH]; intros canon fin1 chunk fl i to b dl b' dl' H x Hx Hxto; simpl in H.
  - inversion H.
  - destruct (match fl with Some j => Nat.eqb i j | None => false end); [inversion H|].
    set (from := if chunk <? to + 1 then to + 1 - chunk else 0) in *.
    set (evs := filter (in_range from to) canon) in *.
    assert (Hin : from <= u_l1 x -> In x evs).
    { intro Hf. apply filter_In. split; auto. unfold in_range. lia. }
    destruct (existsb (fun e => u_l1 e <=? fin1) evs || (from =? 0)) eqn:E.
    + inversion H; subst.
      destruct (N.le_gt_cases from (u_l1 x)) as [Hc|Hc].
      * left. apply in_or_app. auto.
      * right. apply orb_true_iff in E. destruct E as [E|E]; [|lia].
        apply existsb_exists in E. destruct E as (e & He & Hle).
        exists e. split; [apply in_or_app; auto|]. split; [lia|].
        apply filter_In in He. destruct He as [_ Hr]. unfold in_range in Hr. lia.
    + destruct (N.le_gt_cases from (u_l1 x)) as [Hc|Hc].
      * left. pose proof (scan_shape _ _ _ _ _ _ _ _ _ _ _ _ H) as (evs2 & H1 & _).
        rewrite H1. apply in_or_app. left. apply in_or_app. auto.
      * apply (IH _ _ _ _ _ _ _ _ _ _ H x Hx).
        apply orb_false_iff in E. destruct E as [_ E]. lia.
Qed.

Lemma consistent_spec : forall canon a b, consistent canon = true ->
  In a canon -> In b canon -> u_l1 a < u_l1 b -> u_l2 a <= u_l2 b.
Proof.
  intros canon a b H Ha Hb Hlt. unfold consistent in H. rewrite forallb_forall in H.
  specialize (H _ Ha). rewrite forallb_forall in H. specialize (H _ Hb).
  apply orb_true_iff in H. destruct H as [H|H]; lia.
Qed.

Section Mono.
Variable A : assume.
Variable h0 : option upd.
Hypothesis Hnounfinal : a_nounfinal A = true.
Hypothesis Horder : a_order A = true.
Hypothesis Hmono : a_mono A = true.
Hypothesis Hl2 : a_l2 A = true.


Lemma anchored_spec : forall h canon latest fin1, h0 = Some h ->
  h0_anchored h0 canon latest fin1 = true ->
  u_l1 h <= fin1 /\ fin1 <= latest /\ (exists x, In x canon /\ u_l1 x = u_l1 h) /\
  (forall v, In v canon -> u_l1 h <= u_l1 v -> u_l2 h <= u_l2 v).
Proof.
  intros h canon latest fin1 Hh H. rewrite Hh in H. simpl in H.
  apply andb_prop in H as [H H4]. apply andb_prop in H as [H H3]. apply andb_prop in H as [H1 H2].
  split; [lia|]. split; [lia|]. split.
  - apply existsb_exists in H3. destruct H3 as (x & Hx & He). exists x. split; auto. lia.
  - intros v Hv Hle. rewrite forallb_forall in H4. specialize (H4 _ Hv).
    apply orb_true_iff in H4. destruct H4; lia.
Qed.

Lemma catchup_m : forall canon latest fin1 chunk fl fin2,
  env_step A h0 true (init h0) (CatchUp canon latest fin1 chunk fl fin2) = true ->
  let st' := step (init h0) (CatchUp canon latest fin1 chunk fl fin2) in
  M1 st' /\ M2 st' /\ step_mono (init h0) st'.
Proof.
  intros canon latest fin1 chunk fl fin2 Henv st'. subst st'.
  simpl in Henv. rewrite Hmono, Hl2 in Henv. simpl in Henv.
  apply andb_prop in Henv as [Hf12 Hc]. apply andb_prop in Hc as [Hcons Hanch].
  apply N.leb_le in Hf12.
  destruct (scan_of (init h0) canon latest fin1 chunk fl) as [[bf dl] ok] eqn:Hs.
  rewrite (step_catchup _ _ _ _ _ _ fin2 _ _ _ Hs).
  pose proof (scan_of_canon _ _ _ _ _ _ _ _ _ Hs) as Hdl.
  destruct (inv_init h0) as [B0 [V0|S0]]; [|destruct S0 as (h & f & _ & Hf0 & _); discriminate].
  destruct (delivers_virgin h0 dl _ B0 V0) as [B1 [Hh1 Hcov1]].
  set (st1 := delivers (init h0) dl) in *.
  assert (HC : s_cview st1 = dl) by (unfold st1; rewrite delivers_eq; reflexivity).
  assert (Hent : forall k v, In (k, v) (s_buf st1) -> In v canon /\ In v dl /\ u_l1 v = k).
  { intros k v Hin. destruct (base_key _ _ _ B1 Hin) as [Hv Hk]. rewrite HC in Hv.
    destruct (Hdl _ Hv). auto. }
  assert (HM2 : M2 st1).
  { intros k1 v1 k2 v2 Ha Hb Hlt. destruct (Hent _ _ Ha) as (Ca & _ & Ka).
    destruct (Hent _ _ Hb) as (Cb & _ & Kb). apply (consistent_spec canon); auto. lia. }
  destruct ok.
  - (* scan completed: setL1Head(fin2) *)
    split; [|split].
    + intros h Hh k' v' Hin. apply in_commit_buf in Hin. destruct Hin as [Hin Hk'].
      rewrite commit_head_eq in Hh.
      destruct (snd (pick fin2 (s_buf st1) 0 None)) as [v|] eqn:P.
      * inversion Hh; subst h. destruct (pick_some _ _ _ P) as (k & Hv & Hk & _).
        apply (HM2 k v k' v'); auto. lia.
      * rewrite Hh1 in Hh. destruct (anchored_spec _ _ _ _ Hh Hanch) as (A1 & A2 & _ & A4).
        destruct (Hent _ _ Hin) as (Cv & _ & Kv). apply A4; auto. lia.
    + intros k1 v1 k2 v2 Ha Hb. apply in_commit_buf in Ha, Hb. destruct Ha, Hb. eapply HM2; eauto.
    + intros a b Ha Hb. simpl in Ha. rewrite commit_head_eq in Hb.
      destruct (snd (pick fin2 (s_buf st1) 0 None)) as [v|] eqn:P.
      * inversion Hb; subst b. destruct (pick_some _ _ _ P) as (k & Hv & Hk & Hmax).
        destruct (anchored_spec _ _ _ _ Ha Hanch) as (A1 & A2 & (x & Hx & Hxa) & A4).
        destruct (Hent _ _ Hv) as (Cv & _ & Kv). apply A4; auto.
        assert (Hy : exists y, In y dl /\ u_l1 a <= u_l1 y /\ u_l1 y <= fin2).
        { unfold scan_of in Hs.
          destruct (scan_cover _ _ _ _ _ _ _ _ _ _ _ Hs x Hx ltac:(lia)) as [Hd|(e & He & He1 & He2)].
          - exists x. repeat split; auto; lia.
          - exists e. repeat split; auto; lia. }
        destruct Hy as (y & Hy & Hy1 & Hy2).
        assert (Hky : In (u_l1 y) (keys (s_buf st1))) by (apply Hcov1; rewrite HC; auto).
        apply in_keys in Hky. destruct Hky as (v'' & Hv''). specialize (Hmax _ _ Hv'' Hy2). lia.
      * rewrite Hh1, Ha in Hb. inversion Hb. lia.
  - (* scan failed: the delivered events stay buffered, no commit *)
    split; [|split]; auto.
    + intros h Hh k v Hin. fold st1 in Hh. rewrite Hh1 in Hh.
      destruct (anchored_spec _ _ _ _ Hh Hanch) as (A1 & A2 & _ & A4).
      destruct (Hent _ _ Hin) as (Cv & Dv & Kv). apply A4; auto.
      unfold scan_of in Hs. apply scan_fail_above in Hs. destruct Hs as (evs & E1 & E2).
      simpl in E1. subst evs. specialize (E2 _ Dv). lia.
    + intros a b Ha Hb. simpl in Ha. fold st1 in Hb. rewrite Hh1, Ha in Hb. inversion Hb. lia.
Qed.

Lemma step_m : forall first st i,
  Inv h0 st -> M1 st -> M2 st -> (first = true -> st = init h0) ->
  env_step A h0 first st i = true ->
  M1 (step st i) /\ M2 (step st i) /\ step_mono st (step st i).
Proof.
  intros first st i HI H1 H2 Hfirst Henv.
  destruct i as [e|e|fin|canon latest fin1 chunk fl fin2|].
  - (* Upd *)
    simpl in Henv. rewrite Horder, Hl2 in Henv. simpl in Henv.
    apply andb_prop in Henv as [Ho Hl]. apply andb_prop in Hl as [Hl Hh0].
    unfold le_all_l1 in Ho. unfold le_all_l2 in Hl. rewrite forallb_forall in Ho, Hl.
    destruct HI as [B HS].
    assert (HbL : forall k v, In (k, v) (s_buf st) -> In v (s_live st) /\ u_l1 v = k).
    { intros k v Hin. destruct (base_key _ _ _ B Hin). split; auto. apply (b_sub _ B); auto. }
    split; [|split].
    + intros h Hh k v Hin. simpl in Hh, Hin. apply in_apply_put in Hin.
      destruct Hin as [[Hk Hv]|[Hk Hin]]; [|eapply H1; eauto]. subst v.
      destruct HS as [[Hv0 _]|(h' & f & Hh' & _ & HhC & _)].
      * rewrite Hh in Hv0. subst h0. simpl in Hh0. lia.
      * rewrite Hh in Hh'. inversion Hh'; subst h'.
        assert (In h (s_live st)) by (apply (b_sub _ B); auto). specialize (Hl _ H). lia.
    + intros k1 v1 k2 v2 Ha Hb Hlt. simpl in Ha, Hb. apply in_apply_put in Ha, Hb.
      destruct Ha as [[Ka Va]|[Ka Ha]], Hb as [[Kb Vb]|[Kb Hb]].
      * lia.
      * subst. destruct (HbL _ _ Hb) as [HvL Hvk]. specialize (Ho _ HvL). lia.
      * subst. destruct (HbL _ _ Ha) as [HvL Hvk]. specialize (Hl _ HvL). lia.
      * eapply H2; eauto.
    + intros a b Ha Hb. simpl in Hb. rewrite Ha in Hb. inversion Hb. lia.
  - (* Rem *)
    split; [|split].
    + intros h Hh k v Hin. simpl in Hh, Hin. apply in_apply_rem in Hin. destruct Hin. eapply H1; eauto.
    + intros k1 v1 k2 v2 Ha Hb. simpl in Ha, Hb. apply in_apply_rem in Ha, Hb. destruct Ha, Hb.
      eapply H2; eauto.
    + intros a b Ha Hb. simpl in Hb. rewrite Ha in Hb. inversion Hb. lia.
  - rewrite step_tick. apply commit_mono; auto.
  - (* CatchUp *)
    assert (Hf : first = true).
    { simpl in Henv. apply andb_prop in Henv as [Henv _]. apply andb_prop in Henv as [Hf _]. auto. }
    specialize (Hfirst Hf). subst st first. apply catchup_m; auto.
  - simpl. split; [|split]; auto. intros a b Ha Hb. rewrite Ha in Hb. inversion Hb. lia.
Qed.

Lemma run_m : forall tr first st,
  Inv h0 st -> M1 st -> M2 st -> (first = true -> st = init h0) ->
  env_from A h0 first st tr = true ->
  Inv h0 (fold_left step tr st) /\ M1 (fold_left step tr st) /\ M2 (fold_left step tr st).
Proof.
  induction tr as [|i tr IH]; intros first st HI H1 H2 Hf Henv; simpl; auto.
  simpl in Henv. apply andb_prop in Henv as [E1 E2].
  destruct (step_m first st i HI H1 H2 Hf E1) as (N1 & N2 & _).
  apply (IH false); auto.
  - eapply step_inv; eauto.
  - discriminate.
Qed.
End Mono.

Lemma m_init : forall h0, M1 (init h0) /\ M2 (init h0).
Proof.
  intro h0. split.
  - intros h Hh k v Hin. simpl in Hin. contradiction.
  - intros k1 v1 k2 v2 Ha. simpl in Ha. contradiction.
Qed.

Lemma head_stays : forall st i a, s_head st = Some a -> exists b, s_head (step st i) = Some b.
Proof.
  intros st i a Ha. destruct i as [e|e|fin|canon latest fin1 chunk fl fin2|]; simpl; eauto.
  - change (exists b, s_head (commit fin st) = Some b). rewrite commit_head_eq.
    destruct (snd (pick fin (s_buf st) 0 None)); eauto.
  - change (exists b, s_head (step st (CatchUp canon latest fin1 chunk fl fin2)) = Some b).
    destruct (scan_of st canon latest fin1 chunk fl) as [[bf dl] ok] eqn:Hs.
    rewrite (step_catchup _ _ _ _ _ _ fin2 _ _ _ Hs).
    assert (Hd : s_head (delivers st dl) = Some a) by (rewrite delivers_eq; simpl; auto).
    destruct ok; eauto. rewrite commit_head_eq.
    destruct (snd (pick fin2 (s_buf (delivers st dl)) 0 None)); eauto.
Qed.

Lemma monotone_l2_lemma : forall A h0 tr i a b,
  a_mono A = true -> a_nounfinal A = true -> a_order A = true -> a_l2 A = true ->
  env_ok A h0 (tr ++ [i]) = true ->
  s_head (run h0 tr) = Some a -> s_head (run h0 (tr ++ [i])) = Some b -> u_l2 a <= u_l2 b.
Proof.
  intros A h0 tr i a b Hm Hn Ho Hl Henv Ha Hb. unfold env_ok in Henv.
  apply env_from_snoc in Henv. destruct Henv as [E1 E2]. rewrite run_snoc in Hb.
  destruct (m_init h0) as [I1 I2].
  destruct (run_m A h0 Hn Ho Hm Hl tr true (init h0) (inv_init h0) I1 I2 (fun _ => eq_refl) E1)
    as (HI & H1 & H2).
  assert (Hf : true && is_nil tr = true -> run h0 tr = init h0).
  { simpl. intro Hnil. destruct tr; [reflexivity|discriminate]. }
  destruct (step_m A h0 Hn Ho Hm Hl _ _ i HI H1 H2 Hf E2) as (_ & _ & Hs).
  apply (Hs a b); auto.
Qed.

Lemma obs_mono_lemma : forall A h0 tr i,
  a_mono A = true -> a_nounfinal A = true -> a_order A = true -> a_l2 A = true ->
  env_ok A h0 (tr ++ [i]) = true ->
  obs_mono_ok (obs_of (s_head (run h0 tr))) (obs_of (s_head (run h0 (tr ++ [i])))) = true.
Proof.
  intros A h0 tr i Hm Hn Ho Hl Henv.
  destruct (s_head (run h0 tr)) as [a|] eqn:Ha; simpl; auto.
  destruct (head_stays _ i _ Ha) as (b & Hb). rewrite <- run_snoc in Hb. rewrite Hb. simpl.
  pose proof (monotone_l2_lemma A h0 tr i a b Hm Hn Ho Hl Henv Ha Hb). lia.
Qed.

(* over any stretch of inputs, not only one step *)
Lemma env_from_prefix : forall A h0 t1 t2 first st,
  env_from A h0 first st (t1 ++ t2) = true -> env_from A h0 first st t1 = true.
Proof.
  induction t1 as [|j t1 IH]; intros t2 first st H; simpl in *; auto.
  apply andb_prop in H as [H1 H2]. rewrite H1. simpl. eapply IH; eauto.
Qed.

Lemma monotone_l2_multi : forall A h0 t2 t1 a b,
  a_mono A = true -> a_nounfinal A = true -> a_order A = true -> a_l2 A = true ->
  env_ok A h0 (t1 ++ t2) = true ->
  s_head (run h0 t1) = Some a -> s_head (run h0 (t1 ++ t2)) = Some b -> u_l2 a <= u_l2 b.
Proof.
  induction t2 as [|i t2 IH] using rev_ind; intros t1 a b Hm Hn Ho Hl Henv Ha Hb.
  - rewrite app_nil_r in Hb. rewrite Ha in Hb. inversion Hb. lia.
  - rewrite app_assoc in Henv, Hb.
    assert (Henv' : env_ok A h0 (t1 ++ t2) = true) by (eapply env_from_prefix; eauto).
    destruct (s_head (run h0 (t1 ++ t2))) as [c|] eqn:Hc.
    + assert (u_l2 a <= u_l2 c) by (eapply IH; eauto).
      assert (u_l2 c <= u_l2 b) by (eapply (monotone_l2_lemma A h0 (t1 ++ t2) i); eauto).
      lia.
    + exfalso. clear IH Hb Henv.
      assert (Hgo : forall t st a0, s_head st = Some a0 -> exists c, s_head (fold_left step t st) = Some c).
      { induction t as [|j t IHt]; intros st a0 Hst; simpl; eauto.
        destruct (head_stays st j _ Hst) as (c & Hcc). destruct (IHt _ _ Hcc) as (d & Hd). eauto. }
      unfold run in Hc. rewrite fold_left_app in Hc.
      destruct (Hgo t2 _ _ Ha) as (c & Hcc). unfold run in Hcc. congruence.
Qed.
