(* C17 proofs, part F: "never above the finalised height" needs no environment assumption. *)
From Coq Require Import List NArith Bool Lia ZifyN ZifyBool.
From V Require Import C17.Model C17.Proofs_A C17.Proofs_B C17.Proofs_C C17.Proofs_D.
Import ListNotations.
Open Scope N_scope.

Definition W (h0 : option upd) (st : state) : Prop :=
  (forall k v, In (k, v) (s_buf st) -> u_l1 v = k) /\
  (s_head st = h0 \/ exists h f, s_head st = Some h /\ s_fmax st = Some f /\ u_l1 h <= f).

Lemma w_upd : forall h0 st e, W h0 st -> W h0 (step st (Upd e)).
Proof.
  intros h0 st e [Hb Hh]. split; simpl; auto.
  intros k v Hin. apply in_apply_put in Hin. destruct Hin as [[H1 H2]|[_ H]]; [subst; auto|eauto].
Qed.

Lemma w_rem : forall h0 st e, W h0 st -> W h0 (step st (Rem e)).
Proof.
  intros h0 st e [Hb Hh]. split; simpl; auto.
  intros k v Hin. apply in_apply_rem in Hin. destruct Hin. eauto.
Qed.

Lemma w_commit : forall h0 fin st, W h0 st -> W h0 (commit fin st).
Proof.
  intros h0 fin st [Hb Hh]. destruct (commit_fields fin st) as (_ & _ & EF).
  destruct (fmax_bump_ge (s_fmax st) fin) as (g & Hg & Hg1 & Hg2). split.
  - intros k v Hin. apply in_commit_buf in Hin. destruct Hin. eauto.
  - rewrite commit_head_eq, EF, Hg.
    destruct (snd (pick fin (s_buf st) 0 None)) as [v|] eqn:P.
    + right. destruct (pick_some _ _ _ P) as (k & Hv & Hk & _). specialize (Hb _ _ Hv).
      exists v, g. repeat split; auto. lia.
    + destruct Hh as [Hh|(h & f & H1 & H2 & H3)]; auto.
      right. exists h, g. repeat split; auto. specialize (Hg2 _ H2). lia.
Qed.

Lemma w_delivers : forall h0 evs st, W h0 st -> W h0 (delivers st evs).
Proof.
  induction evs as [|e evs IH]; intros st H; simpl; auto. apply IH. apply w_upd. auto.
Qed.

Lemma w_step : forall h0 st i, W h0 st -> W h0 (step st i).
Proof.
  intros h0 st i H. destruct i as [e|e|fin|canon latest fin1 chunk fl fin2|].
  - apply w_upd; auto.
  - apply w_rem; auto.
  - rewrite step_tick. apply w_commit; auto.
  - destruct (scan_of st canon latest fin1 chunk fl) as [[bf dl] ok] eqn:Hs.
    rewrite (step_catchup _ _ _ _ _ _ fin2 _ _ _ Hs).
    destruct ok; [apply w_commit|]; apply w_delivers; auto.
  - exact H.
Qed.

Lemma never_above_uncond : forall h0 tr,
  let st := run h0 tr in
  s_head st = h0 \/ exists h f, s_head st = Some h /\ s_fmax st = Some f /\ u_l1 h <= f.
Proof.
  intros h0 tr st.
  assert (Hgo : forall t s, W h0 s -> W h0 (fold_left step t s)).
  { induction t as [|j t IH]; intros s Hs; simpl; auto. apply IH. apply w_step. auto. }
  assert (W0 : W h0 (init h0)) by (split; simpl; auto; intros ? ? []).
  destruct (Hgo tr _ W0) as [_ H]. exact H.
Qed.
