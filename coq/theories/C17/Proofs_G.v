(* C17 proofs, part G: the geth adapter composed with the client. *)
From Coq Require Import List NArith Bool Lia.
From V Require Import C17.Model C17.Proofs_A C17.Proofs_B C17.Proofs_C C17.Proofs_D C17.Proofs_E.
Import ListNotations.
Open Scope N_scope.

(* "every event forwarded, in order, flag preserved" *)
Definition forwards_all (fw : glog -> list input) : Prop := forall g, fw g = [decode g].

Lemma fw_real_forwards_all : forwards_all fw_real.
Proof. intro g. reflexivity. Qed.

Lemma sys_trace_ext : forall fw, forwards_all fw -> forall s, sys_trace fw s = sys_trace fw_real s.
Proof.
  intros fw H s. induction s as [|[g| |i] s IH]; simpl; auto.
  - rewrite H, IH. reflexivity.
  - rewrite IH. reflexivity.
  - rewrite IH. reflexivity.
Qed.

Lemma sys_trace_app : forall fw s1 s2, sys_trace fw (s1 ++ s2) = sys_trace fw s1 ++ sys_trace fw s2.
Proof.
  intros fw s1 s2. induction s1 as [|[g| |i] s1 IH]; simpl; auto.
  - rewrite IH, app_assoc. reflexivity.
  - rewrite IH. reflexivity.
  - rewrite IH. reflexivity.
Qed.

Lemma adapter_faithful : forall gs, sys_trace fw_real (map SLog gs) = map decode gs.
Proof. induction gs as [|g gs IH]; simpl; auto. rewrite IH. reflexivity. Qed.

Lemma decode_flag : forall g,
  decode g = (if g_removed g then Rem (upd_of g) else Upd (upd_of g)) /\
  (g_removed g = true <-> exists e, decode g = Rem e).
Proof.
  intro g. split; [reflexivity|]. unfold decode. destruct (g_removed g); split; intro H; eauto.
  - discriminate.
  - destruct H as (e & H). discriminate.
Qed.

Lemma provider_head_spec : forall fw, forwards_all fw ->
  forall A h0 s i fin,
  a_mono A = true -> a_nounfinal A = true -> a_remc A = true -> a_order A = true ->
  env_ok A h0 (sys_trace fw_real (s ++ [SPoll i])) = true ->
  commit_fin (run h0 (sys_trace fw s)) i = Some fin ->
  s_head (run h0 (sys_trace fw (s ++ [SPoll i]))) =
  expected h0 (s_live (run h0 (sys_trace fw_real (s ++ [SPoll i])))) fin.
Proof.
  intros fw Hfw A h0 s i fin Hm Hn Hr Ho Henv Hc.
  rewrite (sys_trace_ext fw Hfw) in *. rewrite sys_trace_app in *. simpl in *.
  apply (head_spec_lemma A); auto.
Qed.

Lemma provider_monotone : forall fw, forwards_all fw ->
  forall A h0 s1 s2 a b,
  a_mono A = true -> a_nounfinal A = true -> a_order A = true -> a_l2 A = true ->
  env_ok A h0 (sys_trace fw_real (s1 ++ s2)) = true ->
  s_head (run h0 (sys_trace fw s1)) = Some a -> s_head (run h0 (sys_trace fw (s1 ++ s2))) = Some b ->
  u_l2 a <= u_l2 b.
Proof.
  intros fw Hfw A h0 s1 s2 a b Hm Hn Ho Hl Henv Ha Hb.
  rewrite (sys_trace_ext fw Hfw) in *. rewrite sys_trace_app in *.
  eapply monotone_l2_multi; eauto.
Qed.
