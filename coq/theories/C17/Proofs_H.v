(* C17 proofs, part H: the start-up catch-up scan is complete — for every chunk size > 0 it ends
   without error and records the newest canonical update at or below the finalised height. *)
From Coq Require Import List NArith Bool Lia ZifyN ZifyNat ZifyBool.
From V Require Import C17.Model C17.Proofs_A C17.Proofs_B C17.Proofs_C C17.Proofs_D C17.Proofs_E.
Import ListNotations.
Open Scope N_scope.

Lemma lastAt_app : forall A B k,
  lastAt (A ++ B) k = match lastAt B k with Some x => Some x | None => lastAt A k end.
Proof.
  intros A B k. induction B as [|y B IH] using rev_ind.
  - rewrite app_nil_r. reflexivity.
  - rewrite app_assoc, !lastAt_snoc. destruct (u_l1 y =? k); auto.
Qed.

Lemma lastAt_none_iff : forall C k, (forall e, In e C -> u_l1 e <> k) -> lastAt C k = None.
Proof.
  intros C k H. destruct (lastAt C k) as [e|] eqn:E; auto.
  destruct (lastAt_in _ _ _ E) as [Hi Hk]. exfalso. eapply H; eauto.
Qed.

Lemma lastAt_some_ex : forall C k e, In e C -> u_l1 e = k -> exists x, lastAt C k = Some x.
Proof.
  intros C k e Hi Hk. destruct (lastAt C k) as [x|] eqn:E; eauto.
  exfalso. eapply lastAt_none; eauto.
Qed.

(* converse characterisation of the spec function *)
Lemma spec_none_conv : forall L fin, head_spec L fin = None -> forall e, In e L -> fin < u_l1 e.
Proof.
  induction L as [|y L IH] using rev_ind; intros fin H e He; [destruct He|].
  rewrite spec_snoc in H. unfold spec_step in H.
  destruct (u_l1 y <=? fin) eqn:Ey.
  - destruct (head_spec L fin) as [a|]; [destruct (u_l1 a <=? u_l1 y)|]; discriminate.
  - apply in_app_or in He. destruct He as [He|[He|[]]]; [eauto|subst; lia].
Qed.

Lemma spec_char : forall L fin e, head_spec L fin = Some e ->
  (forall x, In x L -> u_l1 x <= fin -> u_l1 x <= u_l1 e) /\ lastAt L (u_l1 e) = Some e.
Proof.
  induction L as [|y L IH] using rev_ind; intros fin e H; [discriminate|].
  rewrite spec_snoc in H. unfold spec_step in H. rewrite lastAt_snoc.
  destruct (u_l1 y <=? fin) eqn:Ey.
  - destruct (head_spec L fin) as [a|] eqn:Ha.
    + destruct (IH _ _ Ha) as [Hmax Hlast]. destruct (spec_in _ _ _ Ha) as [_ Hafin].
      destruct (u_l1 a <=? u_l1 y) eqn:Eay; inversion H; subst e.
      * rewrite N.eqb_refl. split; auto.
        intros x Hx Hxf. apply in_app_or in Hx. destruct Hx as [Hx|[Hx|[]]]; [|subst; lia].
        specialize (Hmax _ Hx Hxf). lia.
      * destruct (u_l1 y =? u_l1 a) eqn:E; [lia|]. split; auto.
        intros x Hx Hxf. apply in_app_or in Hx. destruct Hx as [Hx|[Hx|[]]]; [auto|subst; lia].
    + inversion H; subst e. rewrite N.eqb_refl. split; auto.
      intros x Hx Hxf. apply in_app_or in Hx. destruct Hx as [Hx|[Hx|[]]]; [|subst; lia].
      pose proof (spec_none_conv _ _ Ha _ Hx). lia.
  - destruct (IH _ _ H) as [Hmax Hlast]. destruct (spec_in _ _ _ H) as [_ Hef].
    destruct (u_l1 y =? u_l1 e) eqn:E; [lia|]. split; auto.
    intros x Hx Hxf. apply in_app_or in Hx. destruct Hx as [Hx|[Hx|[]]]; [auto|subst; lia].
Qed.

(* enough fuel: without a failing query the scan ends normally for every chunk size > 0 *)
Lemma scan_terminates : forall fuel canon fin1 chunk i to b dl,
  0 < chunk -> (N.to_nat to < fuel)%nat ->
  snd (scan fuel canon fin1 chunk None i to b dl) = true.
Proof.
  induction fuel as [|fuel IH]; intros canon fin1 chunk i to b dl Hc Hf; [lia|].
  simpl.
  set (from := if chunk <? to + 1 then to + 1 - chunk else 0).
  destruct (existsb (fun e => u_l1 e <=? fin1) (filter (in_range from to) canon) || (from =? 0)) eqn:E; auto.
  apply IH; auto. apply orb_false_iff in E. destruct E as [_ E].
  assert (from <= to) by (subst from; destruct (chunk <? to + 1) eqn:E2; lia).
  lia.
Qed.

Lemma last_chunk : forall canon from to dl k x,
  In x (filter (in_range from to) canon) -> u_l1 x = k ->
  lastAt (dl ++ filter (in_range from to) canon) k = lastAt canon k.
Proof.
  intros canon from to dl k x Hx Hk. rewrite lastAt_app.
  assert (Hr : in_range from to x = true) by (apply filter_In in Hx; tauto).
  rewrite lastAt_filter.
  - destruct (lastAt_some_ex _ _ _ Hx Hk) as (y & Hy). rewrite lastAt_filter in Hy.
    + rewrite Hy. reflexivity.
    + intros e He. unfold in_range in *. rewrite He, <- Hk. exact Hr.
  - intros e He. unfold in_range in *. rewrite He, <- Hk. exact Hr.
Qed.

Lemma scan_last : forall fuel canon fin1 chunk fl i to b dl b' dl' ok,
  scan fuel canon fin1 chunk fl i to b dl = (b', dl', ok) ->
  (forall e, In e dl -> to < u_l1 e) ->
  forall x, In x dl' -> u_l1 x <= to -> lastAt dl' (u_l1 x) = lastAt canon (u_l1 x).
Proof.
  induction fuel as [|fuel IH]; intros canon fin1 chunk fl i to b dl b' dl' ok H Hdl x Hx Hxto;
    simpl in H.
  - inversion H; subst. specialize (Hdl _ Hx). lia.
  - destruct (match fl with Some j => Nat.eqb i j | None => false end).
    + inversion H; subst. specialize (Hdl _ Hx). lia.
    + set (from := if chunk <? to + 1 then to + 1 - chunk else 0) in *.
      set (evs := filter (in_range from to) canon) in *.
      assert (Hft : from <= to + 1) by (subst from; destruct (chunk <? to + 1); lia).
      assert (Hevs : forall e, In e evs -> from <= u_l1 e /\ u_l1 e <= to).
      { intros e He. apply filter_In in He. destruct He as [_ Hr]. unfold in_range in Hr. lia. }
      destruct (existsb (fun e => u_l1 e <=? fin1) evs || (from =? 0)) eqn:E.
      * inversion H; subst. apply in_app_or in Hx. destruct Hx as [Hx|Hx].
        -- specialize (Hdl _ Hx). lia.
        -- eapply last_chunk; eauto.
      * apply orb_false_iff in E. destruct E as [_ E].
        destruct (N.le_gt_cases from (u_l1 x)) as [Hc|Hc].
        -- pose proof (scan_shape _ _ _ _ _ _ _ _ _ _ _ _ H) as (evs2 & H1 & _ & H3).
           subst dl'. rewrite lastAt_app.
           rewrite (lastAt_none_iff evs2).
           ++ apply in_app_or in Hx. destruct Hx as [Hx|Hx].
              ** apply in_app_or in Hx. destruct Hx as [Hx|Hx].
                 --- specialize (Hdl _ Hx). lia.
                 --- eapply last_chunk; eauto.
              ** apply H3 in Hx. destruct Hx as [_ Hx]. lia.
           ++ intros e He. apply H3 in He. destruct He as [_ He]. lia.
        -- apply (IH _ _ _ _ _ _ _ _ _ _ _ H); auto; [|lia].
           intros e He. apply in_app_or in He. destruct He as [He|He].
           ++ specialize (Hdl _ He). lia.
           ++ apply Hevs in He. lia.
Qed.

Lemma catchup_complete : forall h0 canon latest fin1 chunk fin2,
  0 < chunk -> fin1 <= fin2 ->
  let i := CatchUp canon latest fin1 chunk None fin2 in
  commit_fin (init h0) i = Some fin2 /\
  s_head (step (init h0) i) =
  expected h0 (filter (fun e => u_l1 e <=? latest) canon) fin2.
Proof.
  intros h0 canon latest fin1 chunk fin2 Hchunk Hfin i. subst i.
  destruct (scan_of (init h0) canon latest fin1 chunk None) as [[bf dl] ok] eqn:Hs.
  assert (Hok : ok = true).
  { pose proof (scan_terminates (S (N.to_nat latest)) canon fin1 chunk 0 latest [] [] Hchunk ltac:(lia)) as T.
    unfold scan_of in Hs. simpl s_buf in Hs. rewrite Hs in T. exact T. }
  subst ok. split; [simpl; rewrite Hs; reflexivity|].
  rewrite (step_catchup _ _ _ _ _ _ fin2 _ _ _ Hs).
  destruct (inv_init h0) as [B0 [V0|S0]]; [|destruct S0 as (h & f & _ & Hf0 & _); discriminate].
  destruct (delivers_virgin h0 dl _ B0 V0) as [B1 V1].
  rewrite (commit_head h0); [|split; auto|rewrite delivers_eq; reflexivity].
  rewrite delivers_eq. simpl s_cview.
  pose proof (scan_of_canon _ _ _ _ _ _ _ _ _ Hs) as F1.
  unfold scan_of in Hs. simpl s_buf in Hs.
  pose proof (scan_cover _ _ _ _ _ _ _ _ _ _ _ Hs) as F2.
  pose proof (scan_last _ _ _ _ _ _ _ _ _ _ _ _ Hs ltac:(intros ? []))  as F3.
  set (canonL := filter (fun e => u_l1 e <=? latest) canon).
  assert (FL : forall e, In e dl -> In e canonL).
  { intros e He. destruct (F1 _ He). apply filter_In. split; auto. lia. }
  unfold expected. destruct (head_spec canonL fin2) as [x|] eqn:Hx.
  - destruct (spec_in _ _ _ Hx) as [HxL Hxf]. destruct (spec_char _ _ _ Hx) as [Hmax Hlast].
    apply filter_In in HxL. destruct HxL as [HxC HxLat]. apply N.leb_le in HxLat.
    assert (Hxd : In x dl).
    { destruct (F2 x HxC HxLat) as [Hd|(e & He & He1 & He2)]; auto.
      assert (u_l1 e <= u_l1 x) by (apply Hmax; [apply FL; auto | lia]). lia. }
    rewrite (spec_some dl fin2 x); auto.
    rewrite (F3 x Hxd HxLat). rewrite <- Hlast. unfold canonL. symmetry. apply lastAt_filter.
    intros e He. apply N.leb_le. lia.
  - rewrite spec_none; auto. intros e He. apply (spec_none_conv _ _ Hx). apply FL. auto.
Qed.
