(* C17 — property theorems only. Each is closed by [exact] of a lemma from Proofs_*.v and followed
   by Print Assumptions. Quantified over ALL input sequences [tr] (live logs, removal notices,
   finalised-height polls, subscription errors, the start-up catch-up scan with any chunk size and
   any failing log query) and all initial stored heads [h0]; the environment assumptions of the
   property text are the boolean checker [env_ok A h0 tr] with the relevant switches of [A] on. *)
From Coq Require Import List NArith Bool.
From V Require Import C17.Model C17.Proofs_A C17.Proofs_B C17.Proofs_C C17.Proofs_D C17.Proofs_E C17.Proofs_F C17.Proofs_G C17.Proofs_H.
Import ListNotations.
Open Scope N_scope.

(* After every commit point (a ticker poll, or a completed catch-up scan) with finalised height
   [fin], the stored head IS the delivered, not removed, <= fin update with the highest L1 block
   (the one delivered last if several share that block) — or the initial head when there is none.
   Needs: finalised monotone, no removal at/below finalised, removal notices complete, live
   delivery in L1 order. Does NOT need the L2-ordering assumption. *)
Theorem C17_head_spec : forall A h0 tr i fin,
  a_mono A = true -> a_nounfinal A = true -> a_remc A = true -> a_order A = true ->
  env_ok A h0 (tr ++ [i]) = true ->
  commit_fin (run h0 tr) i = Some fin ->
  s_head (run h0 (tr ++ [i])) = expected h0 (s_live (run h0 (tr ++ [i]))) fin.
Proof. exact head_spec_lemma. Qed.
Print Assumptions C17_head_spec.

(* the same, as the boolean predicate the harness evaluates *)
Theorem C17_head_ok : forall A h0 tr i fin,
  a_mono A = true -> a_nounfinal A = true -> a_remc A = true -> a_order A = true ->
  env_ok A h0 (tr ++ [i]) = true ->
  commit_fin (run h0 tr) i = Some fin ->
  head_ok h0 (run h0 (tr ++ [i])) fin = true.
Proof. exact head_ok_lemma. Qed.
Print Assumptions C17_head_ok.

(* At every moment the stored head is the untouched initial one, or a delivered and not removed
   event whose L1 block is at or below the highest finalised height a commit was made with. *)
Theorem C17_never_above_finalised : forall A h0 tr,
  a_nounfinal A = true -> a_order A = true -> env_ok A h0 tr = true ->
  let st := run h0 tr in
  s_head st = h0 \/
  exists h f, s_head st = Some h /\ s_fmax st = Some f /\ u_l1 h <= f /\ In h (s_live st).
Proof. exact never_above_lemma. Qed.
Print Assumptions C17_never_above_finalised.

(* ... and the height bound alone holds for EVERY input sequence, with no assumption on the L1
   node at all (out-of-order logs, un-finalising, missing removal notices, catch-up anywhere):
   the stored head is never an event above the highest finalised height a commit was made with. *)
Theorem C17_never_above_finalised_any_env : forall h0 tr,
  let st := run h0 tr in
  s_head st = h0 \/ exists h f, s_head st = Some h /\ s_fmax st = Some f /\ u_l1 h <= f.
Proof. exact never_above_uncond. Qed.
Print Assumptions C17_never_above_finalised_any_env.

Theorem C17_never_above_obs : forall A h0 tr,
  a_nounfinal A = true -> a_order A = true -> env_ok A h0 tr = true ->
  let st := run h0 tr in
  obs_never_ok h0 (s_live st) (s_fmax st) (obs_of (s_head st)) = true.
Proof. exact obs_never_lemma. Qed.
Print Assumptions C17_never_above_obs.

(* The stored head never regresses to an older Starknet block, over any stretch of inputs. *)
Theorem C17_monotone_l2 : forall A h0 t2 t1 a b,
  a_mono A = true -> a_nounfinal A = true -> a_order A = true -> a_l2 A = true ->
  env_ok A h0 (t1 ++ t2) = true ->
  s_head (run h0 t1) = Some a -> s_head (run h0 (t1 ++ t2)) = Some b -> u_l2 a <= u_l2 b.
Proof. exact monotone_l2_multi. Qed.
Print Assumptions C17_monotone_l2.

Theorem C17_monotone_obs : forall A h0 tr i,
  a_mono A = true -> a_nounfinal A = true -> a_order A = true -> a_l2 A = true ->
  env_ok A h0 (tr ++ [i]) = true ->
  obs_mono_ok (obs_of (s_head (run h0 tr))) (obs_of (s_head (run h0 (tr ++ [i])))) = true.
Proof. exact obs_mono_lemma. Qed.
Print Assumptions C17_monotone_obs.

(* ---------- the hypotheses are satisfiable by a non-trivial history ---------- *)
Definition E (l1 l2 id : N) : upd := mkUpd l1 l2 id.

(* persisted head, chunked catch-up that needs three queries, two events in one L1 block, a
   reorg with removal notices (a poll in between), a resubscription *)
Definition demo : list input :=
  [CatchUp [E 3 1 1; E 8 2 2; E 8 3 3; E 14 4 4] 16 9 4 None 10;
   Upd (E 17 5 5); Upd (E 18 6 6); Upd (E 18 7 7); Tick 12; SubErr;
   Rem (E 18 6 6); Tick 14; Rem (E 18 7 7); Upd (E 18 6 8); Upd (E 19 7 9); Tick 18; Tick 19].

Example demo_env_ok : env_ok all_on (Some (E 3 1 1)) demo = true.
Proof. vm_compute. reflexivity. Qed.
Example demo_heads :
  map (fun n => obs_of (s_head (run (Some (E 3 1 1)) (firstn n demo)))) [0; 1; 5; 8; 12; 13]%nat
  = [Some (1, 1); Some (3, 3); Some (3, 3); Some (4, 4); Some (6, 8); Some (7, 9)].
Proof. vm_compute. reflexivity. Qed.

(* a failing log query leaves the scanned events buffered; the next poll commits them *)
Example demo_failed_scan :
  let tr := [CatchUp [E 3 1 1; E 8 2 2; E 14 4 4] 16 5 4 (Some 3%nat) 5; Tick 9] in
  env_ok all_on None tr = true /\
  obs_of (s_head (run None (firstn 1 tr))) = None /\ obs_of (s_head (run None tr)) = Some (2, 2).
Proof. vm_compute. auto. Qed.

(* ---------- no assumption is decorative: switch one off, the conclusion fails ---------- *)
Definition head_spec_fails (A : assume) (h0 : option upd) (tr : list input) (i : input) : Prop :=
  env_ok A h0 (tr ++ [i]) = true /\
  exists fin, commit_fin (run h0 tr) i = Some fin /\ head_ok h0 (run h0 (tr ++ [i])) fin = false.
Definition regresses (A : assume) (h0 : option upd) (tr : list input) (i : input) : Prop :=
  env_ok A h0 (tr ++ [i]) = true /\
  obs_mono_ok (obs_of (s_head (run h0 tr))) (obs_of (s_head (run h0 (tr ++ [i])))) = false.

(* the L1 node un-finalises: the head stays above the (now lower) finalised height *)
Example C17_mono_needed :
  head_spec_fails (mkAssume false true true true true) None
    [Upd (E 10 1 1); Upd (E 20 2 2); Tick 20] (Tick 10).
Proof. split; [vm_compute; reflexivity | exists 10; vm_compute; auto]. Qed.

(* a finalised log is reorged: the head keeps pointing at the removed event *)
Example C17_nounfinal_needed :
  head_spec_fails (mkAssume true false true true true) None
    [Upd (E 10 1 1); Tick 10; Rem (E 10 1 1)] (Tick 10).
Proof. split; [vm_compute; reflexivity | exists 10; vm_compute; auto]. Qed.

(* two logs in one L1 block, only one removal notice ever arrives: the code drops both *)
Example C17_remc_needed :
  head_spec_fails (mkAssume true true false true true) None
    [Upd (E 10 1 1); Upd (E 10 2 2); Rem (E 10 1 1)] (Tick 10).
Proof. split; [vm_compute; reflexivity | exists 10; vm_compute; auto]. Qed.

(* out-of-order delivery: consumed entries are gone and nothing is compared with the stored head *)
Example C17_order_needed :
  head_spec_fails (mkAssume true true true false true) None
    [Upd (E 15 2 2); Tick 20; Upd (E 10 2 1)] (Tick 20).
Proof. split; [vm_compute; reflexivity | exists 20; vm_compute; auto]. Qed.
Example C17_order_needed_mono :
  regresses (mkAssume true true true false false) None
    [Upd (E 15 2 2); Tick 20; Upd (E 10 1 1)] (Tick 20).
Proof. split; vm_compute; reflexivity. Qed.

(* a later L1 block commits an older L2 block: the head regresses *)
Example C17_l2_needed :
  regresses (mkAssume true true true true false) None
    [Upd (E 10 5 1); Tick 10; Upd (E 11 3 2)] (Tick 11).
Proof. split; vm_compute; reflexivity. Qed.

(* the persisted head is no longer canonical: catch-up replaces it by an older commit *)
Example C17_l2_needed_restart :
  regresses (mkAssume true true true true false) (Some (E 50 7 9)) []
    (CatchUp [E 40 3 1] 60 55 100 None 55).
Proof. split; vm_compute; reflexivity. Qed.

(* finalised height going backwards between the two reads of one catch-up *)
Example C17_mono_needed_catchup :
  regresses (mkAssume false true true true true) (Some (E 8 2 2)) []
    (CatchUp [E 3 1 1; E 8 2 2] 16 9 100 None 5).
Proof. split; vm_compute; reflexivity. Qed.

(* ---------- the geth adapter (l1/geth_l1_state_provider.go) composed with the client ----------
   [s] is what geth delivers (logs incl. removal notices, subscription errors) interleaved with the
   polls. The environment assumptions and the SPEC are stated on the geth-level stream itself
   ([sys_trace fw_real s] is just its image under stateUpdateFromGethContract); the system runs with
   the forwarding loop body [fw]. "Every removal notice is delivered" at provider level is
   [forwards_all fw]: every event forwarded, one for one, in order, Removed flag preserved. *)
Theorem C17_adapter_forwards_all : forwards_all fw_real.
Proof. exact fw_real_forwards_all. Qed.
Print Assumptions C17_adapter_forwards_all.

Theorem C17_adapter_faithful : forall gs, sys_trace fw_real (map SLog gs) = map decode gs.
Proof. exact adapter_faithful. Qed.
Print Assumptions C17_adapter_faithful.

Theorem C17_provider_head_spec : forall fw, forwards_all fw ->
  forall A h0 s i fin,
  a_mono A = true -> a_nounfinal A = true -> a_remc A = true -> a_order A = true ->
  env_ok A h0 (sys_trace fw_real (s ++ [SPoll i])) = true ->
  commit_fin (run h0 (sys_trace fw s)) i = Some fin ->
  s_head (run h0 (sys_trace fw (s ++ [SPoll i]))) =
  expected h0 (s_live (run h0 (sys_trace fw_real (s ++ [SPoll i])))) fin.
Proof. exact provider_head_spec. Qed.
Print Assumptions C17_provider_head_spec.

Theorem C17_provider_monotone_l2 : forall fw, forwards_all fw ->
  forall A h0 s1 s2 a b,
  a_mono A = true -> a_nounfinal A = true -> a_order A = true -> a_l2 A = true ->
  env_ok A h0 (sys_trace fw_real (s1 ++ s2)) = true ->
  s_head (run h0 (sys_trace fw s1)) = Some a -> s_head (run h0 (sys_trace fw (s1 ++ s2))) = Some b ->
  u_l2 a <= u_l2 b.
Proof. exact provider_monotone. Qed.
Print Assumptions C17_provider_monotone_l2.

(* [forwards_all] is needed: a forwarder that swallows removal notices lets a reorged commit
   become the L1 head as soon as its block number is finalised — although the geth-level stream
   satisfies every environment assumption. *)
Example C17_provider_forward_removed_needed :
  let s := [SLog (mkGlog 10 1 1 false); SLog (mkGlog 10 1 1 true)] in
  let i := Tick 10 in
  env_ok all_on None (sys_trace fw_real (s ++ [SPoll i])) = true /\
  commit_fin (run None (sys_trace fw_drop_removed s)) i = Some 10 /\
  obs_of (s_head (run None (sys_trace fw_drop_removed (s ++ [SPoll i])))) = Some (1, 1) /\
  expected None (s_live (run None (sys_trace fw_real (s ++ [SPoll i])))) 10 = None.
Proof. vm_compute. auto. Qed.

(* ---------- the start-up catch-up is complete ----------
   On a fresh client, for EVERY chunk size > 0, every canonical history, latest and finalised
   heights (fin1 read before the scan, fin2 inside setL1Head, fin1 <= fin2), when no log query
   fails: the scan ends without error and the recorded head is the newest canonical update at or
   below the finalised height among the blocks up to [latest] — however many chunks below the chunk
   containing the finalised height it lies — or the previous head if there is none. *)
Theorem C17_catchup_complete : forall h0 canon latest fin1 chunk fin2,
  0 < chunk -> fin1 <= fin2 ->
  let i := CatchUp canon latest fin1 chunk None fin2 in
  commit_fin (init h0) i = Some fin2 /\
  s_head (step (init h0) i) =
  expected h0 (filter (fun e => u_l1 e <=? latest) canon) fin2.
Proof. exact catchup_complete. Qed.
Print Assumptions C17_catchup_complete.

(* updates in L1 blocks 3 and 20, latest 25, finalised 12: the chunk that contains the finalised
   height is empty for the small chunk sizes; the scan must go on below it *)
Example catchup_below_the_finalised_chunk :
  map (fun chunk => obs_of (s_head (step (init None)
         (CatchUp [E 3 25 1; E 20 50 2] 25 12 chunk None 12))))
      [1; 2; 3; 5; 10; 13; 1000]
  = repeat (Some (25, 1)) 7.
Proof. vm_compute. reflexivity. Qed.
