(* C18 (HeadState.v, re-exported by Model.v) — migration/state/headstate at batch granularity.
   Definitions only; proofs are in Proofs_HeadState.v; everything here is extracted to OCaml.

   The code (migrator.go, ingestor.go, committer.go, pipeline/pipeline.go):
     Before(state)  : ignores the state
     Migrate        : source = the keys of the ContractClassHash bucket in iterator (ascending) order;
                      4 ingestors, each owns one db.Batch; for an address it receives:
                         HasContract(addr)              -> skip
                         class hash   (must exist)
                         nonce        (missing -> zero)
                         deploy height (missing -> error)
                         state.WriteContract(batch, addr, nonce, classHash, height)       [StorageRoot left zero]
                      a stage error cancels the pipeline and is remembered, the worker goes on with the
                      addresses still handed to it; every worker hands its batch to the single committer when
                      its input is closed (also after an error, also when empty); committer: batch.Write() each;
                      result: source/stage error -> ([]byte{}, err)                -> the runner aborts, stores nothing
                              !IsDone            -> ([]byte{}, wrapped ctx error)  -> the runner stores the token []
                              else DeleteRange(ContractClassHash); DeleteRange(ContractNonce);
                                   DeleteRange(ContractDeploymentHeight)  — three separate writes — and
                                   (nil, first DeleteRange error)
   The database is abstracted to one row per address that occurs in any of the four buckets, ascending. *)
From Coq Require Import List NArith Bool Arith.
From V Require Import C18.Runner.
Import ListNotations.

Definition hrec := (N * N * N)%type.        (* Contract record: nonce, class hash, deployed height *)
Record hrow := { r_addr : N;
                 r_class : option N;        (* ContractClassHash[addr] *)
                 r_nonce : option N;        (* ContractNonce[addr] *)
                 r_height : option N;       (* ContractDeploymentHeight[addr] *)
                 r_contract : option hrec }.  (* Contract[addr] *)
Definition hsdb := list hrow.

Definition mem_N (a : N) (l : list N) : bool := existsb (N.eqb a) l.
Definition in_batches_N (bs : list (list N)) (a : N) : bool := existsb (mem_N a) bs.

Inductive hs_ing :=
| IngNone                   (* no ContractClassHash entry: the source never emits this address *)
| IngSkip                   (* HasContract: already migrated *)
| IngPut (r : hrec)         (* WriteContract *)
| IngErr.                   (* GetContractDeploymentHeight: key not found *)

(* ingestor.go ingestAddress *)
Definition hs_ingest (r : hrow) : hs_ing :=
  match r_class r with
  | None => IngNone
  | Some c =>
      match r_contract r with
      | Some _ => IngSkip
      | None => match r_height r with
                | None => IngErr
                | Some h => IngPut (match r_nonce r with Some n => n | None => 0%N end, c, h)
                end
      end
  end.

Definition is_put (r : hrow) : bool := match hs_ingest r with IngPut _ => true | _ => false end.
Definition is_err (r : hrow) : bool := match hs_ingest r with IngErr => true | _ => false end.
Definition has_class (r : hrow) : bool := is_some (r_class r).

Definition with_contract (r : hrow) (c : option hrec) : hrow :=
  {| r_addr := r_addr r; r_class := r_class r; r_nonce := r_nonce r; r_height := r_height r; r_contract := c |}.

Definition hs_put_row (r : hrow) : hrow :=
  match hs_ingest r with IngPut rc => with_contract r (Some rc) | _ => r end.

(* one batch.Write(): the Contract records of the addresses in the batch *)
Definition hs_commit (db : hsdb) (b : list N) : hsdb :=
  map (fun r => if mem_N (r_addr r) b then hs_put_row r else r) db.
Definition hs_commits (db : hsdb) (bs : list (list N)) : hsdb := fold_left hs_commit bs db.
Definition hs_commit_all (db : hsdb) : hsdb := map hs_put_row db.

(* wipeDeprecatedBuckets: the first k of DeleteRange(ContractClassHash), DeleteRange(ContractNonce),
   DeleteRange(ContractDeploymentHeight); an address left without any entry has no row *)
Definition hs_clear (k : nat) (r : hrow) : hrow :=
  {| r_addr := r_addr r;
     r_class := if Nat.leb 1 k then None else r_class r;
     r_nonce := if Nat.leb 2 k then None else r_nonce r;
     r_height := if Nat.leb 3 k then None else r_height r;
     r_contract := r_contract r |}.
Definition hs_nonempty (r : hrow) : bool :=
  is_some (r_class r) || is_some (r_nonce r) || is_some (r_height r) || is_some (r_contract r).
Definition hs_wipe (k : nat) (db : hsdb) : hsdb :=
  match k with O => db | _ => filter hs_nonempty (map (hs_clear k) db) end.

(* the uninterrupted migration as a function *)
Definition hs_complete (db : hsdb) : hsdb := hs_wipe 3 (hs_commit_all db).

Inductive hs_end :=
| HEDone             (* (nil, nil) *)
| HEInterrupted      (* ([]byte{}, ctx error): the runner stores the empty token *)
| HEError            (* (_, err) *)
| HECrash.           (* the process died *)
Record hs_attempt := { ha_batches : list (list N);    (* addresses put, per written batch, in commit order *)
                       ha_wipes : nat;                (* DeleteRange calls that were executed *)
                       ha_end : hs_end }.

Definition hs_classes (db : hsdb) : list hrow := filter has_class db.

(* every address in a written batch was put by an ingestor: it is among the first k addresses of
   the source and ingestAddress reached WriteContract *)
Definition hs_batches_ok (db : hsdb) (k : nat) (bs : list (list N)) : bool :=
  let out := firstn k (hs_classes db) in
  forallb (forallb (fun a => existsb (fun r => N.eqb (r_addr r) a && is_put r) out)) bs.

(* the first k addresses of the source were ingested without error and everything they put is written *)
Definition hs_covered (db : hsdb) (k : nat) (bs : list (list N)) : bool :=
  forallb (fun r => negb (is_err r) && (negb (is_put r) || in_batches_N bs (r_addr r)))
          (firstn k (hs_classes db)).

(* can Migrate on database db behave like a? *)
Definition hs_attempt_ok (db : hsdb) (a : hs_attempt) : bool :=
  let bs := ha_batches a in
  let n := length (hs_classes db) in
  match ha_end a with
  | HEDone => Nat.eqb (ha_wipes a) 3 && hs_batches_ok db n bs && hs_covered db n bs
  | HEInterrupted =>
      Nat.eqb (ha_wipes a) 0 &&
      existsb (fun k => hs_batches_ok db k bs && hs_covered db k bs) (seq 0 n)      (* k < n: else IsDone *)
  | HEError =>
      hs_batches_ok db n bs &&
      match ha_wipes a with
      | 0 => true
      | 1 | 2 => hs_covered db n bs
      | _ => false
      end
  | HECrash =>
      hs_batches_ok db n bs &&
      match ha_wipes a with
      | 0 => true
      | 1 | 2 | 3 => hs_covered db n bs
      | _ => false
      end
  end.

(* persistent state: the four buckets, whether the (empty) resume token is stored, the applied bit *)
Record hs_pstate := { hp_db : hsdb; hp_tok : bool; hp_applied : bool }.

Definition hs_apply (s : hs_pstate) (a : hs_attempt) : hs_pstate :=
  if hp_applied s then s
  else
    let db' := hs_wipe (ha_wipes a) (hs_commits (hp_db s) (ha_batches a)) in
    match ha_end a with
    | HEDone => {| hp_db := db'; hp_tok := false; hp_applied := true |}
    | HEInterrupted => {| hp_db := db'; hp_tok := true; hp_applied := false |}
    | HEError | HECrash => {| hp_db := db'; hp_tok := hp_tok s; hp_applied := false |}
    end.

Definition hs_run (s : hs_pstate) (l : list hs_attempt) : hs_pstate := fold_left hs_apply l s.

Fixpoint hs_attempts_ok (s : hs_pstate) (l : list hs_attempt) : bool :=
  match l with
  | [] => true
  | a :: r => (hp_applied s || hs_attempt_ok (hp_db s) a) && hs_attempts_ok (hs_apply s a) r
  end.

(* the database after each write of an attempt (batches, then DeleteRanges): the crash points *)
Fixpoint hs_trace_batches (db : hsdb) (bs : list (list N)) : list hsdb :=
  match bs with
  | [] => []
  | b :: r => let db' := hs_commit db b in db' :: hs_trace_batches db' r
  end.
Definition hs_trace (db : hsdb) (a : hs_attempt) : list hsdb :=
  let mid := hs_commits db (ha_batches a) in
  hs_trace_batches db (ha_batches a) ++ map (fun k => hs_wipe k mid) (seq 1 (ha_wipes a)).

(* the uninterrupted attempt whose workers deliver one batch *)
Definition hs_uninterrupted (db : hsdb) : hs_attempt :=
  {| ha_batches := [map r_addr (filter is_put db)]; ha_wipes := 3; ha_end := HEDone |}.

(* ---- what the head state is, in either layout ---- *)
(* legacy: the contracts are the keys of ContractClassHash; nonce defaults to zero *)
Definition hs_legacy_view (db : hsdb) : list (N * (N * N * option N)) :=
  flat_map (fun r => match r_class r with
                     | Some c => [(r_addr r, (match r_nonce r with Some n => n | None => 0%N end, c, r_height r))]
                     | None => []
                     end) db.
(* new: the Contract records *)
Definition hs_new_view (db : hsdb) : list (N * (N * N * option N)) :=
  flat_map (fun r => match r_contract r with
                     | Some (n, c, h) => [(r_addr r, (n, c, Some h))]
                     | None => []
                     end) db.

Definition hs_rec_of (r : hrow) : option hrec :=
  match r_class r, r_height r with
  | Some c, Some h => Some (match r_nonce r with Some n => n | None => 0%N end, c, h)
  | _, _ => None
  end.
Definition hrec_eqb (a b : hrec) : bool :=
  N.eqb (fst (fst a)) (fst (fst b)) && N.eqb (snd (fst a)) (snd (fst b)) && N.eqb (snd a) (snd b).
(* a legacy database, possibly with Contract records an earlier interrupted run left: every contract
   has a deployment height, every Contract record is the consolidation of the legacy fields *)
Definition hs_consistent (db : hsdb) : bool :=
  forallb (fun r => match r_contract r with
                    | None => match r_class r with Some _ => is_some (r_height r) | None => true end
                    | Some rc => match hs_rec_of r with Some rc' => hrec_eqb rc rc' | None => false end
                    end) db.
(* nothing is left in the three deprecated buckets *)
Definition hs_wiped (db : hsdb) : bool :=
  forallb (fun r => negb (is_some (r_class r)) && negb (is_some (r_nonce r)) && negb (is_some (r_height r))) db.
(* no address whose ingestion fails *)
Definition hs_ok (db : hsdb) : bool := forallb (fun r => negb (is_err r)) db.

(* ------------------------------------------------------------------------------------------ *)
(* The same migration as a [migration] of the runner model: one step = one write (a batch or a   *)
(* DeleteRange). [env db hi] = (how the addresses are spread over the batches in commit order,   *)
(* how many more addresses the source has handed out when it sees the cancellation).             *)
(* ------------------------------------------------------------------------------------------ *)
Inductive hstok :=
| HTok                                       (* the persisted []byte{} *)
| HRun (hi : nat) (rest : list (list N))     (* pipeline running; the first hi addresses have been handed out *)
| HWipe (k : nat).                           (* k DeleteRanges done *)

Definition hs_env := hsdb -> nat -> (list (list N) * nat).

Definition hs_index (db : hsdb) (a : N) : nat :=
  match find_index (fun r => N.eqb (r_addr r) a) (hs_classes db) with Some i => S i | None => 0 end.

Definition hs_pipe (env : hs_env) (db : hsdb) (hi : nat) (rest : list (list N)) (c : bool)
  : hsdb * @outcome hstok :=
  let cls := hs_classes db in
  if c then
    let k := Nat.min (length cls) (hi + snd (env db hi)) in
    let out := firstn k cls in
    let db' := hs_commit db (map r_addr out) in
    if existsb is_err out then (db', Failed)
    else if Nat.eqb k (length cls) then (hs_wipe 3 db', Done)           (* IsDone: the wipe ignores ctx *)
    else (db', Suspended HTok)
  else match rest with
       | [] => if existsb is_err cls then (db, Failed) else (hs_wipe 1 db, Suspended (HWipe 1))
       | b :: rest' =>
           let db' := hs_commit db b in
           if existsb (fun r => mem_N (r_addr r) b && is_err r) cls then (db', Failed)
           else (db', Suspended (HRun (fold_left Nat.max (map (hs_index db) b) hi) rest'))
       end.

Definition hs_step (env : hs_env) (db : hsdb) (tok : option hstok) (c : bool) : hsdb * @outcome hstok :=
  match tok with
  | Some (HRun hi rest) => hs_pipe env db hi rest c
  | Some (HWipe k) =>
      if c then (hs_wipe 3 db, Done)
      else if Nat.leb 2 k then (hs_wipe 3 db, Done) else (hs_wipe (S k) db, Suspended (HWipe (S k)))
  | _ => hs_pipe env db 0 (fst (env db 0) ++ [map r_addr (hs_classes db)]) c
  end.

Definition hs_migration (env : hs_env) : @migration hsdb hstok :=
  {| mig_step := hs_step env; mig_optional := true |}.

Definition hs_tok_ok (db : hsdb) (t : option hstok) : bool :=
  match t with
  | None | Some HTok => true
  | Some (HRun _ rest) => forallb (fun r => negb (is_put r) || in_batches_N rest (r_addr r)) db
  | Some (HWipe _) => forallb (fun r => negb (is_put r)) db
  end.
