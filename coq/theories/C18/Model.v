(* C18 — executable models, split over four files (all extracted to OCaml; no proofs in them):
     Runner.v     the migration runner (migration/runner.go, registry.go, version.go, metadata.go),
                  the block-granularity model of blocktransactions, statedifflength's start rule
     Sdl.v        statedifflength at batch granularity: pipeline hand-over, checkpoint, resume
     HeadState.v  state/headstate at batch granularity: ingest / commit / three-step wipe
     Registry.v   the node registry: the two models lifted to one database record
   This file only re-exports them, so that `From V Require Import C18.Model` keeps giving every name
   (the constants obligation coq/obligations/C18_consts.v refers to max_migrations and batch_size). *)
From V Require Export C18.Runner C18.Sdl C18.HeadState C18.Registry.
