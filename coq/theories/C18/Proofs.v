(* C18 — lemmas about the runner model. *)
From Coq Require Import List NArith Bool Arith Lia ZifyN ZifyNat ZifyBool Sorted.
From V Require Import C18.Model.
Import ListNotations.

(* ---------------------------------- bitsets ---------------------------------- *)
Lemma of_nat_eqb : forall i j, N.eqb (N.of_nat i) (N.of_nat j) = Nat.eqb i j.
Proof.
  intros. destruct (Nat.eqb_spec i j); subst.
  - apply N.eqb_refl.
  - apply N.eqb_neq. lia.
Qed.

Lemma vhas_vset : forall v i j, vhas (vset v i) j = Nat.eqb i j || vhas v j.
Proof. intros. unfold vhas, vset. rewrite N.setbit_eqb, of_nat_eqb. reflexivity. Qed.

Lemma vhas_vdiff : forall a b i, vhas (vdiff a b) i = vhas a i && negb (vhas b i).
Proof. intros. unfold vhas, vdiff. apply N.ldiff_spec. Qed.

Lemma vhas_zero : forall i, vhas 0 i = false.
Proof. intros. unfold vhas. apply N.bits_0. Qed.

Lemma vcontains_false : forall a b i, vhas b i = true -> vhas a i = false -> vcontains a b = false.
Proof.
  intros a b i Hb Ha. unfold vcontains. apply N.eqb_neq. intro H0.
  assert (H : vhas (vdiff b a) i = true) by (rewrite vhas_vdiff, Hb, Ha; reflexivity).
  rewrite H0, vhas_zero in H. discriminate.
Qed.

Lemma vcontains_true : forall a b, vcontains a b = true -> forall i, vhas b i = true -> vhas a i = true.
Proof.
  intros a b H i Hb. destruct (vhas a i) eqn:Ha; auto.
  rewrite (vcontains_false a b i Hb Ha) in H. discriminate.
Qed.

Lemma seq_sorted : forall n a, StronglySorted lt (seq a n).
Proof.
  induction n; intros; simpl; constructor; auto.
  apply Forall_forall. intros x Hx. apply in_seq in Hx. lia.
Qed.

Lemma filter_sorted : forall (f : nat -> bool) l, StronglySorted lt l -> StronglySorted lt (filter f l).
Proof.
  induction l; intros H; simpl; auto.
  inversion H; subst. destruct (f a); auto.
  constructor; auto. apply Forall_forall. intros x Hx. apply filter_In in Hx.
  rewrite Forall_forall in H3. apply H3. tauto.
Qed.

Lemma bits_of_sorted : forall v, StronglySorted lt (bits_of v).
Proof. intros. apply filter_sorted, seq_sorted. Qed.

Lemma bits_of_In : forall v i, In i (bits_of v) <-> (i < max_migrations /\ vhas v i = true).
Proof. intros. unfold bits_of. rewrite filter_In, in_seq. simpl. intuition lia. Qed.

Lemma sorted_head_notin : forall p rest, StronglySorted lt (p :: rest) -> ~ In p rest.
Proof.
  intros p rest H Hin. inversion H; subst. rewrite Forall_forall in H3. specialize (H3 _ Hin). lia.
Qed.

Lemma filter_filter : forall A (f g : A -> bool) l,
  filter (fun x => f x && g x) l = filter g (filter f l).
Proof.
  induction l; simpl; auto. destruct (f a); simpl; rewrite IHl; auto.
Qed.

Lemma filter_id : forall A (g : A -> bool) l, (forall x, In x l -> g x = true) -> filter g l = l.
Proof.
  induction l; simpl; intros; auto. rewrite H by auto. f_equal. apply IHl. auto.
Qed.

(* setting the first pending bit removes exactly it from the pending list *)
Lemma filter_after_set : forall l t c p rest, StronglySorted lt l ->
  filter (vhas (vdiff t c)) l = p :: rest -> filter (vhas (vdiff t (vset c p))) l = rest.
Proof.
  intros l t c p rest Sl H.
  rewrite (filter_ext _ (fun i => vhas (vdiff t c) i && negb (Nat.eqb p i))).
  2:{ intros i. rewrite !vhas_vdiff, vhas_vset. destruct (Nat.eqb p i), (vhas t i), (vhas c i); reflexivity. }
  rewrite filter_filter, H. simpl. rewrite Nat.eqb_refl. simpl.
  apply filter_id. intros x Hx.
  assert (S : StronglySorted lt (p :: rest)) by (rewrite <- H; apply filter_sorted; exact Sl).
  apply sorted_head_notin in S. destruct (Nat.eqb_spec p x); subst; auto.
Qed.

Lemma bits_of_after_set : forall t c p rest,
  bits_of (vdiff t c) = p :: rest -> bits_of (vdiff t (vset c p)) = rest.
Proof. intros t c p rest. unfold bits_of. apply filter_after_set. apply seq_sorted. Qed.

(* ---------------------------------- the runner ---------------------------------- *)
Global Opaque bits_of.
Section RunnerProofs.
Variables DB Tok : Type.
Notation migration := (@migration DB Tok).
Notation pstate := (@pstate DB Tok).
Notation mstate := (@mstate DB Tok).
Notation event := (@event Tok).

(* a migration never returns (nil, ctx.Err()) *)
Definition well_behaved (m : migration) : Prop :=
  forall db t c, snd (mig_step m db t c) <> NilWithCtxErr.
(* a migration never returns (state, nil) while the context is live *)
Definition no_yield (m : migration) : Prop :=
  forall db t, match snd (mig_step m db t false) with Yield _ => False | _ => True end.

(* ---- target version ---- *)
Lemma target_fold_bits : forall (l : list (nat * migration)) (enabled acc : N) i,
  vhas (fold_left (fun acc (p : nat * migration) =>
               if negb (mig_optional (snd p)) || vhas enabled (fst p) then vset acc (fst p) else acc) l acc) i = true ->
  vhas acc i = true \/ In i (map fst l).
Proof.
  induction l as [|[j m] l IH]; simpl; intros; auto.
  apply IH in H. destruct H as [H|H]; auto.
  destruct (negb (mig_optional m) || vhas enabled j); auto.
  rewrite vhas_vset in H. destruct (Nat.eqb_spec j i); subst; auto.
Qed.

Lemma target_bits_registered : forall (es : list migration) enabled i,
  vhas (target_version es enabled) i = true -> i < length es.
Proof.
  intros es enabled i H. unfold target_version in H. apply target_fold_bits in H.
  destruct H as [H|H]. { rewrite vhas_zero in H. discriminate. }
  apply in_map_iff in H. destruct H as [[j m] [E Hin]]. simpl in E. subst.
  apply in_combine_l in Hin. apply in_seq in Hin. lia.
Qed.

(* ---- refusal ---- *)
Lemma downgrade_refused_lemma : forall (es : list migration) fuel enabled c (s : pstate) i,
  vhas (cur s) i = true -> vhas (target_version es enabled) i = false ->
  let r := run_boot es fuel enabled c s in
  (snd r = RRefusedDowngrade \/ snd r = RRefusedOptOut) /\ ms_p (fst r) = s /\ ms_trace (fst r) = [].
Proof.
  intros. subst r. unfold run_boot.
  destruct (beyond_registry _ _ _); simpl; auto.
  destruct (opt_out_attempt _ _ _); simpl; auto.
  rewrite (vcontains_false _ _ i H H0). simpl. auto.
Qed.

Lemma lacking_applied_refused_lemma : forall (es : list migration) fuel enabled c (s : pstate) i,
  length es <= i -> vhas (cur s) i = true ->
  let r := run_boot es fuel enabled c s in
  (snd r = RRefusedDowngrade \/ snd r = RRefusedOptOut) /\ ms_p (fst r) = s /\ ms_trace (fst r) = [].
Proof.
  intros. apply downgrade_refused_lemma with (i := i); auto.
  destruct (vhas (target_version es enabled) i) eqn:E; auto.
  apply target_bits_registered in E. lia.
Qed.

Lemma beyond_registry_true : forall t l n i,
  n <= i -> i < max_migrations -> vhas l i = true -> vhas t i = false -> beyond_registry t l n = true.
Proof.
  intros. unfold beyond_registry. apply existsb_exists. exists i. split.
  - apply in_seq. lia.
  - rewrite vhas_vdiff, H1, H2. reflexivity.
Qed.

Lemma opt_out_attempt_true : forall t l n i,
  i < n -> vhas l i = true -> vhas t i = false -> opt_out_attempt t l n = true.
Proof.
  intros. unfold opt_out_attempt. apply existsb_exists. exists i. split.
  - apply in_seq. lia.
  - rewrite vhas_vdiff, H0, H1. reflexivity.
Qed.

(* any bit (of the uint64) that an earlier run targeted and the present target lacks: refused,
   whether or not the present registry knows the migration *)
Lemma optout_refused_lemma : forall (es : list migration) fuel enabled c (s : pstate) i,
  i < max_migrations -> vhas (last s) i = true -> vhas (target_version es enabled) i = false ->
  let r := run_boot es fuel enabled c s in
  (snd r = RRefusedOptOut \/ snd r = RRefusedDowngrade) /\ ms_p (fst r) = s /\ ms_trace (fst r) = [].
Proof.
  intros. subst r. unfold run_boot.
  destruct (beyond_registry _ _ _) eqn:E0; simpl; auto.
  destruct (Nat.lt_ge_cases i (length es)) as [Hi|Hi].
  - rewrite (opt_out_attempt_true _ _ _ i Hi H0 H1). simpl. auto.
  - rewrite (beyond_registry_true _ _ _ i Hi H H0 H1) in E0. discriminate.
Qed.

(* a binary that does not have a migration which an earlier run opted into (finished or not) *)
Lemma lacking_opted_in_refused_lemma : forall (es : list migration) fuel enabled c (s : pstate) i,
  length es <= i -> i < max_migrations -> vhas (last s) i = true ->
  let r := run_boot es fuel enabled c s in
  snd r = RRefusedDowngrade /\ ms_p (fst r) = s /\ ms_trace (fst r) = [].
Proof.
  intros. subst r. unfold run_boot.
  assert (Ht : vhas (target_version es enabled) i = false).
  { destruct (vhas (target_version es enabled) i) eqn:E; auto. apply target_bits_registered in E. lia. }
  rewrite (beyond_registry_true _ _ _ i H H0 H1 Ht). simpl. auto.
Qed.

(* an accepted boot: the target covers every applied bit and every opted-in bit *)
Lemma accepted_sound_lemma : forall (es : list migration) fuel enabled c (s : pstate),
  let r := run_boot es fuel enabled c s in
  snd r <> RRefusedOptOut -> snd r <> RRefusedDowngrade ->
  (forall i, vhas (cur s) i = true -> vhas (target_version es enabled) i = true) /\
  (forall i, i < max_migrations -> vhas (last s) i = true -> vhas (target_version es enabled) i = true).
Proof.
  intros es fuel enabled c s r H1 H2. subst r. unfold run_boot in *.
  destruct (beyond_registry _ _ _) eqn:E0; simpl in *; try congruence.
  destruct (opt_out_attempt _ _ _) eqn:E1; simpl in *; try congruence.
  destruct (vcontains _ _) eqn:E2; simpl in *; try congruence.
  split.
  - apply vcontains_true; auto.
  - intros i Hi Hl. destruct (vhas (target_version es enabled) i) eqn:Ht; auto.
    destruct (Nat.lt_ge_cases i (length es)) as [Hr|Hr].
    + rewrite (opt_out_attempt_true _ _ _ i Hr Hl Ht) in E1. discriminate.
    + rewrite (beyond_registry_true _ _ _ i Hr Hi Hl Ht) in E0. discriminate.
Qed.

(* ---- event log facts ---- *)
Lemma invocations_cons : forall (e : event) l,
  invocations (e :: l) = invocations l ++ match e with EInvoke i _ => [i] | _ => [] end.
Proof.
  intros. unfold invocations. simpl. rewrite flat_map_app. simpl. rewrite app_nil_r. reflexivity.
Qed.

(* what invoke guarantees about the log and the returned pair *)
Lemma invoke_log : forall (m : migration) i fuel (st : mstate) tok st' t' e,
  invoke m i fuel st tok = (st', Some (t', e)) ->
  exists o, ms_log st' = EReturn i o :: ms_log st /\
    (t' = None -> e <> EOther ->
       o = Done \/ (o = NilWithCtxErr /\ exists db tk, snd (mig_step m db tk true) = NilWithCtxErr)).
Proof.
  induction fuel; intros st tok st' t' e H; simpl in H; try discriminate.
  destruct (mig_step m (pdb (ms_p st)) tok _) as [db' o] eqn:Es.
  destruct (cancelled (ms_clk st)) eqn:Ec.
  - simpl in Es. inversion H; subst; clear H. exists o. split; auto.
    intros Ht He. destruct o; try discriminate; auto; try congruence.
    right. split; auto. exists (pdb (ms_p st)), tok. rewrite Es. reflexivity.
  - destruct (faulted (ms_clk st)) eqn:Ef.
    { inversion H; subst. eexists. split; [reflexivity|]. intros; congruence. }
    destruct o.
    + inversion H; subst. exists Done. split; auto.
    + apply IHfuel in H. destruct H as [o [Hl Ho]]. exists o. split; auto.
    + inversion H; subst. eexists. split; [reflexivity|]. intros; discriminate.
    + inversion H; subst. eexists. split; [reflexivity|]. intros; congruence.
    + inversion H; subst. exists Done. split; auto.
Qed.

Lemma invoke_none_log : forall (m : migration) i fuel (st : mstate) tok st',
  invoke m i fuel st tok = (st', None) -> ms_log st' = ms_log st.
Proof.
  induction fuel; intros st tok st' H; simpl in H.
  - inversion H; auto.
  - destruct (mig_step m (pdb (ms_p st)) tok _) as [db' o].
    destruct (cancelled (ms_clk st)); try discriminate.
    destruct (faulted (ms_clk st)); try discriminate.
    destruct o; try discriminate. apply IHfuel in H. rewrite H. reflexivity.
Qed.

Lemma applied_after_done_cons_other : forall (e : event) l,
  (forall j, e <> EApplied j) -> applied_after_done (e :: l) = applied_after_done l.
Proof. intros. destruct e; simpl; auto. exfalso. eapply H; eauto. Qed.

Lemma run_pending_log_ok : forall (es : list migration) fuel,
  Forall well_behaved es ->
  forall pend (st st' : mstate) r,
  run_pending es fuel pend st = (st', r) ->
  applied_after_done (ms_log st) = true -> applied_after_done (ms_log st') = true.
Proof.
  intros es fuel WB. induction pend as [|i rest IH]; intros st st' r H Hok; simpl in H.
  - inversion H; subst; auto.
  - destruct (cancelled (ms_clk st)). { inversion H; subst; auto. }
    destruct (nth_error es i) as [m|] eqn:En. 2:{ inversion H; subst; auto. }
    destruct (invoke m i fuel (emit (EInvoke i (lookup (inter (ms_p st)) i)) st) (lookup (inter (ms_p st)) i))
      as [st1 [[t' e]|]] eqn:Ei.
    2:{ inversion H; subst. apply invoke_none_log in Ei. rewrite Ei. simpl. auto. }
    apply invoke_log in Ei. destruct Ei as [o [Hl Ho]]. simpl in Hl.
    assert (Hok1 : applied_after_done (ms_log st1) = true) by (rewrite Hl; simpl; auto).
    unfold after_migrate in H.
    destruct (match e with ENil => false | ECtx => negb (cancelled (ms_clk st1)) | EOther => true end) eqn:Ea.
    { inversion H; subst; auto. }
    destruct (faulted (ms_clk st1)). { inversion H; subst; auto. }
    destruct t' as [t|].
    + simpl in H.
      destruct (cancelled (tick (ms_clk st1))).
      * inversion H; subst. simpl. auto.
      * eapply IH; [exact H|]. simpl. auto.
    + eapply IH; [exact H|]. simpl. rewrite Hl. rewrite Nat.eqb_refl. simpl.
      assert (He : e <> EOther) by (intro; subst; discriminate).
      destruct (Ho eq_refl He) as [Hd|[Hn [db [tk Hs]]]].
      * subst o. simpl. auto.
      * exfalso. apply nth_error_In in En. rewrite Forall_forall in WB.
        apply (WB _ En db tk true). auto.
Qed.

Lemma applied_only_if_complete_lemma : forall (es : list migration) fuel enabled c (s : pstate) st r,
  Forall well_behaved es -> run_boot es fuel enabled c s = (st, r) ->
  applied_after_done (ms_log st) = true.
Proof.
  intros es fuel enabled c s st r WB H. unfold run_boot in H.
  destruct (beyond_registry _ _ _). { inversion H; subst; auto. }
  destruct (opt_out_attempt _ _ _). { inversion H; subst; auto. }
  destruct (vcontains _ _); cbn [negb] in H. 2:{ inversion H; subst; auto. }
  destruct (faulted c). { inversion H; subst; auto. }
  destruct (bits_of _) eqn:Eb. { inversion H; subst; auto. }
  eapply run_pending_log_ok in H; eauto.
Qed.

(* the applied bits of the final (and of every crash-point) state come from EApplied events *)
Lemma invoke_cur : forall (m : migration) i fuel (st : mstate) tok st' r,
  invoke m i fuel st tok = (st', r) ->
  cur (ms_p st') = cur (ms_p st) /\ last (ms_p st') = last (ms_p st) /\ inter (ms_p st') = inter (ms_p st) /\
  (forall p, In p (ms_trace st') -> In p (ms_trace st) \/
     (cur p = cur (ms_p st) /\ last p = last (ms_p st) /\ inter p = inter (ms_p st))).
Proof.
  induction fuel; intros st tok st' r H; simpl in H.
  - inversion H; subst. auto.
  - destruct (mig_step m (pdb (ms_p st)) tok _) as [db' o].
    destruct (cancelled (ms_clk st)).
    + inversion H; subst; simpl. repeat split; auto. intros p [Hp|Hp]; subst; auto.
    + destruct (faulted (ms_clk st)).
      { inversion H; subst; simpl. repeat split; auto. intros p [Hp|Hp]; subst; auto. }
      assert (G : forall st1 r1, (st1, r1) = (st', r) ->
         ms_p st1 = with_db db' (ms_p st) -> ms_trace st1 = with_db db' (ms_p st) :: ms_trace st ->
         cur (ms_p st') = cur (ms_p st) /\ last (ms_p st') = last (ms_p st) /\ inter (ms_p st') = inter (ms_p st) /\
         (forall p, In p (ms_trace st') -> In p (ms_trace st) \/
            (cur p = cur (ms_p st) /\ last p = last (ms_p st) /\ inter p = inter (ms_p st)))).
      { intros st1 r1 E P T. inversion E; subst. rewrite P, T. simpl. repeat split; auto.
        intros p [Hp|Hp]; subst; auto. }
      destruct o; try (eapply G; eauto; reflexivity).
      apply IHfuel in H. simpl in H. destruct H as [A [B [C D]]]. repeat split; auto.
      intros p Hp. apply D in Hp. destruct Hp as [[Hp|Hp]|Hp]; subst; auto.
Qed.

Lemma applied_events_cons : forall (e : event) l,
  applied_events (e :: l) = applied_events l ++ match e with EApplied i => [i] | _ => [] end.
Proof.
  intros. unfold applied_events. simpl. rewrite flat_map_app. simpl. rewrite app_nil_r. reflexivity.
Qed.

Lemma invoke_applied_events : forall (m : migration) i fuel (st : mstate) tok st' r,
  invoke m i fuel st tok = (st', r) -> applied_events (ms_log st') = applied_events (ms_log st).
Proof.
  intros. destruct r as [[t' e]|].
  - apply invoke_log in H. destruct H as [o [Hl _]]. rewrite Hl, applied_events_cons, app_nil_r. auto.
  - apply invoke_none_log in H. rewrite H. auto.
Qed.

(* bits of the current version after a boot = bits before + EApplied events; same for every
   crash point *)
Lemma run_pending_bits : forall (es : list migration) fuel pend (st st' : mstate) r,
  run_pending es fuel pend st = (st', r) ->
  (forall j, vhas (cur (ms_p st')) j = true -> vhas (cur (ms_p st)) j = true \/ In j (applied_events (ms_log st'))) /\
  (forall p, In p (ms_trace st') -> In p (ms_trace st) \/
     forall j, vhas (cur p) j = true -> vhas (cur (ms_p st)) j = true \/ In j (applied_events (ms_log st'))) /\
  (exists more, applied_events (ms_log st') = applied_events (ms_log st) ++ more).
Proof.
  intros es fuel. induction pend as [|i rest IH]; intros st st' r H; simpl in H.
  - inversion H; subst. repeat split; auto. exists []. rewrite app_nil_r; auto.
  - destruct (cancelled (ms_clk st)).
    { inversion H; subst. repeat split; auto. exists []. rewrite app_nil_r; auto. }
    destruct (nth_error es i) as [m|].
    2:{ inversion H; subst. repeat split; auto. exists []. rewrite app_nil_r; auto. }
    destruct (invoke m i fuel (emit (EInvoke i (lookup (inter (ms_p st)) i)) st) (lookup (inter (ms_p st)) i))
      as [st1 [[t' e]|]] eqn:Ei.
    2:{ inversion H; subst. pose proof (invoke_cur _ _ _ _ _ _ _ Ei) as [A [B [C D]]].
        pose proof (invoke_applied_events _ _ _ _ _ _ _ Ei) as AE. simpl in *.
        repeat split.
        - intros j Hj. rewrite A in Hj. auto.
        - intros p Hp. apply D in Hp. destruct Hp as [Hp|[Hp _]]; auto. right. intros j Hj. rewrite Hp in Hj. auto.
        - exists []. rewrite AE, applied_events_cons, !app_nil_r. auto. }
    pose proof (invoke_cur _ _ _ _ _ _ _ Ei) as [A [B [C D]]].
    pose proof (invoke_applied_events _ _ _ _ _ _ _ Ei) as AE. simpl in A, B, C, D, AE.
    rewrite applied_events_cons, app_nil_r in AE.
    unfold after_migrate in H.
    destruct (match e with ENil => false | ECtx => negb (cancelled (ms_clk st1)) | EOther => true end).
    { inversion H; subst. repeat split.
      - intros j Hj. rewrite A in Hj. auto.
      - intros p Hp. apply D in Hp. destruct Hp as [Hp|[Hp _]]; auto. right. intros j Hj. rewrite Hp in Hj. auto.
      - exists []. rewrite AE, app_nil_r. auto. }
    destruct (faulted (ms_clk st1)).
    { inversion H; subst. cbn [disarm ms_p ms_trace ms_log ms_clk] in *. repeat split.
      - intros j Hj. rewrite A in Hj. auto.
      - intros p Hp. apply D in Hp. destruct Hp as [Hp|[Hp _]]; auto. right. intros j Hj. rewrite Hp in Hj. auto.
      - exists []. rewrite AE, app_nil_r. auto. }
    destruct t' as [t|].
    + simpl in H. destruct (cancelled (tick (ms_clk st1))).
      * inversion H; subst; simpl. repeat split.
        -- intros j Hj. rewrite A in Hj. auto.
        -- intros p [Hp|Hp].
           ++ subst p. right. simpl. intros j Hj. rewrite A in Hj. auto.
           ++ apply D in Hp. destruct Hp as [Hp|[Hp _]]; auto. right. intros j Hj. rewrite Hp in Hj. auto.
        -- exists []. rewrite applied_events_cons, AE, !app_nil_r. auto.
      * apply IH in H. simpl in H. destruct H as [H1 [H2 [more H3]]].
        rewrite applied_events_cons, app_nil_r, AE in H3.
        repeat split.
        -- intros j Hj. apply H1 in Hj. rewrite A in Hj. auto.
        -- intros p Hp. apply H2 in Hp. destruct Hp as [[Hp|Hp]|Hp].
           ++ subst p. right. simpl. intros j Hj. rewrite A in Hj. auto.
           ++ apply D in Hp. destruct Hp as [Hp|[Hp _]]; auto. right. intros j Hj. rewrite Hp in Hj. auto.
           ++ right. intros j Hj. apply Hp in Hj. rewrite A in Hj. auto.
        -- exists more. auto.
    + apply IH in H. simpl in H. destruct H as [H1 [H2 [more H3]]].
      rewrite applied_events_cons, AE in H3.
      assert (Hi : In i (applied_events (ms_log st'))).
      { rewrite H3. apply in_or_app. left. apply in_or_app. right. simpl. auto. }
      repeat split.
      * intros j Hj. apply H1 in Hj. destruct Hj as [Hj|Hj]; auto.
        rewrite vhas_vset, A in Hj. destruct (Nat.eqb_spec i j); subst; auto.
      * intros p Hp. apply H2 in Hp. destruct Hp as [[Hp|Hp]|Hp].
        -- subst p. right. simpl. intros j Hj. rewrite vhas_vset, A in Hj.
           destruct (Nat.eqb_spec i j); subst; auto.
        -- apply D in Hp. destruct Hp as [Hp|[Hp _]]; auto. right. intros j Hj. rewrite Hp in Hj. auto.
        -- right. intros j Hj. apply Hp in Hj. destruct Hj as [Hj|Hj]; auto.
           rewrite vhas_vset, A in Hj. destruct (Nat.eqb_spec i j); subst; auto.
      * exists ([i] ++ more). rewrite H3, <- !app_assoc. reflexivity.
Qed.

Lemma bits_only_from_applied_lemma : forall (es : list migration) fuel enabled c (s : pstate) st r,
  run_boot es fuel enabled c s = (st, r) ->
  forall p, (p = ms_p st \/ In p (ms_trace st)) ->
  forall j, vhas (cur p) j = true -> vhas (cur s) j = true \/ In j (applied_events (ms_log st)).
Proof.
  intros es fuel enabled c s st r H p Hp j Hj. unfold run_boot in H.
  destruct (beyond_registry _ _ _).
  { inversion H; subst; simpl in *. destruct Hp as [Hp|[]]; subst; auto. }
  destruct (opt_out_attempt _ _ _).
  { inversion H; subst; simpl in *. destruct Hp as [Hp|[]]; subst; auto. }
  destruct (vcontains _ _); cbn [negb] in H.
  2:{ inversion H; subst; simpl in *. destruct Hp as [Hp|[]]; subst; auto. }
  destruct (faulted c).
  { inversion H; subst; simpl in *. destruct Hp as [Hp|[]]; subst; auto. }
  destruct (bits_of _) eqn:Eb.
  { inversion H; subst; simpl in *. destruct Hp as [Hp|[Hp|[]]]; subst; auto. }
  apply run_pending_bits in H. simpl in H. destruct H as [H1 [H2 _]].
  destruct Hp as [Hp|Hp]; subst; auto.
  apply H2 in Hp. destruct Hp as [[Hp|[]]|Hp]; subst; auto.
Qed.

(* ---- once, in order ---- *)
Lemma invoke_invocations : forall (m : migration) i fuel (st : mstate) tok st' r,
  invoke m i fuel st tok = (st', r) -> invocations (ms_log st') = invocations (ms_log st).
Proof.
  intros. destruct r as [[t' e]|].
  - apply invoke_log in H. destruct H as [o [Hl _]]. rewrite Hl, invocations_cons, app_nil_r. auto.
  - apply invoke_none_log in H. rewrite H. auto.
Qed.

Lemma run_pending_order : forall (es : list migration) fuel pend (st st' : mstate) r,
  run_pending es fuel pend st = (st', r) ->
  exists done rest, pend = done ++ rest /\
    invocations (ms_log st') = invocations (ms_log st) ++ done /\ (r = ROk -> rest = []).
Proof.
  intros es fuel. induction pend as [|i rest IH]; intros st st' r H; simpl in H.
  - inversion H; subst. exists [], []. repeat split; auto; rewrite ?app_nil_r; auto.
  - destruct (cancelled (ms_clk st)).
    { inversion H; subst. exists [], (i :: rest). rewrite app_nil_r. repeat split; auto. discriminate. }
    destruct (nth_error es i) as [m|].
    2:{ inversion H; subst. exists [], (i :: rest). rewrite app_nil_r. repeat split; auto. discriminate. }
    destruct (invoke m i fuel (emit (EInvoke i (lookup (inter (ms_p st)) i)) st) (lookup (inter (ms_p st)) i))
      as [st1 [[t' e]|]] eqn:Ei;
      apply invoke_invocations in Ei; simpl in Ei; rewrite invocations_cons in Ei.
    2:{ inversion H; subst. exists [i], rest. repeat split; auto. discriminate. }
    unfold after_migrate in H.
    destruct (match e with ENil => false | ECtx => negb (cancelled (ms_clk st1)) | EOther => true end).
    { inversion H; subst. exists [i], rest. repeat split; auto. discriminate. }
    destruct (faulted (ms_clk st1)).
    { inversion H; subst. cbn [disarm ms_p ms_trace ms_log ms_clk] in *. exists [i], rest. repeat split; auto. discriminate. }
    destruct t' as [t|].
    + simpl in H. destruct (cancelled (tick (ms_clk st1))).
      * inversion H; subst; simpl. exists [i], rest. rewrite invocations_cons, app_nil_r.
        repeat split; auto. discriminate.
      * apply IH in H. destruct H as [done [rest' [E1 [E2 E3]]]]. simpl in E2.
        rewrite invocations_cons, app_nil_r, Ei in E2.
        exists (i :: done), rest'. subst rest. repeat split; auto.
        rewrite E2, <- app_assoc. reflexivity.
    + apply IH in H. destruct H as [done [rest' [E1 [E2 E3]]]]. simpl in E2.
      rewrite invocations_cons, app_nil_r, Ei in E2.
      exists (i :: done), rest'. subst rest. repeat split; auto.
      rewrite E2, <- app_assoc. reflexivity.
Qed.

Lemma once_in_order_lemma : forall (es : list migration) fuel enabled c (s : pstate) st r,
  run_boot es fuel enabled c s = (st, r) ->
  let pend := bits_of (vdiff (target_version es enabled) (cur s)) in
  StronglySorted lt pend /\
  (exists rest, invocations (ms_log st) ++ rest = pend) /\
  (r = ROk -> invocations (ms_log st) = pend).
Proof.
  intros es fuel enabled c s st r H pend. split. { apply bits_of_sorted. }
  unfold run_boot in H.
  destruct (beyond_registry _ _ _).
  { inversion H; subst; simpl. split. exists pend; auto. discriminate. }
  destruct (opt_out_attempt _ _ _).
  { inversion H; subst; simpl. split. exists pend; auto. discriminate. }
  destruct (vcontains _ _); cbn [negb] in H.
  2:{ inversion H; subst; simpl. split. exists pend; auto. discriminate. }
  destruct (faulted c).
  { inversion H; subst; simpl. split. exists pend; auto. discriminate. }
  fold pend in H. destruct pend eqn:Ep.
  { inversion H; subst; simpl. split; auto. exists []; auto. }
  apply run_pending_order in H. destruct H as [done [rest [E1 [E2 E3]]]]. simpl in E2.
  split.
  - exists rest. rewrite E2. simpl. auto.
  - intros Hr. rewrite E2, E1, (E3 Hr), app_nil_r. reflexivity.
Qed.

End RunnerProofs.

Arguments well_behaved {DB Tok} m.
Arguments no_yield {DB Tok} m.
