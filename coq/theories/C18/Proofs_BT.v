(* C18 — data preservation of the blocktransactions migration (block-granularity model):
   uninterrupted run and resumption from any committed prefix of aligned ranges. *)
From Coq Require Import List NArith Bool Arith Lia ZifyN ZifyNat ZifyBool.
From V Require Import C18.Model.
Import ListNotations.

Lemma bs_eq : batch_size = 10.
Proof. reflexivity. Qed.

Local Opaque batch_size.

(* the migrated form of an old-layout block *)
Definition mig (b : block) : block :=
  {| b_count := b_count b; b_otx := []; b_orc := []; b_new := Some (b_otx b, b_orc b) |}.

(* the database after the first n blocks were ingested *)
Definition stt (db : btdb) (n : nat) : btdb := map mig (firstn n db) ++ skipn n db.

(* ---------------------------------------------------------------------------------------- *)
(* list facts                                                                                 *)
(* ---------------------------------------------------------------------------------------- *)
Lemma firstn_add : forall A n m (l : list A),
  firstn (n + m) l = firstn n l ++ firstn m (skipn n l).
Proof.
  induction n; intros m l.
  - reflexivity.
  - destruct l as [|a l].
    + cbn [Nat.add firstn skipn app]. rewrite firstn_nil. reflexivity.
    + cbn [Nat.add firstn skipn app]. rewrite IHn. reflexivity.
Qed.

Lemma skipn_add : forall A n m (l : list A),
  skipn (n + m) l = skipn m (skipn n l).
Proof.
  induction n; intros m l.
  - reflexivity.
  - destruct l as [|a l].
    + cbn [Nat.add skipn]. rewrite skipn_nil. reflexivity.
    + cbn [Nat.add skipn]. apply IHn.
Qed.

Lemma in_firstn : forall A n (l : list A) x, In x (firstn n l) -> In x l.
Proof.
  intros A n l x H. rewrite <- (firstn_skipn n l). apply in_or_app. left. exact H.
Qed.

Lemma in_skipn : forall A n (l : list A) x, In x (skipn n l) -> In x l.
Proof.
  intros A n l x H. rewrite <- (firstn_skipn n l). apply in_or_app. right. exact H.
Qed.

Lemma firstn_stt : forall n db, firstn n (stt db n) = map mig (firstn n db).
Proof.
  unfold stt. induction n; intros db.
  - reflexivity.
  - destruct db as [|b db].
    + reflexivity.
    + cbn [firstn skipn map app]. rewrite IHn. reflexivity.
Qed.

Lemma skipn_stt : forall n db, skipn n (stt db n) = skipn n db.
Proof.
  unfold stt. induction n; intros db.
  - reflexivity.
  - destruct db as [|b db].
    + reflexivity.
    + cbn [firstn skipn map app]. apply IHn.
Qed.

Lemma length_stt : forall db n, length (stt db n) = length db.
Proof.
  intros db n. unfold stt. rewrite app_length, map_length, <- app_length, firstn_skipn.
  reflexivity.
Qed.

Lemma stt_ne : forall db n, db <> [] -> stt db n <> [].
Proof.
  intros db n H E. apply H. apply length_zero_iff_nil.
  rewrite <- (length_stt db n), E. reflexivity.
Qed.

Lemma stt_all : forall db n, length db <= n -> stt db n = map mig db.
Proof.
  intros db n H. unfold stt. rewrite firstn_all2, skipn_all2 by exact H. apply app_nil_r.
Qed.

Lemma stt_0 : forall db, stt db 0 = db.
Proof. reflexivity. Qed.

(* ---------------------------------------------------------------------------------------- *)
(* ingest                                                                                     *)
(* ---------------------------------------------------------------------------------------- *)
Lemma ingest_wf : forall b, block_wf_old b = true -> ingest_block b = Some (mig b).
Proof.
  intros b H. unfold block_wf_old in H. unfold ingest_block. fold (mig b).
  destruct (b_new b); [discriminate|].
  apply andb_prop in H. destruct H as [H1 H2].
  rewrite H1, H2. cbn [andb].
  destruct (N.eqb (N.of_nat (length (b_otx b))) 0 || N.eqb (N.of_nat (length (b_orc b))) 0) eqn:E.
  - destruct (N.ltb 0 (b_count b)) eqn:L; [|reflexivity].
    apply N.eqb_eq in H1, H2. apply N.ltb_lt in L.
    apply orb_prop in E. destruct E as [E|E]; apply N.eqb_eq in E; lia.
  - reflexivity.
Qed.

Lemma map_opt_wf : forall l, (forall b, In b l -> block_wf_old b = true) ->
  map_opt ingest_block l = Some (map mig l).
Proof.
  induction l as [|a l IH]; intros H.
  - reflexivity.
  - cbn [map_opt map]. rewrite ingest_wf by (apply H; left; reflexivity).
    rewrite IH by (intros b Hb; apply H; right; exact Hb). reflexivity.
Qed.

Lemma wf_in : forall db, wf_old db = true -> forall b, In b db -> block_wf_old b = true.
Proof.
  intros db H. unfold wf_old in H. rewrite forallb_forall in H. exact H.
Qed.

Lemma ingest_stt : forall db n, wf_old db = true ->
  ingest_range (stt db n) n = Some (stt db (n + batch_size)).
Proof.
  intros db n W. unfold ingest_range.
  rewrite skipn_stt.
  rewrite map_opt_wf.
  2:{ intros b Hb. apply (wf_in db W). eapply in_skipn. eapply in_firstn. exact Hb. }
  rewrite firstn_stt. rewrite skipn_add, skipn_stt, <- skipn_add.
  unfold stt. rewrite firstn_add, map_app, <- app_assoc. reflexivity.
Qed.

(* ---------------------------------------------------------------------------------------- *)
(* get_first                                                                                  *)
(* ---------------------------------------------------------------------------------------- *)
Lemma find_index_stt : forall (p : block -> bool) l1 l2,
  (forall b, p (mig b) = false) ->
  find_index p (map mig l1 ++ l2) = option_map (Nat.add (length l1)) (find_index p l2).
Proof.
  intros p l1 l2 Hp. induction l1 as [|a l1 IH].
  - cbn [map app length]. destruct (find_index p l2); reflexivity.
  - cbn [map app length find_index]. rewrite Hp, IH.
    destruct (find_index p l2); reflexivity.
Qed.

Lemma find_index_ext : forall A (f g : A -> bool) l,
  (forall x, In x l -> f x = g x) -> find_index f l = find_index g l.
Proof.
  induction l as [|a l IH]; intros H.
  - reflexivity.
  - cbn [find_index]. rewrite (H a) by (left; reflexivity).
    rewrite IH by (intros x Hx; apply H; right; exact Hx). reflexivity.
Qed.

Lemma existsb_find_index : forall A (p : A -> bool) m l,
  existsb p (firstn m l) = true -> exists i, find_index p l = Some i /\ i < m.
Proof.
  induction m; intros l H.
  - discriminate.
  - destruct l as [|a l]; [discriminate|].
    cbn [firstn existsb find_index] in *.
    destruct (p a).
    + exists 0. split; [reflexivity|lia].
    + cbn [orb] in H. apply IHm in H. destruct H as [i [Hi Hl]].
      exists (S i). rewrite Hi. split; [reflexivity|lia].
Qed.

Lemma wf_otx : forall b, block_wf_old b = true -> nonempty (b_otx b) = N.ltb 0 (b_count b).
Proof.
  intros b H. unfold block_wf_old in H. destruct (b_new b); [discriminate|].
  apply andb_prop in H. destruct H as [H1 H2]. apply N.eqb_eq in H1, H2.
  destruct (b_otx b); cbn [nonempty length] in *; symmetry;
    [apply N.ltb_ge | apply N.ltb_lt]; lia.
Qed.

Lemma wf_orc : forall b, block_wf_old b = true -> nonempty (b_orc b) = N.ltb 0 (b_count b).
Proof.
  intros b H. unfold block_wf_old in H. destruct (b_new b); [discriminate|].
  apply andb_prop in H. destruct H as [H1 H2]. apply N.eqb_eq in H1, H2.
  destruct (b_orc b); cbn [nonempty length] in *; symmetry;
    [apply N.ltb_ge | apply N.ltb_lt]; lia.
Qed.

Lemma ner_exists : forall k fuel db,
  no_empty_range_from db fuel = true -> k < fuel -> k * batch_size < length db ->
  existsb (fun b => N.ltb 0 (b_count b)) (firstn batch_size (skipn (k * batch_size) db)) = true.
Proof.
  induction k; intros fuel db H Hf Hl.
  - destruct fuel; [lia|]. cbn [no_empty_range_from] in H.
    destruct db; [cbn in Hl; lia|].
    apply andb_prop in H. destruct H as [H1 _]. exact H1.
  - destruct fuel; [lia|]. cbn [no_empty_range_from] in H.
    destruct db as [|b db]; [cbn in Hl; lia|].
    apply andb_prop in H. destruct H as [_ H2].
    apply IHk in H2.
    + rewrite <- skipn_add in H2.
      replace (S k * batch_size) with (batch_size + k * batch_size) by lia. exact H2.
    + lia.
    + rewrite skipn_length. lia.
Qed.

Lemma get_first_done : forall db n, length db <= n -> get_first (stt db n) = FNone.
Proof.
  intros db n H. rewrite stt_all by exact H. unfold get_first.
  rewrite <- (app_nil_r (map mig db)).
  rewrite !find_index_stt by reflexivity. reflexivity.
Qed.

Lemma get_first_lt : forall db k,
  wf_old db = true -> no_empty_range db = true -> k * batch_size < length db ->
  get_first (stt db (k * batch_size)) = FSome (k * batch_size).
Proof.
  intros db k W N Hl.
  assert (Hk : k < S (length db)) by (rewrite bs_eq in Hl; lia).
  pose proof (ner_exists k _ db N Hk Hl) as E.
  apply existsb_find_index in E. destruct E as [i [Hi Hlt]].
  assert (Wk : forall b, In b (skipn (k * batch_size) db) -> block_wf_old b = true).
  { intros b Hb. apply (wf_in db W). eapply in_skipn. exact Hb. }
  unfold get_first, stt.
  rewrite !find_index_stt by reflexivity.
  rewrite (find_index_ext _ (fun b => nonempty (b_otx b)) (fun b => N.ltb 0 (b_count b)))
    by (intros x Hx; apply wf_otx, Wk, Hx).
  rewrite (find_index_ext _ (fun b => nonempty (b_orc b)) (fun b => N.ltb 0 (b_count b)))
    by (intros x Hx; apply wf_orc, Wk, Hx).
  rewrite Hi. cbn [option_map]. rewrite Nat.eqb_refl.
  rewrite firstn_length_le by lia.
  f_equal.
  rewrite (Nat.add_comm (k * batch_size) i), Nat.mod_add by (rewrite bs_eq; lia).
  rewrite Nat.mod_small by exact Hlt. lia.
Qed.

(* ---------------------------------------------------------------------------------------- *)
(* the run                                                                                    *)
(* ---------------------------------------------------------------------------------------- *)
Lemma clear_mig : forall db, clear_old (map mig db) = map mig db.
Proof.
  intros db. unfold clear_old. rewrite map_map. reflexivity.
Qed.

Lemma bt_head_done : forall db n, length db <= n -> bt_head (stt db n) = (map mig db, Done).
Proof.
  intros db n H. unfold bt_head. rewrite get_first_done by exact H.
  rewrite stt_all by exact H. rewrite clear_mig. reflexivity.
Qed.

Lemma bt_step_ne : forall d tok, d <> [] ->
  bt_step d tok false =
  match tok with
  | Some (Cursor n) =>
      if Nat.ltb n (length d) then
        match ingest_range d n with
        | None => (d, Failed)
        | Some db' => (db', Suspended (Cursor (n + batch_size)))
        end
      else bt_head d
  | _ => bt_head d
  end.
Proof.
  intros d tok H. destruct d; [congruence|reflexivity].
Qed.

Lemma sweep : forall db, db <> [] -> wf_old db = true ->
  forall fuel n, length db - n < fuel ->
  bt_complete fuel (stt db n) (Some (Cursor n)) = Some (map mig db).
Proof.
  intros db Hne W. induction fuel; intros n Hf; [lia|].
  cbn [bt_complete]. rewrite bt_step_ne by (apply stt_ne; exact Hne).
  rewrite length_stt.
  destruct (Nat.ltb n (length db)) eqn:E.
  - rewrite ingest_stt by exact W. apply IHfuel.
    apply Nat.ltb_lt in E. rewrite bs_eq. lia.
  - apply Nat.ltb_ge in E. rewrite bt_head_done by exact E. reflexivity.
Qed.

Lemma head_run : forall db k tok,
  db <> [] -> wf_old db = true -> no_empty_range db = true ->
  (tok = None \/ tok = Some Rescan) ->
  bt_complete (length db + 3) (stt db (k * batch_size)) tok = Some (map mig db).
Proof.
  intros db k tok Hne W N Ht.
  replace (length db + 3) with (S (length db + 2)) by lia.
  assert (Hh : bt_step (stt db (k * batch_size)) tok false = bt_head (stt db (k * batch_size))).
  { rewrite bt_step_ne by (apply stt_ne; exact Hne). destruct Ht; subst; reflexivity. }
  cbn [bt_complete]. rewrite Hh. clear Hh.
  destruct (le_lt_dec (length db) (k * batch_size)) as [Hge|Hlt].
  - rewrite bt_head_done by exact Hge. reflexivity.
  - unfold bt_head. rewrite get_first_lt by assumption.
    rewrite ingest_stt by exact W.
    apply sweep; [exact Hne|exact W|lia].
Qed.

Lemma preserved_mig : forall db, preserved (map acc_old db) (map mig db) = true.
Proof.
  induction db as [|b db IH].
  - reflexivity.
  - cbn [map preserved]. rewrite IH. unfold acc_new, mig, acc_old, pair_eqb. cbn [b_new fst snd].
    destruct (list_eq_dec N.eq_dec (b_otx b) (b_otx b)); [|congruence].
    destruct (list_eq_dec N.eq_dec (b_orc b) (b_orc b)); [|congruence].
    reflexivity.
Qed.

Lemma old_empty_mig : forall db,
  forallb (fun b => negb (nonempty (b_otx b)) && negb (nonempty (b_orc b))) (map mig db) = true.
Proof.
  induction db as [|b db IH].
  - reflexivity.
  - cbn [map forallb]. rewrite IH. reflexivity.
Qed.

Lemma commit_stt : forall db, wf_old db = true -> forall k a,
  commit_ranges (stt db (a * batch_size)) (map (fun j => j * batch_size) (seq a k))
  = Some (stt db ((a + k) * batch_size)).
Proof.
  intros db W. induction k; intros a.
  - cbn [seq map commit_ranges]. rewrite Nat.add_0_r. reflexivity.
  - cbn [seq map commit_ranges]. rewrite ingest_stt by exact W.
    replace (a * batch_size + batch_size) with (S a * batch_size) by lia.
    rewrite IHk. do 2 f_equal. lia.
Qed.

(* ---------------------------------------------------------------------------------------- *)
(* the two statements                                                                         *)
(* ---------------------------------------------------------------------------------------- *)

(* uninterrupted run on a well-formed old-layout database in which every aligned range of 10
   blocks holds at least one transaction: every block readable through the new accessor with its
   original content, old buckets empty *)
Lemma bt_data_preserved_lemma : forall db : btdb,
  db <> [] -> wf_old db = true -> no_empty_range db = true ->
  exists db', bt_complete (length db + 3) db None = Some db'
    /\ preserved (map acc_old db) db' = true
    /\ forallb (fun b => negb (nonempty (b_otx b)) && negb (nonempty (b_orc b))) db' = true.
Proof.
  intros db Hne W N. exists (map mig db). split; [|split].
  - pose proof (head_run db 0 None Hne W N (or_introl eq_refl)) as H.
    cbn [Nat.mul] in H. rewrite stt_0 in H. exact H.
  - apply preserved_mig.
  - apply old_empty_mig.
Qed.

(* resumption from any prefix state (the first k aligned ranges already committed, as after a
   cancellation): the completed database still serves the original content of every block *)
Lemma bt_resume_prefix_lemma : forall (db : btdb) (k : nat) (dbk : btdb) (tok : option bttok),
  db <> [] -> wf_old db = true -> no_empty_range db = true ->
  commit_ranges db (map (fun j => j * batch_size) (seq 0 k)) = Some dbk ->
  (tok = None \/ tok = Some Rescan) ->
  exists db', bt_complete (length db + 3) dbk tok = Some db'
    /\ preserved (map acc_old db) db' = true.
Proof.
  intros db k dbk tok Hne W N Hc Ht.
  pose proof (commit_stt db W k 0) as H.
  cbn [Nat.mul Nat.add] in H. rewrite stt_0 in H.
  rewrite H in Hc. injection Hc as <-.
  exists (map mig db). split.
  - apply head_run; assumption.
  - apply preserved_mig.
Qed.

Print Assumptions bt_data_preserved_lemma.
Print Assumptions bt_resume_prefix_lemma.
