(* C18 — data preservation of the blocktransactions migration (block-granularity model):
   uninterrupted run and resumption from any committed prefix of aligned ranges. *)
From Coq Require Import List NArith Bool Arith Lia ZifyN ZifyNat ZifyBool.
From V Require Import C18.Model.
Import ListNotations.

Lemma bs_eq : batch_size = 10.
Proof. reflexivity. Qed.

Local Opaque batch_size.

(* the migrated form of an old-layout block *)
Definition mig (b : block) : block :=
  {| b_count := b_count b; b_otx := []; b_orc := []; b_new := Some (b_otx b, b_orc b) |}.

(* the database after the first n blocks were ingested *)
Definition stt (db : btdb) (n : nat) : btdb := map mig (firstn n db) ++ skipn n db.

(* ---------------------------------------------------------------------------------------- *)
(* list facts                                                                                 *)
(* ---------------------------------------------------------------------------------------- *)
Lemma firstn_add : forall A n m (l : list A),
  firstn (n + m) l = firstn n l ++ firstn m (skipn n l).
Proof.
  induction n; intros m l.
  - reflexivity.
  - destruct l as [|a l].
    + cbn [Nat.add firstn skipn app]. rewrite firstn_nil. reflexivity.
    + cbn [Nat.add firstn skipn app]. rewrite IHn. reflexivity.
Qed.

Lemma skipn_add : forall A n m (l : list A),
  skipn (n + m) l = skipn m (skipn n l).
Proof.
  induction n; intros m l.
  - reflexivity.
  - destruct l as [|a l].
    + cbn [Nat.add skipn]. rewrite skipn_nil. reflexivity.
    + cbn [Nat.add skipn]. apply IHn.
Qed.

Lemma in_firstn : forall A n (l : list A) x, In x (firstn n l) -> In x l.
Proof.
  intros A n l x H. rewrite <- (firstn_skipn n l). apply in_or_app. left. exact H.
Qed.

Lemma in_skipn : forall A n (l : list A) x, In x (skipn n l) -> In x l.
Proof.
  intros A n l x H. rewrite <- (firstn_skipn n l). apply in_or_app. right. exact H.
Qed.

Lemma firstn_stt : forall n db, firstn n (stt db n) = map mig (firstn n db).
Proof.
  unfold stt. induction n; intros db.
  - reflexivity.
  - destruct db as [|b db].
    + reflexivity.
    + cbn [firstn skipn map app]. rewrite IHn. reflexivity.
Qed.

Lemma skipn_stt : forall n db, skipn n (stt db n) = skipn n db.
Proof.
  unfold stt. induction n; intros db.
  - reflexivity.
  - destruct db as [|b db].
    + reflexivity.
    + cbn [firstn skipn map app]. apply IHn.
Qed.

Lemma length_stt : forall db n, length (stt db n) = length db.
Proof.
  intros db n. unfold stt. rewrite app_length, map_length, <- app_length, firstn_skipn.
  reflexivity.
Qed.

Lemma stt_ne : forall db n, db <> [] -> stt db n <> [].
Proof.
  intros db n H E. apply H. apply length_zero_iff_nil.
  rewrite <- (length_stt db n), E. reflexivity.
Qed.

Lemma stt_all : forall db n, length db <= n -> stt db n = map mig db.
Proof.
  intros db n H. unfold stt. rewrite firstn_all2, skipn_all2 by exact H. apply app_nil_r.
Qed.

Lemma stt_0 : forall db, stt db 0 = db.
Proof. reflexivity. Qed.

(* ---------------------------------------------------------------------------------------- *)
(* ingest                                                                                     *)
(* ---------------------------------------------------------------------------------------- *)
Lemma ingest_wf : forall b, block_wf_old b = true -> ingest_block b = Some (mig b).
Proof.
  intros b H. unfold block_wf_old in H. unfold ingest_block. fold (mig b).
  destruct (b_new b); [discriminate|].
  apply andb_prop in H. destruct H as [H1 H2].
  rewrite H1, H2. cbn [andb].
  destruct (N.eqb (N.of_nat (length (b_otx b))) 0 || N.eqb (N.of_nat (length (b_orc b))) 0) eqn:E.
  - destruct (N.ltb 0 (b_count b)) eqn:L; [|reflexivity].
    apply N.eqb_eq in H1, H2. apply N.ltb_lt in L.
    apply orb_prop in E. destruct E as [E|E]; apply N.eqb_eq in E; lia.
  - reflexivity.
Qed.

Lemma map_opt_wf : forall l, (forall b, In b l -> block_wf_old b = true) ->
  map_opt ingest_block l = Some (map mig l).
Proof.
  induction l as [|a l IH]; intros H.
  - reflexivity.
  - cbn [map_opt map]. rewrite ingest_wf by (apply H; left; reflexivity).
    rewrite IH by (intros b Hb; apply H; right; exact Hb). reflexivity.
Qed.

Lemma wf_in : forall db, wf_old db = true -> forall b, In b db -> block_wf_old b = true.
Proof.
  intros db H. unfold wf_old in H. rewrite forallb_forall in H. exact H.
Qed.

Lemma ingest_stt : forall db n, wf_old db = true ->
  ingest_range (stt db n) n = Some (stt db (n + batch_size)).
Proof.
  intros db n W. unfold ingest_range.
  rewrite skipn_stt.
  rewrite map_opt_wf.
  2:{ intros b Hb. apply (wf_in db W). eapply in_skipn. eapply in_firstn. exact Hb. }
  rewrite firstn_stt. rewrite skipn_add, skipn_stt, <- skipn_add.
  unfold stt. rewrite firstn_add, map_app, <- app_assoc. reflexivity.
Qed.

(* ---------------------------------------------------------------------------------------- *)
(* get_first                                                                                  *)
(* ---------------------------------------------------------------------------------------- *)
Lemma find_index_stt : forall (p : block -> bool) l1 l2,
  (forall b, p (mig b) = false) ->
  find_index p (map mig l1 ++ l2) = option_map (Nat.add (length l1)) (find_index p l2).
Proof.
  intros p l1 l2 Hp. induction l1 as [|a l1 IH].
  - cbn [map app length]. destruct (find_index p l2); reflexivity.
  - cbn [map app length find_index]. rewrite Hp, IH.
    destruct (find_index p l2); reflexivity.
Qed.

Lemma find_index_ext : forall A (f g : A -> bool) l,
  (forall x, In x l -> f x = g x) -> find_index f l = find_index g l.
Proof.
  induction l as [|a l IH]; intros H.
  - reflexivity.
  - cbn [find_index]. rewrite (H a) by (left; reflexivity).
    rewrite IH by (intros x Hx; apply H; right; exact Hx). reflexivity.
Qed.

Lemma existsb_find_index : forall A (p : A -> bool) m l,
  existsb p (firstn m l) = true -> exists i, find_index p l = Some i /\ i < m.
Proof.
  induction m; intros l H.
  - discriminate.
  - destruct l as [|a l]; [discriminate|].
    cbn [firstn existsb find_index] in *.
    destruct (p a).
    + exists 0. split; [reflexivity|lia].
    + cbn [orb] in H. apply IHm in H. destruct H as [i [Hi Hl]].
      exists (S i). rewrite Hi. split; [reflexivity|lia].
Qed.

Lemma wf_otx : forall b, block_wf_old b = true -> nonempty (b_otx b) = N.ltb 0 (b_count b).
Proof.
  intros b H. unfold block_wf_old in H. destruct (b_new b); [discriminate|].
  apply andb_prop in H. destruct H as [H1 H2]. apply N.eqb_eq in H1, H2.
  destruct (b_otx b); cbn [nonempty length] in *; symmetry;
    [apply N.ltb_ge | apply N.ltb_lt]; lia.
Qed.

Lemma wf_orc : forall b, block_wf_old b = true -> nonempty (b_orc b) = N.ltb 0 (b_count b).
Proof.
  intros b H. unfold block_wf_old in H. destruct (b_new b); [discriminate|].
  apply andb_prop in H. destruct H as [H1 H2]. apply N.eqb_eq in H1, H2.
  destruct (b_orc b); cbn [nonempty length] in *; symmetry;
    [apply N.ltb_ge | apply N.ltb_lt]; lia.
Qed.

Lemma ner_exists : forall k fuel db,
  no_empty_range_from db fuel = true -> k < fuel -> k * batch_size < length db ->
  existsb (fun b => N.ltb 0 (b_count b)) (firstn batch_size (skipn (k * batch_size) db)) = true.
Proof.
  induction k; intros fuel db H Hf Hl.
  - destruct fuel; [lia|]. cbn [no_empty_range_from] in H.
    destruct db; [cbn in Hl; lia|].
    apply andb_prop in H. destruct H as [H1 _]. exact H1.
  - destruct fuel; [lia|]. cbn [no_empty_range_from] in H.
    destruct db as [|b db]; [cbn in Hl; lia|].
    apply andb_prop in H. destruct H as [_ H2].
    apply IHk in H2.
    + rewrite <- skipn_add in H2.
      replace (S k * batch_size) with (batch_size + k * batch_size) by lia. exact H2.
    + lia.
    + rewrite skipn_length. lia.
Qed.

Lemma get_first_done : forall db n, length db <= n -> get_first (stt db n) = FNone.
Proof.
  intros db n H. rewrite stt_all by exact H. unfold get_first.
  rewrite <- (app_nil_r (map mig db)).
  rewrite !find_index_stt by reflexivity. reflexivity.
Qed.

Lemma get_first_lt : forall db k,
  wf_old db = true -> no_empty_range db = true -> k * batch_size < length db ->
  get_first (stt db (k * batch_size)) = FSome (k * batch_size).
Proof.
  intros db k W N Hl.
  assert (Hk : k < S (length db)) by (rewrite bs_eq in Hl; lia).
  pose proof (ner_exists k _ db N Hk Hl) as E.
  apply existsb_find_index in E. destruct E as [i [Hi Hlt]].
  assert (Wk : forall b, In b (skipn (k * batch_size) db) -> block_wf_old b = true).
  { intros b Hb. apply (wf_in db W). eapply in_skipn. exact Hb. }
  unfold get_first, stt.
  rewrite !find_index_stt by reflexivity.
  rewrite (find_index_ext _ (fun b => nonempty (b_otx b)) (fun b => N.ltb 0 (b_count b)))
    by (intros x Hx; apply wf_otx, Wk, Hx).
  rewrite (find_index_ext _ (fun b => nonempty (b_orc b)) (fun b => N.ltb 0 (b_count b)))
    by (intros x Hx; apply wf_orc, Wk, Hx).
  rewrite Hi. cbn [option_map]. rewrite Nat.eqb_refl.
  rewrite firstn_length_le by lia.
  f_equal.
  rewrite (Nat.add_comm (k * batch_size) i), Nat.mod_add by (rewrite bs_eq; lia).
  rewrite Nat.mod_small by exact Hlt. lia.
Qed.

(* ---------------------------------------------------------------------------------------- *)
(* the run                                                                                    *)
(* ---------------------------------------------------------------------------------------- *)
Lemma clear_mig : forall db, clear_old (map mig db) = map mig db.
Proof.
  intros db. unfold clear_old. rewrite map_map. reflexivity.
Qed.

Lemma bt_head_done : forall db n, length db <= n -> bt_head (stt db n) = (map mig db, Done).
Proof.
  intros db n H. unfold bt_head. rewrite get_first_done by exact H.
  rewrite stt_all by exact H. rewrite clear_mig. reflexivity.
Qed.

Lemma bt_step_ne : forall d tok, d <> [] ->
  bt_step d tok false =
  match tok with
  | Some (Cursor n) =>
      if Nat.ltb n (length d) then
        match ingest_range d n with
        | None => (d, Failed)
        | Some db' => (db', Suspended (Cursor (n + batch_size)))
        end
      else bt_head d
  | _ => bt_head d
  end.
Proof.
  intros d tok H. destruct d; [congruence|reflexivity].
Qed.

Lemma sweep : forall db, db <> [] -> wf_old db = true ->
  forall fuel n, length db - n < fuel ->
  bt_complete fuel (stt db n) (Some (Cursor n)) = Some (map mig db).
Proof.
  intros db Hne W. induction fuel; intros n Hf; [lia|].
  cbn [bt_complete]. rewrite bt_step_ne by (apply stt_ne; exact Hne).
  rewrite length_stt.
  destruct (Nat.ltb n (length db)) eqn:E.
  - rewrite ingest_stt by exact W. apply IHfuel.
    apply Nat.ltb_lt in E. rewrite bs_eq. lia.
  - apply Nat.ltb_ge in E. rewrite bt_head_done by exact E. reflexivity.
Qed.

Lemma head_run : forall db k tok,
  db <> [] -> wf_old db = true -> no_empty_range db = true ->
  (tok = None \/ tok = Some Rescan) ->
  bt_complete (length db + 3) (stt db (k * batch_size)) tok = Some (map mig db).
Proof.
  intros db k tok Hne W N Ht.
  replace (length db + 3) with (S (length db + 2)) by lia.
  assert (Hh : bt_step (stt db (k * batch_size)) tok false = bt_head (stt db (k * batch_size))).
  { rewrite bt_step_ne by (apply stt_ne; exact Hne). destruct Ht; subst; reflexivity. }
  cbn [bt_complete]. rewrite Hh. clear Hh.
  destruct (le_lt_dec (length db) (k * batch_size)) as [Hge|Hlt].
  - rewrite bt_head_done by exact Hge. reflexivity.
  - unfold bt_head. rewrite get_first_lt by assumption.
    rewrite ingest_stt by exact W.
    apply sweep; [exact Hne|exact W|lia].
Qed.

Lemma preserved_mig : forall db, preserved (map acc_old db) (map mig db) = true.
Proof.
  induction db as [|b db IH].
  - reflexivity.
  - cbn [map preserved]. rewrite IH. unfold acc_new, mig, acc_old, pair_eqb. cbn [b_new fst snd].
    destruct (list_eq_dec N.eq_dec (b_otx b) (b_otx b)); [|congruence].
    destruct (list_eq_dec N.eq_dec (b_orc b) (b_orc b)); [|congruence].
    reflexivity.
Qed.

Lemma old_empty_mig : forall db,
  forallb (fun b => negb (nonempty (b_otx b)) && negb (nonempty (b_orc b))) (map mig db) = true.
Proof.
  induction db as [|b db IH].
  - reflexivity.
  - cbn [map forallb]. rewrite IH. reflexivity.
Qed.

Lemma commit_stt : forall db, wf_old db = true -> forall k a,
  commit_ranges (stt db (a * batch_size)) (map (fun j => j * batch_size) (seq a k))
  = Some (stt db ((a + k) * batch_size)).
Proof.
  intros db W. induction k; intros a.
  - cbn [seq map commit_ranges]. rewrite Nat.add_0_r. reflexivity.
  - cbn [seq map commit_ranges]. rewrite ingest_stt by exact W.
    replace (a * batch_size + batch_size) with (S a * batch_size) by lia.
    rewrite IHk. do 2 f_equal. lia.
Qed.

(* ---------------------------------------------------------------------------------------- *)
(* the two statements                                                                         *)
(* ---------------------------------------------------------------------------------------- *)

(* uninterrupted run on a well-formed old-layout database in which every aligned range of 10
   blocks holds at least one transaction: every block readable through the new accessor with its
   original content, old buckets empty *)
Lemma bt_data_preserved_lemma : forall db : btdb,
  db <> [] -> wf_old db = true -> no_empty_range db = true ->
  exists db', bt_complete (length db + 3) db None = Some db'
    /\ preserved (map acc_old db) db' = true
    /\ forallb (fun b => negb (nonempty (b_otx b)) && negb (nonempty (b_orc b))) db' = true.
Proof.
  intros db Hne W N. exists (map mig db). split; [|split].
  - pose proof (head_run db 0 None Hne W N (or_introl eq_refl)) as H.
    cbn [Nat.mul] in H. rewrite stt_0 in H. exact H.
  - apply preserved_mig.
  - apply old_empty_mig.
Qed.

(* resumption from any prefix state (the first k aligned ranges already committed, as after a
   cancellation): the completed database still serves the original content of every block *)
Lemma bt_resume_prefix_lemma : forall (db : btdb) (k : nat) (dbk : btdb) (tok : option bttok),
  db <> [] -> wf_old db = true -> no_empty_range db = true ->
  commit_ranges db (map (fun j => j * batch_size) (seq 0 k)) = Some dbk ->
  (tok = None \/ tok = Some Rescan) ->
  exists db', bt_complete (length db + 3) dbk tok = Some db'
    /\ preserved (map acc_old db) db' = true.
Proof.
  intros db k dbk tok Hne W N Hc Ht.
  pose proof (commit_stt db W k 0) as H.
  cbn [Nat.mul Nat.add] in H. rewrite stt_0 in H.
  rewrite H in Hc. injection Hc as <-.
  exists (map mig db). split.
  - apply head_run; assumption.
  - apply preserved_mig.
Qed.

(* ---------------------------------------------------------------------------------------- *)
(* arbitrary sets of committed aligned ranges                                                 *)
(* ---------------------------------------------------------------------------------------- *)

(* the database in which exactly the aligned ranges j with c j = true were ingested;
   off = block number of the head of l *)
Fixpoint mstf (c : nat -> bool) (off : nat) (l : list block) : list block :=
  match l with
  | [] => []
  | b :: r => (if c (off / batch_size) then mig b else b) :: mstf c (S off) r
  end.

Lemma bs_ne : batch_size <> 0.
Proof. rewrite bs_eq. lia. Qed.

Lemma div_lt : forall i j, i < j * batch_size -> i / batch_size < j.
Proof.
  intros i j H. apply Nat.div_lt_upper_bound; [apply bs_ne|]. lia.
Qed.

Lemma div_ge : forall i j, j * batch_size <= i -> j <= i / batch_size.
Proof.
  intros i j H. apply Nat.div_le_lower_bound; [apply bs_ne|]. lia.
Qed.

Lemma div_in : forall i j, j * batch_size <= i -> i < j * batch_size + batch_size ->
  i / batch_size = j.
Proof.
  intros i j H1 H2. pose proof (div_ge i j H1). pose proof (div_lt i (S j)). lia.
Qed.

Lemma mstf_split : forall n c off l,
  mstf c off l = mstf c off (firstn n l) ++ mstf c (off + n) (skipn n l).
Proof.
  induction n; intros c off l.
  - cbn [firstn skipn mstf app]. rewrite Nat.add_0_r. reflexivity.
  - destruct l as [|b l]; [reflexivity|].
    cbn [firstn skipn mstf app]. rewrite (IHn c (S off) l).
    replace (S off + n) with (off + S n) by lia. reflexivity.
Qed.

Lemma firstn_mstf : forall n c off l, firstn n (mstf c off l) = mstf c off (firstn n l).
Proof.
  induction n; intros c off l; [reflexivity|].
  destruct l as [|b l]; [reflexivity|].
  cbn [firstn mstf]. rewrite IHn. reflexivity.
Qed.

Lemma skipn_mstf : forall n c off l, skipn n (mstf c off l) = mstf c (off + n) (skipn n l).
Proof.
  induction n; intros c off l.
  - cbn [skipn]. rewrite Nat.add_0_r. reflexivity.
  - destruct l as [|b l]; [reflexivity|].
    cbn [skipn mstf]. rewrite IHn. replace (S off + n) with (off + S n) by lia. reflexivity.
Qed.

Lemma mstf_length : forall c l off, length (mstf c off l) = length l.
Proof.
  induction l as [|b l IH]; intros off; [reflexivity|].
  cbn [mstf length]. rewrite IH. reflexivity.
Qed.

Lemma mstf_ext : forall c c' l off,
  (forall i, off <= i -> i < off + length l -> c (i / batch_size) = c' (i / batch_size)) ->
  mstf c off l = mstf c' off l.
Proof.
  induction l as [|b l IH]; intros off H; [reflexivity|].
  cbn [mstf]. cbn [length] in H. rewrite (H off) by lia.
  rewrite (IH (S off)) by (intros i H1 H2; apply H; lia). reflexivity.
Qed.

Lemma mstf_true : forall c l off,
  (forall i, off <= i -> i < off + length l -> c (i / batch_size) = true) ->
  mstf c off l = map mig l.
Proof.
  induction l as [|b l IH]; intros off H; [reflexivity|].
  cbn [mstf map]. cbn [length] in H. rewrite (H off) by lia.
  rewrite (IH (S off)) by (intros i H1 H2; apply H; lia). reflexivity.
Qed.

Lemma mstf_false : forall c l off,
  (forall i, off <= i -> i < off + length l -> c (i / batch_size) = false) ->
  mstf c off l = l.
Proof.
  induction l as [|b l IH]; intros off H; [reflexivity|].
  cbn [mstf]. cbn [length] in H. rewrite (H off) by lia.
  rewrite (IH (S off)) by (intros i H1 H2; apply H; lia). reflexivity.
Qed.

Lemma ingest_mig : forall b, ingest_block (mig b) = Some (mig b).
Proof. reflexivity. Qed.

Lemma map_opt_mstf : forall c l off, (forall b, In b l -> block_wf_old b = true) ->
  map_opt ingest_block (mstf c off l) = Some (map mig l).
Proof.
  induction l as [|a l IH]; intros off H; [reflexivity|].
  cbn [mstf map_opt map].
  rewrite (IH (S off)) by (intros b Hb; apply H; right; exact Hb).
  destruct (c (off / batch_size)).
  - rewrite ingest_mig. reflexivity.
  - rewrite ingest_wf by (apply H; left; reflexivity). reflexivity.
Qed.

Lemma ingest_mst : forall db c j, wf_old db = true ->
  ingest_range (mstf c 0 db) (j * batch_size)
  = Some (mstf (fun i => Nat.eqb i j || c i) 0 db).
Proof.
  intros db c j W. unfold ingest_range.
  rewrite skipn_mstf, firstn_mstf.
  rewrite map_opt_mstf.
  2:{ intros b Hb. apply (wf_in db W). eapply in_skipn. eapply in_firstn. exact Hb. }
  rewrite firstn_mstf, skipn_mstf. cbn [Nat.add].
  set (c' := fun i => Nat.eqb i j || c i).
  rewrite (mstf_split (j * batch_size) c' 0 db). cbn [Nat.add].
  rewrite (mstf_split batch_size c' (j * batch_size) (skipn (j * batch_size) db)).
  rewrite <- skipn_add.
  rewrite (mstf_ext c' c (firstn (j * batch_size) db) 0).
  2:{ intros i _ Hi. pose proof (firstn_le_length (j * batch_size) db).
      pose proof (div_lt i j). unfold c'.
      replace (Nat.eqb (i / batch_size) j) with false; [reflexivity|].
      symmetry. apply Nat.eqb_neq. lia. }
  rewrite (mstf_true c' (firstn batch_size (skipn (j * batch_size) db)) (j * batch_size)).
  2:{ intros i H1 H2.
      pose proof (firstn_le_length batch_size (skipn (j * batch_size) db)).
      unfold c'. rewrite (div_in i j) by lia. rewrite Nat.eqb_refl. reflexivity. }
  rewrite (mstf_ext c' c (skipn (j * batch_size + batch_size) db) (j * batch_size + batch_size)).
  2:{ intros i H1 _. pose proof (div_ge i (S j)). unfold c'.
      replace (Nat.eqb (i / batch_size) j) with false; [reflexivity|].
      symmetry. apply Nat.eqb_neq. lia. }
  reflexivity.
Qed.

Lemma mst_all : forall db c j, length db <= j * batch_size ->
  (forall i, i < j -> c i = true) -> mstf c 0 db = map mig db.
Proof.
  intros db c j Hl Hc. apply mstf_true. intros i _ Hi. apply Hc. apply div_lt. lia.
Qed.

Lemma first_false : forall (c : nat -> bool) n,
  (forall i, i < n -> c i = true) \/
  (exists k, k < n /\ c k = false /\ forall i, i < k -> c i = true).
Proof.
  intros c. induction n as [|n IH].
  - left. intros i Hi. lia.
  - destruct IH as [H|[k [Hk [Hf Hb]]]].
    + destruct (c n) eqn:E.
      * left. intros i Hi. destruct (Nat.eq_dec i n) as [->|Hn]; [exact E|apply H; lia].
      * right. exists n. split; [lia|]. split; [exact E|exact H].
    + right. exists k. split; [lia|]. split; [exact Hf|exact Hb].
Qed.

Lemma existsb_find_index_len : forall A (p : A -> bool) l,
  existsb p l = true -> exists i, find_index p l = Some i /\ i < length l.
Proof.
  induction l as [|a l IH]; intros H; [discriminate|].
  cbn [existsb find_index length] in *.
  destruct (p a).
  - exists 0. split; [reflexivity|lia].
  - cbn [orb] in H. apply IH in H. destruct H as [i [Hi Hl]].
    exists (S i). rewrite Hi. split; [reflexivity|lia].
Qed.

Lemma find_index_app_some : forall A (p : A -> bool) l1 l2 i,
  find_index p l1 = Some i -> find_index p (l1 ++ l2) = Some i.
Proof.
  induction l1 as [|a l1 IH]; intros l2 i H; [discriminate|].
  cbn [app find_index] in *. destruct (p a); [exact H|].
  destruct (find_index p l1) as [i'|] eqn:E; [|discriminate].
  rewrite (IH l2 i' eq_refl). exact H.
Qed.

Lemma get_first_mst : forall db c k,
  wf_old db = true -> no_empty_range db = true -> k * batch_size < length db ->
  c k = false -> (forall i, i < k -> c i = true) ->
  get_first (mstf c 0 db) = FSome (k * batch_size).
Proof.
  intros db c k W N Hl Hk Hb.
  assert (Hkf : k < S (length db)) by (rewrite bs_eq in Hl; lia).
  pose proof (ner_exists k _ db N Hkf Hl) as E.
  apply existsb_find_index_len in E. destruct E as [i [Hi Hlt]].
  pose proof (firstn_le_length batch_size (skipn (k * batch_size) db)) as Hlen.
  assert (Wk : forall b, In b (firstn batch_size (skipn (k * batch_size) db)) ->
                         block_wf_old b = true).
  { intros b Hb'. apply (wf_in db W). eapply in_skipn. eapply in_firstn. exact Hb'. }
  assert (Hotx : find_index (fun b => nonempty (b_otx b))
                   (firstn batch_size (skipn (k * batch_size) db)) = Some i).
  { rewrite (find_index_ext _ _ (fun b => N.ltb 0 (b_count b)))
      by (intros x Hx; apply wf_otx, Wk, Hx). exact Hi. }
  assert (Horc : find_index (fun b => nonempty (b_orc b))
                   (firstn batch_size (skipn (k * batch_size) db)) = Some i).
  { rewrite (find_index_ext _ _ (fun b => N.ltb 0 (b_count b)))
      by (intros x Hx; apply wf_orc, Wk, Hx). exact Hi. }
  rewrite (mstf_split (k * batch_size) c 0 db). cbn [Nat.add].
  rewrite (mstf_true c (firstn (k * batch_size) db) 0).
  2:{ intros j _ Hj. pose proof (firstn_le_length (k * batch_size) db).
      apply Hb. apply div_lt. lia. }
  rewrite (mstf_split batch_size c (k * batch_size) (skipn (k * batch_size) db)).
  rewrite (mstf_false c (firstn batch_size (skipn (k * batch_size) db)) (k * batch_size)).
  2:{ intros j H1 H2. rewrite (div_in j k) by lia. exact Hk. }
  unfold get_first.
  rewrite !find_index_stt by reflexivity.
  rewrite (find_index_app_some _ _ _ _ _ Hotx), (find_index_app_some _ _ _ _ _ Horc).
  cbn [option_map]. rewrite Nat.eqb_refl.
  rewrite firstn_length_le by lia.
  f_equal.
  rewrite (Nat.add_comm (k * batch_size) i), Nat.mod_add by apply bs_ne.
  rewrite Nat.mod_small by lia. lia.
Qed.

Lemma bt_head_mig : forall db, bt_head (map mig db) = (map mig db, Done).
Proof.
  intros db. rewrite <- (stt_all db (length db)) at 1 by lia. apply bt_head_done. lia.
Qed.

Lemma mstf_ne : forall db c, db <> [] -> mstf c 0 db <> [].
Proof.
  intros db c H E. apply H. apply length_zero_iff_nil.
  rewrite <- (mstf_length c db 0), E. reflexivity.
Qed.

Lemma sweep_mst : forall db, db <> [] -> wf_old db = true ->
  forall fuel j c, length db - j * batch_size < fuel -> (forall i, i < j -> c i = true) ->
  bt_complete fuel (mstf c 0 db) (Some (Cursor (j * batch_size))) = Some (map mig db).
Proof.
  intros db Hne W. induction fuel; intros j c Hf Hc; [lia|].
  cbn [bt_complete]. rewrite bt_step_ne by (apply mstf_ne; exact Hne).
  rewrite mstf_length.
  destruct (Nat.ltb (j * batch_size) (length db)) eqn:E.
  - rewrite ingest_mst by exact W.
    replace (j * batch_size + batch_size) with (S j * batch_size) by lia.
    apply IHfuel.
    + apply Nat.ltb_lt in E. rewrite bs_eq in *. lia.
    + intros i Hi. destruct (Nat.eq_dec i j) as [->|Hn].
      * rewrite Nat.eqb_refl. reflexivity.
      * rewrite Hc by lia. apply orb_true_r.
  - apply Nat.ltb_ge in E. rewrite (mst_all db c j E Hc).
    rewrite bt_head_mig. reflexivity.
Qed.

Lemma any_run : forall db c tok,
  db <> [] -> wf_old db = true -> no_empty_range db = true ->
  (tok = None \/ tok = Some Rescan) ->
  bt_complete (length db + 3) (mstf c 0 db) tok = Some (map mig db).
Proof.
  intros db c tok Hne W N Ht.
  replace (length db + 3) with (S (length db + 2)) by lia.
  assert (Hh : bt_step (mstf c 0 db) tok false = bt_head (mstf c 0 db)).
  { rewrite bt_step_ne by (apply mstf_ne; exact Hne). destruct Ht; subst; reflexivity. }
  cbn [bt_complete]. rewrite Hh. clear Hh.
  assert (Hall : forall j, length db <= j * batch_size -> (forall i, i < j -> c i = true) ->
                 match bt_head (mstf c 0 db) with
                 | (db', Done) => Some db'
                 | (db', Suspended t) => bt_complete (length db + 2) db' (Some t)
                 | _ => None
                 end = Some (map mig db)).
  { intros j Hj Hc. rewrite (mst_all db c j Hj Hc). rewrite bt_head_mig. reflexivity. }
  destruct (first_false c (length db)) as [H|[k [Hk [Hf Hb]]]].
  - apply (Hall (length db)); [rewrite bs_eq; lia|exact H].
  - destruct (le_lt_dec (length db) (k * batch_size)) as [Hge|Hlt].
    + apply (Hall k); assumption.
    + unfold bt_head. rewrite (get_first_mst db c k) by assumption.
      rewrite ingest_mst by exact W.
      replace (k * batch_size + batch_size) with (S k * batch_size) by lia.
      apply sweep_mst; [exact Hne|exact W|lia|].
      intros i Hi. destruct (Nat.eq_dec i k) as [->|Hn].
      * rewrite Nat.eqb_refl. reflexivity.
      * rewrite Hb by lia. apply orb_true_r.
Qed.

Lemma commit_mst : forall db, wf_old db = true -> forall js c dbc,
  commit_ranges (mstf c 0 db) (map (fun j => j * batch_size) js) = Some dbc ->
  exists c', dbc = mstf c' 0 db.
Proof.
  intros db W. induction js as [|j js IH]; intros c dbc H.
  - cbn [map commit_ranges] in H. injection H as <-. exists c. reflexivity.
  - cbn [map commit_ranges] in H. rewrite ingest_mst in H by exact W.
    apply IH in H. exact H.
Qed.

(* resumption from ANY crash state between batch commits: an arbitrary set (list, any order,
   repetitions allowed) of aligned ranges already committed — not necessarily a prefix. The completed
   database is the very database the uninterrupted run produces, and it serves every block's
   original content. *)
Lemma bt_resume_any_committed_lemma : forall (db : btdb) (js : list nat) (dbc : btdb) (tok : option bttok),
  db <> [] -> wf_old db = true -> no_empty_range db = true ->
  commit_ranges db (map (fun j => j * batch_size) js) = Some dbc ->
  (tok = None \/ tok = Some Rescan) ->
  exists db', bt_complete (length db + 3) dbc tok = Some db'
    /\ bt_complete (length db + 3) db None = Some db'
    /\ preserved (map acc_old db) db' = true.
Proof.
  intros db js dbc tok Hne W N Hc Ht.
  rewrite <- (mstf_false (fun _ => false) db 0) in Hc at 1 by reflexivity.
  apply (commit_mst db W) in Hc. destruct Hc as [c' ->].
  exists (map mig db). split; [|split].
  - apply any_run; assumption.
  - pose proof (head_run db 0 None Hne W N (or_introl eq_refl)) as H.
    cbn [Nat.mul] in H. rewrite stt_0 in H. exact H.
  - apply preserved_mig.
Qed.

Print Assumptions bt_data_preserved_lemma.
Print Assumptions bt_resume_prefix_lemma.
Print Assumptions bt_resume_any_committed_lemma.
