(* C18 — state/headstate at batch granularity (HeadState.v): invariants of arbitrary attempt
   sequences, data preservation, and resumability of hs_migration env for every environment. *)
From Coq Require Import List NArith Bool Arith Lia.
From V Require Import C18.Model C18.Proofs_ResumeV.
Import ListNotations.

(* ---------- rows ---------- *)
Lemma put_row_addr : forall r, r_addr (hs_put_row r) = r_addr r.
Proof. intros. unfold hs_put_row. destruct (hs_ingest r); reflexivity. Qed.

Lemma put_row_not_put : forall r, is_put (hs_put_row r) = false.
Proof.
  intros [a c n h k]. unfold hs_put_row, is_put, hs_ingest. simpl.
  destruct c; simpl; auto. destruct k; simpl; auto. destruct h; simpl; auto.
Qed.

Lemma put_row_id : forall r, is_put r = false -> hs_put_row r = r.
Proof. intros r H. unfold hs_put_row, is_put in *. destruct (hs_ingest r); auto. discriminate. Qed.

Lemma put_row_idem : forall r, hs_put_row (hs_put_row r) = hs_put_row r.
Proof. intros. apply put_row_id. apply put_row_not_put. Qed.

Lemma put_row_err : forall r, is_err (hs_put_row r) = is_err r.
Proof.
  intros [a c n h k]. unfold hs_put_row, is_err, hs_ingest. simpl.
  destruct c; simpl; auto. destruct k; simpl; auto. destruct h; simpl; auto.
Qed.

Lemma is_put_class : forall r, is_put r = true -> has_class r = true.
Proof. intros [a c n h k]. unfold is_put, has_class, hs_ingest. simpl. destruct c; auto. Qed.

Lemma is_err_class : forall r, is_err r = true -> has_class r = true.
Proof. intros [a c n h k]. unfold is_err, has_class, hs_ingest. simpl. destruct c; auto. Qed.

Lemma clear_not_put : forall k r, 1 <= k -> is_put (hs_clear k r) = false.
Proof.
  intros k [a c n h q] Hk. destruct k; [lia|]. unfold is_put, hs_ingest, hs_clear. simpl. reflexivity.
Qed.

Lemma clear_not_err : forall k r, 1 <= k -> is_err (hs_clear k r) = false.
Proof.
  intros k [a c n h q] Hk. destruct k; [lia|]. unfold is_err, hs_ingest, hs_clear. simpl. reflexivity.
Qed.

Lemma clear_clear3 : forall k r, hs_clear 3 (hs_clear k r) = hs_clear 3 r.
Proof. intros k [a c n h q]. unfold hs_clear. simpl. reflexivity. Qed.

Lemma clear3_empty : forall r, hs_nonempty r = false -> hs_nonempty (hs_clear 3 (hs_put_row r)) = false.
Proof.
  intros [a c n h q] H. unfold hs_nonempty in *. simpl in *.
  destruct c, n, h, q; simpl in *; try discriminate. reflexivity.
Qed.

(* ---------- commits as one map ---------- *)
Definition put_if (bs : list (list N)) (r : hrow) : hrow :=
  if in_batches_N bs (r_addr r) then hs_put_row r else r.

Lemma in_batches_N_cons : forall b bs a, in_batches_N (b :: bs) a = mem_N a b || in_batches_N bs a.
Proof. reflexivity. Qed.

Lemma commits_map : forall bs db, hs_commits db bs = map (put_if bs) db.
Proof.
  induction bs as [|b bs IH]; intros db.
  - simpl. unfold put_if. simpl. symmetry. apply map_id.
  - unfold hs_commits in *. cbn [fold_left]. rewrite IH. unfold hs_commit. rewrite map_map.
    apply map_ext. intros r. unfold put_if. rewrite in_batches_N_cons.
    destruct (mem_N (r_addr r) b) eqn:Eb; simpl.
    + rewrite put_row_addr. destruct (in_batches_N bs (r_addr r)); auto. apply put_row_idem.
    + reflexivity.
Qed.

Lemma commit_as_commits_hs : forall db b, hs_commit db b = hs_commits db [b].
Proof. reflexivity. Qed.

Lemma put_put_if : forall bs r, hs_put_row (put_if bs r) = hs_put_row r.
Proof. intros. unfold put_if. destruct (in_batches_N bs (r_addr r)); auto. apply put_row_idem. Qed.

Lemma commit_all_commits : forall bs db, hs_commit_all (hs_commits db bs) = hs_commit_all db.
Proof.
  intros. rewrite commits_map. unfold hs_commit_all. rewrite map_map. apply map_ext. apply put_put_if.
Qed.

Lemma complete_commits : forall bs db, hs_complete (hs_commits db bs) = hs_complete db.
Proof. intros. unfold hs_complete. rewrite commit_all_commits. reflexivity. Qed.

(* ---------- the completion as filter . map ---------- *)
Definition fin_row (r : hrow) : hrow := hs_clear 3 (hs_put_row r).

Lemma complete_map : forall db, hs_complete db = filter hs_nonempty (map fin_row db).
Proof. intros. unfold hs_complete, hs_wipe, hs_commit_all. rewrite map_map. reflexivity. Qed.

Lemma filter_map_filter : forall (f : hrow -> hrow) l,
  (forall r, hs_nonempty r = false -> hs_nonempty (f r) = false) ->
  filter hs_nonempty (map f (filter hs_nonempty l)) = filter hs_nonempty (map f l).
Proof.
  intros f l Hf. induction l as [|r l IH]; simpl; auto.
  destruct (hs_nonempty r) eqn:E; simpl; rewrite IH; auto.
  rewrite (Hf r E). reflexivity.
Qed.

Definition no_put (db : hsdb) : Prop := forall r, In r db -> is_put r = false.

Lemma no_put_commit_all : forall db, no_put (hs_commit_all db).
Proof.
  intros db r H. unfold hs_commit_all in H. apply in_map_iff in H. destruct H as [r0 [E _]]. subst.
  apply put_row_not_put.
Qed.

Lemma commit_all_id : forall db, no_put db -> hs_commit_all db = db.
Proof.
  intros db H. unfold hs_commit_all. rewrite <- (map_id db) at 2. apply map_ext_in.
  intros r Hr. apply put_row_id. auto.
Qed.

Lemma complete_wipe : forall k db, no_put db -> hs_complete (hs_wipe k db) = hs_complete db.
Proof.
  intros k db Hn. destruct k as [|k]; auto. unfold hs_wipe. rewrite !complete_map.
  rewrite filter_map_filter by (apply clear3_empty). rewrite map_map. f_equal.
  apply map_ext_in. intros r Hr. unfold fin_row.
  rewrite (put_row_id (hs_clear (S k) r)) by (apply clear_not_put; lia).
  rewrite (put_row_id r) by (apply Hn; auto). apply clear_clear3.
Qed.

Lemma no_put_wipe : forall k db, 1 <= k -> no_put (hs_wipe k db).
Proof.
  intros k db Hk r H. destruct k; [lia|]. unfold hs_wipe in H. apply filter_In in H. destruct H as [H _].
  apply in_map_iff in H. destruct H as [r0 [E _]]. subst. apply clear_not_put. lia.
Qed.

Lemma wipe3_no_put : forall db, no_put db -> hs_wipe 3 db = hs_complete db.
Proof. intros. unfold hs_complete. rewrite commit_all_id; auto. Qed.

(* ---------- coverage ---------- *)
Lemma classes_In : forall db r, In r (hs_classes db) <-> In r db /\ has_class r = true.
Proof. intros. unfold hs_classes. apply filter_In. Qed.

Lemma covered_all : forall db bs,
  hs_covered db (length (hs_classes db)) bs = true ->
  (forall r, In r db -> is_err r = false) /\
  (forall r, In r db -> is_put r = true -> in_batches_N bs (r_addr r) = true).
Proof.
  intros db bs H. unfold hs_covered in H. rewrite firstn_all in H. rewrite forallb_forall in H. split.
  - intros r Hr. destruct (is_err r) eqn:E; auto.
    assert (Hc : In r (hs_classes db)) by (apply classes_In; split; auto; apply is_err_class; auto).
    specialize (H r Hc). rewrite E in H. discriminate.
  - intros r Hr Hp.
    assert (Hc : In r (hs_classes db)) by (apply classes_In; split; auto; apply is_put_class; auto).
    specialize (H r Hc). rewrite Hp in H. apply andb_true_iff in H. destruct H as [_ H]. exact H.
Qed.

Lemma covered_commits : forall db bs,
  (forall r, In r db -> is_put r = true -> in_batches_N bs (r_addr r) = true) ->
  hs_commits db bs = hs_commit_all db.
Proof.
  intros db bs H. rewrite commits_map. unfold hs_commit_all. apply map_ext_in. intros r Hr.
  unfold put_if. destruct (in_batches_N bs (r_addr r)) eqn:E; auto.
  symmetry. apply put_row_id. destruct (is_put r) eqn:Ep; auto. rewrite (H r Hr Ep) in E. discriminate.
Qed.

(* ---------- one attempt ---------- *)
Definition hs_init (db : hsdb) : hs_pstate := {| hp_db := db; hp_tok := false; hp_applied := false |}.

Definition hs_inv (R : hsdb) (s : hs_pstate) : Prop :=
  hs_complete (hp_db s) = R /\ (hp_applied s = true -> hp_db s = R).

Lemma wiped_attempt_complete : forall db a k,
  hs_covered db (length (hs_classes db)) (ha_batches a) = true ->
  hs_complete (hs_wipe k (hs_commits db (ha_batches a))) = hs_complete db.
Proof.
  intros db a k Hc. destruct (covered_all db _ Hc) as [_ Hp].
  rewrite (covered_commits db _ Hp). rewrite complete_wipe by (apply no_put_commit_all).
  unfold hs_complete. rewrite commit_all_id; auto. apply no_put_commit_all.
Qed.

Lemma hs_apply_inv : forall R s a,
  hs_inv R s -> (hp_applied s || hs_attempt_ok (hp_db s) a) = true -> hs_inv R (hs_apply s a).
Proof.
  intros R s a [I1 I2] Hok. unfold hs_apply.
  destruct (hp_applied s) eqn:Ea. { split; auto. }
  simpl in Hok. unfold hs_attempt_ok in Hok.
  destruct (ha_end a) eqn:Ee; unfold hs_inv; cbn [hp_db hp_applied].
  - repeat (apply andb_true_iff in Hok; destruct Hok as [Hok ?]).
    apply Nat.eqb_eq in Hok. rewrite Hok.
    destruct (covered_all _ _ H) as [_ Hp]. rewrite (covered_commits _ _ Hp).
    split.
    + rewrite complete_wipe by (apply no_put_commit_all). unfold hs_complete.
      rewrite (commit_all_id (hs_commit_all _)) by (apply no_put_commit_all). exact I1.
    + intros _. exact I1.
  - apply andb_true_iff in Hok. destruct Hok as [Hw _]. apply Nat.eqb_eq in Hw. rewrite Hw.
    simpl. rewrite complete_commits. split; auto. discriminate.
  - apply andb_true_iff in Hok. destruct Hok as [_ Hw]. split; [|discriminate].
    destruct (ha_wipes a) as [|[|[|k]]]; try discriminate.
    + simpl. rewrite complete_commits. auto.
    + rewrite wiped_attempt_complete; auto.
    + rewrite wiped_attempt_complete; auto.
  - apply andb_true_iff in Hok. destruct Hok as [_ Hw]. split; [|discriminate].
    destruct (ha_wipes a) as [|[|[|[|k]]]]; try discriminate.
    + simpl. rewrite complete_commits. auto.
    + rewrite wiped_attempt_complete; auto.
    + rewrite wiped_attempt_complete; auto.
    + rewrite wiped_attempt_complete; auto.
Qed.

Lemma hs_run_inv : forall R l s, hs_inv R s -> hs_attempts_ok s l = true -> hs_inv R (hs_run s l).
Proof.
  induction l as [|a l IH]; intros s HI Hok; simpl in *; auto.
  apply andb_true_iff in Hok. destruct Hok as [H1 H2]. apply IH; auto. apply hs_apply_inv; auto.
Qed.

(* every valid sequence of attempts that ends with the bit set ends in hs_complete db0 *)
Lemma hs_resume_lemma : forall db0 l,
  hs_attempts_ok (hs_init db0) l = true ->
  hs_complete (hp_db (hs_run (hs_init db0) l)) = hs_complete db0 /\
  (hp_applied (hs_run (hs_init db0) l) = true -> hp_db (hs_run (hs_init db0) l) = hs_complete db0).
Proof.
  intros db0 l Hok. apply (hs_run_inv (hs_complete db0) l (hs_init db0)); auto.
  split; auto. discriminate.
Qed.

(* ---------- the postcondition ---------- *)
Lemma wiped_complete : forall db, hs_wiped (hs_complete db) = true.
Proof.
  intros. rewrite complete_map. unfold hs_wiped. apply forallb_forall. intros r H.
  apply filter_In in H. destruct H as [H _]. apply in_map_iff in H. destruct H as [r0 [E _]]. subst.
  unfold fin_row, hs_clear. simpl. reflexivity.
Qed.

Lemma put_row_contract : forall r, has_class r = true -> is_err r = false ->
  is_some (r_contract (hs_put_row r)) = true.
Proof.
  intros [a c n h k] Hc He. unfold hs_put_row, has_class, is_err, hs_ingest in *. simpl in *.
  destruct c; try discriminate. destruct k; simpl; auto. destruct h; simpl in *; auto.
Qed.

Definition every_contract_migrated (db db' : hsdb) : bool :=
  forallb (fun r => negb (has_class r) ||
                    existsb (fun r' => N.eqb (r_addr r') (r_addr r) && is_some (r_contract r')) db') db.

Lemma complete_migrates : forall db, (forall r, In r db -> is_err r = false) ->
  every_contract_migrated db (hs_complete db) = true.
Proof.
  intros db He. unfold every_contract_migrated. apply forallb_forall. intros r Hr.
  destruct (has_class r) eqn:Ec; simpl; auto.
  apply existsb_exists. exists (fin_row r).
  assert (Hk : is_some (r_contract (fin_row r)) = true).
  { unfold fin_row, hs_clear. simpl. apply put_row_contract; auto. }
  split.
  - rewrite complete_map. apply filter_In. split. { apply in_map. auto. }
    unfold hs_nonempty. apply orb_true_iff. right. exact Hk.
  - rewrite Hk, andb_true_r. apply N.eqb_eq. unfold fin_row, hs_clear. simpl. apply put_row_addr.
Qed.

Lemma hs_done_post_lemma : forall db a,
  hs_attempt_ok db a = true -> ha_end a = HEDone ->
  let db' := hs_wipe (ha_wipes a) (hs_commits db (ha_batches a)) in
  db' = hs_complete db /\ hs_wiped db' = true /\ every_contract_migrated db db' = true.
Proof.
  intros db a Hok He db'. unfold hs_attempt_ok in Hok. rewrite He in Hok.
  repeat (apply andb_true_iff in Hok; destruct Hok as [Hok ?]).
  apply Nat.eqb_eq in Hok. destruct (covered_all _ _ H) as [Hne Hp].
  assert (E : db' = hs_complete db).
  { unfold db'. rewrite Hok, (covered_commits _ _ Hp). reflexivity. }
  rewrite E. split; auto. split. apply wiped_complete. apply complete_migrates; auto.
Qed.

(* ---------- data preservation ---------- *)
Lemma flat_map_filter_ne : forall B (f : hrow -> list B) l,
  (forall r, hs_nonempty r = false -> f r = []) ->
  flat_map f (filter hs_nonempty l) = flat_map f l.
Proof.
  intros B f l Hf. induction l as [|r l IH]; simpl; auto.
  destruct (hs_nonempty r) eqn:E; simpl; rewrite IH; auto. rewrite (Hf r E). reflexivity.
Qed.

Lemma flat_map_ext_in : forall A B (f g : A -> list B) l,
  (forall x, In x l -> f x = g x) -> flat_map f l = flat_map g l.
Proof.
  induction l as [|a l IH]; intros H; simpl; auto. rewrite (H a) by (left; auto).
  rewrite IH; auto. intros x Hx. apply H. right; auto.
Qed.

Lemma hs_view_preserved_lemma : forall db,
  hs_consistent db = true -> hs_new_view (hs_complete db) = hs_legacy_view db.
Proof.
  intros db Hc. rewrite complete_map. unfold hs_new_view, hs_legacy_view.
  rewrite flat_map_filter_ne.
  2:{ intros [a c n h k] H. unfold hs_nonempty in H. simpl in *. destruct k; auto.
      repeat rewrite orb_true_r in H. discriminate. }
  rewrite flat_map_concat_map, map_map, <- flat_map_concat_map.
  apply flat_map_ext_in. intros [a c n h k] Hr.
  unfold hs_consistent in Hc. rewrite forallb_forall in Hc. specialize (Hc _ Hr). simpl in Hc.
  unfold fin_row, hs_put_row, hs_ingest, hs_clear, hs_rec_of in *. simpl in *.
  destruct k as [[[kn kc] kh]|].
  - destruct c as [c|]; try discriminate. destruct h as [h|]; try discriminate.
    unfold hrec_eqb in Hc. simpl in Hc.
    repeat (apply andb_true_iff in Hc; destruct Hc as [Hc ?]).
    apply N.eqb_eq in Hc. apply N.eqb_eq in H. apply N.eqb_eq in H0. subst. simpl. reflexivity.
  - destruct c as [c|]; simpl; auto. destruct h as [h|]; try discriminate. simpl. reflexivity.
Qed.

(* ---------- the uninterrupted attempt ---------- *)
Lemma hs_ok_iff : forall db, hs_ok db = true <-> forall r, In r db -> is_err r = false.
Proof.
  intros. unfold hs_ok. rewrite forallb_forall. split; intros H r Hr; specialize (H r Hr).
  - destruct (is_err r); auto; discriminate.
  - rewrite H. reflexivity.
Qed.

Lemma mem_N_iff : forall a l, mem_N a l = true <-> In a l.
Proof.
  intros. unfold mem_N. rewrite existsb_exists. split.
  - intros [x [Hx He]]. apply N.eqb_eq in He. subst. auto.
  - intros H. exists a. split; auto. apply N.eqb_refl.
Qed.

Lemma uninterrupted_hs_ok : forall db, hs_ok db = true ->
  hs_attempt_ok db (hs_uninterrupted db) = true.
Proof.
  intros db Hok. pose proof (proj1 (hs_ok_iff db) Hok) as He.
  unfold hs_attempt_ok, hs_uninterrupted. cbn [ha_end ha_wipes ha_batches]. rewrite Nat.eqb_refl. simpl.
  apply andb_true_iff. split.
  - unfold hs_batches_ok. rewrite firstn_all. simpl. rewrite andb_true_r.
    apply forallb_forall. intros a Ha. apply in_map_iff in Ha. destruct Ha as [r [Ea Hr]].
    apply filter_In in Hr. destruct Hr as [Hr Hp].
    apply existsb_exists. exists r. split.
    + apply classes_In. split; auto. apply is_put_class. auto.
    + rewrite Ea, N.eqb_refl, Hp. reflexivity.
  - unfold hs_covered. rewrite firstn_all. apply forallb_forall. intros r Hr.
    apply classes_In in Hr. destruct Hr as [Hr Hc]. rewrite (He r Hr). simpl.
    destruct (is_put r) eqn:Ep; simpl; auto.
    apply orb_true_iff. left. apply mem_N_iff.
    apply in_map. apply filter_In. auto.
Qed.

Lemma ok_commits : forall bs db, hs_ok db = true -> hs_ok (hs_commits db bs) = true.
Proof.
  intros bs db H. apply hs_ok_iff. intros r Hr. rewrite commits_map in Hr.
  apply in_map_iff in Hr. destruct Hr as [r0 [E Hr0]]. subst. unfold put_if.
  destruct (in_batches_N bs (r_addr r0)); [rewrite put_row_err|]; apply (proj1 (hs_ok_iff db) H); auto.
Qed.

Lemma ok_wipe : forall k db, hs_ok db = true -> hs_ok (hs_wipe k db) = true.
Proof.
  intros k db H. destruct k; auto. apply hs_ok_iff. intros r Hr. unfold hs_wipe in Hr.
  apply filter_In in Hr. destruct Hr as [Hr _]. apply in_map_iff in Hr. destruct Hr as [r0 [E _]]. subst.
  apply clear_not_err. lia.
Qed.

Lemma ok_apply : forall s a, hs_ok (hp_db s) = true -> hs_ok (hp_db (hs_apply s a)) = true.
Proof.
  intros s a H. unfold hs_apply. destruct (hp_applied s); auto.
  destruct (ha_end a); simpl; apply ok_wipe; apply ok_commits; auto.
Qed.

Lemma ok_run : forall l s, hs_ok (hp_db s) = true -> hs_ok (hp_db (hs_run s l)) = true.
Proof. induction l; intros; simpl; auto. apply IHl. apply ok_apply. auto. Qed.

Lemma hs_attempts_ok_snoc : forall l s x,
  hs_attempts_ok s l = true ->
  (hp_applied (hs_run s l) || hs_attempt_ok (hp_db (hs_run s l)) x) = true ->
  hs_attempts_ok s (l ++ [x]) = true.
Proof.
  induction l as [|a l IH]; intros s x Hok Hx; simpl in *.
  - rewrite Hx. reflexivity.
  - apply andb_true_iff in Hok. destruct Hok as [H1 H2]. rewrite H1. simpl. apply IH; auto.
Qed.

Lemma hs_resume_same_db_lemma : forall db0 l,
  hs_ok db0 = true -> hs_attempts_ok (hs_init db0) l = true ->
  let s := hs_run (hs_init db0) l in
  let u := hs_uninterrupted db0 in
  hs_attempt_ok db0 u = true /\
  hp_applied (hs_apply (hs_init db0) u) = true /\
  hp_db (hs_apply (hs_init db0) u) = hs_complete db0 /\
  (hp_applied s = true -> hp_db s = hp_db (hs_apply (hs_init db0) u)) /\
  (hp_applied s = false ->
     let u' := hs_uninterrupted (hp_db s) in
     hs_attempt_ok (hp_db s) u' = true /\
     hp_applied (hs_apply s u') = true /\
     hp_db (hs_apply s u') = hp_db (hs_apply (hs_init db0) u)).
Proof.
  intros db0 l Hok Hl s u.
  pose proof (uninterrupted_hs_ok db0 Hok) as U1. fold u in U1.
  assert (Hu : hs_attempts_ok (hs_init db0) [u] = true) by (simpl; rewrite U1; reflexivity).
  destruct (hs_resume_lemma db0 [u] Hu) as [_ Du]. simpl in Du.
  assert (Au : hp_applied (hs_apply (hs_init db0) u) = true) by reflexivity.
  specialize (Du Au).
  destruct (hs_resume_lemma db0 l Hl) as [_ Dl]. fold s in Dl.
  split; auto. split; auto. split; auto. split.
  - intros Ha. rewrite Dl; auto.
  - intros Ha u'.
    assert (Hoks : hs_ok (hp_db s) = true) by (apply ok_run; auto).
    pose proof (uninterrupted_hs_ok (hp_db s) Hoks) as V1. fold u' in V1.
    assert (Hl' : hs_attempts_ok (hs_init db0) (l ++ [u']) = true).
    { apply hs_attempts_ok_snoc; auto. fold s. rewrite V1. apply orb_true_r. }
    destruct (hs_resume_lemma db0 (l ++ [u']) Hl') as [_ D'].
    unfold hs_run in D'. rewrite fold_left_app in D'. simpl in D'. fold (hs_run (hs_init db0) l) in D'.
    fold s in D'.
    assert (A' : hp_applied (hs_apply s u') = true).
    { unfold hs_apply. rewrite Ha. reflexivity. }
    split; auto. split; auto. rewrite D'; auto.
Qed.

Lemma hs_error_keeps_token_lemma : forall s a,
  (ha_end a = HEError \/ ha_end a = HECrash) ->
  hp_tok (hs_apply s a) = hp_tok s /\ hp_applied (hs_apply s a) = hp_applied s.
Proof.
  intros s a H. unfold hs_apply. destruct (hp_applied s) eqn:E; auto.
  destruct H as [H|H]; rewrite H; simpl; auto.
Qed.

(* the statement of data preservation for arbitrary attempt sequences *)
Lemma hs_data_preserved_lemma : forall db0 l,
  hs_consistent db0 = true -> hs_attempts_ok (hs_init db0) l = true ->
  let s := hs_run (hs_init db0) l in
  hp_applied s = true ->
  hp_db s = hs_complete db0 /\ hs_wiped (hp_db s) = true /\
  hs_new_view (hp_db s) = hs_legacy_view db0 /\
  (forall (F : Type) (root : list (N * (N * N * option N)) -> F),
     root (hs_new_view (hp_db s)) = root (hs_legacy_view db0)).
Proof.
  intros db0 l Hc Hok s Ha. destruct (hs_resume_lemma db0 l Hok) as [_ D]. fold s in D.
  specialize (D Ha). rewrite D. split; auto. split. apply wiped_complete.
  pose proof (hs_view_preserved_lemma db0 Hc) as V. split; auto. intros F root. rewrite V. reflexivity.
Qed.

(* ---------- crash points are attempts ---------- *)
Lemma firstn_le_In : forall A (l : list A) k n x, k <= n -> In x (firstn k l) -> In x (firstn n l).
Proof.
  induction l as [|a l IH]; intros k n x Hk H; destruct k; simpl in *; try contradiction.
  destruct n; [lia|]. simpl. destruct H; auto. right. apply (IH k); auto. lia.
Qed.

Lemma batches_ok_weaken : forall db k n bs, k <= n -> hs_batches_ok db k bs = true -> hs_batches_ok db n bs = true.
Proof.
  intros db k n bs Hk H. unfold hs_batches_ok in *. rewrite forallb_forall in *. intros b Hb.
  specialize (H b Hb). rewrite forallb_forall in *. intros a Ha. specialize (H a Ha).
  apply existsb_exists in H. destruct H as [r [Hr Hp]]. apply existsb_exists. exists r. split; auto.
  eapply firstn_le_In; eauto.
Qed.

Lemma forallb_firstn_hs : forall A (p : A -> bool) l j, forallb p l = true -> forallb p (firstn j l) = true.
Proof.
  induction l as [|a l IH]; intros j H; destruct j; simpl in *; auto.
  apply andb_true_iff in H. destruct H as [H1 H2]. rewrite H1. simpl. apply IH; auto.
Qed.

Lemma attempt_batches_ok : forall db a, hs_attempt_ok db a = true ->
  hs_batches_ok db (length (hs_classes db)) (ha_batches a) = true.
Proof.
  intros db a H. unfold hs_attempt_ok in H. destruct (ha_end a).
  - repeat (apply andb_true_iff in H; destruct H as [H ?]). auto.
  - apply andb_true_iff in H. destruct H as [_ H]. apply existsb_exists in H. destruct H as [k [Hk H]].
    apply andb_true_iff in H. destruct H as [H _]. apply in_seq in Hk.
    apply (batches_ok_weaken db k); auto. lia.
  - apply andb_true_iff in H. tauto.
  - apply andb_true_iff in H. tauto.
Qed.

Lemma attempt_wipes_covered : forall db a, hs_attempt_ok db a = true -> 1 <= ha_wipes a ->
  hs_covered db (length (hs_classes db)) (ha_batches a) = true /\ ha_wipes a <= 3.
Proof.
  intros db a H Hw. unfold hs_attempt_ok in H. destruct (ha_end a).
  - repeat (apply andb_true_iff in H; destruct H as [H ?]). apply Nat.eqb_eq in H. split; auto. lia.
  - apply andb_true_iff in H. destruct H as [H _]. apply Nat.eqb_eq in H. lia.
  - apply andb_true_iff in H. destruct H as [_ H].
    destruct (ha_wipes a) as [|[|[|k]]]; try discriminate; try lia; split; auto; lia.
  - apply andb_true_iff in H. destruct H as [_ H].
    destruct (ha_wipes a) as [|[|[|[|k]]]]; try discriminate; try lia; split; auto; lia.
Qed.

(* the process dying after any write of a producible attempt — after j batches, or after all
   batches and w of the DeleteRanges — is a producible attempt *)
Lemma hs_crash_point_lemma : forall db a,
  hs_attempt_ok db a = true ->
  (forall j, hs_attempt_ok db {| ha_batches := firstn j (ha_batches a); ha_wipes := 0; ha_end := HECrash |} = true) /\
  (forall w, w <= ha_wipes a ->
     hs_attempt_ok db {| ha_batches := ha_batches a; ha_wipes := w; ha_end := HECrash |} = true).
Proof.
  intros db a H. pose proof (attempt_batches_ok db a H) as Hb. split.
  - intros j. unfold hs_attempt_ok. simpl. rewrite andb_true_r. unfold hs_batches_ok in *.
    apply forallb_firstn_hs. auto.
  - intros w Hw. unfold hs_attempt_ok. simpl. rewrite Hb. simpl.
    destruct w as [|w]; auto.
    destruct (attempt_wipes_covered db a H) as [Hc H3]; [lia|].
    destruct w as [|[|[|w]]]; auto. lia.
Qed.
