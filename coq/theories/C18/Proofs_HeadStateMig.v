(* C18 — state/headstate as a migration of the runner model (hs_migration env) is resumable, for
   every environment env: completion function hs_complete, token validity hs_tok_ok, database
   invariant hs_ok (no contract without a deployment height). *)
From Coq Require Import List NArith Bool Arith Lia.
From V Require Import C18.Model C18.Proofs_ResumeV C18.Proofs_HeadState.
Import ListNotations.

Definition hs_good (db : hsdb) (t : option hstok) : Prop := hs_tok_ok db t = true.
Definition hs_okdb (db : hsdb) : Prop := hs_ok db = true.

Definition hs_step_concl (db : hsdb) (r : hsdb * @outcome hstok) : Prop :=
  hs_okdb (fst r) /\ hs_complete (fst r) = hs_complete db /\
  (forall s, hs_good db s -> hs_good (fst r) s) /\
  match snd r with
  | Done => fst r = hs_complete db
  | Suspended t' => hs_good (fst r) (Some t')
  | _ => False
  end.

(* pointwise form of the HRun / HWipe tokens *)
Lemma run_tok_iff : forall db hi rest,
  hs_tok_ok db (Some (HRun hi rest)) = true <->
  forall r, In r db -> is_put r = true -> in_batches_N rest (r_addr r) = true.
Proof.
  intros. simpl. rewrite forallb_forall. split; intros H r Hr.
  - intros Hp. specialize (H r Hr). rewrite Hp in H. exact H.
  - destruct (is_put r) eqn:Ep; simpl; auto.
Qed.

Lemma wipe_tok_iff : forall db k, hs_tok_ok db (Some (HWipe k)) = true <-> no_put db.
Proof.
  intros. simpl. rewrite forallb_forall. unfold no_put. split; intros H r Hr; specialize (H r Hr).
  - destruct (is_put r); auto; discriminate.
  - rewrite H. reflexivity.
Qed.

(* committing a batch can only remove rows from the set still to be put *)
Lemma commit_put_rows : forall db b r', In r' (hs_commit db b) -> is_put r' = true ->
  In r' db /\ mem_N (r_addr r') b = false.
Proof.
  intros db b r' H Hp. unfold hs_commit in H. apply in_map_iff in H. destruct H as [r [E Hr]].
  destruct (mem_N (r_addr r) b) eqn:Em.
  - subst r'. rewrite put_row_not_put in Hp. discriminate.
  - subst r'. auto.
Qed.

Lemma tok_ok_commit_hs : forall db b t, hs_tok_ok db t = true -> hs_tok_ok (hs_commit db b) t = true.
Proof.
  intros db b [[|hi rest|k]|] H; auto.
  - apply run_tok_iff. intros r' Hr' Hp. destruct (commit_put_rows db b r' Hr' Hp) as [Hin _].
    apply (proj1 (run_tok_iff db hi rest) H); auto.
  - apply wipe_tok_iff. intros r' Hr'. destruct (is_put r') eqn:Hp; auto.
    destruct (commit_put_rows db b r' Hr' Hp) as [Hin _].
    rewrite (proj1 (wipe_tok_iff db k) H r' Hin) in Hp. discriminate.
Qed.

Lemma tok_ok_wipe_hs : forall db k t, 1 <= k -> hs_tok_ok (hs_wipe k db) t = true.
Proof.
  intros db k [[|hi rest|j]|] Hk; auto.
  - apply run_tok_iff. intros r Hr Hp. rewrite (no_put_wipe k db Hk r Hr) in Hp. discriminate.
  - apply wipe_tok_iff. apply no_put_wipe. auto.
Qed.

Lemma ok_commit_hs : forall db b, hs_ok db = true -> hs_ok (hs_commit db b) = true.
Proof. intros. rewrite commit_as_commits_hs. apply ok_commits. auto. Qed.

Lemma complete_commit_hs : forall db b, hs_complete (hs_commit db b) = hs_complete db.
Proof. intros. rewrite commit_as_commits_hs. apply complete_commits. Qed.

Lemma existsb_false_in : forall A (p : A -> bool) l, (forall x, In x l -> p x = false) -> existsb p l = false.
Proof.
  intros A p l H. destruct (existsb p l) eqn:E; auto. apply existsb_exists in E.
  destruct E as [x [Hx Hp]]. rewrite (H x Hx) in Hp. discriminate.
Qed.

Lemma In_firstn : forall A (l : list A) k x, In x (firstn k l) -> In x l.
Proof.
  induction l as [|a l IH]; intros k x H; destruct k; simpl in *; auto; try contradiction.
  destruct H; auto. right. eapply IH; eauto.
Qed.

(* committing the addresses of every contract of the legacy layout puts everything *)
Lemma commit_classes_all : forall db, hs_commit db (map r_addr (hs_classes db)) = hs_commit_all db.
Proof.
  intros. rewrite commit_as_commits_hs. apply covered_commits. intros r Hr Hp.
  rewrite in_batches_N_cons. apply orb_true_iff. left. apply mem_N_iff. apply in_map.
  apply classes_In. split; auto. apply is_put_class. auto.
Qed.

Section Mig.
Variable env : hs_env.

Lemma hs_pipe_concl : forall db hi rest c,
  hs_okdb db -> hs_good db (Some (HRun hi rest)) -> hs_step_concl db (hs_pipe env db hi rest c).
Proof.
  intros db hi rest c Hok Hg. pose proof (proj1 (hs_ok_iff db) Hok) as He.
  pose proof (proj1 (run_tok_iff db hi rest) Hg) as Hr.
  assert (Hcls : forall r, In r (hs_classes db) -> is_err r = false).
  { intros r H. apply classes_In in H. apply He. tauto. }
  unfold hs_pipe. destruct c.
  - set (k := Nat.min (length (hs_classes db)) (hi + snd (env db hi))).
    rewrite existsb_false_in by (intros r H; apply Hcls; eapply In_firstn; eauto).
    destruct (Nat.eqb_spec k (length (hs_classes db))) as [Ek|Ek]; unfold hs_step_concl; cbn [fst snd].
    + rewrite Ek, firstn_all, commit_classes_all. fold (hs_complete db).
      split; [|split; [|split]]; auto.
      * unfold hs_okdb, hs_complete. apply ok_wipe. unfold hs_commit_all.
        rewrite <- commit_classes_all. apply ok_commit_hs. auto.
      * unfold hs_complete at 2. rewrite complete_wipe by (apply no_put_commit_all).
        unfold hs_complete. rewrite (commit_all_id (hs_commit_all db)) by (apply no_put_commit_all). reflexivity.
      * intros s _. unfold hs_good, hs_complete. apply tok_ok_wipe_hs. lia.
    + split; [|split; [|split]].
      * apply ok_commit_hs. auto.
      * apply complete_commit_hs.
      * intros s Hs. apply tok_ok_commit_hs. auto.
      * reflexivity.
  - destruct rest as [|b rest'].
    + rewrite existsb_false_in by auto. unfold hs_step_concl. cbn [fst snd].
      assert (Hnp : no_put db).
      { intros r H. destruct (is_put r) eqn:Ep; auto. specialize (Hr r H Ep). discriminate. }
      split; [|split; [|split]].
      * apply ok_wipe. auto.
      * apply complete_wipe. auto.
      * intros s _. apply tok_ok_wipe_hs. lia.
      * apply wipe_tok_iff. apply no_put_wipe. lia.
    + rewrite existsb_false_in.
      2:{ intros r H. rewrite (Hcls r H). apply andb_false_r. }
      unfold hs_step_concl. cbn [fst snd]. split; [|split; [|split]].
      * apply ok_commit_hs. auto.
      * apply complete_commit_hs.
      * intros s Hs. apply tok_ok_commit_hs. auto.
      * apply run_tok_iff. intros r' Hr' Hp. destruct (commit_put_rows db b r' Hr' Hp) as [Hin Hm].
        specialize (Hr r' Hin Hp). rewrite in_batches_N_cons, Hm in Hr. exact Hr.
Qed.

Lemma hs_step_concl_lemma : forall db t c,
  hs_okdb db -> hs_good db t -> hs_step_concl db (hs_step env db t c).
Proof.
  intros db t c Hok Hg.
  assert (Hhead : hs_step_concl db (hs_pipe env db 0 (fst (env db 0) ++ [map r_addr (hs_classes db)]) c)).
  { apply hs_pipe_concl; auto. apply run_tok_iff. intros r Hr Hp.
    unfold in_batches_N. rewrite existsb_app. apply orb_true_iff. right. simpl.
    apply orb_true_iff. left. apply mem_N_iff. apply in_map. apply classes_In. split; auto.
    apply is_put_class. auto. }
  unfold hs_step. destruct t as [[|hi rest|k]|]; auto.
  - apply hs_pipe_concl; auto.
  - pose proof (proj1 (wipe_tok_iff db k) Hg) as Hnp.
    assert (Hfin : hs_step_concl db (hs_wipe 3 db, Done)).
    { unfold hs_step_concl. cbn [fst snd]. split; [|split; [|split]].
      - apply ok_wipe. auto.
      - apply complete_wipe. auto.
      - intros s _. apply tok_ok_wipe_hs. lia.
      - apply wipe3_no_put. auto. }
    destruct c; auto. destruct (Nat.leb 2 k); auto.
    unfold hs_step_concl. cbn [fst snd]. split; [|split; [|split]].
    + apply ok_wipe. auto.
    + apply complete_wipe. auto.
    + intros s _. apply tok_ok_wipe_hs. lia.
    + apply wipe_tok_iff. apply no_put_wipe. lia.
Qed.

End Mig.

Lemma hs_resumable_lemma : forall (env : hs_env) (i : nat),
  resumable_at (fun _ => hs_complete) (fun _ db t => hs_tok_ok db t = true) (fun db => hs_ok db = true)
               i (hs_migration env).
Proof.
  intros env i db t c db' o Hok Hg Hs. simpl in Hs.
  pose proof (hs_step_concl_lemma env db t c Hok Hg) as H. rewrite Hs in H. exact H.
Qed.
