(* C18 — IoError interruptions: a Migrate call that returned an error ends the process lifetime
   with RFailed; nothing is stored and nothing is applied after it. Plus statedifflength's result
   decision: an error never yields a checkpoint. *)
From Coq Require Import List NArith Bool Arith Lia.
From V Require Import C18.Model C18.Proofs.
Import ListNotations.

Section Io.
Variables DB Tok : Type.
Notation migration := (@migration DB Tok).
Notation pstate := (@pstate DB Tok).
Notation mstate := (@mstate DB Tok).
Notation event := (@event Tok).

Definition no_failed (l : list event) : Prop := forall i, ~ In (EReturn i Failed) l.

(* the pair returned by invoke carries an error exactly when the logged return is Failed *)
Lemma invoke_failed : forall (m : migration) i fuel (st : mstate) tok st' t' e,
  invoke m i fuel st tok = (st', Some (t', e)) ->
  exists o, ms_log st' = EReturn i o :: ms_log st /\ (o = Failed <-> e = EOther).
Proof.
  induction fuel; intros st tok st' t' e H; simpl in H; try discriminate.
  destruct (mig_step m (pdb (ms_p st)) tok _) as [db' o].
  destruct (cancelled (ms_clk st)).
  - inversion H; subst; clear H. exists o. split; auto.
    destruct o; split; intro; try discriminate; auto; congruence.
  - destruct (faulted (ms_clk st)).
    { inversion H; subst. exists Failed. split; auto. tauto. }
    destruct o.
    + inversion H; subst. exists Done. split; auto. split; intro; discriminate.
    + apply IHfuel in H. destruct H as [o [Hl Ho]]. exists o. split; auto.
    + inversion H; subst. eexists. split; [reflexivity|]. split; intro; discriminate.
    + inversion H; subst. exists Failed. split; auto. tauto.
    + inversion H; subst. exists Done. split; auto. split; intro; discriminate.
Qed.

Lemma no_failed_cons : forall (e : event) l,
  no_failed l -> (forall i, e <> EReturn i Failed) -> no_failed (e :: l).
Proof. intros e l H He i [Hi|Hi]. - eapply He; eauto. - eapply H; eauto. Qed.

Lemma run_pending_failed : forall (es : list migration) fuel pend (st st' : mstate) r,
  run_pending es fuel pend st = (st', r) -> no_failed (ms_log st) ->
  no_failed (ms_log st') \/
  (r = RFailed /\ exists i, ms_log st' = EReturn i Failed :: tl (ms_log st') /\ no_failed (tl (ms_log st'))).
Proof.
  intros es fuel. induction pend as [|i rest IH]; intros st st' r H Hn; simpl in H.
  - inversion H; subst; auto.
  - destruct (cancelled (ms_clk st)). { inversion H; subst; auto. }
    destruct (nth_error es i) as [m|]. 2:{ inversion H; subst; auto. }
    assert (Hn0 : no_failed (ms_log (emit (EInvoke i (lookup (inter (ms_p st)) i)) st))).
    { simpl. apply no_failed_cons; auto. intros; discriminate. }
    destruct (invoke m i fuel (emit (EInvoke i (lookup (inter (ms_p st)) i)) st) (lookup (inter (ms_p st)) i))
      as [st1 [[t' e]|]] eqn:Ei.
    2:{ inversion H; subst. apply invoke_none_log in Ei. rewrite Ei. auto. }
    apply invoke_failed in Ei. destruct Ei as [o [Hl Ho]].
    unfold after_migrate in H.
    destruct e.
    + (* no error *)
      assert (Hn1 : no_failed (ms_log st1)).
      { rewrite Hl. apply no_failed_cons; auto. intros j E. inversion E; subst.
        destruct Ho as [Ho _]. specialize (Ho eq_refl). discriminate. }
      cbn [negb] in H. destruct (faulted (ms_clk st1)). { inversion H; subst; auto. }
      destruct t' as [t|].
      * simpl in H. destruct (cancelled (tick (ms_clk st1))).
        -- inversion H; subst. left. simpl. apply no_failed_cons; auto. intros; discriminate.
        -- eapply IH; [exact H|]. simpl. apply no_failed_cons; auto. intros; discriminate.
      * eapply IH; [exact H|]. simpl. apply no_failed_cons; auto. intros; discriminate.
    + (* the context's error *)
      assert (Hn1 : no_failed (ms_log st1)).
      { rewrite Hl. apply no_failed_cons; auto. intros j E. inversion E; subst.
        destruct Ho as [Ho _]. specialize (Ho eq_refl). discriminate. }
      destruct (negb (cancelled (ms_clk st1))). { inversion H; subst; auto. }
      destruct (faulted (ms_clk st1)). { inversion H; subst; auto. }
      destruct t' as [t|].
      * simpl in H. destruct (cancelled (tick (ms_clk st1))).
        -- inversion H; subst. left. simpl. apply no_failed_cons; auto. intros; discriminate.
        -- eapply IH; [exact H|]. simpl. apply no_failed_cons; auto. intros; discriminate.
      * eapply IH; [exact H|]. simpl. apply no_failed_cons; auto. intros; discriminate.
    + (* an error: abort, nothing written *)
      inversion H; subst. right. split; auto. exists i.
      destruct Ho as [_ Ho]. rewrite (Ho eq_refl) in Hl. rewrite Hl. simpl. split; auto.
Qed.

(* a Migrate call that returned an error is the last thing the process lifetime did: Run returns an
   error, no token is saved and no bit is applied afterwards *)
Lemma io_error_is_final_lemma : forall (es : list migration) fuel enabled c (s : pstate) st r i,
  run_boot es fuel enabled c s = (st, r) -> In (EReturn i Failed) (ms_log st) ->
  r = RFailed /\ exists j l, ms_log st = EReturn j Failed :: l /\ no_failed l.
Proof.
  intros es fuel enabled c s st r i H Hin. unfold run_boot in H.
  destruct (beyond_registry _ _ _). { inversion H; subst. contradiction. }
  destruct (opt_out_attempt _ _ _). { inversion H; subst. contradiction. }
  destruct (vcontains _ _); cbn [negb] in H. 2:{ inversion H; subst. contradiction. }
  destruct (faulted c). { inversion H; subst. contradiction. }
  destruct (bits_of _) eqn:Eb. { inversion H; subst. contradiction. }
  apply run_pending_failed in H.
  - destruct H as [Hn|[Hr [j [Hl Hn]]]].
    + exfalso. eapply Hn; eauto.
    + split; auto. exists j, (tl (ms_log st)). auto.
  - simpl. intros j [].
Qed.

End Io.

(* ---- statedifflength: the decision taken on the pipeline result ---- *)
Lemma sdl_error_never_checkpoints : forall is_done has_err next,
  has_err = true -> sdl_decide is_done has_err next = SdlError.
Proof. intros. subst. destruct is_done; reflexivity. Qed.

Lemma sdl_checkpoint_only_when_clean : forall is_done has_err next n,
  sdl_decide is_done has_err next = SdlCheckpoint n -> has_err = false /\ is_done = false /\ n = next.
Proof. intros. destruct is_done, has_err; simpl in H; inversion H; auto. Qed.
