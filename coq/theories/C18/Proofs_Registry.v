(* C18 — the node's registry [m0; m1; headstate; statedifflength] over one database record:
   with the last two migrations being the models of HeadState.v / Sdl.v (any environment, a
   different one at every start) and the first two arbitrary resumable migrations, every
   interruption schedule ends in the database of the uninterrupted run. *)
From Coq Require Import List NArith Bool Arith Lia.
From V Require Import C18.Model C18.Proofs C18.Proofs_ResumeV C18.Proofs_SdlMig C18.Proofs_HeadStateMig.
Import ListNotations.

Section Reg.
Variables X XT : Type.
Notation DB := (regdb X).
Notation Tok := (regtok XT).

Variables spec0 spec1 : DB -> DB.
Variables good0 good1 : DB -> option Tok -> Prop.
Variable okx : X -> Prop.

Definition reg_ok (d : DB) : Prop := okx (g_x d) /\ hs_ok (g_hs d) = true /\ sdl_wf (g_sd d) = true.

Definition reg_spec (i : nat) : DB -> DB :=
  match i with
  | 0 => spec0
  | 1 => spec1
  | 2 => fun d => with_hs d (hs_complete (g_hs d))
  | 3 => fun d => with_sd d (sdl_complete (g_sd d))
  | _ => fun d => d
  end.

Definition reg_good (i : nat) (d : DB) (t : option Tok) : Prop :=
  match i with
  | 0 => good0 d t
  | 1 => good1 d t
  | 2 => match t with
         | None => True
         | Some (THs x) => hs_tok_ok (g_hs d) (Some x) = true
         | _ => False
         end
  | 3 => match t with
         | None => True
         | Some (TSd x) => sdl_tok_ok (g_sd d) (Some x) = true
         | _ => False
         end
  | _ => True
  end.

Lemma lift_hs_resumable : forall env, resumable_at reg_spec reg_good reg_ok 2 (lift_hs (hs_migration env)).
Proof.
  intros env d t c d' o [Ox [Oh Os]] Hg Hs. simpl in Hs.
  set (t' := match t with Some (THs x) => Some x | _ => None end) in *.
  destruct (hs_step env (g_hs d) t' c) as [h o'] eqn:E. inversion Hs; subst d' o; clear Hs.
  assert (Hg' : hs_tok_ok (g_hs d) t' = true).
  { unfold t'. destruct t as [[x|x|x]|]; simpl in Hg; try contradiction; auto. }
  pose proof (hs_resumable_lemma env 2 (g_hs d) t' c h o' Oh Hg' E) as [R1 [R2 [R3 R4]]].
  split; [|split; [|split]].
  - unfold reg_ok. simpl. auto.
  - simpl. unfold with_hs. simpl. rewrite R2. reflexivity.
  - intros s Hs. destruct s as [[x|x|x]|]; simpl in *; auto. apply (R3 (Some x)). auto.
  - destruct o'; simpl in *; auto. unfold with_hs. rewrite R4. reflexivity.
Qed.

Lemma lift_sd_resumable : forall env, resumable_at reg_spec reg_good reg_ok 3 (lift_sd (sdl_migration env)).
Proof.
  intros env d t c d' o [Ox [Oh Os]] Hg Hs. simpl in Hs.
  set (t' := match t with Some (TSd x) => Some x | _ => None end) in *.
  destruct (sdl_step env (g_sd d) t' c) as [h o'] eqn:E. inversion Hs; subst d' o; clear Hs.
  assert (Hg' : sdl_tok_ok (g_sd d) t' = true).
  { unfold t'. destruct t as [[x|x|x]|]; simpl in Hg; try contradiction; auto. }
  pose proof (sdl_resumable_lemma env 3 (g_sd d) t' c h o' Os Hg' E) as [R1 [R2 [R3 R4]]].
  split; [|split; [|split]].
  - unfold reg_ok. simpl. auto.
  - simpl. unfold with_sd. simpl. rewrite R2. reflexivity.
  - intros s Hs. destruct s as [[x|x|x]|]; simpl in *; auto. apply (R3 (Some x)). auto.
  - destruct o'; simpl in *; auto. unfold with_sd. rewrite R4. reflexivity.
Qed.

Variables m0 m1 : @migration DB Tok.
Hypothesis G0 : forall d, reg_ok d -> good0 d None.
Hypothesis G1 : forall d, reg_ok d -> good1 d None.
Hypothesis H0 : resumable_at (fun _ => spec0) (fun _ => good0) reg_ok 0 m0.
Hypothesis H1 : resumable_at (fun _ => spec1) (fun _ => good1) reg_ok 1 m1.

Lemma reg_good_none : forall i d, reg_ok d -> reg_good i d None.
Proof. intros [|[|[|[|i]]]] d H; simpl; auto. Qed.

Lemma target_env_independent : forall eh es eh' es' enabled,
  target_version (node_registry m0 m1 eh es) enabled = target_version (node_registry m0 m1 eh' es') enabled.
Proof. intros. reflexivity. Qed.

Lemma node_registry_resumable : forall enabled eh es eh0 es0,
  resumable_registry enabled (target_version (node_registry m0 m1 eh0 es0) enabled)
                     reg_spec reg_good reg_ok (node_registry m0 m1 eh es).
Proof.
  intros. split. { reflexivity. }
  intros i m Hm. destruct i as [|[|[|[|i]]]]; simpl in Hm; inversion Hm; subst.
  - exact H0.
  - exact H1.
  - apply lift_hs_resumable.
  - apply lift_sd_resumable.
  - destruct i; discriminate.
Qed.

Lemma resume_same_db_registry_lemma :
  forall (fuel : nat) (enabled : N) (bs : list ((hs_env * sdl_env) * boot))
         (eh_ref : hs_env) (es_ref : sdl_env) (eh_fin : hs_env) (es_fin : sdl_env)
         (s0 : @pstate DB Tok) st_ref st_fin,
  reg_ok (pdb s0) -> (forall j, lookup (inter s0) j = None) ->
  Forall (fun eb => b_enabled (snd eb) = enabled) bs ->
  run_boot (node_registry m0 m1 eh_ref es_ref) fuel enabled no_intr s0 = (st_ref, ROk) ->
  run_boot (node_registry m0 m1 eh_fin es_fin) fuel enabled no_intr
           (run_schedule_v fuel (map (fun eb => (node_registry m0 m1 (fst (fst eb)) (snd (fst eb)), snd eb)) bs) s0)
    = (st_fin, ROk) ->
  let T := target_version (node_registry m0 m1 eh_ref es_ref) enabled in
  pdb (ms_p st_fin) = pdb (ms_p st_ref) /\
  pdb (ms_p st_ref) = fold_left (fun d i => reg_spec i d) (bits_of (vdiff T (cur s0))) (pdb s0) /\
  bits_of (vdiff T (cur (ms_p st_fin))) = [] /\
  bits_of (vdiff T (cur (ms_p st_ref))) = [].
Proof.
  intros fuel enabled bs eh_ref es_ref eh_fin es_fin s0 st_ref st_fin Hok Hi HF Href Hfin T.
  apply (resume_same_db_v_lemma DB Tok fuel enabled T reg_spec reg_good reg_ok reg_good_none
           (map (fun eb => (node_registry m0 m1 (fst (fst eb)) (snd (fst eb)), snd eb)) bs)
           (node_registry m0 m1 eh_ref es_ref) (node_registry m0 m1 eh_fin es_fin) s0 st_ref st_fin Hok Hi); auto.
  - clear - HF H0 H1. induction bs as [|[[eh es] b] bs' IH]; simpl; constructor.
    + simpl. split; [apply node_registry_resumable|]. inversion HF; auto.
    + apply IH. inversion HF; auto.
  - apply node_registry_resumable.
  - apply node_registry_resumable.
Qed.

End Reg.
