(* C18 — resume_same_db at the runner level, general form: the registry may differ from start to
   start (same target version, every registry resumable for the same completion functions — this is
   how migrations whose batches / commit order depend on the environment enter: one registry per
   environment), and the resumability conditions are only required on databases satisfying an
   invariant [ok] that every step preserves (well-formedness of the stored data). *)
From Coq Require Import List NArith Bool Arith Lia.
From V Require Import C18.Model C18.Proofs C18.Proofs_Resume.
Import ListNotations.

Section ResumeV.
Variables DB Tok : Type.
Notation migration := (@migration DB Tok).
Notation pstate := (@pstate DB Tok).
Notation mstate := (@mstate DB Tok).

Variable fuel : nat.
Variable enabled : N.
Variable T : N.

Variable spec : nat -> DB -> DB.
Variable good : nat -> DB -> option Tok -> Prop.
Variable ok : DB -> Prop.
Hypothesis good_none : forall i db, ok db -> good i db None.

(* migration m, registered at index i, is resumable *)
Definition resumable_at (i : nat) (m : migration) : Prop :=
  forall db t c db' o, ok db -> good i db t -> mig_step m db t c = (db', o) ->
    ok db' /\ spec i db' = spec i db /\ (forall s, good i db s -> good i db' s) /\
    match o with
    | Done => db' = spec i db
    | Suspended t' => good i db' (Some t')
    | _ => False
    end.
Definition resumable_registry (es : list migration) : Prop :=
  target_version es enabled = T /\ forall i m, nth_error es i = Some m -> resumable_at i m.

Variable es : list migration.
Hypothesis Htv : target_version es enabled = T.
Hypothesis step_ok : forall i m, nth_error es i = Some m -> resumable_at i m.

Definition REF (pend : list nat) (db : DB) : DB := fold_left (fun d i => spec i d) pend db.
Definition pending (p : pstate) : list nat := bits_of (vdiff T (cur p)).

Variable R : DB.
Definition Inv (p : pstate) : Prop :=
  ok (pdb p) /\
  REF (pending p) (pdb p) = R /\
  match pending p with
  | [] => forall j, lookup (inter p) j = None
  | i :: _ => good i (pdb p) (lookup (inter p) i) /\ forall j, j <> i -> lookup (inter p) j = None
  end.

(* one Migrate call on the first pending migration i *)
Lemma invoke_inv : forall i rest m, nth_error es i = Some m ->
  forall f (st : mstate) tok st' r,
  pending (ms_p st) = i :: rest -> Inv (ms_p st) -> (forall p, In p (ms_trace st) -> Inv p) ->
  good i (pdb (ms_p st)) tok ->
  invoke m i f st tok = (st', r) ->
  cur (ms_p st') = cur (ms_p st) /\ inter (ms_p st') = inter (ms_p st) /\
  Inv (ms_p st') /\ (forall p, In p (ms_trace st') -> Inv p) /\
  match r with
  | None => True
  | Some (None, e) => (e = ENil /\ pdb (ms_p st') = spec i (pdb (ms_p st'))) \/ e = EOther
  | Some (Some t, e) => e = ENil /\ good i (pdb (ms_p st')) (Some t) /\ cancelled (ms_clk st') = true
  end.
Proof.
  intros i rest m Hm. induction f; intros st tok st' r Hp HI HT Hg H; simpl in H.
  - inversion H; subst. refine (conj _ (conj _ (conj _ (conj _ _)))); auto.
  - destruct (mig_step m (pdb (ms_p st)) tok _) as [db' o] eqn:Es.
    assert (Hok : ok (pdb (ms_p st))) by (destruct HI; auto).
    pose proof (step_ok i m Hm _ _ _ _ _ Hok Hg Es) as [S0 [S1 [S2 S3]]].
    assert (HI' : Inv (with_db db' (ms_p st))).
    { destruct HI as [I0 [I1 I2]]. unfold Inv, pending in *. simpl. rewrite Hp in *. simpl in *.
      rewrite S1. split; auto. split; auto. destruct I2 as [I2 I3]. split; auto. }
    destruct (cancelled (ms_clk st)) eqn:Ec.
    + inversion H; subst; clear H. simpl. refine (conj _ (conj _ (conj _ (conj _ _)))); auto.
      * intros p [Hq|Hq]; subst; auto.
      * destruct o; try contradiction; [left; split|split;[|split]]; auto.
        -- rewrite S1. exact S3.
        -- destruct (ms_clk st) as [[[|k]|] fl]; unfold cancelled, tick in *; simpl in *; try discriminate; auto.
    + destruct (faulted (ms_clk st)) eqn:Ef.
      { inversion H; subst; clear H. simpl. refine (conj _ (conj _ (conj _ (conj _ _)))); auto.
        intros p [Hq|Hq]; subst; auto. }
      destruct o; try contradiction.
      * inversion H; subst; clear H. simpl. refine (conj _ (conj _ (conj _ (conj _ _)))); auto;
          try (intros p [Hq|Hq]; subst; auto); try (left; split; auto; rewrite S1; exact S3).
      * apply IHf in H; simpl; auto.
        intros p [Hq|Hq]; subst; auto.
Qed.

Lemma REF_cons : forall i rest db, REF (i :: rest) db = REF rest (spec i db).
Proof. reflexivity. Qed.

Lemma run_pending_inv : forall pend (st st' : mstate) r,
  pending (ms_p st) = pend -> Inv (ms_p st) -> (forall p, In p (ms_trace st) -> Inv p) ->
  run_pending es fuel pend st = (st', r) ->
  Inv (ms_p st') /\ (forall p, In p (ms_trace st') -> Inv p) /\ (r = ROk -> pending (ms_p st') = []).
Proof.
  induction pend as [|i rest IH]; intros st st' r Hp HI HT H; simpl in H.
  - inversion H; subst. auto.
  - destruct (cancelled (ms_clk st)). { inversion H; subst. refine (conj _ (conj _ _)); auto. discriminate. }
    destruct (nth_error es i) as [m|] eqn:En. 2:{ inversion H; subst. refine (conj _ (conj _ _)); auto. discriminate. }
    destruct (invoke m i fuel (emit (EInvoke i (lookup (inter (ms_p st)) i)) st) (lookup (inter (ms_p st)) i))
      as [st1 r1] eqn:Ei.
    assert (Hg : good i (pdb (ms_p st)) (lookup (inter (ms_p st)) i)).
    { destruct HI as [_ I2]. rewrite Hp in I2. tauto. }
    eapply (invoke_inv i rest m En) in Ei; simpl; eauto.
    simpl in Ei. destruct Ei as [C1 [C2 [I1 [T1 Hr]]]].
    destruct r1 as [[t' e]|]. 2:{ inversion H; subst. refine (conj _ (conj _ _)); auto. discriminate. }
    assert (Hp1 : pending (ms_p st1) = i :: rest) by (unfold pending in *; rewrite C1; auto).
    unfold after_migrate in H. destruct t' as [t|].
    + (* resume token saved *)
      destruct Hr as [He Hr]; subst e.
      destruct Hr as [Hr Hc].
      cbn [negb] in H.
      destruct (faulted (ms_clk st1)).
      { inversion H; subst. simpl. refine (conj _ (conj _ _)); auto. discriminate. }
      simpl in H.
      assert (I2 : Inv (save_inter i t (ms_p st1))).
      { destruct I1 as [A0 [A B]]. unfold Inv, pending in *. simpl. rewrite Hp1 in *. split; auto. split; auto.
        destruct B as [B1 B2]. split.
        - rewrite Nat.eqb_refl. auto.
        - intros j Hj. destruct (Nat.eqb_spec i j); [congruence|]. rewrite lookup_remove_key.
          destruct (Nat.eqb_spec i j); [congruence|]. apply B2; auto. }
      destruct (cancelled (tick (ms_clk st1))) eqn:Ect.
      * inversion H; subst; simpl. refine (conj _ (conj _ _)); auto.
        -- intros p [Hq|Hq]; subst; auto.
        -- discriminate.
      * (* (state, nil) with a live context cannot happen: a token is only returned from the
           cancelled branch of invoke, and the clock stays at 0 *)
        exfalso. destruct (ms_clk st1) as [[[|k]|] fl]; unfold cancelled, tick in *; simpl in *; discriminate.
    + (* applied, or the migration returned an error *)
      destruct Hr as [[He Hr]|He]; subst e.
      2:{ inversion H; subst. refine (conj _ (conj _ _)); auto. discriminate. }
      cbn [negb] in H.
      destruct (faulted (ms_clk st1)).
      { inversion H; subst. simpl. refine (conj _ (conj _ _)); auto. discriminate. }
      simpl in H.
      assert (I2 : Inv (apply_bit i (ms_p st1))).
      { destruct I1 as [A0 [A B]]. unfold Inv, pending in *. simpl.
        rewrite (bits_of_after_set _ _ _ _ Hp1). rewrite Hp1 in A, B. rewrite REF_cons in A.
        rewrite <- Hr in A. split; auto. split; auto.
        destruct rest as [|i' rest'].
        - intros j. rewrite lookup_remove_key. destruct (Nat.eqb_spec i j); auto. apply B; auto.
        - assert (Hne : i' <> i).
          { intro He; subst i'. pose proof (bits_of_sorted (vdiff T (cur (ms_p st1)))) as S.
            rewrite Hp1 in S. apply sorted_head_notin in S. apply S. left; auto. }
          split.
          + rewrite lookup_remove_key. destruct (Nat.eqb_spec i i'); [congruence|].
            destruct B as [_ B]. rewrite B; auto.
          + intros j Hj. rewrite lookup_remove_key. destruct (Nat.eqb_spec i j); auto.
            destruct B as [_ B]. apply B; auto. }
      eapply IH in H; eauto.
      * simpl. unfold pending in *. simpl. apply (bits_of_after_set _ _ _ _ Hp1).
      * simpl. intros p [Hq|Hq]; subst; auto.
Qed.

Lemma run_boot_inv : forall c (s : pstate) st r, Inv s -> run_boot es fuel enabled c s = (st, r) ->
  Inv (ms_p st) /\ (forall p, In p (ms_trace st) -> Inv p) /\ (r = ROk -> pending (ms_p st) = []).
Proof.
  intros c s st r HI H. unfold run_boot in H. rewrite Htv in H.
  destruct (beyond_registry _ _ _).
  { inversion H; subst; simpl. refine (conj _ (conj _ _)); auto. contradiction. discriminate. }
  destruct (opt_out_attempt _ _ _).
  { inversion H; subst; simpl. refine (conj _ (conj _ _)); auto. contradiction. discriminate. }
  destruct (vcontains _ _); cbn [negb] in H.
  2:{ inversion H; subst; simpl. refine (conj _ (conj _ _)); auto. contradiction. discriminate. }
  destruct (faulted c).
  { inversion H; subst; simpl. refine (conj _ (conj _ _)); auto. contradiction. discriminate. }
  assert (HI' : Inv (with_last T s)) by exact HI.
  destruct (bits_of (vdiff T (cur s))) eqn:Eb.
  - inversion H; subst; simpl. refine (conj _ (conj _ _)); auto.
    intros p [Hq|[]]; subst; auto.
  - eapply run_pending_inv in H; eauto.
    simpl. intros p [Hq|[]]; subst; auto.
Qed.

Lemma boot_end_inv : forall (s : pstate) b, b_enabled b = enabled -> Inv s -> Inv (boot_end es fuel s b).
Proof.
  intros s b Hb HI. unfold boot_end. rewrite Hb.
  destruct (run_boot es fuel enabled (b_cancel b) s) as [st r] eqn:E.
  apply run_boot_inv in E; auto. destruct E as [I1 [I2 _]]. cbn [fst].
  destruct (b_crash b) as [k|]; auto.
  destruct (nth_in_or_default k (s :: rev (ms_trace st)) (ms_p st)) as [Hin|Hd].
  - destruct Hin as [Hq|Hq]. { rewrite <- Hq. auto. }
    apply I2. apply in_rev. auto.
  - rewrite Hd. auto.
Qed.

End ResumeV.

Arguments resumable_at {DB Tok} spec good ok i m.
Arguments resumable_registry {DB Tok} enabled T spec good ok es.

Lemma run_schedule_v_inv :
  forall (DB Tok : Type) (fuel : nat) (enabled T : N) (spec : nat -> DB -> DB)
         (good : nat -> DB -> option Tok -> Prop) (ok : DB -> Prop) (R : DB),
  (forall i db, ok db -> good i db None) ->
  forall (bs : list (list (@migration DB Tok) * boot)) (s : @pstate DB Tok),
  Forall (fun eb => resumable_registry enabled T spec good ok (fst eb) /\ b_enabled (snd eb) = enabled) bs ->
  Inv DB Tok T spec good ok R s -> Inv DB Tok T spec good ok R (run_schedule_v fuel bs s).
Proof.
  intros DB Tok fuel enabled T spec good ok R Hn.
  induction bs as [|[es b] bs IH]; intros s HF HI; simpl; auto.
  inversion HF as [|x l [[Ht Hr] Hb] HF']. clear HF. simpl in *.
  apply IH; auto. eapply boot_end_inv; eauto.
Qed.

(* the statement, with every hypothesis explicit *)
Lemma resume_same_db_v_lemma :
  forall (DB Tok : Type) (fuel : nat) (enabled T : N)
         (spec : nat -> DB -> DB) (good : nat -> DB -> option Tok -> Prop) (ok : DB -> Prop),
  (forall i db, ok db -> good i db None) ->
  forall (bs : list (list (@migration DB Tok) * boot)) (es_ref es_fin : list (@migration DB Tok))
         (s0 : @pstate DB Tok) st_ref st_fin,
  ok (pdb s0) -> (forall j, lookup (inter s0) j = None) ->
  Forall (fun eb => resumable_registry enabled T spec good ok (fst eb) /\ b_enabled (snd eb) = enabled) bs ->
  resumable_registry enabled T spec good ok es_ref ->
  resumable_registry enabled T spec good ok es_fin ->
  run_boot es_ref fuel enabled no_intr s0 = (st_ref, ROk) ->
  run_boot es_fin fuel enabled no_intr (run_schedule_v fuel bs s0) = (st_fin, ROk) ->
  pdb (ms_p st_fin) = pdb (ms_p st_ref) /\
  pdb (ms_p st_ref) = fold_left (fun d i => spec i d) (bits_of (vdiff T (cur s0))) (pdb s0) /\
  bits_of (vdiff T (cur (ms_p st_fin))) = [] /\
  bits_of (vdiff T (cur (ms_p st_ref))) = [].
Proof.
  intros DB Tok fuel enabled T spec good ok Hn bs es_ref es_fin s0 st_ref st_fin Hok Hi HF [Tr Rr] [Tf Rf] Href Hfin.
  set (R := fold_left (fun d i => spec i d) (bits_of (vdiff T (cur s0))) (pdb s0)).
  assert (I0 : Inv DB Tok T spec good ok R s0).
  { unfold Inv, pending, REF. split; auto. split; auto.
    destruct (bits_of _); auto. split; auto. rewrite Hi. apply Hn. auto. }
  pose proof (run_boot_inv DB Tok fuel enabled T spec good ok Hn es_ref Tr Rr R no_intr s0 st_ref ROk I0 Href) as [[_ [A1 _]] [_ A3]].
  pose proof (run_schedule_v_inv DB Tok fuel enabled T spec good ok R Hn bs s0 HF I0) as I1.
  pose proof (run_boot_inv DB Tok fuel enabled T spec good ok Hn es_fin Tf Rf R no_intr _ st_fin ROk I1 Hfin) as [[_ [B1 _]] [_ B3]].
  specialize (A3 eq_refl). specialize (B3 eq_refl). unfold pending in *.
  unfold REF, pending in A1, B1. rewrite A3 in A1. rewrite B3 in B1. simpl in A1, B1.
  refine (conj _ (conj _ (conj _ _))); auto. congruence.
Qed.
