(* C18 — statedifflength: a backfill resumed from ANY checkpoint on a database whose prefix was
   pruned in the meantime (the optional pruning migration enabled between two starts) completes and
   leaves every retained block with its real state diff length. *)
From Coq Require Import List NArith Bool Arith Lia.
From V Require Import C18.Model.
Import ListNotations.

Lemma find_index_pruned : forall p (bs : list sblock), bs <> [] ->
  find_index is_some (repeat None p ++ map Some bs) = Some p.
Proof.
  induction p; intros bs H; simpl.
  - destruct bs; [contradiction|]. reflexivity.
  - rewrite IHp; auto.
Qed.

Lemma backfill_somes : forall bs : list sblock, backfill (map Some bs) = Some (map (fun b => Some (fill b)) bs).
Proof. induction bs; simpl; auto. rewrite IHbs. reflexivity. Qed.

Lemma skipn_pruned : forall p (bs : list sblock) s, p <= s ->
  skipn s (repeat (@None sblock) p ++ map Some bs) = map Some (skipn (s - p) bs).
Proof.
  induction p; intros bs s H; simpl.
  - rewrite Nat.sub_0_r. apply skipn_map.
  - destruct s; [lia|]. simpl. apply IHp. lia.
Qed.

Lemma firstn_pruned : forall p (bs : list sblock) s, p <= s ->
  firstn s (repeat (@None sblock) p ++ map Some bs) = repeat None p ++ map Some (firstn (s - p) bs).
Proof.
  induction p; intros bs s H; simpl.
  - rewrite Nat.sub_0_r. apply firstn_map.
  - destruct s; [lia|]. simpl. f_equal. apply IHp. lia.
Qed.

Lemma sdl_done_app : forall a b, sdl_done (a ++ b) = sdl_done a && sdl_done b.
Proof. intros. unfold sdl_done. apply forallb_app. Qed.

Lemma sdl_done_nones : forall p, sdl_done (repeat None p) = true.
Proof. induction p; simpl; auto. Qed.

Lemma sdl_done_filled : forall bs, sdl_done (map (fun b => Some (fill b)) bs) = true.
Proof. induction bs; simpl; auto. unfold filled. simpl. rewrite N.eqb_refl. auto. Qed.

Lemma sdl_done_firstn : forall (bs : list sblock) k,
  (forall i b, i < k -> nth_error bs i = Some b -> filled b = true) ->
  sdl_done (map Some (firstn k bs)) = true.
Proof.
  induction bs; intros k H; destruct k; simpl; auto.
  rewrite (H 0 a) by (simpl; auto; lia). simpl.
  apply IHbs. intros i b Hi Hn. apply (H (S i) b); simpl; auto. lia.
Qed.

Lemma sdl_resume_after_prune_lemma : forall (p : nat) (bs : list sblock) (ck : nat),
  bs <> [] ->
  (forall i b, i < ck - p -> nth_error bs i = Some b -> filled b = true) ->
  exists db', sdl_migrate ck (repeat None p ++ map Some bs) = Some db' /\
    sdl_done db' = true /\
    map (option_map s_len) db' = map (option_map s_len) (repeat None p ++ map Some bs).
Proof.
  intros p bs ck Hne Hf. unfold sdl_migrate, sdl_start, oldest_retained.
  rewrite find_index_pruned by auto. simpl. unfold backfill_from.
  assert (Hs : p <= Nat.max ck p) by lia.
  rewrite (skipn_pruned p bs _ Hs), backfill_somes, (firstn_pruned p bs _ Hs). simpl.
  eexists. split; [reflexivity|]. split.
  - rewrite !sdl_done_app, sdl_done_nones, sdl_done_filled, andb_true_r. simpl.
    apply sdl_done_firstn. intros i b Hi. apply Hf. lia.
  - rewrite <- (firstn_skipn (Nat.max ck p - p) bs) at 3.
    rewrite !map_app, !map_map. simpl. rewrite <- app_assoc. reflexivity.
Qed.
