(* C18 — statedifflength as a migration of the runner model (sdl_migration env) is resumable, for
   every environment env: completion function sdl_complete, token validity sdl_tok_ok, database
   invariant sdl_wf. *)
From Coq Require Import List NArith Bool Arith Lia.
From V Require Import C18.Model C18.Proofs_ResumeV C18.Proofs_SdlRun.
Import ListNotations.

Lemma commit_as_commits : forall db b, sdl_commit db b = sdl_commits db [b].
Proof. reflexivity. Qed.

Lemma complete_of_lens : forall a b,
  map (option_map s_len) a = map (option_map s_len) b -> sdl_complete a = sdl_complete b.
Proof.
  induction a as [|x a IH]; intros b H; destruct b as [|y b]; simpl in *; try discriminate; auto.
  inversion H. f_equal; auto. destruct x as [[l d]|], y as [[l' d']|]; simpl in *; try discriminate; auto.
  inversion H1. reflexivity.
Qed.

Lemma complete_commit : forall db b, sdl_complete (sdl_commit db b) = sdl_complete db.
Proof. intros. apply complete_of_lens. rewrite commit_as_commits. apply lens_commits. Qed.

Lemma wf_commit : forall db b, sdl_wf (sdl_commit db b) = sdl_wf db.
Proof. intros. rewrite commit_as_commits. apply wf_commits. Qed.

Lemma length_commit : forall db b, length (sdl_commit db b) = length db.
Proof. intros. rewrite commit_as_commits. apply length_commits. Qed.

Lemma readable_commit : forall db b n, sdl_readable (sdl_commit db b) n = sdl_readable db n.
Proof.
  intros. unfold sdl_readable. rewrite nth_error_commit.
  destruct (nth_error db n) as [[x|]|]; simpl; auto; destruct (mem_nat n b); reflexivity.
Qed.

Lemma filled_at_commit : forall db b n, filled_at db n \/ mem_nat n b = true -> filled_at (sdl_commit db b) n.
Proof.
  intros db b n H. rewrite commit_as_commits. apply filled_at_commits.
  destruct H; auto. right. rewrite in_batches_cons, H. reflexivity.
Qed.

(* ---------- the SRun token, pointwise ---------- *)
Definition run_ok (db : sdb) (start : nat) (rest : list (list nat)) : Prop :=
  0 < length db /\
  (forall b n, In b rest -> In n b -> start <= n < length db) /\
  (forall n, start <= n < length db -> sdl_readable db n = true) /\
  (forall n, filled_at db n \/ in_batches rest n = true).

Lemma nth_nth_error : forall A (l : list A) n d, nth n l d = match nth_error l n with Some x => x | None => d end.
Proof. induction l; destruct n; simpl; auto. Qed.

Lemma run_ok_iff : forall db start hi rest,
  sdl_tok_ok db (Some (SRun start hi rest)) = true <-> run_ok db start rest.
Proof.
  intros. unfold sdl_tok_ok, run_ok. rewrite !andb_true_iff, !forallb_forall. split.
  - intros [[[H0 H1] H2] H3]. split; [|split; [|split]].
    + apply Nat.ltb_lt. auto.
    + intros b n Hb Hn. specialize (H1 b Hb). rewrite forallb_forall in H1. specialize (H1 n Hn).
      apply andb_true_iff in H1. destruct H1 as [A B]. apply Nat.leb_le in A. apply Nat.ltb_lt in B. lia.
    + intros n Hn. apply H2. unfold nat_range. apply in_seq. lia.
    + intros n. destruct (Nat.lt_ge_cases n (length db)).
      * assert (Hin : In n (seq 0 (length db))) by (apply in_seq; lia).
        specialize (H3 n Hin). rewrite nth_nth_error in H3. unfold filled_at.
        destruct (nth_error db n) as [[x|]|]; auto.
        apply orb_true_iff in H3. tauto.
      * left. apply beyond_length_filled. auto.
  - intros [H0 [H1 [H2 H3]]]. split; [split; [split|]|].
    + apply Nat.ltb_lt. auto.
    + intros b Hb. apply forallb_forall. intros n Hn. specialize (H1 b n Hb Hn).
      apply andb_true_iff. split; [apply Nat.leb_le|apply Nat.ltb_lt]; lia.
    + intros n Hn. unfold nat_range in Hn. apply in_seq in Hn. apply H2. lia.
    + intros n Hn. rewrite nth_nth_error. specialize (H3 n). unfold filled_at in H3.
      destruct (nth_error db n) as [[x|]|]; auto. apply orb_true_iff. tauto.
Qed.

Lemma run_ok_commit : forall db start rest b, run_ok db start rest -> run_ok (sdl_commit db b) start rest.
Proof.
  intros db start rest b [H0 [H1 [H2 H3]]]. unfold run_ok. rewrite length_commit. split; [|split; [|split]]; auto.
  - intros n Hn. rewrite readable_commit. auto.
  - intros n. destruct (H3 n); auto. left. apply filled_at_commit. auto.
Qed.

Lemma tok_ok_commit : forall db b t, sdl_tok_ok db t = true -> sdl_tok_ok (sdl_commit db b) t = true.
Proof.
  intros db b [[ck|start hi rest]|] H; auto.
  - simpl in *. rewrite commit_as_commits. apply ck_ok_mono. auto.
  - apply run_ok_iff. apply run_ok_commit. apply (run_ok_iff db start hi rest). auto.
Qed.

Lemma all_filled_complete : forall db' db,
  map (option_map s_len) db' = map (option_map s_len) db -> (forall n, filled_at db' n) -> db' = sdl_complete db.
Proof. intros. apply done_is_complete; auto. apply sdl_done_iff. auto. Qed.

Lemma lens_commit : forall db b, map (option_map s_len) (sdl_commit db b) = map (option_map s_len) db.
Proof. intros. rewrite commit_as_commits. apply lens_commits. Qed.

Section Mig.
Variable env : sdl_env.

Definition sdl_good (db : sdb) (t : option sdltok) : Prop := sdl_tok_ok db t = true.
Definition sdl_okdb (db : sdb) : Prop := sdl_wf db = true.

(* the conclusion of resumable_at for one step *)
Definition step_concl (db : sdb) (r : sdb * @outcome sdltok) : Prop :=
  sdl_okdb (fst r) /\ sdl_complete (fst r) = sdl_complete db /\
  (forall s, sdl_good db s -> sdl_good (fst r) s) /\
  match snd r with
  | Done => fst r = sdl_complete db
  | Suspended t' => sdl_good (fst r) (Some t')
  | _ => False
  end.

Lemma all_readable : forall db start lo hi, (forall n, start <= n < length db -> sdl_readable db n = true) ->
  start <= lo -> hi <= length db -> forallb (sdl_readable db) (nat_range lo hi) = true.
Proof.
  intros db start lo hi H Hl Hh. apply forallb_forall. intros n Hn. unfold nat_range in Hn.
  apply in_seq in Hn. apply H. lia.
Qed.

Lemma pipe_concl : forall db start hi rest c,
  sdl_okdb db -> run_ok db start rest ->
  step_concl db (sdl_pipe env db start hi rest c).
Proof.
  intros db start hi rest c Hwf Hr. pose proof Hr as [Hlen [R1 [R2 R3]]].
  unfold sdl_pipe. destruct c.
  - set (next := Nat.min (S (length db - 1)) (hi + snd (env db hi))).
    assert (Hnx : next <= length db) by (unfold next; lia).
    rewrite (all_readable db start start next R2) by lia. cbn [negb].
    assert (Hf : forall n, n < next -> filled_at (sdl_commit db (nat_range start next)) n).
    { intros n Hn. apply filled_at_commit. destruct (R3 n) as [F|F]; auto.
      apply in_batches_iff in F. destruct F as [b [Hb Hi]]. specialize (R1 b n Hb Hi).
      right. rewrite mem_nat_range. apply andb_true_iff. split; [apply Nat.leb_le|apply Nat.ltb_lt]; lia. }
    destruct (Nat.ltb_spec (length db - 1) next) as [Hd|Hd]; unfold step_concl; cbn [fst snd].
    + split; [|split; [|split]].
      * unfold sdl_okdb. rewrite wf_commit. auto.
      * apply complete_commit.
      * intros s Hs. apply tok_ok_commit. auto.
      * apply all_filled_complete. apply lens_commit.
        intros n. destruct (Nat.lt_ge_cases n next); auto.
        apply beyond_length_filled. rewrite length_commit. lia.
    + split; [|split; [|split]].
      * unfold sdl_okdb. rewrite wf_commit. auto.
      * apply complete_commit.
      * intros s Hs. apply tok_ok_commit. auto.
      * unfold sdl_good. simpl. apply ck_ok_iff. auto.
  - destruct rest as [|b rest']; unfold step_concl; cbn [fst snd].
    + split; [|split; [|split]]; auto.
      apply all_filled_complete; auto. intros n. destruct (R3 n) as [F|F]; auto. discriminate.
    + assert (Hb : forallb (sdl_readable db) b = true).
      { apply forallb_forall. intros n Hn. apply R2. apply (R1 b n); auto. left; auto. }
      rewrite Hb. cbn [fst snd]. split; [|split; [|split]].
      * unfold sdl_okdb. rewrite wf_commit. auto.
      * apply complete_commit.
      * intros s Hs. apply tok_ok_commit. auto.
      * unfold sdl_good. apply run_ok_iff. unfold run_ok. rewrite length_commit. split; [|split; [|split]]; auto.
        -- intros b' n Hb' Hn. apply (R1 b' n); auto. right; auto.
        -- intros n Hn. rewrite readable_commit. auto.
        -- intros n. destruct (R3 n) as [F|F].
           ++ left. apply filled_at_commit. auto.
           ++ rewrite in_batches_cons in F. apply orb_true_iff in F. destruct F as [F|F]; auto.
              left. apply filled_at_commit. auto.
Qed.

Lemma filter_In_range : forall s h l n, In n (filter (fun n => Nat.leb s n && Nat.leb n h) l) -> s <= n <= h.
Proof.
  intros s h l n H. apply filter_In in H. destruct H as [_ H]. apply andb_true_iff in H.
  destruct H as [A B]. apply Nat.leb_le in A. apply Nat.leb_le in B. lia.
Qed.

Lemma head_run_ok : forall db ck s h bs,
  sdl_okdb db -> sdl_ck_ok db ck = true -> sdl_prepare ck db = PreRun s h ->
  run_ok db s (sdl_normalise bs s h).
Proof.
  intros db ck s h bs Hwf Hck Hp. apply prepare_run in Hp. destruct Hp as [Es [Hh [Hsh Hne]]].
  assert (Hlen : length db > 0) by (destruct db; [contradiction|simpl; lia]).
  unfold run_ok, sdl_normalise. split; [|split; [|split]]; auto.
  - intros b n Hb Hn. apply in_app_or in Hb. destruct Hb as [Hb|[Hb|[]]].
    + apply in_map_iff in Hb. destruct Hb as [b0 [Hb0 _]]. subst b.
      apply filter_In_range in Hn. lia.
    + subst b. unfold nat_range in Hn. apply in_seq in Hn. lia.
  - intros n Hn. unfold sdl_start in Es.
    destruct (oldest_retained db) as [p|] eqn:Eo; simpl in Es; try discriminate. inversion Es.
    apply (wf_readable db p); auto. lia.
  - intros n. destruct (Nat.lt_ge_cases n s).
    + left. eapply below_start_filled; eauto.
    + destruct (Nat.lt_ge_cases n (length db)).
      * right. apply in_batches_iff. exists (nat_range s (S h)). split.
        -- apply in_or_app. right. left. reflexivity.
        -- unfold nat_range. apply in_seq. lia.
      * left. apply beyond_length_filled. auto.
Qed.

Lemma sdl_step_concl : forall db t c,
  sdl_okdb db -> sdl_good db t -> step_concl db (sdl_step env db t c).
Proof.
  intros db t c Hwf Hg.
  assert (Hhead : forall ck, sdl_ck_ok db ck = true ->
            step_concl db (match sdl_prepare ck db with
                           | PreEmpty | PreNothing _ => (db, Done)
                           | PreNoOldest => (db, Failed)
                           | PreRun s h => sdl_pipe env db s s (sdl_normalise (fst (env db s)) s h) c
                           end)).
  { intros ck Hck. pose proof (wf_prepare db ck Hwf) as Hno.
    destruct (sdl_prepare ck db) as [| |s|s h] eqn:Ep; try contradiction.
    - unfold sdl_prepare in Ep. destruct db as [|o r].
      + unfold step_concl. simpl. auto.
      + destruct (sdl_start ck (o :: r)); try discriminate. destruct (Nat.ltb _ _); discriminate.
    - apply prepare_nothing in Ep. destruct Ep as [Es Hl].
      unfold step_concl. cbn [fst snd]. split; [|split; [|split]]; auto.
      apply all_filled_complete; auto. intros n. destruct (Nat.lt_ge_cases n s).
      + eapply below_start_filled; eauto.
      + apply beyond_length_filled. lia.
    - pose proof (head_run_ok db ck s h (fst (env db s)) Hwf Hck Ep) as Hr.
      apply pipe_concl; auto. }
  unfold sdl_step. destruct t as [[ck|start hi rest]|].
  - apply Hhead. exact Hg.
  - apply pipe_concl; auto. apply (run_ok_iff db start hi rest). exact Hg.
  - apply Hhead. reflexivity.
Qed.

End Mig.

Lemma sdl_resumable_lemma : forall (env : sdl_env) (i : nat),
  resumable_at (fun _ => sdl_complete) (fun _ db t => sdl_tok_ok db t = true) (fun db => sdl_wf db = true)
               i (sdl_migration env).
Proof.
  intros env i db t c db' o Hok Hg Hs. simpl in Hs.
  pose proof (sdl_step_concl env db t c Hok Hg) as H. rewrite Hs in H. exact H.
Qed.
