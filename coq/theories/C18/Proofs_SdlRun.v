(* C18 — statedifflength at batch granularity (Sdl.v): invariants of arbitrary attempt sequences. *)
From Coq Require Import List NArith Bool Arith Lia.
From V Require Import C18.Model.
Import ListNotations.

(* ---------- pointwise view of the block list ---------- *)
Definition filled_at (db : sdb) (n : nat) : Prop :=
  match nth_error db n with Some (Some b) => filled b = true | _ => True end.

Lemma fill_filled : forall b, filled (fill b) = true.
Proof. intros. unfold filled, fill. simpl. apply N.eqb_refl. Qed.

Lemma fill_idem : forall b, fill (fill b) = fill b.
Proof. reflexivity. Qed.

Lemma nth_error_fill_where : forall p db i n,
  nth_error (fill_where p i db) n =
  option_map (fun o => if p (i + n) then option_map fill o else o) (nth_error db n).
Proof.
  induction db as [|o r IH]; intros i n; destruct n; simpl; auto.
  - rewrite Nat.add_0_r. reflexivity.
  - rewrite IH. replace (S i + n) with (i + S n) by lia. reflexivity.
Qed.

Lemma nth_error_commit : forall db b n,
  nth_error (sdl_commit db b) n =
  option_map (fun o => if mem_nat n b then option_map fill o else o) (nth_error db n).
Proof. intros. unfold sdl_commit. rewrite nth_error_fill_where. reflexivity. Qed.

Lemma in_batches_cons : forall b bs n, in_batches (b :: bs) n = mem_nat n b || in_batches bs n.
Proof. reflexivity. Qed.

Lemma nth_error_commits : forall bs db n,
  nth_error (sdl_commits db bs) n =
  option_map (fun o => if in_batches bs n then option_map fill o else o) (nth_error db n).
Proof.
  induction bs as [|b bs IH]; intros db n.
  - simpl. destruct (nth_error db n); reflexivity.
  - unfold sdl_commits in *. cbn [fold_left]. rewrite IH, nth_error_commit, in_batches_cons.
    destruct (nth_error db n) as [o|]; cbn [option_map]; auto. f_equal.
    destruct (mem_nat n b); cbn [orb]; auto.
    destruct (in_batches bs n); auto. destruct o; reflexivity.
Qed.

Lemma lens_fill_where : forall p db i,
  map (option_map s_len) (fill_where p i db) = map (option_map s_len) db.
Proof.
  induction db as [|o r IH]; intros i; simpl; auto. rewrite IH. f_equal.
  destruct (p i); auto. destruct o; reflexivity.
Qed.

Lemma lens_commits : forall bs db,
  map (option_map s_len) (sdl_commits db bs) = map (option_map s_len) db.
Proof.
  induction bs as [|b bs IH]; intros db; simpl; auto.
  unfold sdl_commits in *. simpl. rewrite IH. apply lens_fill_where.
Qed.

Lemma length_commits : forall bs db, length (sdl_commits db bs) = length db.
Proof.
  intros. rewrite <- (map_length (option_map s_len)), lens_commits, map_length. reflexivity.
Qed.

Lemma sdl_done_iff : forall db, sdl_done db = true <-> forall n, filled_at db n.
Proof.
  induction db as [|o r IH]; simpl.
  - split; auto. intros _ n. unfold filled_at. destruct n; simpl; auto.
  - rewrite andb_true_iff, IH. split.
    + intros [H1 H2] n. destruct n; [|apply (H2 n)]. unfold filled_at. simpl. destruct o; auto.
    + intros H. split.
      * specialize (H 0). unfold filled_at in H. simpl in H. destruct o; auto.
      * intros n. apply (H (S n)).
Qed.

Lemma nth_error_firstn : forall A (l : list A) k n,
  nth_error (firstn k l) n = if Nat.ltb n k then nth_error l n else None.
Proof.
  induction l as [|a l IH]; intros k n.
  - rewrite firstn_nil. destruct n; destruct (Nat.ltb _ k); reflexivity.
  - destruct k; simpl. { destruct n; reflexivity. }
    destruct n; simpl; auto. rewrite IH. reflexivity.
Qed.

Lemma ck_ok_iff : forall db ck, sdl_ck_ok db ck = true <-> forall n, n < ck -> filled_at db n.
Proof.
  intros. unfold sdl_ck_ok. rewrite sdl_done_iff. unfold filled_at. split; intros H n.
  - intros Hn. specialize (H n). rewrite nth_error_firstn in H.
    destruct (Nat.ltb_spec n ck); [auto|lia].
  - rewrite nth_error_firstn. destruct (Nat.ltb_spec n ck); auto. apply H; auto.
Qed.

Lemma filled_at_commits : forall db bs n,
  filled_at db n \/ in_batches bs n = true -> filled_at (sdl_commits db bs) n.
Proof.
  intros db bs n H. unfold filled_at in *. rewrite nth_error_commits.
  destruct (nth_error db n) as [[b|]|]; simpl; auto.
  - destruct (in_batches bs n); simpl. apply fill_filled. destruct H; auto. discriminate.
  - destruct (in_batches bs n); simpl; auto.
Qed.

(* a database with the same lengths in which every retained block is filled IS the completion *)
Lemma done_is_complete : forall db' db,
  map (option_map s_len) db' = map (option_map s_len) db -> sdl_done db' = true -> db' = sdl_complete db.
Proof.
  induction db' as [|o' r' IH]; intros db Hl Hd; destruct db as [|o r]; simpl in *; try discriminate; auto.
  inversion Hl. apply andb_true_iff in Hd. destruct Hd as [Hf Hd]. f_equal; auto.
  destruct o' as [[l' d']|], o as [[l d]|]; simpl in *; try discriminate; auto.
  unfold filled in Hf. simpl in Hf. apply N.eqb_eq in Hf. inversion H0. subst. reflexivity.
Qed.

Lemma complete_done : forall db, sdl_done (sdl_complete db) = true.
Proof. induction db as [|[b|] r IH]; simpl; auto. rewrite fill_filled. auto. Qed.

Lemma complete_lens : forall db, map (option_map s_len) (sdl_complete db) = map (option_map s_len) db.
Proof. induction db as [|[b|] r IH]; simpl; auto; rewrite IH; reflexivity. Qed.

(* ---------- ranges / coverage ---------- *)
Lemma range_covered_iff : forall bs lo hi,
  range_covered bs lo hi = true <-> forall n, lo <= n < hi -> in_batches bs n = true.
Proof.
  intros. unfold range_covered, nat_range. rewrite forallb_forall. split; intros H n Hn.
  - apply H. apply in_seq. lia.
  - apply in_seq in Hn. apply H. lia.
Qed.

Lemma mem_nat_iff : forall n l, mem_nat n l = true <-> In n l.
Proof.
  intros. unfold mem_nat. rewrite existsb_exists. split.
  - intros [x [Hx He]]. apply Nat.eqb_eq in He. subst. auto.
  - intros H. exists n. split; auto. apply Nat.eqb_refl.
Qed.

Lemma in_batches_iff : forall bs n, in_batches bs n = true <-> exists b, In b bs /\ In n b.
Proof.
  intros. unfold in_batches. rewrite existsb_exists. split; intros [b [H1 H2]]; exists b; split; auto;
    apply mem_nat_iff; auto.
Qed.

Lemma mem_nat_range : forall n lo hi, mem_nat n (nat_range lo hi) = (Nat.leb lo n && Nat.ltb n hi).
Proof.
  intros. destruct (mem_nat n (nat_range lo hi)) eqn:E.
  - apply mem_nat_iff in E. unfold nat_range in E. apply in_seq in E.
    symmetry. apply andb_true_iff. split; [apply Nat.leb_le|apply Nat.ltb_lt]; lia.
  - symmetry. apply not_true_is_false. intro H. apply andb_true_iff in H. destruct H as [H1 H2].
    apply Nat.leb_le in H1. apply Nat.ltb_lt in H2.
    assert (mem_nat n (nat_range lo hi) = true) by (apply mem_nat_iff; unfold nat_range; apply in_seq; lia).
    congruence.
Qed.

(* ---------- the oldest retained block ---------- *)
Lemma find_index_below : forall A (p : A -> bool) l i n x,
  find_index p l = Some i -> n < i -> nth_error l n = Some x -> p x = false.
Proof.
  induction l as [|a l IH]; intros i n x H Hn Hx; simpl in H; try discriminate.
  destruct (p a) eqn:Ea. { inversion H; subst; lia. }
  destruct (find_index p l) as [j|] eqn:Ej; simpl in H; try discriminate. inversion H; subst.
  destruct n; simpl in Hx. { inversion Hx; subst; auto. }
  eapply IH; eauto. lia.
Qed.

Lemma find_index_none : forall A (p : A -> bool) l x n,
  find_index p l = None -> nth_error l n = Some x -> p x = false.
Proof.
  induction l as [|a l IH]; intros x n H Hx; simpl in H. { destruct n; discriminate. }
  destruct (p a) eqn:Ea; try discriminate.
  destruct (find_index p l) eqn:Ej; simpl in H; try discriminate.
  destruct n; simpl in Hx. { inversion Hx; subst; auto. } eapply IH; eauto.
Qed.

Lemma find_index_at : forall A (p : A -> bool) l i,
  find_index p l = Some i -> exists x, nth_error l i = Some x /\ p x = true.
Proof.
  induction l as [|a l IH]; intros i H; simpl in H; try discriminate.
  destruct (p a) eqn:Ea. { inversion H; subst. exists a. auto. }
  destruct (find_index p l) as [j|] eqn:Ej; simpl in H; try discriminate. inversion H; subst.
  simpl. apply IH; auto.
Qed.

Lemma below_oldest_filled : forall db p n, oldest_retained db = Some p -> n < p -> filled_at db n.
Proof.
  intros db p n H Hn. unfold filled_at. destruct (nth_error db n) as [[b|]|] eqn:E; auto.
  unfold oldest_retained in H. pose proof (find_index_below _ _ _ _ _ _ H Hn E) as Hf. discriminate.
Qed.

Lemma filled_at_mono : forall db bs n, filled_at db n -> filled_at (sdl_commits db bs) n.
Proof. intros. apply filled_at_commits. auto. Qed.

(* blocks below the start are filled whenever the checkpoint is safe *)
Lemma below_start_filled : forall db ck s n,
  sdl_ck_ok db ck = true -> sdl_start ck db = Some s -> n < s -> filled_at db n.
Proof.
  intros db ck s n Hck Hs Hn. unfold sdl_start in Hs.
  destruct (oldest_retained db) as [p|] eqn:Eo; simpl in Hs; try discriminate. inversion Hs; subst.
  destruct (Nat.lt_ge_cases n ck).
  - apply (proj1 (ck_ok_iff db ck) Hck). auto.
  - apply (below_oldest_filled db p); auto. lia.
Qed.

Lemma beyond_length_filled : forall db n, length db <= n -> filled_at db n.
Proof. intros. unfold filled_at. apply nth_error_None in H. rewrite H. auto. Qed.

Lemma prepare_run : forall ck db s h, sdl_prepare ck db = PreRun s h ->
  sdl_start ck db = Some s /\ h = length db - 1 /\ s <= h /\ db <> [].
Proof.
  intros ck db s h H. unfold sdl_prepare in H. destruct db as [|o r]; try discriminate.
  destruct (sdl_start ck (o :: r)) as [s'|]; try discriminate.
  destruct (Nat.ltb_spec (length (o :: r) - 1) s'); inversion H; subst.
  repeat split; auto. discriminate.
Qed.

Lemma prepare_nothing : forall ck db s, sdl_prepare ck db = PreNothing s ->
  sdl_start ck db = Some s /\ length db - 1 < s.
Proof.
  intros ck db s H. unfold sdl_prepare in H. destruct db as [|o r]; try discriminate.
  destruct (sdl_start ck (o :: r)) as [s'|]; try discriminate.
  destruct (Nat.ltb_spec (length (o :: r) - 1) s'); inversion H; subst. auto.
Qed.

(* ---------- one attempt ---------- *)
Definition sdl_init (db : sdb) (ck : nat) : sdl_pstate := {| sp_db := db; sp_ck := ck; sp_applied := false |}.

Lemma attempt_done_post : forall ck db a,
  sdl_ck_ok db ck = true -> sdl_attempt_ok ck db a = true -> sa_end a = SEDone ->
  sdl_done (sdl_commits db (sa_batches a)) = true.
Proof.
  intros ck db a Hck Hok He. apply sdl_done_iff. intros n.
  unfold sdl_attempt_ok in Hok. rewrite He in Hok.
  destruct (sdl_prepare ck db) as [| |s|s h] eqn:Ep.
  - unfold sdl_prepare in Ep. destruct db; try discriminate.
    + apply beyond_length_filled. rewrite length_commits. simpl. lia.
    + destruct (sdl_start ck (o :: db)); try discriminate. destruct (Nat.ltb _ _); discriminate.
  - rewrite andb_false_r in Hok. discriminate.
  - apply prepare_nothing in Ep. destruct Ep as [Es Hl].
    destruct (Nat.lt_ge_cases n s).
    + apply filled_at_mono. eapply below_start_filled; eauto.
    + apply beyond_length_filled. rewrite length_commits. lia.
  - apply prepare_run in Ep. destruct Ep as [Es [Hh [Hsh Hne]]].
    apply andb_true_iff in Hok. destruct Hok as [_ Hc].
    destruct (Nat.lt_ge_cases n s).
    + apply filled_at_mono. eapply below_start_filled; eauto.
    + destruct (Nat.lt_ge_cases n (S h)).
      * apply filled_at_commits. right. apply (proj1 (range_covered_iff _ _ _) Hc). lia.
      * apply beyond_length_filled. rewrite length_commits. destruct db; [contradiction|]. simpl in *. lia.
Qed.

Lemma attempt_checkpoint_ok : forall ck db a nx,
  sdl_ck_ok db ck = true -> sdl_attempt_ok ck db a = true -> sa_end a = SECheckpoint nx ->
  sdl_ck_ok (sdl_commits db (sa_batches a)) nx = true.
Proof.
  intros ck db a nx Hck Hok He. apply ck_ok_iff. intros n Hn.
  unfold sdl_attempt_ok in Hok. rewrite He in Hok.
  destruct (sdl_prepare ck db) as [| |s|s h] eqn:Ep;
    try (rewrite andb_false_r in Hok; discriminate).
  apply prepare_run in Ep. destruct Ep as [Es [Hh [Hsh Hne]]].
  repeat (apply andb_true_iff in Hok; destruct Hok as [Hok ?]).
  destruct (Nat.lt_ge_cases n s).
  - apply filled_at_mono. eapply below_start_filled; eauto.
  - apply filled_at_commits. right. apply (proj1 (range_covered_iff _ _ _) H). lia.
Qed.

Lemma ck_ok_mono : forall db bs ck, sdl_ck_ok db ck = true -> sdl_ck_ok (sdl_commits db bs) ck = true.
Proof.
  intros db bs ck H. apply ck_ok_iff. intros n Hn. apply filled_at_mono.
  apply (proj1 (ck_ok_iff db ck) H). auto.
Qed.

(* the invariant of the persistent state *)
Definition sdl_inv (db0 : sdb) (s : sdl_pstate) : Prop :=
  map (option_map s_len) (sp_db s) = map (option_map s_len) db0 /\
  sdl_ck_ok (sp_db s) (sp_ck s) = true /\
  (sp_applied s = true -> sdl_done (sp_db s) = true).

Lemma apply_inv : forall db0 s a,
  sdl_inv db0 s -> (sp_applied s || sdl_attempt_ok (sp_ck s) (sp_db s) a) = true ->
  sdl_inv db0 (sdl_apply s a).
Proof.
  intros db0 s a [I1 [I2 I3]] Hok. unfold sdl_apply.
  destruct (sp_applied s) eqn:Ea. { split; [|split]; auto. }
  simpl in Hok.
  destruct (sa_end a) eqn:Ee; unfold sdl_inv; simpl; rewrite lens_commits.
  - split; [|split]; auto. intros _. eapply attempt_done_post; eauto.
  - split; [|split]; auto. eapply attempt_checkpoint_ok; eauto. discriminate.
  - split; [|split]; auto. apply ck_ok_mono; auto. discriminate.
  - split; [|split]; auto. apply ck_ok_mono; auto. discriminate.
Qed.

Lemma run_inv : forall db0 l s,
  sdl_inv db0 s -> sdl_attempts_ok s l = true -> sdl_inv db0 (sdl_run s l).
Proof.
  induction l as [|a l IH]; intros s HI Hok; simpl in *; auto.
  apply andb_true_iff in Hok. destruct Hok as [H1 H2].
  apply IH; auto. apply apply_inv; auto.
Qed.

Lemma init_inv : forall db0 ck0, sdl_ck_ok db0 ck0 = true -> sdl_inv db0 (sdl_init db0 ck0).
Proof. intros. split; [|split]; simpl; auto. discriminate. Qed.

(* data preservation + checkpoint safety + completion only with the postcondition, for every
   sequence of attempts the code can produce (any batches, any order, cancellations, errors, crashes) *)
Lemma sdl_data_preserved_lemma : forall db0 ck0 l,
  sdl_ck_ok db0 ck0 = true -> sdl_attempts_ok (sdl_init db0 ck0) l = true ->
  let s := sdl_run (sdl_init db0 ck0) l in
  map (option_map s_len) (sp_db s) = map (option_map s_len) db0 /\
  sdl_ck_ok (sp_db s) (sp_ck s) = true /\
  (sp_applied s = true -> sdl_done (sp_db s) = true /\ sp_db s = sdl_complete db0).
Proof.
  intros db0 ck0 l Hck Hok s.
  destruct (run_inv db0 l _ (init_inv db0 ck0 Hck) Hok) as [I1 [I2 I3]]. fold s in I1, I2, I3.
  split; [|split]; auto. intros Ha. split; auto. apply done_is_complete; auto.
Qed.

(* ---------- the uninterrupted attempt ---------- *)
Lemma readable_is_some : forall db n, sdl_readable db n = true <-> exists b, nth_error db n = Some (Some b).
Proof.
  intros. unfold sdl_readable. destruct (nth_error db n) as [[b|]|]; split; intros H; try discriminate; eauto;
    destruct H as [b' H]; discriminate.
Qed.

Lemma nth_error_skipn : forall A (l : list A) p n, nth_error (skipn p l) n = nth_error l (p + n).
Proof.
  induction l as [|a l IH]; intros p n; destruct p; simpl; auto. destruct n; reflexivity.
Qed.

Lemma wf_readable : forall db p n, db <> [] -> sdl_wf db = true -> oldest_retained db = Some p ->
  p <= n < length db -> sdl_readable db n = true.
Proof.
  intros db p n Hne Hwf Ho Hn. unfold sdl_wf in Hwf. destruct db as [|o r]; [contradiction|].
  rewrite Ho in Hwf. rewrite forallb_forall in Hwf.
  destruct (nth_error (o :: r) n) as [x|] eqn:E.
  2:{ apply nth_error_None in E. lia. }
  assert (Hin : In x (skipn p (o :: r))).
  { apply (nth_error_In _ (n - p)). rewrite nth_error_skipn. replace (p + (n - p)) with n by lia. auto. }
  apply Hwf in Hin. unfold sdl_readable. rewrite E. destruct x; auto; discriminate.
Qed.

Lemma wf_prepare : forall db ck, sdl_wf db = true -> sdl_prepare ck db <> PreNoOldest.
Proof.
  intros db ck H. unfold sdl_prepare. destruct db as [|o r]; try discriminate.
  unfold sdl_wf in H. unfold sdl_start. destruct (oldest_retained (o :: r)); try discriminate. simpl.
  destruct (Nat.ltb _ _); discriminate.
Qed.

Lemma uninterrupted_ok : forall db ck, sdl_wf db = true ->
  sdl_attempt_ok ck db (sdl_uninterrupted ck db) = true /\ sa_end (sdl_uninterrupted ck db) = SEDone.
Proof.
  intros db ck Hwf. unfold sdl_attempt_ok, sdl_uninterrupted.
  pose proof (wf_prepare db ck Hwf) as Hp.
  destruct (sdl_prepare ck db) as [| |s|s h] eqn:Ep; simpl; auto; try contradiction.
  apply prepare_run in Ep. destruct Ep as [Es [Hh [Hsh Hne]]].
  split; auto. rewrite andb_true_r. apply andb_true_iff. split.
  - apply forallb_forall. intros n Hn. unfold nat_range in Hn. apply in_seq in Hn.
    unfold sdl_start in Es. destruct (oldest_retained db) as [p|] eqn:Eo; simpl in Es; try discriminate.
    inversion Es. repeat (apply andb_true_iff; split).
    + apply Nat.leb_le. lia.
    + apply Nat.ltb_lt. lia.
    + apply (wf_readable db p); auto. assert (length db > 0) by (destruct db; [contradiction|simpl; lia]). lia.
  - apply range_covered_iff. intros n Hn. rewrite in_batches_cons, mem_nat_range.
    apply orb_true_iff. left. apply andb_true_iff. split; [apply Nat.leb_le|apply Nat.ltb_lt]; lia.
Qed.

Lemma is_some_fill_where : forall p db i, map is_some (fill_where p i db) = map is_some db.
Proof.
  induction db as [|o r IH]; intros i; simpl; auto. rewrite IH. f_equal.
  destruct (p i); auto. destruct o; reflexivity.
Qed.

Lemma is_some_commits : forall bs db, map is_some (sdl_commits db bs) = map is_some db.
Proof.
  induction bs as [|b bs IH]; intros db; simpl; auto.
  unfold sdl_commits in *. simpl. rewrite IH. apply is_some_fill_where.
Qed.

Lemma find_index_map : forall A B (f : A -> B) (p : B -> bool) l,
  find_index p (map f l) = find_index (fun x => p (f x)) l.
Proof. induction l; simpl; auto. rewrite IHl. reflexivity. Qed.

Lemma wf_shape : forall db db', map is_some db' = map is_some db -> sdl_wf db' = sdl_wf db.
Proof.
  intros db db' H. unfold sdl_wf, oldest_retained.
  assert (Hf : find_index is_some db' = find_index is_some db).
  { pose proof (find_index_map _ _ (@is_some sblock) (fun b => b) db') as A.
    pose proof (find_index_map _ _ (@is_some sblock) (fun b => b) db) as B.
    rewrite H in A. rewrite A in B. exact B. }
  rewrite Hf. destruct db' as [|o' r'], db as [|o r]; try discriminate; auto.
  destruct (find_index is_some (o :: r)) as [p|]; auto.
  assert (Hs : map is_some (skipn p (o' :: r')) = map is_some (skipn p (o :: r))).
  { rewrite <- !skipn_map. rewrite H. reflexivity. }
  assert (G : forall l : list (option sblock), forallb is_some l = forallb (fun b => b) (map is_some l)).
  { induction l; simpl; auto. rewrite IHl. reflexivity. }
  rewrite !G, Hs. reflexivity.
Qed.

Lemma wf_commits : forall bs db, sdl_wf (sdl_commits db bs) = sdl_wf db.
Proof. intros. apply wf_shape. apply is_some_commits. Qed.

Lemma wf_apply : forall s a, sdl_wf (sp_db (sdl_apply s a)) = sdl_wf (sp_db s).
Proof.
  intros. unfold sdl_apply. destruct (sp_applied s); auto.
  destruct (sa_end a); simpl; apply wf_commits.
Qed.

Lemma wf_run : forall l s, sdl_wf (sp_db (sdl_run s l)) = sdl_wf (sp_db s).
Proof. induction l; intros; simpl; auto. unfold sdl_run in *. rewrite IHl. apply wf_apply. Qed.

Lemma attempts_ok_snoc : forall l s x,
  sdl_attempts_ok s l = true ->
  (sp_applied (sdl_run s l) || sdl_attempt_ok (sp_ck (sdl_run s l)) (sp_db (sdl_run s l)) x) = true ->
  sdl_attempts_ok s (l ++ [x]) = true.
Proof.
  induction l as [|a l IH]; intros s x Hok Hx; simpl in *.
  - rewrite Hx. reflexivity.
  - apply andb_true_iff in Hok. destruct Hok as [H1 H2]. rewrite H1. simpl. apply IH; auto.
Qed.

(* resume reaches the same final database: whatever valid sequence of attempts ends with the bit
   set ends in the database of the single uninterrupted attempt, which is itself valid; and from
   every reachable state that is not yet applied a completing attempt exists *)
Lemma sdl_resume_same_db_lemma : forall db0 l,
  sdl_wf db0 = true -> sdl_attempts_ok (sdl_init db0 0) l = true ->
  let s := sdl_run (sdl_init db0 0) l in
  let u := sdl_uninterrupted 0 db0 in
  sdl_attempt_ok 0 db0 u = true /\
  sp_applied (sdl_apply (sdl_init db0 0) u) = true /\
  (sp_applied s = true -> sp_db s = sp_db (sdl_apply (sdl_init db0 0) u)) /\
  (sp_applied s = false ->
     let u' := sdl_uninterrupted (sp_ck s) (sp_db s) in
     sdl_attempt_ok (sp_ck s) (sp_db s) u' = true /\
     sp_applied (sdl_apply s u') = true /\
     sp_db (sdl_apply s u') = sp_db (sdl_apply (sdl_init db0 0) u)).
Proof.
  intros db0 l Hwf Hok s u.
  assert (Hck0 : sdl_ck_ok db0 0 = true) by reflexivity.
  destruct (uninterrupted_ok db0 0 Hwf) as [U1 U2]. fold u in U1, U2.
  assert (Hu : sdl_attempts_ok (sdl_init db0 0) [u] = true) by (simpl; rewrite U1; reflexivity).
  pose proof (sdl_data_preserved_lemma db0 0 [u] Hck0 Hu) as [_ [_ Du]]. simpl in Du.
  assert (Au : sp_applied (sdl_apply (sdl_init db0 0) u) = true).
  { unfold sdl_apply. simpl. rewrite U2. reflexivity. }
  destruct (Du Au) as [_ Eu].
  pose proof (sdl_data_preserved_lemma db0 0 l Hck0 Hok) as [_ [_ Dl]]. fold s in Dl.
  split; auto. split; auto. split.
  - intros Ha. destruct (Dl Ha) as [_ El]. congruence.
  - intros Ha u'.
    assert (Hwfs : sdl_wf (sp_db s) = true) by (unfold s; rewrite wf_run; auto).
    destruct (uninterrupted_ok (sp_db s) (sp_ck s) Hwfs) as [V1 V2]. fold u' in V1, V2.
    assert (Hl' : sdl_attempts_ok (sdl_init db0 0) (l ++ [u']) = true).
    { apply attempts_ok_snoc; auto. fold s. rewrite V1. apply orb_true_r. }
    pose proof (sdl_data_preserved_lemma db0 0 (l ++ [u']) Hck0 Hl') as [_ [_ D']].
    unfold sdl_run in D'. rewrite fold_left_app in D'. simpl in D'. fold (sdl_run (sdl_init db0 0) l) in D'.
    fold s in D'.
    assert (A' : sp_applied (sdl_apply s u') = true).
    { unfold sdl_apply. rewrite Ha, V2. reflexivity. }
    destruct (D' A') as [_ E']. split; auto. split; auto. congruence.
Qed.

(* an error or a crash leaves the stored checkpoint and the bit alone *)
Lemma sdl_error_keeps_checkpoint_lemma : forall s a,
  (sa_end a = SEError \/ sa_end a = SECrash) ->
  sp_ck (sdl_apply s a) = sp_ck s /\ sp_applied (sdl_apply s a) = sp_applied s.
Proof.
  intros s a H. unfold sdl_apply. destruct (sp_applied s) eqn:E; auto.
  destruct H as [H|H]; rewrite H; simpl; auto.
Qed.

(* the process dying after any committed batch of a producible attempt is a producible attempt *)
Lemma forallb_firstn : forall A (p : A -> bool) l j, forallb p l = true -> forallb p (firstn j l) = true.
Proof.
  induction l as [|a l IH]; intros j H; destruct j; simpl in *; auto.
  apply andb_true_iff in H. destruct H as [H1 H2]. rewrite H1. simpl. apply IH; auto.
Qed.

Lemma within_weaken : forall db bs lo hi hi', hi <= hi' ->
  batches_within db bs lo hi = true -> batches_within db bs lo hi' = true.
Proof.
  intros db bs lo hi hi' Hh H. unfold batches_within in *. rewrite forallb_forall in *.
  intros b Hb. specialize (H b Hb). rewrite forallb_forall in *. intros n Hn. specialize (H n Hn).
  repeat (apply andb_true_iff in H; destruct H as [H ?]).
  repeat (apply andb_true_iff; split); auto. apply Nat.ltb_lt. apply Nat.ltb_lt in H1. lia.
Qed.

Lemma sdl_crash_point_lemma : forall ck db a j,
  sdl_attempt_ok ck db a = true ->
  sdl_attempt_ok ck db {| sa_batches := firstn j (sa_batches a); sa_end := SECrash |} = true /\
  sdl_commits db (firstn j (sa_batches a)) = nth j (db :: sdl_trace db (sa_batches a)) (sdl_commits db (sa_batches a)).
Proof.
  intros ck db a j H. split.
  - unfold sdl_attempt_ok in *. simpl. destruct (sdl_prepare ck db) as [| |s|s h].
    + apply andb_true_iff in H. destruct H as [H _]. rewrite andb_true_r. apply forallb_firstn; auto.
    + apply andb_true_iff in H. destruct H as [H _]. rewrite andb_true_r. apply forallb_firstn; auto.
    + apply andb_true_iff in H. destruct H as [H _]. rewrite andb_true_r. apply forallb_firstn; auto.
    + apply forallb_firstn. fold (batches_within db (sa_batches a) s (S h)).
      destruct (sa_end a) as [|nx| |]; auto.
      * apply andb_true_iff in H. tauto.
      * apply andb_true_iff in H. destruct H as [H _]. apply andb_true_iff in H. destruct H as [H Hw].
        apply andb_true_iff in H. destruct H as [_ Hle]. apply Nat.leb_le in Hle.
        apply (within_weaken db _ s nx (S h)); auto.
  - generalize (sa_batches a). clear. intros bs. revert db j.
    induction bs as [|b bs IH]; intros db j; simpl.
    + rewrite firstn_nil. destruct j as [|[|j]]; reflexivity.
    + destruct j; simpl; auto. unfold sdl_commits in *. simpl. apply IH.
Qed.
