(* C18 — property theorems only. Each is closed by [exact] of a lemma from Proofs*.v and followed
   by Print Assumptions. DB and Tok are arbitrary types; migrations are arbitrary step functions. *)
From Coq Require Import List NArith Bool Arith Sorted.
From Coq Require Import Lia ZifyN ZifyNat ZifyBool.
From V Require Import C18.Model C18.Proofs C18.Proofs_BT C18.Proofs_Resume C18.Proofs_SDL C18.Proofs_Io.
From V Require Import C18.Proofs_ResumeV C18.Proofs_SdlRun C18.Proofs_SdlMig C18.Proofs_HeadState C18.Proofs_HeadStateMig C18.Proofs_Registry.
Import ListNotations.

(* A migration is recorded as applied only after its Migrate returned (nil, nil): in the event log
   of every process lifetime — any registry, any optional flags, any cancellation moment, any
   start state — every "applied bit set" event directly follows "Migrate of that migration
   returned Done". Hypothesis: no registered migration ever returns (nil, ctx.Err()). *)
Theorem C18_applied_only_if_complete :
  forall (DB Tok : Type) (es : list (@migration DB Tok)) fuel enabled c (s : @pstate DB Tok) st r,
  Forall (@well_behaved DB Tok) es -> run_boot es fuel enabled c s = (st, r) ->
  applied_after_done (ms_log st) = true.
Proof. exact applied_only_if_complete_lemma. Qed.
Print Assumptions C18_applied_only_if_complete.

(* ... and bits of CurrentVersion — in the final state and at every crash point — only come from
   such events *)
Theorem C18_bits_only_from_applied :
  forall (DB Tok : Type) (es : list (@migration DB Tok)) fuel enabled c (s : @pstate DB Tok) st r,
  run_boot es fuel enabled c s = (st, r) ->
  forall p, (p = ms_p st \/ In p (ms_trace st)) ->
  forall j, vhas (cur p) j = true -> vhas (cur s) j = true \/ In j (applied_events (ms_log st)).
Proof. exact bits_only_from_applied_lemma. Qed.
Print Assumptions C18_bits_only_from_applied.

(* each pending migration is invoked at most once per process lifetime, in ascending index order;
   exactly the pending ones when Run returns nil *)
Theorem C18_once_in_order :
  forall (DB Tok : Type) (es : list (@migration DB Tok)) fuel enabled c (s : @pstate DB Tok) st r,
  run_boot es fuel enabled c s = (st, r) ->
  let pend := bits_of (vdiff (target_version es enabled) (cur s)) in
  StronglySorted lt pend /\
  (exists rest, invocations (ms_log st) ++ rest = pend) /\
  (r = ROk -> invocations (ms_log st) = pend).
Proof. exact once_in_order_lemma. Qed.
Print Assumptions C18_once_in_order.

(* a binary whose target lacks an applied migration is refused and writes nothing *)
Theorem C18_downgrade_refused :
  forall (DB Tok : Type) (es : list (@migration DB Tok)) fuel enabled c (s : @pstate DB Tok) i,
  vhas (cur s) i = true -> vhas (target_version es enabled) i = false ->
  let r := run_boot es fuel enabled c s in
  (snd r = RRefusedDowngrade \/ snd r = RRefusedOptOut) /\ ms_p (fst r) = s /\ ms_trace (fst r) = [].
Proof. exact downgrade_refused_lemma. Qed.
Print Assumptions C18_downgrade_refused.

(* in particular a binary that does not have the migration at all *)
Theorem C18_lacking_applied_refused :
  forall (DB Tok : Type) (es : list (@migration DB Tok)) fuel enabled c (s : @pstate DB Tok) i,
  length es <= i -> vhas (cur s) i = true ->
  let r := run_boot es fuel enabled c s in
  (snd r = RRefusedDowngrade \/ snd r = RRefusedOptOut) /\ ms_p (fst r) = s /\ ms_trace (fst r) = [].
Proof. exact lacking_applied_refused_lemma. Qed.
Print Assumptions C18_lacking_applied_refused.

(* a target that lacks ANY bit (of the uint64) an earlier run targeted — LastTargetVersion is
   written before the first migration runs, so this covers migrations that were opted into and
   never finished — is refused and writes nothing; no restriction to registered indices *)
Theorem C18_optout_refused :
  forall (DB Tok : Type) (es : list (@migration DB Tok)) fuel enabled c (s : @pstate DB Tok) i,
  i < max_migrations -> vhas (last s) i = true -> vhas (target_version es enabled) i = false ->
  let r := run_boot es fuel enabled c s in
  (snd r = RRefusedOptOut \/ snd r = RRefusedDowngrade) /\ ms_p (fst r) = s /\ ms_trace (fst r) = [].
Proof. exact optout_refused_lemma. Qed.
Print Assumptions C18_optout_refused.

(* in particular a binary that does not have the migration at all *)
Theorem C18_lacking_opted_in_refused :
  forall (DB Tok : Type) (es : list (@migration DB Tok)) fuel enabled c (s : @pstate DB Tok) i,
  length es <= i -> i < max_migrations -> vhas (last s) i = true ->
  let r := run_boot es fuel enabled c s in
  snd r = RRefusedDowngrade /\ ms_p (fst r) = s /\ ms_trace (fst r) = [].
Proof. exact lacking_opted_in_refused_lemma. Qed.
Print Assumptions C18_lacking_opted_in_refused.

Theorem C18_accepted_sound :
  forall (DB Tok : Type) (es : list (@migration DB Tok)) fuel enabled c (s : @pstate DB Tok),
  let r := run_boot es fuel enabled c s in
  snd r <> RRefusedOptOut -> snd r <> RRefusedDowngrade ->
  (forall i, vhas (cur s) i = true -> vhas (target_version es enabled) i = true) /\
  (forall i, i < max_migrations -> vhas (last s) i = true -> vhas (target_version es enabled) i = true).
Proof. exact accepted_sound_lemma. Qed.
Print Assumptions C18_accepted_sound.

(* resume_same_db, runner level. For every schedule of process lifetimes — each cancelled after
   an arbitrary number of writes and/or hit by an I/O error at an arbitrary write (both in
   [b_cancel]: the migration then returns (nil, err), or the runner's own write fails) and/or
   killed after an arbitrary number of writes, optional flags fixed — a final uninterrupted run reaches the database of an uninterrupted run from the start,
   namely the fold of the migrations' completion functions over the pending list; provided every
   registered migration is resumable (its steps keep its completion function [spec i] invariant,
   keep every valid resume token valid, and it finishes exactly in [spec i]; never (nil, ctx.Err()),
   never a failure). Fuel: the statement is about runs that return ROk, i.e. did not run out. *)
Theorem C18_resume_same_db :
  forall (DB Tok : Type) (es : list (@migration DB Tok)) (fuel : nat) (enabled : N)
         (spec : nat -> DB -> DB) (good : nat -> DB -> option Tok -> Prop),
  (forall i db, good i db None) ->
  (forall i m, nth_error es i = Some m ->
     forall db t c db' o, good i db t -> mig_step m db t c = (db', o) ->
       spec i db' = spec i db /\ (forall s, good i db s -> good i db' s) /\
       match o with
       | Done => db' = spec i db
       | Suspended t' => good i db' (Some t')
       | _ => False
       end) ->
  forall (bs : list boot) (s0 : @pstate DB Tok) st_ref st_fin,
  (forall j, lookup (inter s0) j = None) ->
  Forall (fun b => b_enabled b = enabled) bs ->
  run_boot es fuel enabled no_intr s0 = (st_ref, ROk) ->
  run_boot es fuel enabled no_intr (run_schedule es fuel bs s0) = (st_fin, ROk) ->
  pdb (ms_p st_fin) = pdb (ms_p st_ref) /\
  pdb (ms_p st_ref) =
    fold_left (fun d i => spec i d) (bits_of (vdiff (target_version es enabled) (cur s0))) (pdb s0) /\
  bits_of (vdiff (target_version es enabled) (cur (ms_p st_fin))) = [] /\
  bits_of (vdiff (target_version es enabled) (cur (ms_p st_ref))) = [].
Proof. exact resume_same_db_lemma. Qed.
Print Assumptions C18_resume_same_db.

(* IoError interruptions: a Migrate call that returned an error (not the context's) is the last
   thing that process lifetime did — Run returns an error, no resume token is stored and no bit is
   applied after it (together with C18_bits_only_from_applied: the bit stays clear) *)
Theorem C18_io_error_is_final :
  forall (DB Tok : Type) (es : list (@migration DB Tok)) fuel enabled c (s : @pstate DB Tok) st r i,
  run_boot es fuel enabled c s = (st, r) -> In (EReturn i Failed) (ms_log st) ->
  r = RFailed /\ exists j l, ms_log st = EReturn j Failed :: l /\ no_failed Tok l.
Proof. exact io_error_is_final_lemma. Qed.
Print Assumptions C18_io_error_is_final.

(* statedifflength's decision on the pipeline result: an error never yields a checkpoint; a
   checkpoint is returned only for an error-free result whose source did not finish *)
Theorem C18_statedifflength_error_never_checkpoints : forall is_done has_err next,
  has_err = true -> sdl_decide is_done has_err next = SdlError.
Proof. exact sdl_error_never_checkpoints. Qed.
Print Assumptions C18_statedifflength_error_never_checkpoints.

Theorem C18_statedifflength_checkpoint_only_when_clean : forall is_done has_err next n,
  sdl_decide is_done has_err next = SdlCheckpoint n -> has_err = false /\ is_done = false /\ n = next.
Proof. exact sdl_checkpoint_only_when_clean. Qed.
Print Assumptions C18_statedifflength_checkpoint_only_when_clean.

(* blocktransactions, block-granularity model: an uninterrupted run on any well-formed old-layout
   database in which every aligned range of 10 blocks holds a transaction serves every block
   (empty ones included) through the new accessor with its original content, old buckets empty *)
Theorem C18_data_preserved : forall db : btdb,
  db <> [] -> wf_old db = true -> no_empty_range db = true ->
  exists db', bt_complete (length db + 3) db None = Some db'
    /\ preserved (map acc_old db) db' = true
    /\ forallb (fun b => negb (nonempty (b_otx b)) && negb (nonempty (b_orc b))) db' = true.
Proof. exact bt_data_preserved_lemma. Qed.
Print Assumptions C18_data_preserved.

(* ... and so does resumption from every prefix state (what a cancellation leaves behind) *)
Theorem C18_data_preserved_resume_prefix : forall (db : btdb) (k : nat) (dbk : btdb) (tok : option bttok),
  db <> [] -> wf_old db = true -> no_empty_range db = true ->
  commit_ranges db (map (fun j => j * batch_size) (seq 0 k)) = Some dbk ->
  (tok = None \/ tok = Some Rescan) ->
  exists db', bt_complete (length db + 3) dbk tok = Some db'
    /\ preserved (map acc_old db) db' = true.
Proof. exact bt_resume_prefix_lemma. Qed.
Print Assumptions C18_data_preserved_resume_prefix.

(* ... and from ANY crash state between batch commits: an arbitrary collection of aligned ranges
   already committed (any order, repetitions, not necessarily a prefix — what the four ingestor
   batches leave behind when the process dies or a batch write fails between their commits). The
   completed database IS the database of the uninterrupted run, and serves every block's original
   content. (resume_same_db for the blocktransactions model; holds since fix d128c93.) *)
Theorem C18_resume_same_db_any_committed :
  forall (db : btdb) (js : list nat) (dbc : btdb) (tok : option bttok),
  db <> [] -> wf_old db = true -> no_empty_range db = true ->
  commit_ranges db (map (fun j => j * batch_size) js) = Some dbc ->
  (tok = None \/ tok = Some Rescan) ->
  exists db', bt_complete (length db + 3) dbc tok = Some db'
    /\ bt_complete (length db + 3) db None = Some db'
    /\ preserved (map acc_old db) db' = true.
Proof. exact bt_resume_any_committed_lemma. Qed.
Print Assumptions C18_resume_same_db_any_committed.

(* statedifflength: a backfill resumed from ANY checkpoint [ck] on a database whose first [p]
   blocks were pruned in the meantime (optional pruning migration enabled between two starts; the
   checkpoint may lie below, at or above the new floor) completes, leaves every retained block with
   StateDiffLength = StateDiff.Length() and touches nothing else — because it starts at
   max(checkpoint, oldest retained). Hypothesis: retained blocks below the checkpoint are filled. *)
Theorem C18_statedifflength_resume_after_prune : forall (p : nat) (bs : list sblock) (ck : nat),
  bs <> [] ->
  (forall i b, i < ck - p -> nth_error bs i = Some b -> filled b = true) ->
  exists db', sdl_migrate ck (repeat None p ++ map Some bs) = Some db' /\
    sdl_done db' = true /\
    map (option_map s_len) db' = map (option_map s_len) (repeat None p ++ map Some bs).
Proof. exact sdl_resume_after_prune_lemma. Qed.
Print Assumptions C18_statedifflength_resume_after_prune.

(* ======================================================================================== *)
(* statedifflength at batch granularity (Sdl.v). An ATTEMPT is one Migrate call: the batches   *)
(* that were written (any lists of block numbers, any order) and how it ended (done,          *)
(* checkpoint n, error, process death). sdl_attempt_ok = "the code can produce it".            *)
(* ======================================================================================== *)

(* Data preservation, for EVERY sequence of producible attempts from any database with a safe
   checkpoint: the state updates / pruned prefix are untouched (only the stored length field
   changes), the stored checkpoint never exceeds the committed prefix (every retained block below
   it carries its real length), and when the bit is set every retained block's StateDiffLength is
   StateDiff.Length() — the database is exactly sdl_complete db0. *)
Theorem C18_sdl_data_preserved : forall db0 ck0 l,
  sdl_ck_ok db0 ck0 = true -> sdl_attempts_ok (sdl_init db0 ck0) l = true ->
  let s := sdl_run (sdl_init db0 ck0) l in
  map (option_map s_len) (sp_db s) = map (option_map s_len) db0 /\
  sdl_ck_ok (sp_db s) (sp_ck s) = true /\
  (sp_applied s = true -> sdl_done (sp_db s) = true /\ sp_db s = sdl_complete db0).
Proof. exact sdl_data_preserved_lemma. Qed.
Print Assumptions C18_sdl_data_preserved.

(* Resume reaches the same final database: on a database of the shape the pruner leaves, the single
   uninterrupted attempt is producible and sets the bit; every schedule of cancellations (checkpoints),
   stage errors and crashes after any committed batch that ends with the bit set ends in the SAME
   database; and from every reachable state that is not yet applied a completing run exists and
   reaches it too. *)
Theorem C18_sdl_resume_same_db : forall db0 l,
  sdl_wf db0 = true -> sdl_attempts_ok (sdl_init db0 0) l = true ->
  let s := sdl_run (sdl_init db0 0) l in
  let u := sdl_uninterrupted 0 db0 in
  sdl_attempt_ok 0 db0 u = true /\
  sp_applied (sdl_apply (sdl_init db0 0) u) = true /\
  (sp_applied s = true -> sp_db s = sp_db (sdl_apply (sdl_init db0 0) u)) /\
  (sp_applied s = false ->
     let u' := sdl_uninterrupted (sp_ck s) (sp_db s) in
     sdl_attempt_ok (sp_ck s) (sp_db s) u' = true /\
     sp_applied (sdl_apply s u') = true /\
     sp_db (sdl_apply s u') = sp_db (sdl_apply (sdl_init db0 0) u)).
Proof. exact sdl_resume_same_db_lemma. Qed.
Print Assumptions C18_sdl_resume_same_db.

(* (nil, nil) is returned only when the postcondition holds *)
Theorem C18_sdl_complete_only_if_postcondition : forall ck db a,
  sdl_ck_ok db ck = true -> sdl_attempt_ok ck db a = true -> sa_end a = SEDone ->
  sdl_done (sdl_commits db (sa_batches a)) = true.
Proof. exact attempt_done_post. Qed.
Print Assumptions C18_sdl_complete_only_if_postcondition.

(* a returned checkpoint lies within the committed prefix *)
Theorem C18_sdl_checkpoint_within_committed_prefix : forall ck db a nx,
  sdl_ck_ok db ck = true -> sdl_attempt_ok ck db a = true -> sa_end a = SECheckpoint nx ->
  sdl_ck_ok (sdl_commits db (sa_batches a)) nx = true.
Proof. exact attempt_checkpoint_ok. Qed.
Print Assumptions C18_sdl_checkpoint_within_committed_prefix.

(* an error (or a crash) writes no checkpoint and sets no bit *)
Theorem C18_sdl_error_keeps_checkpoint : forall s a,
  (sa_end a = SEError \/ sa_end a = SECrash) ->
  sp_ck (sdl_apply s a) = sp_ck s /\ sp_applied (sdl_apply s a) = sp_applied s.
Proof. exact sdl_error_keeps_checkpoint_lemma. Qed.
Print Assumptions C18_sdl_error_keeps_checkpoint.

(* the batch is the unit of interruption: the process dying after the j-th committed batch of a
   producible attempt is itself a producible attempt (so the theorems above cover it), and its
   database is the j-th element of the attempt's trace *)
Theorem C18_sdl_crash_points_are_attempts : forall ck db a j,
  sdl_attempt_ok ck db a = true ->
  sdl_attempt_ok ck db {| sa_batches := firstn j (sa_batches a); sa_end := SECrash |} = true /\
  sdl_commits db (firstn j (sa_batches a)) = nth j (db :: sdl_trace db (sa_batches a)) (sdl_commits db (sa_batches a)).
Proof. exact sdl_crash_point_lemma. Qed.
Print Assumptions C18_sdl_crash_points_are_attempts.

(* as a migration of the runner model — one step = one committed batch, the environment env decides
   which blocks share a batch, the commit order and how far the source is ahead when it sees the
   cancellation — statedifflength is resumable in the sense of C18_resume_same_db_general *)
Theorem C18_sdl_resumable : forall (env : sdl_env) (i : nat),
  resumable_at (fun _ => sdl_complete) (fun _ db t => sdl_tok_ok db t = true) (fun db => sdl_wf db = true)
               i (sdl_migration env).
Proof. exact sdl_resumable_lemma. Qed.
Print Assumptions C18_sdl_resumable.

(* ======================================================================================== *)
(* state/headstate at batch granularity (HeadState.v).                                         *)
(* ======================================================================================== *)

(* Data preservation: after ANY sequence of producible attempts (any batches, cancellations, stage
   errors, crashes after any batch or between the three DeleteRanges) that ends with the bit set,
   the database is hs_complete db0: the deprecated buckets are empty and the Contract records
   represent exactly the legacy head state — same contracts, class hashes, nonces (missing = 0),
   deployment heights; hence every function of that set (the state root: C01 proves the root is a
   function of the key/value sets) has the same value. Contract storage is not touched by this
   migration (not part of hsdb; the correspondence compares the full database dump). *)
Theorem C18_headstate_data_preserved : forall db0 l,
  hs_consistent db0 = true -> hs_attempts_ok (hs_init db0) l = true ->
  let s := hs_run (hs_init db0) l in
  hp_applied s = true ->
  hp_db s = hs_complete db0 /\ hs_wiped (hp_db s) = true /\
  hs_new_view (hp_db s) = hs_legacy_view db0 /\
  (forall (F : Type) (root : list (N * (N * N * option N)) -> F),
     root (hs_new_view (hp_db s)) = root (hs_legacy_view db0)).
Proof. exact hs_data_preserved_lemma. Qed.
Print Assumptions C18_headstate_data_preserved.

Theorem C18_headstate_resume_same_db : forall db0 l,
  hs_ok db0 = true -> hs_attempts_ok (hs_init db0) l = true ->
  let s := hs_run (hs_init db0) l in
  let u := hs_uninterrupted db0 in
  hs_attempt_ok db0 u = true /\
  hp_applied (hs_apply (hs_init db0) u) = true /\
  hp_db (hs_apply (hs_init db0) u) = hs_complete db0 /\
  (hp_applied s = true -> hp_db s = hp_db (hs_apply (hs_init db0) u)) /\
  (hp_applied s = false ->
     let u' := hs_uninterrupted (hp_db s) in
     hs_attempt_ok (hp_db s) u' = true /\
     hp_applied (hs_apply s u') = true /\
     hp_db (hs_apply s u') = hp_db (hs_apply (hs_init db0) u)).
Proof. exact hs_resume_same_db_lemma. Qed.
Print Assumptions C18_headstate_resume_same_db.

(* (nil, nil) only with the postcondition: buckets wiped, every contract has its record *)
Theorem C18_headstate_complete_only_if_postcondition : forall db a,
  hs_attempt_ok db a = true -> ha_end a = HEDone ->
  let db' := hs_wipe (ha_wipes a) (hs_commits db (ha_batches a)) in
  db' = hs_complete db /\ hs_wiped db' = true /\ every_contract_migrated db db' = true.
Proof. exact hs_done_post_lemma. Qed.
Print Assumptions C18_headstate_complete_only_if_postcondition.

Theorem C18_headstate_error_keeps_token : forall s a,
  (ha_end a = HEError \/ ha_end a = HECrash) ->
  hp_tok (hs_apply s a) = hp_tok s /\ hp_applied (hs_apply s a) = hp_applied s.
Proof. exact hs_error_keeps_token_lemma. Qed.
Print Assumptions C18_headstate_error_keeps_token.

Theorem C18_headstate_crash_points_are_attempts : forall db a,
  hs_attempt_ok db a = true ->
  (forall j, hs_attempt_ok db {| ha_batches := firstn j (ha_batches a); ha_wipes := 0; ha_end := HECrash |} = true) /\
  (forall w, w <= ha_wipes a ->
     hs_attempt_ok db {| ha_batches := ha_batches a; ha_wipes := w; ha_end := HECrash |} = true).
Proof. exact hs_crash_point_lemma. Qed.
Print Assumptions C18_headstate_crash_points_are_attempts.

Theorem C18_headstate_resumable : forall (env : hs_env) (i : nat),
  resumable_at (fun _ => hs_complete) (fun _ db t => hs_tok_ok db t = true) (fun db => hs_ok db = true)
               i (hs_migration env).
Proof. exact hs_resumable_lemma. Qed.
Print Assumptions C18_headstate_resumable.

(* ======================================================================================== *)
(* resume_same_db at the runner level, general form, and its instance for the node's registry. *)
(* ======================================================================================== *)

(* As C18_resume_same_db, but (1) every start may run a different registry, as long as all have
   the same target version and are resumable for the same completion functions (this is how the
   environment-dependent migrations enter: one registry per environment), and (2) resumability is
   only required on databases satisfying an invariant ok that every step preserves. *)
Theorem C18_resume_same_db_general :
  forall (DB Tok : Type) (fuel : nat) (enabled T : N)
         (spec : nat -> DB -> DB) (good : nat -> DB -> option Tok -> Prop) (ok : DB -> Prop),
  (forall i db, ok db -> good i db None) ->
  forall (bs : list (list (@migration DB Tok) * boot)) (es_ref es_fin : list (@migration DB Tok))
         (s0 : @pstate DB Tok) st_ref st_fin,
  ok (pdb s0) -> (forall j, lookup (inter s0) j = None) ->
  Forall (fun eb => resumable_registry enabled T spec good ok (fst eb) /\ b_enabled (snd eb) = enabled) bs ->
  resumable_registry enabled T spec good ok es_ref ->
  resumable_registry enabled T spec good ok es_fin ->
  run_boot es_ref fuel enabled no_intr s0 = (st_ref, ROk) ->
  run_boot es_fin fuel enabled no_intr (run_schedule_v fuel bs s0) = (st_fin, ROk) ->
  pdb (ms_p st_fin) = pdb (ms_p st_ref) /\
  pdb (ms_p st_ref) = fold_left (fun d i => spec i d) (bits_of (vdiff T (cur s0))) (pdb s0) /\
  bits_of (vdiff T (cur (ms_p st_fin))) = [] /\
  bits_of (vdiff T (cur (ms_p st_ref))) = [].
Proof. exact resume_same_db_v_lemma. Qed.
Print Assumptions C18_resume_same_db_general.

(* The node's registry [m0; m1; headstate; statedifflength] (node/migration.go) over one database
   record. headstate and statedifflength are the models above, with an arbitrary environment at
   every start; for them the resumability hypothesis is DISCHARGED. m0 (blocktransactions) and m1
   (historyprunner) are arbitrary migrations over the whole record — m1 may prune the very block
   list statedifflength reads — and stay hypothetical: they must be resumable and keep the
   invariants hs_ok / sdl_wf of the other two components. Conclusion: every schedule of
   cancellations, I/O errors, crashes and restarts (optional flags fixed) followed by a completing
   run ends in the database of the uninterrupted run, the fold of the completion functions. *)
Theorem C18_resume_same_db_registry :
  forall (X XT : Type) (spec0 spec1 : regdb X -> regdb X)
         (good0 good1 : regdb X -> option (regtok XT) -> Prop) (okx : X -> Prop)
         (m0 m1 : @migration (regdb X) (regtok XT)),
  (forall d, reg_ok X okx d -> good0 d None) ->
  (forall d, reg_ok X okx d -> good1 d None) ->
  resumable_at (fun _ => spec0) (fun _ => good0) (reg_ok X okx) 0 m0 ->
  resumable_at (fun _ => spec1) (fun _ => good1) (reg_ok X okx) 1 m1 ->
  forall (fuel : nat) (enabled : N) (bs : list ((hs_env * sdl_env) * boot))
         (eh_ref : hs_env) (es_ref : sdl_env) (eh_fin : hs_env) (es_fin : sdl_env)
         (s0 : @pstate (regdb X) (regtok XT)) st_ref st_fin,
  reg_ok X okx (pdb s0) -> (forall j, lookup (inter s0) j = None) ->
  Forall (fun eb => b_enabled (snd eb) = enabled) bs ->
  run_boot (node_registry m0 m1 eh_ref es_ref) fuel enabled no_intr s0 = (st_ref, ROk) ->
  run_boot (node_registry m0 m1 eh_fin es_fin) fuel enabled no_intr
           (run_schedule_v fuel (map (fun eb => (node_registry m0 m1 (fst (fst eb)) (snd (fst eb)), snd eb)) bs) s0)
    = (st_fin, ROk) ->
  let T := target_version (node_registry m0 m1 eh_ref es_ref) enabled in
  pdb (ms_p st_fin) = pdb (ms_p st_ref) /\
  pdb (ms_p st_ref) = fold_left (fun d i => reg_spec X spec0 spec1 i d) (bits_of (vdiff T (cur s0))) (pdb s0) /\
  bits_of (vdiff T (cur (ms_p st_fin))) = [] /\
  bits_of (vdiff T (cur (ms_p st_ref))) = [].
Proof. exact resume_same_db_registry_lemma. Qed.
Print Assumptions C18_resume_same_db_registry.

(* ---------------------------------------------------------------------------------------- *)
(* Non-vacuity and the witnesses that the hypotheses are needed (all by computation).        *)
(* ---------------------------------------------------------------------------------------- *)
(* a scripted migration over DB := N (units of work done), Tok := N *)
Definition script (total : N) (nil_on_cancel : bool) : @migration N N :=
  {| mig_optional := false;
     mig_step := fun db tok c =>
       let p := match tok with Some t => t | None => 0%N end in
       if c then (db, if nil_on_cancel then NilWithCtxErr else Suspended p)
       else let db' := N.max db (p + 1) in
            if N.leb total (p + 1) then (db', Done) else (db', Suspended (p + 1)%N) |}.
Definition s0 : @pstate N N := {| cur := 0; last := 0; inter := []; pdb := 0%N |}.

Lemma script_well_behaved : forall t, well_behaved (script t false).
Proof.
  intros t db tok c. unfold script; simpl. destruct c; simpl; try discriminate.
  destruct (N.leb t _); discriminate.
Qed.

Example hypotheses_satisfiable :
  let '(st, r) := run_boot [script 3 false; script 2 false] 20 0 (cancel_after 3) s0 in
  r = RCancelled /\ cur (ms_p st) = 0%N /\ inter (ms_p st) = [(0, 2%N)] /\ pdb (ms_p st) = 2%N /\
  let '(st', r') := run_boot [script 3 false; script 2 false] 20 0 no_intr (ms_p st) in
  r' = ROk /\ cur (ms_p st') = 3%N /\ inter (ms_p st') = [] /\ invocations (ms_log st') = [0; 1].
Proof. vm_compute. repeat split; reflexivity. Qed.

(* the hypotheses of C18_resume_same_db hold for the two scripted migrations above *)
Example resumable_satisfiable :
  let total := fun i : nat => match i with O => 3%N | _ => 2%N end in
  let spec := fun (i : nat) (db : N) => N.max db (total i) in
  let good := fun (i : nat) (_ : N) (t : option N) => match t with Some p => (p < total i)%N | None => True end in
  (forall i db, good i db None) /\
  (forall i m, nth_error [script 3 false; script 2 false] i = Some m ->
     forall db t c db' o, good i db t -> mig_step m db t c = (db', o) ->
       spec i db' = spec i db /\ (forall s, good i db s -> good i db' s) /\
       match o with
       | Done => db' = spec i db
       | Suspended t' => good i db' (Some t')
       | _ => False
       end).
Proof.
  intros total spec good. split. { intros; exact I. }
  intros i m Hm db t c db' o Hg Hs.
  assert (Hm' : m = script (total i) false /\ (total i = 3 \/ total i = 2)%N).
  { destruct i as [|[|i]]; simpl in Hm; inversion Hm; subst; simpl; auto. destruct i; discriminate. }
  destruct Hm' as [-> Ht]. unfold script in Hs; simpl in Hs. subst spec good; simpl in *.
  destruct c.
  - inversion Hs; subst. split; auto. split; auto. destruct t; simpl in *; lia.
  - destruct (N.leb_spec (total i) (match t with Some t0 => t0 | None => 0 end + 1)%N);
      inversion Hs; subst; (split; [|split; auto]); destruct t; simpl in *; lia.
Qed.

(* and a schedule with cancellations, crashes, I/O errors and restarts ends where the straight run ends *)
Example resume_same_db_instance :
  let es := [script 3 false; script 2 false] in
  let bs := [ {| b_enabled := 0; b_cancel := cancel_after 2; b_crash := None |};
              {| b_enabled := 0; b_cancel := no_intr; b_crash := Some 2 |};
              {| b_enabled := 0; b_cancel := cancel_after 1; b_crash := Some 1 |};
              {| b_enabled := 0; b_cancel := io_error_after 2; b_crash := None |};
              {| b_enabled := 0; b_cancel := (Some 3, Some 1); b_crash := None |};
              {| b_enabled := 0; b_cancel := io_error_after 0; b_crash := None |} ] in
  snd (run_boot es 20 0 no_intr s0) = ROk /\
  snd (run_boot es 20 0 no_intr (run_schedule es 20 bs s0)) = ROk /\
  pdb (ms_p (fst (run_boot es 20 0 no_intr (run_schedule es 20 bs s0)))) = pdb (ms_p (fst (run_boot es 20 0 no_intr s0))) /\
  run_schedule es 20 bs s0 <> s0.
Proof. vm_compute. repeat split; try reflexivity. discriminate. Qed.

(* well_behaved is needed: the runner sets the applied bit for (nil, ctx.Err()) — cancelled after
   the first unit of three, bit 0 set, one unit done, Run returns the context's error *)
Example C18_well_behaved_needed :
  exists (m : @migration N N) c, ~ well_behaved m /\
  let '(st, r) := run_boot [m] 20 0 c s0 in
  applied_after_done (ms_log st) = false /\ vhas (cur (ms_p st)) 0 = true /\
  pdb (ms_p st) = 1%N /\ r = RCancelled /\
  (* ... and the next start considers the migration done *)
  snd (run_boot [m] 20 0 no_intr (ms_p st)) = ROk /\ pdb (ms_p (fst (run_boot [m] 20 0 no_intr (ms_p st)))) = 1%N.
Proof.
  exists (script 3 true), (cancel_after 2). split.
  - intro H. apply (H 0%N None true). reflexivity.
  - vm_compute. repeat split; reflexivity.
Qed.

(* the documented "(state, nil) while the context is live" return: Run goes on with the next
   migration and returns nil although migration 0 is not applied *)
Definition yielder : @migration N N :=
  {| mig_optional := false;
     mig_step := fun db tok c => match tok with None => (db, Yield 1%N) | Some _ => (N.succ db, Done) end |}.
Example yield_runs_next_and_reports_success :
  let '(st, r) := run_boot [yielder; script 1 false] 20 0 no_intr s0 in
  r = ROk /\ vhas (cur (ms_p st)) 0 = false /\ vhas (cur (ms_p st)) 1 = true /\
  invocations (ms_log st) = [0; 1].
Proof. vm_compute. repeat split; reflexivity. Qed.

(* a migration that an earlier run opted into but did not finish, present binary without it
   (bit 1 of LastTargetVersion, one-migration registry): refused since fix c2e766d — before it
   validateNoOptOut stopped at the out-of-range bit and validateNoVersionDowngrade only looked at
   CurrentVersion, so the run was accepted *)
Example opted_in_beyond_registry_refused :
  let s := {| cur := 1; last := 3; inter := [(1, 1%N)]; pdb := 5%N |} in
  let '(st, r) := run_boot [script 1 false] 20 0 no_intr s in
  r = RRefusedDowngrade /\ ms_p st = s.
Proof. vm_compute. split; reflexivity. Qed.

(* blocktransactions: the hypotheses of C18_data_preserved hold for a concrete database with an
   empty block, and they are needed *)
Definition blk (c : N) (ids : list N) : block := {| b_count := c; b_otx := ids; b_orc := ids; b_new := None |}.
Definition db11 : btdb := blk 1 [1%N] :: repeat (blk 0 []) 9 ++ [blk 1 [2%N]].
Example data_preserved_nonvacuous : db11 <> [] /\ wf_old db11 = true /\ no_empty_range db11 = true.
Proof. split. discriminate. vm_compute. auto. Qed.

(* crash after the batch holding range [10,10] was committed and before the one holding [0,9]:
   the restart re-ingests block 10, finds no old entries, sees the blob ("already migrated") and —
   since fix d128c93 — leaves it alone; the completed database is the uninterrupted one. (Before
   the fix ingestBlock wrote the empty freshly built blob over it and block 10 read back empty.) *)
Example crash_between_batch_commits_resumes :
  exists dbc, commit_ranges db11 [10] = Some dbc /\
  exists db', bt_complete 14 dbc None = Some db' /\ preserved (map acc_old db11) db' = true /\
  option_map acc_new (nth_error db' 10) = Some (Some ([2%N], [2%N])) /\
  bt_complete 14 db11 None = Some db'.
Proof.
  eexists. split. vm_compute. reflexivity.
  eexists. split. vm_compute. reflexivity.
  vm_compute. repeat split; reflexivity.
Qed.

(* a leading aligned range without transactions is never visited: its blocks have no blob *)
Definition db12 : btdb := repeat (blk 0 []) 11 ++ [blk 1 [1%N]].
Example C18_data_preserved_empty_range_refuted :
  wf_old db12 = true /\ no_empty_range db12 = false /\
  exists db', bt_complete 15 db12 None = Some db' /\ preserved (map acc_old db12) db' = false /\
  option_map acc_new (nth_error db' 0) = Some None.
Proof.
  split. vm_compute; reflexivity. split. vm_compute; reflexivity.
  eexists. split. vm_compute. reflexivity. vm_compute. split; reflexivity.
Qed.

(* the same after a cancellation: range [10,19] empty, first range committed, resume starts at 20 *)
Definition db25 : btdb := blk 1 [1%N] :: repeat (blk 0 []) 23 ++ [blk 1 [2%N]].
Example C18_resume_skips_empty_range_refuted :
  exists dbk, commit_ranges db25 [0] = Some dbk /\
  exists a b, bt_complete 28 db25 None = Some a /\ bt_complete 28 dbk (Some Rescan) = Some b /\
  preserved (map acc_old db25) a = true /\ preserved (map acc_old db25) b = false /\ a <> b.
Proof.
  eexists. split. vm_compute. reflexivity.
  eexists. eexists. split. vm_compute. reflexivity. split. vm_compute. reflexivity.
  vm_compute. repeat split; try reflexivity. discriminate.
Qed.

(* statedifflength: checkpoint 1 saved, then blocks 0..2 pruned: the backfill completes; starting
   at the stale checkpoint instead of max(checkpoint, oldest retained) would hit a pruned block *)
Definition sdb5 : sdb := repeat None 3 ++ [Some {| s_len := 4; s_sdl := 0 |}; Some {| s_len := 2; s_sdl := 0 |}].
Example statedifflength_resume_instance :
  sdl_migrate 1 sdb5 = Some (repeat None 3 ++ [Some {| s_len := 4; s_sdl := 4 |}; Some {| s_len := 2; s_sdl := 2 |}]) /\
  backfill_from sdb5 1 = None.
Proof. vm_compute. split; reflexivity. Qed.

(* an I/O error at the second unit of work: Run fails, nothing stored, bit clear; the restart
   completes from scratch *)
Example io_error_instance :
  let '(st, r) := run_boot [script 3 false] 20 0 (io_error_after 2) s0 in
  r = RFailed /\ cur (ms_p st) = 0%N /\ inter (ms_p st) = [] /\ pdb (ms_p st) = 1%N /\
  snd (run_boot [script 3 false] 20 0 no_intr (ms_p st)) = ROk /\
  pdb (ms_p (fst (run_boot [script 3 false] 20 0 no_intr (ms_p st)))) = 3%N.
Proof. vm_compute. repeat split; reflexivity. Qed.

(* ---------------------------------------------------------------------------------------- *)
(* statedifflength / headstate at batch granularity: the hypotheses are satisfiable, the      *)
(* schedules are non-trivial, and the safety hypotheses are needed (all by computation).      *)
(* ---------------------------------------------------------------------------------------- *)
Definition sb (l : N) : option sblock := Some {| s_len := l; s_sdl := 0 |}.
Definition sdb7 : sdb := [None; None; sb 4; sb 2; sb 0; sb 9; sb 1].
(* cancelled with checkpoint 4 after two batches committed out of order; a crash after one batch;
   a stage error after a batch; then a completing run with two batches *)
Definition sdl_sched : list sdl_attempt :=
  [ {| sa_batches := [[3]; [2]]; sa_end := SECheckpoint 4 |};
    {| sa_batches := [[5]]; sa_end := SECrash |};
    {| sa_batches := [[6]; []]; sa_end := SEError |};
    {| sa_batches := [[4; 6]; [5]]; sa_end := SEDone |} ].
Example sdl_schedule_instance :
  sdl_wf sdb7 = true /\ sdl_attempts_ok (sdl_init sdb7 0) sdl_sched = true /\
  let s := sdl_run (sdl_init sdb7 0) sdl_sched in
  sp_applied s = true /\ sp_db s = sdl_complete sdb7 /\
  sp_db s = sp_db (sdl_apply (sdl_init sdb7 0) (sdl_uninterrupted 0 sdb7)) /\
  sp_db s <> sdb7 /\
  (* the checkpoint stored after the first attempt, and kept by the crash and the error *)
  map sp_ck [sdl_run (sdl_init sdb7 0) (firstn 1 sdl_sched); sdl_run (sdl_init sdb7 0) (firstn 2 sdl_sched);
             sdl_run (sdl_init sdb7 0) (firstn 3 sdl_sched)] = [4; 4; 4].
Proof. vm_compute. repeat split; try reflexivity. discriminate. Qed.

(* attempts the code cannot produce are rejected: a checkpoint beyond a block that no committed
   batch holds; a batch with a pruned block; "done" with a block missing *)
Example sdl_unproducible_attempts :
  sdl_attempt_ok 0 sdb7 {| sa_batches := [[2]]; sa_end := SECheckpoint 4 |} = false /\
  sdl_attempt_ok 0 sdb7 {| sa_batches := [[1; 2]]; sa_end := SECrash |} = false /\
  sdl_attempt_ok 0 sdb7 {| sa_batches := [[2; 3; 4; 5]]; sa_end := SEDone |} = false.
Proof. vm_compute. repeat split; reflexivity. Qed.

(* the hypothesis sdl_ck_ok of C18_sdl_data_preserved is needed: started from a stored checkpoint
   that lies beyond an unfilled block (what "checkpoint past the failed block" or "stale
   checkpoint" produce), a producible run returns (nil, nil) and leaves block 2 with length 0 *)
Example C18_sdl_checkpoint_safety_needed :
  sdl_ck_ok sdb7 3 = false /\
  let a := sdl_uninterrupted 3 sdb7 in
  sdl_attempt_ok 3 sdb7 a = true /\ sa_end a = SEDone /\
  sdl_done (sdl_commits sdb7 (sa_batches a)) = false.
Proof. vm_compute. repeat split; reflexivity. Qed.

Definition hrow_ (a : N) (c n h : option N) : hrow :=
  {| r_addr := a; r_class := c; r_nonce := n; r_height := h; r_contract := None |}.
(* three contracts (one without a nonce entry) and an orphan nonce entry *)
Definition hsdb4 : hsdb :=
  [ hrow_ 1 (Some 7%N) (Some 3%N) (Some 0%N); hrow_ 2 (Some 7%N) None (Some 5%N);
    hrow_ 3 (Some 8%N) (Some 1%N) (Some 2%N); hrow_ 9 None (Some 4%N) None ].
(* cancelled after the first address; a crash after both remaining batches and the first
   DeleteRange; then a completing run (nothing left to ingest, three DeleteRanges) *)
Definition hs_sched : list hs_attempt :=
  [ {| ha_batches := [[1%N]; []]; ha_wipes := 0; ha_end := HEInterrupted |};
    {| ha_batches := [[3%N]; [2%N]]; ha_wipes := 1; ha_end := HECrash |};
    {| ha_batches := [[]; []; []; []]; ha_wipes := 3; ha_end := HEDone |} ].
Example headstate_schedule_instance :
  hs_consistent hsdb4 = true /\ hs_ok hsdb4 = true /\ hs_attempts_ok (hs_init hsdb4) hs_sched = true /\
  let s := hs_run (hs_init hsdb4) hs_sched in
  hp_applied s = true /\ hp_db s = hs_complete hsdb4 /\
  hp_db s = hp_db (hs_apply (hs_init hsdb4) (hs_uninterrupted hsdb4)) /\
  hs_new_view (hp_db s) = [(1, (3, 7, Some 0)); (2, (0, 7, Some 5)); (3, (1, 8, Some 2))]%N /\
  hs_new_view (hp_db s) = hs_legacy_view hsdb4 /\
  map hp_tok [hs_run (hs_init hsdb4) (firstn 1 hs_sched); hs_run (hs_init hsdb4) (firstn 2 hs_sched)] = [true; true].
Proof. vm_compute. repeat split; reflexivity. Qed.

Example headstate_unproducible_attempts :
  (* "done" although address 2 was never written; a DeleteRange before everything is migrated;
     an interruption that skips address 1 *)
  hs_attempt_ok hsdb4 {| ha_batches := [[1; 3]%N]; ha_wipes := 3; ha_end := HEDone |} = false /\
  hs_attempt_ok hsdb4 {| ha_batches := [[1]%N]; ha_wipes := 1; ha_end := HECrash |} = false /\
  hs_attempt_ok hsdb4 {| ha_batches := [[2]%N]; ha_wipes := 0; ha_end := HEInterrupted |} = false.
Proof. vm_compute. repeat split; reflexivity. Qed.

(* hs_ok is needed: a contract without a deployment height makes ingestAddress fail, so no
   producible attempt ever returns (nil, nil) with it still to be migrated *)
Example C18_headstate_ok_needed :
  let db := [hrow_ 1 (Some 7%N) (Some 3%N) None] in
  hs_ok db = false /\ hs_attempt_ok db (hs_uninterrupted db) = false /\
  hs_attempt_ok db {| ha_batches := []; ha_wipes := 3; ha_end := HEDone |} = false.
Proof. vm_compute. repeat split; reflexivity. Qed.

(* the node registry instance: m0 a two-step migration on the rest of the database, m1 (optional,
   enabled) prunes the first block like historyprunner does; environments that commit out of
   order; a schedule with cancellations, crashes and I/O errors, every start with its own
   environment; the completing run reaches the database of the uninterrupted run *)
Definition m0x : @migration (regdb N) (regtok N) :=
  {| mig_optional := false;
     mig_step := fun d t c =>
       let p := match t with Some (TX n) => n | _ => 0%N end in
       if c then (d, Suspended (TX p))
       else let d' := {| g_x := N.max (g_x d) (p + 1); g_hs := g_hs d; g_sd := g_sd d |} in
            if N.leb 2 (p + 1) then (d', Done) else (d', Suspended (TX (p + 1)%N)) |}.
Definition m1x : @migration (regdb N) (regtok N) :=
  {| mig_optional := true;
     mig_step := fun d t c =>
       ({| g_x := g_x d; g_hs := g_hs d; g_sd := match g_sd d with _ :: r => None :: r | [] => [] end |}, Done) |}.
Definition ehA : hs_env := fun _ hi => ([[2%N]; [1%N]], 1).
Definition ehB : hs_env := fun _ hi => ([[3%N; 1%N]], 0).
Definition esA : sdl_env := fun _ s => ([[S s]; [s]], 1).
Definition esB : sdl_env := fun _ s => ([[s + 3; s + 2]], 0).
Definition reg0 : @pstate (regdb N) (regtok N) :=
  {| cur := 0; last := 0; inter := []; pdb := {| g_x := 0%N; g_hs := hsdb4; g_sd := [sb 4; sb 2; sb 0; sb 9; sb 1] |} |}.
Example registry_resume_instance :
  let reg := node_registry m0x m1x in
  let bs := [ ((ehA, esA), {| b_enabled := 6; b_cancel := cancel_after 4; b_crash := None |});
              ((ehB, esB), {| b_enabled := 6; b_cancel := no_intr; b_crash := Some 3 |});
              ((ehA, esB), {| b_enabled := 6; b_cancel := io_error_after 2; b_crash := None |});
              ((ehB, esA), {| b_enabled := 6; b_cancel := cancel_after 5; b_crash := Some 4 |});
              ((ehA, esA), {| b_enabled := 6; b_cancel := cancel_after 3; b_crash := None |}) ] in
  let mid := run_schedule_v 40 (map (fun eb => (reg (fst (fst eb)) (snd (fst eb)), snd eb)) bs) reg0 in
  let fin := run_boot (reg ehB esB) 40 6 no_intr mid in
  let ref := run_boot (reg ehA esA) 40 6 no_intr reg0 in
  snd fin = ROk /\ snd ref = ROk /\ pdb (ms_p (fst fin)) = pdb (ms_p (fst ref)) /\
  cur (ms_p (fst fin)) = 15%N /\ mid <> reg0 /\ cur mid <> 15%N /\
  g_sd (pdb (ms_p (fst fin))) = sdl_complete (None :: [sb 2; sb 0; sb 9; sb 1]) /\
  g_hs (pdb (ms_p (fst fin))) = hs_complete hsdb4.
Proof. vm_compute. repeat split; try reflexivity; discriminate. Qed.
