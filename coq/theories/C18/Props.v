(* C18 — property theorems only. Each is closed by [exact] of a lemma from Proofs*.v and followed
   by Print Assumptions. DB and Tok are arbitrary types; migrations are arbitrary step functions. *)
From Coq Require Import List NArith Bool Arith Sorted.
From Coq Require Import Lia ZifyN ZifyNat ZifyBool.
From V Require Import C18.Model C18.Proofs C18.Proofs_BT C18.Proofs_Resume C18.Proofs_SDL C18.Proofs_Io.
Import ListNotations.

(* A migration is recorded as applied only after its Migrate returned (nil, nil): in the event log
   of every process lifetime — any registry, any optional flags, any cancellation moment, any
   start state — every "applied bit set" event directly follows "Migrate of that migration
   returned Done". Hypothesis: no registered migration ever returns (nil, ctx.Err()). *)
Theorem C18_applied_only_if_complete :
  forall (DB Tok : Type) (es : list (@migration DB Tok)) fuel enabled c (s : @pstate DB Tok) st r,
  Forall (@well_behaved DB Tok) es -> run_boot es fuel enabled c s = (st, r) ->
  applied_after_done (ms_log st) = true.
Proof. exact applied_only_if_complete_lemma. Qed.
Print Assumptions C18_applied_only_if_complete.

(* ... and bits of CurrentVersion — in the final state and at every crash point — only come from
   such events *)
Theorem C18_bits_only_from_applied :
  forall (DB Tok : Type) (es : list (@migration DB Tok)) fuel enabled c (s : @pstate DB Tok) st r,
  run_boot es fuel enabled c s = (st, r) ->
  forall p, (p = ms_p st \/ In p (ms_trace st)) ->
  forall j, vhas (cur p) j = true -> vhas (cur s) j = true \/ In j (applied_events (ms_log st)).
Proof. exact bits_only_from_applied_lemma. Qed.
Print Assumptions C18_bits_only_from_applied.

(* each pending migration is invoked at most once per process lifetime, in ascending index order;
   exactly the pending ones when Run returns nil *)
Theorem C18_once_in_order :
  forall (DB Tok : Type) (es : list (@migration DB Tok)) fuel enabled c (s : @pstate DB Tok) st r,
  run_boot es fuel enabled c s = (st, r) ->
  let pend := bits_of (vdiff (target_version es enabled) (cur s)) in
  StronglySorted lt pend /\
  (exists rest, invocations (ms_log st) ++ rest = pend) /\
  (r = ROk -> invocations (ms_log st) = pend).
Proof. exact once_in_order_lemma. Qed.
Print Assumptions C18_once_in_order.

(* a binary whose target lacks an applied migration is refused and writes nothing *)
Theorem C18_downgrade_refused :
  forall (DB Tok : Type) (es : list (@migration DB Tok)) fuel enabled c (s : @pstate DB Tok) i,
  vhas (cur s) i = true -> vhas (target_version es enabled) i = false ->
  let r := run_boot es fuel enabled c s in
  (snd r = RRefusedDowngrade \/ snd r = RRefusedOptOut) /\ ms_p (fst r) = s /\ ms_trace (fst r) = [].
Proof. exact downgrade_refused_lemma. Qed.
Print Assumptions C18_downgrade_refused.

(* in particular a binary that does not have the migration at all *)
Theorem C18_lacking_applied_refused :
  forall (DB Tok : Type) (es : list (@migration DB Tok)) fuel enabled c (s : @pstate DB Tok) i,
  length es <= i -> vhas (cur s) i = true ->
  let r := run_boot es fuel enabled c s in
  (snd r = RRefusedDowngrade \/ snd r = RRefusedOptOut) /\ ms_p (fst r) = s /\ ms_trace (fst r) = [].
Proof. exact lacking_applied_refused_lemma. Qed.
Print Assumptions C18_lacking_applied_refused.

(* a target that lacks ANY bit (of the uint64) an earlier run targeted — LastTargetVersion is
   written before the first migration runs, so this covers migrations that were opted into and
   never finished — is refused and writes nothing; no restriction to registered indices *)
Theorem C18_optout_refused :
  forall (DB Tok : Type) (es : list (@migration DB Tok)) fuel enabled c (s : @pstate DB Tok) i,
  i < max_migrations -> vhas (last s) i = true -> vhas (target_version es enabled) i = false ->
  let r := run_boot es fuel enabled c s in
  (snd r = RRefusedOptOut \/ snd r = RRefusedDowngrade) /\ ms_p (fst r) = s /\ ms_trace (fst r) = [].
Proof. exact optout_refused_lemma. Qed.
Print Assumptions C18_optout_refused.

(* in particular a binary that does not have the migration at all *)
Theorem C18_lacking_opted_in_refused :
  forall (DB Tok : Type) (es : list (@migration DB Tok)) fuel enabled c (s : @pstate DB Tok) i,
  length es <= i -> i < max_migrations -> vhas (last s) i = true ->
  let r := run_boot es fuel enabled c s in
  snd r = RRefusedDowngrade /\ ms_p (fst r) = s /\ ms_trace (fst r) = [].
Proof. exact lacking_opted_in_refused_lemma. Qed.
Print Assumptions C18_lacking_opted_in_refused.

Theorem C18_accepted_sound :
  forall (DB Tok : Type) (es : list (@migration DB Tok)) fuel enabled c (s : @pstate DB Tok),
  let r := run_boot es fuel enabled c s in
  snd r <> RRefusedOptOut -> snd r <> RRefusedDowngrade ->
  (forall i, vhas (cur s) i = true -> vhas (target_version es enabled) i = true) /\
  (forall i, i < max_migrations -> vhas (last s) i = true -> vhas (target_version es enabled) i = true).
Proof. exact accepted_sound_lemma. Qed.
Print Assumptions C18_accepted_sound.

(* resume_same_db, runner level. For every schedule of process lifetimes — each cancelled after
   an arbitrary number of writes and/or hit by an I/O error at an arbitrary write (both in
   [b_cancel]: the migration then returns (nil, err), or the runner's own write fails) and/or
   killed after an arbitrary number of writes, optional flags fixed — a final uninterrupted run reaches the database of an uninterrupted run from the start,
   namely the fold of the migrations' completion functions over the pending list; provided every
   registered migration is resumable (its steps keep its completion function [spec i] invariant,
   keep every valid resume token valid, and it finishes exactly in [spec i]; never (nil, ctx.Err()),
   never a failure). Fuel: the statement is about runs that return ROk, i.e. did not run out. *)
Theorem C18_resume_same_db :
  forall (DB Tok : Type) (es : list (@migration DB Tok)) (fuel : nat) (enabled : N)
         (spec : nat -> DB -> DB) (good : nat -> DB -> option Tok -> Prop),
  (forall i db, good i db None) ->
  (forall i m, nth_error es i = Some m ->
     forall db t c db' o, good i db t -> mig_step m db t c = (db', o) ->
       spec i db' = spec i db /\ (forall s, good i db s -> good i db' s) /\
       match o with
       | Done => db' = spec i db
       | Suspended t' => good i db' (Some t')
       | _ => False
       end) ->
  forall (bs : list boot) (s0 : @pstate DB Tok) st_ref st_fin,
  (forall j, lookup (inter s0) j = None) ->
  Forall (fun b => b_enabled b = enabled) bs ->
  run_boot es fuel enabled no_intr s0 = (st_ref, ROk) ->
  run_boot es fuel enabled no_intr (run_schedule es fuel bs s0) = (st_fin, ROk) ->
  pdb (ms_p st_fin) = pdb (ms_p st_ref) /\
  pdb (ms_p st_ref) =
    fold_left (fun d i => spec i d) (bits_of (vdiff (target_version es enabled) (cur s0))) (pdb s0) /\
  bits_of (vdiff (target_version es enabled) (cur (ms_p st_fin))) = [] /\
  bits_of (vdiff (target_version es enabled) (cur (ms_p st_ref))) = [].
Proof. exact resume_same_db_lemma. Qed.
Print Assumptions C18_resume_same_db.

(* IoError interruptions: a Migrate call that returned an error (not the context's) is the last
   thing that process lifetime did — Run returns an error, no resume token is stored and no bit is
   applied after it (together with C18_bits_only_from_applied: the bit stays clear) *)
Theorem C18_io_error_is_final :
  forall (DB Tok : Type) (es : list (@migration DB Tok)) fuel enabled c (s : @pstate DB Tok) st r i,
  run_boot es fuel enabled c s = (st, r) -> In (EReturn i Failed) (ms_log st) ->
  r = RFailed /\ exists j l, ms_log st = EReturn j Failed :: l /\ no_failed Tok l.
Proof. exact io_error_is_final_lemma. Qed.
Print Assumptions C18_io_error_is_final.

(* statedifflength's decision on the pipeline result: an error never yields a checkpoint; a
   checkpoint is returned only for an error-free result whose source did not finish *)
Theorem C18_statedifflength_error_never_checkpoints : forall is_done has_err next,
  has_err = true -> sdl_decide is_done has_err next = SdlError.
Proof. exact sdl_error_never_checkpoints. Qed.
Print Assumptions C18_statedifflength_error_never_checkpoints.

Theorem C18_statedifflength_checkpoint_only_when_clean : forall is_done has_err next n,
  sdl_decide is_done has_err next = SdlCheckpoint n -> has_err = false /\ is_done = false /\ n = next.
Proof. exact sdl_checkpoint_only_when_clean. Qed.
Print Assumptions C18_statedifflength_checkpoint_only_when_clean.

(* blocktransactions, block-granularity model: an uninterrupted run on any well-formed old-layout
   database in which every aligned range of 10 blocks holds a transaction serves every block
   (empty ones included) through the new accessor with its original content, old buckets empty *)
Theorem C18_data_preserved : forall db : btdb,
  db <> [] -> wf_old db = true -> no_empty_range db = true ->
  exists db', bt_complete (length db + 3) db None = Some db'
    /\ preserved (map acc_old db) db' = true
    /\ forallb (fun b => negb (nonempty (b_otx b)) && negb (nonempty (b_orc b))) db' = true.
Proof. exact bt_data_preserved_lemma. Qed.
Print Assumptions C18_data_preserved.

(* ... and so does resumption from every prefix state (what a cancellation leaves behind) *)
Theorem C18_data_preserved_resume_prefix : forall (db : btdb) (k : nat) (dbk : btdb) (tok : option bttok),
  db <> [] -> wf_old db = true -> no_empty_range db = true ->
  commit_ranges db (map (fun j => j * batch_size) (seq 0 k)) = Some dbk ->
  (tok = None \/ tok = Some Rescan) ->
  exists db', bt_complete (length db + 3) dbk tok = Some db'
    /\ preserved (map acc_old db) db' = true.
Proof. exact bt_resume_prefix_lemma. Qed.
Print Assumptions C18_data_preserved_resume_prefix.

(* ... and from ANY crash state between batch commits: an arbitrary collection of aligned ranges
   already committed (any order, repetitions, not necessarily a prefix — what the four ingestor
   batches leave behind when the process dies or a batch write fails between their commits). The
   completed database IS the database of the uninterrupted run, and serves every block's original
   content. (resume_same_db for the blocktransactions model; holds since fix d128c93.) *)
Theorem C18_resume_same_db_any_committed :
  forall (db : btdb) (js : list nat) (dbc : btdb) (tok : option bttok),
  db <> [] -> wf_old db = true -> no_empty_range db = true ->
  commit_ranges db (map (fun j => j * batch_size) js) = Some dbc ->
  (tok = None \/ tok = Some Rescan) ->
  exists db', bt_complete (length db + 3) dbc tok = Some db'
    /\ bt_complete (length db + 3) db None = Some db'
    /\ preserved (map acc_old db) db' = true.
Proof. exact bt_resume_any_committed_lemma. Qed.
Print Assumptions C18_resume_same_db_any_committed.

(* statedifflength: a backfill resumed from ANY checkpoint [ck] on a database whose first [p]
   blocks were pruned in the meantime (optional pruning migration enabled between two starts; the
   checkpoint may lie below, at or above the new floor) completes, leaves every retained block with
   StateDiffLength = StateDiff.Length() and touches nothing else — because it starts at
   max(checkpoint, oldest retained). Hypothesis: retained blocks below the checkpoint are filled. *)
Theorem C18_statedifflength_resume_after_prune : forall (p : nat) (bs : list sblock) (ck : nat),
  bs <> [] ->
  (forall i b, i < ck - p -> nth_error bs i = Some b -> filled b = true) ->
  exists db', sdl_migrate ck (repeat None p ++ map Some bs) = Some db' /\
    sdl_done db' = true /\
    map (option_map s_len) db' = map (option_map s_len) (repeat None p ++ map Some bs).
Proof. exact sdl_resume_after_prune_lemma. Qed.
Print Assumptions C18_statedifflength_resume_after_prune.

(* ---------------------------------------------------------------------------------------- *)
(* Non-vacuity and the witnesses that the hypotheses are needed (all by computation).        *)
(* ---------------------------------------------------------------------------------------- *)
(* a scripted migration over DB := N (units of work done), Tok := N *)
Definition script (total : N) (nil_on_cancel : bool) : @migration N N :=
  {| mig_optional := false;
     mig_step := fun db tok c =>
       let p := match tok with Some t => t | None => 0%N end in
       if c then (db, if nil_on_cancel then NilWithCtxErr else Suspended p)
       else let db' := N.max db (p + 1) in
            if N.leb total (p + 1) then (db', Done) else (db', Suspended (p + 1)%N) |}.
Definition s0 : @pstate N N := {| cur := 0; last := 0; inter := []; pdb := 0%N |}.

Lemma script_well_behaved : forall t, well_behaved (script t false).
Proof.
  intros t db tok c. unfold script; simpl. destruct c; simpl; try discriminate.
  destruct (N.leb t _); discriminate.
Qed.

Example hypotheses_satisfiable :
  let '(st, r) := run_boot [script 3 false; script 2 false] 20 0 (cancel_after 3) s0 in
  r = RCancelled /\ cur (ms_p st) = 0%N /\ inter (ms_p st) = [(0, 2%N)] /\ pdb (ms_p st) = 2%N /\
  let '(st', r') := run_boot [script 3 false; script 2 false] 20 0 no_intr (ms_p st) in
  r' = ROk /\ cur (ms_p st') = 3%N /\ inter (ms_p st') = [] /\ invocations (ms_log st') = [0; 1].
Proof. vm_compute. repeat split; reflexivity. Qed.

(* the hypotheses of C18_resume_same_db hold for the two scripted migrations above *)
Example resumable_satisfiable :
  let total := fun i : nat => match i with O => 3%N | _ => 2%N end in
  let spec := fun (i : nat) (db : N) => N.max db (total i) in
  let good := fun (i : nat) (_ : N) (t : option N) => match t with Some p => (p < total i)%N | None => True end in
  (forall i db, good i db None) /\
  (forall i m, nth_error [script 3 false; script 2 false] i = Some m ->
     forall db t c db' o, good i db t -> mig_step m db t c = (db', o) ->
       spec i db' = spec i db /\ (forall s, good i db s -> good i db' s) /\
       match o with
       | Done => db' = spec i db
       | Suspended t' => good i db' (Some t')
       | _ => False
       end).
Proof.
  intros total spec good. split. { intros; exact I. }
  intros i m Hm db t c db' o Hg Hs.
  assert (Hm' : m = script (total i) false /\ (total i = 3 \/ total i = 2)%N).
  { destruct i as [|[|i]]; simpl in Hm; inversion Hm; subst; simpl; auto. destruct i; discriminate. }
  destruct Hm' as [-> Ht]. unfold script in Hs; simpl in Hs. subst spec good; simpl in *.
  destruct c.
  - inversion Hs; subst. split; auto. split; auto. destruct t; simpl in *; lia.
  - destruct (N.leb_spec (total i) (match t with Some t0 => t0 | None => 0 end + 1)%N);
      inversion Hs; subst; (split; [|split; auto]); destruct t; simpl in *; lia.
Qed.

(* and a schedule with cancellations, crashes, I/O errors and restarts ends where the straight run ends *)
Example resume_same_db_instance :
  let es := [script 3 false; script 2 false] in
  let bs := [ {| b_enabled := 0; b_cancel := cancel_after 2; b_crash := None |};
              {| b_enabled := 0; b_cancel := no_intr; b_crash := Some 2 |};
              {| b_enabled := 0; b_cancel := cancel_after 1; b_crash := Some 1 |};
              {| b_enabled := 0; b_cancel := io_error_after 2; b_crash := None |};
              {| b_enabled := 0; b_cancel := (Some 3, Some 1); b_crash := None |};
              {| b_enabled := 0; b_cancel := io_error_after 0; b_crash := None |} ] in
  snd (run_boot es 20 0 no_intr s0) = ROk /\
  snd (run_boot es 20 0 no_intr (run_schedule es 20 bs s0)) = ROk /\
  pdb (ms_p (fst (run_boot es 20 0 no_intr (run_schedule es 20 bs s0)))) = pdb (ms_p (fst (run_boot es 20 0 no_intr s0))) /\
  run_schedule es 20 bs s0 <> s0.
Proof. vm_compute. repeat split; try reflexivity. discriminate. Qed.

(* well_behaved is needed: the runner sets the applied bit for (nil, ctx.Err()) — cancelled after
   the first unit of three, bit 0 set, one unit done, Run returns the context's error *)
Example C18_well_behaved_needed :
  exists (m : @migration N N) c, ~ well_behaved m /\
  let '(st, r) := run_boot [m] 20 0 c s0 in
  applied_after_done (ms_log st) = false /\ vhas (cur (ms_p st)) 0 = true /\
  pdb (ms_p st) = 1%N /\ r = RCancelled /\
  (* ... and the next start considers the migration done *)
  snd (run_boot [m] 20 0 no_intr (ms_p st)) = ROk /\ pdb (ms_p (fst (run_boot [m] 20 0 no_intr (ms_p st)))) = 1%N.
Proof.
  exists (script 3 true), (cancel_after 2). split.
  - intro H. apply (H 0%N None true). reflexivity.
  - vm_compute. repeat split; reflexivity.
Qed.

(* the documented "(state, nil) while the context is live" return: Run goes on with the next
   migration and returns nil although migration 0 is not applied *)
Definition yielder : @migration N N :=
  {| mig_optional := false;
     mig_step := fun db tok c => match tok with None => (db, Yield 1%N) | Some _ => (N.succ db, Done) end |}.
Example yield_runs_next_and_reports_success :
  let '(st, r) := run_boot [yielder; script 1 false] 20 0 no_intr s0 in
  r = ROk /\ vhas (cur (ms_p st)) 0 = false /\ vhas (cur (ms_p st)) 1 = true /\
  invocations (ms_log st) = [0; 1].
Proof. vm_compute. repeat split; reflexivity. Qed.

(* a migration that an earlier run opted into but did not finish, present binary without it
   (bit 1 of LastTargetVersion, one-migration registry): refused since fix c2e766d — before it
   validateNoOptOut stopped at the out-of-range bit and validateNoVersionDowngrade only looked at
   CurrentVersion, so the run was accepted *)
Example opted_in_beyond_registry_refused :
  let s := {| cur := 1; last := 3; inter := [(1, 1%N)]; pdb := 5%N |} in
  let '(st, r) := run_boot [script 1 false] 20 0 no_intr s in
  r = RRefusedDowngrade /\ ms_p st = s.
Proof. vm_compute. split; reflexivity. Qed.

(* blocktransactions: the hypotheses of C18_data_preserved hold for a concrete database with an
   empty block, and they are needed *)
Definition blk (c : N) (ids : list N) : block := {| b_count := c; b_otx := ids; b_orc := ids; b_new := None |}.
Definition db11 : btdb := blk 1 [1%N] :: repeat (blk 0 []) 9 ++ [blk 1 [2%N]].
Example data_preserved_nonvacuous : db11 <> [] /\ wf_old db11 = true /\ no_empty_range db11 = true.
Proof. split. discriminate. vm_compute. auto. Qed.

(* crash after the batch holding range [10,10] was committed and before the one holding [0,9]:
   the restart re-ingests block 10, finds no old entries, sees the blob ("already migrated") and —
   since fix d128c93 — leaves it alone; the completed database is the uninterrupted one. (Before
   the fix ingestBlock wrote the empty freshly built blob over it and block 10 read back empty.) *)
Example crash_between_batch_commits_resumes :
  exists dbc, commit_ranges db11 [10] = Some dbc /\
  exists db', bt_complete 14 dbc None = Some db' /\ preserved (map acc_old db11) db' = true /\
  option_map acc_new (nth_error db' 10) = Some (Some ([2%N], [2%N])) /\
  bt_complete 14 db11 None = Some db'.
Proof.
  eexists. split. vm_compute. reflexivity.
  eexists. split. vm_compute. reflexivity.
  vm_compute. repeat split; reflexivity.
Qed.

(* a leading aligned range without transactions is never visited: its blocks have no blob *)
Definition db12 : btdb := repeat (blk 0 []) 11 ++ [blk 1 [1%N]].
Example C18_data_preserved_empty_range_refuted :
  wf_old db12 = true /\ no_empty_range db12 = false /\
  exists db', bt_complete 15 db12 None = Some db' /\ preserved (map acc_old db12) db' = false /\
  option_map acc_new (nth_error db' 0) = Some None.
Proof.
  split. vm_compute; reflexivity. split. vm_compute; reflexivity.
  eexists. split. vm_compute. reflexivity. vm_compute. split; reflexivity.
Qed.

(* the same after a cancellation: range [10,19] empty, first range committed, resume starts at 20 *)
Definition db25 : btdb := blk 1 [1%N] :: repeat (blk 0 []) 23 ++ [blk 1 [2%N]].
Example C18_resume_skips_empty_range_refuted :
  exists dbk, commit_ranges db25 [0] = Some dbk /\
  exists a b, bt_complete 28 db25 None = Some a /\ bt_complete 28 dbk (Some Rescan) = Some b /\
  preserved (map acc_old db25) a = true /\ preserved (map acc_old db25) b = false /\ a <> b.
Proof.
  eexists. split. vm_compute. reflexivity.
  eexists. eexists. split. vm_compute. reflexivity. split. vm_compute. reflexivity.
  vm_compute. repeat split; try reflexivity. discriminate.
Qed.

(* statedifflength: checkpoint 1 saved, then blocks 0..2 pruned: the backfill completes; starting
   at the stale checkpoint instead of max(checkpoint, oldest retained) would hit a pruned block *)
Definition sdb5 : sdb := repeat None 3 ++ [Some {| s_len := 4; s_sdl := 0 |}; Some {| s_len := 2; s_sdl := 0 |}].
Example statedifflength_resume_instance :
  sdl_migrate 1 sdb5 = Some (repeat None 3 ++ [Some {| s_len := 4; s_sdl := 4 |}; Some {| s_len := 2; s_sdl := 2 |}]) /\
  backfill_from sdb5 1 = None.
Proof. vm_compute. split; reflexivity. Qed.

(* an I/O error at the second unit of work: Run fails, nothing stored, bit clear; the restart
   completes from scratch *)
Example io_error_instance :
  let '(st, r) := run_boot [script 3 false] 20 0 (io_error_after 2) s0 in
  r = RFailed /\ cur (ms_p st) = 0%N /\ inter (ms_p st) = [] /\ pdb (ms_p st) = 1%N /\
  snd (run_boot [script 3 false] 20 0 no_intr (ms_p st)) = ROk /\
  pdb (ms_p (fst (run_boot [script 3 false] 20 0 no_intr (ms_p st)))) = 3%N.
Proof. vm_compute. repeat split; reflexivity. Qed.
