(* C18 (Registry.v, re-exported by Model.v) — the node's registry (node/migration.go
   registerMigrations) over one database:
       0 blocktransactions   1 historyprunner (optional)   2 headstate (optional)   3 statedifflength
   The database is a record: what headstate works on (the four contract buckets), what
   statedifflength works on (commitments / state updates per block) and everything else. The first
   two migrations are arbitrary migrations over the WHOLE record (historyprunner prunes the block
   list statedifflength reads); the last two are the models of HeadState.v / Sdl.v lifted to their
   component. Definitions only. *)
From Coq Require Import List NArith Bool Arith.
From V Require Import C18.Runner C18.Sdl C18.HeadState.
Import ListNotations.

Section Registry.
Context {X XT : Type}.

Record regdb := { g_x : X; g_hs : hsdb; g_sd : sdb }.
Inductive regtok := TX (t : XT) | THs (t : hstok) | TSd (t : sdltok).

Definition with_hs (d : regdb) (h : hsdb) : regdb := {| g_x := g_x d; g_hs := h; g_sd := g_sd d |}.
Definition with_sd (d : regdb) (s : sdb) : regdb := {| g_x := g_x d; g_hs := g_hs d; g_sd := s |}.

Definition map_outcome {A B} (f : A -> B) (o : @outcome A) : @outcome B :=
  match o with
  | Done => Done
  | Suspended t => Suspended (f t)
  | Yield t => Yield (f t)
  | Failed => Failed
  | NilWithCtxErr => NilWithCtxErr
  end.

(* a stored token of another migration's kind is not a token of this one (Before would see bytes it
   does not understand); the runner never hands one over: tokens are stored per index *)
Definition lift_hs (m : @migration hsdb hstok) : @migration regdb regtok :=
  {| mig_optional := mig_optional m;
     mig_step := fun d t c =>
       let t' := match t with Some (THs x) => Some x | _ => None end in
       let '(h, o) := mig_step m (g_hs d) t' c in (with_hs d h, map_outcome THs o) |}.

Definition lift_sd (m : @migration sdb sdltok) : @migration regdb regtok :=
  {| mig_optional := mig_optional m;
     mig_step := fun d t c =>
       let t' := match t with Some (TSd x) => Some x | _ => None end in
       let '(s, o) := mig_step m (g_sd d) t' c in (with_sd d s, map_outcome TSd o) |}.

Definition node_registry (m0 m1 : @migration regdb regtok) (eh : hs_env) (es : sdl_env)
  : list (@migration regdb regtok) :=
  [m0; m1; lift_hs (hs_migration eh); lift_sd (sdl_migration es)].

End Registry.
Arguments regdb : clear implicits.
Arguments regtok : clear implicits.
