(* C18 (Runner.v, re-exported by Model.v) — executable model of juno's schema-migration runner (migration/runner.go, registry.go,
   version.go, metadata.go) and a block-granularity model of the blocktransactions migration
   (migration/blocktransactions/{blocktransactions,check_status,ingestor}.go).
   Definitions only; proofs are in Proofs.v; everything here is extracted to OCaml. *)
From Coq Require Import List NArith Bool Arith.
Import ListNotations.

(* ------------------------------------------------------------------------------------------ *)
(* SchemaVersion: a bitset (uint64 in Go; N here, indices < 64).                                *)
(* ------------------------------------------------------------------------------------------ *)
Definition max_migrations : nat := 64.

Definition vhas (v : N) (i : nat) : bool := N.testbit v (N.of_nat i).          (* Has *)
Definition vset (v : N) (i : nat) : N := N.setbit v (N.of_nat i).              (* Set *)
Definition vdiff (a b : N) : N := N.ldiff a b.                                 (* a.Difference(b) *)
Definition vcontains (a b : N) : bool := N.eqb (vdiff b a) 0.                  (* a.Contains(b) *)
(* Iter: set bit indices, ascending *)
Definition bits_of (v : N) : list nat := filter (vhas v) (seq 0 max_migrations).

Fixpoint lookup {A} (l : list (nat * A)) (i : nat) : option A :=
  match l with
  | [] => None
  | (j, a) :: r => if Nat.eqb j i then Some a else lookup r i
  end.
Definition remove_key {A} (l : list (nat * A)) (i : nat) : list (nat * A) :=
  filter (fun p => negb (Nat.eqb (fst p) i)) l.
Definition set_key {A} (l : list (nat * A)) (i : nat) (a : A) : list (nat * A) :=
  (i, a) :: remove_key l i.

(* ------------------------------------------------------------------------------------------ *)
(* The runner, generic in the database type and the resume-token type.                          *)
(* ------------------------------------------------------------------------------------------ *)
Section Runner.
Context {DB Tok : Type}.

(* What one scheduling quantum of Migration.Migrate amounts to.
   [mig_step db tok cancelled]:
     cancelled = false : the migration performs ONE atomic commit of work and
         Suspended t  — has more to do; t is its in-memory continuation (never persisted by itself)
         Done         — Migrate returns (nil, nil)
         Yield t      — Migrate returns (t, nil) although the context is live (allowed by the
                        interface comment "(state, nil): migration in progress")
         Failed       — Migrate returns (_, err) with err not the context's error
     cancelled = true  : the migration observes ctx.Done(), winds down (it may still flush, hence a
         new db) and returns
         Suspended t / Yield t — (t, nil) or (t, ctx error): resume token t
         NilWithCtxErr         — (nil, ctx.Err())
         Done                  — (nil, nil): it was finished anyway
         Failed                — another error *)
Inductive outcome := Done | Suspended (t : Tok) | Yield (t : Tok) | Failed | NilWithCtxErr.

Record migration := { mig_step : DB -> option Tok -> bool -> DB * outcome; mig_optional : bool }.

(* persistent state: SchemaMetadata{CurrentVersion, LastTargetVersion} (missing key = zeros, as
   NewRunner treats it), the SchemaIntermediateState bucket, and the rest of the database *)
Record pstate := { cur : N; last : N; inter : list (nat * Tok); pdb : DB }.

Inductive result := ROk | RCancelled | RFailed | RRefusedOptOut | RRefusedDowngrade | ROutOfFuel.

Inductive event :=
| EInvoke (i : nat) (t : option Tok)      (* Before(t); Migrate(...) called for migration i *)
| EReturn (i : nat) (o : outcome)         (* what that Migrate call returned *)
| ESaved (i : nat) (t : Tok)              (* WriteIntermediateState *)
| EApplied (i : nat).                     (* applied bit set + intermediate state cleared, one batch *)

(* the environment of one process lifetime, two countdowns in persistent writes (None = never):
   fst: the context is cancelled after that many more writes;
   snd: IoError — after that many more writes the store fails ONCE (the next write attempt, or a
        read before it, returns an error) *)
Definition clock := (option nat * option nat)%type.
Definition cancelled (c : clock) : bool := match fst c with Some O => true | _ => false end.
Definition faulted (c : clock) : bool := match snd c with Some O => true | _ => false end.
Definition tick1 (c : option nat) : option nat := match c with Some (S n) => Some n | x => x end.
Definition tick (c : clock) : clock := (tick1 (fst c), tick1 (snd c)).
Definition disarm_clk (c : clock) : clock := (fst c, None).
Definition no_intr : clock := (None, None).
Definition cancel_after (n : nat) : clock := (Some n, None).
Definition io_error_after (n : nat) : clock := (None, Some n).

(* machine state of one process lifetime: persistent state, context clock, the persistent state
   after each write so far (newest first — the crash points), event log (newest first) *)
Record mstate := { ms_p : pstate; ms_clk : clock; ms_trace : list pstate; ms_log : list event }.

Definition write (f : pstate -> pstate) (st : mstate) : mstate :=
  let p := f (ms_p st) in
  {| ms_p := p; ms_clk := tick (ms_clk st); ms_trace := p :: ms_trace st; ms_log := ms_log st |}.
(* the injected error has fired *)
Definition disarm (st : mstate) : mstate :=
  {| ms_p := ms_p st; ms_clk := disarm_clk (ms_clk st); ms_trace := ms_trace st; ms_log := ms_log st |}.
Definition emit (e : event) (st : mstate) : mstate :=
  {| ms_p := ms_p st; ms_clk := ms_clk st; ms_trace := ms_trace st; ms_log := e :: ms_log st |}.

Definition with_db (d : DB) (p : pstate) : pstate :=
  {| cur := cur p; last := last p; inter := inter p; pdb := d |}.
Definition with_last (t : N) (p : pstate) : pstate :=
  {| cur := cur p; last := t; inter := inter p; pdb := pdb p |}.
Definition save_inter (i : nat) (t : Tok) (p : pstate) : pstate :=
  {| cur := cur p; last := last p; inter := set_key (inter p) i t; pdb := pdb p |}.
(* runner.go:154-168 — one batch: CurrentVersion.Set(i) + DeleteIntermediateState(i) *)
Definition apply_bit (i : nat) (p : pstate) : pstate :=
  {| cur := vset (cur p) i; last := last p; inter := remove_key (inter p) i; pdb := pdb p |}.

(* registry.go: With / WithOptional(enabled) *)
Definition target_version (es : list migration) (enabled : N) : N :=
  fold_left (fun acc (p : nat * migration) =>
               if negb (mig_optional (snd p)) || vhas enabled (fst p) then vset acc (fst p) else acc)
            (combine (seq 0 (length es)) es) 0%N.

(* validateNoOptOut: bits of last \ target (a uint64), ascending. An index beyond the registry
   returns the "newer, incompatible version" error at once (fix c2e766d; before it the loop just
   stopped there); otherwise an opt-out error iff at least one index inside the registry was seen.
   Ascending order: all in-registry indices come first, so the out-of-range error wins whenever
   such a bit exists. *)
Definition beyond_registry (target lastv : N) (nentries : nat) : bool :=
  existsb (vhas (vdiff lastv target)) (seq nentries (max_migrations - nentries)).
Definition opt_out_attempt (target lastv : N) (nentries : nat) : bool :=
  existsb (vhas (vdiff lastv target)) (seq 0 nentries).

Inductive errk := ENil | ECtx | EOther.

(* one Migrate call: iterate steps until the migration returns *)
Fixpoint invoke (m : migration) (i : nat) (fuel : nat) (st : mstate) (tok : option Tok)
  : mstate * option (option Tok * errk) :=
  match fuel with
  | O => (st, None)
  | S f =>
    let c := cancelled (ms_clk st) in
    let flt := faulted (ms_clk st) in
    (* an I/O error stops the migration like a cancellation of its pipeline does (a stage error
       calls the pipeline's cancel): it winds down — it may still flush — and returns the error *)
    let '(db', o) := mig_step m (pdb (ms_p st)) tok (c || flt) in
    if c then
      (* wind-down; a flush is one more (atomic) write, the clock stays at 0 *)
      let st' := emit (EReturn i o) (write (with_db db') st) in
      (st', Some (match o with
                  | Done => (None, ENil)
                  | Suspended t | Yield t => (Some t, ENil)
                  | Failed => (None, EOther)
                  | NilWithCtxErr => (None, ECtx)
                  end))
    else if flt then
      (* IoError: Migrate returns (nil, err) whatever the wind-down produced *)
      (emit (EReturn i Failed) (disarm (write (with_db db') st)), Some (None, EOther))
    else
      let st' := write (with_db db') st in
      match o with
      | Suspended t => invoke m i f st' (Some t)
      | Done | NilWithCtxErr (* ctx.Err() is nil here, so this is (nil, nil) *) =>
          (emit (EReturn i Done) st', Some (None, ENil))
      | Yield t => (emit (EReturn i o) st', Some (Some t, ENil))
      | Failed => (emit (EReturn i o) st', Some (None, EOther))
      end
  end.

(* runMigration after Migrate returned (state, err) — runner.go:142-170 *)
Definition after_migrate (i : nat) (st : mstate) (tok : option Tok) (e : errk) : mstate * option result :=
  let c := cancelled (ms_clk st) in
  let abort := match e with ENil => false | ECtx => negb c | EOther => true end in
  if abort then (st, Some RFailed)               (* err != nil && !errors.Is(err, ctx.Err()) *)
  else if faulted (ms_clk st) then (disarm st, Some RFailed)   (* the runner's own write fails *)
  else match tok with
       | Some t =>                                (* intermediateState != nil *)
           let st' := emit (ESaved i t) (write (save_inter i t) st) in
           (st', if cancelled (ms_clk st') then Some RCancelled else None)   (* return ctx.Err() *)
       | None =>                                  (* also reached for (nil, ctx.Err()) *)
           (emit (EApplied i) (write (apply_bit i) st), None)
       end.

Fixpoint run_pending (es : list migration) (fuel : nat) (pend : list nat) (st : mstate) : mstate * result :=
  match pend with
  | [] => (st, if cancelled (ms_clk st) then RCancelled else ROk)     (* return ctx.Err() *)
  | i :: rest =>
    if cancelled (ms_clk st) then (st, RCancelled)                    (* loop head: ctx.Err() *)
    else match nth_error es i with
         | None => (st, RFailed)                                      (* cannot happen: bits < len *)
         | Some m =>
           let tok := lookup (inter (ms_p st)) i in                   (* GetIntermediateState *)
           let '(st1, r) := invoke m i fuel (emit (EInvoke i tok) st) tok in
           match r with
           | None => (st1, ROutOfFuel)
           | Some (t', e) =>
             let '(st2, stop) := after_migrate i st1 t' e in
             match stop with
             | Some res => (st2, res)
             | None => run_pending es fuel rest st2
             end
           end
         end
  end.

Definition init_mstate (s : pstate) (c : clock) : mstate :=
  {| ms_p := s; ms_clk := c; ms_trace := []; ms_log := [] |}.

(* NewRunner + Run of one process lifetime *)
Definition run_boot (es : list migration) (fuel : nat) (enabled : N) (c : clock) (s : pstate)
  : mstate * result :=
  let target := target_version es enabled in
  let st0 := init_mstate s c in
  if beyond_registry target (last s) (length es) then (st0, RRefusedDowngrade)
  else if opt_out_attempt target (last s) (length es) then (st0, RRefusedOptOut)
  else if negb (vcontains target (cur s)) then (st0, RRefusedDowngrade)
  else if faulted c then (disarm st0, RFailed)                (* writing schema metadata fails *)
  else
    let st := write (with_last target) st0 in                 (* LastTargetVersion first *)
    match bits_of (vdiff target (cur s)) with
    | [] => (st, ROk)                                          (* pending == 0: return nil *)
    | pend => run_pending es fuel pend st
    end.

(* a schedule: a list of process lifetimes, each with the optional-migration flags, the moment the
   context is cancelled, the moment the store fails once (both in [b_cancel]) and the moment the
   process dies (after that many persistent writes) *)
Record boot := { b_enabled : N; b_cancel : clock; b_crash : option nat }.

Definition boot_end (es : list migration) (fuel : nat) (s : pstate) (b : boot) : pstate :=
  let st := fst (run_boot es fuel (b_enabled b) (b_cancel b) s) in
  match b_crash b with
  | None => ms_p st
  | Some k => nth k (s :: rev (ms_trace st)) (ms_p st)
  end.

Definition run_schedule (es : list migration) (fuel : nat) (bs : list boot) (s : pstate) : pstate :=
  fold_left (boot_end es fuel) bs s.

(* the same with a registry per process lifetime: migrations whose behaviour depends on the
   environment (how the Go scheduler distributes work over batches, in which order the batches
   are committed, how far the source is ahead when it sees the cancellation) are families indexed
   by an environment function; every start may meet a different environment *)
Definition run_schedule_v (fuel : nat) (bs : list (list migration * boot)) (s : pstate) : pstate :=
  fold_left (fun s eb => boot_end (fst eb) fuel s (snd eb)) bs s.

(* chronological lists read off the event log *)
Definition invocations (l : list event) : list nat :=
  flat_map (fun e => match e with EInvoke i _ => [i] | _ => [] end) (rev l).
Definition applied_events (l : list event) : list nat :=
  flat_map (fun e => match e with EApplied i => [i] | _ => [] end) (rev l).

Definition is_nil_ctx (o : outcome) : bool := match o with NilWithCtxErr => true | _ => false end.
Definition is_done (o : outcome) : bool := match o with Done => true | _ => false end.

(* predicate evaluated on real runs (log newest first): every EApplied i is directly preceded by
   EReturn i Done *)
Fixpoint applied_after_done (log : list event) : bool :=
  match log with
  | [] => true
  | EApplied j :: r =>
      match r with
      | EReturn i o :: _ => Nat.eqb i j && is_done o
      | _ => false
      end && applied_after_done r
  | _ :: r => applied_after_done r
  end.

End Runner.

(* ------------------------------------------------------------------------------------------ *)
(* blocktransactions at block granularity.                                                      *)
(*   old layout: TransactionsByBlockNumberAndIndex / ReceiptsByBlockNumberAndIndex (one entry   *)
(*   per transaction; a block without transactions has no entry at all)                         *)
(*   new layout: BlockTransactions (one blob per block)                                         *)
(* ------------------------------------------------------------------------------------------ *)
Record block := { b_count : N;                 (* Header.TransactionCount *)
                  b_otx : list N; b_orc : list N;          (* old buckets, by index *)
                  b_new : option (list N * list N) }.      (* new blob *)
Definition btdb := list block.      (* block n = n-th element; [] = no chain height key *)

Definition batch_size : nat := 10.

Definition nonempty {A} (l : list A) : bool := match l with [] => false | _ => true end.

Fixpoint find_index {A} (f : A -> bool) (l : list A) : option nat :=
  match l with
  | [] => None
  | a :: r => if f a then Some 0 else option_map S (find_index f r)
  end.

Inductive first_res := FNone | FErr | FSome (minblock : nat).
(* check_status.go: getFirstBlockToMigrate *)
Definition get_first (db : btdb) : first_res :=
  match find_index (fun b => nonempty (b_otx b)) db, find_index (fun b => nonempty (b_orc b)) db with
  | None, None => FNone
  | Some t, Some r => if Nat.eqb t r then FSome (t - Nat.modulo t batch_size) else FErr
  | _, _ => FErr
  end.

(* ingestor.go: ingestBlock + validateCount. None = error. The "already migrated" case
   (no old entries, blob present): validateCount returns alreadyMigrated and ingestBlock returns
   WITHOUT the Put, so the blob stays (fix d128c93; before it the empty freshly built blob was
   written over it). The range delete of the old buckets happens in every case. *)
Definition ingest_block (b : block) : option block :=
  let ftx := N.of_nat (length (b_otx b)) in
  let frc := N.of_nat (length (b_orc b)) in
  let put := {| b_count := b_count b; b_otx := []; b_orc := [];     (* + deleteOldBlockRangeData *)
                b_new := Some (b_otx b, b_orc b) |} in
  let counts_ok := N.eqb ftx (b_count b) && N.eqb frc (b_count b) in
  if N.eqb ftx 0 || N.eqb frc 0 then
    match b_new b with
    | Some _ => Some {| b_count := b_count b; b_otx := []; b_orc := []; b_new := b_new b |}
                                                           (* "skipping already migrated block" *)
    | None => if N.ltb 0 (b_count b) then None else if counts_ok then Some put else None
    end
  else if counts_ok then Some put else None.

Fixpoint map_opt {A B} (f : A -> option B) (l : list A) : option (list B) :=
  match l with
  | [] => Some []
  | a :: r => match f a, map_opt f r with Some b, Some r' => Some (b :: r') | _, _ => None end
  end.

(* one range [start, start+batch_size) ∩ [0, height], one atomic batch *)
Definition ingest_range (db : btdb) (start : nat) : option btdb :=
  match map_opt ingest_block (firstn batch_size (skipn start db)) with
  | Some mid => Some (firstn start db ++ mid ++ skipn (start + batch_size) db)
  | None => None
  end.

(* clearOldBuckets *)
Definition clear_old (db : btdb) : btdb :=
  map (fun b => {| b_count := b_count b; b_otx := []; b_orc := []; b_new := b_new b |}) db.

Inductive bttok := Rescan | Cursor (next : nat).
(* Rescan = the persisted token []byte{} (or none): look at the database again;
   Cursor n = in-memory position of the block-number source inside one migrateBlockRange call *)

Definition bt_head (db : btdb) : btdb * @outcome bttok :=
  match get_first db with
  | FErr => (db, Failed)
  | FNone => (clear_old db, Done)
  | FSome mb => match ingest_range db mb with
                | None => (db, Failed)
                | Some db' => (db', Suspended (Cursor (mb + batch_size)))
                end
  end.

Definition bt_step (db : btdb) (tok : option bttok) (is_cancelled : bool) : btdb * @outcome bttok :=
  match db with
  | [] => (db, Done)                                  (* no chain height: (nil, nil) *)
  | _ =>
    if is_cancelled then (db, Suspended Rescan)       (* shouldRerun; everything emitted is flushed *)
    else match tok with
         | Some (Cursor n) =>
             if Nat.ltb n (length db) then
               match ingest_range db n with
               | None => (db, Failed)
               | Some db' => (db', Suspended (Cursor (n + batch_size)))
               end
             else bt_head db                          (* source exhausted: loop head again *)
         | _ => bt_head db
         end
  end.

Definition bt_migration : @migration btdb bttok := {| mig_step := bt_step; mig_optional := false |}.

(* uninterrupted Migrate *)
Fixpoint bt_complete (fuel : nat) (db : btdb) (tok : option bttok) : option btdb :=
  match fuel with
  | O => None
  | S f => match bt_step db tok false with
           | (db', Done) => Some db'
           | (db', Suspended t) => bt_complete f db' (Some t)
           | _ => None
           end
  end.

(* what the real pipeline can commit before dying: any subset of ranges, in any order *)
Fixpoint commit_ranges (db : btdb) (starts : list nat) : option btdb :=
  match starts with
  | [] => Some db
  | s :: r => match ingest_range db s with Some db' => commit_ranges db' r | None => None end
  end.

(* accessors *)
Definition acc_old (b : block) : list N * list N := (b_otx b, b_orc b).    (* per-index buckets: scan *)
Definition acc_new (b : block) : option (list N * list N) := b_new b.      (* None = ErrKeyNotFound *)
(* content of a block in a database that may be half-way: the blob if there is one *)
Definition content (b : block) : list N * list N :=
  match b_new b with Some p => p | None => acc_old b end.

Definition pair_eqb (p q : list N * list N) : bool :=
  (if list_eq_dec N.eq_dec (fst p) (fst q) then true else false) &&
  (if list_eq_dec N.eq_dec (snd p) (snd q) then true else false).

(* THE data-preservation predicate: same number of blocks and every block's new-layout accessor
   returns what the reference content was *)
Fixpoint preserved (ref : list (list N * list N)) (db : btdb) : bool :=
  match ref, db with
  | [], [] => true
  | c :: r, b :: d => match acc_new b with Some p => pair_eqb p c | None => false end && preserved r d
  | _, _ => false
  end.

Definition block_wf_old (b : block) : bool :=
  match b_new b with
  | None => N.eqb (N.of_nat (length (b_otx b))) (b_count b) && N.eqb (N.of_nat (length (b_orc b))) (b_count b)
  | Some _ => false
  end.
Definition wf_old (db : btdb) : bool := forallb block_wf_old db.

(* every aligned range of batch_size blocks (the last one may be short) holds a transaction *)
Fixpoint no_empty_range_from (db : btdb) (fuel : nat) : bool :=
  match fuel with
  | O => true
  | S f => match db with
           | [] => true
           | _ => existsb (fun b => N.ltb 0 (b_count b)) (firstn batch_size db)
                  && no_empty_range_from (skipn batch_size db) f
           end
  end.
Definition no_empty_range (db : btdb) : bool := no_empty_range_from db (S (length db)).

(* ------------------------------------------------------------------------------------------ *)
(* statedifflength: where a (resumed) backfill starts and what it does.                         *)
(*   migration/statedifflength/migrator.go: startBlock = max(checkpoint, oldest retained block) *)
(*   (pruner.OldestRetainedBlock = first key of the block-commitments bucket); backfillBlock    *)
(*   fails with "key not found" on a block whose commitments / state update were pruned.        *)
(* ------------------------------------------------------------------------------------------ *)
Record sblock := { s_len : N;      (* StateUpdate.StateDiff.Length() *)
                   s_sdl : N }.    (* BlockCommitments.StateDiffLength as stored *)
Definition sdb := list (option sblock).     (* block n = n-th element; None = pruned *)

Definition is_some {A} (o : option A) : bool := match o with Some _ => true | None => false end.
Definition oldest_retained (db : sdb) : option nat := find_index is_some db.
Definition sdl_start (checkpoint : nat) (db : sdb) : option nat :=
  option_map (Nat.max checkpoint) (oldest_retained db).

Definition fill (b : sblock) : sblock := {| s_len := s_len b; s_sdl := s_len b |}.
Fixpoint backfill (l : sdb) : option sdb :=
  match l with
  | [] => Some []
  | None :: _ => None                                 (* getting commitments: key not found *)
  | Some b :: r => option_map (cons (Some (fill b))) (backfill r)
  end.
Definition backfill_from (db : sdb) (n : nat) : option sdb :=
  option_map (app (firstn n db)) (backfill (skipn n db)).

(* one uninterrupted Migrate with the checkpoint restored by Before (0 = none) *)
Definition sdl_migrate (checkpoint : nat) (db : sdb) : option sdb :=
  match sdl_start checkpoint db with
  | None => None
  | Some s => backfill_from db s
  end.

Definition filled (b : sblock) : bool := N.eqb (s_sdl b) (s_len b).
Definition sdl_done (db : sdb) : bool :=
  forallb (fun o => match o with None => true | Some b => filled b end) db.

(* statedifflength.Migrate, after the pipeline returned Result{IsDone, Err} and with nextBlock the
   block the source would have emitted next: the error is looked at FIRST; only an error-free,
   not-done result (graceful interruption) is turned into a checkpoint *)
Inductive sdl_ret := SdlError | SdlCheckpoint (next : nat) | SdlDone.
Definition sdl_decide (is_done has_err : bool) (next : nat) : sdl_ret :=
  if has_err then SdlError                     (* return nil, res.Err *)
  else if negb is_done then SdlCheckpoint next (* return encodeResume(nextBlock), nil *)
  else SdlDone.                                (* return nil, nil *)
