(* C18 (Sdl.v, re-exported by Model.v) — migration/statedifflength at batch granularity.
   Definitions only; proofs are in Proofs_SdlRun.v; everything here is extracted to OCaml.

   The code (migrator.go, ingestor.go, committer.go, pipeline/pipeline.go):
     Before(state)  : nextBlock := 0 for an empty state, the big-endian uint64 otherwise
     Migrate        : no chain height -> (nil, nil); start := max(nextBlock, OldestRetainedBlock) (error when the
                      commitments bucket is empty); start > height -> (nil, nil); otherwise a pipeline
                        source  : hands out start, start+1, ... height in order; before each hand-over it may see
                                  ctx.Done() and stop; nextBlock = first block NOT handed out; IsDone iff the loop
                                  ran to its end, i.e. iff nextBlock = height+1
                        readers : min(GOMAXPROCS,8) workers; each owns one db.Batch; for every block it receives
                                  it reads commitments + state update (an error cancels the pipeline and is
                                  remembered; the worker goes on with the blocks still handed to it) and puts the
                                  commitments with StateDiffLength := StateDiff.Length() into its batch; the batch
                                  is handed to the committer when it exceeds 96 MB and, in every case, when the
                                  input channel is closed (also after an error, also when it is empty)
                        committer: one worker, batch.Write() per batch in the order of arrival (an error cancels
                                  the pipeline and is remembered; later batches are still written)
                      result: Err != nil -> (nil, Err); !IsDone -> (bigEndian(nextBlock), nil); else (nil, nil).
   So one Migrate call ("attempt") is: a list of committed batches — each an arbitrary list of block numbers that
   were handed out and could be read, in any order — and an end: done, checkpoint n, error, or the process dying.
   After a GRACEFUL end (done / checkpoint) every block handed out is in a committed batch; after an error or a
   crash any subset may be missing. The runner stores the checkpoint only for (state, nil|ctx error) and sets the
   applied bit only for (nil, nil): that is [sdl_apply]. [sdl_attempt_ok] is "the code can produce this attempt";
   the correspondence run evaluates it on every observed Migrate call of the real migrator (batches recorded by the
   fault proxy: block numbers of the keys put into each batch that was written). *)
From Coq Require Import List NArith Bool Arith.
From V Require Import C18.Runner.
Import ListNotations.

Definition mem_nat (n : nat) (l : list nat) : bool := existsb (Nat.eqb n) l.
Definition in_batches (bs : list (list nat)) (n : nat) : bool := existsb (mem_nat n) bs.

(* block n has commitments and a state update (not pruned, not above the height) *)
Definition sdl_readable (db : sdb) (n : nat) : bool :=
  match nth_error db n with Some (Some _) => true | _ => false end.

Fixpoint fill_where (p : nat -> bool) (i : nat) (db : sdb) : sdb :=
  match db with
  | [] => []
  | o :: r => (if p i then option_map fill o else o) :: fill_where p (S i) r
  end.

(* one batch.Write(): WriteBlockCommitment (with the recomputed length) for every block in the batch *)
Definition sdl_commit (db : sdb) (b : list nat) : sdb := fill_where (fun i => mem_nat i b) 0 db.
Definition sdl_commits (db : sdb) (bs : list (list nat)) : sdb := fold_left sdl_commit bs db.

(* the postcondition as a function: every retained block's stored length is the computed one *)
Definition sdl_complete (db : sdb) : sdb := map (option_map fill) db.

Inductive sdl_pre :=
| PreEmpty                         (* no chain height: (nil, nil) *)
| PreNoOldest                      (* height but no commitments at all: "finding oldest retained block" error *)
| PreNothing (start : nat)         (* start > height: (nil, nil) *)
| PreRun (start height : nat).     (* the pipeline runs over [start, height] *)

Definition sdl_prepare (ck : nat) (db : sdb) : sdl_pre :=
  match db with
  | [] => PreEmpty
  | _ => match sdl_start ck db with
         | None => PreNoOldest
         | Some s => if Nat.ltb (length db - 1) s then PreNothing s else PreRun s (length db - 1)
         end
  end.

Inductive sdl_end := SEDone | SECheckpoint (next : nat) | SEError | SECrash.
Record sdl_attempt := { sa_batches : list (list nat); sa_end : sdl_end }.

Definition nat_range (lo hi : nat) : list nat := seq lo (hi - lo).      (* [lo, hi) *)
Definition range_covered (bs : list (list nat)) (lo hi : nat) : bool :=
  forallb (in_batches bs) (nat_range lo hi).
Definition batches_within (db : sdb) (bs : list (list nat)) (lo hi : nat) : bool :=
  forallb (forallb (fun n => Nat.leb lo n && Nat.ltb n hi && sdl_readable db n)) bs.
Definition no_batches (bs : list (list nat)) : bool := forallb (fun b => match b with [] => true | _ => false end) bs.

(* can Migrate, entered with checkpoint ck (0 = none) on database db, behave like a? *)
Definition sdl_attempt_ok (ck : nat) (db : sdb) (a : sdl_attempt) : bool :=
  let bs := sa_batches a in
  match sdl_prepare ck db with
  | PreEmpty | PreNothing _ =>
      no_batches bs && match sa_end a with SECheckpoint _ => false | _ => true end
  | PreNoOldest =>
      no_batches bs && match sa_end a with SEError | SECrash => true | _ => false end
  | PreRun s h =>
      match sa_end a with
      | SEDone => batches_within db bs s (S h) && range_covered bs s (S h)
      | SECheckpoint n => Nat.leb s n && Nat.leb n h && batches_within db bs s n && range_covered bs s n
      | SEError | SECrash => batches_within db bs s (S h)
      end
  end.

(* the persistent state the migration and the runner keep for it: the blocks, the stored checkpoint
   (0 = no intermediate state), the applied bit *)
Record sdl_pstate := { sp_db : sdb; sp_ck : nat; sp_applied : bool }.

Definition sdl_apply (s : sdl_pstate) (a : sdl_attempt) : sdl_pstate :=
  if sp_applied s then s          (* not pending any more: never invoked again *)
  else
    let db' := sdl_commits (sp_db s) (sa_batches a) in
    match sa_end a with
    | SEDone => {| sp_db := db'; sp_ck := 0; sp_applied := true |}            (* bit set, state deleted *)
    | SECheckpoint n => {| sp_db := db'; sp_ck := n; sp_applied := false |}   (* WriteIntermediateState *)
    | SEError | SECrash => {| sp_db := db'; sp_ck := sp_ck s; sp_applied := false |}
    end.

Definition sdl_run (s : sdl_pstate) (l : list sdl_attempt) : sdl_pstate := fold_left sdl_apply l s.

Fixpoint sdl_attempts_ok (s : sdl_pstate) (l : list sdl_attempt) : bool :=
  match l with
  | [] => true
  | a :: r => (sp_applied s || sdl_attempt_ok (sp_ck s) (sp_db s) a) && sdl_attempts_ok (sdl_apply s a) r
  end.

(* the database after each committed batch of an attempt (the crash points), oldest first *)
Fixpoint sdl_trace (db : sdb) (bs : list (list nat)) : list sdb :=
  match bs with
  | [] => []
  | b :: r => let db' := sdl_commit db b in db' :: sdl_trace db' r
  end.

(* every retained block below the checkpoint carries its real length: what makes a checkpoint safe *)
Definition sdl_ck_ok (db : sdb) (ck : nat) : bool := sdl_done (firstn ck db).

(* the shape the pruner leaves: nothing retained, or everything from the oldest retained block up to
   the height is retained *)
Definition sdl_wf (db : sdb) : bool :=
  match db with
  | [] => true
  | _ => match oldest_retained db with
         | None => false
         | Some p => forallb is_some (skipn p db)
         end
  end.

(* the attempt of an uninterrupted Migrate whose workers happen to deliver one batch *)
Definition sdl_uninterrupted (ck : nat) (db : sdb) : sdl_attempt :=
  match sdl_prepare ck db with
  | PreRun s h => {| sa_batches := [nat_range s (S h)]; sa_end := SEDone |}
  | _ => {| sa_batches := []; sa_end := SEDone |}
  end.

(* ------------------------------------------------------------------------------------------ *)
(* The same migration as a [migration] of the runner model: one step = one committed batch.      *)
(* The environment (which blocks share a batch, commit order, how far the source is ahead when   *)
(* it sees the cancellation) is a function [env]; theorems quantify over it, per process start.  *)
(* ------------------------------------------------------------------------------------------ *)
Inductive sdltok :=
| SCk (ck : nat)                                      (* the persisted 8-byte checkpoint *)
| SRun (start hi : nat) (rest : list (list nat)).    (* in memory: pipeline running over [start, height];
                                                         blocks below hi have been handed out; batches still
                                                         to be committed *)

Definition sdl_env := sdb -> nat -> (list (list nat) * nat).

(* whatever the environment proposes is cut down to blocks of the range, and a last batch takes
   what was left out (an uncancelled source hands out every block of the range) *)
Definition sdl_normalise (bs : list (list nat)) (s h : nat) : list (list nat) :=
  map (filter (fun n => Nat.leb s n && Nat.leb n h)) bs ++ [nat_range s (S h)].

Definition sdl_pipe (env : sdl_env) (db : sdb) (start hi : nat) (rest : list (list nat)) (c : bool)
  : sdb * @outcome sdltok :=
  let h := length db - 1 in
  if c then
    (* the source sees ctx.Done() with nextBlock = next; everything handed out is read and committed *)
    let next := Nat.min (S h) (hi + snd (env db hi)) in
    let out := nat_range start next in
    let db' := sdl_commit db out in
    if negb (forallb (sdl_readable db) out) then (db', Failed)
    else if Nat.ltb h next then (db', Done) else (db', Suspended (SCk next))
  else match rest with
       | [] => (db, Done)
       | b :: rest' =>
           if forallb (sdl_readable db) b
           then (sdl_commit db b, Suspended (SRun start (fold_left Nat.max (map S b) hi) rest'))
           else (sdl_commit db b, Failed)
       end.

Definition sdl_step (env : sdl_env) (db : sdb) (tok : option sdltok) (c : bool) : sdb * @outcome sdltok :=
  match tok with
  | Some (SRun start hi rest) => sdl_pipe env db start hi rest c
  | _ =>
      let ck := match tok with Some (SCk n) => n | _ => 0 end in      (* Before *)
      match sdl_prepare ck db with
      | PreEmpty | PreNothing _ => (db, Done)
      | PreNoOldest => (db, Failed)
      | PreRun s h => sdl_pipe env db s s (sdl_normalise (fst (env db s)) s h) c
      end
  end.

Definition sdl_migration (env : sdl_env) : @migration sdb sdltok :=
  {| mig_step := sdl_step env; mig_optional := false |}.

(* validity of a resume token on a database *)
Definition sdl_tok_ok (db : sdb) (t : option sdltok) : bool :=
  match t with
  | None => true
  | Some (SCk n) => sdl_ck_ok db n
  | Some (SRun start _ rest) =>
      Nat.ltb 0 (length db) &&
      forallb (forallb (fun n => Nat.leb start n && Nat.ltb n (length db))) rest &&
      forallb (sdl_readable db) (nat_range start (length db)) &&
      forallb (fun n => match nth n db None with
                        | Some b => filled b || in_batches rest n
                        | None => true
                        end) (seq 0 (length db))
  end.
