(* C19 — executable model of juno's erasure-coded broadcast (consensus/propeller).
   padding.go        -> uv_enc / uvarint / uv_dec / pad / unpad
   merkle/merkle.go  -> Section Merkle (abstract leaf / node hash), Section Sha (the tagged byte layout)
   sharding.go       -> create / construct              (Reed-Solomon = Section variables)
   scheduler.go      -> new_sched / peer_for_shard / validate_origin
   unit_validator.go -> validate                        (signature = Section variables)
   No proofs in this file; it is extracted to OCaml and run against the Go code. *)
From Coq Require Import List NArith Bool Ascii Arith.
Import ListNotations.

Definition byte := ascii.
Definition bn (b : byte) : N := N_of_ascii b.
Definition B (n : N) : byte := ascii_of_N n.
Definition zero_byte : byte := B 0.

(* ------------------------------------------------------------------ padding.go *)
(* binary.PutUvarint on a uint64: at most 10 bytes (fuel). *)
Fixpoint uv_enc (fuel : nat) (x : N) : list byte :=
  match fuel with
  | O => []
  | S f => if (x <? 128)%N then [B x] else B (x mod 128 + 128) :: uv_enc f (x / 128)
  end.
Definition uvarint (x : N) : list byte := uv_enc 10 x.

(* binary.Uvarint: None models a return value n <= 0 (buffer too small / 64-bit overflow).
   i = number of bytes consumed so far, x = value accumulated so far (shift = 7*i). *)
Fixpoint uv_dec (buf : list byte) (i : nat) (x : N) : option (N * nat) :=
  match buf with
  | [] => None
  | b :: r =>
      if Nat.eqb i 10 then None
      else if (bn b <? 128)%N then
        if Nat.eqb i 9 && (1 <? bn b)%N then None
        else Some ((x + bn b * 2 ^ (7 * N.of_nat i))%N, S i)
      else uv_dec r (S i) (x + (bn b mod 128) * 2 ^ (7 * N.of_nat i))%N
  end.

Definition two64 : N := 18446744073709551616.

(* PadMessage(msg, numDataShards); numDataShards = 0 divides by zero in Go (not modelled: k > 0). *)
Definition pad (m : list byte) (k : N) : list byte :=
  let pre := uvarint (N.of_nat (length m)) in
  let un := N.of_nat (length pre + length m) in
  let d := (2 * k)%N in
  let r := (un mod d)%N in
  let padded := if (r =? 0)%N then un else (un + (d - r))%N in
  pre ++ m ++ repeat zero_byte (N.to_nat (padded - un)).

Inductive unpad_res := UOk (m : list byte) | UErr | UPanic.

(* UnpadMessage. [end := uint64(varintLen) + msgLen] wraps modulo 2^64; when the wrapped end is below
   varintLen the slice expression padded[varintLen:end] panics (UPanic). *)
Definition unpad (p : list byte) : unpad_res :=
  match uv_dec p 0 0 with
  | None => UErr
  | Some (len, vl) =>
      let e := ((N.of_nat vl + len) mod two64)%N in
      if (N.of_nat (length p) <? e)%N then UErr
      else if (e <? N.of_nat vl)%N then UPanic
      else UOk (firstn (N.to_nat e - vl) (skipn vl p))
  end.

(* ShardData.MarshalProto: proto3 ShardsOfPeer{repeated Shard{bytes data = 1} = 1}; an empty bytes
   field is omitted. *)
Definition proto_shard (s : list byte) : list byte :=
  match s with [] => [] | _ => B 10 :: uvarint (N.of_nat (length s)) ++ s end.
Definition proto_shards (l : list (list byte)) : list byte :=
  flat_map (fun s => let inner := proto_shard s in B 10 :: uvarint (N.of_nat (length inner)) ++ inner) l.

(* ------------------------------------------------------------------ merkle/merkle.go *)
Definition xor1 (a : nat) : nat := if Nat.even a then S a else pred a.

(* nextPowerOfTwo(n) = 2 ^ depth n: minimum 2, else 1 << bits.Len(n-1) *)
Definition depth (n : nat) : nat :=
  if n <=? 2 then 1 else N.to_nat (N.log2_up (N.of_nat n)).

Section Merkle.
  Variable D : Type.
  Variable D_eq_dec : forall x y : D, {x = y} + {x <> y}.
  Variable leafH : list byte -> D.
  Variable nodeH : D -> D -> D.
  Variable D0 : D.                         (* the zero Hash{} *)

  Fixpoint pairs (l : list D) : list D :=
    match l with a :: b :: r => nodeH a b :: pairs r | _ => [] end.

  (* the loop "for len(layer) > 1": fuel = number of levels *)
  Fixpoint mroot (fuel : nat) (layer : list D) : D :=
    match fuel with O => hd D0 layer | S f => mroot f (pairs layer) end.

  (* proofSiblings[i] = append(.., layer[ancestors[i]^1]); ancestors[i] /= 2 *)
  Fixpoint mproof (fuel : nat) (layer : list D) (a : nat) : list D :=
    match fuel with
    | O => []
    | S f => nth (xor1 a) layer D0 :: mproof f (pairs layer) (Nat.div2 a)
    end.

  Definition bottom (leaves : list (list byte)) : list D :=
    map leafH leaves ++ repeat (leafH []) (2 ^ depth (length leaves) - length leaves).

  (* merkle.New *)
  Definition merkle_new (leaves : list (list byte)) : D * list (list D) :=
    match leaves with
    | [] => (D0, [])
    | _ => let d := depth (length leaves) in
           let layer := bottom leaves in
           (mroot d layer, map (mproof d layer) (seq 0 (length leaves)))
    end.

  Definition mstep (cur : D) (idx : nat) (s : D) : D :=
    if Nat.even idx then nodeH cur s else nodeH s cur.

  Fixpoint mverify_go (cur : D) (idx : nat) (sibs : list D) : D :=
    match sibs with
    | [] => cur
    | s :: r => mverify_go (mstep cur idx s) (Nat.div2 idx) r
    end.

  (* Proof.Verify(root, leaf, index) *)
  Definition mverify (root : D) (leaf : list byte) (idx : nat) (p : list D) : bool :=
    if D_eq_dec (mverify_go (leafH leaf) idx p) root then true else false.
End Merkle.

(* the byte layout hashed by merkleLeafHash / merkleNodeHash *)
Definition bytes_of_string (s : list ascii) : list byte := s.
Definition leaf_open : list byte := ["<";"l";"e";"a";"f";">"]%char.
Definition leaf_close : list byte := ["<";"/";"l";"e";"a";"f";">"]%char.
Definition node_open : list byte := ["<";"n";"o";"d";"e";">";"<";"l";"e";"f";"t";">"]%char.
Definition node_mid : list byte := ["<";"/";"l";"e";"f";"t";">";"<";"r";"i";"g";"h";"t";">"]%char.
Definition node_close : list byte := ["<";"/";"r";"i";"g";"h";"t";">";"<";"/";"n";"o";"d";"e";">"]%char.

Section Sha.
  Variable D : Type.
  Variable H : list byte -> D.             (* sha256.Sum256 *)
  Variable enc : D -> list byte.           (* the 32 bytes of a digest *)
  Definition leaf_pre (d : list byte) : list byte := leaf_open ++ d ++ leaf_close.
  Definition node_pre (l r : D) : list byte := node_open ++ enc l ++ node_mid ++ enc r ++ node_close.
  Definition sha_leaf (d : list byte) : D := H (leaf_pre d).
  Definition sha_node (l r : D) : D := H (node_pre l r).
End Sha.

(* ------------------------------------------------------------------ scheduler.go *)
Fixpoint insert_sorted (x : N) (l : list N) : list N :=
  match l with [] => [x] | y :: r => if (x <=? y)%N then x :: l else y :: insert_sorted x r end.
Definition sort_peers (l : list N) : list N := fold_right insert_sorted [] l.

Fixpoint index_of (x : N) (l : list N) : option nat :=
  match l with
  | [] => None
  | y :: r => if (x =? y)%N then Some O else option_map S (index_of x r)
  end.

Fixpoint has_adjacent_dup (l : list N) : bool :=
  match l with a :: ((b :: _) as r) => (a =? b)%N || has_adjacent_dup r | _ => false end.

Record sched := mkSched { s_local : N; s_local_idx : nat; s_peers : list N; s_k : nat; s_par : nat }.

Definition new_sched (local : N) (nodes : list N) : option sched :=
  if length nodes <? 2 then None else
  let ps := sort_peers nodes in
  match index_of local ps with
  | None => None
  | Some li =>
      if has_adjacent_dup ps then None else
      let n := length ps in
      let k := Nat.max 1 ((n - 1) / 3) in
      Some (mkSched local li ps k (n - 1 - k))
  end.

Definition total_shards (s : sched) : nat := s_k s + s_par s.

Inductive origin_res := OOk | OSelfSend | OSelfPublished | OSchedule | OUnexpected.

Definition peer_for_shard (s : sched) (publisher : N) (idx : nat) : option N :=
  if total_shards s <=? idx then None else
  match index_of publisher (s_peers s) with
  | None => None
  | Some pi => Some (nth (if pi <=? idx then S idx else idx) (s_peers s) 0%N)
  end.

Definition shard_index_for_publisher (s : sched) (publisher : N) : option nat :=
  if (s_local s =? publisher)%N then None else
  match index_of publisher (s_peers s) with
  | None => None
  | Some pi => Some (if pi <=? s_local_idx s then s_local_idx s - 1 else s_local_idx s)
  end.

Definition validate_origin (s : sched) (sender publisher : N) (idx : nat) : origin_res :=
  if (sender =? s_local s)%N then OSelfSend else
  if (publisher =? s_local s)%N then OSelfPublished else
  match peer_for_shard s publisher idx with
  | None => OSchedule
  | Some exp =>
      if (exp =? s_local s)%N && (sender =? publisher)%N then OOk
      else if (exp =? sender)%N then OOk else OUnexpected
  end.

(* ------------------------------------------------------------------ sharding.go, unit_validator.go *)
Fixpoint chunks (fuel sz : nat) (l : list byte) : list (list byte) :=
  match fuel with O => [] | S f => firstn sz l :: chunks f sz (skipn sz l) end.
(* klauspost Split on a length divisible by k (guaranteed by PadMessage) *)
Definition split (p : list byte) (k : nat) : list (list byte) := chunks k (length p / k) p.

(* the units that arrived: mask bit i says whether unit i is present (absent = nil pointer) *)
Fixpoint mask_list {A} (l : list A) (mask : list bool) : list (option A) :=
  match l, mask with
  | u :: r, b :: mr => (if b then Some u else None) :: mask_list r mr
  | u :: r, [] => None :: mask_list r []
  | [], _ => []
  end.
Definition count_true (mask : list bool) : nat := length (filter (fun b => b) mask).

Inductive cerr := ENoUnits | ERS | EShardSize | ERoot | EUnpad.

Section Propeller.
  Variable D : Type.
  Variable D_eq_dec : forall x y : D, {x = y} + {x <> y}.
  Variable leafH : list byte -> D.
  Variable nodeH : D -> D -> D.
  Variable D0 : D.
  Variable S_ : Type.                                   (* signatures *)
  Variable S_eq_dec : forall x y : S_, {x = y} + {x <> y}.
  Definition payload : Type := (D * list byte * N)%type. (* root, committee id, nonce (buildSignPayload) *)
  Variable sign : N -> payload -> S_.                   (* key of peer, payload *)
  Variable sig_ok : N -> payload -> S_ -> bool.         (* VerifyMessageSignature with the key of a peer *)
  Variable rs_parity : list (list byte) -> nat -> list (list byte).
  Variable rs_recover : list (option (list byte)) -> nat -> nat -> option (list (list byte)).
  (* what each side of juno hashes as the Merkle leaf of a shard *)
  Variable leaf_c : list byte -> list byte.             (* sharding.go (create and construct) *)
  Variable leaf_v : list (list byte) -> list byte.      (* unit_validator.go *)
  Variable copy_nonce : bool.                           (* does creation set Unit.Nonce: true in the code
                                                           (sharding.go, Nonce: nonce); kept as a parameter so
                                                           that [nonce_copy_needed] can say why it matters *)

  Record unit_ := mkUnit {
    u_committee : list byte; u_publisher : N; u_root : D; u_proof : list D; u_sig : S_;
    u_index : nat; u_shards : list (list byte); u_nonce : N }.

  Definition encode (m : list byte) (k parity : nat) : list (list byte) :=
    let data := split (pad m (N.of_nat k)) k in data ++ rs_parity data parity.

  Definition mk_units (publisher : N) (committee : list byte) (nonce : N)
             (enc : list (list byte)) : list unit_ :=
    let '(root, proofs) := merkle_new D leafH nodeH D0 (map leaf_c enc) in
    let sg := sign publisher (root, committee, nonce) in
    map (fun '(i, sh) => mkUnit committee publisher root (nth i proofs []) sg i [sh]
                                (if copy_nonce then nonce else 0%N))
        (combine (seq 0 (length enc)) enc).

  (* CreatePropellerUnits *)
  Definition create (publisher : N) (committee : list byte) (nonce : N) (m : list byte)
             (k parity : nat) : list unit_ :=
    mk_units publisher committee nonce (encode m k parity).

  Inductive cres := COk (m : list byte) (local_shard : list byte) (local_proof : list D)
                  | CErr (e : cerr) | CPanic.

  (* shards[i] = units[i].ShardData[0]; None = index out of range on an empty ShardData *)
  Fixpoint shards_of (units : list (option unit_)) : option (list (option (list byte))) :=
    match units with
    | [] => Some []
    | None :: r => option_map (cons None) (shards_of r)
    | Some u :: r =>
        match u_shards u with
        | [] => None
        | s :: _ => option_map (cons (Some s)) (shards_of r)
        end
    end.

  Fixpoint first_root (units : list (option unit_)) : D :=
    match units with
    | [] => D0
    | Some u :: _ => u_root u
    | None :: r => first_root r
    end.

  (* ConstructMessageFromUnits *)
  Definition construct (units : list (option unit_)) (local k parity : nat) : cres :=
    match units with
    | [] => CErr ENoUnits
    | _ =>
      match shards_of units with
      | None => CPanic
      | Some shards =>
        match rs_recover shards k parity with
        | None => CErr ERS
        | Some full =>
          let sz := length (hd [] full) in
          if existsb (fun s => negb (length s =? sz)) (firstn k full) then CErr EShardSize else
          let '(root, proofs) := merkle_new D leafH nodeH D0 (map leaf_c full) in
          if D_eq_dec (first_root units) root then
            match unpad (concat full) with
            | UErr => CErr EUnpad
            | UPanic => CPanic
            | UOk msg =>
                if local <? length full then COk msg (nth local full []) (nth local proofs [])
                else CPanic
            end
          else CErr ERoot
        end
      end
    end.

  Definition mask_units (us : list unit_) (mask : list bool) : list (option unit_) := mask_list us mask.

  (* UnitValidator *)
  Record vstate := mkV { v_pub : N; v_received : list nat; v_sig : option S_ }.
  Definition v_init (publisher : N) : vstate := mkV publisher [] None.

  Inductive vres := VOk | VDup | VOrigin (o : origin_res) | VShardCount | VMerkle | VSigMismatch | VSig.

  Definition accept (st : vstate) (u : unit_) : vstate :=
    mkV (v_pub st) (u_index u :: v_received st) (Some (u_sig u)).

  Definition validate (sc : sched) (st : vstate) (u : unit_) (sender : N) : vstate * vres :=
    if existsb (Nat.eqb (u_index u)) (v_received st) then (st, VDup) else
    match validate_origin sc sender (u_publisher u) (u_index u) with
    | OOk =>
      if negb (length (u_shards u) =? 1) then (st, VShardCount) else
      if negb (mverify D D_eq_dec leafH nodeH (u_root u) (leaf_v (u_shards u)) (u_index u) (u_proof u))
      then (st, VMerkle) else
      match v_sig st with
      | Some s => if S_eq_dec s (u_sig u) then (accept st u, VOk) else (st, VSigMismatch)
      | None =>
          if sig_ok (v_pub st) (u_root u, u_committee u, u_nonce u) (u_sig u)
          then (accept st u, VOk) else (st, VSig)
      end
    | o => (st, VOrigin o)
    end.

  (* the predicate the harness evaluates on an accepted (possibly tampered) unit: it carries exactly
     the honest shard of its index under the honest root, so it cannot change what is delivered *)
  Definition same_shard (enc : list (list byte)) (root : D) (u : unit_) : bool :=
    (if D_eq_dec (u_root u) root then true else false) &&
    (u_index u <? length enc) &&
    match u_shards u with
    | [s] => if list_eq_dec ascii_dec s (nth (u_index u) enc []) then true else false
    | _ => false
    end.
End Propeller.

(* the property predicate on one observed reconstruction: delivered message equals the sent one *)
Definition delivered_ok (sent : list byte) (got : option (list byte)) : bool :=
  match got with
  | Some m => if list_eq_dec ascii_dec m sent then true else false
  | None => true
  end.

(* the code as it is: CreatePropellerUnits copies the nonce into the unit *)
Definition code_copy_nonce : bool := true.

(* ------------------------------------------------------------------ executable instance (oracle) *)
(* Free algebra of digests: no accidental collisions; TC = an opaque digest injected by a tamper. *)
Inductive term := TL (d : list byte) | TN (l r : term) | TC (c : list byte).
Fixpoint term_eqb (a b : term) : bool :=
  match a, b with
  | TL x, TL y => if list_eq_dec ascii_dec x y then true else false
  | TN a1 a2, TN b1 b2 => term_eqb a1 b1 && term_eqb a2 b2
  | TC x, TC y => if list_eq_dec ascii_dec x y then true else false
  | _, _ => false
  end.
Definition term_eq_dec : forall x y : term, {x = y} + {x <> y}.
Proof. decide equality; apply (list_eq_dec ascii_dec). Defined.

(* ideal signatures: valid iff produced by [sign] with that key on that payload *)
Inductive sigt := SSigned (key : N) (root : term) (committee : list byte) (nonce : N) | SJunk (tag : N).
Definition sigt_eq_dec : forall x y : sigt, {x = y} + {x <> y}.
Proof. decide equality; try apply N.eq_dec; try apply (list_eq_dec ascii_dec); apply term_eq_dec. Defined.
Definition t_sign (key : N) (p : term * list byte * N) : sigt :=
  let '(r, c, n) := p in SSigned key r c n.
Definition t_sig_ok (key : N) (p : term * list byte * N) (s : sigt) : bool :=
  if sigt_eq_dec s (t_sign key p) then true else false.

(* ideal MDS recovery relative to a known full codeword *)
Definition ideal_recover (full : list (list byte)) (shards : list (option (list byte))) (k parity : nat)
  : option (list (list byte)) :=
  if (length (filter (fun o => match o with Some _ => true | None => false end) shards) <? k)
     || negb (length shards =? length full) then None else Some full.

(* ------------------------------------------------------------------ unit.go: UnitFromProto (wire level) *)
(* What arrives from the network is a protobuf message: any number of shards of any lengths, a Merkle root and
   proof siblings of any lengths. UnitFromProto turns it into a Unit or refuses it; it runs in the libp2p stream
   handler without recover, so a run-time panic there takes the receiver down. *)
Record wire_unit := mkWire { w_shards : list (list byte); w_root : list byte; w_siblings : list (list byte) }.
Inductive wire_res :=
| WOk (shards : list (list byte)) (root : list byte) (siblings : list (list byte))
| WErr
| WPanic.

Definition all_len (n : nat) (l : list (list byte)) : bool := forallb (fun s => length s =? n) l.
(* copy(dst[:], src) into a 32-byte array: truncated or zero-filled *)
Definition into32 (s : list byte) : list byte := firstn 32 (s ++ repeat zero_byte 32).

(* the decoder since /repo "fix: propeller UnitFromProto refuses malformed units": no shard -> error, every
   shard as long as the first -> else error, root of exactly 32 bytes -> else error *)
Definition from_proto (w : wire_unit) : wire_res :=
  match w_shards w with
  | [] => WErr
  | s0 :: rest =>
      if negb (all_len (length s0) rest) then WErr
      else if negb (length (w_root w) =? 32) then WErr
      else WOk (w_shards w) (w_root w) (map into32 (w_siblings w))
  end.

(* the decoder before the repair: shards[0] read unconditionally, lengths compared for shards[0..n-2] only (the
   loop ranged over shards[1:] but indexed shards[i]), MessageRoot(slice) converted without a length check *)
Definition from_proto_before_fix (w : wire_unit) : wire_res :=
  match w_shards w with
  | [] => WPanic
  | s0 :: _ =>
      if negb (all_len (length s0) (removelast (w_shards w))) then WErr
      else if negb (length (w_root w) =? 32) then WPanic
      else WOk (w_shards w) (w_root w) (map into32 (w_siblings w))
  end.

(* what the rest of the package takes for granted about a decoded unit *)
Definition wire_wf (r : wire_res) : bool :=
  match r with
  | WOk sh root sib =>
      match sh with
      | [] => false
      | s0 :: rest => all_len (length s0) rest && (length root =? 32) && all_len 32 sib
      end
  | WErr => true
  | WPanic => false
  end.
