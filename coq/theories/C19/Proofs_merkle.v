(* C19 — Merkle tree lemmas (merkle/merkle.go): completeness for every n >= 1 and every index,
   soundness and root injectivity modulo an explicit collision, domain separation from the byte layout. *)
From Coq Require Import List NArith Bool Ascii Arith Lia ZifyN ZifyNat ZifyBool.
From V Require Import C19.Model.
Import ListNotations.

(* ---------- arithmetic on indices ---------- *)
Lemma even_decomp a : Nat.even a = true -> a = 2 * Nat.div2 a.
Proof.
  intros H. pose proof (Nat.div2_odd a) as E. rewrite <- Nat.negb_even, H in E. cbn in E. lia.
Qed.

Lemma odd_decomp a : Nat.even a = false -> a = 2 * Nat.div2 a + 1.
Proof.
  intros H. pose proof (Nat.div2_odd a) as E. rewrite <- Nat.negb_even, H in E. cbn in E. lia.
Qed.

Lemma even_mod2 x : x mod 2 = if Nat.even x then 0 else 1.
Proof.
  destruct (Nat.even x) eqn:E.
  - rewrite (even_decomp x E) at 1. rewrite Nat.mul_comm. apply Nat.mod_mul. discriminate.
  - rewrite (odd_decomp x E) at 1. rewrite Nat.add_comm, Nat.mul_comm, Nat.mod_add by discriminate. reflexivity.
Qed.

Fixpoint shr (k i : nat) : nat := match k with O => i | S k' => shr k' (Nat.div2 i) end.

Lemma pow2_pos f : 0 < 2 ^ f.
Proof. induction f; cbn; lia. Qed.

Lemma shr_div k : forall i, shr k i = i / 2 ^ k.
Proof.
  induction k as [|k IH]; intros i; cbn [shr].
  - cbn. symmetry. apply Nat.div_1_r.
  - rewrite IH, Nat.div2_div. rewrite Nat.div_div; [|discriminate|pose proof (pow2_pos k); lia].
    reflexivity.
Qed.

Lemma mod_pow_succ i f :
  i mod 2 ^ (S f) = i mod 2 ^ f + 2 ^ f * (if Nat.even (i / 2 ^ f) then 0 else 1).
Proof.
  pose proof (pow2_pos f).
  replace (2 ^ S f) with (2 ^ f * 2) by (cbn; lia).
  rewrite Nat.mod_mul_r by lia. rewrite even_mod2. reflexivity.
Qed.

Lemma depth_ge n : n <= 2 ^ depth n.
Proof.
  unfold depth. destruct (n <=? 2) eqn:E.
  - apply Nat.leb_le in E. cbn. lia.
  - apply Nat.leb_gt in E.
    assert (H1 : (1 < N.of_nat n)%N) by lia.
    pose proof (N.log2_up_spec (N.of_nat n) H1) as [_ Hs].
    assert (Hc : (N.of_nat (2 ^ N.to_nat (N.log2_up (N.of_nat n))) = 2 ^ N.log2_up (N.of_nat n))%N)
      by (rewrite Nat2N.inj_pow, N2Nat.id; reflexivity).
    lia.
Qed.

Lemma depth_pos n : 0 < depth n.
Proof.
  unfold depth. destruct (n <=? 2) eqn:E; [lia|]. apply Nat.leb_gt in E.
  assert (H : (0 < N.log2_up (N.of_nat n))%N) by (apply N.log2_up_pos; lia). lia.
Qed.

Section MerkleProofs.
  Variable D : Type.
  Variable D_eq_dec : forall x y : D, {x = y} + {x <> y}.
  Variable leafH : list byte -> D.
  Variable nodeH : D -> D -> D.
  Variable D0 : D.

  Notation pairs := (pairs D nodeH).
  Notation mroot := (mroot D nodeH D0).
  Notation mproof := (mproof D nodeH D0).
  Notation bottom := (bottom D leafH).
  Notation merkle_new := (merkle_new D leafH nodeH D0).
  Notation mstep := (mstep D nodeH).
  Notation mverify_go := (mverify_go D nodeH).
  Notation mverify := (mverify D D_eq_dec leafH nodeH).

  (* ---------- layers ---------- *)
  Lemma pairs_length : forall m l, length l = 2 * m -> length (pairs l) = m.
  Proof.
    induction m as [|m IH]; intros l H.
    - destruct l; [reflexivity|cbn in H; lia].
    - destruct l as [|a [|b r]]; cbn in H; try lia. cbn. f_equal. apply IH. lia.
  Qed.

  Lemma nth_pairs : forall j l, 2 * j + 1 < length l ->
    nth j (pairs l) D0 = nodeH (nth (2 * j) l D0) (nth (2 * j + 1) l D0).
  Proof.
    induction j as [|j IH]; intros l H.
    - destruct l as [|a [|b r]]; cbn in H; try lia. reflexivity.
    - destruct l as [|a [|b r]]; cbn in H; try lia.
      replace (2 * S j) with (S (S (2 * j))) by lia.
      replace (S (S (2 * j)) + 1) with (S (S (2 * j + 1))) by lia.
      cbn [pairs nth]. apply IH. lia.
  Qed.

  Lemma pairs_app : forall m l1 l2, length l1 = 2 * m -> pairs (l1 ++ l2) = pairs l1 ++ pairs l2.
  Proof.
    induction m as [|m IH]; intros l1 l2 H.
    - destruct l1; [reflexivity|cbn in H; lia].
    - destruct l1 as [|a [|b r]]; cbn in H; try lia. cbn. f_equal. apply IH. lia.
  Qed.

  Lemma pow2_double f : 2 ^ S f = 2 * 2 ^ f.
  Proof. reflexivity. Qed.

  (* ---------- completeness ---------- *)
  Lemma complete_core : forall f layer a, length layer = 2 ^ f -> a < 2 ^ f ->
    mverify_go (nth a layer D0) a (mproof f layer a) = mroot f layer.
  Proof.
    induction f as [|f IH]; intros layer a Hl Ha.
    - cbn in Ha. assert (a = 0) by lia. subst a. destruct layer as [|x [|y r]]; cbn in Hl; try lia. reflexivity.
    - cbn [Model.mproof Model.mverify_go Model.mroot].
      rewrite pow2_double in Hl, Ha.
      assert (Hstep : mstep (nth a layer D0) a (nth (xor1 a) layer D0) = nth (Nat.div2 a) (pairs layer) D0).
      { unfold Model.mstep, xor1. destruct (Nat.even a) eqn:E.
        - pose proof (even_decomp a E) as Ea. rewrite nth_pairs by lia.
          f_equal; f_equal; lia.
        - pose proof (odd_decomp a E) as Ea. rewrite nth_pairs by lia.
          f_equal; f_equal; lia. }
      rewrite Hstep. apply IH.
      + apply pairs_length. exact Hl.
      + destruct (Nat.even a) eqn:E; [pose proof (even_decomp a E)|pose proof (odd_decomp a E)]; lia.
  Qed.

  Lemma bottom_length leaves : length (bottom leaves) = 2 ^ depth (length leaves).
  Proof.
    unfold Model.bottom. rewrite app_length, map_length, repeat_length.
    pose proof (depth_ge (length leaves)). lia.
  Qed.

  Lemma nth_bottom leaves j : j < 2 ^ depth (length leaves) ->
    nth j (bottom leaves) D0 = leafH (nth j leaves []).
  Proof.
    intros Hj. unfold Model.bottom. destruct (Nat.lt_ge_cases j (length leaves)) as [Hlt|Hge].
    - rewrite app_nth1 by (rewrite map_length; exact Hlt).
      rewrite (nth_indep _ D0 (leafH [])) by (rewrite map_length; exact Hlt). apply map_nth.
    - rewrite app_nth2 by (rewrite map_length; exact Hge). rewrite map_length.
      rewrite (nth_overflow leaves) by exact Hge.
      rewrite (nth_indep _ D0 (leafH [])) by (rewrite repeat_length; lia).
      apply nth_repeat.
  Qed.

  Lemma nth_map_seq {A} (f : nat -> A) n i d : i < n -> nth i (map f (seq 0 n)) d = f i.
  Proof.
    intros H. rewrite (nth_indep _ d (f 0)) by (rewrite map_length, seq_length; exact H).
    rewrite map_nth. rewrite seq_nth by exact H. reflexivity.
  Qed.

  Lemma merkle_new_root leaves : leaves <> [] ->
    fst (merkle_new leaves) = mroot (depth (length leaves)) (bottom leaves).
  Proof. destruct leaves; [congruence|reflexivity]. Qed.

  Lemma merkle_new_proof leaves i : i < length leaves ->
    nth i (snd (merkle_new leaves)) [] = mproof (depth (length leaves)) (bottom leaves) i.
  Proof.
    intros H. destruct leaves as [|x r]; [cbn in H; lia|].
    unfold Model.merkle_new. cbn [snd]. apply nth_map_seq. exact H.
  Qed.

  Lemma merkle_new_proofs_length leaves : length (snd (merkle_new leaves)) = length leaves.
  Proof. destruct leaves; [reflexivity|]. unfold Model.merkle_new. cbn [snd]. rewrite map_length, seq_length. reflexivity. Qed.

  Lemma mproof_length f : forall layer a, length (mproof f layer a) = f.
  Proof. induction f; intros; cbn; [reflexivity|f_equal; apply IHf]. Qed.

  Theorem merkle_complete_lemma : forall leaves i, i < length leaves ->
    mverify (fst (merkle_new leaves)) (nth i leaves []) i (nth i (snd (merkle_new leaves)) []) = true.
  Proof.
    intros leaves i Hi.
    assert (Hne : leaves <> []) by (destruct leaves; [cbn in Hi; lia|discriminate]).
    rewrite merkle_new_root by exact Hne. rewrite merkle_new_proof by exact Hi.
    unfold Model.mverify.
    pose proof (depth_ge (length leaves)) as Hd.
    rewrite <- nth_bottom by lia.
    rewrite complete_core; [|apply bottom_length|lia].
    destruct (D_eq_dec _ _); [reflexivity|congruence].
  Qed.

  (* ---------- soundness ---------- *)
  Definition Coll2 : Prop :=
    (exists a b : list byte, a <> b /\ leafH a = leafH b) \/
    (exists a b c d : D, (a <> c \/ b <> d) /\ nodeH a b = nodeH c d) \/
    (exists (x : list byte) (a b : D), leafH x = nodeH a b).

  Lemma leaf_inj x y : leafH x = leafH y -> x = y \/ Coll2.
  Proof.
    intros H. destruct (list_eq_dec ascii_dec x y) as [E|E]; [left; exact E|].
    right. left. exists x, y. split; assumption.
  Qed.

  Lemma node_inj a b c d : nodeH a b = nodeH c d -> (a = c /\ b = d) \/ Coll2.
  Proof.
    intros H. destruct (D_eq_dec a c) as [E1|E1]; destruct (D_eq_dec b d) as [E2|E2];
      [left; split; assumption| | |]; right; right; left; exists a, b, c, d; split; auto.
  Qed.

  Lemma root_split : forall f l1 l2, length l1 = 2 ^ f -> length l2 = 2 ^ f ->
    mroot (S f) (l1 ++ l2) = nodeH (mroot f l1) (mroot f l2).
  Proof.
    induction f as [|f IH]; intros l1 l2 H1 H2.
    - destruct l1 as [|a [|? ?]]; cbn in H1; try lia. destruct l2 as [|b [|? ?]]; cbn in H2; try lia. reflexivity.
    - rewrite pow2_double in H1, H2.
      change (mroot (S (S f)) (l1 ++ l2)) with (mroot (S f) (pairs (l1 ++ l2))).
      rewrite (pairs_app (2 ^ f)) by exact H1.
      rewrite IH by (apply pairs_length; assumption). reflexivity.
  Qed.

  Lemma mverify_go_snoc : forall p cur i s,
    mverify_go cur i (p ++ [s]) = mstep (mverify_go cur i p) (shr (length p) i) s.
  Proof.
    induction p as [|x p IH]; intros cur i s; cbn; [reflexivity|]. apply IH.
  Qed.

  Lemma sound_core : forall f layer, length layer = 2 ^ f ->
    (forall x, In x layer -> exists d, x = leafH d) ->
    forall p l i, mverify_go (leafH l) i p = mroot f layer ->
      Coll2 \/ (length p = f /\ leafH l = nth (i mod 2 ^ f) layer D0).
  Proof.
    induction f as [|f IH]; intros layer Hl Hleaf p l i Hv.
    - destruct layer as [|r [|? ?]]; cbn in Hl; try lia. cbn in Hv.
      destruct (Hleaf r (or_introl eq_refl)) as [d Hd].
      destruct p as [|x p] using rev_ind.
      + right. split; [reflexivity|]. cbn in Hv. cbn. exact Hv.
      + left. rewrite mverify_go_snoc in Hv. unfold Model.mstep in Hv. right. right.
        destruct (Nat.even _); rewrite Hd in Hv; eexists _, _, _; symmetry; exact Hv.
    - rewrite pow2_double in Hl.
      rewrite <- (firstn_skipn (2 ^ f) layer) in Hv, Hleaf |- *.
      set (l1 := firstn (2 ^ f) layer) in *. set (l2 := skipn (2 ^ f) layer) in *.
      assert (H1 : length l1 = 2 ^ f) by (unfold l1; rewrite firstn_length; lia).
      assert (H2 : length l2 = 2 ^ f) by (unfold l2; rewrite skipn_length; lia).
      rewrite root_split in Hv by assumption.
      destruct p as [|s p _] using rev_ind.
      + left. right. right. cbn in Hv. eexists _, _, _. exact Hv.
      + rewrite mverify_go_snoc in Hv. unfold Model.mstep in Hv.
        rewrite app_length. cbn [length].
        destruct (Nat.even (shr (length p) i)) eqn:E.
        * destruct (node_inj _ _ _ _ Hv) as [[Hc _]|C]; [|left; exact C].
          destruct (IH l1 H1 (fun x Hx => Hleaf x (in_or_app _ _ _ (or_introl Hx))) p l i Hc) as [C|[Hp Hn]];
            [left; exact C|].
          right. split; [lia|]. rewrite mod_pow_succ. rewrite Hp, shr_div in E. rewrite E.
          rewrite app_nth1; [rewrite Nat.mul_0_r, Nat.add_0_r; exact Hn|].
          rewrite H1. pose proof (Nat.mod_upper_bound i (2 ^ f)). pose proof (pow2_pos f). lia.
        * destruct (node_inj _ _ _ _ Hv) as [[_ Hc]|C]; [|left; exact C].
          destruct (IH l2 H2 (fun x Hx => Hleaf x (in_or_app _ _ _ (or_intror Hx))) p l i Hc) as [C|[Hp Hn]];
            [left; exact C|].
          right. split; [lia|]. rewrite mod_pow_succ. rewrite Hp, shr_div in E. rewrite E.
          rewrite app_nth2 by (rewrite H1; lia).
          rewrite H1. replace (i mod 2 ^ f + 2 ^ f * 1 - 2 ^ f) with (i mod 2 ^ f) by lia. exact Hn.
  Qed.

  Lemma bottom_leaves leaves x : In x (bottom leaves) -> exists d, x = leafH d.
  Proof.
    unfold Model.bottom. intros H. apply in_app_or in H. destruct H as [H|H].
    - apply in_map_iff in H. destruct H as [d [Hd _]]. exists d. symmetry. exact Hd.
    - apply repeat_spec in H. exists []. exact H.
  Qed.

  (* a verifying proof has exactly the tree depth and proves the real leaf at position
     (index mod 2^depth) — padded positions hold the empty leaf *)
  Theorem merkle_sound_lemma : forall leaves l i p, leaves <> [] ->
    mverify (fst (merkle_new leaves)) l i p = true ->
    (length p = depth (length leaves) /\ l = nth (i mod 2 ^ depth (length leaves)) leaves []) \/ Coll2.
  Proof.
    intros leaves l i p Hne Hv. unfold Model.mverify in Hv.
    destruct (D_eq_dec _ _) as [E|]; [|discriminate]. rewrite merkle_new_root in E by exact Hne.
    destruct (sound_core _ _ (bottom_length leaves) (bottom_leaves leaves) p l i E) as [C|[Hp Hn]];
      [right; exact C|].
    rewrite nth_bottom in Hn
      by (apply Nat.mod_upper_bound; pose proof (pow2_pos (depth (length leaves))); lia).
    destruct (leaf_inj _ _ Hn) as [El|C]; [left; split; assumption|right; exact C].
  Qed.

  (* ---------- the root determines the leaves (same leaf count) ---------- *)
  Lemma pairs_inj : forall m l1 l2, length l1 = 2 * m -> length l2 = 2 * m ->
    pairs l1 = pairs l2 -> l1 = l2 \/ Coll2.
  Proof.
    induction m as [|m IH]; intros l1 l2 H1 H2 Hp.
    - destruct l1; [|cbn in H1; lia]. destruct l2; [|cbn in H2; lia]. left. reflexivity.
    - destruct l1 as [|a [|b r1]]; cbn in H1; try lia. destruct l2 as [|c [|d r2]]; cbn in H2; try lia.
      cbn in Hp. injection Hp as Hn Hr.
      destruct (node_inj _ _ _ _ Hn) as [[Ea Eb]|C]; [|right; exact C].
      destruct (IH r1 r2 ltac:(lia) ltac:(lia) Hr) as [Er|C]; [|right; exact C].
      left. subst. reflexivity.
  Qed.

  Lemma mroot_inj : forall f l1 l2, length l1 = 2 ^ f -> length l2 = 2 ^ f ->
    mroot f l1 = mroot f l2 -> l1 = l2 \/ Coll2.
  Proof.
    induction f as [|f IH]; intros l1 l2 H1 H2 Hr.
    - destruct l1 as [|a [|? ?]]; cbn in H1; try lia. destruct l2 as [|b [|? ?]]; cbn in H2; try lia.
      cbn in Hr. left. subst. reflexivity.
    - rewrite pow2_double in H1, H2. cbn [Model.mroot] in Hr.
      destruct (IH _ _ (pairs_length _ _ H1) (pairs_length _ _ H2) Hr) as [Ep|C]; [|right; exact C].
      exact (pairs_inj _ _ _ H1 H2 Ep).
  Qed.

  Lemma map_leaf_inj : forall l1 l2, map leafH l1 = map leafH l2 -> l1 = l2 \/ Coll2.
  Proof.
    induction l1 as [|x l1 IH]; intros [|y l2] H; cbn in H; try discriminate; [left; reflexivity|].
    injection H as Hx Hr. destruct (leaf_inj _ _ Hx) as [E|C]; [|right; exact C].
    destruct (IH _ Hr) as [E2|C]; [|right; exact C]. left. subst. reflexivity.
  Qed.

  Theorem root_inj_lemma : forall l1 l2, l1 <> [] -> length l1 = length l2 ->
    fst (merkle_new l1) = fst (merkle_new l2) -> l1 = l2 \/ Coll2.
  Proof.
    intros l1 l2 Hne Hlen Hr.
    assert (Hne2 : l2 <> []) by (destruct l2; [destruct l1; [congruence|discriminate]|discriminate]).
    rewrite !merkle_new_root in Hr by assumption. rewrite <- Hlen in Hr.
    assert (Hb2 : length (bottom l2) = 2 ^ depth (length l1)) by (rewrite bottom_length, Hlen; reflexivity).
    destruct (mroot_inj _ (bottom l1) (bottom l2) (bottom_length l1) Hb2 Hr) as [E|C];
      [|right; exact C].
    unfold Model.bottom in E. rewrite <- Hlen in E.
    apply app_inv_tail in E. exact (map_leaf_inj _ _ E).
  Qed.
End MerkleProofs.

(* ---------- the SHA-256 tagging scheme: any Coll2 of the tagged hashes is a collision of H ---------- *)
Section ShaProofs.
  Variable D : Type.
  Variable H : list byte -> D.
  Variable enc : D -> list byte.
  Hypothesis enc_inj : forall a b, enc a = enc b -> a = b.
  Hypothesis enc_len : forall a, length (enc a) = 32.

  Definition Collision : Prop := exists x y : list byte, x <> y /\ H x = H y.

  Lemma app_eq_len {A} : forall (a c x y : list A), length a = length c -> a ++ x = c ++ y -> a = c /\ x = y.
  Proof.
    induction a as [|h a IH]; intros [|h' c] x y Hl E; cbn in Hl; try discriminate.
    - split; [reflexivity|exact E].
    - cbn in E. injection E as Eh Et. destruct (IH c x y ltac:(lia) Et) as [Ea Ex]. subst. split; reflexivity.
  Qed.

  Lemma leaf_pre_inj a b : leaf_pre a = leaf_pre b -> a = b.
  Proof. unfold leaf_pre. intros E. apply app_inv_head in E. apply app_inv_tail in E. exact E. Qed.

  Lemma node_pre_inj a b c d : node_pre D enc a b = node_pre D enc c d -> a = c /\ b = d.
  Proof.
    unfold node_pre. intros E. apply app_inv_head in E.
    apply app_eq_len in E; [|rewrite !enc_len; reflexivity]. destruct E as [Ea E].
    apply app_inv_head in E. apply app_eq_len in E; [|rewrite !enc_len; reflexivity].
    destruct E as [Eb _]. split; apply enc_inj; assumption.
  Qed.

  (* domain separation: the second byte is 'l' for a leaf and 'n' for a node *)
  Lemma leaf_node_sep x a b : leaf_pre x <> node_pre D enc a b.
  Proof. unfold leaf_pre, node_pre, leaf_open, node_open. cbn. intros E. discriminate E. Qed.

  Lemma coll2_collision : Coll2 D (sha_leaf D H) (sha_node D H enc) -> Collision.
  Proof.
    intros [[a [b [Hne He]]]|[[a [b [c [d [Hne He]]]]]|[x [a [b He]]]]]; unfold sha_leaf, sha_node in He.
    - exists (leaf_pre a), (leaf_pre b). split; [|exact He]. intros E. apply Hne. apply leaf_pre_inj. exact E.
    - exists (node_pre D enc a b), (node_pre D enc c d). split; [|exact He].
      intros E. apply node_pre_inj in E. destruct E. destruct Hne; congruence.
    - exists (leaf_pre x), (node_pre D enc a b). split; [apply leaf_node_sep|exact He].
  Qed.
End ShaProofs.
