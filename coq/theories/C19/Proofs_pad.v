(* C19 — padding lemmas (padding.go): uvarint round trip, unpad (pad m) = m, divisibility. *)
From Coq Require Import List NArith Bool Ascii Arith Lia ZifyN ZifyNat ZifyBool.
From V Require Import C19.Model.
Import ListNotations.

Lemma bn_B n : (n < 256)%N -> bn (B n) = n.
Proof. intros H. unfold bn, B. apply N_ascii_embedding. exact H. Qed.

Lemma bn_bound b : (bn b < 256)%N.
Proof. apply N_ascii_bounded. Qed.

Lemma B_bn b : B (bn b) = b.
Proof. apply ascii_N_embedding. Qed.

Lemma pow7_step (n : N) : (2 ^ (7 * (n + 1)) = 128 * 2 ^ (7 * n))%N.
Proof. replace (7 * (n + 1))%N with (7 + 7 * n)%N by lia. rewrite N.pow_add_r. reflexivity. Qed.

Lemma pow_pos (n : N) : (0 < 2 ^ n)%N.
Proof. apply N.neq_0_lt_0. apply N.pow_nonzero. discriminate. Qed.

Lemma uv_enc_len_pos f x : (0 < length (uv_enc (S f) x))%nat.
Proof. cbn. destruct (x <? 128)%N; cbn; lia. Qed.

Lemma uv_enc_len_le f x : (length (uv_enc f x) <= f)%nat.
Proof. revert x. induction f as [|f IH]; intros x; cbn; [lia|]. destruct (x <? 128)%N; cbn; [lia|]. specialize (IH (x / 128)%N). lia. Qed.

Lemma two64_pow : two64 = (2 ^ 64)%N.
Proof. reflexivity. Qed.

Lemma uv_roundtrip : forall fuel x i acc rest,
  (0 < fuel)%nat -> (x < 2 ^ (7 * N.of_nat fuel))%N -> (i <= 9)%nat ->
  (x * 2 ^ (7 * N.of_nat i) < two64)%N ->
  uv_dec (uv_enc fuel x ++ rest) i acc =
    Some ((acc + x * 2 ^ (7 * N.of_nat i))%N, (i + length (uv_enc fuel x))%nat).
Proof.
  induction fuel as [|f IH]; intros x i acc rest Hf Hx Hi Hb; [lia|].
  cbn [uv_enc]. destruct (x <? 128)%N eqn:E.
  - apply N.ltb_lt in E. cbn [app uv_dec length].
    assert (Hi10 : Nat.eqb i 10 = false) by (apply Nat.eqb_neq; lia). rewrite Hi10.
    rewrite bn_B by lia. assert (E' : (x <? 128)%N = true) by (apply N.ltb_lt; exact E). rewrite E'.
    assert (Hc : (Nat.eqb i 9 && (1 <? x)%N) = false).
    { destruct (Nat.eqb i 9) eqn:E9; [|reflexivity]. apply Nat.eqb_eq in E9. subst i.
      cbn. apply N.ltb_ge. change (7 * N.of_nat 9)%N with 63%N in Hb. rewrite two64_pow in Hb.
      change (2 ^ 64)%N with (2 * 2 ^ 63)%N in Hb. pose proof (pow_pos 63). nia. }
    rewrite Hc. f_equal. f_equal. lia.
  - apply N.ltb_ge in E. cbn [app uv_dec length].
    assert (Hi10 : Nat.eqb i 10 = false) by (apply Nat.eqb_neq; lia). rewrite Hi10.
    assert (Hm : (x mod 128 < 128)%N) by (apply N.mod_lt; discriminate).
    rewrite bn_B by lia.
    assert (E' : (x mod 128 + 128 <? 128)%N = false) by (apply N.ltb_ge; lia). rewrite E'.
    assert (Hmm : ((x mod 128 + 128) mod 128 = x mod 128)%N).
    { rewrite <- N.add_mod_idemp_r by discriminate. change (128 mod 128)%N with 0%N.
      rewrite N.add_0_r. apply N.mod_mod. discriminate. }
    rewrite Hmm.
    pose proof (N.div_mod x 128 ltac:(discriminate)) as Hdm.
    assert (Hf0 : (0 < f)%nat).
    { destruct f; [|lia]. change (7 * N.of_nat 1)%N with 7%N in Hx. change (2 ^ 7)%N with 128%N in Hx. lia. }
    assert (Hx' : (x / 128 < 2 ^ (7 * N.of_nat f))%N).
    { apply N.div_lt_upper_bound; [discriminate|]. rewrite <- pow7_step.
      replace (N.of_nat f + 1)%N with (N.of_nat (S f)) by lia. exact Hx. }
    assert (Hstep : (2 ^ (7 * N.of_nat (S i)) = 128 * 2 ^ (7 * N.of_nat i))%N).
    { replace (N.of_nat (S i)) with (N.of_nat i + 1)%N by lia. apply pow7_step. }
    pose proof (pow_pos (7 * N.of_nat i)) as Hp.
    assert (Hb' : (x / 128 * 2 ^ (7 * N.of_nat (S i)) < two64)%N).
    { rewrite Hstep. nia. }
    assert (Hi' : (S i <= 9)%nat).
    { destruct (Nat.le_gt_cases (S i) 9) as [|Hgt]; [assumption|]. exfalso.
      assert (i = 9)%nat by lia. subst i. change (7 * N.of_nat 9)%N with 63%N in Hb.
      rewrite two64_pow in Hb. change (2 ^ 64)%N with (2 * 2 ^ 63)%N in Hb. pose proof (pow_pos 63). nia. }
    rewrite (IH (x / 128)%N (S i) _ rest Hf0 Hx' Hi' Hb').
    f_equal. f_equal; [|lia]. rewrite Hstep. nia.
Qed.

Lemma uvarint_dec x rest : (x < two64)%N ->
  uv_dec (uvarint x ++ rest) 0 0 = Some (x, length (uvarint x)).
Proof.
  intros H. unfold uvarint. rewrite (uv_roundtrip 10 x 0 0%N rest); try lia.
  - f_equal. f_equal. cbn. lia.
  - change (7 * N.of_nat 10)%N with 70%N. rewrite two64_pow in H.
    eapply N.lt_trans; [exact H|]. reflexivity.
Qed.

(* varint boundaries *)
Lemma uvarint_len_1 x : (x < 128)%N -> length (uvarint x) = 1%nat.
Proof. intros H. unfold uvarint. cbn. apply N.ltb_lt in H. rewrite H. reflexivity. Qed.

Lemma uvarint_len_2 x : (128 <= x < 16384)%N -> length (uvarint x) = 2%nat.
Proof.
  intros [H1 H2]. unfold uvarint. cbn [uv_enc].
  assert (E : (x <? 128)%N = false) by (apply N.ltb_ge; exact H1). rewrite E.
  assert (E2 : (x / 128 <? 128)%N = true).
  { apply N.ltb_lt. apply N.div_lt_upper_bound; [discriminate|]. exact H2. }
  rewrite E2. reflexivity.
Qed.

Lemma uvarint_len_3 x : (16384 <= x < 2097152)%N -> length (uvarint x) = 3%nat.
Proof.
  intros [H1 H2]. unfold uvarint. cbn [uv_enc].
  assert (E : (x <? 128)%N = false) by (apply N.ltb_ge; lia). rewrite E.
  assert (E2 : (x / 128 <? 128)%N = false).
  { apply N.ltb_ge. apply N.div_le_lower_bound; [discriminate|]. exact H1. }
  rewrite E2.
  assert (E3 : (x / 128 / 128 <? 128)%N = true).
  { apply N.ltb_lt. apply N.div_lt_upper_bound; [discriminate|].
    apply N.div_lt_upper_bound; [discriminate|]. exact H2. }
  rewrite E3. reflexivity.
Qed.

Lemma uvarint_127 : uvarint 127 = [B 127]. Proof. reflexivity. Qed.
Lemma uvarint_128 : uvarint 128 = [B 128; B 1]. Proof. reflexivity. Qed.
Lemma uvarint_16383 : uvarint 16383 = [B 255; B 127]. Proof. reflexivity. Qed.
Lemma uvarint_16384 : uvarint 16384 = [B 128; B 128; B 1]. Proof. reflexivity. Qed.
Lemma uvarint_max : uvarint (two64 - 1) =
  [B 255; B 255; B 255; B 255; B 255; B 255; B 255; B 255; B 255; B 1].
Proof. vm_compute. reflexivity. Qed.

Definition pad_len (m : list byte) (k : N) : N :=
  let un := N.of_nat (length (uvarint (N.of_nat (length m))) + length m) in
  let r := (un mod (2 * k))%N in if (r =? 0)%N then un else (un + (2 * k - r))%N.

Lemma pad_length m k : (0 < k)%N -> N.of_nat (length (pad m k)) = pad_len m k.
Proof.
  intros Hk. unfold pad, pad_len. cbv zeta.
  set (pre := uvarint (N.of_nat (length m))).
  set (un := N.of_nat (length pre + length m)).
  rewrite !app_length, repeat_length.
  assert (Hr : (un mod (2 * k) < 2 * k)%N) by (apply N.mod_lt; lia).
  destruct (un mod (2 * k) =? 0)%N eqn:E; unfold un in *; lia.
Qed.

Lemma pad_divisible m k : (0 < k)%N -> (pad_len m k mod (2 * k) = 0)%N.
Proof.
  intros Hk. unfold pad_len. cbv zeta.
  set (un := N.of_nat (length (uvarint (N.of_nat (length m))) + length m)).
  assert (Hd : (2 * k <> 0)%N) by lia.
  pose proof (N.div_mod un (2 * k) Hd) as Hdm.
  assert (Hr : (un mod (2 * k) < 2 * k)%N) by (apply N.mod_lt; lia).
  destruct (un mod (2 * k) =? 0)%N eqn:E.
  - apply N.eqb_eq in E. exact E.
  - apply N.eqb_neq in E.
    replace (un + (2 * k - un mod (2 * k)))%N with ((un / (2 * k) + 1) * (2 * k))%N by nia.
    apply N.mod_mul. exact Hd.
Qed.

Lemma pad_length_divisible m k : (0 < k)%N -> (N.of_nat (length (pad m k)) mod (2 * k) = 0)%N.
Proof. intros Hk. rewrite pad_length by exact Hk. apply pad_divisible. exact Hk. Qed.

Lemma pad_nonempty m k : (0 < length (pad m k))%nat.
Proof. unfold pad. cbv zeta. rewrite app_length. unfold uvarint. pose proof (uv_enc_len_pos 9 (N.of_nat (length m))). lia. Qed.

Lemma firstn_app_exact {A} (l r : list A) : firstn (length l) (l ++ r) = l.
Proof. induction l; cbn; [destruct r; reflexivity|]. f_equal. exact IHl. Qed.

Lemma skipn_app_exact {A} (l r : list A) : skipn (length l) (l ++ r) = r.
Proof. induction l; cbn; [reflexivity|exact IHl]. Qed.

(* len(msg) is a Go int: below 2^63 *)
Definition go_len_ok (m : list byte) : Prop := (N.of_nat (length m) < 2 ^ 63)%N.

(* unpad only looks at the prefix: anything may follow (zero padding, parity shards) *)
Lemma unpad_prefix m rest : go_len_ok m ->
  unpad (uvarint (N.of_nat (length m)) ++ m ++ rest) = UOk m.
Proof.
  unfold go_len_ok. intros Hm.
  assert (H63 : (2 ^ 63 = 9223372036854775808)%N) by reflexivity. rewrite H63 in Hm.
  unfold unpad. rewrite uvarint_dec by (unfold two64; lia).
  set (pre := uvarint (N.of_nat (length m))).
  assert (Hpl : (length pre <= 10)%nat) by apply uv_enc_len_le.
  assert (Hsum : ((N.of_nat (length pre) + N.of_nat (length m)) mod two64 =
                  N.of_nat (length pre) + N.of_nat (length m))%N).
  { apply N.mod_small. unfold two64. lia. }
  rewrite Hsum. rewrite !app_length.
  assert (E1 : (N.of_nat (length pre + (length m + length rest)) <?
                N.of_nat (length pre) + N.of_nat (length m))%N = false) by (apply N.ltb_ge; lia).
  rewrite E1.
  assert (E2 : (N.of_nat (length pre) + N.of_nat (length m) <? N.of_nat (length pre))%N = false)
    by (apply N.ltb_ge; lia).
  rewrite E2. rewrite skipn_app_exact.
  replace (N.to_nat (N.of_nat (length pre) + N.of_nat (length m)) - length pre)%nat with (length m) by lia.
  rewrite firstn_app_exact. reflexivity.
Qed.

Lemma unpad_pad_lemma m k : go_len_ok m -> unpad (pad m k) = UOk m.
Proof. intros H. unfold pad. cbv zeta. apply unpad_prefix. exact H. Qed.

Lemma unpad_pad_app m k rest : go_len_ok m -> unpad (pad m k ++ rest) = UOk m.
Proof.
  intros H. unfold pad. cbv zeta. rewrite <- !app_assoc. apply unpad_prefix. exact H.
Qed.

(* the receiver-side hazard: a 10-byte varint announcing 2^64-1 makes the slice expression panic *)
Lemma unpad_panic_witness :
  unpad (uvarint (two64 - 1) ++ [zero_byte; zero_byte]) = UPanic.
Proof. vm_compute. reflexivity. Qed.
