(* C19 — sharding.go / unit_validator.go lemmas: exact reconstruction from any >= k shards, nothing but
   the sent message can be delivered under the signed root, what the validator binds. *)
From Coq Require Import List NArith Bool Ascii Arith Lia ZifyN ZifyNat ZifyBool.
From V Require Import C19.Model C19.Proofs_pad C19.Proofs_merkle.
Import ListNotations.

(* ---------- split ---------- *)
Lemma chunks_spec : forall f sz l, length l = f * sz ->
  concat (chunks f sz l) = l /\ Forall (fun c => length c = sz) (chunks f sz l) /\ length (chunks f sz l) = f.
Proof.
  induction f as [|f IH]; intros sz l H.
  - cbn in *. destruct l; [repeat split; constructor|discriminate].
  - cbn [chunks concat length].
    destruct (IH sz (skipn sz l)) as [Hc [Hf Hn]]; [rewrite skipn_length; lia|].
    rewrite Hc, firstn_skipn. repeat split; [|lia].
    constructor; [rewrite firstn_length; lia|exact Hf].
Qed.

Lemma split_spec p k : 0 < k -> (N.of_nat (length p) mod N.of_nat k = 0)%N ->
  concat (split p k) = p /\ Forall (fun c => length c = length p / k) (split p k) /\ length (split p k) = k.
Proof.
  intros Hk Hd. unfold split. apply chunks_spec.
  assert (Hm : length p mod k = 0).
  { apply Nat2N.inj. rewrite Nat2N.inj_mod. exact Hd. }
  pose proof (Nat.div_mod (length p) k ltac:(lia)). lia.
Qed.

Lemma pad_split m k : 0 < k ->
  concat (split (pad m (N.of_nat k)) k) = pad m (N.of_nat k) /\
  Forall (fun c => length c = length (pad m (N.of_nat k)) / k) (split (pad m (N.of_nat k)) k) /\
  length (split (pad m (N.of_nat k)) k) = k.
Proof.
  intros Hk. apply split_spec; [exact Hk|].
  pose proof (pad_length_divisible m (N.of_nat k) ltac:(lia)) as Hd.
  (* divisible by 2k, hence by k *)
  set (L := N.of_nat (length (pad m (N.of_nat k)))) in *.
  assert (H2k : (2 * N.of_nat k <> 0)%N) by lia.
  pose proof (N.div_mod L (2 * N.of_nat k) H2k) as E. rewrite Hd, N.add_0_r in E.
  rewrite E. replace (2 * N.of_nat k * (L / (2 * N.of_nat k)))%N with ((2 * (L / (2 * N.of_nat k))) * N.of_nat k)%N by lia.
  apply N.mod_mul. lia.
Qed.

(* ---------- masks ---------- *)
Lemma mask_list_length {A} : forall (l : list A) mask, length (mask_list l mask) = length l.
Proof. induction l; intros [|b m]; cbn; auto. Qed.

Lemma count_true_cons b m : count_true (b :: m) = (if b then 1 else 0) + count_true m.
Proof. unfold count_true. cbn. destruct b; reflexivity. Qed.

Lemma map_inj {A B} (f : A -> B) : (forall a b, f a = f b -> a = b) -> forall l1 l2, map f l1 = map f l2 -> l1 = l2.
Proof.
  intros Hf. induction l1 as [|x l1 IH]; intros [|y l2] H; cbn in H; try discriminate; [reflexivity|].
  injection H as Hx Hr. f_equal; [apply Hf; exact Hx|apply IH; exact Hr].
Qed.

Section PropellerProofs.
  Variable D : Type.
  Variable D_eq_dec : forall x y : D, {x = y} + {x <> y}.
  Variable leafH : list byte -> D.
  Variable nodeH : D -> D -> D.
  Variable D0 : D.
  Variable S_ : Type.
  Variable S_eq_dec : forall x y : S_, {x = y} + {x <> y}.
  Variable sign : N -> (D * list byte * N) -> S_.
  Variable sig_ok : N -> (D * list byte * N) -> S_ -> bool.
  Variable rs_parity : list (list byte) -> nat -> list (list byte).
  Variable rs_recover : list (option (list byte)) -> nat -> nat -> option (list (list byte)).
  Variable leaf_c : list byte -> list byte.
  Variable leaf_v : list (list byte) -> list byte.
  Variable copy_nonce : bool.

  Notation unit_ := (unit_ D S_).
  Notation encode := (encode rs_parity).
  Notation create := (create D leafH nodeH D0 S_ sign rs_parity leaf_c copy_nonce).
  Notation mk_units := (mk_units D leafH nodeH D0 S_ sign leaf_c copy_nonce).
  Notation construct := (construct D D_eq_dec leafH nodeH D0 S_ rs_recover leaf_c).
  Notation validate := (validate D D_eq_dec leafH nodeH S_ S_eq_dec sig_ok leaf_v).
  Notation merkle_new := (merkle_new D leafH nodeH D0).
  Notation mverify := (mverify D D_eq_dec leafH nodeH).
  Notation Coll2 := (Coll2 D leafH nodeH).
  Notation honest_root m k parity := (fst (merkle_new (map leaf_c (encode m k parity)))).
  Notation honest_proofs m k parity := (snd (merkle_new (map leaf_c (encode m k parity)))).

  (* the assumed behaviour of klauspost/reedsolomon *)
  Definition rs_parity_len : Prop := forall data par, length (rs_parity data par) = par.
  (* any >= k correct shards of the codeword of [data] recover all of it; fewer => error *)
  Definition rs_mds (data : list (list byte)) (par : nat) : Prop := forall mask,
    length mask = length (data ++ rs_parity data par) ->
    (length data <= count_true mask ->
       rs_recover (mask_list (data ++ rs_parity data par) mask) (length data) par = Some (data ++ rs_parity data par)) /\
    (count_true mask < length data ->
       rs_recover (mask_list (data ++ rs_parity data par) mask) (length data) par = None).
  Definition data_shards (m : list byte) (k : nat) : list (list byte) := split (pad m (N.of_nat k)) k.
  Definition rs_len : Prop := forall sh k p out, rs_recover sh k p = Some out -> length out = length sh.

  (* ---------- structure of the created units ---------- *)
  Lemma encode_data m k parity : 0 < k ->
    encode m k parity = data_shards m k ++ rs_parity (data_shards m k) parity /\ length (data_shards m k) = k /\
      concat (data_shards m k) = pad m (N.of_nat k) /\
      Forall (fun c => length c = length (pad m (N.of_nat k)) / k) (data_shards m k).
  Proof.
    intros Hk. destruct (pad_split m k Hk) as [Hc [Hf Hn]]. unfold data_shards. repeat split; assumption.
  Qed.

  Lemma encode_length m k parity : 0 < k -> rs_parity_len -> length (encode m k parity) = k + parity.
  Proof.
    intros Hk Hp. destruct (encode_data m k parity Hk) as [E [Hn _]].
    rewrite E, app_length, Hp, Hn. reflexivity.
  Qed.

  Definition unit_of (committee : list byte) (publisher : N) (root : D) (proofs : list (list D)) (sg : S_)
             (nonce : N) (p : nat * list byte) : unit_ :=
    let '(i, sh) := p in mkUnit D S_ committee publisher root (nth i proofs []) sg i [sh]
                                (if copy_nonce then nonce else 0%N).

  Lemma create_eq publisher committee nonce m k parity :
    create publisher committee nonce m k parity =
    let enc := encode m k parity in
    let root := fst (merkle_new (map leaf_c enc)) in
    let proofs := snd (merkle_new (map leaf_c enc)) in
    map (unit_of committee publisher root proofs (sign publisher (root, committee, nonce)) nonce)
        (combine (seq 0 (length enc)) enc).
  Proof.
    unfold Model.create, Model.mk_units. cbv zeta.
    destruct (merkle_new (map leaf_c (encode m k parity))) as [root proofs]. cbn [fst snd].
    apply map_ext. intros [i sh]. reflexivity.
  Qed.

  Lemma shards_of_units (g : nat * list byte -> unit_) : (forall p, u_shards D S_ (g p) = [snd p]) ->
    forall enc start mask,
      shards_of D S_ (mask_list (map g (combine (seq start (length enc)) enc)) mask) = Some (mask_list enc mask).
  Proof.
    intros Hg. induction enc as [|sh enc IH]; intros start mask; [destruct mask; reflexivity|].
    cbn [length seq combine map].
    destruct mask as [|b mask]; cbn [mask_list].
    - cbn [Model.shards_of]. rewrite (IH (S start) []). reflexivity.
    - destruct b; cbn [Model.shards_of].
      + rewrite Hg. cbn [snd]. rewrite (IH (S start) mask). reflexivity.
      + rewrite (IH (S start) mask). reflexivity.
  Qed.

  Lemma first_root_units (g : nat * list byte -> unit_) root : (forall p, u_root D S_ (g p) = root) ->
    forall enc start mask, 0 < count_true mask -> length mask = length enc ->
      first_root D D0 S_ (mask_list (map g (combine (seq start (length enc)) enc)) mask) = root.
  Proof.
    intros Hg. induction enc as [|sh enc IH]; intros start mask Hc Hl.
    - destruct mask; cbn in *; [unfold count_true in Hc; cbn in Hc; lia|discriminate].
    - destruct mask as [|b mask]; [discriminate|]. cbn [length seq combine map mask_list].
      destruct b; cbn [Model.first_root]; [apply Hg|].
      apply IH; [rewrite count_true_cons in Hc; cbn in Hc; exact Hc|cbn in Hl; lia].
  Qed.

  Lemma existsb_false_forall {A} (f : A -> bool) l : Forall (fun x => f x = false) l -> existsb f l = false.
  Proof. induction 1; cbn; [reflexivity|]. rewrite H, IHForall. reflexivity. Qed.

  (* ---------- exact reconstruction from ANY subset of at least k shards ---------- *)
  Theorem reconstruct_exact_lemma : forall publisher committee nonce m k parity mask local,
    rs_parity_len -> rs_mds (data_shards m k) parity -> 0 < k -> go_len_ok m ->
    length mask = k + parity -> k <= count_true mask -> local < k + parity ->
    construct (mask_units D S_ (create publisher committee nonce m k parity) mask) local k parity =
      COk D m (nth local (encode m k parity) []) (nth local (honest_proofs m k parity) []).
  Proof.
    intros publisher committee nonce m k parity mask local Hpl Hmds Hk Hm Hmask Hcnt Hlocal.
    rewrite create_eq. cbv zeta. unfold Model.mask_units.
    destruct (encode_data m k parity Hk) as [Eenc [Hn [Hcat Hsz]]]. set (data := data_shards m k) in *.
    pose proof (encode_length m k parity Hk Hpl) as Hlen.
    remember (encode m k parity) as enc eqn:Henc_def.
    set (root := fst (merkle_new (map leaf_c enc))).
    set (proofs := snd (merkle_new (map leaf_c enc))).
    set (g := unit_of committee publisher root proofs (sign publisher (root, committee, nonce)) nonce).
    assert (Hg1 : forall p, u_shards D S_ (g p) = [snd p]) by (intros [i sh]; reflexivity).
    assert (Hg2 : forall p, u_root D S_ (g p) = root) by (intros [i sh]; reflexivity).
    unfold Model.construct.
    assert (Hne : exists x r, mask_list (map g (combine (seq 0 (length enc)) enc)) mask = x :: r).
    { assert (Hl : length (mask_list (map g (combine (seq 0 (length enc)) enc)) mask) = k + parity).
      { rewrite mask_list_length, map_length, combine_length, seq_length, Nat.min_id. exact Hlen. }
      destruct (mask_list _ mask) as [|x r]; [cbn in Hl; lia|]. eauto. }
    destruct Hne as [x [r Hxr]].
    rewrite (shards_of_units g Hg1 enc 0 mask).
    rewrite (first_root_units g root Hg2 enc 0 mask) by lia.
    rewrite Hxr.
    assert (Hrec' : rs_recover (mask_list enc mask) k parity = Some enc).
    { destruct (Hmds mask) as [Hrec _]; [rewrite <- Eenc; lia|].
      rewrite Hn in Hrec. rewrite <- Eenc in Hrec. apply Hrec. lia. }
    rewrite Hrec'.
    (* shard-size loop over the data shards *)
    assert (Hchk : existsb (fun s => negb (length s =? length (hd [] enc))) (firstn k enc) = false).
    { apply existsb_false_forall. rewrite Eenc. rewrite <- Hn, firstn_app, Nat.sub_diag, firstn_O, app_nil_r, firstn_all.
      destruct data as [|d0 data']; [cbn in Hn; lia|]. cbn [app hd].
      inversion Hsz as [|? ? Hd0 Hrest]; subst. constructor.
      - rewrite Nat.eqb_refl. reflexivity.
      - eapply Forall_impl; [|exact Hrest]. intros c Hc. cbn beta. rewrite Hc, <- Hd0, Nat.eqb_refl. reflexivity. }
    rewrite Hchk.
    fold root proofs. rewrite (surjective_pairing (merkle_new (map leaf_c enc))). fold root proofs.
    destruct (D_eq_dec root root) as [_|Hc]; [|congruence].
    assert (Hun : unpad (concat enc) = UOk m).
    { rewrite Eenc, concat_app, Hcat. apply unpad_pad_app. exact Hm. }
    rewrite Hun. assert (Hl : (local <? length enc) = true) by (apply Nat.ltb_lt; lia). rewrite Hl. reflexivity.
  Qed.

  Theorem reconstruct_insufficient_lemma : forall publisher committee nonce m k parity mask local,
    rs_parity_len -> rs_mds (data_shards m k) parity -> 0 < k -> length mask = k + parity -> count_true mask < k ->
    construct (mask_units D S_ (create publisher committee nonce m k parity) mask) local k parity = CErr D ERS.
  Proof.
    intros publisher committee nonce m k parity mask local Hpl Hmds Hk Hmask Hcnt.
    rewrite create_eq. cbv zeta. unfold Model.mask_units.
    destruct (encode_data m k parity Hk) as [Eenc [Hn _]]. set (data := data_shards m k) in *.
    pose proof (encode_length m k parity Hk Hpl) as Hlen.
    remember (encode m k parity) as enc eqn:Henc_def.
    set (root := fst (merkle_new (map leaf_c enc))). set (proofs := snd (merkle_new (map leaf_c enc))).
    set (g := unit_of committee publisher root proofs (sign publisher (root, committee, nonce)) nonce).
    assert (Hg1 : forall p, u_shards D S_ (g p) = [snd p]) by (intros [i sh]; reflexivity).
    unfold Model.construct.
    assert (Hne : exists x r, mask_list (map g (combine (seq 0 (length enc)) enc)) mask = x :: r).
    { assert (Hl : length (mask_list (map g (combine (seq 0 (length enc)) enc)) mask) = k + parity).
      { rewrite mask_list_length, map_length, combine_length, seq_length, Nat.min_id. exact Hlen. }
      destruct (mask_list _ mask) as [|x r]; [cbn in Hl; lia|]. eauto. }
    destruct Hne as [x [r Hxr]].
    rewrite (shards_of_units g Hg1 enc 0 mask). rewrite Hxr.
    assert (Hrec' : rs_recover (mask_list enc mask) k parity = None).
    { destruct (Hmds mask) as [_ Hfew]; [rewrite <- Eenc; lia|].
      rewrite Hn in Hfew. rewrite <- Eenc in Hfew. apply Hfew. lia. }
    rewrite Hrec'. reflexivity.
  Qed.

  (* ---------- whatever arrives, only the sent message can be delivered under its root ---------- *)
  Lemma shards_of_length : forall units shards, shards_of D S_ units = Some shards -> length shards = length units.
  Proof.
    induction units as [|[u|] units IH]; intros shards H; cbn in H.
    - injection H as <-. reflexivity.
    - destruct (u_shards D S_ u); [discriminate|]. destruct (shards_of D S_ units) eqn:E; [|discriminate].
      injection H as <-. cbn. f_equal. apply IH. reflexivity.
    - destruct (shards_of D S_ units) eqn:E; [|discriminate]. injection H as <-. cbn. f_equal. apply IH. reflexivity.
  Qed.

  Lemma shards_of_none : forall units, shards_of D S_ units = None ->
    exists u, In (Some u) units /\ u_shards D S_ u = [].
  Proof.
    induction units as [|[u|] units IH]; intros H; cbn in H; [discriminate| |].
    - destruct (u_shards D S_ u) eqn:Eu; [exists u; split; [left; reflexivity|exact Eu]|].
      destruct (shards_of D S_ units); [discriminate|]. destruct (IH eq_refl) as [u' [Hin Hu]].
      exists u'. split; [right; exact Hin|exact Hu].
    - destruct (shards_of D S_ units); [discriminate|]. destruct (IH eq_refl) as [u' [Hin Hu]].
      exists u'. split; [right; exact Hin|exact Hu].
  Qed.

  Theorem construct_sound_lemma : forall (units : list (option unit_)) local m k parity,
    rs_parity_len -> rs_len -> (forall a b, leaf_c a = leaf_c b -> a = b) -> 0 < k -> go_len_ok m ->
    length units = k + parity ->
    first_root D D0 S_ units = honest_root m k parity ->
    match construct units local k parity with
    | COk _ m' s pr => (m' = m /\ s = nth local (encode m k parity) [] /\
                        pr = nth local (honest_proofs m k parity) []) \/ Coll2
    | CErr _ _ => True
    | CPanic _ => (exists u, In (Some u) units /\ u_shards D S_ u = []) \/ ~ local < length units \/ Coll2
    end.
  Proof.
    intros units local m k parity Hpl Hrl Hinj Hk Hm Hlen Hroot.
    pose proof (encode_length m k parity Hk Hpl) as Henc.
    unfold Model.construct. destruct units as [|u0 units0] eqn:Eu; [cbn in Hlen; lia|]. rewrite <- Eu in *.
    destruct (shards_of D S_ units) as [shards|] eqn:Es; [|left; apply shards_of_none; exact Es].
    destruct (rs_recover shards k parity) as [full|] eqn:Er; [|exact I].
    destruct (existsb _ (firstn k full)); [exact I|].
    rewrite (surjective_pairing (merkle_new (map leaf_c full))).
    destruct (D_eq_dec _ _) as [Eroot|]; [|exact I].
    rewrite Hroot in Eroot.
    assert (Hfl : length full = length units) by (rewrite (Hrl _ _ _ _ Er); apply shards_of_length; exact Es).
    assert (Hsame : full = encode m k parity \/ Coll2).
    { destruct (root_inj_lemma D D_eq_dec leafH nodeH D0 (map leaf_c (encode m k parity)) (map leaf_c full)) as [E|C].
      - intros E. apply (f_equal (@length _)) in E. rewrite map_length in E. cbn in E. lia.
      - rewrite !map_length. lia.
      - exact Eroot.
      - left. symmetry. apply (map_inj leaf_c Hinj). exact E.
      - right. exact C. }
    destruct Hsame as [Ef|C].
    - subst full.
      destruct (encode_data m k parity Hk) as [Eenc [Hn [Hcat _]]]. set (data := data_shards m k) in *.
      assert (Hun : unpad (concat (encode m k parity)) = UOk m).
      { rewrite Eenc, concat_app, Hcat. apply unpad_pad_app. exact Hm. }
      rewrite Hun. destruct (local <? length (encode m k parity)) eqn:El.
      + left. repeat split; reflexivity.
      + right. left. apply Nat.ltb_ge in El. lia.
    - destruct (unpad (concat full)); [destruct (local <? length full)|exact I|]; try (right; exact C);
      right; right; exact C.
  Qed.

  (* ---------- the validator ---------- *)
  Lemma validate_reject_unchanged sc st u sender :
    snd (validate sc st u sender) <> VOk -> fst (validate sc st u sender) = st.
  Proof.
    unfold Model.validate. destruct (existsb _ _); [reflexivity|].
    destruct (validate_origin sc sender _ _); try reflexivity.
    destruct (negb (length _ =? 1)); [reflexivity|]. destruct (negb (Model.mverify _ _ _ _ _ _ _ _)); [reflexivity|].
    destruct (v_sig S_ st) as [s|]; [destruct (S_eq_dec s _)|destruct (sig_ok _ _ _)]; cbn; congruence.
  Qed.

  Lemma validate_duplicate sc st u sender :
    In (u_index D S_ u) (v_received S_ st) -> validate sc st u sender = (st, VDup).
  Proof.
    intros H. unfold Model.validate.
    assert (E : existsb (Nat.eqb (u_index D S_ u)) (v_received S_ st) = true).
    { apply existsb_exists. exists (u_index D S_ u). split; [exact H|apply Nat.eqb_refl]. }
    rewrite E. reflexivity.
  Qed.

  Lemma validate_accept_inv sc st u sender st' :
    validate sc st u sender = (st', VOk) ->
    ~ In (u_index D S_ u) (v_received S_ st) /\
    validate_origin sc sender (u_publisher D S_ u) (u_index D S_ u) = OOk /\
    (exists s, u_shards D S_ u = [s]) /\
    mverify (u_root D S_ u) (leaf_v (u_shards D S_ u)) (u_index D S_ u) (u_proof D S_ u) = true /\
    (v_sig S_ st = Some (u_sig D S_ u) \/
     (v_sig S_ st = None /\
      sig_ok (v_pub S_ st) (u_root D S_ u, u_committee D S_ u, u_nonce D S_ u) (u_sig D S_ u) = true)) /\
    st' = accept D S_ st u.
  Proof.
    unfold Model.validate. destruct (existsb _ _) eqn:Ed; [discriminate|].
    destruct (validate_origin sc sender _ _) eqn:Eo; try discriminate.
    destruct (length (u_shards D S_ u) =? 1) eqn:El; cbn [negb]; [|discriminate].
    destruct (Model.mverify _ _ _ _ _ _ _ _) eqn:Ev; cbn [negb]; [|discriminate].
    intros H. split.
    { intros Hin. assert (existsb (Nat.eqb (u_index D S_ u)) (v_received S_ st) = true); [|congruence].
      apply existsb_exists. exists (u_index D S_ u). split; [exact Hin|apply Nat.eqb_refl]. }
    split; [reflexivity|]. split.
    { apply Nat.eqb_eq in El. destruct (u_shards D S_ u) as [|s [|? ?]]; cbn in El; try lia. eauto. }
    split; [reflexivity|].
    destruct (v_sig S_ st) as [s|].
    - destruct (S_eq_dec s _) as [E|]; [|discriminate]. injection H as <-. subst s. split; [left|]; reflexivity.
    - destruct (sig_ok _ _ _) eqn:Es; [|discriminate]. injection H as <-. split; [right; split|]; reflexivity.
  Qed.

  Lemma origin_ok_spec sc sender publisher idx :
    validate_origin sc sender publisher idx = OOk <->
    sender <> s_local sc /\ publisher <> s_local sc /\
    exists e, peer_for_shard sc publisher idx = Some e /\
      ((e = s_local sc /\ sender = publisher) \/ e = sender).
  Proof.
    unfold validate_origin.
    destruct (sender =? s_local sc)%N eqn:E1; [apply N.eqb_eq in E1; split; [discriminate|intros [H _]; congruence]|].
    destruct (publisher =? s_local sc)%N eqn:E2; [apply N.eqb_eq in E2; split; [discriminate|intros [_ [H _]]; congruence]|].
    apply N.eqb_neq in E1, E2.
    destruct (peer_for_shard sc publisher idx) as [e|]; [|split; [discriminate|intros [_ [_ [e [H _]]]]; discriminate]].
    destruct ((e =? s_local sc)%N && (sender =? publisher)%N) eqn:E3.
    - apply andb_true_iff in E3. destruct E3 as [Ea Eb]. apply N.eqb_eq in Ea, Eb.
      split; [intros _; repeat split; try assumption; exists e; split; [reflexivity|left; split; assumption]|reflexivity].
    - destruct (e =? sender)%N eqn:E4.
      + apply N.eqb_eq in E4. split; [intros _; repeat split; try assumption; exists e; split; [reflexivity|right; exact E4]|reflexivity].
      + apply N.eqb_neq in E4. split; [discriminate|].
        intros [_ [_ [e' [He [[Ha Hb]|Hc]]]]]; injection He as <-.
        * apply andb_false_iff in E3. destruct E3 as [E3|E3]; apply N.eqb_neq in E3; congruence.
        * congruence.
  Qed.

  Lemma origin_ok_index sc sender publisher idx :
    validate_origin sc sender publisher idx = OOk -> idx < total_shards sc.
  Proof.
    intros H. apply origin_ok_spec in H. destruct H as [_ [_ [e [He _]]]].
    unfold peer_for_shard in He. destruct (total_shards sc <=? idx) eqn:E; [discriminate|].
    apply Nat.leb_gt in E. exact E.
  Qed.

  (* an accepted unit that claims the honest root carries the honest shard of its index *)
  Theorem validate_binds_data_lemma : forall sc st u sender st' m k parity,
    rs_parity_len -> 0 < k ->
    (forall s, leaf_v [s] = leaf_c s) -> (forall a b, leaf_c a = leaf_c b -> a = b) ->
    total_shards sc = k + parity ->
    validate sc st u sender = (st', VOk) ->
    u_root D S_ u = honest_root m k parity ->
    same_shard D D_eq_dec S_ (encode m k parity) (honest_root m k parity) u = true \/ Coll2.
  Proof.
    intros sc st u sender st' m k parity Hpl Hk Hlv Hinj Htot Hval Hroot.
    destruct (validate_accept_inv _ _ _ _ _ Hval) as [_ [Ho [[s Hs] [Hv _]]]].
    pose proof (origin_ok_index _ _ _ _ Ho) as Hidx. rewrite Htot in Hidx.
    pose proof (encode_length m k parity Hk Hpl) as Henc.
    rewrite Hroot, Hs, Hlv in Hv.
    destruct (merkle_sound_lemma D D_eq_dec leafH nodeH D0 (map leaf_c (encode m k parity)) _ _ _
                ltac:(intros E; apply (f_equal (@length _)) in E; rewrite map_length in E; cbn in E; lia) Hv)
      as [[_ Hl]|C]; [|right; exact C].
    left. rewrite map_length in Hl.
    pose proof (depth_ge (length (encode m k parity))) as Hd.
    rewrite Nat.mod_small in Hl by lia.
    rewrite (nth_indep _ [] (leaf_c [])) in Hl by (rewrite map_length; lia). rewrite map_nth in Hl.
    apply Hinj in Hl.
    unfold Model.same_shard. rewrite Hroot.
    destruct (D_eq_dec _ _); [|congruence]. cbn [andb].
    assert (El : (u_index D S_ u <? length (encode m k parity)) = true) by (apply Nat.ltb_lt; lia).
    rewrite El, Hs. cbn [andb]. destruct (list_eq_dec ascii_dec s _); [reflexivity|congruence].
  Qed.

  (* when both sides hash the same leaf, copy the nonce and signatures verify, honest units pass *)
  Theorem honest_accepted_lemma : forall sc st publisher committee nonce m k parity i sender,
    rs_parity_len -> 0 < k ->
    (forall s, leaf_v [s] = leaf_c s) -> (copy_nonce = true \/ nonce = 0%N) ->
    (forall key p, sig_ok key p (sign key p) = true) ->
    i < k + parity -> ~ In i (v_received S_ st) -> v_pub S_ st = publisher ->
    (v_sig S_ st = None \/
     v_sig S_ st = Some (sign publisher (honest_root m k parity, committee, nonce))) ->
    validate_origin sc sender publisher i = OOk ->
    forall u, nth_error (create publisher committee nonce m k parity) i = Some u ->
    validate sc st u sender = (accept D S_ st u, VOk).
  Proof.
    intros sc st publisher committee nonce m k parity i sender Hpl Hk Hlv Hnonce Hsig Hi Hnin Hpub Hvs Ho u Hu.
    pose proof (encode_length m k parity Hk Hpl) as Henc.
    rewrite create_eq in Hu. cbv zeta in Hu.
    set (enc := encode m k parity) in *.
    rewrite nth_error_map in Hu.
    assert (Hc : nth_error (combine (seq 0 (length enc)) enc) i = Some (i, nth i enc [])).
    { rewrite (nth_error_nth' _ (0, [])) by (rewrite combine_length, seq_length, Nat.min_id; lia).
      rewrite combine_nth by (rewrite seq_length; reflexivity). rewrite seq_nth by lia. reflexivity. }
    rewrite Hc in Hu. cbn in Hu. injection Hu as <-.
    unfold Model.validate. cbn [u_index u_publisher u_shards u_root u_proof u_sig u_committee u_nonce unit_of].
    assert (Ed : existsb (Nat.eqb i) (v_received S_ st) = false).
    { destruct (existsb _ _) eqn:E; [|reflexivity]. apply existsb_exists in E. destruct E as [x [Hx Ex]].
      apply Nat.eqb_eq in Ex. subst x. contradiction. }
    rewrite Ed, Ho. cbn [length Nat.eqb negb].
    rewrite Hlv.
    assert (Hmv : mverify (fst (merkle_new (map leaf_c enc))) (leaf_c (nth i enc [])) i
                    (nth i (snd (merkle_new (map leaf_c enc))) []) = true).
    { rewrite <- (map_nth leaf_c enc [] i).
      rewrite (nth_indep (map leaf_c enc) (leaf_c []) []) by (rewrite map_length; lia).
      apply merkle_complete_lemma. rewrite map_length. lia. }
    rewrite Hmv. cbn [negb].
    assert (Hn : (if copy_nonce then nonce else 0%N) = nonce) by (destruct Hnonce as [->| ->]; [reflexivity|destruct copy_nonce; reflexivity]).
    destruct Hvs as [Hv0|Hv1].
    - rewrite Hv0, Hpub, Hn, Hsig. reflexivity.
    - rewrite Hv1. destruct (S_eq_dec _ _); [reflexivity|congruence].
  Qed.

  (* when the two sides disagree on the leaf encoding, an honest unit passes only with a collision *)
  Theorem honest_rejected_lemma : forall sc st publisher committee nonce m k parity i sender st',
    rs_parity_len -> 0 < k -> (forall s, leaf_v [s] <> leaf_c s) -> i < k + parity ->
    forall u, nth_error (create publisher committee nonce m k parity) i = Some u ->
    validate sc st u sender = (st', VOk) -> Coll2.
  Proof.
    intros sc st publisher committee nonce m k parity i sender st' Hpl Hk Hne Hi u Hu Hval.
    pose proof (encode_length m k parity Hk Hpl) as Henc.
    rewrite create_eq in Hu. cbv zeta in Hu. set (enc := encode m k parity) in *.
    rewrite nth_error_map in Hu.
    assert (Hc : nth_error (combine (seq 0 (length enc)) enc) i = Some (i, nth i enc [])).
    { rewrite (nth_error_nth' _ (0, [])) by (rewrite combine_length, seq_length, Nat.min_id; lia).
      rewrite combine_nth by (rewrite seq_length; reflexivity). rewrite seq_nth by lia. reflexivity. }
    rewrite Hc in Hu. cbn in Hu. injection Hu as <-.
    destruct (validate_accept_inv _ _ _ _ _ Hval) as [_ [_ [_ [Hv _]]]].
    cbn [u_index u_shards u_root u_proof unit_of] in Hv.
    destruct (merkle_sound_lemma D D_eq_dec leafH nodeH D0 (map leaf_c enc) _ _ _
                ltac:(intros E; apply (f_equal (@length _)) in E; rewrite map_length in E; cbn in E; lia) Hv)
      as [[_ Hl]|C]; [|exact C].
    exfalso. rewrite map_length in Hl. pose proof (depth_ge (length enc)) as Hd.
    rewrite Nat.mod_small in Hl by lia.
    rewrite (nth_indep (map leaf_c enc) [] (leaf_c [])) in Hl by (rewrite map_length; lia). rewrite map_nth in Hl.
    exact (Hne _ Hl).
  Qed.
End PropellerProofs.

(* the two encodings the code uses differ on every shard *)
Lemma proto_ne_raw s : proto_shards [s] <> s.
Proof.
  intros E. apply (f_equal (@length _)) in E. unfold proto_shards in E. cbn in E.
  rewrite app_nil_r, app_length in E. unfold proto_shard in E. destruct s as [|b s]; [cbn in E; lia|].
  cbn [length] in E. rewrite app_length in E. cbn [length] in E. lia.
Qed.
