(* C19 — closed forms of the property statements (instantiated with the SHA-256 tagging scheme where a
   collision is needed). Props.v restates exactly these. *)
From Coq Require Import List NArith Bool Ascii Arith Lia.
From V Require Import C19.Model C19.Proofs_pad C19.Proofs_merkle C19.Proofs_prop.
Import ListNotations.

Theorem top_unpad_pad : forall (m : list byte) (k : N), (0 < k)%N -> go_len_ok m ->
  unpad (pad m k) = UOk m /\ (N.of_nat (length (pad m k)) mod (2 * k) = 0)%N.
Proof. intros m k Hk Hm. split; [apply unpad_pad_lemma; exact Hm|apply pad_length_divisible; exact Hk]. Qed.

Theorem top_varint_boundaries : forall x : N,
  ((x < 128)%N -> length (uvarint x) = 1) /\
  ((128 <= x < 16384)%N -> length (uvarint x) = 2) /\
  ((16384 <= x < 2097152)%N -> length (uvarint x) = 3) /\
  ((x < two64)%N -> forall rest, uv_dec (uvarint x ++ rest) 0 0 = Some (x, length (uvarint x))).
Proof.
  intros x. repeat split; [apply uvarint_len_1|apply uvarint_len_2|apply uvarint_len_3|].
  intros H rest. apply uvarint_dec. exact H.
Qed.

Theorem top_merkle_complete : forall (D : Type) (D_eq_dec : forall x y : D, {x = y} + {x <> y})
    (leafH : list byte -> D) (nodeH : D -> D -> D) (D0 : D) (leaves : list (list byte)) (i : nat),
  i < length leaves ->
  mverify D D_eq_dec leafH nodeH (fst (merkle_new D leafH nodeH D0 leaves)) (nth i leaves []) i
          (nth i (snd (merkle_new D leafH nodeH D0 leaves)) []) = true.
Proof. exact merkle_complete_lemma. Qed.

Theorem top_merkle_sound : forall (D : Type) (D_eq_dec : forall x y : D, {x = y} + {x <> y})
    (H : list byte -> D) (enc : D -> list byte) (D0 : D),
  (forall a b, enc a = enc b -> a = b) -> (forall a, length (enc a) = 32) ->
  forall (leaves : list (list byte)) (l : list byte) (i : nat) (p : list D), leaves <> [] ->
  mverify D D_eq_dec (sha_leaf D H) (sha_node D H enc)
          (fst (merkle_new D (sha_leaf D H) (sha_node D H enc) D0 leaves)) l i p = true ->
  (length p = depth (length leaves) /\ l = nth (i mod 2 ^ depth (length leaves)) leaves []) \/
  Collision D H.
Proof.
  intros D dec H enc D0 Hinj Hlen leaves l i p Hne Hv.
  destruct (merkle_sound_lemma D dec _ _ D0 leaves l i p Hne Hv) as [R|C]; [left; exact R|].
  right. exact (coll2_collision D H enc Hinj Hlen C).
Qed.

Theorem top_root_binds_leaves : forall (D : Type) (D_eq_dec : forall x y : D, {x = y} + {x <> y})
    (H : list byte -> D) (enc : D -> list byte) (D0 : D),
  (forall a b, enc a = enc b -> a = b) -> (forall a, length (enc a) = 32) ->
  forall l1 l2 : list (list byte), l1 <> [] -> length l1 = length l2 ->
  fst (merkle_new D (sha_leaf D H) (sha_node D H enc) D0 l1) =
  fst (merkle_new D (sha_leaf D H) (sha_node D H enc) D0 l2) ->
  l1 = l2 \/ Collision D H.
Proof.
  intros D dec H enc D0 Hinj Hlen l1 l2 Hne Hl Hr.
  destruct (root_inj_lemma D dec _ _ D0 l1 l2 Hne Hl Hr) as [R|C]; [left; exact R|].
  right. exact (coll2_collision D H enc Hinj Hlen C).
Qed.

(* every missing set, shard 0 included: the mask is arbitrary *)
Theorem top_reconstruct_exact : forall (D : Type) (D_eq_dec : forall x y : D, {x = y} + {x <> y})
    (leafH : list byte -> D) (nodeH : D -> D -> D) (D0 : D) (S_ : Type)
    (sign : N -> D * list byte * N -> S_)
    (rs_parity : list (list byte) -> nat -> list (list byte))
    (rs_recover : list (option (list byte)) -> nat -> nat -> option (list (list byte)))
    (leaf_c : list byte -> list byte) (copy_nonce : bool)
    (publisher : N) (committee : list byte) (nonce : N) (m : list byte) (k parity : nat)
    (mask : list bool) (local : nat),
  rs_parity_len rs_parity -> rs_mds rs_parity rs_recover (data_shards m k) parity ->
  0 < k -> go_len_ok m -> length mask = k + parity -> k <= count_true mask -> local < k + parity ->
  construct D D_eq_dec leafH nodeH D0 S_ rs_recover leaf_c
    (mask_units D S_ (create D leafH nodeH D0 S_ sign rs_parity leaf_c copy_nonce publisher committee nonce m k parity) mask)
    local k parity =
  COk D m (nth local (encode rs_parity m k parity) [])
        (nth local (snd (merkle_new D leafH nodeH D0 (map leaf_c (encode rs_parity m k parity)))) []).
Proof.
  intros D dec leafH nodeH D0 S_ sign rs_parity rs_recover leaf_c copy_nonce.
  exact (reconstruct_exact_lemma D dec leafH nodeH D0 S_ sign (fun _ _ _ => true) rs_parity rs_recover leaf_c
           (fun _ => []) copy_nonce).
Qed.

Theorem top_reconstruct_insufficient : forall (D : Type) (D_eq_dec : forall x y : D, {x = y} + {x <> y})
    (leafH : list byte -> D) (nodeH : D -> D -> D) (D0 : D) (S_ : Type)
    (sign : N -> D * list byte * N -> S_)
    (rs_parity : list (list byte) -> nat -> list (list byte))
    (rs_recover : list (option (list byte)) -> nat -> nat -> option (list (list byte)))
    (leaf_c : list byte -> list byte) (copy_nonce : bool)
    (publisher : N) (committee : list byte) (nonce : N) (m : list byte) (k parity : nat)
    (mask : list bool) (local : nat),
  rs_parity_len rs_parity -> rs_mds rs_parity rs_recover (data_shards m k) parity ->
  0 < k -> length mask = k + parity -> count_true mask < k ->
  construct D D_eq_dec leafH nodeH D0 S_ rs_recover leaf_c
    (mask_units D S_ (create D leafH nodeH D0 S_ sign rs_parity leaf_c copy_nonce publisher committee nonce m k parity) mask)
    local k parity = CErr D ERS.
Proof.
  intros D dec leafH nodeH D0 S_ sign rs_parity rs_recover leaf_c copy_nonce.
  exact (reconstruct_insufficient_lemma D dec leafH nodeH D0 S_ sign (fun _ _ _ => true) rs_parity rs_recover leaf_c
           (fun _ => []) copy_nonce).
Qed.

(* arbitrary (tampered, re-ordered, forged) units and an arbitrary decoder: under the honest root only
   the sent message is ever delivered, and the receiver does not fail on validated units *)
Theorem top_no_wrong_message : forall (D : Type) (D_eq_dec : forall x y : D, {x = y} + {x <> y})
    (H : list byte -> D) (enc : D -> list byte) (D0 : D) (S_ : Type)
    (rs_parity : list (list byte) -> nat -> list (list byte))
    (rs_recover : list (option (list byte)) -> nat -> nat -> option (list (list byte)))
    (leaf_c : list byte -> list byte),
  (forall a b, enc a = enc b -> a = b) -> (forall a, length (enc a) = 32) ->
  forall (units : list (option (unit_ D S_))) (local : nat) (m : list byte) (k parity : nat),
  rs_parity_len rs_parity -> rs_len rs_recover -> (forall a b, leaf_c a = leaf_c b -> a = b) ->
  0 < k -> go_len_ok m -> length units = k + parity ->
  first_root D D0 S_ units =
    fst (merkle_new D (sha_leaf D H) (sha_node D H enc) D0 (map leaf_c (encode rs_parity m k parity))) ->
  match construct D D_eq_dec (sha_leaf D H) (sha_node D H enc) D0 S_ rs_recover leaf_c units local k parity with
  | COk _ m' s pr =>
      (m' = m /\ s = nth local (encode rs_parity m k parity) [] /\
       pr = nth local (snd (merkle_new D (sha_leaf D H) (sha_node D H enc) D0
                                       (map leaf_c (encode rs_parity m k parity)))) []) \/ Collision D H
  | CErr _ _ => True
  | CPanic _ => (exists u, In (Some u) units /\ u_shards D S_ u = []) \/ ~ local < length units \/ Collision D H
  end.
Proof.
  intros D dec H enc D0 S_ rs_parity rs_recover leaf_c Hinj Hlen units local m k parity Hpl Hrl Hli Hk Hm Hu Hr.
  pose proof (construct_sound_lemma D dec _ _ D0 S_ rs_parity rs_recover leaf_c (fun _ => []) units local m k parity
                Hpl Hrl Hli Hk Hm Hu Hr) as Hc.
  destruct (construct _ _ _ _ _ _ _ _ _ _ _ _) as [m' s pr| |].
  - destruct Hc as [R|C]; [left; exact R|right; exact (coll2_collision D H enc Hinj Hlen C)].
  - exact I.
  - destruct Hc as [R|[R|C]]; [left; exact R|right; left; exact R|
      right; right; exact (coll2_collision D H enc Hinj Hlen C)].
Qed.

(* a unit with any mismatching field is rejected, or it is byte-for-byte the honest shard of its index *)
Theorem top_reject_mismatch : forall (D : Type) (D_eq_dec : forall x y : D, {x = y} + {x <> y})
    (H : list byte -> D) (enc : D -> list byte) (D0 : D) (S_ : Type)
    (S_eq_dec : forall x y : S_, {x = y} + {x <> y})
    (sig_ok : N -> D * list byte * N -> S_ -> bool)
    (rs_parity : list (list byte) -> nat -> list (list byte))
    (leaf_c : list byte -> list byte) (leaf_v : list (list byte) -> list byte),
  (forall a b, enc a = enc b -> a = b) -> (forall a, length (enc a) = 32) ->
  forall (sc : sched) (st : vstate S_) (u : unit_ D S_) (sender : N) (m : list byte) (k parity : nat),
  rs_parity_len rs_parity -> 0 < k ->
  (forall s, leaf_v [s] = leaf_c s) -> (forall a b, leaf_c a = leaf_c b -> a = b) ->
  total_shards sc = k + parity ->
  u_root D S_ u =
    fst (merkle_new D (sha_leaf D H) (sha_node D H enc) D0 (map leaf_c (encode rs_parity m k parity))) ->
  let r := validate D D_eq_dec (sha_leaf D H) (sha_node D H enc) S_ S_eq_dec sig_ok leaf_v sc st u sender in
  (snd r <> VOk /\ fst r = st) \/
  (snd r = VOk /\
   (same_shard D D_eq_dec S_ (encode rs_parity m k parity)
      (fst (merkle_new D (sha_leaf D H) (sha_node D H enc) D0 (map leaf_c (encode rs_parity m k parity)))) u = true
    \/ Collision D H)).
Proof.
  intros D dec H enc D0 S_ sdec sig_ok rs_parity leaf_c leaf_v Hinj Hlen sc st u sender m k parity
         Hpl Hk Hlv Hli Htot Hroot r.
  destruct (snd r) eqn:Er.
  - right. split; [reflexivity|].
    assert (Hv : r = (fst r, VOk)) by (rewrite <- Er; apply surjective_pairing).
    destruct (validate_binds_data_lemma D dec _ _ D0 S_ sdec (fun _ _ => u_sig D S_ u) sig_ok rs_parity (fun _ _ _ => None) leaf_c leaf_v sc st u sender (fst r)
                m k parity Hpl Hk Hlv Hli Htot Hv Hroot) as [R|C]; [left; exact R|].
    right. exact (coll2_collision D H enc Hinj Hlen C).
  - left. split; [discriminate|]. apply validate_reject_unchanged. fold r. rewrite Er. discriminate.
  - left. split; [discriminate|]. apply validate_reject_unchanged. fold r. rewrite Er. discriminate.
  - left. split; [discriminate|]. apply validate_reject_unchanged. fold r. rewrite Er. discriminate.
  - left. split; [discriminate|]. apply validate_reject_unchanged. fold r. rewrite Er. discriminate.
  - left. split; [discriminate|]. apply validate_reject_unchanged. fold r. rewrite Er. discriminate.
  - left. split; [discriminate|]. apply validate_reject_unchanged. fold r. rewrite Er. discriminate.
Qed.

(* the order and content of the validator's checks *)
Theorem top_validate_checks : forall (D : Type) (D_eq_dec : forall x y : D, {x = y} + {x <> y})
    (leafH : list byte -> D) (nodeH : D -> D -> D) (S_ : Type)
    (S_eq_dec : forall x y : S_, {x = y} + {x <> y})
    (sig_ok : N -> D * list byte * N -> S_ -> bool) (leaf_v : list (list byte) -> list byte)
    (sc : sched) (st : vstate S_) (u : unit_ D S_) (sender : N),
  (In (u_index D S_ u) (v_received S_ st) ->
     validate D D_eq_dec leafH nodeH S_ S_eq_dec sig_ok leaf_v sc st u sender = (st, VDup)) /\
  (forall st', validate D D_eq_dec leafH nodeH S_ S_eq_dec sig_ok leaf_v sc st u sender = (st', VOk) ->
     ~ In (u_index D S_ u) (v_received S_ st) /\
     validate_origin sc sender (u_publisher D S_ u) (u_index D S_ u) = OOk /\
     (exists s, u_shards D S_ u = [s]) /\
     mverify D D_eq_dec leafH nodeH (u_root D S_ u) (leaf_v (u_shards D S_ u)) (u_index D S_ u) (u_proof D S_ u) = true /\
     (v_sig S_ st = Some (u_sig D S_ u) \/
      (v_sig S_ st = None /\
       sig_ok (v_pub S_ st) (u_root D S_ u, u_committee D S_ u, u_nonce D S_ u) (u_sig D S_ u) = true)) /\
     st' = accept D S_ st u).
Proof.
  intros. split; [apply validate_duplicate|].
  intros st' Hv.
  exact (validate_accept_inv D D_eq_dec leafH nodeH S_ S_eq_dec (fun _ _ => u_sig D S_ u) sig_ok (fun _ _ => [])
           (fun s => s) leaf_v sc st u sender st' Hv).
Qed.

Theorem top_origin_spec : forall (sc : sched) (sender publisher : N) (idx : nat),
  validate_origin sc sender publisher idx = OOk <->
  sender <> s_local sc /\ publisher <> s_local sc /\
  exists e, peer_for_shard sc publisher idx = Some e /\
    ((e = s_local sc /\ sender = publisher) \/ e = sender).
Proof. exact origin_ok_spec. Qed.

(* needed hypothesis: both sides hash the same leaf. The nonce travels with the unit in the code as it
   is (code_copy_nonce = true); Example nonce_copy_needed shows what happens without the copy. *)
Theorem top_honest_accepted : forall (D : Type) (D_eq_dec : forall x y : D, {x = y} + {x <> y})
    (leafH : list byte -> D) (nodeH : D -> D -> D) (D0 : D) (S_ : Type)
    (S_eq_dec : forall x y : S_, {x = y} + {x <> y})
    (sign : N -> D * list byte * N -> S_) (sig_ok : N -> D * list byte * N -> S_ -> bool)
    (rs_parity : list (list byte) -> nat -> list (list byte))
    (leaf_c : list byte -> list byte) (leaf_v : list (list byte) -> list byte)
    (sc : sched) (st : vstate S_) (publisher : N) (committee : list byte) (nonce : N) (m : list byte)
    (k parity i : nat) (sender : N),
  rs_parity_len rs_parity -> 0 < k ->
  (forall s, leaf_v [s] = leaf_c s) ->
  (forall key p, sig_ok key p (sign key p) = true) ->
  i < k + parity -> ~ In i (v_received S_ st) -> v_pub S_ st = publisher ->
  (v_sig S_ st = None \/
   v_sig S_ st = Some (sign publisher (fst (merkle_new D leafH nodeH D0 (map leaf_c (encode rs_parity m k parity))),
                                       committee, nonce))) ->
  validate_origin sc sender publisher i = OOk ->
  forall u, nth_error (create D leafH nodeH D0 S_ sign rs_parity leaf_c code_copy_nonce publisher committee nonce m k parity) i = Some u ->
  validate D D_eq_dec leafH nodeH S_ S_eq_dec sig_ok leaf_v sc st u sender = (accept D S_ st u, VOk).
Proof.
  intros D dec leafH nodeH D0 S_ sdec sign sig_ok rs_parity leaf_c leaf_v sc st publisher committee nonce m k parity
         i sender Hpl Hk Hlv Hsig.
  exact (honest_accepted_lemma D dec leafH nodeH D0 S_ sdec sign sig_ok rs_parity (fun _ _ _ => None) leaf_c leaf_v
           code_copy_nonce sc st publisher committee nonce m k parity i sender Hpl Hk Hlv (or_introl eq_refl) Hsig).
Qed.

(* the code as it is: creation hashes the raw shard, the validator the protobuf-marshalled shard, so a
   unit made by CreatePropellerUnits passes Validate only by exhibiting a SHA-256 collision *)
Theorem top_code_rejects_honest_units : forall (D : Type) (D_eq_dec : forall x y : D, {x = y} + {x <> y})
    (H : list byte -> D) (enc : D -> list byte) (D0 : D) (S_ : Type)
    (S_eq_dec : forall x y : S_, {x = y} + {x <> y})
    (sign : N -> D * list byte * N -> S_) (sig_ok : N -> D * list byte * N -> S_ -> bool)
    (rs_parity : list (list byte) -> nat -> list (list byte)),
  (forall a b, enc a = enc b -> a = b) -> (forall a, length (enc a) = 32) ->
  forall (sc : sched) (st st' : vstate S_) (publisher : N) (committee : list byte) (nonce : N) (m : list byte)
         (k parity i : nat) (sender : N),
  rs_parity_len rs_parity -> 0 < k -> i < k + parity ->
  forall u, nth_error (create D (sha_leaf D H) (sha_node D H enc) D0 S_ sign rs_parity (fun s => s) code_copy_nonce
                              publisher committee nonce m k parity) i = Some u ->
  validate D D_eq_dec (sha_leaf D H) (sha_node D H enc) S_ S_eq_dec sig_ok proto_shards sc st u sender = (st', VOk) ->
  Collision D H.
Proof.
  intros D dec H enc D0 S_ sdec sign sig_ok rs_parity Hinj Hlen sc st st' publisher committee nonce m
         k parity i sender Hpl Hk Hi u Hu Hv.
  apply (coll2_collision D H enc Hinj Hlen).
  exact (honest_rejected_lemma D dec _ _ D0 S_ sdec sign sig_ok rs_parity (fun _ _ _ => None) (fun s => s) proto_shards code_copy_nonce
           sc st publisher committee nonce m k parity i sender st' Hpl Hk proto_ne_raw Hi u Hu Hv).
Qed.

(* ---------- the hypotheses are satisfiable: the ideal decoder of a fixed codeword is MDS for it ---------- *)
Lemma present_count {A} : forall (l : list A) mask, length mask = length l ->
  length (filter (fun o => match o with Some _ => true | None => false end) (mask_list l mask)) = count_true mask.
Proof.
  induction l as [|x l IH]; intros [|b mask] H; cbn in H; try discriminate; [reflexivity|].
  cbn [mask_list]. rewrite count_true_cons. destruct b; cbn; rewrite IH by lia; reflexivity.
Qed.

Lemma ideal_recover_mds : forall (rs_parity : list (list byte) -> nat -> list (list byte)) data par,
  rs_mds rs_parity (ideal_recover (data ++ rs_parity data par)) data par.
Proof.
  intros rs_parity data par mask Hl. unfold ideal_recover.
  rewrite present_count by exact Hl. rewrite mask_list_length, Nat.eqb_refl. cbn [negb]. rewrite orb_false_r.
  split; intros H.
  - assert (E : (count_true mask <? length data) = false) by (apply Nat.ltb_ge; exact H). rewrite E. reflexivity.
  - assert (E : (count_true mask <? length data) = true) by (apply Nat.ltb_lt; exact H). rewrite E. reflexivity.
Qed.

Lemma ideal_recover_len : forall full, rs_len (ideal_recover full).
Proof.
  intros full sh k p out H. unfold ideal_recover in H.
  destruct (_ <? k); [discriminate|]. cbn [orb] in H.
  destruct (length sh =? length full) eqn:E; [|discriminate]. cbn in H. injection H as <-.
  apply Nat.eqb_eq in E. symmetry. exact E.
Qed.
