(* C19 - UnitFromProto never fails and only lets well-formed units through. *)
From Coq Require Import List NArith Bool Ascii Arith Lia.
From V Require Import C19.Model.
Import ListNotations.

Lemma into32_length : forall s, length (into32 s) = 32.
Proof.
  intros s. unfold into32. rewrite firstn_length, app_length, repeat_length. lia.
Qed.

Lemma all_len_into32 : forall l, all_len 32 (map into32 l) = true.
Proof.
  induction l as [|s l IH]; simpl; [reflexivity|].
  rewrite into32_length. simpl. exact IH.
Qed.

Lemma from_proto_wf : forall w, wire_wf (from_proto w) = true.
Proof.
  intros w. unfold from_proto. destruct (w_shards w) as [|s0 rest] eqn:E; [reflexivity|].
  destruct (all_len (length s0) rest) eqn:A; simpl; [|reflexivity].
  destruct (length (w_root w) =? 32) eqn:R; simpl; [|reflexivity].
  rewrite A, R, all_len_into32. reflexivity.
Qed.

Lemma from_proto_never_panics : forall w, from_proto w <> WPanic.
Proof.
  intros w H. pose proof (from_proto_wf w) as W. rewrite H in W. discriminate.
Qed.

Lemma all_len_spec : forall n l, all_len n l = true <-> (forall s, In s l -> length s = n).
Proof.
  intros n l. unfold all_len. rewrite forallb_forall. split; intros H s Hs.
  - apply Nat.eqb_eq. apply H. exact Hs.
  - apply Nat.eqb_eq. apply H. exact Hs.
Qed.

Lemma from_proto_accepts_wellformed : forall w sh root sib,
  from_proto w = WOk sh root sib ->
  sh = w_shards w /\ root = w_root w /\ sh <> [] /\
  (forall s, In s sh -> length s = length (hd [] sh)) /\ length root = 32 /\
  (forall s, In s sib -> length s = 32).
Proof.
  intros w sh root sib H. pose proof (from_proto_wf w) as W. unfold from_proto in H.
  destruct (w_shards w) as [|s0 rest] eqn:E; [discriminate|].
  destruct (all_len (length s0) rest) eqn:A; simpl in H; [|discriminate].
  destruct (length (w_root w) =? 32) eqn:R; simpl in H; [|discriminate].
  inversion H; subst. repeat split.
  - discriminate.
  - intros s [Hs|Hs]; [subst; reflexivity|]. simpl. apply (proj1 (all_len_spec _ _) A). exact Hs.
  - apply Nat.eqb_eq. exact R.
  - apply (proj1 (all_len_spec 32 _) (all_len_into32 _)).
Qed.

(* every well-formed wire unit is accepted unchanged (siblings copied into 32-byte arrays) *)
Lemma from_proto_complete : forall w s0 rest,
  w_shards w = s0 :: rest -> (forall s, In s rest -> length s = length s0) -> length (w_root w) = 32 ->
  from_proto w = WOk (w_shards w) (w_root w) (map into32 (w_siblings w)).
Proof.
  intros w s0 rest E Hl Hr. unfold from_proto. rewrite E.
  rewrite (proj2 (all_len_spec _ _) Hl). simpl. rewrite Hr. reflexivity.
Qed.
