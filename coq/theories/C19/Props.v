(* C19 — property theorems only. Each is closed by [exact] of the identically stated lemma of
   Proofs_top.v and followed by Print Assumptions; Examples show that the hypotheses are satisfiable and
   give the concrete witnesses for what the code as it is does NOT satisfy. *)
From Coq Require Import List NArith Bool Ascii Arith Lia.
From V Require Import C19.Model C19.Proofs_pad C19.Proofs_merkle C19.Proofs_prop C19.Proofs_top C19.Proofs_wire.
Import ListNotations.


Theorem C19_unpad_pad : forall (m : list byte) (k : N), (0 < k)%N -> go_len_ok m ->
  unpad (pad m k) = UOk m /\ (N.of_nat (length (pad m k)) mod (2 * k) = 0)%N.
Proof. exact top_unpad_pad. Qed.
Print Assumptions C19_unpad_pad.


Theorem C19_varint_boundaries : forall x : N,
  ((x < 128)%N -> length (uvarint x) = 1) /\
  ((128 <= x < 16384)%N -> length (uvarint x) = 2) /\
  ((16384 <= x < 2097152)%N -> length (uvarint x) = 3) /\
  ((x < two64)%N -> forall rest, uv_dec (uvarint x ++ rest) 0 0 = Some (x, length (uvarint x))).
Proof. exact top_varint_boundaries. Qed.
Print Assumptions C19_varint_boundaries.


Theorem C19_merkle_complete : forall (D : Type) (D_eq_dec : forall x y : D, {x = y} + {x <> y})
    (leafH : list byte -> D) (nodeH : D -> D -> D) (D0 : D) (leaves : list (list byte)) (i : nat),
  i < length leaves ->
  mverify D D_eq_dec leafH nodeH (fst (merkle_new D leafH nodeH D0 leaves)) (nth i leaves []) i
          (nth i (snd (merkle_new D leafH nodeH D0 leaves)) []) = true.
Proof. exact top_merkle_complete. Qed.
Print Assumptions C19_merkle_complete.


Theorem C19_merkle_sound : forall (D : Type) (D_eq_dec : forall x y : D, {x = y} + {x <> y})
    (H : list byte -> D) (enc : D -> list byte) (D0 : D),
  (forall a b, enc a = enc b -> a = b) -> (forall a, length (enc a) = 32) ->
  forall (leaves : list (list byte)) (l : list byte) (i : nat) (p : list D), leaves <> [] ->
  mverify D D_eq_dec (sha_leaf D H) (sha_node D H enc)
          (fst (merkle_new D (sha_leaf D H) (sha_node D H enc) D0 leaves)) l i p = true ->
  (length p = depth (length leaves) /\ l = nth (i mod 2 ^ depth (length leaves)) leaves []) \/
  Collision D H.
Proof. exact top_merkle_sound. Qed.
Print Assumptions C19_merkle_sound.


Theorem C19_root_binds_leaves : forall (D : Type) (D_eq_dec : forall x y : D, {x = y} + {x <> y})
    (H : list byte -> D) (enc : D -> list byte) (D0 : D),
  (forall a b, enc a = enc b -> a = b) -> (forall a, length (enc a) = 32) ->
  forall l1 l2 : list (list byte), l1 <> [] -> length l1 = length l2 ->
  fst (merkle_new D (sha_leaf D H) (sha_node D H enc) D0 l1) =
  fst (merkle_new D (sha_leaf D H) (sha_node D H enc) D0 l2) ->
  l1 = l2 \/ Collision D H.
Proof. exact top_root_binds_leaves. Qed.
Print Assumptions C19_root_binds_leaves.

(* every missing set, shard 0 included: the mask is arbitrary *)
Theorem C19_reconstruct_exact : forall (D : Type) (D_eq_dec : forall x y : D, {x = y} + {x <> y})
    (leafH : list byte -> D) (nodeH : D -> D -> D) (D0 : D) (S_ : Type)
    (sign : N -> D * list byte * N -> S_)
    (rs_parity : list (list byte) -> nat -> list (list byte))
    (rs_recover : list (option (list byte)) -> nat -> nat -> option (list (list byte)))
    (leaf_c : list byte -> list byte) (copy_nonce : bool)
    (publisher : N) (committee : list byte) (nonce : N) (m : list byte) (k parity : nat)
    (mask : list bool) (local : nat),
  rs_parity_len rs_parity -> rs_mds rs_parity rs_recover (data_shards m k) parity ->
  0 < k -> go_len_ok m -> length mask = k + parity -> k <= count_true mask -> local < k + parity ->
  construct D D_eq_dec leafH nodeH D0 S_ rs_recover leaf_c
    (mask_units D S_ (create D leafH nodeH D0 S_ sign rs_parity leaf_c copy_nonce publisher committee nonce m k parity) mask)
    local k parity =
  COk D m (nth local (encode rs_parity m k parity) [])
        (nth local (snd (merkle_new D leafH nodeH D0 (map leaf_c (encode rs_parity m k parity)))) []).
Proof. exact top_reconstruct_exact. Qed.
Print Assumptions C19_reconstruct_exact.


Theorem C19_reconstruct_insufficient : forall (D : Type) (D_eq_dec : forall x y : D, {x = y} + {x <> y})
    (leafH : list byte -> D) (nodeH : D -> D -> D) (D0 : D) (S_ : Type)
    (sign : N -> D * list byte * N -> S_)
    (rs_parity : list (list byte) -> nat -> list (list byte))
    (rs_recover : list (option (list byte)) -> nat -> nat -> option (list (list byte)))
    (leaf_c : list byte -> list byte) (copy_nonce : bool)
    (publisher : N) (committee : list byte) (nonce : N) (m : list byte) (k parity : nat)
    (mask : list bool) (local : nat),
  rs_parity_len rs_parity -> rs_mds rs_parity rs_recover (data_shards m k) parity ->
  0 < k -> length mask = k + parity -> count_true mask < k ->
  construct D D_eq_dec leafH nodeH D0 S_ rs_recover leaf_c
    (mask_units D S_ (create D leafH nodeH D0 S_ sign rs_parity leaf_c copy_nonce publisher committee nonce m k parity) mask)
    local k parity = CErr D ERS.
Proof. exact top_reconstruct_insufficient. Qed.
Print Assumptions C19_reconstruct_insufficient.

(* arbitrary (tampered, re-ordered, forged) units and an arbitrary decoder: under the honest root only
   the sent message is ever delivered, and the receiver does not fail on validated units *)
Theorem C19_no_wrong_message : forall (D : Type) (D_eq_dec : forall x y : D, {x = y} + {x <> y})
    (H : list byte -> D) (enc : D -> list byte) (D0 : D) (S_ : Type)
    (rs_parity : list (list byte) -> nat -> list (list byte))
    (rs_recover : list (option (list byte)) -> nat -> nat -> option (list (list byte)))
    (leaf_c : list byte -> list byte),
  (forall a b, enc a = enc b -> a = b) -> (forall a, length (enc a) = 32) ->
  forall (units : list (option (unit_ D S_))) (local : nat) (m : list byte) (k parity : nat),
  rs_parity_len rs_parity -> rs_len rs_recover -> (forall a b, leaf_c a = leaf_c b -> a = b) ->
  0 < k -> go_len_ok m -> length units = k + parity ->
  first_root D D0 S_ units =
    fst (merkle_new D (sha_leaf D H) (sha_node D H enc) D0 (map leaf_c (encode rs_parity m k parity))) ->
  match construct D D_eq_dec (sha_leaf D H) (sha_node D H enc) D0 S_ rs_recover leaf_c units local k parity with
  | COk _ m' s pr =>
      (m' = m /\ s = nth local (encode rs_parity m k parity) [] /\
       pr = nth local (snd (merkle_new D (sha_leaf D H) (sha_node D H enc) D0
                                       (map leaf_c (encode rs_parity m k parity)))) []) \/ Collision D H
  | CErr _ _ => True
  | CPanic _ => (exists u, In (Some u) units /\ u_shards D S_ u = []) \/ ~ local < length units \/ Collision D H
  end.
Proof. exact top_no_wrong_message. Qed.
Print Assumptions C19_no_wrong_message.

(* a unit with any mismatching field is rejected, or it is byte-for-byte the honest shard of its index *)
Theorem C19_reject_mismatch : forall (D : Type) (D_eq_dec : forall x y : D, {x = y} + {x <> y})
    (H : list byte -> D) (enc : D -> list byte) (D0 : D) (S_ : Type)
    (S_eq_dec : forall x y : S_, {x = y} + {x <> y})
    (sig_ok : N -> D * list byte * N -> S_ -> bool)
    (rs_parity : list (list byte) -> nat -> list (list byte))
    (leaf_c : list byte -> list byte) (leaf_v : list (list byte) -> list byte),
  (forall a b, enc a = enc b -> a = b) -> (forall a, length (enc a) = 32) ->
  forall (sc : sched) (st : vstate S_) (u : unit_ D S_) (sender : N) (m : list byte) (k parity : nat),
  rs_parity_len rs_parity -> 0 < k ->
  (forall s, leaf_v [s] = leaf_c s) -> (forall a b, leaf_c a = leaf_c b -> a = b) ->
  total_shards sc = k + parity ->
  u_root D S_ u =
    fst (merkle_new D (sha_leaf D H) (sha_node D H enc) D0 (map leaf_c (encode rs_parity m k parity))) ->
  let r := validate D D_eq_dec (sha_leaf D H) (sha_node D H enc) S_ S_eq_dec sig_ok leaf_v sc st u sender in
  (snd r <> VOk /\ fst r = st) \/
  (snd r = VOk /\
   (same_shard D D_eq_dec S_ (encode rs_parity m k parity)
      (fst (merkle_new D (sha_leaf D H) (sha_node D H enc) D0 (map leaf_c (encode rs_parity m k parity)))) u = true
    \/ Collision D H)).
Proof. exact top_reject_mismatch. Qed.
Print Assumptions C19_reject_mismatch.

(* the order and content of the validator's checks *)
Theorem C19_validate_checks : forall (D : Type) (D_eq_dec : forall x y : D, {x = y} + {x <> y})
    (leafH : list byte -> D) (nodeH : D -> D -> D) (S_ : Type)
    (S_eq_dec : forall x y : S_, {x = y} + {x <> y})
    (sig_ok : N -> D * list byte * N -> S_ -> bool) (leaf_v : list (list byte) -> list byte)
    (sc : sched) (st : vstate S_) (u : unit_ D S_) (sender : N),
  (In (u_index D S_ u) (v_received S_ st) ->
     validate D D_eq_dec leafH nodeH S_ S_eq_dec sig_ok leaf_v sc st u sender = (st, VDup)) /\
  (forall st', validate D D_eq_dec leafH nodeH S_ S_eq_dec sig_ok leaf_v sc st u sender = (st', VOk) ->
     ~ In (u_index D S_ u) (v_received S_ st) /\
     validate_origin sc sender (u_publisher D S_ u) (u_index D S_ u) = OOk /\
     (exists s, u_shards D S_ u = [s]) /\
     mverify D D_eq_dec leafH nodeH (u_root D S_ u) (leaf_v (u_shards D S_ u)) (u_index D S_ u) (u_proof D S_ u) = true /\
     (v_sig S_ st = Some (u_sig D S_ u) \/
      (v_sig S_ st = None /\
       sig_ok (v_pub S_ st) (u_root D S_ u, u_committee D S_ u, u_nonce D S_ u) (u_sig D S_ u) = true)) /\
     st' = accept D S_ st u).
Proof. exact top_validate_checks. Qed.
Print Assumptions C19_validate_checks.


Theorem C19_origin_spec : forall (sc : sched) (sender publisher : N) (idx : nat),
  validate_origin sc sender publisher idx = OOk <->
  sender <> s_local sc /\ publisher <> s_local sc /\
  exists e, peer_for_shard sc publisher idx = Some e /\
    ((e = s_local sc /\ sender = publisher) \/ e = sender).
Proof. exact top_origin_spec. Qed.
Print Assumptions C19_origin_spec.

(* needed hypothesis: both sides hash the same leaf. The nonce travels with the unit in the code as it
   is (code_copy_nonce = true); Example nonce_copy_needed shows what happens without the copy. *)
Theorem C19_honest_accepted : forall (D : Type) (D_eq_dec : forall x y : D, {x = y} + {x <> y})
    (leafH : list byte -> D) (nodeH : D -> D -> D) (D0 : D) (S_ : Type)
    (S_eq_dec : forall x y : S_, {x = y} + {x <> y})
    (sign : N -> D * list byte * N -> S_) (sig_ok : N -> D * list byte * N -> S_ -> bool)
    (rs_parity : list (list byte) -> nat -> list (list byte))
    (leaf_c : list byte -> list byte) (leaf_v : list (list byte) -> list byte)
    (sc : sched) (st : vstate S_) (publisher : N) (committee : list byte) (nonce : N) (m : list byte)
    (k parity i : nat) (sender : N),
  rs_parity_len rs_parity -> 0 < k ->
  (forall s, leaf_v [s] = leaf_c s) ->
  (forall key p, sig_ok key p (sign key p) = true) ->
  i < k + parity -> ~ In i (v_received S_ st) -> v_pub S_ st = publisher ->
  (v_sig S_ st = None \/
   v_sig S_ st = Some (sign publisher (fst (merkle_new D leafH nodeH D0 (map leaf_c (encode rs_parity m k parity))),
                                       committee, nonce))) ->
  validate_origin sc sender publisher i = OOk ->
  forall u, nth_error (create D leafH nodeH D0 S_ sign rs_parity leaf_c code_copy_nonce publisher committee nonce m k parity) i = Some u ->
  validate D D_eq_dec leafH nodeH S_ S_eq_dec sig_ok leaf_v sc st u sender = (accept D S_ st u, VOk).
Proof. exact top_honest_accepted. Qed.
Print Assumptions C19_honest_accepted.

(* the code as it is: creation hashes the raw shard, the validator the protobuf-marshalled shard, so a
   unit made by CreatePropellerUnits passes Validate only by exhibiting a SHA-256 collision *)
Theorem C19_code_rejects_honest_units : forall (D : Type) (D_eq_dec : forall x y : D, {x = y} + {x <> y})
    (H : list byte -> D) (enc : D -> list byte) (D0 : D) (S_ : Type)
    (S_eq_dec : forall x y : S_, {x = y} + {x <> y})
    (sign : N -> D * list byte * N -> S_) (sig_ok : N -> D * list byte * N -> S_ -> bool)
    (rs_parity : list (list byte) -> nat -> list (list byte)),
  (forall a b, enc a = enc b -> a = b) -> (forall a, length (enc a) = 32) ->
  forall (sc : sched) (st st' : vstate S_) (publisher : N) (committee : list byte) (nonce : N) (m : list byte)
         (k parity i : nat) (sender : N),
  rs_parity_len rs_parity -> 0 < k -> i < k + parity ->
  forall u, nth_error (create D (sha_leaf D H) (sha_node D H enc) D0 S_ sign rs_parity (fun s => s) code_copy_nonce
                              publisher committee nonce m k parity) i = Some u ->
  validate D D_eq_dec (sha_leaf D H) (sha_node D H enc) S_ S_eq_dec sig_ok proto_shards sc st u sender = (st', VOk) ->
  Collision D H.
Proof. exact top_code_rejects_honest_units. Qed.
Print Assumptions C19_code_rejects_honest_units.

(* ====================== non-vacuity and witnesses (free hash algebra, ideal signatures) ====================== *)
Definition rp (data : list (list byte)) (par : nat) : list (list byte) := repeat (hd [] data) par.
Definition msg5 : list byte := [B 1; B 2; B 3; B 4; B 5].
Definition raw (s : list byte) : list byte := s.

(* the Reed-Solomon hypotheses are satisfiable (ideal decoder of the codeword), k = 2, parity = 2 *)
Example rs_hypotheses_satisfiable :
  rs_parity_len rp /\ rs_mds rp (ideal_recover (encode rp msg5 2 2)) (data_shards msg5 2) 2 /\
  rs_len (ideal_recover (encode rp msg5 2 2)).
Proof.
  split; [intros d p; apply repeat_length|]. split; [|apply ideal_recover_len].
  change (encode rp msg5 2 2) with (data_shards msg5 2 ++ rp (data_shards msg5 2) 2). apply ideal_recover_mds.
Qed.

(* shards 0 and 2 missing (shard 0 is the case that used to crash): exact message, local shard 1 *)
Example reconstruct_exact_instance :
  construct term term_eq_dec TL TN (TC []) sigt (ideal_recover (encode rp msg5 2 2)) raw
    (mask_units term sigt (create term TL TN (TC []) sigt t_sign rp raw code_copy_nonce 2 [B 9] 7 msg5 2 2)
                [false; true; false; true]) 1 2 2
  = COk term msg5 (nth 1 (encode rp msg5 2 2) [])
        (nth 1 (snd (merkle_new term TL TN (TC []) (map raw (encode rp msg5 2 2)))) []).
Proof. vm_compute. reflexivity. Qed.

Example pad_instance : pad msg5 2 = [B 5; B 1; B 2; B 3; B 4; B 5; B 0; B 0] /\ unpad (pad msg5 2) = UOk msg5.
Proof. vm_compute. split; reflexivity. Qed.

(* merkle: n = 1 (padded to 2 with the empty leaf), n = 3 (padded to 4), every index verifies *)
Example merkle_n1 :
  merkle_new term TL TN (TC []) [[B 7]] = (TN (TL [B 7]) (TL []), [[TL []]]).
Proof. vm_compute. reflexivity. Qed.
Example merkle_n3_all_verify :
  let leaves := [[B 1]; [B 2]; []] in
  let '(r, ps) := merkle_new term TL TN (TC []) leaves in
  forallb (fun i => mverify term term_eq_dec TL TN r (nth i leaves []) i (nth i ps [])) [0; 1; 2] = true /\
  mverify term term_eq_dec TL TN r [B 9] 1 (nth 1 ps []) = false /\
  mverify term term_eq_dec TL TN r [B 2] 5 (nth 1 ps []) = true.   (* only index mod 2^depth matters *)
Proof. vm_compute. repeat split; reflexivity. Qed.

(* the receiver-side hazard of UnpadMessage: a ten-byte varint announcing 2^64-1 *)
Example unpad_overflow_panics : unpad (uvarint (two64 - 1) ++ [zero_byte; zero_byte]) = UPanic.
Proof. exact unpad_panic_witness. Qed.

(* committee of four (peers 1..4), local peer 1, publisher 2: k = 1, parity = 2; shard 0 is sent to the
   local peer by the publisher itself *)
Definition sc4 : sched := match new_sched 1 [3; 1; 4; 2]%N with Some s => s | None => mkSched 0 0 [] 0 0 end.
Example sc4_shape : s_k sc4 = 1 /\ s_par sc4 = 2 /\ validate_origin sc4 2 2 0 = OOk /\
  validate_origin sc4 3 2 1 = OOk /\ validate_origin sc4 4 2 1 = OUnexpected.
Proof. vm_compute. repeat split; reflexivity. Qed.

Definition unit0 (leaf_c : list byte -> list byte) (copy : bool) (nonce : N) : unit_ term sigt :=
  nth 0 (create term TL TN (TC []) sigt t_sign rp leaf_c copy 2 [B 9] nonce msg5 1 2)
        (mkUnit term sigt [] 0 (TC []) [] (SJunk 0) 0 [] 0).

(* C19_honest_accepted fails for the code as it is: a unit made by creation (nonce 7, carried by the
   unit) is rejected at the Merkle step (raw leaf at creation, protobuf leaf at validation) ... *)
Example honest_unit_accepted_refuted :
  snd (validate term term_eq_dec TL TN sigt sigt_eq_dec t_sig_ok proto_shards sc4 (v_init sigt 2)
         (unit0 raw code_copy_nonce 7) 2) = VMerkle.
Proof. vm_compute. reflexivity. Qed.

(* ... with one leaf encoding on both sides it is accepted *)
Example consistent_leaf_accepted :
  snd (validate term term_eq_dec TL TN sigt sigt_eq_dec t_sig_ok proto_shards sc4 (v_init sigt 2)
         (unit0 (fun s => proto_shards [s]) code_copy_nonce 7) 2) = VOk.
Proof. vm_compute. reflexivity. Qed.

(* why creation must copy the nonce into the unit (it does since 5be9250; before, creation signed
   nonce 7 but left Unit.Nonce = 0): without the copy the signature check fails for every nonce <> 0 *)
Lemma nonce_copy_needed :
  snd (validate term term_eq_dec TL TN sigt sigt_eq_dec t_sig_ok proto_shards sc4 (v_init sigt 2)
         (unit0 (fun s => proto_shards [s]) false 7) 2) = VSig /\
  snd (validate term term_eq_dec TL TN sigt sigt_eq_dec t_sig_ok proto_shards sc4 (v_init sigt 2)
         (unit0 (fun s => proto_shards [s]) true 7) 2) = VOk /\
  snd (validate term term_eq_dec TL TN sigt sigt_eq_dec t_sig_ok proto_shards sc4 (v_init sigt 2)
         (unit0 (fun s => proto_shards [s]) false 0) 2) = VOk.
Proof. vm_compute. repeat split; reflexivity. Qed.

(* ---------- the wire: UnitFromProto (session 3) ---------- *)
(* "A unit whose shard data, proof, index ... does not match is rejected and cannot cause ... the receiver to
   fail": whatever protobuf message arrives, decoding it either refuses it or yields a unit with at least one
   shard, shards of one length, a 32-byte root and 32-byte siblings - never a run-time panic. *)
Theorem C19_wire_never_fails : forall w, from_proto w <> WPanic /\ wire_wf (from_proto w) = true.
Proof. intro w. split; [exact (from_proto_never_panics w)|exact (from_proto_wf w)]. Qed.
Print Assumptions C19_wire_never_fails.

Theorem C19_wire_accepts_only_wellformed : forall w sh root sib,
  from_proto w = WOk sh root sib ->
  sh = w_shards w /\ root = w_root w /\ sh <> [] /\
  (forall s, In s sh -> length s = length (hd [] sh)) /\ length root = 32 /\
  (forall s, In s sib -> length s = 32).
Proof. exact from_proto_accepts_wellformed. Qed.
Print Assumptions C19_wire_accepts_only_wellformed.

Theorem C19_wire_accepts_every_wellformed : forall w s0 rest,
  w_shards w = s0 :: rest -> (forall s, In s rest -> length s = length s0) -> length (w_root w) = 32 ->
  from_proto w = WOk (w_shards w) (w_root w) (map into32 (w_siblings w)).
Proof. exact from_proto_complete. Qed.
Print Assumptions C19_wire_accepts_every_wellformed.

(* the decoder before the repair (registered finding, fixed): an empty shard list or a root that is not 32 bytes
   long made the stream handler panic, and a LAST shard of another length was let through *)
Example C19_wire_before_fix_refuted :
  from_proto_before_fix (mkWire [] (repeat zero_byte 32) []) = WPanic /\
  from_proto_before_fix (mkWire [[B 1]] [B 1; B 2] []) = WPanic /\
  wire_wf (from_proto_before_fix (mkWire [[B 1]; [B 1]; [B 1; B 2; B 3]] (repeat zero_byte 32) [])) = false /\
  from_proto (mkWire [] (repeat zero_byte 32) []) = WErr /\
  from_proto (mkWire [[B 1]] [B 1; B 2] []) = WErr /\
  from_proto (mkWire [[B 1]; [B 1]; [B 1; B 2; B 3]] (repeat zero_byte 32) []) = WErr.
Proof. vm_compute. repeat split; reflexivity. Qed.
