(* C20 — executable list model of juno's pre-confirmed chain storage and of the overlay state (re-exported by Model.v).
   Transcribed from
     sync/preconfirmed/chain_storage.go   computeUpdate / bootstrapChain / extend / replaceSlot /
                                          shouldPreserveSlot / mergeClassesCopying / AdvanceTo /
                                          SnapshotForBlock / TransactionByHash / ReceiptByHash /
                                          PreConfirmedStateAt / PreConfirmedStateBeforeIndexAt
     adapters/sn2core/sn2core.go          AdaptPreConfirmedBlock / AdaptPreConfirmedWithDelta
     core/state_update.go                 StateDiff.Merge
     core/pending/state.go                State.{ContractStorage,ContractNonce,ContractClassHash,
                                          Class,CompiledClassHash,CompiledClassHashV2,
                                          ContractStorageLastUpdatedBlock}
   No proofs in this file; it is extracted to OCaml and run against the Go code.

   Representation.  The Go chain is an immutable parent-linked list, newest node first; here it is
   a [list entry], newest first.  A [ChainReader] {head,length} is the list of the first [length]
   nodes reachable from [head]; the published chain is always nil-terminated after exactly
   [length] nodes (bootstrap / extend / replace / rebuild construct it that way), so it is the
   whole list.  Felts, block numbers, identifiers, hashes: N.  The identifier "0x0"
   (feeder.PreConfirmedBlankIdentifier) is 0.  Header.TransactionCount always equals
   len(Block.Transactions) (both adapters set it so) and is not a separate field. *)
From Coq Require Import List NArith Bool.
Import ListNotations.
Open Scope N_scope.

(* ---------- association lists (Go maps): first match wins ---------- *)
Fixpoint alookup {V : Type} (k : N) (m : list (N * V)) : option V :=
  match m with
  | [] => None
  | (k', v) :: r => if k =? k' then Some v else alookup k r
  end.

Definition amem {V : Type} (k : N) (m : list (N * V)) : bool :=
  match alookup k m with Some _ => true | None => false end.

Definition k2eqb (a b : N * N) : bool := (fst a =? fst b) && (snd a =? snd b).

Fixpoint slookup (k : N * N) (m : list ((N * N) * N)) : option N :=
  match m with
  | [] => None
  | (k', v) :: r => if k2eqb k k' then Some v else slookup k r
  end.

(* ---------- core.StateDiff ---------- *)
Record diff := mkDiff {
  d_storage  : list ((N * N) * N);   (* (contract, slot) -> value      StorageDiffs            *)
  d_nonces   : list (N * N);         (* contract -> nonce              Nonces                  *)
  d_deployed : list (N * N);         (* contract -> class hash         DeployedContracts       *)
  d_replaced : list (N * N);         (* contract -> class hash         ReplacedClasses         *)
  d_decl1    : list (N * N);         (* class hash -> compiled hash    DeclaredV1Classes       *)
  d_migrated : list (N * N);         (* class hash -> compiled hash    MigratedClasses         *)
  d_decl0    : list N                (* DeclaredV0Classes (a slice: appended)                  *)
}.

Definition empty_diff : diff := mkDiff [] [] [] [] [] [] [].

(* StateDiff.Merge: every map entry of [inc] overrides the one of [d]; the v0 slice is appended.
   With first-match-wins lookup, "override" is prepending. *)
Definition merge (d inc : diff) : diff :=
  mkDiff (d_storage inc ++ d_storage d) (d_nonces inc ++ d_nonces d)
         (d_deployed inc ++ d_deployed d) (d_replaced inc ++ d_replaced d)
         (d_decl1 inc ++ d_decl1 d) (d_migrated inc ++ d_migrated d)
         (d_decl0 d ++ d_decl0 inc).

Definition merge_all (acc : diff) (ds : list diff) : diff := fold_left merge ds acc.

(* ---------- declared-class maps (map[felt.Felt]core.ClassDefinition): len() is consulted, so
   these are kept duplicate-free ---------- *)
Definition cmap := list (N * N).     (* class hash -> class definition (an id) *)

Fixpoint cins (k v : N) (m : cmap) : cmap :=
  match m with
  | [] => [(k, v)]
  | (k', v') :: r => if k =? k' then (k, v) :: r else (k', v') :: cins k v r
  end.

(* maps.Copy(dst, src) on a clone of dst *)
Definition ccopy (dst src : cmap) : cmap := fold_left (fun m kv => cins (fst kv) (snd kv) m) src dst.
Definition cnorm (m : cmap) : cmap := ccopy [] m.

(* mergeClassesCopying(base, extra) *)
Definition merge_classes_copying (base extra : cmap) : cmap :=
  match extra with [] => base | _ => ccopy base extra end.

(* mergeClassesInto(dst, src) — same contents *)
Definition merge_classes_into (dst src : cmap) : cmap :=
  match src with [] => dst | _ => ccopy dst src end.

(* ---------- entries ---------- *)
Record item := mkItem {
  it_hash  : N;     (* tx.Hash()                        *)
  it_tx    : N;     (* the transaction (payload id)     *)
  it_rhash : N;     (* receipt.TransactionHash          *)
  it_rc    : N;     (* the receipt (payload id)         *)
  it_diff  : diff   (* TransactionStateDiffs[i]         *)
}.

Record entry := mkEntry {
  e_num     : N;           (* Block.Number             *)
  e_id      : N;           (* BlockIdentifier          *)
  e_items   : list item;   (* Transactions / Receipts / TransactionStateDiffs, index-aligned *)
  e_diff    : diff;        (* StateUpdate.StateDiff    *)
  e_classes : cmap         (* NewClasses               *)
}.

Definition chain := list entry.      (* newest first *)

(* ---------- wire updates ---------- *)
(* fault: 0 = adapts fine; 1 = sn2core returns an error (e.g. a malformed address key in a
   state diff); 2 = core.CheckBlockVersion rejects starknet_version (full blocks only). *)
Record ublock := mkUBlock { ub_id : N; ub_items : list item; ub_fault : N }.
Record udelta := mkUDelta { ud_id : N; ud_items : list item; ud_fault : N }.
Inductive upd := UBlock (b : ublock) | UDelta (d : udelta) | UNoChange.

Inductive err :=
| EBootstrapKind      (* "bootstrap rejected: want PreConfirmedBlock"              *)
| EBootstrapHeight    (* "bootstrap block %d invalid: oldest pre-confirmed slot"   *)
| EUnaligned          (* "chain's oldest pre-confirmed slot %d not aligned"        *)
| EBelowOldest        (* "applying target %d below the oldest pre-confirmed slot"  *)
| EGap                (* "gap above tip"                                           *)
| EAppendKind         (* "append rejected at slot"                                 *)
| EDeltaNonTip        (* "delta at non-tip slot"                                   *)
| EBaseTxCount        (* ErrBaseTxCountMismatch                                    *)
| EIdMismatch         (* sn2core.ErrPreConfirmedIdentifierMismatch                 *)
| ENoChangeNonTip     (* "no-change at non-tip slot"                               *)
| EAdapt              (* adapter error                                             *)
| EVersion.           (* unsupported block version                                 *)

(* (newChain, affected, err) of computeUpdate: newChain == nil is RNoop *)
Inductive apply_res := RErr (e : err) | RNoop | RApplied (c : chain) (affected : entry).

(* ---------- ChainReader accessors ---------- *)
Definition tip (c : chain) : N := match c with [] => 0 | e :: _ => e_num e end.
(* head.Number - uint64(length-1); truncated subtraction stands for the uint64 one: under the
   contiguity invariant the difference is the oldest entry's number and never wraps. *)
Definition oldest (c : chain) : N := tip c - (N.of_nat (length c) - 1).
Definition contains (c : chain) (n : N) : bool :=
  match c with [] => false | _ => (oldest c <=? n) && (n <=? tip c) end.

(* ---------- sn2core ---------- *)
Definition squash (acc : diff) (its : list item) : diff := merge_all acc (map it_diff its).

(* AdaptPreConfirmedBlock: per-tx diffs squashed into a fresh diff, in order *)
Definition adapt_block (b : ublock) (n : N) : entry :=
  mkEntry n (ub_id b) (ub_items b) (squash empty_diff (ub_items b)) [].

(* AdaptPreConfirmedWithDelta (after the identifier check) *)
Definition adapt_delta (cur : entry) (d : udelta) : entry :=
  mkEntry (e_num cur) (e_id cur) (e_items cur ++ ud_items d)
          (squash (merge empty_diff (e_diff cur)) (ud_items d)) (e_classes cur).

(* adapt + CheckBlockVersion + next.NewClasses = newClasses *)
Definition adapt_checked (b : ublock) (n : N) (cls : cmap) : err + entry :=
  if ub_fault b =? 1 then inl EAdapt
  else if ub_fault b =? 2 then inl EVersion
  else let e := adapt_block b n in
       inr (mkEntry (e_num e) (e_id e) (e_items e) (e_diff e) cls).

Definition len {A : Type} (l : list A) : N := N.of_nat (length l).

(* shouldPreserveSlot *)
Definition should_preserve (existing incoming : entry) : bool :=
  if negb (e_id incoming =? e_id existing) && negb (e_id incoming =? 0) then false
  else if len (e_items existing) <? len (e_items incoming) then false
  else if len (e_classes existing) <? len (e_classes incoming) then false
  else true.

(* ---------- computeUpdate ---------- *)
Definition bootstrap_chain (b : ublock) (bn oldest_pc : N) (cls : cmap) : apply_res :=
  if negb (bn =? oldest_pc) then RErr EBootstrapHeight
  else match adapt_checked b bn cls with
       | inl e => RErr e
       | inr next => RApplied [next] next
       end.

Definition extend (cur : chain) (b : ublock) (bn : N) (cls : cmap) : apply_res :=
  match adapt_checked b bn cls with
  | inl e => RErr e
  | inr next => RApplied (next :: cur) next
  end.

(* replaceSlot.  [rest] = target :: older nodes (the walk down [depth] parent pointers). *)
Definition replace_slot (cur : chain) (u : upd) (bn base_tx : N) (cls : cmap) : apply_res :=
  let depth := N.to_nat (tip cur - bn) in
  match skipn depth cur with
  | [] => RNoop   (* unreachable: caller established oldest <= bn <= tip *)
  | target :: parents =>
    match u with
    | UBlock b =>
        match adapt_checked b bn cls with
        | inl e => RErr e
        | inr next => if should_preserve target next then RNoop
                      else RApplied (next :: parents) next
        end
    | UDelta d =>
        if negb (Nat.eqb depth 0) then RErr EDeltaNonTip
        else if negb (len (e_items target) =? base_tx) then RErr EBaseTxCount
        else if negb (e_id target =? ud_id d) then RErr EIdMismatch
        else if ud_fault d =? 1 then RErr EAdapt
        else let n0 := adapt_delta target d in
             let next := mkEntry (e_num n0) (e_id n0) (e_items n0) (e_diff n0)
                                 (merge_classes_copying (e_classes n0) cls) in
             RApplied (next :: parents) next
    | UNoChange =>
        match cls with
        | [] => RNoop
        | _ =>
          if negb (Nat.eqb depth 0) then RErr ENoChangeNonTip
          else let merged := merge_classes_copying (e_classes target) cls in
               if len merged =? len (e_classes target) then RNoop
               else let next := mkEntry (e_num target) (e_id target) (e_items target)
                                        (e_diff target) merged in
                    RApplied (next :: parents) next
        end
    end
  end.

Definition compute_update (cur : chain) (u : upd) (bn base_tx oldest_pc : N) (cls0 : cmap)
  : apply_res :=
  let cls := cnorm cls0 in
  match cur with
  | [] => match u with
          | UBlock b => bootstrap_chain b bn oldest_pc cls
          | _ => RErr EBootstrapKind
          end
  | _ =>
    let cur_oldest := oldest cur in
    if negb (cur_oldest =? oldest_pc) then RErr EUnaligned
    else if bn <? cur_oldest then RErr EBelowOldest
    else if tip cur + 1 <? bn then RErr EGap
    else if bn =? tip cur + 1 then
      match u with
      | UBlock b => extend cur b bn cls
      | _ => RErr EAppendKind
      end
    else replace_slot cur u bn base_tx cls
  end.

(* ---------- AdvanceTo ---------- *)
(* rebuild(head, keep) copies the newest [keep] nodes: the same list of entries *)
Definition advance_to (cur : chain) (oldest_pc : N) : chain * bool :=
  match cur with
  | [] => (cur, false)
  | _ =>
    let cur_oldest := oldest cur in
    if oldest_pc =? cur_oldest then (cur, false)
    else if negb (contains cur oldest_pc) then ([], true)
    else let drop := N.to_nat (oldest_pc - cur_oldest) in
         let keep := (length cur - drop)%nat in
         (firstn keep cur, true)
  end.

(* ---------- SnapshotForBlock ---------- *)
Definition snapshot (cur : chain) (bn : N) : chain :=
  if contains cur bn then firstn (N.to_nat (tip cur - bn + 1)) cur else [].

(* ---------- the storage as a state machine ---------- *)
Inductive op :=
| Apply (u : upd) (bn base_tx oldest_pc : N) (cls : cmap)
| AdvanceTo (oldest_pc : N)
| Snapshot (bn : N).

Inductive out :=
| OApply (r : apply_res)     (* RApplied carries the new chain and the affected entry *)
| OAdvance (changed : bool)
| OSnap (v : chain).

Definition step (c : chain) (o : op) : chain * out :=
  match o with
  | Apply u bn bt opc cls =>
      let r := compute_update c u bn bt opc cls in
      (match r with RApplied c' _ => c' | _ => c end, OApply r)
  | AdvanceTo n => let (c', b) := advance_to c n in (c', OAdvance b)
  | Snapshot n => (c, OSnap (snapshot c n))
  end.

Fixpoint run (c : chain) (ops : list op) : chain * list out :=
  match ops with
  | [] => (c, [])
  | o :: r => let (c', x) := step c o in let (c'', xs) := run c' r in (c'', x :: xs)
  end.

Definition final (ops : list op) : chain := fst (run [] ops).

(* ---------- property predicates (also evaluated by the harness on what the Go code did) ------ *)
Fixpoint nseq (start : N) (n : nat) : list N :=
  match n with O => [] | S k => start :: nseq (start + 1) k end.

Definition numbers (c : chain) : list N := map e_num (rev c).      (* oldest first *)

Fixpoint list_eqb (a b : list N) : bool :=
  match a, b with
  | [], [] => true
  | x :: a', y :: b' => (x =? y) && list_eqb a' b'
  | _, _ => false
  end.

(* gap-free run starting at [first] *)
Definition contiguous_from (first : N) (c : chain) : bool :=
  list_eqb (numbers c) (nseq first (length c)).

(* a view handed out for head h (SnapshotForBlock(h+1)) is empty or a gap-free run from h+1 *)
Definition view_aligned (head : N) (v : chain) : bool :=
  match v with [] => true | _ => contiguous_from (head + 1) v end.

(* ---------- lookups ---------- *)
Fixpoint find_tx (its : list item) (h : N) : option N :=
  match its with
  | [] => None
  | it :: r => if it_hash it =? h then Some (it_tx it) else find_tx r h
  end.

Fixpoint find_rc (its : list item) (h : N) : option N :=
  match its with
  | [] => None
  | it :: r => if it_rhash it =? h then Some (it_rc it) else find_rc r h
  end.

(* ChainReader.TransactionByHash: entries newest first, transactions in block order *)
Fixpoint tx_by_hash (v : chain) (h : N) : option N :=
  match v with
  | [] => None
  | e :: r => match find_tx (e_items e) h with Some t => Some t | None => tx_by_hash r h end
  end.

(* ChainReader.ReceiptByHash: receipt and the number of its block *)
Fixpoint rc_by_hash (v : chain) (h : N) : option (N * N) :=
  match v with
  | [] => None
  | e :: r => match find_rc (e_items e) h with
              | Some x => Some (x, e_num e)
              | None => rc_by_hash r h
              end
  end.

(* ---------- state reads ---------- *)
Inductive query :=
| QStorage (a k : N) | QNonce (a : N) | QClassHash (a : N) | QClass (h : N)
| QCasm (h : N) | QCasmV2 (h : N) | QLastUpd (a k : N).

(* a state reader: None = the reader returned an error *)
Definition reader := query -> option N.

(* pending.State over (stateDiff, newClasses, head, blockNumber) *)
Definition pstate (d : diff) (cls : cmap) (head : reader) (bn : N) : reader :=
  fun q =>
  match q with
  | QStorage a k =>
      match slookup (a, k) (d_storage d) with
      | Some v => Some v
      | None => if amem a (d_deployed d) then Some 0 else head q
      end
  | QNonce a =>
      match alookup a (d_nonces d) with
      | Some v => Some v
      | None => if amem a (d_deployed d) then Some 0 else head q
      end
  | QClassHash a =>
      match alookup a (d_replaced d) with
      | Some v => Some v
      | None => match alookup a (d_deployed d) with Some v => Some v | None => head q end
      end
  | QClass h => match alookup h cls with Some c => Some c | None => head q end
  | QCasm h => match alookup h (d_decl1 d) with Some c => Some c | None => head q end
  | QCasmV2 h => match alookup h (d_migrated d) with Some c => Some c | None => head q end
  | QLastUpd a k =>
      match slookup (a, k) (d_storage d) with
      | Some _ => Some bn
      | None => if amem a (d_deployed d) then Some 0 else head q
      end
  end.

(* entries of the view from the oldest up to and including block b, oldest first *)
Fixpoint upto (b : N) (l : list entry) : list entry :=
  match l with
  | [] => []
  | e :: r => if e_num e =? b then [e] else e :: upto b r
  end.

(* entries strictly before block b, oldest first, and the target *)
Fixpoint before (b : N) (l : list entry) : list entry * option entry :=
  match l with
  | [] => ([], None)
  | e :: r => if e_num e =? b then ([], Some e)
              else let (p, t) := before b r in (e :: p, t)
  end.

Definition classes_of (es : list entry) : cmap :=
  fold_left (fun m e => merge_classes_into m (e_classes e)) es [].

Inductive serr := SNotFound | SIndexOOB | SBroken.

(* ChainReader.PreConfirmedStateAt(b, bc): base = bc.StateAtBlockNumber(oldest-1), supplied by the
   caller as [base] *)
Definition state_at (v : chain) (b : N) (base : reader) : serr + reader :=
  if negb (contains v b) then inl SNotFound
  else let es := upto b (rev v) in
       inr (pstate (merge_all empty_diff (map e_diff es)) (classes_of es) base b).

(* ChainReader.PreConfirmedStateBeforeIndexAt(b, i, bc) *)
Definition state_before_index (v : chain) (b : N) (i : N) (base : reader) : serr + reader :=
  if negb (contains v b) then inl SNotFound
  else match before b (rev v) with
       | (_, None) => inl SBroken
       | (pre, Some target) =>
           if len (e_items target) <? i then inl SIndexOOB
           else let d0 := merge_all empty_diff (map e_diff pre) in
                let cls := merge_classes_into (classes_of pre) (e_classes target) in
                inr (pstate (squash d0 (firstn (N.to_nat i) (e_items target))) cls base b)
       end.

(* ---------- the specification side: diffs applied one block at a time, in order ---------- *)
(* the state after applying one block's diff (number n, declared classes cls) to a state: what
   reading the canonical state would give had the block been stored on top of it *)
Definition overlay1 (n : N) (d : diff) (cls : cmap) (r : reader) : reader := pstate d cls r n.

Definition layer := (N * diff * cmap)%type.

Definition apply_diffs (ls : list layer) (base : reader) : reader :=
  fold_left (fun r l => overlay1 (fst (fst l)) (snd (fst l)) (snd l) r) ls base.

Definition layer_of (e : entry) : layer := (e_num e, e_diff e, e_classes e).

Definition ldiff (l : layer) : diff := snd (fst l).
Definition lcls (l : layer) : cmap := snd l.

(* the layers PreConfirmedStateBeforeIndexAt stands for: blocks before b, then the first i
   per-transaction diffs of b (squashed), carrying b's declared classes *)
Definition before_layers (pre : list entry) (target : entry) (i : N) : list layer :=
  map layer_of pre ++
  [(e_num target, squash empty_diff (firstn (N.to_nat i) (e_items target)), e_classes target)].

(* the same, one WIRE transaction at a time: what the feeder sent for each block, in order.  Each
   block contributes a class layer (its declared classes, no writes) and one layer per transaction *)
Definition entry_layers (e : entry) : list layer :=
  (e_num e, empty_diff, e_classes e) :: map (fun it => (e_num e, it_diff it, @nil (N * N))) (e_items e).
Definition tx_layers (es : list entry) : list layer := flat_map entry_layers es.
Definition before_tx_layers (pre : list entry) (target : entry) (i : N) : list layer :=
  tx_layers pre ++
  (e_num target, empty_diff, e_classes target)
    :: map (fun it => (e_num target, it_diff it, @nil (N * N))) (firstn (N.to_nat i) (e_items target)).

(* validity of a run of diffs w.r.t. deployment: a contract deployed by a diff has not been
   touched (storage, nonce, replaced class) by an earlier diff of the run.  The canonical chain
   rejects anything else (deploy of an existing contract). *)
Definition touches (m : diff) (a : N) : bool :=
  existsb (fun kv => fst (fst kv) =? a) (d_storage m) || amem a (d_nonces m) || amem a (d_replaced m).

Fixpoint deploy_fresh_acc (acc : diff) (ds : list diff) : bool :=
  match ds with
  | [] => true
  | d :: r => forallb (fun kv => negb (touches acc (fst kv))) (d_deployed d)
              && deploy_fresh_acc (merge acc d) r
  end.
Definition deploy_fresh (ds : list diff) : bool := deploy_fresh_acc empty_diff ds.

Definition is_lastupd (q : query) : bool := match q with QLastUpd _ _ => true | _ => false end.

(* ---------- single writer, lock-free readers: Load / CompareAndSwap split ---------- *)
(* The published pointer is modelled as (version, chain): every successful CAS installs a fresh
   pointer, so pointer equality is version equality.  The writer (poller goroutine) is a
   sequential program: WLoad o (s.inner.Load() at the start of ApplyUpdate/AdvanceTo for op o)
   followed later by WCas (the CompareAndSwap, or nothing to publish); reader loads may fall
   anywhere in between. *)
Inductive ev := WLoad (o : op) | WCas | RLoad (bn : N).

Record cstate := mkC {
  c_ver : N; c_pub : chain;
  c_wr : option (N * chain * op);      (* what the writer loaded, and for which op *)
  c_views : list chain;                (* views handed to readers, newest first *)
  c_cas_failed : bool
}.

Definition cinit : cstate := mkC 0 [] None [] false.

(* does op o, computed on the chain the writer loaded, reach a CompareAndSwap? *)
Definition publishes (c : chain) (o : op) : bool :=
  match snd (step c o) with
  | OApply (RApplied _ _) => true
  | OAdvance true => true
  | _ => false
  end.

Definition cstep (s : cstate) (e : ev) : cstate :=
  match e with
  | WLoad o => mkC (c_ver s) (c_pub s) (Some (c_ver s, c_pub s, o)) (c_views s) (c_cas_failed s)
  | WCas =>
      match c_wr s with
      | None => s
      | Some (v, cur, o) =>
          let c' := fst (step cur o) in
          if negb (publishes cur o) then mkC (c_ver s) (c_pub s) None (c_views s) (c_cas_failed s)
          else if v =? c_ver s then mkC (c_ver s + 1) c' None (c_views s) (c_cas_failed s)
          else mkC (c_ver s) (c_pub s) None (c_views s) true
      end
  | RLoad bn => mkC (c_ver s) (c_pub s) (c_wr s) (snapshot (c_pub s) bn :: c_views s) (c_cas_failed s)
  end.

Definition crun (s : cstate) (evs : list ev) : cstate := fold_left cstep evs s.

(* single-writer discipline: loads and CASes alternate *)
Fixpoint single_writer (pending : bool) (evs : list ev) : bool :=
  match evs with
  | [] => true
  | WLoad _ :: r => negb pending && single_writer true r
  | WCas :: r => pending && single_writer false r
  | RLoad _ :: r => single_writer pending r
  end.

(* the writer ops completed (CAS done) in a schedule, in order *)
Fixpoint completed (pending : option op) (evs : list ev) : list op :=
  match evs with
  | [] => []
  | WLoad o :: r => completed (Some o) r
  | WCas :: r => match pending with Some o => o :: completed None r | None => completed None r end
  | RLoad _ :: r => completed pending r
  end.
